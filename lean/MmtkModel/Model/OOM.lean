/-!
# Model of the allocation slow path: retry loop, out-of-memory handling, allocation options (C10)

Transcribed branch for branch from mmtk-core:

* `src/util/alloc/allocator.rs`: `AllocationOptions`, `Allocator::alloc_with_options`,
  `Allocator::alloc_slow_inline` (the retry loop), `Allocator::handle_obvious_oom_request`,
  `Allocator::out_of_memory`, `reset_allocation_state`;
* `src/util/alloc/bumpallocator.rs::acquire_block`, `large_object_allocator.rs::alloc_slow_once`
  (the two callers of `handle_obvious_oom_request`, *before* `Space::acquire`);
* `src/policy/space.rs`: `Space::acquire`, `Space::not_acquiring`;
* `src/util/heap/gc_trigger.rs`: `GCTrigger::poll` (answer = environment), `will_oom_on_alloc`
  (answer = `Req.obvious`: it only depends on the request size and the fixed maximal heap size);
* `src/global_state.rs`: `is_emergency_collection`, `allocation_success` (both are *global* atomics
  written by GC threads and other mutators: every read is an environment answer).

Scope: a mutator thread (`is_mutator = true`; the collector branch of the loop returns the first
result unconditionally). Everything the loop cannot decide itself is an answer of the
**environment**, one record per loop iteration, universally quantified in the theorems.
Time is counted in loop iterations; `run` takes fuel and has an explicit `outOfFuel` outcome so
that non-termination is expressible ("for every fuel the outcome is `outOfFuel`").
-/
namespace Mmtk.OOM

/-- `AllocationOptions` (allocator.rs). Default = `{false, true, true}`. -/
structure Opts where
  allowOvercommit : Bool
  atSafepoint : Bool
  allowOomCall : Bool
  deriving DecidableEq, Repr

def Opts.default : Opts := { allowOvercommit := false, atSafepoint := true, allowOomCall := true }

/-- One allocation request that reached `alloc_slow_inline`: the options installed by
`alloc_with_options`, and `obvious` = "this allocator's `alloc_slow_once` calls
`handle_obvious_oom_request` and `gc_trigger.will_oom_on_alloc(size)` answers true"
(`size >> LOG_BYTES_IN_PAGE > max_heap_pages`; constant for the whole request). -/
structure Req where
  opts : Opts
  obvious : Bool
  deriving DecidableEq, Repr

/-- Observable events (calls into the binding / the GC trigger), in program order. -/
inductive Event
  | oomCall       -- `Collection::out_of_memory(tls, HeapOutOfMemory)`  (Allocator::out_of_memory)
  | gcRequested   -- `poll(false, space)` returned true (it called `GCTrigger::request`)
  | forcedGc      -- `poll(true, space)` in `not_acquiring` (pages were promised but not delivered)
  | blockForGc    -- `Collection::block_for_gc(tls)`
  | pagesGranted  -- `get_new_pages_and_initialize` returned `Some`
  deriving DecidableEq, Repr

/-- Environment answers during one loop iteration. -/
structure EnvRec where
  /-- `alloc_slow_once` is satisfied without `Space::acquire` (recycled lines, free-list cell …). -/
  localHit : Bool
  /-- answer of `self.get_gc_trigger().poll(false, Some(space))` in `Space::acquire`. -/
  pollGc : Bool
  /-- `get_new_pages_and_initialize(..)` returned `Some(addr)`. -/
  pagesOk : Bool
  /-- `state.is_emergency_collection()` as read in the `if emergency_collection && …` test. -/
  emergCheck : Bool
  /-- previous value returned by `state.allocation_success.swap(true)`. -/
  succSeen : Bool
  /-- `state.is_emergency_collection()` as read at the end of the loop body. -/
  emergRecord : Bool
  deriving DecidableEq, Repr

/-- An environment: the answers for iteration 0, 1, 2, … -/
abbrev Env := Nat → EnvRec

def Env.tail (env : Env) : Env := fun n => env (n + 1)

inductive Res
  | addr   -- a non-zero address
  | null   -- `Address::ZERO`
  deriving DecidableEq, Repr

/-- Loop-carried state: the per-request `thrown_oom` flag of the `AllocatorContext`, the local
`emergency_collection`, and the events so far. (`previous_result_zero` only feeds stress
accounting.) -/
structure State where
  thrownOom : Bool
  emergLocal : Bool
  trace : List Event
  deriving DecidableEq, Repr

def State.init : State := { thrownOom := false, emergLocal := false, trace := [] }

inductive Outcome
  | done (r : Res) (trace : List Event)
  | outOfFuel (trace : List Event)
  deriving DecidableEq, Repr

def Outcome.trace : Outcome → List Event
  | .done _ t => t
  | .outOfFuel t => t

def Outcome.isDone : Outcome → Bool
  | .done _ _ => true
  | .outOfFuel _ => false

/-- `Space::not_acquiring(tls, alloc_options, pr, pages_reserved, attempted_allocation_and_failed)`:
clear the request; return at once when not at a safepoint; force a GC when pages were promised
but not delivered; `block_for_gc`. -/
def notAcquiring (o : Opts) (attemptedAndFailed : Bool) : List Event :=
  if !o.atSafepoint then []
  else (if attemptedAndFailed then [Event.forcedGc] else []) ++ [Event.blockForGc]

/-- `Space::acquire(tls, pages, alloc_options)`: `gc_triggered = poll(false)`;
`should_get_pages = !gc_triggered || allow_overcommit`. Returns (non-null?, events). -/
def acquire (o : Opts) (e : EnvRec) : Bool × List Event :=
  let pre := if e.pollGc then [Event.gcRequested] else []
  let shouldGetPages := !e.pollGc || o.allowOvercommit
  if shouldGetPages then
    if e.pagesOk then (true, pre ++ [Event.pagesGranted])
    else (false, pre ++ notAcquiring o true)
  else (false, pre ++ notAcquiring o false)

/-- `alloc_slow_once[_traced]` of an allocator (shape of `BumpAllocator::acquire_block`,
`LargeObjectAllocator::alloc_slow_once`): `handle_obvious_oom_request` first — it calls
`out_of_memory` (which sets `thrown_oom`) **only if `allow_oom_call`** and returns true either
way, so the allocator returns zero; otherwise local memory or one `Space::acquire`.
Returns (non-null?, `thrown_oom` was set, events). -/
def allocOnceOld (r : Req) (e : EnvRec) : Bool × Bool × List Event :=
  if r.obvious then
    if r.opts.allowOomCall then (false, true, [Event.oomCall]) else (false, false, [])
  else if e.localHit then (true, false, [])
  else
    let (ok, evs) := acquire r.opts e
    (ok, false, evs)

/-- Result of one loop iteration. -/
inductive Step
  | ret (r : Res) (trace : List Event)
  | cont (s : State)
  deriving DecidableEq, Repr

/-- The body of the `loop { … }` of `alloc_slow_inline` after `alloc_slow_once_traced(..)` returned
`a = (non-zero?, thrown_oom was set, events)`, **as on the pinned tree, before the two `fix:` commits** (kept as `…Old`: the witnesses `F5_witness`,
`F6_witness_diverges` are about it):
1. non-zero → return it;
2. `!at_safepoint` → `reset_allocation_state`, return zero;
3. `thrown_oom` → reset, return zero;
4. `emergency_collection && state.is_emergency_collection()`:
   `fail_with_oom = !allocation_success.swap(true)`; if so **`self.out_of_memory(tls)` — not
   guarded by `allow_oom_call`** (DESIGN §7 F5), reset, return zero;
5. `emergency_collection = state.is_emergency_collection()`; next iteration. -/
def loopBodyOld (r : Req) (e : EnvRec) (s : State) (a : Bool × Bool × List Event) : Step :=
  if a.1 then .ret .addr (s.trace ++ a.2.2)
  else if !r.opts.atSafepoint then .ret .null (s.trace ++ a.2.2)
  else if s.thrownOom || a.2.1 then .ret .null (s.trace ++ a.2.2)
  else if s.emergLocal && e.emergCheck && !e.succSeen then
    .ret .null (s.trace ++ a.2.2 ++ [Event.oomCall])
  else .cont { thrownOom := false, emergLocal := e.emergRecord, trace := s.trace ++ a.2.2 }

/-- One iteration of the loop of the pinned tree. -/
def iterOld (r : Req) (e : EnvRec) (s : State) : Step := loopBodyOld r e s (allocOnceOld r e)

/-- The loop, with fuel. -/
def runOld (r : Req) : Nat → Env → State → Outcome
  | 0, _, s => .outOfFuel s.trace
  | fuel + 1, env, s =>
    match iterOld r (env 0) s with
    | .ret res tr => .done res tr
    | .cont s' => runOld r fuel env.tail s'

/-- `alloc_slow_inline` of the pinned tree. -/
def slowPathOld (r : Req) (fuel : Nat) (env : Env) : Outcome := runOld r fuel env State.init

/-! ## The loop on this tree (after the two `fix:` commits in /repo)

(a) `handle_obvious_oom_request` marks the request as failed (`thrown_oom`) also when
`allow_oom_call = false`, so the loop's `thrown_oom` test returns zero instead of retrying;
(b) the emergency branch calls `out_of_memory` only if `allow_oom_call`. -/

def allocOnce (r : Req) (e : EnvRec) : Bool × Bool × List Event :=
  if r.obvious then
    (false, true, if r.opts.allowOomCall then [Event.oomCall] else [])
  else if e.localHit then (true, false, [])
  else
    let (ok, evs) := acquire r.opts e
    (ok, false, evs)

/-- Loop body on this tree: step 4 calls `out_of_memory` only if `allow_oom_call`. -/
def loopBody (r : Req) (e : EnvRec) (s : State) (a : Bool × Bool × List Event) : Step :=
  if a.1 then .ret .addr (s.trace ++ a.2.2)
  else if !r.opts.atSafepoint then .ret .null (s.trace ++ a.2.2)
  else if s.thrownOom || a.2.1 then .ret .null (s.trace ++ a.2.2)
  else if s.emergLocal && e.emergCheck && !e.succSeen then
    .ret .null (s.trace ++ a.2.2 ++ (if r.opts.allowOomCall then [Event.oomCall] else []))
  else .cont { thrownOom := false, emergLocal := e.emergRecord, trace := s.trace ++ a.2.2 }

def iter (r : Req) (e : EnvRec) (s : State) : Step := loopBody r e s (allocOnce r e)

def run (r : Req) : Nat → Env → State → Outcome
  | 0, _, s => .outOfFuel s.trace
  | fuel + 1, env, s =>
    match iter r (env 0) s with
    | .ret res tr => .done res tr
    | .cont s' => run r fuel env.tail s'

def slowPath (r : Req) (fuel : Nat) (env : Env) : Outcome := run r fuel env State.init

/-! ## Helpers shared by the driver and the statements -/

def count (ev : Event) (t : List Event) : Nat := (t.filter (· == ev)).length

/-- The environment whose answers are `l`, then `d` forever. -/
def Env.ofList (l : List EnvRec) (d : EnvRec) : Env := fun n => l.getD n d

end Mmtk.OOM
