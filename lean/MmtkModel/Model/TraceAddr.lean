import MmtkModel.Model.Trace
/-!
# Addresses for the tracing closure, and the life cycle of never-moving spaces (C04)

## 1. Addresses

`Model/Trace.lean` names to-objects by visiting order.  Here every snapshot object has an address
`addr r`, and every to-object gets an address when it is created by the first visit of `r`:

* `moves r = true`  — `object_forwarding::forward_object` → `copy_context.alloc_copy` : some address
  chosen by the copy allocator; the model takes it from an arbitrary function `place r n`;
* `moves r = false` — every non-copying branch of the policies' `trace_object` *returns `object`
  itself* (`immortalspace.rs::trace_object`, `largeobjectspace.rs::trace_object`,
  `immixspace.rs::trace_object_without_moving`, the `is_pinned(object) || space_exhausted` branch of
  `trace_object_with_opportunistic_copy`, `markcompactspace.rs::trace_mark_object`, native
  mark-sweep): the to-object *is* the object, at `addr r`.

`policyMoves` spells out which objects a plan may move: only objects of the plan's default / copying
space, and of those only the ones that are neither pinned (`pin_bit.rs`, checked by Immix before
copying) nor hit by "copy reserve exhausted".  `Immortal`, `Los`, `NonMoving`, `ReadOnly`, `Code`,
`LargeCode` go to spaces whose `SFT::is_movable()` is `false` / whose `trace_object` never copies.

## 2. Spaces that never give memory back

`ImmortalSp` — `policy/immortalspace.rs`: a `MonotonePageResource` (bump cursor) and a mark state.
Its complete set of operations is: allocate (`acquire` bumps the cursor), `prepare` (reset mark
bits), `trace_object` (`test_and_mark`), `release` (`mark_state.on_global_release`, frees nothing);
`release_multiple_pages` panics ("immortalspace only releases pages enmasse") and nothing calls
`pr.reset`.  Under the NoGC plan (`plan/nogc/global.rs`) all three spaces (`nogc_space`, `immortal`,
`los`) are `ImmortalSpace`s and `prepare`/`release`/`schedule_collection` are `unreachable!()`, so
the only operation is allocation.

`LosSp` — `policy/largeobjectspace.rs`: objects sit on the treadmill; `trace_object` =
`test_and_mark` + `treadmill.copy` (move the node to the to-space list — the *object* does not move);
`release` → `sweep_large_pages` releases the pages of exactly the objects left in
`collect_nursery` / `from_space`, i.e. the unmarked ones.
-/
namespace Mmtk.Trace

/-! ### 1. addresses -/

structure AState where
  st : State
  /-- address of to-object `n` -/
  taddr : Id → Nat

def initA (S : Snap) : AState := ⟨init S, fun _ => 0⟩

def processSlotA (S : Snap) (moves : Id → Bool) (addr : Id → Nat) (place : Id → Id → Nat)
    (a : AState) (i : Nat) : AState where
  st := processSlot S moves a.st i
  taddr :=
    match newlyForwarded S a.st i with
    | some r => fun n => if n = a.st.fresh then (if moves r then place r n else addr r) else a.taddr n
    | none => a.taddr

def execA (S : Snap) (moves : Id → Bool) (addr : Id → Nat) (place : Id → Id → Nat)
    (a : AState) (run : List Nat) : AState :=
  run.foldl (processSlotA S moves addr place) a

/-- allocation semantics (`AllocationSemantics` in `src/util/alloc/allocators.rs` / `plan/global.rs`) -/
inductive Sem where
  | default | immortal | los | nonMoving | readOnly | code | largeCode
deriving DecidableEq, Repr

/-- Which objects a plan may move: `copying` = the plan's default space is a copying / defragmenting
one; `pinned` = pin bit set at GC time; `exhausted` = the oracle "no copy reserve left". -/
def policyMoves (copying : Bool) (sem : Id → Sem) (pinned exhausted : Id → Bool) (r : Id) : Bool :=
  match sem r with
  | .default => copying && !pinned r && !exhausted r
  | _ => false

/-! ### 2. never-released spaces -/

structure Cell where
  id : Id
  addr : Nat
  size : Nat
deriving DecidableEq, Repr

def Cell.disjoint (a b : Cell) : Prop := a.addr + a.size ≤ b.addr ∨ b.addr + b.size ≤ a.addr

structure ImmortalSp where
  /-- `MonotonePageResource` cursor: everything below has been handed out -/
  cursor : Nat
  /-- every object ever allocated in the space -/
  cells : List Cell
  marked : Id → Bool

/-- The complete operation alphabet of an immortal space (there is no operation that frees). -/
inductive ImmOp where
  | alloc (id : Id) (pad size : Nat)     -- bump: alignment padding, then the object
  | prepare                              -- reset mark bits
  | trace (id : Id)                      -- `test_and_mark`
  | release                              -- `on_global_release`: nothing

def ImmortalSp.step (sp : ImmortalSp) : ImmOp → ImmortalSp
  | .alloc id pad size =>
    { sp with cursor := sp.cursor + pad + size, cells := ⟨id, sp.cursor + pad, size⟩ :: sp.cells }
  | .prepare => { sp with marked := fun _ => false }
  | .trace id => { sp with marked := fun x => if x = id then true else sp.marked x }
  | .release => sp

def ImmortalSp.run (sp : ImmortalSp) (ops : List ImmOp) : ImmortalSp := ops.foldl ImmortalSp.step sp

/-- all cells below the cursor, pairwise disjoint -/
def ImmortalSp.ok (sp : ImmortalSp) : Prop :=
  (∀ c, c ∈ sp.cells → c.addr + c.size ≤ sp.cursor) ∧ sp.cells.Pairwise Cell.disjoint

/-- NoGC: the only thing that ever happens to a space is allocation. -/
def nogcOps (allocs : List (Id × Nat × Nat)) : List ImmOp :=
  allocs.map (fun a => ImmOp.alloc a.1 a.2.1 a.2.2)

structure LosSp where
  cells : List Cell
  /-- page ranges given back to the page resource -/
  freed : List Cell

inductive LosOp where
  | alloc (c : Cell)                    -- pages from the free-list page resource
  | gc (marked : Id → Bool)             -- prepare (flip) ; trace (mark + treadmill.copy) ; release (sweep)

def LosSp.step (sp : LosSp) : LosOp → LosSp
  | .alloc c => { sp with cells := c :: sp.cells }
  | .gc marked =>
    { cells := sp.cells.filter (fun c => marked c.id)
      freed := sp.cells.filter (fun c => !marked c.id) ++ sp.freed }

end Mmtk.Trace
