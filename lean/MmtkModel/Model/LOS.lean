import MmtkModel.Model.Treadmill
/-!
# Model of `src/policy/largeobjectspace.rs` (`LargeObjectSpace`) on top of the treadmill model

State = the treadmill (`Mmtk.Treadmill.TM`) + the per-object `LOCAL_LOS_MARK_NURSERY_SPEC` bits
(bit 0 = mark, bit 1 = nursery; a total function from objects, side metadata of unallocated
addresses is simply never read) + `mark_state` + `in_nursery_gc` + `common.allocate_as_live`.

Operations are transcribed branch for branch from `largeobjectspace.rs`:
`initialize_object_metadata` (`alloc`), `prepare`, `is_in_nursery`, `test_and_mark`, `trace_object`,
`release` (`sweep_large_pages(true)`, then `sweep_large_pages(false)` iff `full_heap`).
Single-threaded: the CAS of `test_and_mark` succeeds at the first attempt.
`u8` values are `Nat`s; `!LOS_BIT_MASK` on a `u8` is `0xFC`.
-/
namespace Mmtk.LOS
open Mmtk.Treadmill

/-- `const MARK_BIT: u8 = 0b01`. -/
def MARK_BIT : Nat := 1
/-- `const NURSERY_BIT: u8 = 0b10`. -/
def NURSERY_BIT : Nat := 2
/-- `const LOS_BIT_MASK: u8 = 0b11`. -/
def LOS_BIT_MASK : Nat := 3
/-- `!LOS_BIT_MASK` as a `u8`. -/
def NOT_LOS_BIT_MASK : Nat := 252

/-- `struct LargeObjectSpace` (the fields the policy logic reads or writes) + the mark/nursery side
metadata. -/
structure LOS where
  tm : TM := {}
  bits : Obj → Nat := fun _ => 0
  markState : Nat := 0
  inNurseryGc : Bool := false
  allocateAsLive : Bool := false

/-- `store_atomic` / successful `compare_exchange_metadata` on the bits of one object. -/
def setBits (b : Obj → Nat) (o : Obj) (v : Nat) : Obj → Nat := fun x => if x = o then v else b x

/-- `Space::set_allocate_as_live`. -/
def setAllocateAsLive (s : LOS) (live : Bool) : LOS := { s with allocateAsLive := live }

/-- `SFT::initialize_object_metadata(object, _bytes)`:
`into_nursery = !should_allocate_as_live()`; bits := `mark_state | NURSERY_BIT` resp. `mark_state`;
`treadmill.add_to_treadmill(object, into_nursery)`. (VO bit and unlog bit are not modelled.) -/
def alloc (s : LOS) (o : Obj) : LOS :=
  let allocateAsLive := s.allocateAsLive
  let intoNursery := !allocateAsLive
  let markNurseryState := if intoNursery then s.markState ||| NURSERY_BIT else s.markState
  { s with bits := setBits s.bits o markNurseryState, tm := addToTreadmill s.tm o intoNursery }

/-- `LargeObjectSpace::prepare(full_heap)`.  `MARK_BIT - self.mark_state` is a `u8` subtraction
(it would overflow-panic for `mark_state > 1`; `mark_state ≤ 1` is an invariant, see C36). -/
def prepare (s : LOS) (fullHeap : Bool) : LOS :=
  let ms := if fullHeap then MARK_BIT - s.markState else s.markState
  { s with markState := ms, tm := flip s.tm fullHeap, inNurseryGc := !fullHeap }

/-- `LargeObjectSpace::is_in_nursery`. -/
def isInNursery (s : LOS) (o : Obj) : Bool := s.bits o &&& NURSERY_BIT == NURSERY_BIT

/-- `LargeObjectSpace::test_mark_bit(object, value)`. -/
def testMarkBit (s : LOS) (o : Obj) (value : Nat) : Bool := s.bits o &&& MARK_BIT == value

/-- `LargeObjectSpace::is_marked` (and, on the pinned tree, `SFT::is_live`). -/
def isMarked (s : LOS) (o : Obj) : Bool := testMarkBit s o s.markState

/-- `SFT::is_live` on this tree (after the `fix:` commit): the mark state does not flip in a nursery
GC, so an untraced young object still carries the mark it was allocated with; it is live only once
tracing has cleared its nursery bit. -/
def isLive (s : LOS) (o : Obj) : Bool := isMarked s o && !(s.inNurseryGc && isInNursery s o)

/-- `LargeObjectSpace::test_and_mark(object, value)`: `mask = LOS_BIT_MASK` in a nursery GC, else
`MARK_BIT`; if `old & mask == value` return false; else store `old & !LOS_BIT_MASK | value`
(clears the nursery bit) and return true. -/
def testAndMark (s : LOS) (o : Obj) (value : Nat) : Bool × LOS :=
  let mask := if s.inNurseryGc then LOS_BIT_MASK else MARK_BIT
  let oldValue := s.bits o
  let markBit := oldValue &&& mask
  if markBit == value then (false, s)
  else (true, { s with bits := setBits s.bits o ((oldValue &&& NOT_LOS_BIT_MASK) ||| value) })

/-- `LargeObjectSpace::trace_object(queue, object)`: returns whether the object was enqueued.
`none` = the `debug_assert!` of `TreadMill::copy` fired (debug builds). -/
def traceObject (debug : Bool) (s : LOS) (o : Obj) : Option (Bool × LOS) :=
  let nurseryObject := isInNursery s o
  if !s.inNurseryGc || nurseryObject then
    let (marked, s1) := testAndMark s o s.markState
    if marked then
      match copy debug s1.tm o nurseryObject with
      | none => none
      | some t => some (true, { s1 with tm := t })
    else some (false, s1)
  else some (false, s)

/-- `LargeObjectSpace::sweep_large_pages(sweep_nursery)`: the objects handed to `release_pages`. -/
def sweepLargePages (s : LOS) (sweepNursery : Bool) : List Obj × LOS :=
  if sweepNursery then
    let (r, t) := collectNursery s.tm
    (r, { s with tm := t })
  else
    let (r, t) := collectMature s.tm
    (r, { s with tm := t })

/-- `LargeObjectSpace::release(full_heap)`: the swept objects (nursery sweep first).
`none` = `debug_assert!(self.treadmill.is_alloc_nursery_empty())` fired (debug builds); the two
later assertions (`collect_nursery` / `from_space` empty after `mem::take`) cannot fire.
The last statement resets `in_nursery_gc` (added by the `fix:` commit that makes `is_live` exact in nursery GCs). -/
def release (debug : Bool) (s : LOS) (fullHeap : Bool) : Option (List Obj × LOS) :=
  if debug && !s.tm.allocNursery.isEmpty then none else
  let (r1, s1) := sweepLargePages s true
  if fullHeap then
    let (r2, s2) := sweepLargePages s1 false
    some (r1 ++ r2, { s2 with inNurseryGc := false })
  else some (r1, { s1 with inNurseryGc := false })

/-! ## The protocol by which a plan drives its large object space

`CommonPlan::prepare(tls, full_heap)` → `los.prepare(full_heap)`; every `ProcessEdgesWork` packet
→ `los.trace_object(queue, object)` for objects reachable in the LOS (any object of the space, any
number of times, any order); `CommonPlan::release(tls, full_heap)` → `los.release(full_heap)` with
the same flag.  Mutators allocate (`alloc`) between collections; during a collection only
allocation as live happens (`ConcurrentImmix`; `release` asserts the allocation nursery stayed
empty).  A freshly allocated object occupies fresh pages: it is in no treadmill set.
-/

inductive Phase
  | mutator
  | gc (full : Bool)
  deriving Repr, DecidableEq

inductive Op
  | alloc (o : Obj)
  | setLive (live : Bool)
  | prepare (full : Bool)
  | trace (o : Obj)
  | release (full : Bool)
  deriving Repr, DecidableEq

/-- What an operation reports. -/
inductive Out
  | unit
  | traced (enqueued : Bool)
  | swept (objs : List Obj)
  deriving Repr, DecidableEq

structure Sys where
  ph : Phase := .mutator
  los : LOS := {}

/-- The protocol as a checker. -/
def allowed (s : Sys) : Op → Bool
  | .alloc o => !(allObjs s.los.tm).contains o && (s.ph == .mutator || s.los.allocateAsLive)
  | .setLive _ => true
  | .prepare _ => s.ph == .mutator
  | .trace o => s.ph != .mutator && (allObjs s.los.tm).contains o
  | .release full => s.ph == .gc full

/-- One protocol step on the *debug-build* space (`some` also says: no assertion fired). -/
def sysStep (s : Sys) (op : Op) : Option (Sys × Out) :=
  if !allowed s op then none else
  match op with
  | .alloc o => some ({ s with los := alloc s.los o }, .unit)
  | .setLive b => some ({ s with los := setAllocateAsLive s.los b }, .unit)
  | .prepare full => some ({ ph := .gc full, los := prepare s.los full }, .unit)
  | .trace o => (traceObject true s.los o).map fun (e, l) => ({ s with los := l }, .traced e)
  | .release full => (release true s.los full).map fun (r, l) => ({ ph := .mutator, los := l }, .swept r)

/-- Ghost bookkeeping of a history.  `alive` = allocated and not yet swept; `allocAll` = every allocation
so far; `sweptAll` = every
object ever handed to `release_pages` (in order); the remaining fields describe the current (or
last) collection: the allocation nursery and the to-space when `prepare` was called, the objects
traced, enqueued and allocated since. -/
structure Run where
  sys : Sys := {}
  alive : List Obj := []
  allocAll : List Obj := []
  sweptAll : List Obj := []
  a0 : List Obj := []
  t0 : List Obj := []
  traced : List Obj := []
  enq : List Obj := []
  born : List Obj := []

def runStep (r : Run) (op : Op) : Option Run :=
  match sysStep r.sys op with
  | none => none
  | some (s', out) =>
    match op with
    | .alloc o => some { r with sys := s', alive := o :: r.alive, allocAll := o :: r.allocAll,
                                 born := o :: r.born }
    | .setLive _ => some { r with sys := s' }
    | .prepare _ => some { r with sys := s', a0 := r.sys.los.tm.allocNursery, t0 := r.sys.los.tm.toSpace,
                                   traced := [], enq := [], born := [] }
    | .trace o => some { r with sys := s', traced := o :: r.traced,
                                 enq := if out == .traced true then o :: r.enq else r.enq }
    | .release _ =>
      match out with
      | .swept l => some { r with sys := s', alive := r.alive.filter (fun x => !l.contains x),
                                   sweptAll := r.sweptAll ++ l }
      | _ => none

/-- Run a history; `none` iff it leaves the protocol (or an assertion fires). -/
def run (r : Run) : List Op → Option Run
  | [] => some r
  | op :: ops => match runStep r op with
    | none => none
    | some r' => run r' ops

end Mmtk.LOS
