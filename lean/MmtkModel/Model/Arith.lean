/-!
# Model of mmtk-core's alignment / size arithmetic (C33)

Transcribed from `src/util/conversions.rs`, `src/util/address.rs`,
`src/util/alloc/allocator.rs`.  `usize` is modelled as `Nat` with the 64-bit wrap written out:
every function takes and returns naturals `< 2^64`.  Where the Rust code uses a *checked*
operator (`+`, `<<` in a debug build) the model returns `none` when the operation overflows and
`debug = true`; with `debug = false` (release profile) it wraps exactly as the machine does.
This file imports nothing, so the driver links as a plain executable.
-/
namespace Mmtk.Arith

/-- `a.wrapping_add(b)` on u64. -/
def wadd (a b : Nat) : Nat := (a + b) % 2^64
/-- `a.wrapping_sub(b)` on u64 (for `b < 2^64`). -/
def wsub (a b : Nat) : Nat := (a + 2^64 - b) % 2^64
/-- `!a` on u64 (for `a < 2^64`). -/
def wnot (a : Nat) : Nat := 2^64 - 1 - a

/-- checked `a + b`: `none` = overflow panic (debug), wrapped in release. -/
def cadd (debug : Bool) (a b : Nat) : Option Nat :=
  if a + b < 2^64 then some (a + b) else if debug then none else some ((a + b) % 2^64)

/-- `Address + isize` = `(addr as isize + off) as usize` for `0 ≤ off < 2^63`: the *signed* addition
overflows (debug panic) iff `a < 2^63 ≤ a + off`; otherwise (and in release) the sum wraps mod 2^64. -/
def caddSigned (debug : Bool) (a off : Nat) : Option Nat :=
  if debug && (a < 2^63 && a + off ≥ 2^63) then none else some ((a + off) % 2^64)

/-- `1usize << bits`: debug panics for `bits ≥ 64`; release masks the shift amount. -/
def cshl1 (debug : Bool) (bits : Nat) : Option Nat :=
  if bits < 64 then some (2^bits) else if debug then none else some (2^(bits % 64))

/-- `num >> bits` on u64: debug panics for `bits ≥ 64`; release masks the shift amount. -/
def cshr (debug : Bool) (num bits : Nat) : Option Nat :=
  if bits < 64 then some (num >>> bits) else if debug then none else some (num >>> (bits % 64))

/-- `raw_align_up(val, align) = val.wrapping_add(align).wrapping_sub(1) & !align.wrapping_sub(1)`. -/
def rawAlignUp (val align : Nat) : Nat :=
  wsub (wadd val align) 1 &&& wnot (wsub align 1)

/-- `raw_align_down(val, align) = val & !align.wrapping_sub(1)`. -/
def rawAlignDown (val align : Nat) : Nat :=
  val &&& wnot (wsub align 1)

/-- `raw_is_aligned(val, align) = val & align.wrapping_sub(1) == 0`. -/
def rawIsAligned (val align : Nat) : Bool :=
  val &&& wsub align 1 == 0

/-- `rshift_align_up(num, bits) = (num + ((1 << bits) - 1)) >> bits`. -/
def rshiftAlignUp (debug : Bool) (num bits : Nat) : Option Nat :=
  match cshl1 debug bits with
  | none => none
  | some p =>
    -- `p - 1` cannot underflow: p ≥ 1
    match cadd debug num (p - 1) with
    | none => none
    | some s => cshr debug s bits

def logBytesInPage : Nat := 12
def bytesInPage : Nat := 4096
def logBytesInChunk : Nat := 22
def bytesInChunk : Nat := 4194304

/-- `bytes_to_pages_up(bytes) = raw_align_up(bytes, BYTES_IN_PAGE) >> LOG_BYTES_IN_PAGE`. -/
def bytesToPagesUp (bytes : Nat) : Nat :=
  rawAlignUp bytes bytesInPage >>> logBytesInPage

/-- `(bytes + unit - 1) >> logUnit` with a checked add (generic in the unit so that proofs never
compute with the 4 MiB literal). `s - 1` cannot underflow in debug; in release a sum that wrapped
to 0 gives `0 - 1`, which debug-less Rust wraps to `2^64 - 1`. -/
def bytesToUnitsUp (debug : Bool) (unit logUnit bytes : Nat) : Option Nat :=
  match cadd debug bytes unit with
  | none => none
  | some s => some ((wsub s 1) >>> logUnit)

/-- `bytes_to_chunks_up(bytes) = (bytes + BYTES_IN_CHUNK - 1) >> LOG_BYTES_IN_CHUNK`. -/
def bytesToChunksUp (debug : Bool) (bytes : Nat) : Option Nat :=
  bytesToUnitsUp debug bytesInChunk logBytesInChunk bytes

/-- `pages_to_bytes(pages) = pages << LOG_BYTES_IN_PAGE` (shl never panics for a constant < 64; bits fall off). -/
def pagesToBytes (pages : Nat) : Nat := (pages <<< logBytesInPage) % 2^64

def chunkAlignUp (a : Nat) : Nat := rawAlignUp a bytesInChunk
def chunkAlignDown (a : Nat) : Nat := rawAlignDown a bytesInChunk
def pageAlignDown (a : Nat) : Nat := rawAlignDown a bytesInPage
def isPageAligned (a : Nat) : Bool := rawIsAligned a bytesInPage

/-- VM constants of the binding the harness links (`VerifVM`); regenerated constants are
compared with these by the check (`arith vm_consts`). -/
structure VMConsts where
  minAlign : Nat
  maxAlign : Nat
deriving Repr

/-- `align_allocation_inner::<VM>(region, alignment, offset, known_alignment, false)`.
`none` = one of the debug assertions fired / checked add overflowed (debug build only).
`-(offset as isize)` and `wrapping_sub_unsigned` are two's-complement operations. -/
def alignAllocation (vm : VMConsts) (debug : Bool) (region alignment offset known : Nat) : Option Nat :=
  if debug && !(known ≥ vm.minAlign && alignment ≤ vm.maxAlign
        && (alignment &&& (vm.minAlign - 1)) == 0 && (offset &&& (vm.minAlign - 1)) == 0) then none
  else if alignment ≤ known || vm.maxAlign ≤ vm.minAlign then some region
  else if debug && offset == 2^63 then none     -- `-(isize::MIN)` overflows
  else
    let mask := alignment - 1
    let negOff := wsub 0 offset
    let delta := wsub negOff region &&& mask
    caddSigned debug region delta

/-- `get_maximum_aligned_size_inner::<VM>(size, alignment, known_alignment)`. -/
def maxAlignedSize (vm : VMConsts) (debug : Bool) (size alignment known : Nat) : Option Nat :=
  if debug && !(size == (size &&& wnot (known - 1)) && known ≥ vm.minAlign) then none
  else if vm.maxAlign ≤ vm.minAlign || alignment ≤ known then some size
  else
    match cadd debug size alignment with
    | none => none
    | some s => if s ≥ known then some (s - known) else if debug then none else some (wsub s known)

end Mmtk.Arith
