/-!
# Model of the Compressor's forwarding metadata (C37)

Transcribed from `src/policy/compressor/forwarding.rs`: `Transducer::{new, visit_mark_bit, encode,
decode}`, `ForwardingMetadata::{calculate_offset_vector, forward}`; the mark bitmap
(`COMPRESSOR_MARK`: one bit per word) is a function `Nat → Bool` on byte addresses and
`scan_non_zero_values(start, end, f)` visits the marked word addresses in `[start, end)` in
ascending order. Addresses are byte addresses (`Nat`), words are 8 bytes, offset-vector blocks 512
bytes, regions 1 MiB. `Address - Address` is truncated subtraction (the code's debug assertion
`a ≥ b` holds on every path, since bits are visited in ascending order). Core Lean only.
-/
namespace Mmtk.Compressor

def wordBytes : Nat := 8
def blockBytes : Nat := 512

/-- `Transducer { to, last_bit_visited, in_object }`. -/
structure Xd where
  to : Nat
  last : Nat
  inObj : Bool
deriving Repr, DecidableEq

/-- `Transducer::new(to)`: `last_bit_visited = Address::ZERO`, not in an object. -/
def Xd.new (to : Nat) : Xd := { to, last := 0, inObj := false }

/-- `visit_mark_bit(address)`: on a closing bit add `last_word - first_word + BYTES_IN_WORD`. -/
def visit (x : Xd) (a : Nat) : Xd :=
  if x.inObj then { to := x.to + (a - x.last + 8), last := a, inObj := false }
  else { to := x.to, last := a, inObj := true }

/-- `encode(current_position)`: in the middle of an object the bytes since its first word count as
live and the low bit flags "in object". -/
def encode (x : Xd) (pos : Nat) : Nat :=
  if x.inObj then x.to + (pos - x.last) + 1 else x.to

/-- `decode(offset, current_position)`: `to = offset & !1`, `in_object = offset & 1 == 1`. -/
def decode (offset pos : Nat) : Xd :=
  { to := offset - offset % 2, last := pos, inObj := offset % 2 == 1 }

/-- The word addresses `lo, lo+8, …` below `hi` (for word-aligned `lo`, `hi`). -/
def wordsIn (lo hi : Nat) : List Nat := (List.range ((hi - lo) / 8)).map (fun i => lo + 8 * i)

/-- `MARK_SPEC.scan_non_zero_values(lo, hi, visit)` folded into the transducer. -/
def scanFrom (bit : Nat → Bool) (x : Xd) (lo hi : Nat) : Xd :=
  ((wordsIn lo hi).filter bit).foldl visit x

/-- The loop of `calculate_offset_vector` over `n` blocks starting at block address `b`:
store `state.encode(block.start())`, then scan the block's mark bits. Returns the offset vector. -/
def calcBlocks (bit : Nat → Bool) : Nat → Nat → Xd → List Nat
  | 0, _, _ => []
  | n + 1, b, st => encode st b :: calcBlocks bit n (b + 512) (scanFrom bit st b (b + 512))

/-- `calculate_offset_vector(region, cursor)`: blocks `[region.start, cursor)`; the offset vector as
a list indexed by block number. -/
def calculateOffsetVector (bit : Nat → Bool) (regionStart cursor : Nat) : List Nat :=
  calcBlocks bit ((cursor - regionStart) / 512) regionStart (Xd.new regionStart)

/-- `forward(address)`: decode the block's cached state and scan `[block.start, address)`. -/
def forward (ov : List Nat) (bit : Nat → Bool) (regionStart a : Nat) : Nat :=
  let b := a - a % 512
  let st := decode (ov.getD ((b - regionStart) / 512) 0) b
  (scanFrom bit st b a).to

/-- Mark bitmap of a set of objects `(start, size in bytes)`: first word and last word. -/
def bitOf (objs : List (Nat × Nat)) (a : Nat) : Bool :=
  objs.any (fun o => a == o.1 || a == o.1 + o.2 - 8)

end Mmtk.Compressor
