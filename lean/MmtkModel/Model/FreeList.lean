/-!
# Concrete model of `src/util/freelist.rs` (trait `FreeList`, the JikesRVM GenericFreeList),
`int_array_freelist.rs` and `raw_memory_freelist.rs`

The table is an array of `i32` entries, two per unit (`lo`, `hi`), heads at negative units.
An `i32` is modelled by its 32-bit two's-complement pattern (`Nat < 2^32`, `enc`/`dec`), so the masks
are the literal bit operations of the Rust code; unit numbers, sizes and indices are `Int`
(the differential keeps them far below `2^31`, so `i32` arithmetic on them never wraps).
Every method is transcribed statement by statement; `Except Err` carries the panic
(`oob` = slice index out of bounds, `assert` = `debug_assert!`/`assert!` whose message contains
"assert", `other` = other panics, `diverge` = the `while` loop of `alloc` did not terminate
within the fuel — possible only on a corrupted table).
-/
namespace Mmtk.FreeList

inductive Err
  | oob | assert | other | diverge
  deriving Repr, DecidableEq

abbrev M := Except Err

/-! ## constants of `freelist.rs` -/
def FAILURE : Int := -1
def MAX_HEADS : Int := 128
/-- `((1 << 30) - 1) - MAX_HEADS - 1` -/
def MAX_UNITS : Int := 1073741694
/-- `NEXT_MASK = PREV_MASK = SIZE_MASK = (1 << 30) - 1` -/
def M30 : Nat := 1073741823
/-- `FREE_MASK = MULTI_MASK = 1 << 31` (as a bit pattern) -/
def B31 : Nat := 2147483648
/-- `COALESC_MASK = 1 << 30` -/
def B30 : Nat := 1073741824
/-- `!FREE_MASK = !MULTI_MASK` -/
def NOT_B31 : Nat := 2147483647
/-- `!COALESC_MASK` -/
def NOT_B30 : Nat := 3221225471
/-- `!NEXT_MASK = !PREV_MASK` -/
def NOT_M30 : Nat := 3221225472

/-- two's-complement pattern of an `i32` -/
def enc (v : Int) : Nat := (v % 4294967296).toNat
/-- the `i32` a pattern stands for -/
def dec (n : Nat) : Int := if n < 2147483648 then (n : Int) else (n : Int) - 4294967296

/-- The table: `heads()` and the entry array (`Vec<i32>` / the mapped `&mut [i32]`). -/
structure Tab where
  heads : Int
  cells : Array Nat
  deriving Repr, DecidableEq

/-- `get_entry(index)`: `table[index as usize]` (a negative index becomes huge: out of bounds). -/
def getEntry (t : Tab) (i : Int) : M Nat :=
  if 0 ≤ i ∧ i < t.cells.size then .ok (t.cells.getD i.toNat 0) else .error .oob

/-- `set_entry(index, value)`. -/
def setEntry (t : Tab) (i : Int) (v : Nat) : M Tab :=
  if 0 ≤ i ∧ i < t.cells.size then .ok { t with cells := t.cells.setIfInBounds i.toNat v } else .error .oob

/-- `get_lo_entry(unit)` = `get_entry((unit + heads) << 1)` -/
def getLo (t : Tab) (u : Int) : M Nat := getEntry t (2 * (u + t.heads))
/-- `get_hi_entry(unit)` = `get_entry(((unit + heads) << 1) + 1)` -/
def getHi (t : Tab) (u : Int) : M Nat := getEntry t (2 * (u + t.heads) + 1)
def setLo (t : Tab) (u : Int) (v : Nat) : M Tab := setEntry t (2 * (u + t.heads)) v
def setHi (t : Tab) (u : Int) (v : Nat) : M Tab := setEntry t (2 * (u + t.heads) + 1) v

/-- `set_sentinel`. -/
def setSentinel (t : Tab) (u : Int) : M Tab := do
  let t ← setLo t u (M30 &&& enc u)
  setHi t u (M30 &&& enc u)

/-- `get_size`. -/
def getSize (t : Tab) (u : Int) : M Int := do
  let hi ← getHi t u
  if hi &&& B31 == B31 then
    let h1 ← getHi t (u + 1)
    pure ((h1 &&& M30 : Nat) : Int)
  else pure 1

/-- `set_size`. -/
def setSize (t : Tab) (u : Int) (size : Int) : M Tab := do
  let hi ← getHi t u
  if size > 1 then
    let t ← setHi t u (hi ||| B31)
    let t ← setHi t (u + 1) (B31 ||| enc size)
    setHi t (u + size - 1) (B31 ||| enc size)
  else
    setHi t u (hi &&& NOT_B31)

/-- `get_free`. -/
def getFree (t : Tab) (u : Int) : M Bool := do
  let lo ← getLo t u
  pure (lo &&& B31 == B31)

/-- `set_free`. -/
def setFree (t : Tab) (u : Int) (isFree : Bool) : M Tab := do
  let lo ← getLo t u
  if isFree then
    let t ← setLo t u (lo ||| B31)
    let size ← getSize t u
    if size > 1 then
      let lo2 ← getLo t (u + size - 1)
      setLo t (u + size - 1) (lo2 ||| B31)
    else pure t
  else
    let t ← setLo t u (lo &&& NOT_B31)
    let size ← getSize t u
    if size > 1 then
      let lo2 ← getLo t (u + size - 1)
      setLo t (u + size - 1) (lo2 &&& NOT_B31)
    else pure t

/-- `get_next`: a stored link above `MAX_UNITS` means "the head" — *this* list's head. -/
def getNext (t : Tab) (head : Int) (u : Int) : M Int := do
  let hi ← getHi t u
  let next : Int := ((hi &&& M30 : Nat) : Int)
  pure (if next ≤ MAX_UNITS then next else head)

/-- `set_next`. -/
def setNext (debug : Bool) (t : Tab) (u : Int) (next : Int) : M Tab := do
  if debug && !(next ≥ -t.heads && next ≤ MAX_UNITS) then throw .assert
  let old ← getHi t u
  setHi t u ((old &&& NOT_M30) ||| (enc next &&& M30))

/-- `get_prev`. -/
def getPrev (t : Tab) (head : Int) (u : Int) : M Int := do
  let lo ← getLo t u
  let prev : Int := ((lo &&& M30 : Nat) : Int)
  pure (if prev ≤ MAX_UNITS then prev else head)

/-- `set_prev`. -/
def setPrev (debug : Bool) (t : Tab) (u : Int) (prev : Int) : M Tab := do
  if debug && !(prev ≥ -t.heads && prev ≤ MAX_UNITS) then throw .assert
  let old ← getLo t u
  setLo t u ((old &&& NOT_M30) ||| (enc prev &&& M30))

/-- `get_left`. -/
def getLeft (t : Tab) (u : Int) : M Int := do
  let h ← getHi t (u - 1)
  pure (if h &&& B31 == B31 then u - ((h &&& M30 : Nat) : Int) else u - 1)

/-- `get_right`. -/
def getRight (t : Tab) (u : Int) : M Int := do
  let s ← getSize t u
  pure (u + s)

/-- `is_coalescable`. -/
def isCoalescable (t : Tab) (u : Int) : M Bool := do
  let lo ← getLo t u
  pure (lo &&& B30 == 0)

/-- `clear_uncoalescable`. -/
def clearUncoalescable (t : Tab) (u : Int) : M Tab := do
  let lo ← getLo t u
  setLo t u (lo &&& NOT_B30)

/-- `set_uncoalescable`. -/
def setUncoalescable (t : Tab) (u : Int) : M Tab := do
  let lo ← getLo t u
  setLo t u (lo ||| B30)

/-- `is_multi`. -/
def isMulti (t : Tab) (u : Int) : M Bool := do
  let hi ← getHi t u
  pure (hi &&& B31 == B31)

/-- `add_to_free`. -/
def addToFree (debug : Bool) (t : Tab) (head : Int) (u : Int) : M Tab := do
  let t ← setFree t u true
  let next ← getNext t head head
  let t ← setNext debug t u next
  let t ← setNext debug t head u
  let t ← setPrev debug t u head
  setPrev debug t next u

/-- `__remove_from_free`. -/
def removeFromFree (debug : Bool) (t : Tab) (head : Int) (u : Int) : M Tab := do
  let next ← getNext t head u
  let prev ← getPrev t head u
  let t ← setNext debug t prev next
  setPrev debug t next prev

/-- `__split`. -/
def split (debug : Bool) (t : Tab) (head : Int) (u : Int) (size : Int) : M Tab := do
  let basesize ← getSize t u
  if debug && !(basesize > size) then throw .assert
  let t ← setSize t u size
  let t ← setSize t (u + size) (basesize - size)
  addToFree debug t head (u + size)

/-- `__coalesce`. -/
def coalesce (debug : Bool) (t : Tab) (head : Int) (start end_ : Int) : M Tab := do
  let t ← (do if (← getFree t end_) then removeFromFree debug t head end_ else pure t)
  let t ← (do if (← getFree t start) then removeFromFree debug t head start else pure t)
  let size ← getSize t end_
  setSize t start (end_ - start + size)

/-- `__alloc`. -/
def allocAt (debug : Bool) (t : Tab) (head : Int) (size u unitSize : Int) : M (Tab × Int) := do
  if unitSize ≥ size then
    let t ← (if unitSize > size then split debug t head u size else pure t)
    let t ← removeFromFree debug t head u
    let t ← setFree t u false
    pure (t, u)
  else pure (t, u)

/-- The `while` loop of `alloc`: returns the final `(unit, s)`. -/
def allocLoop (t : Tab) (head : Int) (size : Int) : Nat → Int → Int → M (Int × Int)
  | 0, _, _ => .error .diverge
  | fuel + 1, u, s => do
    let u' ← getNext t head u
    if u' != head then
      let s' ← getSize t u'
      if s' < size then allocLoop t head size fuel u' s' else pure (u', s')
    else pure (u', s)

/-- `FreeList::alloc` (first fit along the circular list of `head`). -/
def alloc (debug : Bool) (t : Tab) (head : Int) (size : Int) : M (Tab × Int) := do
  let (u, s) ← allocLoop t head size (t.cells.size + 2) head 0
  if u == head then pure (t, FAILURE) else allocAt debug t head size u s

/-- `alloc_from_unit`. -/
def allocFromUnit (debug : Bool) (t : Tab) (head : Int) (size u : Int) : M (Tab × Int) := do
  if (← getFree t u) then
    let s ← getSize t u
    if s ≥ size then allocAt debug t head size u s else pure (t, FAILURE)
  else pure (t, FAILURE)

/-- `free(unit, return_coalesced_size)`. -/
def free (debug : Bool) (t : Tab) (head : Int) (u : Int) (rcs : Bool) : M (Tab × Int) := do
  if debug then
    if (← getFree t u) then throw .assert
  let freed ← getSize t u
  let left ← getLeft t u
  let start ← (do
    if (← isCoalescable t u) then
      if (← getFree t left) then pure left else pure u
    else pure u)
  let right ← getRight t u
  let end_ ← (do
    if (← isCoalescable t right) then
      if (← getFree t right) then pure right else pure u
    else pure u)
  let t ← (if start != end_ then coalesce debug t head start end_ else pure t)
  let freed ← (if rcs then getSize t start else pure freed)
  let t ← addToFree debug t head start
  pure (t, freed)

/-- `for i in 1..=heads { set_sentinel(-i) }` -/
def setHeadSentinels (t : Tab) : Nat → M Tab
  | 0 => pure t
  | k + 1 => do
    let t ← setHeadSentinels t k
    setSentinel t (-((k : Int) + 1))

/-- `while cursor >= lo { set_size(cursor, grain); add_to_free(cursor); cursor -= grain }` -/
def fillLoop (debug : Bool) (head grain lo : Int) : Nat → Tab → Int → M Tab
  | 0, _, _ => .error .diverge
  | fuel + 1, t, cursor =>
    if cursor ≥ lo then do
      let t ← setSize t cursor grain
      let t ← addToFree debug t head cursor
      fillLoop debug head grain lo fuel t (cursor - grain)
    else pure t

/-- `initialize_heap(units, grain)` (`grain ≥ 1`). -/
def initializeHeap (debug : Bool) (t : Tab) (head : Int) (units grain : Int) : M Tab := do
  let t ← setHeadSentinels t t.heads.toNat
  let t ← setSentinel t units
  let offset := units.tmod grain
  let cursor := units - offset
  let t ← (if offset > 0 then do
      let t ← setSize t cursor offset
      addToFree debug t head cursor
    else pure t)
  fillLoop debug head grain 0 (units.toNat + 2) t (cursor - grain)

/-- `IntArrayFreeList::new(units, grain, heads)`. -/
def IntArray.new (debug : Bool) (units grain heads : Int) : M Tab :=
  initializeHeap debug { heads := heads, cells := Array.replicate (2 * (units + 1 + heads)).toNat 0 } (-1) units grain

/-- `IntArrayFreeList::resize_freelist(units, grain)` called through the list with head `head`. -/
def IntArray.resize (debug : Bool) (t : Tab) (head : Int) (units grain : Int) : M Tab :=
  initializeHeap debug { t with cells := Array.replicate (2 * (units + 1 + t.heads)).toNat 0 } head units grain

/-! ## `RawMemoryFreeList` -/

/-- The fields of `RawMemoryFreeList`; addresses are byte offsets from `base` … plus `base`. -/
structure RM where
  tab : Tab                 -- `heads` and the mapped `slice`
  base : Nat
  limit : Nat
  highWater : Nat
  maxUnits : Int
  grain : Int
  currentUnits : Int
  pagesPerBlock : Int
  deriving Repr, DecidableEq

def BYTES_IN_PAGE : Nat := 4096
/-- `LOG_BYTES_IN_UNIT = 3` (two `i32` entries) -/
def BYTES_IN_UNIT : Nat := 8
def W64 : Nat := 18446744073709551616

/-- `conversions::bytes_to_pages_up` -/
def bytesToPagesUp (b : Nat) : Nat := (b + 4095) / 4096

/-- `RawMemoryFreeList::size_in_pages(units, heads)` -/
def sizeInPages (units heads : Int) : Int := (bytesToPagesUp (((units + heads + 1).toNat) * 8) : Nat)

/-- `RawMemoryFreeList::default_block_size(units, heads)` -/
def defaultBlockSize (units heads : Int) : Int := min (sizeInPages units heads) 16

/-- `units_per_block` = `pages_to_bytes(pages_per_block) >> LOG_BYTES_IN_UNIT` -/
def RM.unitsPerBlock (l : RM) : Int := l.pagesPerBlock * 512
/-- `units_in_first_block` -/
def RM.unitsInFirstBlock (l : RM) : Int := l.unitsPerBlock - l.tab.heads - 1

/-- `RawMemoryFreeList::new` (maps nothing; `head = -1`). `none`-like panic for the two
`debug_assert!`s is not modelled: the driver only builds accepted lists. -/
def RM.new (base limit : Nat) (pagesPerBlock units grain heads : Int) : RM :=
  { tab := { heads := heads, cells := #[] }, base := base, limit := limit, highWater := base,
    maxUnits := units, grain := grain, currentUnits := 0, pagesPerBlock := pagesPerBlock }

/-! ### The pinned tree's growth functions (kept as the record of defect F7: `raise_high_water`
clamped with swapped operands and `current_capacity` floored a partial last block). -/

/-- `current_capacity` (`i32` division truncates; both operands are non-negative here). -/
def RM.currentCapacityOld (l : RM) : Int :=
  let listBlocks : Int := Int.tdiv (bytesToPagesUp (l.highWater - l.base) : Nat) l.pagesPerBlock
  l.unitsInFirstBlock + (listBlocks - 1) * l.unitsPerBlock

/-- The OS: `dzmmap` with `MAP_FIXED` of `bytes` at `start` succeeds unless the request is absurd
(larger than the user address space). -/
def mmapOk (_start bytes : Nat) : Bool := bytes < 140737488355328

/-- `raise_high_water(blocks)`.  `debug`: `Address - Address` asserts `a ≥ b`; release wraps. -/
def RM.raiseHighWaterOld (debug : Bool) (l : RM) (blocks : Int) : M RM := do
  let growExtent : Nat := (l.pagesPerBlock * blocks).toNat * 4096
  if l.highWater == l.limit then throw .assert       -- assert_ne!(high_water, limit)
  let growExtent ← (if l.highWater + growExtent > l.limit then
      -- `grow_extent = self.high_water - self.limit` (sic)
      if l.highWater ≥ l.limit then pure (l.highWater - l.limit)
      else if debug then throw .other else pure (W64 + l.highWater - l.limit)
    else pure growExtent)
  if !mmapOk l.highWater growExtent then throw .other   -- assert!(res.is_ok(), "Failed to mmap …")
  pure { l with highWater := (l.highWater + growExtent) % W64 }

/-- The address-space part of `grow_list_by_blocks(blocks, new_max)`: the grain assertion,
`raise_high_water`, the two `assert!`s, `current_units = new_max`. -/
def RM.growGeomOld (debug : Bool) (l : RM) (blocks newMax : Int) : M RM := do
  if debug && !(newMax ≤ l.grain || (Int.tdiv newMax l.grain) * l.grain == newMax) then throw .assert
  let l ← (if blocks > 0 then l.raiseHighWaterOld debug blocks else pure l)
  if !(newMax ≤ l.currentCapacityOld) then throw .other
  if !(newMax ≤ l.maxUnits) then throw .other
  pure { l with currentUnits := newMax }


/-! ### The growth functions as repaired by the `fix:` commit -/

/-- repaired `current_capacity`: the units whose entries fit in the mapped bytes. -/
def RM.currentCapacity (l : RM) : Int := ((l.highWater - l.base) / 8 : Nat) - l.tab.heads - 1

/-- repaired `raise_high_water`. -/
def RM.raiseHighWater (_debug : Bool) (l : RM) (blocks : Int) : M RM := do
  let growExtent : Nat := (l.pagesPerBlock * blocks).toNat * 4096
  if l.highWater == l.limit then throw .assert
  let growExtent := if l.highWater + growExtent > l.limit then l.limit - l.highWater else growExtent
  if !mmapOk l.highWater growExtent then throw .other
  pure { l with highWater := (l.highWater + growExtent) % W64 }

/-- `grow_list_by_blocks` (address-space part) over the repaired functions. -/
def RM.growGeom (debug : Bool) (l : RM) (blocks newMax : Int) : M RM := do
  if debug && !(newMax ≤ l.grain || (Int.tdiv newMax l.grain) * l.grain == newMax) then throw .assert
  let l ← (if blocks > 0 then l.raiseHighWater debug blocks else pure l)
  if !(newMax ≤ l.currentCapacity) then throw .other
  if !(newMax ≤ l.maxUnits) then throw .other
  pure { l with currentUnits := newMax }

def RM.blocksFor (l : RM) (required : Int) : Int :=
  if required > l.currentCapacity then
    Int.tdiv (required - l.currentCapacity + l.unitsPerBlock - 1) l.unitsPerBlock
  else 0

/-- `grow_freelist` over the repaired functions. -/
def RM.growFreelistGeom (debug : Bool) (l : RM) (units : Int) : M (RM × Bool) := do
  let required := units + l.currentUnits
  if required > l.maxUnits then pure (l, false) else
  let l ← l.growGeom debug (l.blocksFor required) required
  pure (l, true)

/-- `grow_list_by_blocks`: `growGeom`, then the slice is re-made over `base .. high_water`
(freshly mapped memory is zero) and the sentinels / new free runs are written. -/
def RM.growListByBlocks (debug : Bool) (l : RM) (head : Int) (blocks newMax : Int) : M RM := do
  let oldMax := l.currentUnits
  let l ← l.growGeom debug blocks newMax
  let len := (l.highWater - l.base) / 4
  let l := { l with tab := { l.tab with cells := l.tab.cells ++ Array.replicate (len - l.tab.cells.size) 0 } }
  let t ← (if oldMax == 0 then setHeadSentinels l.tab l.tab.heads.toNat else setSize l.tab oldMax 1)
  if newMax == 0 then pure { l with tab := t } else
  let t ← setSentinel t newMax
  let grain := min l.grain (newMax - oldMax)
  let t ← fillLoop debug head grain oldMax (newMax.toNat + 2) t (newMax - grain)
  pure { l with tab := t }

/-- The `blocks` computation of `grow_freelist`. -/
def RM.blocksForOld (l : RM) (required : Int) : Int :=
  if required > l.currentCapacityOld then
    Int.tdiv (required - l.currentCapacityOld + l.unitsPerBlock - 1) l.unitsPerBlock
  else 0

/-- `grow_freelist(units)` without the table writes (address-space behaviour only). -/
def RM.growFreelistGeomOld (debug : Bool) (l : RM) (units : Int) : M (RM × Bool) := do
  let required := units + l.currentUnits
  if required > l.maxUnits then pure (l, false) else
  let l ← l.growGeomOld debug (l.blocksForOld required) required
  pure (l, true)

/-- `grow_freelist(units)`. -/
def RM.growFreelist (debug : Bool) (l : RM) (head : Int) (units : Int) : M (RM × Bool) := do
  let required := units + l.currentUnits
  if required > l.maxUnits then pure (l, false) else
  let l ← l.growListByBlocks debug head (l.blocksFor required) required
  pure (l, true)

/-- `RawMemoryFreeList::alloc` (override): fails on a list that was never grown. -/
def RM.alloc (debug : Bool) (l : RM) (head : Int) (size : Int) : M (RM × Int) := do
  if l.currentUnits == 0 then pure (l, FAILURE) else
  let (t, r) ← Mmtk.FreeList.alloc debug l.tab head size
  pure ({ l with tab := t }, r)

end Mmtk.FreeList
