import MmtkModel.Model.CasBit
/-!
# Two objects' fields in ONE metadata byte: the byte-wide compare-exchange (C18, neighbour races)

`Model/CasBit.lean` is per object: one protocol field plus the opaque "other bits" of the same byte,
changed by an environment action.  In the code several OBJECTS share one side-metadata byte and the
compare-exchange is BYTE-wide (`SideMetadataSpec::compare_exchange_atomic`: load the byte; expected
byte = loaded byte with the own field := old; new byte = loaded byte with the own field := new; CAS
the whole byte).  A CAS on one object's field therefore fails *spuriously* when a neighbour's field
changes between the load and the CAS; the looping callers retry.

This model has two protocol fields `F`, `G` (two objects) and the remaining bits `rest` in one byte,
any number of threads per field (thread `(k, x)` = the `x`-th thread working on field `k`, running
protocol `P k` — the protocols may differ), and an environment that overwrites `rest`.
The CAS compares and rewrites the WHOLE loaded byte.

`proj k` projects a state onto field `k` as a state of the per-object model `Mmtk.CasBit`; the
neighbour's field and `rest` are paired into the per-object model's opaque `other` bits by an
injective pairing `enc`.  `Props/C18Byte.lean` proves that every run of this model projects, for each
field, to a run of the per-object model — so every C18 theorem holds per field.
-/
namespace Mmtk.CasByte

open Mmtk.CasBit (Proto)

inductive Fld
  | F
  | G
deriving DecidableEq, Repr

def Fld.other : Fld → Fld
  | .F => .G
  | .G => .F

/-- one metadata byte: two protocol fields (two objects' bits) and the remaining bits -/
structure Byte where
  f : Nat
  g : Nat
  rest : Nat
deriving DecidableEq, Repr

def Byte.get (b : Byte) : Fld → Nat
  | .F => b.f
  | .G => b.g

def Byte.set (b : Byte) : Fld → Nat → Byte
  | .F, v => { b with f := v }
  | .G, v => { b with g := v }

inductive PC
  | l1                               -- loop head: about to load the own field
  | l2 (old : Nat)                   -- inside compare_exchange: about to load the byte
  | l3 (old : Nat) (loaded : Byte)   -- about to CAS the WHOLE byte
  | ret (b : Bool)                   -- returned `b`
deriving DecidableEq, Repr

structure Shared where
  byte : Byte
  /-- ghost: per field, the (per-field) index of the thread whose CAS changed it -/
  win : Fld → Option Nat := fun _ => none
  /-- ghost: the environment has changed `rest` -/
  envMoved : Bool := false

def entry (P : Proto) : PC := if P.single then .l2 P.old0 else .l1

/-- One atomic step of thread `(k, x)` (the `x`-th thread working on field `k`, protocol `P k`). -/
def localStep (P : Fld → Proto) (k : Fld) (x : Nat) (sh : Shared) (p : PC) : Shared × PC :=
  match p with
  | .l1 => if (P k).isDone (sh.byte.get k) then (sh, .ret false) else (sh, .l2 (sh.byte.get k))
  | .l2 old => (sh, .l3 old sh.byte)                      -- load the WHOLE byte
  | .l3 old b =>
    if sh.byte = b.set k old                               -- CAS compares the WHOLE byte
    then ({ sh with byte := b.set k ((P k).next old),
                    win := fun j => if j = k then some x else sh.win j }, .ret true)
    else (sh, if (P k).single then .ret false else .l1)
  | .ret r => (sh, .ret r)

structure State where
  sh : Shared
  pc : Fld → Nat → PC

/-- A schedule entry: thread `(k, x)` steps, or the environment overwrites `rest` with `v`. -/
inductive Act
  | thread (k : Fld) (x : Nat)
  | env (v : Nat)
deriving Repr

def step (P : Fld → Proto) (s : State) : Act → State
  | .thread k x =>
    let r := localStep P k x s.sh (s.pc k x)
    { sh := r.1, pc := fun j y => if j = k ∧ y = x then r.2 else s.pc j y }
  | .env v => { s with sh := { s.sh with byte := { s.sh.byte with rest := v }, envMoved := true } }

def init (P : Fld → Proto) (f0 g0 r0 : Nat) : State :=
  { sh := { byte := ⟨f0, g0, r0⟩ }, pc := fun k _ => entry (P k) }

def exec (P : Fld → Proto) (s : State) : List Act → State
  | [] => s
  | a :: rest => exec P (step P s a) rest

/-! ## projection onto one field, as a state / run of the per-object model `Mmtk.CasBit` -/

/-- a concrete injective pairing (`Props/C18Byte.lean: pair_inj`) -/
def pair (a b : Nat) : Nat := 2 ^ a * (2 * b + 1)

section Proj
variable (enc : Nat → Nat → Nat)

/-- Field `k` as the per-object model's `field`; the neighbour's field and `rest` paired into its
opaque `other` bits; "the environment moved" = `rest` was overwritten or the neighbour's field was
changed by a CAS. -/
def projSh (k : Fld) (sh : Shared) : CasBit.Shared :=
  { field := sh.byte.get k, other := enc (sh.byte.get k.other) sh.byte.rest,
    winner := sh.win k, envMoved := sh.envMoved || (sh.win k.other).isSome }

def projPC (k : Fld) : PC → CasBit.PC
  | .l1 => .l1
  | .l2 old => .l2 old
  | .l3 old b => .l3 old (enc (b.get k.other) b.rest)
  | .ret r => .ret r

def proj (k : Fld) (s : State) : CasBit.State :=
  { sh := projSh enc k s.sh, pc := fun x => projPC enc k (s.pc k x) }

/-- What field `k`'s per-object model sees of one action of the byte model (state dependent):
its own threads' steps; a neighbour thread's *successful* CAS and every environment step as an
environment step; every other neighbour step not at all. -/
def projAct (P : Fld → Proto) (k : Fld) (s : State) : Act → List CasBit.Act
  | .thread j x =>
    if j = k then [.thread x]
    else match s.pc j x with
      | .l3 old b =>
        if s.sh.byte = b.set j old then [.env (enc ((P j).next old) s.sh.byte.rest)] else []
      | _ => []
  | .env v => [.env (enc (s.sh.byte.get k.other) v)]

def projRun (P : Fld → Proto) (k : Fld) (s : State) : List Act → List CasBit.Act
  | [] => []
  | a :: rest => projAct enc P k s a ++ projRun P k (step P s a) rest

end Proj

end Mmtk.CasByte
