import MmtkModel.Generated.Bins
import MmtkModel.Model.Arith
/-!
# Model of the native mark-sweep size classes (C35)

Transcribed from `src/policy/marksweepspace/native_ms/block_list.rs` (`mi_wsize_from_size`,
`mi_bin_from_size`, `mi_bin`, the bin table via `Generated/Bins.lean`) and
`src/util/alloc/free_list_allocator.rs` (`init_block`, `block_alloc`, `find_free_block_with`).
`usize` = `Nat < 2^64`; `u8` casts are written `% 256`. `none` = a `debug_assert!` fired (debug
profile only). Constants and the table come from `Mmtk.Gen.Bins`, regenerated from the linked crate
on every run of the check. Core Lean only.
-/
namespace Mmtk.MsBins
open Mmtk.Gen.Bins

/-- Cell size of bin `b` (`BlockLists[b].size`); `0` past the end of the 49-entry array (the real
code indexes out of bounds there — the driver prints `panic:oob`). -/
def binSize (b : Nat) : Nat := binSizes.getD b 0

/-- `mi_wsize_from_size(size) = size.div_ceil(MI_INTPTR_SIZE)`; `usize::div_ceil` is
`d = a / b; r = a % b; if r > 0 { d + 1 } else { d }` (no overflow). -/
def wsizeFromSize (size : Nat) : Nat :=
  let d := size / intptrSize
  let r := size % intptrSize
  if r > 0 then d + 1 else d

/-- `MI_LARGE_OBJ_WSIZE_MAX = MI_LARGE_OBJ_SIZE_MAX / MI_INTPTR_SIZE`. -/
def largeObjWsizeMax : Nat := largeObjSizeMax / intptrSize

/-- The body of `mi_bin_from_size` after the `debug_assert`, on the word size.
`b = (MI_INTPTR_BITS - 1 - leading_zeros(wsize)) as u8 = ⌊log₂ wsize⌋`;
`bin = ((b << 2) + ((wsize >> (b - 2)) & 0x03) as u8) - 3` in `u8` (never overflows: `3 ≤ b ≤ 63`). -/
def binOfWsize (wsize : Nat) : Nat :=
  if wsize ≤ 1 then 1
  else if wsize ≤ 8 then wsize % 256
  else
    let w := wsize - 1
    let b := (intptrSize * 8 - 1 - (intptrSize * 8 - 1 - Nat.log2 w)) % 256
    ((b <<< 2) % 256 + ((w >>> (b - 2)) &&& 0x03) % 256) % 256 - 3

/-- `mi_bin_from_size(size)`; `none` = `debug_assert!(wsize <= MI_LARGE_OBJ_WSIZE_MAX)` fired. -/
def miBinFromSize (debug : Bool) (size : Nat) : Option Nat :=
  let wsize := wsizeFromSize size
  if debug && !(wsize ≤ largeObjWsizeMax) then none
  else some (binOfWsize wsize)

/-- The VM constants the size-class code is compiled against. -/
def vm : Mmtk.Arith.VMConsts := { minAlign := minAlign, maxAlign := maxAlign }

/-- `mi_bin::<VM>(size, align) = mi_bin_from_size(get_maximum_aligned_size::<VM>(size, align))`
where `get_maximum_aligned_size(size, align) = get_maximum_aligned_size_inner(size, align, MIN_ALIGNMENT)`. -/
def miBin (debug : Bool) (size align : Nat) : Option Nat :=
  match Mmtk.Arith.maxAlignedSize vm debug size align vm.minAlign with
  | none => none
  | some s => miBinFromSize debug s

/-- `FreeListAllocator::init_block`'s loop, from the state `(old_cell, new_cell)`:
```
loop { new_cell.store(old_cell); old_cell = new_cell; new_cell += cell_size;
       if new_cell + cell_size > block_end { break old_cell } }
```
Returns the stores performed `(cell, link written into it)` in program order and the final cell.
(`cell_size = 0` is excluded by `debug_assert_ne!`; the model then stops after one store.) -/
def initLoop (cellSize blockEnd : Nat) (old new : Nat) : List (Nat × Nat) × Nat :=
  let new' := new + cellSize
  if _h : cellSize = 0 ∨ new' + cellSize > blockEnd then ([(new, old)], new)
  else
    let (stores, final) := initLoop cellSize blockEnd new new'
    ((new, old) :: stores, final)
termination_by blockEnd - new
decreasing_by omega

/-- A freshly initialised block: every store `(cell, link)` in order, and the head of the free list
(`block.store_free_list(final_cell)`). -/
def initBlock (start cellSize : Nat) : List (Nat × Nat) × Nat :=
  initLoop cellSize (start + blockBytes) 0 start

/-- Walk a free list from `head` through the `link` words (as `block_alloc` pops it). -/
def walk (mem : List (Nat × Nat)) : Nat → Nat → List Nat
  | 0, _ => []
  | fuel + 1, cell =>
    if cell = 0 then [] else
    match mem.find? (fun p => p.1 == cell) with
    | none => [cell]
    | some p => cell :: walk mem fuel p.2

end Mmtk.MsBins
