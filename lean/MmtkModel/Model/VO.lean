/-!
# Model of the valid-object (VO) bit set and of `MMTK::enumerate_objects` (C07)   — import-free

Transcribed from `src/util/metadata/vo_bit/mod.rs` (`set_vo_bit`, `unset_vo_bit`, `bzero_vo_bit`,
`bcopy_vo_bit_from_mark_bit`), `vo_bit/helper.rs` (strategy `CopyFromMarkBits`: the harness keeps the
mark bits on the side — `on_object_forwarded` sets mark + VO of the copy, `on_region_swept` copies the
mark bits of an occupied block over its VO bits and zeroes a free block), and the places where the
policies change VO bits:

* every policy's `initialize_object_metadata` (`post_alloc`): `set_vo_bit(object)`;
* `CopySpace`: `trace_object` → `set_vo_bit(new_object)` in the copy closure; `release` →
  `bzero_vo_bit(start, size)` of every allocated region of the from-space;
* `ImmixSpace`: `on_object_forwarded` / mark in place, `Block::sweep` → `on_region_swept`;
* `MarkSweepSpace` (native): `Block::sweep` → `unset_vo_bit_nocheck(cell)` for every unmarked cell
  (`bzero_vo_bit(block)` for a wholly free block);
* `LargeObjectSpace::sweep_large_pages` → `unset_vo_bit(object)` for every dead object;
* `MarkCompactSpace::compact`: linear scan in address order — `unset_vo_bit(obj)`, and for a forwarded
  object `set_vo_bit(new_object)`;
* `CompressorSpace`: `bzero_vo_bit(region)` then `set_vo_bit(new_object)` for every marked object;
* `ImmortalSpace`, `VMSpace`: never cleared.

A VO bit covers one 8-byte region; `Bits a` is the bit of the region that starts at the (word-aligned)
address `a`. `util/object_enum.rs`: `visit_address_range(start, end)` = `scan_non_zero_values` over the
VO bits of the range (C22), called once per block that may have objects / per allocated region of a
monotone page resource; the LOS enumerates its treadmill.
-/
namespace Mmtk.VO

abbrev Bits := Nat → Bool

def setBit (v : Bits) (a : Nat) : Bits := fun x => if x = a then true else v x
def unsetBit (v : Bits) (a : Nat) : Bits := fun x => if x = a then false else v x
/-- `bzero_vo_bit(start, size)` -/
def bzero (v : Bits) (s n : Nat) : Bits := fun x => if s ≤ x ∧ x < s + n then false else v x
/-- `bcopy_vo_bit_from_mark_bit(start, size)` -/
def bcopy (v mark : Bits) (s n : Nat) : Bits := fun x => if s ≤ x ∧ x < s + n then mark x else v x

def setAll (v : Bits) (l : List Nat) : Bits := l.foldl setBit v
def unsetAll (v : Bits) (l : List Nat) : Bits := l.foldl unsetBit v

/-- An object of a space as one collection sees it. -/
structure GObj where
  /-- its reference before the collection (where its VO bit is) -/
  ref : Nat
  /-- traced by this collection (reachable, retained by a soft reference, or resurrected by a finalizer) -/
  live : Bool
  /-- its reference after the collection (`ref` when it does not move) -/
  fwd : Nat
  deriving Repr, DecidableEq

def liveFwd (objs : List GObj) : List Nat := (objs.filter (·.live)).map (·.fwd)
def deadRefs (objs : List GObj) : List Nat := (objs.filter (fun o => !o.live)).map (·.ref)
def refs (objs : List GObj) : List Nat := objs.map (·.ref)

/-- address ranges `(start, size)` -/
def inRange (r : Nat × Nat) (x : Nat) : Bool := decide (r.1 ≤ x ∧ x < r.1 + r.2)
def inAny (rs : List (Nat × Nat)) (x : Nat) : Bool := rs.any (inRange · x)

/-- `post_alloc` -/
def postAlloc (v : Bits) (ref : Nat) : Bits := setBit v ref

/-- CopySpace collected as from-space: copies get their bit during tracing, `release` zeroes every
allocated region of the from-space. -/
def gcCopy (v : Bits) (objs : List GObj) (fromRegions : List (Nat × Nat)) : Bits :=
  fromRegions.foldl (fun v r => bzero v r.1 r.2) (setAll v (liveFwd objs))

/-- mark-sweep style (native MarkSweepSpace cells, LargeObjectSpace objects): the bit of every dead object is unset. -/
def gcSweep (v : Bits) (objs : List GObj) : Bits := unsetAll v (deadRefs objs)

/-- the side mark bits after tracing an Immix space (cleared in `prepare`, set for every object marked in place or
copied) -/
def marksAfter (objs : List GObj) : Bits := setAll (fun _ => false) (liveFwd objs)

/-- `Block::sweep` → `on_region_swept(block, occupied)` -/
def sweepBlock (mark : Bits) (live : List Nat) (v : Bits) (b : Nat × Nat) : Bits :=
  if live.any (inRange b) then bcopy v mark b.1 b.2 else bzero v b.1 b.2

/-- ImmixSpace: `on_object_forwarded` sets the copy's VO bit during tracing; every allocated block is swept. -/
def gcImmix (v : Bits) (objs : List GObj) (blocks : List (Nat × Nat)) : Bits :=
  blocks.foldl (sweepBlock (marksAfter objs) (liveFwd objs)) (setAll v (liveFwd objs))

/-! ### `Block::sweep` with line marks (src/policy/immix/block.rs, `line_mark_state = Some(_)`), branch for branch

`lineMarked k` = line `k` of the block carries the current line mark state; `nLines` = `Block::LINES` (128).
The VO bits are refreshed from the mark bits (`on_region_swept(self, true)`) for EVERY block that keeps a marked
line — after the `if is_reusable { … } else { … }` that only chooses the block state — and zeroed
(`on_region_swept(self, false)`) for a block without marked lines. -/

inductive SweepResult where
  /-- `BlockSweepResult::Swept`: no marked line, the block is released -/
  | swept
  /-- `BlockSweepResult::Reused`: some but not all lines marked, pushed to `reusable_blocks` -/
  | reused
  /-- `BlockSweepResult::NoReuse`: all lines marked, state `Unmarked` -/
  | noReuse
  deriving Repr, DecidableEq

def markedLines (lineMarked : Nat → Bool) (nLines : Nat) : Nat := ((List.range nLines).filter lineMarked).length

def sweepBlockLines (mark : Bits) (lineMarked : Nat → Bool) (nLines : Nat) (v : Bits) (b : Nat × Nat) : Bits × SweepResult :=
  let marked := markedLines lineMarked nLines
  if marked = 0 then
    -- on_region_swept(self, false); space.release_block(*self)
    (bzero v b.1 b.2, .swept)
  else
    let isReusable := marked != nLines
    -- `if is_reusable { set_state(Reusable{..}); reusable_blocks.push } else { set_state(Unmarked) }`, histogram,
    -- holes: no VO effect. Then, in both cases: on_region_swept(self, true)
    let v' := bcopy v mark b.1 b.2
    if isReusable then (v', .reused) else (v', .noReuse)

/-- ImmixSpace with lines: like `gcImmix`, every allocated block swept by `sweepBlockLines`; `lm b` = the line marks
of block `b` after tracing. -/
def gcImmixLines (v : Bits) (objs : List GObj) (blocks : List (Nat × Nat)) (lm : Nat × Nat → Nat → Bool) (nLines : Nat) : Bits :=
  blocks.foldl (fun v b => (sweepBlockLines (marksAfter objs) (lm b) nLines v b).1) (setAll v (liveFwd objs))

/-- MarkCompactSpace::compact: one linear scan in address order. -/
def gcCompact (v : Bits) (objs : List GObj) : Bits :=
  objs.foldl (fun v o => let v1 := unsetBit v o.ref; if o.live then setBit v1 o.fwd else v1) v

/-- CompressorSpace: zero the region, then set the bit of every marked object's new location. -/
def gcCompressor (v : Bits) (objs : List GObj) (regions : List (Nat × Nat)) : Bits :=
  setAll (regions.foldl (fun v r => bzero v r.1 r.2) v) (liveFwd objs)

/-! ## enumeration -/

/-- `scan_non_zero_values` over the VO bits of `[start, start + 8·n)`: the word-aligned addresses whose bit
is set, in address order (its bit-level implementation is C22's subject). -/
def scanRange (v : Bits) (start : Nat) : Nat → List Nat
  | 0 => []
  | n + 1 => (if v start then [start] else []) ++ scanRange v (start + 8) n

/-- `enumerate_objects`: one `visit_address_range` per block / allocated region (`(start, number of words)`), plus
the treadmill of the LOS. -/
def enumerate (v : Bits) (regions : List (Nat × Nat)) (treadmill : List Nat) : List Nat :=
  (regions.flatMap fun r => scanRange v r.1 r.2) ++ treadmill

end Mmtk.VO
