/-!
# Model of `BlockPool` / `BlockQueue` (C19)

Transcribed from `src/util/heap/blockpageresource.rs`.

An interleaving (sequentially consistent) transition system.  Threads: `n` GC workers (worker `w`
owns the local queue `w`: `worker_local_freed_blocks[w]`; `n` = the length of that vector), `m`
popper threads (mutators / GC threads allocating blocks), one flusher (`flush_all`, the
`FlushPageResource` epilogue).  `n`, `m` and the queue capacity `cap` (`BlockQueue::CAPACITY` = 256 in
the code) are parameters: the theorems hold for all of them.

A `BlockQueue` (array + cursor: `push_relaxed` writes slot `cursor` and increments, `pop` is a
`fetch_update(cursor - 1)` and reads that slot) is a stack: a `List Nat`, top first.  Blocks are `Nat`s.

Atomic steps (one `Act` = one step of one thread):
* `push w b` — worker `w` calls `push(b)`: `count.fetch_add(1)`;
  `w w` — its next step: the owner-only `push_relaxed` into its local queue, or, if that queue is full
  (`cursor = CAPACITY`), the owner-only sequence "fresh queue, push `b` into it, `replace`" (the full
  queue is now in the worker's hands), then `global_freed_blocks.write().push(old_queue)`;
* `pop p` — popper `p`'s next step: `len() == 0 → None`; take the upgradeable read lock on
  `head_global_freed_blocks` (exclusive among poppers); `head.pop()`; on success `count.fetch_sub(1)`,
  release, return; else take the `global_freed_blocks` write lock, retry `head.pop()`, else
  `global.pop()?` (returns `None`, releasing both locks, when there is no queue), take one block of
  that queue (`unwrap`), install the rest as the new head if non-empty, `count.fetch_sub(1)`, release
  both locks, return;
* `flush` — the flusher's next step: `len() == 0 → return`; for each `i < n`: if local queue `i` is
  non-empty `replace` it by a fresh one and push the old one to `global` under the write lock.

**Ownership assumptions** (they make the owner-only operations atomic steps): local queue `w` is
written only by worker `w`'s `push` and by `flush_all`, and `flush_all` never runs concurrently with
a `push` (true in the code: the flush is an epilogue that runs after the last sweeping packet).  They
are guards of the transition relation: `push` is enabled only while the flusher is idle, `flush`
starts only when every worker is idle.  A disabled action is a stutter step.
-/
namespace Mmtk.BlockPool

inductive WPC
  | idle
  | counted (b : Nat)                  -- `count` incremented; `b` still in the worker's hands
  | pushGlobal (old : List Nat)        -- local queue replaced; the full old queue in the worker's hands
deriving DecidableEq, Repr

inductive PPC
  | idle
  | checked                            -- saw `count > 0`; waits for the upgradeable head lock
  | tryHead1                           -- holds the head lock; about to `head.pop()`
  | gotHead1 (b : Nat)                 -- popped `b` from head; about to `count.fetch_sub(1)`
  | rel1 (b : Nat)                     -- about to release the head lock and return `Some(b)`
  | wantGlobal                         -- head empty; waits for the global write lock
  | tryHead2                           -- holds both locks; about to retry `head.pop()`
  | popGlobal                          -- about to `global.pop()?` and take one block of that queue
  | install (b : Nat) (rest : List Nat)  -- about to install `rest` as head (if non-empty)
  | decr2 (b : Nat)                    -- about to `count.fetch_sub(1)` (both locks held)
  | rel2 (b : Nat)                     -- about to release both locks and return `Some(b)`
deriving DecidableEq, Repr

inductive FPC
  | idle
  | at (i : Nat)                       -- about to `flush(i)`
  | pushG (i : Nat) (q : List Nat)     -- local queue `i` replaced; about to push `q` to `global`
deriving DecidableEq, Repr

structure State where
  count : Nat := 0
  head : Option (List Nat) := none
  global : List (List Nat) := []       -- the `Vec`: last pushed first
  locals : Nat → List Nat := fun _ => []
  pcW : Nat → WPC := fun _ => .idle
  pcP : Nat → PPC := fun _ => .idle
  pcF : FPC := .idle
  headLock : Option Nat := none        -- the popper holding the upgradeable read lock on head
  globalLock : Option Nat := none      -- the popper holding the `global_freed_blocks` write lock
  pushed : List Nat := []              -- ghost: every block `push` was called with (newest first)
  popped : List Nat := []              -- ghost: every block a `pop` returned (newest first)
  rets : List (Option Nat) := []       -- ghost: every value a `pop` returned (newest first)

inductive Act
  | push (w b : Nat)
  | w (w : Nat)
  | pop (p : Nat)
  | flush
deriving Repr

def workersIdle (n : Nat) (s : State) : Bool := (List.range n).all (fun i => s.pcW i == .idle)

def setW (s : State) (w : Nat) (pc : WPC) : Nat → WPC := fun x => if x = w then pc else s.pcW x
def setP (s : State) (p : Nat) (pc : PPC) : Nat → PPC := fun x => if x = p then pc else s.pcP x
def setL (s : State) (w : Nat) (q : List Nat) : Nat → List Nat := fun x => if x = w then q else s.locals x

def stepW (cap : Nat) (s : State) (w : Nat) : State :=
  match s.pcW w with
  | .idle => s
  | .counted b =>
    if (s.locals w).length < cap then
      { s with locals := setL s w (b :: s.locals w), pcW := setW s w .idle }
    else
      { s with locals := setL s w [b], pcW := setW s w (.pushGlobal (s.locals w)) }
  | .pushGlobal old =>
    if s.globalLock = none then { s with global := old :: s.global, pcW := setW s w .idle } else s

def stepP (s : State) (p : Nat) : State :=
  match s.pcP p with
  | .idle =>
    if s.count = 0 then { s with rets := none :: s.rets } else { s with pcP := setP s p .checked }
  | .checked =>
    if s.headLock = none then { s with headLock := some p, pcP := setP s p .tryHead1 } else s
  | .tryHead1 =>
    match s.head with
    | some (b :: rest) => { s with head := some rest, pcP := setP s p (.gotHead1 b) }
    | _ => { s with pcP := setP s p .wantGlobal }
  | .gotHead1 b => { s with count := s.count - 1, pcP := setP s p (.rel1 b) }
  | .rel1 b =>
    { s with headLock := none, pcP := setP s p .idle, popped := b :: s.popped, rets := some b :: s.rets }
  | .wantGlobal =>
    if s.globalLock = none then { s with globalLock := some p, pcP := setP s p .tryHead2 } else s
  | .tryHead2 =>
    match s.head with
    | some (b :: rest) => { s with head := some rest, pcP := setP s p (.decr2 b) }
    | _ => { s with pcP := setP s p .popGlobal }
  | .popGlobal =>
    match s.global with
    | [] => { s with headLock := none, globalLock := none, pcP := setP s p .idle, rets := none :: s.rets }
    | [] :: _ => s                      -- `blocks.pop().unwrap()` would panic (proved unreachable)
    | (b :: rest) :: gs => { s with global := gs, pcP := setP s p (.install b rest) }
  | .install b rest =>
    { s with head := if rest = [] then s.head else some rest, pcP := setP s p (.decr2 b) }
  | .decr2 b => { s with count := s.count - 1, pcP := setP s p (.rel2 b) }
  | .rel2 b =>
    { s with headLock := none, globalLock := none, pcP := setP s p .idle, popped := b :: s.popped,
             rets := some b :: s.rets }

def stepF (n : Nat) (s : State) : State :=
  match s.pcF with
  | .idle => if workersIdle n s && s.count != 0 then { s with pcF := .at 0 } else s
  | .at i =>
    if i < n then
      if s.locals i = [] then { s with pcF := .at (i + 1) }
      else { s with locals := setL s i [], pcF := .pushG i (s.locals i) }
    else { s with pcF := .idle }
  | .pushG i q =>
    if s.globalLock = none then { s with global := q :: s.global, pcF := .at (i + 1) } else s

/-- One step of the system with `n` workers, `m` poppers and queue capacity `cap`. -/
def step (n m cap : Nat) (s : State) : Act → State
  | .push w b =>
    if w < n ∧ s.pcW w = .idle ∧ s.pcF = .idle then
      { s with count := s.count + 1, pcW := setW s w (.counted b), pushed := b :: s.pushed }
    else s
  | .w w => if w < n then stepW cap s w else s
  | .pop p => if p < m then stepP s p else s
  | .flush => stepF n s

def init : State := {}

def exec (n m cap : Nat) (s : State) : List Act → State
  | [] => s
  | a :: rest => exec n m cap (step n m cap s a) rest

/-- Every state reachable from the empty pool by any schedule. -/
def Reachable (n m cap : Nat) (s : State) : Prop := ∃ run : List Act, s = exec n m cap init run

/-- Nobody is inside a call. -/
def Quiescent (n m : Nat) (s : State) : Prop :=
  (∀ w, w < n → s.pcW w = .idle) ∧ (∀ p, p < m → s.pcP p = .idle) ∧ s.pcF = .idle

/-! ### sequential runs (used by the driver and by `flush_makes_poppable`) -/

/-- run worker `w` until it is idle again -/
def runW (n m cap : Nat) (w : Nat) : Nat → State → State
  | 0, s => s
  | k + 1, s => if s.pcW w = .idle then s else runW n m cap w k (step n m cap s (.w w))

/-- `push(b)` by worker `w`, run to completion -/
def pushSeq (n m cap : Nat) (s : State) (w b : Nat) : State :=
  runW n m cap w 3 (step n m cap s (.push w b))

/-- run popper `p` until it is idle again -/
def runP (n m cap : Nat) (p : Nat) : Nat → State → State
  | 0, s => s
  | k + 1, s => if s.pcP p = .idle then s else runP n m cap p k (step n m cap s (.pop p))

/-- `pop()` by popper `p`, run to completion -/
def popSeq (n m cap : Nat) (s : State) (p : Nat) : State :=
  runP n m cap p 12 (step n m cap s (.pop p))

/-- run the flusher until it is idle again -/
def runF (n m cap : Nat) : Nat → State → State
  | 0, s => s
  | k + 1, s => if s.pcF = .idle then s else runF n m cap k (step n m cap s .flush)

/-- `flush_all()`, run to completion -/
def flushSeq (n m cap : Nat) (s : State) : State :=
  runF n m cap (2 * n + 2) (step n m cap s .flush)

end Mmtk.BlockPool
