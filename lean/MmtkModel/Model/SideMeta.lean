import MmtkModel.Model.Mem
/-!
# Model of the side-metadata accessors (C20)

Transcribed from `src/util/metadata/side_metadata/{global.rs, helpers.rs}` for the 64-bit target
(every spec is contiguous).  A spec is `(start, log_num_of_bits, log_bytes_in_region)` where
`start = spec.get_starting_address() = global_side_metadata_base_address() + spec.offset`
(kept as one symbolic number).  `usize` = `Nat`; the places where the code wraps or truncates
(`<<` on `usize`, `as u8`, `u8 << n`, `wrapping_add`) are written out.

Fields narrower than a byte live inside one metadata byte at `(metaAddr, lshift)` and are accessed
by splicing into that byte (`T = u8`); byte-or-wider fields are native little-endian words of
`2^(log_bits-3)` bytes (`T = u8/u16/u32/u64`).  Atomic and non-atomic variants have the same
sequential semantics.  `debug = true` adds `assert_value_type` (debug builds only).
-/
namespace Mmtk.SideMeta
open Mmtk.Mem

structure Spec where
  /-- `get_starting_address()` -/
  start : Nat
  /-- `log_num_of_bits` (0..6) -/
  logBits : Nat
  /-- `log_bytes_in_region` -/
  logRegion : Nat
deriving Repr, DecidableEq

/-- `helpers.rs::address_to_contiguous_meta_address` (`shift = 3 - log_bits` as `i32`). -/
def metaAddr (s : Spec) (a : Nat) : Nat :=
  if s.logBits ≤ 3 then s.start + ((a >>> s.logRegion) >>> (3 - s.logBits))
  else s.start + (((a >>> s.logRegion) <<< (s.logBits - 3)) % 2 ^ 64)

/-- `helpers.rs::meta_byte_lshift`:
`((((data_addr >> log_region) << rem_shift) >> rem_shift) << bits_num_log) as u8` with
`rem_shift = 64 - (3 - bits_num_log)`, `0` for byte-or-wider fields. -/
def lshift (s : Spec) (a : Nat) : Nat :=
  if s.logBits ≥ 3 then 0 else
  let rem := 64 - (3 - s.logBits)
  ((((((a >>> s.logRegion) <<< rem) % 2 ^ 64) >>> rem) <<< s.logBits) % 2 ^ 64) % 256

/-- `helpers.rs::meta_byte_mask`: `((1usize << (1usize << bits_num_log)) - 1) as u8`. -/
def byteMask (s : Spec) : Nat := ((1 <<< (1 <<< s.logBits)) - 1) % 256

/-- `meta_byte_mask(self) << lshift` on `u8`. -/
def fmask (s : Spec) (a : Nat) : Nat := (byteMask s <<< lshift s a) % 256

/-- number of bytes of the access type `T` of a byte-or-wider field. -/
def tbytes (s : Spec) : Nat := 2 ^ (s.logBits - 3)

/-- `assert_value_type(Some(v))` (debug builds): a sub-byte field's value must fit the field.
(`T::LOG2` matches by construction of the callers.) -/
def valueOk (debug : Bool) (s : Spec) (v : Nat) : Bool :=
  !debug || decide (s.logBits ≥ 3) || decide (v < 2 ^ (2 ^ s.logBits))

/-- `load` / `load_atomic`. -/
def load (s : Spec) (m : Mem) (a : Nat) : Nat :=
  let ma := metaAddr s a
  if s.logBits < 3 then
    let lsh := lshift s a
    let mask := fmask s a
    (m ma &&& mask) >>> lsh
  else readLE m ma (tbytes s)

/-- `store`: `(old & !mask) | (metadata << lshift)` on `u8`, or a plain word store. -/
def store (debug : Bool) (s : Spec) (m : Mem) (a v : Nat) : Option Mem :=
  if !valueOk debug s v then none else
  let ma := metaAddr s a
  if s.logBits < 3 then
    let lsh := lshift s a
    let mask := fmask s a
    let old := m ma
    some (set m ma ((old &&& (255 - mask)) ||| ((v <<< lsh) % 256)))
  else some (writeLE m ma (tbytes s) v)

/-- `store_atomic`: for sub-byte fields a `fetch_update` whose closure computes
`(v & !mask) | (metadata_u8 << lshift)` — the same byte as `store`. -/
def storeAtomic (debug : Bool) (s : Spec) (m : Mem) (a v : Nat) : Option Mem :=
  if !valueOk debug s v then none else
  let ma := metaAddr s a
  if s.logBits < 3 then
    let lsh := lshift s a
    let mask := fmask s a
    some (set m ma ((m ma &&& (255 - mask)) ||| ((v <<< lsh) % 256)))
  else some (writeLE m ma (tbytes s) v)

/-- `set_zero` / `set_zero_atomic`: `store(0)` with `T` chosen from `log_num_of_bits`
(`_ => unreachable!()` above 6). -/
def setZero (debug : Bool) (s : Spec) (m : Mem) (a : Nat) : Option Mem :=
  if s.logBits ≤ 6 then store debug s m a 0 else none

/-- `compare_exchange_atomic` (`assert_value_type` sees only `new_metadata`). Result
`(memory, success?, returned value)`. -/
def cmpxchg (debug : Bool) (s : Spec) (m : Mem) (a old new : Nat) : Option (Mem × Bool × Nat) :=
  if !valueOk debug s new then none else
  let ma := metaAddr s a
  if s.logBits < 3 then
    let lsh := lshift s a
    let mask := fmask s a
    let real := m ma
    let expOld := (real &&& (255 - mask)) ||| ((old <<< lsh) % 256)
    let expNew := (expOld &&& (255 - mask)) ||| ((new <<< lsh) % 256)
    if real = expOld then some (set m ma expNew, true, (real &&& mask) >>> lsh)
    else some (m, false, (real &&& mask) >>> lsh)
  else
    let cur := readLE m ma (tbytes s)
    if cur = old then some (writeLE m ma (tbytes s) new, true, cur) else some (m, false, cur)

/-- `fetch_ops_on_bits`: `new_raw = (raw & !mask) | ((update(old) << lshift) & mask)`; returns the
old field. `update` works on `u8`. -/
def fetchOpsOnBits (s : Spec) (m : Mem) (a : Nat) (update : Nat → Nat) : Mem × Nat :=
  let ma := metaAddr s a
  let lsh := lshift s a
  let mask := fmask s a
  let raw := m ma
  let oldV := (raw &&& mask) >>> lsh
  let newV := update oldV
  (set m ma ((raw &&& (255 - mask)) ||| (((newV <<< lsh) % 256) &&& mask)), (raw &&& mask) >>> lsh)

/-- `fetch_add_atomic` (`wrapping_add` on `u8` for sub-byte fields, on `T` otherwise). -/
def fetchAdd (debug : Bool) (s : Spec) (m : Mem) (a v : Nat) : Option (Mem × Nat) :=
  if !valueOk debug s v then none else
  if s.logBits < 3 then some (fetchOpsOnBits s m a (fun x => (x + v) % 256))
  else
    let ma := metaAddr s a
    let cur := readLE m ma (tbytes s)
    some (writeLE m ma (tbytes s) ((cur + v) % 256 ^ tbytes s), cur)

/-- `fetch_sub_atomic`. -/
def fetchSub (debug : Bool) (s : Spec) (m : Mem) (a v : Nat) : Option (Mem × Nat) :=
  if !valueOk debug s v then none else
  if s.logBits < 3 then some (fetchOpsOnBits s m a (fun x => (x + 256 - v % 256) % 256))
  else
    let ma := metaAddr s a
    let cur := readLE m ma (tbytes s)
    some (writeLE m ma (tbytes s) ((cur + 256 ^ tbytes s - v % 256 ^ tbytes s) % 256 ^ tbytes s), cur)

/-- `fetch_and_atomic`: `rhs = (val << lshift) | !mask; old = fetch_and(byte, rhs)`. -/
def fetchAnd (debug : Bool) (s : Spec) (m : Mem) (a v : Nat) : Option (Mem × Nat) :=
  if !valueOk debug s v then none else
  let ma := metaAddr s a
  if s.logBits < 3 then
    let lsh := lshift s a
    let mask := fmask s a
    let rhs := ((v <<< lsh) % 256) ||| (255 - mask)
    let raw := m ma
    some (set m ma (raw &&& rhs), (raw &&& mask) >>> lsh)
  else
    let cur := readLE m ma (tbytes s)
    some (writeLE m ma (tbytes s) (cur &&& v), cur)

/-- `fetch_or_atomic`: `rhs = (val << lshift) & mask; old = fetch_or(byte, rhs)`. -/
def fetchOr (debug : Bool) (s : Spec) (m : Mem) (a v : Nat) : Option (Mem × Nat) :=
  if !valueOk debug s v then none else
  let ma := metaAddr s a
  if s.logBits < 3 then
    let lsh := lshift s a
    let mask := fmask s a
    let rhs := ((v <<< lsh) % 256) &&& mask
    let raw := m ma
    some (set m ma (raw ||| rhs), (raw &&& mask) >>> lsh)
  else
    let cur := readLE m ma (tbytes s)
    some (writeLE m ma (tbytes s) (cur ||| v), cur)

/-- `fetch_update_atomic` with `f : old → Option new` (values of type `T`):
`Ok(old)` and the field becomes `f(old)` (spliced under the mask), or `Err(old)`. -/
def fetchUpdate (s : Spec) (m : Mem) (a : Nat) (f : Nat → Option Nat) : Mem × Bool × Nat :=
  let ma := metaAddr s a
  if s.logBits < 3 then
    let lsh := lshift s a
    let mask := fmask s a
    let raw := m ma
    let oldV := (raw &&& mask) >>> lsh
    match f oldV with
    | none => (m, false, (raw &&& mask) >>> lsh)
    | some nv => (set m ma ((raw &&& (255 - mask)) ||| (((nv <<< lsh) % 256) &&& mask)), true, (raw &&& mask) >>> lsh)
  else
    let cur := readLE m ma (tbytes s)
    match f cur with
    | none => (m, false, cur)
    | some nv => (writeLE m ma (tbytes s) (nv % 256 ^ tbytes s), true, cur)

/-- `set_raw_byte_atomic`: the whole byte becomes `0xff` (documented to corrupt neighbours; not part
of the isolation claim). -/
def setRawByte (s : Spec) (m : Mem) (a : Nat) : Mem := set m (metaAddr s a) 255

/-! ## operation histories -/

/-- One accessor call on data address `a`. -/
inductive Op where
  | load (a : Nat)
  | loadAtomic (a : Nat)
  | store (a v : Nat)
  | storeAtomic (a v : Nat)
  | setZero (a : Nat)
  | setZeroAtomic (a : Nat)
  | cmpxchg (a old new : Nat)
  | fetchAdd (a v : Nat)
  | fetchSub (a v : Nat)
  | fetchAnd (a v : Nat)
  | fetchOr (a v : Nat)
  | fetchUpdate (a : Nat) (f : Nat → Option Nat)

/-- What a call returns: a value, nothing, or `Ok(v)`/`Err(v)`. -/
inductive Ret where
  | val (v : Nat)
  | unit
  | res (ok : Bool) (v : Nat)
deriving DecidableEq, Repr

def Op.addr : Op → Nat
  | .load a | .loadAtomic a | .store a _ | .storeAtomic a _ | .setZero a | .setZeroAtomic a
  | .cmpxchg a _ _ | .fetchAdd a _ | .fetchSub a _ | .fetchAnd a _ | .fetchOr a _ | .fetchUpdate a _ => a

/-- The implementation model of one call. `none` = debug assertion. -/
def stepImpl (debug : Bool) (s : Spec) (m : Mem) : Op → Option (Mem × Ret)
  | .load a | .loadAtomic a => some (m, .val (load s m a))
  | .store a v => (store debug s m a v).map fun m' => (m', .unit)
  | .storeAtomic a v => (storeAtomic debug s m a v).map fun m' => (m', .unit)
  | .setZero a | .setZeroAtomic a => (setZero debug s m a).map fun m' => (m', .unit)
  | .cmpxchg a o n => (cmpxchg debug s m a o n).map fun (m', ok, v) => (m', .res ok v)
  | .fetchAdd a v => (fetchAdd debug s m a v).map fun (m', v) => (m', .val v)
  | .fetchSub a v => (fetchSub debug s m a v).map fun (m', v) => (m', .val v)
  | .fetchAnd a v => (fetchAnd debug s m a v).map fun (m', v) => (m', .val v)
  | .fetchOr a v => (fetchOr debug s m a v).map fun (m', v) => (m', .val v)
  | .fetchUpdate a f => let (m', ok, v) := fetchUpdate s m a f; some (m', .res ok v)

def runImpl (debug : Bool) (s : Spec) : Mem → List Op → Option (Mem × List Ret)
  | m, [] => some (m, [])
  | m, op :: ops =>
    match stepImpl debug s m op with
    | none => none
    | some (m', r) =>
      match runImpl debug s m' ops with
      | none => none
      | some (m'', rs) => some (m'', r :: rs)

/-! ## the specification: a plain array of `2^logBits`-bit integers indexed by region -/

def upd (f : Nat → Nat) (r v : Nat) : Nat → Nat := fun x => if x = r then v else f x

/-- One call on the abstract array `arr` (region index ↦ value); `W = 2^logBits` is the width. -/
def stepSpec (W logRegion : Nat) (arr : Nat → Nat) : Op → (Nat → Nat) × Ret
  | .load a | .loadAtomic a => (arr, .val (arr (a >>> logRegion)))
  | .store a v | .storeAtomic a v => (upd arr (a >>> logRegion) v, .unit)
  | .setZero a | .setZeroAtomic a => (upd arr (a >>> logRegion) 0, .unit)
  | .cmpxchg a o n =>
    let r := a >>> logRegion
    if arr r = o then (upd arr r n, .res true (arr r)) else (arr, .res false (arr r))
  | .fetchAdd a v => let r := a >>> logRegion; (upd arr r ((arr r + v) % 2 ^ W), .val (arr r))
  | .fetchSub a v => let r := a >>> logRegion; (upd arr r ((arr r + 2 ^ W - v) % 2 ^ W), .val (arr r))
  | .fetchAnd a v => let r := a >>> logRegion; (upd arr r (arr r &&& v), .val (arr r))
  | .fetchOr a v => let r := a >>> logRegion; (upd arr r (arr r ||| v), .val (arr r))
  | .fetchUpdate a f =>
    let r := a >>> logRegion
    match f (arr r) with
    | none => (arr, .res false (arr r))
    | some nv => (upd arr r (nv % 2 ^ W), .res true (arr r))

def runSpec (W logRegion : Nat) : (Nat → Nat) → List Op → (Nat → Nat) × List Ret
  | arr, [] => (arr, [])
  | arr, op :: ops =>
    let (arr', r) := stepSpec W logRegion arr op
    let (arr'', rs) := runSpec W logRegion arr' ops
    (arr'', r :: rs)

/-- The abstraction function: the value of the field of region `r` (closed form, no wrap). -/
def absArr (m : Mem) (s : Spec) (r : Nat) : Nat :=
  if s.logBits < 3 then
    (m (s.start + r / 2 ^ (3 - s.logBits)) >>> ((r % 2 ^ (3 - s.logBits)) * 2 ^ s.logBits)) % 2 ^ (2 ^ s.logBits)
  else readLE m (s.start + r * 2 ^ (s.logBits - 3)) (2 ^ (s.logBits - 3))

end Mmtk.SideMeta
