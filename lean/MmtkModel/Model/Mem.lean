/-!
# Byte-addressed memory and little-endian words (shared by the metadata models)
-/
namespace Mmtk.Mem

/-- Memory = byte value (`< 256`) at every address. -/
abbrev Mem := Nat → Nat

def set (m : Mem) (a v : Nat) : Mem := fun x => if x = a then v else m x

/-- Read `w` bytes little-endian starting at `a`. -/
def readLE (m : Mem) (a : Nat) : Nat → Nat
  | 0 => 0
  | w + 1 => m a + 256 * readLE m (a + 1) w

/-- Write the low `w` bytes of `v` little-endian starting at `a`. -/
def writeLE (m : Mem) (a : Nat) : Nat → Nat → Mem
  | 0, _ => m
  | w + 1, v => writeLE (set m a (v % 256)) (a + 1) w (v / 256)

end Mmtk.Mem
