import MmtkModel.Model.Heap
/-!
# Snapshot comparison (the verdict functions of the `gcm` monitor for C01 / C02 / C04)

A `Snap` is what `hx_gc snap` printed after walking REAL memory from the real roots
(harness/HX_GC.md): root slots and objects `id:ref:size:letter:hashok:f0/f1/…`, sorted by (id, ref).
`checkSnap` compares it with the shadow heap and names the first clause of C01 that fails.
No Mathlib; everything is executable and total.
-/
namespace Mmtk.Heap

/-- a printed field / root value: `-`, an id, or `!hex` / `!shape` (not a readable object) -/
inductive SVal where
  | null | id (i : Id) | bad
  deriving Repr, DecidableEq, Inhabited

structure SObj where
  id : Id
  ref : Nat
  size : Nat
  letter : Char
  hashok : Bool
  fields : List SVal
  deriving Repr, Inhabited

structure Snap where
  gcs : Nat
  roots : List (Nat × SVal)
  objs : List SObj
  deriving Repr, Inhabited

def valOk : Option Id → SVal → Bool
  | none, .null => true
  | some i, .id j => i == j
  | _, _ => false

/-- the fields of the real object agree with the shadow object (field 0 of a reference object is
the weak referent: not compared here — C06) -/
def fieldsOk : List (Option Id) → List SVal → Bool
  | [], [] => true
  | w :: ws, g :: gs => valOk w g && fieldsOk ws gs
  | _, _ => false

def objFieldsOk (w : Obj) (o : SObj) : Bool :=
  if w.isRef then o.fields.length == w.fields.length && fieldsOk (w.fields.drop 1) (o.fields.drop 1)
  else fieldsOk w.fields o.fields

/-- ids strictly increasing (the snapshot is sorted by id; an id printed twice = two distinct
real objects claim one identity) -/
def strictIncr : List Id → Bool
  | [] => true
  | [_] => true
  | a :: b :: rest => decide (a < b) && strictIncr (b :: rest)

def firstDup : List Id → Option Id
  | [] => none
  | [_] => none
  | a :: b :: rest => if a < b then firstDup (b :: rest) else some b

/-- per-object clauses: known + reachable in the shadow heap, size, payload hash, fields -/
def checkObj (h : Heap) (r : Array Bool) (o : SObj) : Option (String × String) :=
  match h.objs[o.id]? with
  | none => some ("gc:extra-object", s!"id={o.id} never allocated")
  | some w =>
    if !(r.getD o.id false) then some ("gc:extra-object", s!"id={o.id} is not reachable in the shadow heap")
    else if o.size != w.size then some ("gc:size-mismatch", s!"id={o.id} size={o.size} want={w.size}")
    else if !o.hashok then some ("gc:payload", s!"id={o.id} payload hash / header shape broken")
    else if !objFieldsOk w o then some ("gc:field-mismatch", s!"id={o.id}")
    else none

def firstSome {α β} (f : α → Option β) : List α → Option β
  | [] => none
  | a :: rest => match f a with
    | some b => some b
    | none => firstSome f rest

/-- mark the ids of a list in a Bool array -/
def markIds (n : Nat) (ids : List Id) : Array Bool :=
  ids.foldl (fun a i => a.setIfInBounds i true) (Array.replicate n false)

/-- first index `< n` that is reachable but not seen -/
def firstLost (r seen : Array Bool) : Nat → Option Id
  | 0 => none
  | n + 1 => match firstLost r seen n with
    | some i => some i
    | none => if r.getD n false && !(seen.getD n false) then some n else none

def rootsOk : List (Nat × Id) → List (Nat × SVal) → Bool
  | [], [] => true
  | (k, i) :: ws, (k', v) :: gs => k == k' && valOk (some i) v && rootsOk ws gs
  | _, _ => false

/-- C01 at a snapshot. `none` = every clause holds. -/
def checkSnap (h : Heap) (s : Snap) : Option (String × String) :=
  let ids := s.objs.map (·.id)
  if !strictIncr ids then
    some ("gc:dup-id", s!"id={(firstDup ids).getD 0} appears twice (two distinct objects with one identity)")
  else
    let r := reach h
    match firstSome (checkObj h r) s.objs with
    | some e => some e
    | none =>
      match firstLost r (markIds h.objs.size ids) h.objs.size with
      | some i => some ("gc:lost-object", s!"id={i} is reachable in the shadow heap but not from the real roots")
      | none =>
        if !rootsOk h.roots s.roots then some ("gc:root-mismatch", "root slots differ")
        else none

/-- intervals of the snapshot objects (`refoff` = reference − allocation start) -/
def snapIvs (refoff : Nat) (s : Snap) : List Iv :=
  s.objs.map fun o => { start := o.ref - refoff, size := o.size, id := o.id }

/-- C04 at a snapshot: `fixed i` objects whose last known reference is `last[i] ≠ 0` are still there -/
def firstMoved (fixed : Id → Bool) (last : Array Nat) : List SObj → Option SObj
  | [] => none
  | o :: rest =>
    if fixed o.id && last.getD o.id 0 != 0 && last.getD o.id 0 != o.ref then some o
    else firstMoved fixed last rest

/-! ## C02 at an allocation -/

/-- Does the new allocation `x` clash with an allocation made since the last pause (`true`), or with an
object of the last snapshot that is still reachable in the shadow heap (`false`)? `reach` is only
computed when some snapshot interval is hit at all. -/
def allocClash (h : Heap) (fresh snap : List Iv) (x : Iv) : Option (Bool × Iv) :=
  match firstOverlap x fresh with
  | some y => some (true, y)
  | none =>
    match firstOverlap x snap with
    | none => none
    | some _ =>
      let r := reach h
      (snap.find? fun y => (firstOverlap x [y]).isSome && r.getD y.id false).map fun y => (false, y)

/-! ## C03 at an allocation -/

/-- object size the harness requests for `nfields` reference slots and `payload` bytes
(harness/src/vm.rs `obj::size_for`; `refoff` = OBJECT_REF_OFFSET: 8, or 0 with `unified_ref`) -/
def sizeFor (refoff nf payload : Nat) : Nat :=
  let raw := refoff + 24 + 8 * nf + payload
  Nat.max 32 ((raw + 7) / 8 * 8)

structure AllocRes where
  a : Nat
  r : Nat
  sz : Nat
  zero : Bool
  inmmtk : Bool
  space : String
  deriving Repr

/-- the clauses of C03 on one `alloc` result, in the order they are reported -/
def checkAlloc (refoff nf payload align offset : Nat) (want : String) (x : AllocRes) : Option String :=
  if x.a == 0 then some "gc:null-no-oom"
  else if align == 0 || (x.a + offset) % align != 0 then some "gc:misaligned"
  else if x.sz != sizeFor refoff nf payload then some "gc:size"
  else if !x.inmmtk then some "gc:not-in-mmtk"
  else if !x.zero then some "gc:not-zeroed"
  else if x.space != want then some "gc:wrong-space"
  else if x.r != x.a + refoff then some "prog:ref-offset"
  else none

/-! ## C09: the floor rule -/

structure Floor where
  samples : Nat := 0
  floor : Nat := 0
  deriving Repr

/-- one `used` sample after an exhaustive GC: the first `warm` samples establish the floor (their
maximum); every later sample must stay `≤ floor + slack`. Returns the new state and the verdict. -/
def floorStep (warm slack : Nat) (f : Floor) (used : Nat) : Floor × Bool :=
  if f.samples < warm then ({ samples := f.samples + 1, floor := Nat.max f.floor used }, true)
  else ({ f with samples := f.samples + 1 }, decide (used ≤ f.floor + slack))

def floorRun (warm slack : Nat) : Floor → List Nat → Bool
  | _, [] => true
  | f, u :: rest => let (f', ok) := floorStep warm slack f u; ok && floorRun warm slack f' rest

end Mmtk.Heap
