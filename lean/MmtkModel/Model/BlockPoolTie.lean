import MmtkModel.Model.BlockPool
/-!
# C19 tie: the verdict on a real-thread history of a `BlockPool`

The harness lets `W` worker threads push the distinct blocks `0 .. N-1` while popper threads pop
concurrently; when all have returned it reports the blocks popped, the blocks still held
(`iterate_blocks`) and `len()`; then, optionally after `flush_all`, it drains the pool sequentially.
`raceOk` is the conjunction of the conclusions of the C19 theorems at quiescence, as an executable
predicate; `Props/C19.lean` proves (`race_outcome_sound`, `drain_all`) that the model satisfies it.
-/
namespace Mmtk.BlockPool

/-- `popped ⊎ held` is exactly `{0, …, N-1}`, each once -/
def partitionOk (N : Nat) (popped held : List Nat) : Bool :=
  (popped ++ held).length == N && (List.range N).all (fun b => (popped ++ held).count b == 1)

def subList (a b : List Nat) : Bool := a.all (fun x => a.count x ≤ b.count x)

structure RaceObs where
  pushedN : Nat
  popped : List Nat
  lenAfter : Nat
  held : List Nat
  flush : Bool
  drained : List Nat
  lenEnd : Nat

def raceOk (o : RaceObs) : Bool :=
  partitionOk o.pushedN o.popped o.held && o.lenAfter == o.held.length &&
  subList o.drained o.held && o.lenEnd + o.drained.length == o.held.length &&
  (!o.flush || o.lenEnd == 0)

end Mmtk.BlockPool
