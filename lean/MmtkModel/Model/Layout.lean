/-!
# Side-metadata layout and the sanity checker's overlap predicate (C24, C25)

Transcribed from `src/util/metadata/side_metadata/{helpers.rs, sanity.rs, global.rs}` for the 64-bit
target (every spec is *contiguous*: its table starts at `base + offset`).
The runtime base address cancels out of every comparison the checker makes (`base + a ≥ base + b`);
the model therefore works with offsets, and the no-overflow of `base + offset + size` is an
assumption recorded in the evidence.
-/
namespace Mmtk.Layout

/-- `LOG_ARCH_ADDRESS_SPACE` on x86-64. -/
def logAddressSpace : Nat := 47

structure Spec where
  name : Nat
  isGlobal : Bool
  offset : Nat
  logBits : Nat      -- log_num_of_bits (0 = 1 bit … 6 = 64 bits)
  logRegion : Nat    -- log_bytes_in_region
deriving DecidableEq, Repr

/-- `log_data_meta_ratio`: `(3 + log_bytes_in_region) - log_num_of_bits`. -/
def logDataMetaRatio (s : Spec) : Nat := 3 + s.logRegion - s.logBits

/-- The specs the code can lay out: `usize` subtractions in `log_data_meta_ratio` and in
`metadata_address_range_size` do not underflow. -/
def Spec.legal (s : Spec) : Prop := s.logBits ≤ 3 + s.logRegion ∧ logDataMetaRatio s ≤ logAddressSpace

instance (s : Spec) : Decidable s.legal := by unfold Spec.legal; exact inferInstance

/-- `metadata_address_range_size(spec) = 1 << (LOG_ARCH_ADDRESS_SPACE - log_data_meta_ratio(spec))`. -/
def rangeSize (s : Spec) : Nat := 2 ^ (logAddressSpace - logDataMetaRatio s)

/-- `upper_bound_offset`. -/
def upperBoundOffset (s : Spec) : Nat := s.offset + rangeSize s

/-- The two metadata address ranges intersect. -/
def Overlap (a b : Spec) : Prop :=
  a.offset < b.offset + rangeSize b ∧ b.offset < a.offset + rangeSize a

instance (a b : Spec) : Decidable (Overlap a b) := by unfold Overlap; exact inferInstance

/-- `verify_no_overlap_contiguous(spec_1, spec_2).is_ok()` as repaired by the `fix:` commit
(`end_i = spec_i.get_starting_address() + size_i`). -/
def noOverlap (a b : Spec) : Bool :=
  decide (a.offset ≥ b.offset + rangeSize b) || decide (b.offset ≥ a.offset + rangeSize a)

/-- The predicate as it was before the repair: `end_i = base + size_i` (the spec's own offset was
forgotten).  Kept as the record of the defect the check found (known_findings.json: fixed). -/
def noOverlapBuggy (a b : Spec) : Bool :=
  decide (a.offset ≥ rangeSize b) || decide (b.offset ≥ rangeSize a)

/-- `for s1 in specs { for s2 in specs { if s1 != s2 { verify_no_overlap(s1, s2)? } } }`. -/
def allPairsOk (chk : Spec → Spec → Bool) (specs : List Spec) : Bool :=
  specs.all fun s1 => specs.all fun s2 => decide (s1 = s2) || chk s1 s2

def totalSize (specs : List Spec) : Nat := (specs.map rangeSize).sum

/-- `verify_global_specs`: total-size budget, then all ordered pairs. -/
def verifyGlobal (chk : Spec → Spec → Bool) (g : List Spec) : Bool :=
  decide (totalSize g ≤ 2 ^ (logAddressSpace - 1)) && allPairsOk chk g

/-- `verify_local_specs` (64-bit): each range within the budget, then all ordered pairs.
(The code first de-duplicates the list through a `HashSet`; equal specs are skipped by the pair loop
anyway, so the result is the same.) -/
def verifyLocal (chk : Spec → Spec → Bool) (l : List Spec) : Bool :=
  l.all (fun s => decide (rangeSize s ≤ 2 ^ (logAddressSpace - 1))) && allPairsOk chk l

inductive Verdict | ok | panicOther | panicAssert
deriving DecidableEq, Repr

/-- `SideMetadataSanity::new().verify_metadata_context(_, ctx)` (first call): the order of the checks
decides which panic the caller sees. -/
def verifyContext (chk : Spec → Spec → Bool) (g l : List Spec) : Verdict :=
  if !verifyGlobal chk g then .panicOther
  else if !g.all (·.isGlobal) then .panicAssert
  else if !l.all (fun s => !s.isGlobal) then .panicAssert
  else if !verifyLocal chk l then .panicOther
  else .ok

end Mmtk.Layout

namespace Mmtk.Layout

/-- `side_metadata_offset_after(spec)` on the 64-bit target. -/
def offsetAfter (s : Spec) : Nat := upperBoundOffset s

/-- One configuration's active side specs (as a list **sorted by offset** by the translator) and the
bytes reserved for side metadata under that configuration. -/
structure Row where
  reserved : Nat
  specs : List Spec
deriving Repr

/-- Adjacent-pair check on an offset-sorted list: each table ends before the next one begins. -/
def sortedDisjoint : List Spec → Bool
  | [] => true
  | [_] => true
  | a :: b :: rest => decide (upperBoundOffset a ≤ b.offset) && sortedDisjoint (b :: rest)

/-- The decidable per-configuration obligation. -/
def rowOk (r : Row) : Bool :=
  r.specs.all (fun s => decide s.legal) && sortedDisjoint r.specs &&
    r.specs.all (fun s => decide (upperBoundOffset s ≤ r.reserved))

/-- Lay a list of (logBits, logRegion) out one after another starting at `base`
(`side_first` … `side_after`, and the `define_side_metadata_specs!` macro). -/
def layoutChain (isGlobal : Bool) (base : Nat) : List (Nat × Nat × Nat) → List Spec
  | [] => []
  | (name, lb, lr) :: rest =>
    let s : Spec := { name := name, isGlobal := isGlobal, offset := base, logBits := lb, logRegion := lr }
    s :: layoutChain isGlobal (offsetAfter s) rest

end Mmtk.Layout
