/-!
# Model of the work-packet scheduler (C14, C15, C16, C11, C13-ordering)

An interleaving transition system with `n` GC workers for every `n`, transcribed from

* `scheduler/worker_monitor.rs` — `WorkerMonitor::{park_and_wait, make_request, notify_work_available,
  on_all_workers_exited}`, `WorkerParker::{inc,dec}_parked_workers`;
* `scheduler/worker_goals.rs` — `WorkerGoals::{set_request, poll_next_goal, on_current_goal_completed}`
  (priority Gc > Shutdown > StopForFork);
* `scheduler/scheduler.rs` — `GCWorkScheduler::{poll, poll_slow, poll_schedulable_work_once,
  on_last_parked, respond_to_requests, find_more_work_for_workers, schedule_sentinels, update_buckets,
  are_buckets_drained, on_gc_finished, close_all_stw_buckets, schedule_concurrent_packets,
  notify_mutators_paused, stop_gc_threads_for_forking, shutdown_gc_threads, surrender_gc_worker}`;
* `scheduler/work_bucket.rs` — `WorkBucket::{add*, notify_one_worker, notify_all_workers, poll, open,
  close, update, is_drained, set_sentinel, maybe_schedule_sentinel, set_enabled}`;
* `scheduler/worker.rs` — `GCWorker::{run, poll, add_work}`, `WorkerGroup::{prepare_surrender_buffer,
  surrender_gc_worker, respawn}`;
* `util/heap/gc_trigger.rs` — `GCTrigger::{request, clear_request}` (`request_flag`);
* `scheduler/gc_work.rs` — `StopMutators::do_work` (stop_all_mutators, then `notify_mutators_paused`).

Atomicity. Everything done while holding `WorkerMonitor::sync` is one action (`park`, `wake`,
`makeRequest`): the mutex serialises these sections, and while the last parked worker runs
`on_last_parked` every other worker is inside `Condvar::wait`.  Mutators are NOT excluded by that mutex:
`on_gc_finished` resumes them (`resume`) in the middle of the last parker's section, and under
`mutAddOpen` they run during every section of the concurrent phase.  What a mutator can do without
the mutex is `requestFlag`, `mutPush`, `mutNotifyOne`.  The parts of a section that can overlap with
running mutators are `respond` (no goal current) and what follows `resume` (`completeGc`, `respond`,
the final `notify_all`/unpark); they read no `requestFlag`, read no bucket queue and change no bucket
flag, so each of the three mutator actions commutes to the right of the rest of the section: a waiter
that a mutator's `notify_one` wakes cannot leave `wait` before the section releases the mutex, and a
section that ends in `notify_all` wakes it anyway — the same state is reached by the whole section
followed by a `mutNotifyOne` that finds nobody.  So the atomic section followed by the mutator's
actions simulates every real interleaving, and the monitor (`Driver/Sched/Monitor.lean`) replays logs
in that order.  (One interleaving is only over-approximated: a mutator's `notify_one` that falls
between `inc_parked_workers` and `Condvar::wait` of a worker that is going to wait is lost in the
code; in the atomic order that worker already waits and is `woken`, which the model lets last
arbitrarily long.  The stranded state itself — a waiter, a runnable packet, no notification pending —
is reached in the model through the `parking` window, see `stranded_with_mutator_push`.)
Everything else (bucket queues, `open`
flags, sentinels, designated queues — all lock-free or separately locked in the code) is one action
per memory operation.  `poll` is *not* atomic: a polling worker observes the containers one at a
time (`observeEmpty`), in any order, and may only decide to park (`pollMiss`) after it has seen each
of them empty at some moment.

Packets are abstract: a running packet may push packets (to any bucket, to the worker's own local
buffer if the target bucket is open, to any worker's designated queue), install a sentinel, stop the
mutators, open the first stop-the-world bucket, enable/disable buckets, notify, and end.  Which
packet a poll returns is a parameter of the action (queues are multisets for the model).
`steal_batch_and_pop` = `pollBucket` followed by `batchMove`s of the same worker.

The stage table (`Cfg.stages`) is a parameter; `Mmtk.Generated.Stages` is the table regenerated from
the linked crate by `hx_consts stages` + `gen/emit_stages.py`.

Debug assertions of the code (`inc_parked_workers`, `assert_all_open_buckets_are_empty`, the
"GC request while GC in progress" assertion, `debug_assert_all_stw_buckets_empty`, `close`,
`notify_mutators_paused`, `prepare_surrender_buffer`) are guards: the action is not enabled (`none`)
where the code would panic.
-/
namespace Mmtk.Sched

/-- One row of the `WorkBucketStage` table (predicates of `work_bucket.rs`). -/
structure StageInfo where
  isStw : Bool
  isSeq : Bool             -- is_sequentially_opened
  isFirstStw : Bool
  alwaysOpen : Bool
  openByDefault : Bool
  enabledByDefault : Bool
deriving DecidableEq, Repr, Inhabited

structure Cfg where
  n : Nat                          -- number of GC workers
  stages : List StageInfo          -- in enum order (the order `update_buckets` visits)
  concIdx : Nat                    -- index of `WorkBucketStage::Concurrent`
  unconIdx : Nat                   -- index of `WorkBucketStage::Unconstrained`
  /-- may a mutator push into an open ∧ enabled bucket?  (`false` for the stop-the-world plans; the
  SATB barrier of ConcurrentImmix does it during concurrent marking) -/
  mutAddOpen : Bool := false

def Cfg.L (c : Cfg) : Nat := c.stages.length
def Cfg.info (c : Cfg) (b : Nat) : StageInfo := c.stages.getD b default

/-- A work packet: `id` is unique, `stage` is the bucket it is destined for, `tag` is opaque (the
monitor stores the packet's type/address key there). -/
structure Pkt where
  id : Nat
  stage : Nat
  tag : Nat := 0
deriving DecidableEq, Repr, Inhabited

inductive Goal | gc | shutdown | stopForFork
deriving DecidableEq, Repr, Inhabited

def Goal.isExit : Goal → Bool
  | .gc => false
  | _ => true

/-- The containers a polling worker looks into: a bucket, some worker's local deque (its own: `pop`;
another's: `steal`), its own designated queue. -/
inductive Cont
  | bucket (b : Nat)
  | buf (w : Nat)
  | desig
deriving DecidableEq, Repr, Inhabited

inductive PC
  | polling (seen : List Cont)   -- in `GCWorker::poll` / `poll_slow`; `seen` = containers observed empty
  | exec (p : Pkt)               -- inside `do_work_with_stat`
  | parking                      -- `poll_slow` found nothing; before `sync.lock()` in `park_and_wait`
  | waiting                      -- inside `Condvar::wait` (counted in `parked_workers`)
  | woken                        -- notified or spuriously woken; mutex not yet re-acquired (still counted)
  | exited                       -- `park_and_wait` returned `Err(WorkerShouldExit)`; before surrender
  | surrendered                  -- `GCWorker` struct in the pool, thread gone
deriving DecidableEq, Repr, Inhabited

def PC.isParked : PC → Bool
  | .waiting | .woken => true
  | _ => false

def PC.isExec : PC → Bool
  | .exec _ => true
  | _ => false

/-- `WorkBucket` -/
structure Bucket where
  isOpen : Bool
  enabled : Bool
  q : List Pkt := []             -- `queue` and `prioritized_queue` together
  sentinel : Option Pkt := none
deriving Repr, Inhabited

/-- `LastParkedResult` -/
inductive LPR | parkSelf | wakeSelf | wakeAll
deriving DecidableEq, Repr, Inhabited

/-- What the last parked worker did inside `on_last_parked` (ghost; compared with the event log). -/
inductive SubEv
  | goalStarted (g : Goal)
  | schedSentinel (b : Nat) (took : Bool)
  | schedSentinels (r : Bool)
  | bucketOpen (b : Nat)
  | updateBuckets (r : Bool) (updated : Bool)
  | gcFinishedBegin
  | bucketClose (b : Nat)
  | setEnabled (b : Nat) (v : Bool)
  | resume
  | goalCompleted (g : Goal)
  | push (p : Pkt)
deriving DecidableEq, Repr

/-- `WorkerCreationState` (the `Initial` state is before the model starts). -/
inductive Creation | spawned | surrendered (pool : Nat)
deriving DecidableEq, Repr, Inhabited

structure State where
  pc : Nat → PC
  buf : Nat → List Pkt           -- `GCWorker::local_work_buffer`
  desig : Nat → List Pkt         -- `GCWorkerShared::designated_work`
  bkt : Nat → Bucket
  parked : Nat                   -- `WorkerParker::parked_workers`
  current : Option Goal          -- `WorkerGoals::current`
  reqGc : Bool                   -- `WorkerGoals::requests`
  reqShutdown : Bool
  reqFork : Bool
  requestFlag : Bool             -- `GCTrigger::request_flag`
  pendingMake : Nat              -- mutators between the successful flag swap and `make_request`
  stopped : Bool                 -- between `stop_all_mutators` and `resume_mutators`
  creation : Creation
  nextId : Nat                   -- ghost: next fresh packet id
  -- ghost counters
  added : Nat := 0               -- packets created
  started : Nat := 0             -- `PacketStart`
  ended : Nat := 0               -- `PacketEnd`
  endedIds : List Nat := []      -- ghost: ids of ended packets
  stops : Nat := 0               -- `stop_all_mutators` calls
  resumes : Nat := 0             -- `resume_mutators` calls
  gcStarted : Nat := 0           -- Gc goals started
  gcDone : Nat := 0              -- Gc goals completed
  exitsDone : Nat := 0           -- exit goals completed
  trace : List SubEv := []       -- ghost: sub-events of the last `on_last_parked`

def initBucket (i : StageInfo) : Bucket :=
  { isOpen := i.openByDefault, enabled := i.enabledByDefault }

/-- State right after `initial_spawn`: every worker is about to poll. -/
def init (c : Cfg) : State :=
  { pc := fun _ => .polling [], buf := fun _ => [], desig := fun _ => [],
    bkt := fun b => initBucket (c.info b), parked := 0, current := none,
    reqGc := false, reqShutdown := false, reqFork := false, requestFlag := false, pendingMake := 0,
    stopped := false, creation := .spawned, nextId := 0 }

/-! ## small helpers -/

def setPc (s : State) (w : Nat) (p : PC) : State := { s with pc := fun x => if x = w then p else s.pc x }
def setBuf (s : State) (w : Nat) (l : List Pkt) : State := { s with buf := fun x => if x = w then l else s.buf x }
def setDesig (s : State) (w : Nat) (l : List Pkt) : State := { s with desig := fun x => if x = w then l else s.desig x }
def setBkt (s : State) (b : Nat) (k : Bucket) : State := { s with bkt := fun x => if x = b then k else s.bkt x }
def emit (s : State) (e : SubEv) : State := { s with trace := s.trace ++ [e] }

/-- `WorkBucket::is_empty` -/
def Bucket.isEmpty (k : Bucket) : Bool := k.q.isEmpty
/-- `WorkBucket::is_drained` -/
def Bucket.isDrained (k : Bucket) : Bool := !k.enabled || (k.isOpen && k.isEmpty)
/-- a poll of this bucket would return a packet -/
def Bucket.runnable (k : Bucket) : Bool := k.enabled && k.isOpen && !k.isEmpty

def requested (s : State) : Goal → Bool
  | .gc => s.reqGc
  | .shutdown => s.reqShutdown
  | .stopForFork => s.reqFork

def setRequested (s : State) (g : Goal) (v : Bool) : State :=
  match g with
  | .gc => { s with reqGc := v }
  | .shutdown => { s with reqShutdown := v }
  | .stopForFork => { s with reqFork := v }

def anyRequested (s : State) : Bool := s.reqGc || s.reqShutdown || s.reqFork

/-- number of workers `< n` satisfying `f` -/
def countW (n : Nat) (f : Nat → Bool) : Nat := ((List.range n).filter f).length

def noWaiter (c : Cfg) (s : State) : Bool := (List.range c.n).all fun x => s.pc x != .waiting

/-- `Condvar::notify_one`: wakes the waiter `x`; `none` is only possible when nobody waits. -/
def notifyOne (c : Cfg) (s : State) (x : Option Nat) : Option State :=
  match x with
  | some x => if x < c.n ∧ s.pc x = .waiting then some (setPc s x .woken) else none
  | none => if noWaiter c s then some s else none

/-- `Condvar::notify_all` -/
def notifyAll (s : State) : State :=
  { s with pc := fun x => if s.pc x = .waiting then .woken else s.pc x }

/-- the containers worker `w` has to see empty before it may park -/
def allConts (c : Cfg) : List Cont :=
  .desig :: ((List.range c.L).map .bucket ++ (List.range c.n).map .buf)

/-- container `k` looks empty to a poll by worker `w` (`WorkBucket::poll` returns `Steal::Empty`
unless the bucket is enabled, open and non-empty) -/
def looksEmpty (s : State) (w : Nat) : Cont → Bool
  | .bucket b => !(s.bkt b).runnable
  | .buf x => (s.buf x).isEmpty
  | .desig => (s.desig w).isEmpty

/-! ## `on_last_parked` (runs under the monitor mutex while every other worker waits) -/

/-- fresh packet for bucket `b` -/
def newPkt (s : State) (b : Nat) (tag : Nat) : Pkt := ⟨s.nextId, b, tag⟩
def bump (s : State) : State := { s with nextId := s.nextId + 1, added := s.added + 1 }

def pushBkt (s : State) (b : Nat) (p : Pkt) : State :=
  setBkt s b { s.bkt b with q := p :: (s.bkt b).q }

/-- `add_schedule_collection_packet`: Unconstrained, `add_no_notify` -/
def addScheduleCollection (c : Cfg) (s : State) (tag : Nat) : State :=
  emit (emit { pushBkt (bump s) c.unconIdx (newPkt s c.unconIdx tag) with gcStarted := s.gcStarted + 1 }
    (.goalStarted .gc)) (.push (newPkt s c.unconIdx tag))

/-- `respond_to_requests` (with `WorkerGoals::poll_next_goal` inlined: Gc > Shutdown > StopForFork) -/
def respond (c : Cfg) (s : State) (tag : Nat) : Option (State × LPR) :=
  if s.current.isSome then none
  else if s.reqGc then
    some (addScheduleCollection c { s with reqGc := false, current := some .gc } tag, .wakeSelf)
  else if s.reqShutdown then
    some (emit { s with reqShutdown := false, current := some .shutdown } (.goalStarted .shutdown), .wakeAll)
  else if s.reqFork then
    some (emit { s with reqFork := false, current := some .stopForFork } (.goalStarted .stopForFork), .wakeAll)
  else some (s, .parkSelf)

/-- `WorkBucket::maybe_schedule_sentinel` on bucket `b`: the new state -/
def takeSentinel (s : State) (b : Nat) : State :=
  match (s.bkt b).sentinel with
  | some p =>
    emit (setBkt (emit s (.schedSentinel b true)) b { s.bkt b with sentinel := none, q := p :: (s.bkt b).q }) (.push p)
  | none => emit s (.schedSentinel b false)

/-- `WorkBucket::maybe_schedule_sentinel` on bucket `b`: the returned flag -/
def hasSentinel (s : State) (b : Nat) : Bool := (s.bkt b).sentinel.isSome

/-- the loop of `schedule_sentinels` over the stages `bs` -/
def schedSentinelsLoop (s : State) : List Nat → Bool → State × Bool
  | [], acc => (s, acc)
  | b :: bs, acc =>
    if (s.bkt b).isOpen then schedSentinelsLoop (takeSentinel s b) bs (acc || hasSentinel s b)
    else schedSentinelsLoop s bs acc

/-- `schedule_sentinels` -/
def schedSentinels (c : Cfg) (s : State) : State × Bool :=
  (emit (schedSentinelsLoop s (List.range c.L) false).1 (.schedSentinels (schedSentinelsLoop s (List.range c.L) false).2),
   (schedSentinelsLoop s (List.range c.L) false).2)

/-- the stages an open condition quantifies over: `FIRST_STW_STAGE` and every sequentially opened
stage before `b` (`cur_stages` in `GCWorkScheduler::new`) -/
def curStages (c : Cfg) (b : Nat) : List Nat :=
  (List.range c.L).filter fun i => (c.info i).isFirstStw || ((c.info i).isSeq && i < b)

/-- `are_buckets_drained` -/
def areDrained (s : State) (bs : List Nat) : Bool :=
  bs.all fun b => !(s.bkt b).enabled || (s.bkt b).isDrained

/-- `WorkBucket::update`: only sequentially opened stages have an open condition -/
def canOpenNow (c : Cfg) (s : State) (b : Nat) : Bool :=
  (c.info b).isSeq && !(s.bkt b).isOpen && areDrained s (curStages c b)

/-- `WorkBucket::open` -/
def openBkt (s : State) (b : Nat) : State :=
  emit (setBkt s b { s.bkt b with isOpen := true }) (.bucketOpen b)

/-- the loop of `update_buckets` over the stages `bs`; returns (state, buckets_updated, new_packets) -/
def updateLoop (c : Cfg) (s : State) : List Nat → Bool → State × Bool × Bool
  | [], upd => (s, upd, false)
  | b :: bs, upd =>
    if (c.info b).alwaysOpen then updateLoop c s bs upd
    else if !(s.bkt b).enabled then updateLoop c s bs upd
    else if canOpenNow c s b then
      if !((openBkt s b).bkt b).isDrained then (openBkt s b, true, true)
      else if hasSentinel (openBkt s b) b then (takeSentinel (openBkt s b) b, true, true)
      else updateLoop c (takeSentinel (openBkt s b) b) bs true
    else updateLoop c s bs upd

/-- `update_buckets` -/
def updateBuckets (c : Cfg) (s : State) : State × Bool :=
  (emit (updateLoop c s (List.range c.L) false).1
     (.updateBuckets ((updateLoop c s (List.range c.L) false).2.1 && (updateLoop c s (List.range c.L) false).2.2)
        (updateLoop c s (List.range c.L) false).2.1),
   (updateLoop c s (List.range c.L) false).2.1 && (updateLoop c s (List.range c.L) false).2.2)

def hasDesignated (c : Cfg) (s : State) : Bool := (List.range c.n).any fun w => !(s.desig w).isEmpty

/-- `assert_all_open_buckets_are_empty` -/
def allOpenEmpty (c : Cfg) (s : State) : Bool :=
  (List.range c.L).all fun b => !(s.bkt b).runnable

/-- `WorkBucket::close` -/
def closeBkt (s : State) (b : Nat) : State :=
  emit (setBkt s b { s.bkt b with isOpen := false }) (.bucketClose b)

/-- `close_all_stw_buckets` (each `close` debug-asserts that the queue is empty) -/
def closeStwLoop (c : Cfg) (s : State) : List Nat → Option State
  | [] => some s
  | b :: bs =>
    if (c.info b).isStw then
      if (s.bkt b).isEmpty then closeStwLoop c (closeBkt s b) bs else none
    else closeStwLoop c s bs

/-- `schedule_concurrent_packets`: the returned flag -/
def concScheduled (c : Cfg) (s : State) : Bool := !(s.bkt c.concIdx).isEmpty

/-- `schedule_concurrent_packets`: the new state -/
def schedConcurrent (c : Cfg) (s : State) : State :=
  if concScheduled c s then
    emit (emit (setBkt s c.concIdx { s.bkt c.concIdx with enabled := true, isOpen := true }) (.setEnabled c.concIdx true))
      (.bucketOpen c.concIdx)
  else
    emit (emit (setBkt s c.concIdx { s.bkt c.concIdx with enabled := false, isOpen := false }) (.setEnabled c.concIdx false))
      (.bucketClose c.concIdx)

def allStwEmpty (c : Cfg) (s : State) : Bool :=
  (List.range c.L).all fun b => !(c.info b).isStw || (s.bkt b).isEmpty

/-- `resume_mutators` -/
def resume (s : State) : State := emit { s with stopped := false, resumes := s.resumes + 1 } .resume

/-- `on_gc_finished` (the flag `concurrent_work_scheduled` is `concScheduled` of the result of the closes) -/
def onGcFinished (c : Cfg) (s : State) : Option State :=
  if hasDesignated c s then none            -- debug_assert!(!has_designated_work())
  else if !allStwEmpty c s then none        -- debug_assert_all_stw_buckets_empty
  else
    match closeStwLoop c (emit s .gcFinishedBegin) (List.range c.L) with
    | none => none
    | some s1 => some (resume (schedConcurrent c s1))

/-- the current goal is completed: `goals.on_current_goal_completed()` after `on_gc_finished` -/
def completeGc (s : State) : State :=
  emit { s with current := none, gcDone := s.gcDone + 1 } (.goalCompleted .gc)

/-- `on_last_parked` -/
def onLastParked (c : Cfg) (s : State) (tag : Nat) : Option (State × LPR) :=
  match s.current with
  | none => respond c s tag
  | some .gc =>
    if s.reqGc then none                    -- "GC request sent to WorkerMonitor while GC is still in progress."
    else if !allOpenEmpty c s then none     -- assert_all_open_buckets_are_empty
    else if hasDesignated c s then some (s, .wakeAll)
    else if (schedSentinels c s).2 then some ((schedSentinels c s).1, .wakeAll)
    else if (updateBuckets c (schedSentinels c s).1).2 then some ((updateBuckets c (schedSentinels c s).1).1, .wakeAll)
    else
      match onGcFinished c (updateBuckets c (schedSentinels c s).1).1 with
      | none => none
      | some s3 =>
        -- `concurrent_work_scheduled` is what `schedule_concurrent_packets` saw: the Concurrent bucket is
        -- non-empty; it is left open exactly in that case
        if (s3.bkt c.concIdx).isOpen then some (completeGc s3, .wakeAll) else respond c (completeGc s3) tag
  | some _ => none                           -- "Worker parked again when it is asked to exit."

/-! ## actions -/

inductive Act
  -- worker `w` polling
  | observeEmpty (w : Nat) (k : Cont)
  | pollBucket (w b : Nat) (p : Pkt)
  | batchMove (w b : Nat) (p : Pkt)
  | popLocal (w : Nat) (p : Pkt)
  | popDesig (w : Nat) (p : Pkt)
  | steal (w v : Nat) (p : Pkt)
  | pollMiss (w : Nat)
  -- worker `w` executing a packet
  | push (w b tag : Nat)
  | pushLocal (w b tag : Nat)
  | pushDesig (w x tag : Nat)
  | setSentinel (w b tag : Nat)
  | bucketNotifyOne (w b : Nat) (x : Option Nat)
  | bucketNotifyAll (w b : Nat)
  | setEnabled (w b : Nat) (v : Bool)
  | stopAll (w : Nat)
  | clearRequest (w : Nat)
  | openFirst (w b : Nat)
  | wakeAll (w : Nat)
  | execEnd (w : Nat)
  -- worker `w` and the monitor
  | park (w tag : Nat)
  | spurious (w : Nat)
  | wake (w : Nat)
  | surrender (w : Nat)
  -- mutators / the binding
  | requestFlag
  | makeRequest (g : Goal) (x : Option Nat)
  | mutPush (b tag : Nat)
  | mutNotifyOne (b : Nat) (x : Option Nat)
  | initSetEnabled (b : Nat) (v : Bool)
  | prepareSurrender
  | respawn
deriving Repr

/-- after `dec_parked_workers`: leave the loop if the current goal is an exit goal -/
def afterUnpark (s : State) (w : Nat) : State :=
  match s.current with
  | some .shutdown | some .stopForFork => setPc s w .exited
  | _ => setPc s w (.polling [])

/-- a Gc request reaches `make_request` only after a successful `request_flag` swap -/
def consumePending (s : State) (g : Goal) : State :=
  if g = .gc then { s with pendingMake := s.pendingMake - 1 } else s

def removeP (l : List Pkt) (p : Pkt) : List Pkt := l.erase p

def step (c : Cfg) (s : State) : Act → Option State
  | .observeEmpty w k =>
    match s.pc w with
    | .polling seen => if w < c.n ∧ looksEmpty s w k then some (setPc s w (.polling (k :: seen))) else none
    | _ => none
  | .pollBucket w b p =>
    match s.pc w with
    | .polling _ =>
      if w < c.n ∧ b < c.L ∧ (s.bkt b).enabled ∧ (s.bkt b).isOpen ∧ p ∈ (s.bkt b).q then
        some { setPc (setBkt s b { s.bkt b with q := removeP (s.bkt b).q p }) w (.exec p) with started := s.started + 1 }
      else none
    | _ => none
  | .batchMove w b p =>
    -- `steal_batch_and_pop` moves a batch into the poller's deque and pops one packet, atomically; the
    -- model splits it into `batchMove`s around the `pollBucket`: after it (worker already `exec`), or
    -- before it (worker still polling — it then forgets what it has seen empty, because it is about
    -- to return `Steal::Success`)
    match s.pc w with
    | .exec _ =>
      if w < c.n ∧ b < c.L ∧ (s.bkt b).enabled ∧ (s.bkt b).isOpen ∧ p ∈ (s.bkt b).q then
        some (setBuf (setBkt s b { s.bkt b with q := removeP (s.bkt b).q p }) w (p :: s.buf w))
      else none
    | .polling _ =>
      if w < c.n ∧ b < c.L ∧ (s.bkt b).enabled ∧ (s.bkt b).isOpen ∧ p ∈ (s.bkt b).q then
        some (setPc (setBuf (setBkt s b { s.bkt b with q := removeP (s.bkt b).q p }) w (p :: s.buf w)) w (.polling []))
      else none
    | _ => none
  | .popLocal w p =>
    match s.pc w with
    | .polling _ =>
      if w < c.n ∧ p ∈ s.buf w then
        some { setPc (setBuf s w (removeP (s.buf w) p)) w (.exec p) with started := s.started + 1 }
      else none
    | _ => none
  | .popDesig w p =>
    match s.pc w with
    | .polling _ =>
      if w < c.n ∧ p ∈ s.desig w then
        some { setPc (setDesig s w (removeP (s.desig w) p)) w (.exec p) with started := s.started + 1 }
      else none
    | _ => none
  | .steal w v p =>
    match s.pc w with
    | .polling _ =>
      if w < c.n ∧ v < c.n ∧ v ≠ w ∧ p ∈ s.buf v then
        some { setPc (setBuf s v (removeP (s.buf v) p)) w (.exec p) with started := s.started + 1 }
      else none
    | _ => none
  | .pollMiss w =>
    match s.pc w with
    | .polling seen => if w < c.n ∧ (allConts c).all (fun k => k ∈ seen) then some (setPc s w .parking) else none
    | _ => none
  | .push w b tag =>
    if w < c.n ∧ (s.pc w).isExec ∧ b < c.L then
      some (pushBkt (bump s) b (newPkt s b tag))
    else none
  | .pushLocal w b tag =>
    -- GCWorker::add_work: only when the target bucket is open (the 16-packet cap is not modelled)
    if w < c.n ∧ (s.pc w).isExec ∧ b < c.L ∧ (s.bkt b).isOpen then
      some (setBuf (bump s) w (newPkt s b tag :: s.buf w))
    else none
  | .pushDesig w x tag =>
    if w < c.n ∧ (s.pc w).isExec ∧ x < c.n ∧ s.current = some .gc then
      some (setDesig (bump s) x (newPkt s 0xff tag :: s.desig x))
    else none
  | .setSentinel w b tag =>
    if w < c.n ∧ (s.pc w).isExec ∧ b < c.L ∧ (s.bkt b).sentinel = none then
      some (setBkt (bump s) b { s.bkt b with sentinel := some (newPkt s b tag) })
    else none
  | .bucketNotifyOne w b x =>
    -- WorkBucket::notify_one_worker reaches the condvar only if the bucket is open and enabled
    if w < c.n ∧ (s.pc w).isExec ∧ b < c.L ∧ (s.bkt b).isOpen ∧ (s.bkt b).enabled then notifyOne c s x else none
  | .bucketNotifyAll w b =>
    if w < c.n ∧ (s.pc w).isExec ∧ b < c.L ∧ (s.bkt b).isOpen ∧ (s.bkt b).enabled then some (notifyAll s) else none
  | .setEnabled w b v =>
    -- modelling assumption: no packet disables or enables the first stop-the-world bucket
    if w < c.n ∧ (s.pc w).isExec ∧ b < c.L ∧ ¬ (c.info b).isFirstStw then some (setBkt s b { s.bkt b with enabled := v }) else none
  | .stopAll w =>
    if w < c.n ∧ (s.pc w).isExec ∧ s.current = some .gc ∧ ¬ s.stopped then
      some { s with stopped := true, stops := s.stops + 1 }
    else none
  | .clearRequest w =>
    if w < c.n ∧ (s.pc w).isExec then some { s with requestFlag := false } else none
  | .openFirst w b =>
    -- notify_mutators_paused: debug_assert!(!first_stw_bucket.is_open()); called after stop_all_mutators
    if w < c.n ∧ (s.pc w).isExec ∧ b < c.L ∧ (c.info b).isFirstStw ∧ s.stopped ∧ ¬ (s.bkt b).isOpen then
      some (setBkt s b { s.bkt b with isOpen := true })
    else none
  | .wakeAll w =>
    if w < c.n ∧ (s.pc w).isExec then some (notifyAll s) else none
  | .execEnd w =>
    match s.pc w with
    | .exec p => if w < c.n then some { setPc s w (.polling []) with ended := s.ended + 1, endedIds := p.id :: s.endedIds } else none
    | _ => none
  | .park w tag =>
    if w < c.n ∧ s.pc w = .parking ∧ s.parked < c.n then
      let s0 := { s with parked := s.parked + 1, trace := [] }
      if s0.parked = c.n then
        match onLastParked c s0 tag with
        | none => none
        | some (s1, .parkSelf) => some (setPc s1 w .waiting)
        | some (s1, .wakeSelf) => some (afterUnpark { s1 with parked := s1.parked - 1 } w)
        | some (s1, .wakeAll) =>
          let s2 := notifyAll s1
          some (afterUnpark { s2 with parked := s2.parked - 1 } w)
      else some (setPc s0 w .waiting)
    else none
  | .spurious w =>
    if w < c.n ∧ s.pc w = .waiting then some (setPc s w .woken) else none
  | .wake w =>
    if w < c.n ∧ s.pc w = .woken ∧ 0 < s.parked then some (afterUnpark { s with parked := s.parked - 1 } w) else none
  | .surrender w =>
    match s.creation with
    | .surrendered k =>
      if w < c.n ∧ s.pc w = .exited then
        let s1 := { setPc s w .surrendered with creation := .surrendered (k + 1) }
        -- the last one: on_all_workers_exited → on_current_goal_completed
        if k + 1 = c.n then some { s1 with current := none, exitsDone := s1.exitsDone + 1 } else some s1
      else none
    | .spawned => none
  | .requestFlag =>
    -- GCTrigger::request: `if request_flag.load() return; if !request_flag.swap(true) make_request`
    if s.requestFlag then some s else some { s with requestFlag := true, pendingMake := s.pendingMake + 1 }
  | .makeRequest g x =>
    if g = .gc ∧ s.pendingMake = 0 then none
    else if requested (consumePending s g) g then (if x = none then some (consumePending s g) else none)
    else notifyOne c (setRequested (consumePending s g) g true) x
  | .mutPush b tag =>
    if b < c.L ∧ (c.mutAddOpen ∨ ¬ ((s.bkt b).enabled ∧ (s.bkt b).isOpen)) then
      some (pushBkt (bump s) b (newPkt s b tag))
    else none
  | .mutNotifyOne b x =>
    if b < c.L ∧ (s.bkt b).isOpen ∧ (s.bkt b).enabled then notifyOne c s x else none
  | .initSetEnabled b v =>
    -- plan construction (`ConcurrentImmix::new`) switches unused buckets off; a thread that is not a GC
    -- worker never makes packets runnable this way
    if b < c.L ∧ ¬ (c.info b).isFirstStw ∧ (v = false ∨ ¬ (s.bkt b).isOpen) then
      some (setBkt s b { s.bkt b with enabled := v })
    else none
  | .prepareSurrender =>
    -- WorkerGroup::prepare_surrender_buffer: assert!(Spawned)
    if s.creation = .spawned then some { s with creation := .surrendered 0 } else none
  | .respawn =>
    match s.creation with
    | .surrendered k =>
      if k = c.n then
        some { s with creation := .spawned, pc := fun x => if x < c.n then .polling [] else s.pc x }
      else none
    | .spawned => none

/-- run a schedule; `none` if some action is not enabled -/
def exec (c : Cfg) (s : State) : List Act → Option State
  | [] => some s
  | a :: as => match step c s a with
    | some s' => exec c s' as
    | none => none

def Reachable (c : Cfg) (s : State) : Prop := ∃ run, exec c (init c) run = some s

end Mmtk.Sched
