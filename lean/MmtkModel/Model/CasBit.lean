/-!
# Model of the CAS-based "exactly once" state changes (C18)

Transcribed from `MarkState::test_and_mark` (util/metadata/mark_bit.rs), `ImmixSpace::attempt_mark`,
`LargeObjectSpace::test_and_mark`, `ObjectBarrier::log_object` (plan/barriers.rs) — the *looping*
variants — and `VMLocalPinningBitSpec::pin_object` / `unpin_object` — the *single-shot* variant —
together with the byte-level compare-exchange they bottom out in
(`SideMetadataSpec::compare_exchange_atomic`, `HeaderMetadataSpec::compare_exchange`: load the byte,
splice expected / new field into it, CAS the whole byte).

The metadata byte is split into `field` (the bits of this object's metadata) and `other` (the
remaining bits of the same byte: other objects' metadata).  A field-level compare-exchange is two
atomic steps: load the byte, then CAS the whole byte — it succeeds iff the field holds the expected
value **and** the other bits are still what was loaded.  `isDone`/`next` abstract the transition
(mark: `isDone v = (v == state)`, `next _ = state`; LOS: masked compare, clears the nursery bit;
log: `isDone v = (v == 0)`, `next _ = 0`).  Threads are indexed by naturals (unbounded);
an *environment* step changes the other bits arbitrarily (another object's metadata in the same byte).
-/
namespace Mmtk.CasBit

inductive PC
  | l1                               -- loop head: about to load the field
  | l2 (old : Nat)                   -- inside compare_exchange: about to load the byte
  | l3 (old : Nat) (other : Nat)     -- about to CAS the byte
  | ret (b : Bool)                   -- returned `b`
deriving DecidableEq, Repr

structure Shared where
  field : Nat
  other : Nat
  winner : Option Nat := none        -- ghost: the thread whose CAS changed the field
  envMoved : Bool := false           -- ghost: the environment has changed the neighbouring bits
deriving Repr

/-- The protocol parameters. `single = true`: one compare_exchange(old0 → next old0), no loop (pin). -/
structure Proto where
  isDone : Nat → Bool
  next : Nat → Nat
  single : Bool
  old0 : Nat

def Proto.entry (P : Proto) : PC := if P.single then .l2 P.old0 else .l1

def localStep (P : Proto) (t : Nat) (sh : Shared) (p : PC) : Shared × PC :=
  match p with
  | .l1 => if P.isDone sh.field then (sh, .ret false) else (sh, .l2 sh.field)
  | .l2 old => (sh, .l3 old sh.other)
  | .l3 old o =>
    if sh.field = old ∧ sh.other = o then ({ sh with field := P.next old, winner := some t }, .ret true)
    else (sh, if P.single then .ret false else .l1)
  | .ret b => (sh, .ret b)

structure State where
  sh : Shared
  pc : Nat → PC

/-- A schedule entry: thread `t` steps, or the environment overwrites the other bits with `v`. -/
inductive Act
  | thread (t : Nat)
  | env (v : Nat)
deriving Repr

def step (P : Proto) (s : State) : Act → State
  | .thread t =>
    let r := localStep P t s.sh (s.pc t)
    { sh := r.1, pc := fun x => if x = t then r.2 else s.pc x }
  | .env v => { s with sh := { s.sh with other := v, envMoved := true } }

def init (P : Proto) (field0 other0 : Nat) : State :=
  { sh := { field := field0, other := other0 }, pc := fun _ => P.entry }

def exec (P : Proto) (s : State) : List Act → State
  | [] => s
  | a :: rest => exec P (step P s a) rest

/-- mark bit / mark byte: `test_and_mark` with mark state `st`. -/
def markProto (st : Nat) : Proto := { isDone := (· == st), next := fun _ => st, single := false, old0 := 0 }
/-- LOS `test_and_mark(value)` in a full-heap GC (`mask = MARK_BIT = 0b01`), 2-bit field. -/
def losProto (value : Nat) : Proto :=
  { isDone := fun v => v % 2 == value, next := fun v => v / 4 * 4 + value, single := false, old0 := 0 }
/-- `log_object`: unlog bit 1 → 0. -/
def logProto : Proto := { isDone := (· == 0), next := fun _ => 0, single := false, old0 := 1 }
/-- `pin_object`: one compare_exchange 0 → 1. -/
def pinProto : Proto := { isDone := (· == 1), next := fun _ => 1, single := true, old0 := 0 }

end Mmtk.CasBit
