/-!
# Model of the generational remembered set (C05)

Transcribed from `src/plan/barriers.rs` (`ObjectBarrier::object_reference_write_post`: if the
source object is *unlogged*, `log_object` (1→0) and push it to the mod-buffer;
`memory_region_copy_post` → `GenObjectBarrierSemantics::memory_region_copy_slow`: remember the
destination slice unless it lies in the nursery), `src/plan/generational/gc_work.rs`
(`ProcessModBuf`: re-set the unlog bit and, in a nursery GC, scan the remembered objects;
`ProcessRegionModBuf`: scan the remembered slices), `CommonSpace::unlog_*` /
`unlog_traced_object` (mature objects are unlogged; nursery objects are not).

Mutator operations are atomic here (the token-scheduled harness runs one mutator at a time; the race
on the log bit itself is C18).  A nursery collection is specified declaratively: it keeps every old
object and exactly the young objects reachable from (roots ∪ fields of remembered objects ∪
remembered slices) through young objects, and promotes them.
-/
namespace Mmtk.Gen

structure Heap where
  alloc : Nat → Bool                     -- the object exists
  young : Nat → Bool                     -- it lives in the nursery
  fld : Nat → Nat → Option Nat           -- reference fields
  unlogged : Nat → Bool                  -- the unlog bit (1 = a write must be remembered)
  roots : List Nat
  modbuf : List Nat                      -- remembered objects (all mutators' buffers + flushed packets)
  rmod : List (Nat × Nat × Nat)          -- remembered slices (object, first field, one-past-last field)

inductive Op
  | allocYoung (id : Nat)                         -- nursery allocation (fields null, not unlogged)
  | allocOld (id : Nat)                           -- LOS / immortal / non-moving allocation (unlogged)
  | write (src f : Nat) (v : Option Nat)          -- `object_reference_write` (store + post barrier)
  | copyRange (dst lo hi : Nat) (vals : Nat → Option Nat)   -- `memory_region_copy` into dst[lo, hi)
  | setRoots (rs : List Nat)
deriving Inhabited

def apply (h : Heap) : Op → Heap
  | .allocYoung id =>
    if h.alloc id then h else
    { h with alloc := fun x => if x = id then true else h.alloc x,
             young := fun x => if x = id then true else h.young x,
             fld := fun x j => if x = id then none else h.fld x j,
             unlogged := fun x => if x = id then false else h.unlogged x }
  | .allocOld id =>
    if h.alloc id then h else
    { h with alloc := fun x => if x = id then true else h.alloc x,
             young := fun x => if x = id then false else h.young x,
             fld := fun x j => if x = id then none else h.fld x j,
             unlogged := fun x => if x = id then true else h.unlogged x }
  | .write src f v =>
    let h1 := { h with fld := fun x j => if x = src ∧ j = f then v else h.fld x j }
    if h.unlogged src then
      { h1 with unlogged := fun x => if x = src then false else h.unlogged x, modbuf := src :: h.modbuf }
    else h1
  | .copyRange dst lo hi vals =>
    let h1 := { h with fld := fun x j => if x = dst ∧ lo ≤ j ∧ j < hi then vals j else h.fld x j }
    if h.young dst then h1 else { h1 with rmod := (dst, lo, hi) :: h.rmod }
  | .setRoots rs => { h with roots := rs }

/-- Slot `(x, j)` is remembered. -/
def Remembered (h : Heap) (x j : Nat) : Prop :=
  x ∈ h.modbuf ∨ ∃ lo hi, (x, lo, hi) ∈ h.rmod ∧ lo ≤ j ∧ j < hi

/-- reachability from the roots in the whole heap -/
inductive Reach (h : Heap) : Nat → Prop
  | root (r : Nat) : r ∈ h.roots → Reach h r
  | field (x j y : Nat) : Reach h x → h.fld x j = some y → Reach h y

/-- what a nursery collection traces: from roots and remembered slots, through young objects only -/
inductive NReach (h : Heap) : Nat → Prop
  | root (r : Nat) : r ∈ h.roots → NReach h r
  | remembered (x j y : Nat) : Remembered h x j → h.fld x j = some y → NReach h y
  | field (x j y : Nat) : NReach h x → h.young x = true → h.fld x j = some y → NReach h y

/-- Specification of a nursery collection `h ⟶ h'` (object identities are kept; whether the survivor
moved is C01/C04's business). -/
structure NurseryGC (h h' : Heap) : Prop where
  keep_old : ∀ x, h.alloc x = true → h.young x = false → h'.alloc x = true
  keep_young : ∀ y, h.alloc y = true → h.young y = true → NReach h y → h'.alloc y = true
  only_survivors : ∀ y, h'.alloc y = true → h.alloc y = true ∧ (h.young y = false ∨ NReach h y)
  promoted : ∀ y, h'.alloc y = true → h'.young y = false ∧ h'.unlogged y = true
  fields : ∀ y j, h'.alloc y = true → h'.fld y j = h.fld y j
  roots : h'.roots = h.roots
  cleared : h'.modbuf = [] ∧ h'.rmod = []

end Mmtk.Gen
