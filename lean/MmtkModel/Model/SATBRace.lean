/-!
# Racing SATB barriers on one object (C12, strengthened)

Any number of mutators store into the reference fields of ONE object `src` while concurrent marking
is active.  Transcribed from

* `src/plan/barriers.rs`, `SATBBarrier::object_reference_write_pre`: `if object_is_unlogged(src)`
  (an atomic *load* of the unlog bit, `!= 0`) `{ semantics.object_reference_write_slow(src, …) }`;
* `src/plan/concurrent/barrier.rs`, `SATBBarrierSemantics::object_reference_write_slow`:
  `self.object_probable_write_slow(src); self.log_object(src);` — in THIS order —, where
  `object_probable_write_slow` = `SlotIterator::iterate_fields(src, |s| enqueue_node(s))` reads the
  fields one by one (`slot.load()`, each a separate memory access; a null field is not recorded) and
  pushes every non-null value to the mutator-LOCAL buffer `self.satb`, and `log_object` is an
  unconditional atomic *store* of 0 to the unlog bit (no compare-exchange: several mutators may run
  the slow path for the same object, the duplicates are harmless);
* the mutator's store itself follows the pre-barrier (`Barrier::object_reference_write`:
  `pre; slot.store(target)`).

So one `src.f := v` of a mutator is the sequence of atomic steps
`check` (load the unlog bit) → [`scan 0 … scan (n-1)` (one field read + push each) → `log`] → `store`,
and the steps of different mutators interleave freely.  `Order.logThenScan` is the same barrier with
the two halves of the slow path swapped (`log_object` first, then the field reads): the regression
the real-thread race of `checks/C12.py` is built to detect.

Values are naturals, `0` = null.  `recd` (every value pushed to any buffer, in global order) and
`started` (the stores begun so far) are ghosts.
-/
namespace Mmtk.SATBRace

/-- Order of the two halves of `object_reference_write_slow`. -/
inductive Order
  | scanThenLog   -- the code: `object_probable_write_slow(src); log_object(src)`
  | logThenScan   -- the two statements swapped
deriving DecidableEq, Repr

inductive PC
  | idle
  | check (f v : Nat)      -- `object_reference_write_pre`: about to load the unlog bit
  | scan (f v j : Nat)     -- `object_probable_write_slow`: about to read field `j`
  | log (f v : Nat)        -- `log_object`: about to store 0 to the unlog bit
  | store (f v : Nat)      -- about to store `v` into field `f`
  | pscan (j : Nat)        -- `object_probable_write` (scan only): about to read field `j`
deriving DecidableEq, Repr

inductive Act
  | write (f v : Nat)      -- an idle mutator begins `src.f := v`
  | probable               -- an idle mutator begins `object_probable_write(src)`
  | step                   -- the thread's next atomic step
deriving Repr

structure Shared where
  fld : List Nat                 -- current field values of `src`
  unlog : Bool                   -- the unlog bit (true = unlogged = not yet recorded)
  buf : Nat → List Nat           -- the SATB buffer of every mutator (oldest first)
  recd : List Nat                 -- ghost: every value pushed to any buffer
  started : List (Nat × Nat)     -- ghost: the stores `(f, v)` begun so far

/-- `enqueue_node`: `if let Some(old) = slot.load() { self.satb.push(old) }`. -/
def push (sh : Shared) (t v : Nat) : Shared :=
  if v = 0 then sh
  else { sh with buf := fun x => if x = t then sh.buf x ++ [v] else sh.buf x, recd := sh.recd ++ [v] }

/-- entry of the slow path -/
def afterCheck : Order → Nat → Nat → PC
  | .scanThenLog, f, v => .scan f v 0
  | .logThenScan, f, v => .log f v

def afterScan : Order → Nat → Nat → PC
  | .scanThenLog, f, v => .log f v
  | .logThenScan, f, v => .store f v

def afterLog : Order → Nat → Nat → PC
  | .scanThenLog, f, v => .store f v
  | .logThenScan, f, v => .scan f v 0

def localStep (ord : Order) (t : Nat) (a : Act) (sh : Shared) (p : PC) : Shared × PC :=
  match p, a with
  | .idle, .write f v => ({ sh with started := sh.started ++ [(f, v)] }, .check f v)
  | .idle, .probable => (sh, .pscan 0)
  | .check f v, .step => if sh.unlog then (sh, afterCheck ord f v) else (sh, .store f v)
  | .scan f v j, .step =>
    if j < sh.fld.length then (push sh t (sh.fld.getD j 0), .scan f v (j + 1)) else (sh, afterScan ord f v)
  | .log f v, .step => ({ sh with unlog := false }, afterLog ord f v)
  | .store f v, .step => ({ sh with fld := sh.fld.set f v }, .idle)
  | .pscan j, .step =>
    if j < sh.fld.length then (push sh t (sh.fld.getD j 0), .pscan (j + 1)) else (sh, .idle)
  | p, _ => (sh, p)

structure State where
  sh : Shared
  pc : Nat → PC

def step (ord : Order) (s : State) (t : Nat) (a : Act) : State :=
  let r := localStep ord t a s.sh (s.pc t)
  { sh := r.1, pc := fun x => if x = t then r.2 else s.pc x }

/-- The object as InitialMark leaves it: fields = the snapshot, unlog bit set, buffers empty. -/
def init (snap : List Nat) : State :=
  { sh := { fld := snap, unlog := true, buf := fun _ => [], recd := [], started := [] },
    pc := fun _ => .idle }

def exec (ord : Order) (s : State) : List (Nat × Act) → State
  | [] => s
  | (t, a) :: rest => exec ord (step ord s t a) rest

/-- Thread `t` runs alone until it is idle again (`fuel` steps at most). -/
def runToIdle (ord : Order) (s : State) (t : Nat) : Nat → State
  | 0 => s
  | fuel + 1 => match s.pc t with
    | .idle => s
    | _ => runToIdle ord (step ord s t .step) t fuel

/-! ## The verdict on an observed race outcome

`snap` = the fields when the round began (unlog bit set), `writes` = all stores `(f, v)` made by the
threads of the round (all completed), `unlog` / `fld` = the unlog bit and the fields afterwards,
`recd` = the concatenation of all SATB buffers. -/

def memNat (v : Nat) (l : List Nat) : Bool := l.any (· == v)

def judgeLen (snap fld : List Nat) : Bool := fld.length == snap.length

/-- at least one store was made ⇒ the object is logged -/
def judgeLogged (writes : List (Nat × Nat)) (unlog : Bool) : Bool := writes.isEmpty || !unlog

/-- **the SATB rule**: the object is logged ⇒ every non-null snapshot referent is in some buffer -/
def judgeSnapshot (snap : List Nat) (unlog : Bool) (recd : List Nat) : Bool :=
  unlog || snap.all (fun x => x == 0 || memNat x recd)

/-- nothing is recorded that never was a field value; null is never recorded -/
def judgeOrigin (snap : List Nat) (writes : List (Nat × Nat)) (recd : List Nat) : Bool :=
  recd.all (fun v => v != 0 && (memNat v snap || writes.any (fun p => p.2 == v)))

/-- every field holds its snapshot value or a value some thread stored into it -/
def judgeFields (snap : List Nat) (writes : List (Nat × Nat)) (fld : List Nat) : Bool :=
  (List.range snap.length).all (fun j => fld.getD j 0 == snap.getD j 0 || writes.any (fun p => p.1 == j && p.2 == fld.getD j 0))

def judge (snap : List Nat) (writes : List (Nat × Nat)) (unlog : Bool) (fld recd : List Nat) : Bool :=
  judgeLen snap fld && judgeLogged writes unlog && judgeSnapshot snap unlog recd && judgeOrigin snap writes recd &&
    judgeFields snap writes fld

/-- which clause rejects (for the driver's diagnostics) -/
def verdict (snap : List Nat) (writes : List (Nat × Nat)) (unlog : Bool) (fld recd : List Nat) : String :=
  if !judgeLen snap fld then "bad:len"
  else if !judgeLogged writes unlog then "bad:not-logged"
  else if !judgeSnapshot snap unlog recd then "bad:snapshot-lost"
  else if !judgeOrigin snap writes recd then "bad:spurious-record"
  else if !judgeFields snap writes fld then "bad:field"
  else "ok"

end Mmtk.SATBRace
