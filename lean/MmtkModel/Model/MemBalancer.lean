/-!
# Model of the heap-size trigger policies (C38)

Transcribed from `src/util/heap/gc_trigger.rs`: `MemBalancerTrigger::{new, on_pending_allocation,
on_gc_start, on_gc_release, on_gc_end, compute_new_heap_limit, get_current_heap_size_in_pages,
get_max_heap_size_in_pages, can_heap_size_grow}` and `FixedHeapSizeTrigger`.

The `f64` pipeline of `compute_new_heap_limit` (smoothing, `live * (alloc_mem/alloc_time) / 0.2 /
(gc_mem/gc_time)`, `sqrt`, the fallback `sqrt(live * 4096)`) ends in the saturating cast
`e as usize`; the model takes the *result of that cast* as an arbitrary natural `e < 2^64`
(NaN → 0, +∞ → `usize::MAX`): everything proved here holds for every value the pipeline could
produce. The statistics bookkeeping of the `on_gc_*` handlers only feeds that pipeline and the
arguments `live`, `extra_reserve`, which are arbitrary here as well.
`usize` = `Nat < 2^64`. `none` = panic (checked `+` in the debug profile; `Ord::clamp`'s
`assert!(min <= max)` in both profiles). Core Lean only.
-/
namespace Mmtk.MemBalancer

/-- checked `a + b` on `usize`: `none` = overflow panic (debug), wrapped in release. -/
def cadd (debug : Bool) (a b : Nat) : Option Nat :=
  if a + b < 2^64 then some (a + b) else if debug then none else some ((a + b) % 2^64)

/-- `Ord::clamp(self, min, max)`: `assert!(min <= max); if self < min { min } else if self > max
{ max } else { self }`. -/
def clamp (v lo hi : Nat) : Option Nat :=
  if lo ≤ hi then some (if v < lo then lo else if v > hi then hi else v) else none

/-- The integer fields of `MemBalancerTrigger`. -/
structure Trig where
  minPages : Nat
  maxPages : Nat
  current : Nat
  pending : Nat
deriving Repr, DecidableEq

/-- `MemBalancerTrigger::new(min, max)`: starts at the minimum with nothing pending. -/
def new (minPages maxPages : Nat) : Trig :=
  { minPages, maxPages, current := minPages, pending := 0 }

/-- `let optimal_heap = live + e as usize + extra_reserve + pending_pages;` (left to right). -/
def optimalHeap (debug : Bool) (live e extra pending : Nat) : Option Nat :=
  match cadd debug live e with
  | none => none
  | some s1 =>
    match cadd debug s1 extra with
    | none => none
    | some s2 => cadd debug s2 pending

/-- The integer part of `compute_new_heap_limit(live, extra_reserve, stats)`, with `e` the value of
`e as usize`. -/
def computeNewHeapLimit (debug : Bool) (t : Trig) (live e extra : Nat) : Option Trig :=
  match optimalHeap debug live e extra t.pending with
  | none => none
  | some optimal =>
    match clamp optimal t.minPages t.maxPages with
    | none => none
    | some newHeap => some { t with current := newHeap }

/-- Events of `GCTriggerPolicy` as far as the integer state is concerned. -/
inductive Ev where
  /-- `on_pending_allocation(pages)`: `pending_pages.fetch_add(pages)` (atomics wrap). -/
  | pending (pages : Nat)
  /-- `on_gc_start`: statistics only. -/
  | gcStart
  /-- `on_gc_release`: statistics only. -/
  | gcRelease
  /-- `on_gc_end`: `compute = some (live, e, extra)` when a new limit is computed (always for
  non-generational plans; only after a full-heap GC for generational ones), then
  `pending_pages.store(0)`. -/
  | gcEnd (compute : Option (Nat × Nat × Nat))
deriving Repr

def step (debug : Bool) (t : Trig) : Ev → Option Trig
  | .pending pages => some { t with pending := (t.pending + pages) % 2^64 }
  | .gcStart => some t
  | .gcRelease => some t
  | .gcEnd none => some { t with pending := 0 }
  | .gcEnd (some (live, e, extra)) =>
    match computeNewHeapLimit debug t live e extra with
    | none => none
    | some t' => some { t' with pending := 0 }

/-- A history; `none` as soon as one event panics. -/
def run (debug : Bool) (t : Trig) : List Ev → Option Trig
  | [] => some t
  | ev :: evs =>
    match step debug t ev with
    | none => none
    | some t' => run debug t' evs

/-- `get_current_heap_size_in_pages`, `get_max_heap_size_in_pages`, `can_heap_size_grow`. -/
def currentHeapSize (t : Trig) : Nat := t.current
def maxHeapSize (t : Trig) : Nat := t.maxPages
def canGrow (t : Trig) : Bool := t.current < t.maxPages

/-! ## `FixedHeapSizeTrigger` -/

/-- `FixedHeapSizeTrigger { total_pages }`: every event handler is the trait's default no-op. -/
structure Fixed where
  totalPages : Nat
deriving Repr, DecidableEq

def Fixed.step (t : Fixed) : Ev → Fixed
  | _ => t

def Fixed.run (t : Fixed) (evs : List Ev) : Fixed := evs.foldl Fixed.step t

def Fixed.currentHeapSize (t : Fixed) : Nat := t.totalPages
def Fixed.maxHeapSize (t : Fixed) : Nat := t.totalPages
def Fixed.canGrow (_t : Fixed) : Bool := false

end Mmtk.MemBalancer
