import MmtkModel.Model.Trace
/-!
# Allocators as transition systems over granted regions (C02)

## The memory state

`mem : List Entry` — every piece of memory the collector knows about, tagged
`free` (owned by a space: page-resource pages, recyclable Immix holes, swept cells, LOS page runs),
`buf t` (thread-local: granted to the allocator of mutator / GC worker `t`, not yet used) or
`obj id` (the extent of an allocated object).  `S : Snap` is the shadow heap (object graph + roots).

Three kinds of transition (`Op`):

* `carve t i pieces` — thread `t` replaces entry `i` (which must be `free`, or its own `buf t`) by
  `pieces`, all inside it.  This one shape covers: a *grant* (`Space::acquire` / `get_clean_block` /
  `get_reusable_block` / `acquire_global_block`: `free ↦ buf t + free rest`), a thread-local
  *allocation* (`buf t ↦ obj id + buf t rest`; alignment padding is simply not among the pieces), a
  direct allocation (`large_object_allocator.rs`: `free ↦ obj id + free rest`), and retiring a buffer.
* `mutate S'` — anything the mutators do to the graph (field writes through the barrier, root
  changes, publishing a new object).
* `gc S' keep newFree` — a collection: new shadow heap, the surviving objects, and the free memory the
  policies' `release` hands back (thread-local buffers are forgotten: `BumpAllocator::reset`,
  `ImmixAllocator::reset`, `FreeListAllocator::reset/abandon` at prepare/release).

Guards (who may do what) are `Prop`s and live in `Props/C02Algo.lean`.

## The four allocators (executable, transcribed)

* `bumpAlloc` — `bumpallocator.rs::alloc` fast path (`result = align_allocation_no_fill(cursor)`,
  `new_cursor = result + size`, `new_cursor > limit` → slow path) and `acquire_block`
  (`set_limit(acquired_start, acquired_start + block_size)`); also `immix_allocator.rs::alloc` /
  `overflow_alloc` (same bump on `bump_pointer` / `large_bump_pointer`).
* `nextHole` — `ImmixSpace::get_next_available_lines` as used by
  `immix_allocator.rs::acquire_recyclable_lines`: first maximal run of free lines at or after the
  hole-search cursor, parameterised by the predicate "line is free"; then
  `cursor := start_line.start(); limit := end_line.start()`.
* `cellAlloc` — `free_list_allocator.rs::block_alloc`: pop the first cell of the block's free list.
* `losAlloc` — `large_object_allocator.rs::alloc` → `LargeObjectSpace::allocate_pages`: a page run.

The alignment padding `pad = result - cursor` is a parameter here; that it is what
`align_allocation_no_fill` computes (and that `result` is aligned) is C33.
-/
namespace Mmtk.AllocModel
open Mmtk.Trace (Snap Obj)

structure Region where
  start : Nat
  size : Nat
deriving DecidableEq, Repr

def Region.stop (r : Region) : Nat := r.start + r.size

/-- `[a.start, a.stop)` and `[b.start, b.stop)` share no byte -/
def Region.disjoint (a b : Region) : Prop := a.stop ≤ b.start ∨ b.stop ≤ a.start

instance (a b : Region) : Decidable (a.disjoint b) := by unfold Region.disjoint; exact inferInstance

/-- `a ⊆ b` -/
def Region.sub (a b : Region) : Prop := b.start ≤ a.start ∧ a.stop ≤ b.stop

instance (a b : Region) : Decidable (a.sub b) := by unfold Region.sub; exact inferInstance

inductive Tag where
  | free
  | buf (t : Nat)
  | obj (id : Nat)
deriving DecidableEq, Repr

structure Entry where
  tag : Tag
  reg : Region
deriving DecidableEq, Repr

structure MState where
  mem : List Entry
  S : Snap

inductive Op where
  | carve (t : Nat) (i : Nat) (pieces : List Entry)
  | mutate (S' : Snap)
  | gc (S' : Snap) (keep : Nat → Bool) (newFree : List Region)

def Op.isGc : Op → Bool
  | .gc _ _ _ => true
  | _ => false

def replaceAt {α : Type} (l : List α) (i : Nat) (ps : List α) : List α :=
  l.take i ++ (ps ++ l.drop (i + 1))

def keeps (keep : Nat → Bool) (e : Entry) : Bool :=
  match e.tag with
  | .obj id => keep id
  | _ => false

/-- the object extents that survive a collection -/
def survivors (mem : List Entry) (keep : Nat → Bool) : List Entry := mem.filter (keeps keep)

def apply (st : MState) : Op → MState
  | .carve _ i pieces => { st with mem := replaceAt st.mem i pieces }
  | .mutate S' => { st with S := S' }
  | .gc S' keep newFree =>
    { mem := survivors st.mem keep ++ newFree.map (fun r => ⟨.free, r⟩), S := S' }

def run (st : MState) (ops : List Op) : MState := ops.foldl apply st

/-! ### mutator operations on the shadow heap -/

/-- `object_reference_write(o, slot j, v)` -/
def writeField (S : Snap) (o : Nat) (j : Nat) (v : Option Nat) : Snap where
  heap := fun i =>
    if i = o then (S.heap o).map (fun ob => { ob with fields := ob.fields.set j v }) else S.heap i
  roots := S.roots

/-- a root slot is overwritten (`v = none`: dropped) -/
def setRoot (S : Snap) (k : Nat) (v : Option Nat) : Snap where
  heap := S.heap
  roots := S.roots.set k v

/-- a freshly allocated object is initialised and published in a new root slot -/
def publish (S : Snap) (id : Nat) (ob : Obj) : Snap where
  heap := fun i => if i = id then some ob else S.heap i
  roots := S.roots ++ [some id]

/-! ### bump pointer (BumpAllocator, ImmixAllocator's two cursors) -/

structure Bump where
  cursor : Nat
  limit : Nat
deriving DecidableEq, Repr

/-- fast path; `none` = "thread local buffer used up, go to alloc slow path" -/
def bumpAlloc (b : Bump) (pad size : Nat) : Option (Nat × Bump) :=
  let result := b.cursor + pad
  let newCursor := result + size
  if newCursor > b.limit then none else some (result, { b with cursor := newCursor })

/-- `acquire_block` / `acquire_clean_block`: `set_limit(start, start + blockSize)` -/
def bumpRefill (start blockSize : Nat) : Bump := ⟨start, start + blockSize⟩

/-- the unused part of the buffer, as a region -/
def Bump.region (b : Bump) : Region := ⟨b.cursor, b.limit - b.cursor⟩

/-! ### Immix hole search -/

/-- skip unavailable lines: first free line in `[line, n)` -/
def skipUsed (lineFree : Nat → Bool) (n : Nat) : Nat → Nat → Nat
  | 0, line => line
  | fuel + 1, line => if line < n && !lineFree line then skipUsed lineFree n fuel (line + 1) else line

/-- extend over free lines: first non-free line (or `n`) at or after `line` -/
def skipFree (lineFree : Nat → Bool) (n : Nat) : Nat → Nat → Nat
  | 0, line => line
  | fuel + 1, line => if line < n && lineFree line then skipFree lineFree n fuel (line + 1) else line

/-- `get_next_available_lines(search_start)`: `Some((start_line, end_line))` or `None` -/
def nextHole (lineFree : Nat → Bool) (n : Nat) (search : Nat) : Option (Nat × Nat) :=
  let s := skipUsed lineFree n (n - search) search
  if s < n then some (s, skipFree lineFree n (n - s) s) else none

/-- `acquire_recyclable_lines`: the bump pointer for hole `[s, e)` of the block at `base` -/
def holeBump (base lineBytes s e : Nat) : Bump := ⟨base + s * lineBytes, base + e * lineBytes⟩

def lineRegion (base lineBytes k : Nat) : Region := ⟨base + k * lineBytes, lineBytes⟩

/-- all holes of a block from `search` on, by iterating the hole search the way
`acquire_recyclable_lines` does (`self.line = Some(end_line)`) — this is the memory a recycled block
contributes to the free memory after a collection -/
def allHoles (lineFree : Nat → Bool) (n : Nat) : Nat → Nat → List (Nat × Nat)
  | 0, _ => []
  | fuel + 1, search =>
    match nextHole lineFree n search with
    | none => []
    | some (s, e) => (s, e) :: allHoles lineFree n fuel e

def holeRegion (base lineBytes : Nat) (h : Nat × Nat) : Region :=
  ⟨base + h.1 * lineBytes, (h.2 - h.1) * lineBytes⟩

/-! ### free-list cells -/

/-- a mark-sweep block of one size class: cell `k` is `[base + k*cell, base + (k+1)*cell)` -/
structure CellBlock where
  base : Nat
  cell : Nat
  freeList : List Nat
deriving Repr

def cellRegion (base cell k : Nat) : Region := ⟨base + k * cell, cell⟩

/-- `block_alloc`: pop the head of the free list (`none` = block full) -/
def cellAlloc (b : CellBlock) : Option (Nat × CellBlock) :=
  match b.freeList with
  | [] => none
  | k :: rest => some (b.base + k * b.cell, { b with freeList := rest })

/-! ### large objects -/

/-- a run of `pages` pages at `start` (chosen by the free-list page resource, C26) -/
def losAlloc (start pages pageBytes : Nat) : Region := ⟨start, pages * pageBytes⟩

end Mmtk.AllocModel
