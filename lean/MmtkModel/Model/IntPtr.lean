/-!
# Model of `is_mmtk_object` and `find_object_from_internal_pointer` (C08)   — import-free

Transcribed from `src/util/is_mmtk_object.rs` (`check_object_reference`, `check_internal_reference`: dispatch through
`SFT_MAP.get_checked(addr)`), `src/util/metadata/vo_bit/mod.rs` (`is_vo_bit_set_for_addr`,
`find_object_from_internal_pointer`, `is_internal_ptr`), the data-address view of
`SideMetadataSpec::find_prev_non_zero_value_simple` (src/util/metadata/side_metadata/global.rs — the reference
implementation the fast one is asserted equal to in debug builds; its bit-level arithmetic is C22's subject) for the
VO spec (1 bit per 8-byte region), the per-policy wrappers (`ImmixSpace` / native `MarkSweepSpace`: the limit is
capped by the maximal object size; `CopySpace`, `ImmortalSpace`, …: uncapped; the empty SFT: `None`) and
`LargeObjectSpace::find_object_from_internal_pointer` (page walk testing the first VO word of each page).
-/
namespace Mmtk.IntPtr

structure Env where
  /-- VO bit of the 8-byte region that starts at a word-aligned address -/
  vo : Nat → Bool
  /-- `Address::is_mapped` -/
  mapped : Nat → Bool
  /-- `VO_BIT_SIDE_METADATA_SPEC.is_mapped(addr)` -/
  voMapped : Nat → Bool
  /-- `MMAPPER.granularity()` -/
  gran : Nat
  /-- `OBJECT_REF_OFFSET`: reference − object start -/
  refOff : Nat
  /-- `ObjectModel::get_current_size` of the object whose reference is given -/
  size : Nat → Nat

def alignDown (x a : Nat) : Nat := x - x % a

/-- what `SFT_MAP.get_checked(addr)` answers -/
inductive Space where
  /-- `EmptySpaceSFT` -/
  | empty
  /-- VO-bit based spaces; `cap` = maximal object size of the policy (Immix, native mark-sweep), if it applies one -/
  | generic (cap : Option Nat)
  | los
  deriving Repr, DecidableEq

/-- `is_vo_bit_set_for_addr` -/
def isVoBitSet (e : Env) (a : Nat) : Option Nat :=
  if !e.voMapped a then none else if e.vo a then some a else none

/-- `memory_manager::is_mmtk_object` (precondition: `addr` non-zero and word-aligned) -/
def isMmtkObject (sp : Space) (e : Env) (a : Nat) : Option Nat :=
  match sp with
  | .empty => none
  | _ => isVoBitSet e a

/-- `is_internal_ptr_from_vo_bit`: `internal_ptr < obj.to_object_start() + get_current_size(obj)` -/
def internalOf (e : Env) (voAddr p : Nat) : Option Nat :=
  if p < (voAddr - e.refOff) + e.size voAddr then some voAddr else none

/-- loop of `find_prev_non_zero_value_simple`; state `(cursor, mapped_grain)`, `fuel` ≥ number of iterations -/
def findPrevLoop (e : Env) (endAddr : Nat) : Nat → Nat → Nat → Option Nat
  | 0, _, _ => none
  | fuel + 1, cursor, grain =>
    if cursor < endAddr then none
    else if cursor < grain && !e.mapped cursor then none
    else
      let grain := if cursor < grain then alignDown cursor e.gran else grain
      if e.vo cursor then some cursor
      else if cursor < 8 then none
      else findPrevLoop e endAddr fuel (cursor - 8) grain

/-- `find_prev_non_zero_value_simple::<u8>(data_addr, search_limit_bytes)` for the VO spec -/
def findPrev (e : Env) (p limit : Nat) : Option Nat :=
  let start := alignDown p 8
  let endAddr := (p - limit) + 1
  findPrevLoop e endAddr (start / 8 + 1) start (2 ^ 64 - 1)

/-- `vo_bit::find_object_from_internal_pointer` -/
def findObject (e : Env) (p limit : Nat) : Option Nat :=
  if !e.mapped p then none
  else match findPrev e p limit with
    | some a => internalOf e a p
    | none => none

/-- the first VO-set address among the 64 regions covered by the VO word of a page start -/
def firstVo (e : Env) (page : Nat) : Option Nat :=
  ((List.range 64).find? fun k => e.vo (page + 8 * k)).map fun k => page + 8 * k

/-- loop of `LargeObjectSpace::find_object_from_internal_pointer`; state `(cur_page, mapped_grain)` -/
def findLosLoop (e : Env) (p lowPage : Nat) : Nat → Nat → Nat → Option Nat
  | 0, _, _ => none
  | fuel + 1, cur, grain =>
    if cur < lowPage then none
    else if cur < grain && !e.mapped cur then none
    else
      let grain := if cur < grain then alignDown cur e.gran else grain
      match firstVo e cur with
      | some a => internalOf e a p
      | none => if cur < 4096 then none else findLosLoop e p lowPage fuel (cur - 4096) grain

def findLos (e : Env) (p n : Nat) : Option Nat :=
  let cur := alignDown p 4096
  let low := alignDown (p - n) 4096
  findLosLoop e p low (cur / 4096 + 1) cur (2 ^ 64 - 1)

/-- `memory_manager::find_object_from_internal_pointer(internal_ptr, max_search_bytes)` -/
def findFromInternal (sp : Space) (e : Env) (p n : Nat) : Option Nat :=
  match sp with
  | .empty => none
  | .generic none => findObject e p n
  | .generic (some cap) => findObject e p (Nat.min cap n)
  | .los => findLos e p n

end Mmtk.IntPtr
