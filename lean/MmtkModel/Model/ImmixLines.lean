import MmtkModel.Generated.ImmixConsts
/-!
# Immix line marks, hole search, block sweep (C34)

Transcribed from `src/policy/immix/{immixspace.rs, line.rs, block.rs}` and
`src/util/alloc/immix_allocator.rs`.  `u8` values are `Nat`s (< 256); the line mark table of one
block is a `List Nat` of `LINES` bytes.  The per-block functions (`holeSearch`, `sweepBlock`,
`markLines`, `objLines`, `BlockState.ofByte/toByte`, `nextMarkState`) are executable and are what the
monitor (`Driver/Immix`) runs against dumps of the real heap; `Space` assembles them into the
transition system of one `ImmixSpace` (blocks indexed by `Nat`, so the block table is a function).
-/
namespace Mmtk.Immix
open Consts

/-- `Line::BYTES` -/
def lineBytes : Nat := 2 ^ lineLogBytes
/-- `Block::LINES = 1 << (Block::LOG_BYTES - Line::LOG_BYTES)` -/
def LINES : Nat := 2 ^ (blockLogBytes - lineLogBytes)

/-! ## Block state ↔ byte (`block.rs`, `impl From<u8> for BlockState`, `impl From<BlockState> for u8`) -/

inductive BlockState where
  | unallocated
  | unmarked
  | marked
  | reusable (unavailableLines : Nat)
  deriving DecidableEq, Repr, Inhabited

/-- `BlockState::from(state: u8)`: the three reserved bytes first, every other byte is
`Reusable { unavailable_lines: byte }`. -/
def BlockState.ofByte (b : Nat) : BlockState :=
  if b = markUnallocated then .unallocated
  else if b = markUnmarked then .unmarked
  else if b = markMarked then .marked
  else .reusable b

/-- `u8::from(state: BlockState)`. -/
def BlockState.toByte : BlockState → Nat
  | .unallocated => markUnallocated
  | .unmarked => markUnmarked
  | .marked => markMarked
  | .reusable n => n

/-- `BlockState::is_reusable` -/
def BlockState.isReusable : BlockState → Bool
  | .reusable _ => true
  | _ => false

/-! ## Lines spanned by an object (`Line::mark_lines_for_object`) -/

/-- `[start_line, end_line)` as global line numbers (`address >> Line::LOG_BYTES`):
`start_line = from_unaligned_address(start)`, `end_line = from_unaligned_address(end)`, moved to the
next line iff `end` is not line aligned. -/
def objLines (start size : Nat) : Nat × Nat :=
  let end_ := start + size
  let startLine := start >>> lineLogBytes
  let endLine := end_ >>> lineLogBytes
  let endLine := if end_ % lineBytes ≠ 0 then endLine + 1 else endLine
  (startLine, endLine)

/-- The loop of `mark_lines_for_object` / `bulk_set_line_mark_states` on one block's table:
`line.mark(state)` for every line index in `[s, e)`. `i` is the index of the head of the list. -/
def markLinesFrom (state s e : Nat) : Nat → List Nat → List Nat
  | _, [] => []
  | i, m :: ms => (if s ≤ i ∧ i < e then state else m) :: markLinesFrom state s e (i + 1) ms

def markLines (state s e : Nat) (marks : List Nat) : List Nat := markLinesFrom state s e 0 marks

/-- The value `mark_lines_for_object` returns: lines in `[s, e)` not yet carrying `state`. -/
def newlyMarkedFrom (state s e : Nat) : Nat → List Nat → Nat
  | _, [] => 0
  | i, m :: ms => (if s ≤ i ∧ i < e ∧ m ≠ state then 1 else 0) + newlyMarkedFrom state s e (i + 1) ms

/-! ## Hole search (`ImmixSpace::get_next_available_lines`) -/

/-- first loop: `while cursor < len { if mark != unavail && mark != current { break }; cursor += 1 }`;
the number of lines skipped. -/
def skipUnavail (unavail cur : Nat) : List Nat → Nat
  | [] => 0
  | m :: ms => if m ≠ unavail ∧ m ≠ cur then 0 else 1 + skipUnavail unavail cur ms

/-- second loop: `while cursor < len { if mark == unavail || mark == current { break }; cursor += 1 }`. -/
def skipAvail (unavail cur : Nat) : List Nat → Nat
  | [] => 0
  | m :: ms => if m = unavail ∨ m = cur then 0 else 1 + skipAvail unavail cur ms

/-- `get_next_available_lines(search_start)`, line indices within the block. -/
def holeSearch (marks : List Nat) (unavail cur start : Nat) : Option (Nat × Nat) :=
  let cursor := start + skipUnavail unavail cur (marks.drop start)
  if cursor = marks.length then none
  else
    let limit := cursor + skipAvail unavail cur (marks.drop cursor)
    some (cursor, limit)

/-! ## Mark state (`ImmixSpace::prepare`) -/

/-- `line_mark_state.fetch_add(1)` on an `AtomicU8`, then reset to `RESET_MARK_STATE` when the new
value exceeds `MAX_MARK_STATE`. -/
def nextMarkState (c : Nat) : Nat :=
  let c1 := (c + 1) % 256
  if c1 > maxMarkState then resetMarkState else c1

/-! ## Blocks -/

structure Block where
  state : BlockState := .unallocated
  /-- the byte of `Block::DEFRAG_STATE_TABLE` (255 = defrag source, otherwise the hole count) -/
  defragByte : Nat := 0
  /-- the bytes of `Line::MARK_TABLE` for this block -/
  marks : List Nat := []
  deriving Repr, Inhabited

def Block.isDefragSource (b : Block) : Bool := b.defragByte == 255

/-- `Block::init(copy)` -/
def Block.init (b : Block) (copy : Bool) : Block :=
  { b with state := if copy then .marked else .unmarked, defragByte := 0 }

/-- `PrepareBlockState::do_work` on one block: unallocated blocks are skipped, the others get their
defrag flag and `BlockState::Unmarked`. -/
def Block.prepare (isDefragSource : Bool) (b : Block) : Block :=
  if b.state = .unallocated then b
  else { b with defragByte := if isDefragSource then 255 else 0, state := .unmarked }

/-- The loop of `Block::sweep` (`!BLOCK_ONLY` arm) over the line table: returns the rewritten table,
`marked_lines` and `holes`. A line not carrying the current state is reset to 0 when
`line_mark_state > MAX_MARK_STATE - 2`. -/
def sweepLines (cur : Nat) : List Nat → Bool → List Nat × Nat × Nat
  | [], _ => ([], 0, 0)
  | m :: ms, prevMarked =>
    if m = cur then
      let r := sweepLines cur ms true
      (m :: r.1, r.2.1 + 1, r.2.2)
    else
      let r := sweepLines cur ms false
      ((if cur > maxMarkState - 2 then 0 else m) :: r.1, r.2.1, if prevMarked then r.2.2 + 1 else r.2.2)

inductive SweepResult where
  | swept | reused | noReuse
  deriving DecidableEq, Repr

/-- `Block::sweep` (`!BLOCK_ONLY`): no marked line → `release_block` (`deinit`: Unallocated; the
defrag byte is left alone); some but not all → `Reusable { marked_lines as u8 }` and pushed to the
reusable list; all → `Unmarked`. In the last two cases `set_holes(holes)`. -/
def sweepBlock (cur : Nat) (b : Block) : Block × SweepResult :=
  let r := sweepLines cur b.marks true
  let marked := r.2.1
  let holes := r.2.2
  if marked = 0 then
    ({ b with state := .unallocated, marks := r.1 }, .swept)
  else if marked ≠ LINES then
    ({ b with state := .reusable (marked % 256), marks := r.1, defragByte := holes % 256 }, .reused)
  else
    ({ b with state := .unmarked, marks := r.1, defragByte := holes % 256 }, .noReuse)

/-! ## One ImmixSpace as a transition system

`blk b` is block number `b` of the space's address range; `cursor b = some l` means: block `b`
was popped from the reusable list by an allocator whose hole-search cursor (`ImmixAllocator::line`)
is line `l` of that block. The reusable list is a work-stealing pool whose pop order is not
deterministic, so it is modelled as a set. -/

structure Space where
  cur : Nat := resetMarkState
  unavail : Nat := resetMarkState
  blk : Nat → Block := fun _ => {}
  cursor : Nat → Option Nat := fun _ => none
  reusable : Nat → Bool := fun _ => false
  /-- `CommonSpace::allocate_as_live` (concurrent marking in progress) -/
  asLive : Bool := false

def upd {α : Type} (f : Nat → α) (i : Nat) (v : α) : Nat → α := fun j => if j = i then v else f j

/-- `ImmixSpace::prepare(major_gc, ..)`: a nursery GC leaves the line state alone. `sel` is the
defrag-source decision per block. -/
def Space.prepare (s : Space) (major : Bool) (sel : Nat → Bool) : Space :=
  if major then
    { s with cur := nextMarkState s.cur, blk := fun i => (s.blk i).prepare (sel i) }
  else s

/-- `ImmixSpace::mark_lines(object)` for an object spanning lines `[lo, hi)` of block `b`. -/
def Space.markObject (s : Space) (b lo hi : Nat) : Space :=
  { s with blk := upd s.blk b { s.blk b with marks := markLines s.cur lo hi (s.blk b).marks } }

/-- `ImmixSpace::release(major_gc, ..)` + the `SweepChunk` packets + the allocator resets of
`Mutator::release` / `CopyContext::release`: `line_unavail_state := line_mark_state` (major only),
the reusable list is rebuilt from the sweep results, every allocator forgets its cursor. -/
def Space.release (s : Space) (major : Bool) : Space :=
  { s with
    unavail := if major then s.cur else s.unavail
    blk := fun i => if (s.blk i).state = .unallocated then s.blk i else (sweepBlock s.cur (s.blk i)).1
    reusable := fun i => decide ((s.blk i).state ≠ .unallocated) && decide ((sweepBlock s.cur (s.blk i)).2 = .reused)
    cursor := fun _ => none }

/-- The space after a copy allocator popped and dropped the defrag source `b`. -/
def Space.popDrop (s : Space) (b : Nat) : Space :=
  { s with reusable := upd s.reusable b false }

/-- The space after block `b` was popped, `init`ed and became the hole-search block of an allocator. -/
def Space.popInit (s : Space) (b : Nat) (copy : Bool) : Space :=
  { s with reusable := upd s.reusable b false,
           blk := upd s.blk b ((s.blk b).init copy),
           cursor := upd s.cursor b (some 0) }

/-- `ImmixSpace::get_reusable_block(copy)` popping block `b` (+ `acquire_recyclable_block`):
a defrag source is dropped by a copy allocator; otherwise the state must be Reusable or Unmarked
(`unreachable!` otherwise: `none`), the block is `init`ed and the allocator's cursor is its line 0. -/
def Space.popReusable (s : Space) (b : Nat) (copy : Bool) : Option Space :=
  if copy && (s.blk b).isDefragSource then
    some (s.popDrop b)
  else
    match (s.blk b).state with
    | .reusable _ | .unmarked => some (s.popInit b copy)
    | _ => none

/-- The hole search of the allocator owning `b` found nothing: `self.line = None`. -/
def Space.noHole (s : Space) (b : Nat) : Space :=
  { s with cursor := upd s.cursor b none }

/-- The hole `[st, en)` of block `b` is taken: the cursor moves to `en` (or is dropped at the end of
the block); when allocating as live the hole's lines are eagerly marked. -/
def Space.takeHole (s : Space) (b st en : Nat) : Space :=
  { s with cursor := upd s.cursor b (if en = LINES then none else some en),
           blk := upd s.blk b { s.blk b with
             marks := if s.asLive then markLines s.cur st en (s.blk b).marks else (s.blk b).marks } }

/-- One iteration of `ImmixAllocator::acquire_recyclable_lines` for the allocator that owns block
`b` with cursor `l`: returns the hole handed to the bump pointer, if any. -/
def Space.holeStep (s : Space) (b l : Nat) : Space × Option (Nat × Nat) :=
  match holeSearch (s.blk b).marks s.unavail s.cur l with
  | none => (s.noHole b, none)
  | some (st, en) => (s.takeHole b st en, some (st, en))

/-- `ImmixSpace::get_clean_block` + `ImmixAllocator::acquire_clean_block` for a block `b` granted
by the page resource: `init(copy)`, the line table is zeroed, then eagerly marked when allocating
as live. -/
def Space.acquireClean (s : Space) (b : Nat) (copy : Bool) : Space :=
  let zero := List.replicate LINES 0
  let marks := if s.asLive then markLines s.cur 0 LINES zero else zero
  { s with blk := upd s.blk b { ((s.blk b).init copy) with marks := marks } }

end Mmtk.Immix
