/-!
# Model of the sentinel round protocol of the `VMRefClosure` bucket (C13)   — import-free

Transcribed from `src/plan/tracing/gc_work/weakref.rs` (`VMProcessWeakRefs::do_work`: call
`Scanning::process_weak_refs`; iff it returns `true`, `set_sentinel(Box::new(Self::new()))` on the
`VMRefClosure` bucket), `src/scheduler/work_bucket.rs` (`set_sentinel`, `maybe_schedule_sentinel`: take the
sentinel out of its slot and add it to the bucket as an ordinary packet) and `src/scheduler/scheduler.rs`
(`schedule_common_work`: the first `VMProcessWeakRefs` is installed as the sentinel;
`find_more_work_for_workers`, called by the last parked worker only — i.e. when no packet is queued or
running —: `schedule_sentinels()` first, `update_buckets()` (which opens the next bucket) only if no
sentinel was scheduled).

One bucket, any number of workers. `queue` / `running` count the ordinary packets of the bucket (closure
packets created by the tracer of `process_weak_refs` and by other closure packets). The scheduler-wide
guards (all workers parked ⇔ nothing queued, nothing running) are package `sched`'s theorems; here they are
the guard of `lastParked`.
-/
namespace Mmtk.WeakRounds

structure St where
  /-- ordinary packets of the bucket that no worker has started yet -/
  queue : Nat := 0
  /-- ordinary packets being executed -/
  running : Nat := 0
  /-- the sentinel slot holds a `VMProcessWeakRefs` -/
  sentinel : Bool := true
  /-- the `VMProcessWeakRefs` packet taken from the slot sits in the bucket -/
  sq : Bool := false
  /-- a worker executes `VMProcessWeakRefs::do_work` (inside or after `process_weak_refs`) -/
  sr : Bool := false
  /-- the next bucket has been opened -/
  done : Bool := false
  /-- ghost: the values `process_weak_refs` returned so far -/
  rets : List Bool := []
  /-- ghost: for every call, whether the bucket was drained (nothing queued, nothing running) when it began -/
  drained : List Bool := []
  deriving Repr, DecidableEq

inductive Act where
  /-- a worker takes an ordinary packet -/
  | start
  /-- a running ordinary packet, or the tracer handed to `process_weak_refs`, adds a closure packet to the bucket -/
  | spawn
  /-- an ordinary packet ends -/
  | finish
  /-- the last parked worker looks for more work -/
  | lastParked
  /-- a worker takes the `VMProcessWeakRefs` packet and calls `process_weak_refs` -/
  | callBegin
  /-- `process_weak_refs` returns `ret`; the packet re-installs itself iff `ret` -/
  | callEnd (ret : Bool)
  deriving Repr, DecidableEq

def step (s : St) : Act → St
  | .start => if 0 < s.queue then { s with queue := s.queue - 1, running := s.running + 1 } else s
  | .spawn => if 0 < s.running ∨ s.sr = true then { s with queue := s.queue + 1 } else s
  | .finish => if 0 < s.running then { s with running := s.running - 1 } else s
  | .lastParked =>
    if s.queue = 0 ∧ s.running = 0 ∧ s.sq = false ∧ s.sr = false ∧ s.done = false then
      if s.sentinel then { s with sentinel := false, sq := true }      -- schedule_sentinels
      else { s with done := true }                                      -- update_buckets opens the next bucket
    else s
  | .callBegin =>
    if s.sq then { s with sq := false, sr := true, drained := s.drained ++ [decide (s.queue = 0 ∧ s.running = 0)] } else s
  | .callEnd ret =>
    if s.sr then { s with sr := false, rets := s.rets ++ [ret], sentinel := if ret then true else s.sentinel } else s

/-- is the action possible in this state? (what a replay of a real event log checks) -/
def enabled (s : St) : Act → Bool
  | .start => decide (0 < s.queue)
  | .spawn => decide (0 < s.running) || s.sr
  | .finish => decide (0 < s.running)
  | .lastParked => decide (s.queue = 0 ∧ s.running = 0) && !s.sq && !s.sr && !s.done
  | .callBegin => s.sq
  | .callEnd _ => s.sr

def exec (s : St) : List Act → St
  | [] => s
  | a :: rest => exec (step s a) rest

/-- the bucket when it opens: the sentinel installed by `schedule_common_work`, `n` packets already in it -/
def init (n : Nat) : St := { queue := n }

end Mmtk.WeakRounds
