import MmtkModel.Model.RevGroup
/-!
# Model of the chunk-state mmapper (C30)

Transcribed from `src/util/heap/layout/mmapper/csm/mod.rs` (`ChunkStateMmapper`, `ChunkRange`) and
`csm/two_level_storage.rs` (`TwoLevelStateStorage`), on top of the model of
`revisitable_group_by` (C40).

Representation. `ChunkRange`s are always chunk-aligned, so the model identifies a chunk-aligned
address `a` with its chunk index `c = a / 2^22`; `slab_index(a) = a >> 35 = c / 2^13` and
`in_slab_index(a) = (a & (2^35-1)) >> 22 = c % 2^13` (`addr_slab_index`, `addr_in_slab_index` in
Props/C30). Unaligned inputs enter through `rangeOfUnaligned` (`ChunkRange::new_unaligned`).
The OS (`OS::dzmmap`) is a parameter `os : σ → start chunk → #chunks → replace → prot → σ × Bool`
that may fail at any call.
-/
namespace Mmtk.CSM
open Mmtk.RevGroup

inductive MapState | unmapped | quarantined | mapped
deriving DecidableEq, Repr, Inhabited

/-- Position in the documented order Unmapped < Quarantined < Mapped. -/
def MapState.rank : MapState → Nat
  | .unmapped => 0 | .quarantined => 1 | .mapped => 2

def logBytesInChunk : Nat := 22
def logBytesInPage : Nat := 12
/-- `MMAP_CHUNKS_PER_SLAB = 1 << (35 - 22)`. -/
def chunksPerSlab : Nat := 8192
/-- `MAX_SLABS = 1 << (48 - 35)`. -/
def maxSlabs : Nat := 8192
/-- `MAPPABLE_ADDRESS_LIMIT`, in chunks: `2^48 / 2^22`. -/
def limitChunks : Nat := 67108864

/-- `TwoLevelStateStorage`: `slabs[i]` is `None` until first written. -/
structure Storage where
  slabs : Nat → Option (Nat → MapState)

def Storage.empty : Storage := ⟨fun _ => none⟩

def slabIndex (c : Nat) : Nat := c / chunksPerSlab
def inSlabIndex (c : Nat) : Nat := c % chunksPerSlab

/-- `get_state(chunk)`: `slab_table` returns `None` for an index outside the vector or an absent
slab → `Unmapped`. -/
def getState (S : Storage) (c : Nat) : MapState :=
  if slabIndex c < maxSlabs then
    match S.slabs (slabIndex c) with
    | none => .unmapped
    | some t => t (inSlabIndex c)
  else .unmapped

/-- `get_or_allocate_slab_table(addr)` followed by a store into the slot of chunk `c`
(`new_slab` = all `Unmapped`). Callers have checked `slabIndex c < maxSlabs`. -/
def setChunk (S : Storage) (c : Nat) (v : MapState) : Storage :=
  let t : Nat → MapState := match S.slabs (slabIndex c) with
    | none => fun _ => .unmapped
    | some t => t
  ⟨fun s => if s = slabIndex c then some (fun i => if i = inSlabIndex c then v else t i) else S.slabs s⟩

/-- One slice handed to the callback of `foreach_slab_slice_for_write`: `slab[low_index..ub_index]`. -/
structure Slice where
  slab : Nat
  lo : Nat
  ub : Nat
deriving Repr, DecidableEq

/-- The `while low < limit` loop of `foreach_slab_slice_for_write` (chunk units; `fuel` bounds the
iterations, `limit - low + 1` suffice). -/
def slabSlices : Nat → Nat → Nat → List Slice
  | 0, _, _ => []
  | fuel + 1, low, limit =>
    if low < limit then
      -- `(low + MMAP_SLAB_BYTES).align_down(MMAP_SLAB_BYTES).min(limit)`
      let high := min ((low + chunksPerSlab) / chunksPerSlab * chunksPerSlab) limit
      let lowIndex := inSlabIndex low
      let highIndex := inSlabIndex high
      let ubIndex := if highIndex = 0 then chunksPerSlab else highIndex
      ⟨slabIndex low, lowIndex, ubIndex⟩ :: slabSlices fuel high limit
    else []

/-- The chunks (global indices) a slice denotes, ascending. -/
def Slice.chunks (s : Slice) : List Nat :=
  (List.range' s.lo (s.ub - s.lo)).map (fun i => s.slab * chunksPerSlab + i)

/-- All slots visited for the range `[c0, c0 + n)`, in visiting order. -/
def visited (c0 n : Nat) : List Nat :=
  (slabSlices (n + 1) c0 (c0 + n)).flatMap Slice.chunks

inductive Res | ok | err | panic
deriving DecidableEq, Repr

/-- `bulk_set_state(range, state)`. `panic` = range beyond the mappable limit
(`debug_assert!` in `foreach_slab_slice_for_write` / `get_or_allocate_slab_table`). -/
def bulkSetState (S : Storage) (c0 n : Nat) (v : MapState) : Storage × Res :=
  if n = 0 then (S, .ok)
  else if c0 + n > limitChunks then (S, .panic)
  else if n = 1 then (setChunk S c0 v, .ok)
  else ((visited c0 n).foldl (fun S c => setChunk S c v) S, .ok)

/-- What an `update_fn` callback answers. -/
inductive Upd | err | panic | keep | set (s : MapState)
deriving DecidableEq, Repr

/-- The `for group in …revisitable_group_by(load)` loop of `bulk_transition_state`.
`si` = `start_index`. -/
def applyGroups {σ : Type} (step : σ → Nat → Nat → MapState → σ × Upd) (c0 : Nat) :
    List (Group Nat MapState) → Nat → Storage → σ → Storage × σ × Res
  | [], _, S, os => (S, os, .ok)
  | g :: gs, si, S, os =>
    match step os (c0 + si) g.len g.key with
    | (os', .err) => (S, os', .err)
    | (os', .panic) => (S, os', .panic)
    | (os', .keep) => applyGroups step c0 gs (si + g.len) S os'
    | (os', .set ns) =>
      applyGroups step c0 gs (si + g.len) (g.items.foldl (fun S c => setChunk S c ns) S) os'

/-- `bulk_transition_state(range, update_fn)`. -/
def bulkTransition {σ : Type} (step : σ → Nat → Nat → MapState → σ × Upd)
    (S : Storage) (os : σ) (c0 n : Nat) : Storage × σ × Res :=
  if n = 0 then (S, os, .ok)
  else if c0 + n > limitChunks then (S, os, .panic)
  else if n = 1 then
    -- single-chunk fast path
    match step os c0 1 (getState S c0) with
    | (os', .err) => (S, os', .err)
    | (os', .panic) => (S, os', .panic)
    | (os', .keep) => (S, os', .ok)
    | (os', .set ns) => (setChunk S c0 ns, os', .ok)
  else
    applyGroups step c0 (groups (getState S) (visited c0 n)) 0 S os

/-- `ChunkRange::new_unaligned(start, bytes)` as `(first chunk, #chunks)`; the additions do not
overflow for `start + bytes + 2^22 ≤ 2^64` (the harness stays far below). -/
def rangeOfUnaligned (start bytes : Nat) : Nat × Nat :=
  let c0 := start / 2 ^ logBytesInChunk
  let c1 := (start + bytes + (2 ^ logBytesInChunk - 1)) / 2 ^ logBytesInChunk
  (c0, c1 - c0)

/-- The OS as a parameter: `os st start len replace rw` = new OS state and success. -/
abbrev OS (σ : Type) := σ → Nat → Nat → Bool → Bool → σ × Bool

/-- `update_fn` of `quarantine_address_range`. -/
def quarantineStep {σ : Type} (os : OS σ) : σ → Nat → Nat → MapState → σ × Upd :=
  fun st c len s =>
    match s with
    | .unmapped =>
      -- MmapStrategy::QUARANTINE: PROT_NONE, replace = false
      match os st c len false false with
      | (st', true) => (st', .set .quarantined)
      | (st', false) => (st', .err)
    | .quarantined => (st, .panic)
    | .mapped => (st, .keep)

/-- `update_fn` of `ensure_mapped`. -/
def ensureMappedStep {σ : Type} (os : OS σ) : σ → Nat → Nat → MapState → σ × Upd :=
  fun st c len s =>
    match s with
    | .unmapped =>
      match os st c len false true with
      | (st', true) => (st', .set .mapped)
      | (st', false) => (st', .err)
    | .quarantined =>
      match os st c len true true with
      | (st', true) => (st', .set .mapped)
      | (st', false) => (st', .err)
    | .mapped => (st, .keep)

/-- `quarantine_address_range(start, pages, …)`. -/
def quarantine {σ : Type} (os : OS σ) (S : Storage) (st : σ) (start pages : Nat) : Storage × σ × Res :=
  let r := rangeOfUnaligned start (pages * 2 ^ logBytesInPage)
  bulkTransition (quarantineStep os) S st r.1 r.2

/-- `ensure_mapped(start, pages, …)`. -/
def ensureMapped {σ : Type} (os : OS σ) (S : Storage) (st : σ) (start pages : Nat) : Storage × σ × Res :=
  let r := rangeOfUnaligned start (pages * 2 ^ logBytesInPage)
  bulkTransition (ensureMappedStep os) S st r.1 r.2

/-- `mark_as_mapped(start, bytes)`. -/
def markAsMapped (S : Storage) (start bytes : Nat) : Storage × Res :=
  let r := rangeOfUnaligned start bytes
  bulkSetState S r.1 r.2 .mapped

/-- `is_mapped_address(addr)`: `get_state(addr) == Mapped`; `slab_index`/`in_slab_index` ignore the
in-chunk bits, so the address need not be aligned. -/
def isMappedAddress (S : Storage) (addr : Nat) : Bool :=
  getState S (addr / 2 ^ logBytesInChunk) == .mapped

/-! ## a concrete OS for the driver: per-chunk protection (0 = free, 1 = PROT_NONE, 2 = RW) -/

/-- Linux `mmap` with `MAP_FIXED_NOREPLACE` (fails with EEXIST if any page of the range is mapped,
changing nothing) or `MAP_FIXED` (`replace`). -/
def linuxOS : OS (Nat → Nat) :=
  fun prot c len replace rw =>
    if !replace && (List.range' c len).any (fun i => prot i != 0) then (prot, false)
    else (fun i => if c ≤ i ∧ i < c + len then (if rw then 2 else 1) else prot i, true)

end Mmtk.CSM
