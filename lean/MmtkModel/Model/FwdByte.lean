import MmtkModel.Model.Fwd
/-!
# Two objects' forwarding bits in ONE metadata byte: the byte-wide compare-exchange (C17, neighbour races)

`Model/Fwd.lean` is per object: its `.cas` step is an atomic CAS on the object's own two forwarding
bits.  With side forwarding bits, several OBJECTS share one metadata byte and the compare-exchange
(`SideMetadataSpec::compare_exchange_atomic`) is BYTE-wide: load the byte, splice expected / new
field into it, CAS the whole byte.  The CAS `00 → 10` of `attempt_to_forward` therefore fails
*spuriously* when a neighbour's forwarding bits change between the load and the CAS;
`attempt_to_forward` loops (re-loads the bits, retries).

This model has two objects `A`, `B` with their own `Fwd.Shared` each (bits, pointer, mark, copies,
queue), the remaining bits `rest` of the byte, any number of threads per object, and an environment
that overwrites `rest`.  A thread's CAS is two steps: load the whole byte (`casB o r` remembers the
neighbour's bits `o` and `rest = r`), then compare the WHOLE byte.  A failed CAS — genuine or
spurious — goes back to the loop head.

`proj k` projects a state onto object `k` as a state of the per-object model: the byte load and any
failed byte CAS are stutter steps; a successful byte CAS is the two per-object steps
`.start → .cas → .won` taken back to back.  `Props/C17Byte.lean` proves that every run of this model
projects, for each object, to a run of the per-object model — so every C17 theorem holds per object.
-/
namespace Mmtk.FwdByte

inductive Obj
  | A
  | B
deriving DecidableEq, Repr

def Obj.other : Obj → Obj
  | .A => .B
  | .B => .A

structure Shared where
  obj : Obj → Fwd.Shared
  /-- the remaining bits of the metadata byte -/
  rest : Nat

def Shared.setObj (sh : Shared) (k : Obj) (o : Fwd.Shared) : Shared :=
  { sh with obj := fun j => if j = k then o else sh.obj j }

inductive PC
  | base (p : Fwd.PC)
  /-- inside compare_exchange: byte loaded (neighbour's bits `o`, rest `r`), about to CAS the byte -/
  | casB (o r : Nat)
deriving DecidableEq, Repr

/-- One atomic step of thread `(k, x)` (the `x`-th thread tracing object `k`). -/
def localStep (immix oneStep : Bool) (k : Obj) (x : Nat) (decline : Bool) (sh : Shared) (pc : PC) :
    Shared × PC :=
  match pc with
  | .casB o r =>
    if (sh.obj k).bits = Fwd.NOT_TRIGGERED ∧ (sh.obj k.other).bits = o ∧ sh.rest = r   -- the WHOLE byte
    then (sh.setObj k { sh.obj k with bits := Fwd.BEING_FORWARDED, triggered := true }, .base .won)
    else (sh, .base .start)                       -- genuine OR spurious failure: the caller loops
  | .base p =>
    match p with
    | .cas => (sh, .casB (sh.obj k.other).bits sh.rest)        -- load the WHOLE byte
    | p =>
      let r := Fwd.localStep immix oneStep x decline (sh.obj k) p
      (sh.setObj k r.1, .base r.2)

structure State where
  sh : Shared
  pc : Obj → Nat → PC := fun _ _ => .base .start

/-- thread `(k, x)` steps with oracle answer `decline`, or the environment overwrites `rest` -/
inductive Act
  | thread (k : Obj) (x : Nat) (decline : Bool)
  | env (v : Nat)
deriving Repr

def step (immix oneStep : Bool) (s : State) : Act → State
  | .thread k x d =>
    let r := localStep immix oneStep k x d s.sh (s.pc k x)
    { sh := r.1, pc := fun j y => if j = k ∧ y = x then r.2 else s.pc j y }
  | .env v => { s with sh := { s.sh with rest := v } }

def m0of (m0A m0B : Bool) : Obj → Bool
  | .A => m0A
  | .B => m0B

def init (m0A m0B : Bool) (r0 : Nat) : State :=
  { sh := { obj := fun k => { marked := m0of m0A m0B k }, rest := r0 } }

def exec (immix oneStep : Bool) (s : State) : List Act → State
  | [] => s
  | a :: rest => exec immix oneStep (step immix oneStep s a) rest

/-! ## projection onto one object, as a state / run of the per-object model `Mmtk.Fwd` -/

/-- "has loaded `00`, is inside the byte-wide compare-exchange" is, per object, still the loop head -/
def projPC : PC → Fwd.PC
  | .casB _ _ => .start
  | .base p =>
    match p with
    | .cas => .start
    | p => p

def proj (k : Obj) (s : State) : Fwd.State :=
  { sh := s.sh.obj k, pc := fun x => projPC (s.pc k x) }

/-- the per-object steps that one step of thread `(k, x)` at `pc` amounts to -/
def projLocal (k : Obj) (sh : Shared) (pc : PC) (x : Nat) (d : Bool) : List (Nat × Bool) :=
  match pc with
  | .casB o r =>
    if (sh.obj k).bits = Fwd.NOT_TRIGGERED ∧ (sh.obj k.other).bits = o ∧ sh.rest = r
    then [(x, d), (x, d)] else []
  | .base p =>
    match p with
    | .cas => []
    | .start => if (sh.obj k).bits = Fwd.NOT_TRIGGERED then [] else [(x, d)]
    | _ => [(x, d)]

def projAct (k : Obj) (s : State) : Act → List (Nat × Bool)
  | .thread j x d => if j = k then projLocal k s.sh (s.pc j x) x d else []
  | .env _ => []

def projRun (immix oneStep : Bool) (k : Obj) (s : State) : List Act → List (Nat × Bool)
  | [] => []
  | a :: rest => projAct k s a ++ projRun immix oneStep k (step immix oneStep s a) rest

end Mmtk.FwdByte
