/-!
# Model of `revisitable_group_by` (C40, consumed by C30)

Transcribed from `src/util/rust_util/rev_group.rs`.  The underlying `Iterator + Clone` is a
`List` (cloning an iterator = keeping the list); `RevisitableGroupBy` is the state
`(iter, next_group_initial)`; `next` is one call of `Iterator::next`.
A `RevisitableGroup` iterates `head` first and then `remaining - 1` items of the *saved clone*
of the underlying iterator, which is what `Group.items` computes.
-/
namespace Mmtk.RevGroup

structure Group (α κ : Type) where
  key : κ
  len : Nat
  /-- what iterating the group yields: `head :: saved.take (len - 1)` -/
  items : List α
deriving Repr

variable {α κ : Type} [DecidableEq κ]

/-- The inner `loop` of `next`: consume items with key `k`.  Returns (number consumed into the
group, the peeked item of the next group if any, the iterator left after the loop). -/
def takeRun (f : α → κ) (k : κ) : List α → Nat × Option (α × κ) × List α
  | [] => (0, none, [])
  | x :: xs =>
    if f x = k then
      let r := takeRun f k xs
      (r.1 + 1, r.2.1, r.2.2)
    else (0, some (x, f x), xs)

/-- One call of `RevisitableGroupBy::next`. -/
def next (f : α → κ) (iter : List α) (ni : Option (α × κ)) :
    Option (Group α κ × List α × Option (α × κ)) :=
  let start : Option (α × κ × List α) :=
    match ni with
    | some (h, k) => some (h, k, iter)
    | none =>
      match iter with
      | [] => none
      | x :: xs => some (x, f x, xs)
  match start with
  | none => none
  | some (h, k, it) =>
    let saved := it                       -- `self.iter.clone()`
    let r := takeRun f k it
    let size := r.1 + 1                   -- `group_size` starts at 1
    some ({ key := k, len := size, items := h :: saved.take (size - 1) }, r.2.2, r.2.1)

/-- Drive `next` until it returns `None` (fuel bounds the number of calls). -/
def run (f : α → κ) : Nat → List α → Option (α × κ) → List (Group α κ)
  | 0, _, _ => []
  | fuel + 1, iter, ni =>
    match next f iter ni with
    | none => []
    | some (g, iter', ni') => g :: run f fuel iter' ni'

/-- All groups of `xs`: at most `xs.length` groups exist, one more call sees `None`. -/
def groups (f : α → κ) (xs : List α) : List (Group α κ) :=
  run f (xs.length + 1) xs none

end Mmtk.RevGroup
