import MmtkModel.Model.SideMeta
/-!
# Model of the bulk side-metadata operations (C21)

Transcribed from `src/util/metadata/side_metadata/ranges.rs` (`break_bit_range`) and `global.rs`
(`zero_meta_bits`, `set_meta_bits`, `bulk_update_metadata` — the contiguous / 64-bit branch —,
`bzero_metadata`, `bset_metadata`, `bcopy_metadata_contiguous`).
-/
namespace Mmtk.SideMeta
open Mmtk.Mem

/-- `ranges.rs::BitByteRange`. -/
inductive BBR where
  /-- `Bytes { start, end }` -/
  | bytes (s e : Nat)
  /-- `BitsInByte { addr, bit_start, bit_end }` -/
  | bits (addr bs be : Nat)
deriving DecidableEq, Repr

/-- `ranges.rs::break_bit_range`: the ranges handed to the visitor, in visiting order, when the
visitor never aborts (an aborting visitor sees a prefix: `visitUntil`). -/
def breakBitRange (sa sb ea eb : Nat) (fwd : Bool) : List BBR :=
  -- The start and the end are the same, we don't need to do anything.
  if sa = ea ∧ sb = eb then []
  -- If the range is already byte-aligned, visit the entire range as whole bytes.
  else if sb = 0 ∧ eb = 0 then [.bytes sa ea]
  -- If the start and the end are within the same byte, visit the bit range within the byte.
  else if sa = ea then [.bits sa sb eb]
  -- If the end is the 0th bit of the next byte of the start
  else if sa + 1 = ea ∧ eb = 0 then [.bits sa sb 8]
  else
    -- visit_start / visit_middle / visit_end
    let vs : List BBR := if sb ≠ 0 then [.bits sa sb 8] else []
    let mstart := if sb = 0 then sa else sa + 1
    let vm : List BBR := if mstart < ea then [.bytes mstart ea] else []
    let ve : List BBR := if eb ≠ 0 then [.bits ea 0 eb] else []
    if fwd then vs ++ vm ++ ve else ve ++ vm ++ vs

/-- running a visitor over the ranges: stops after the first range for which it returns `true`;
returns `(result of break_bit_range, ranges actually visited)`. -/
def visitUntil (f : BBR → Bool) : List BBR → Bool × List BBR
  | [] => (false, [])
  | r :: rs => if f r then (true, [r]) else let (b, l) := visitUntil f rs; (b, r :: l)

/-- `u8::MAX.checked_shl(k).unwrap_or(0)` -/
def checkedShl255 (k : Nat) : Nat := if k < 8 then (255 <<< k) % 256 else 0

/-- the mask of `zero_meta_bits`: bits to clear are 0, others 1. -/
def zeroMask (bs be : Nat) : Nat := checkedShl255 be ||| (255 - (255 <<< bs) % 256)

/-- the mask of `set_meta_bits` / `bcopy`: bits to set are 1, others 0. -/
def setMask (bs be : Nat) : Nat := (255 - checkedShl255 be) &&& ((255 <<< bs) % 256)

/-- `memory::zero(start, end - start)` / `memory::set(start, 0xff, end - start)`. -/
def fillBytes (m : Mem) (s e v : Nat) : Mem := fun x => if s ≤ x ∧ x < e then v else m x

/-- the visitor of `zero_meta_bits`. -/
def zeroRange (m : Mem) : BBR → Mem
  | .bytes s e => fillBytes m s e 0
  | .bits a bs be => set m a (m a &&& zeroMask bs be)

/-- the visitor of `set_meta_bits`. -/
def setRange (m : Mem) : BBR → Mem
  | .bytes s e => fillBytes m s e 255
  | .bits a bs be => set m a (m a ||| setMask bs be)

/-- the visitor of `bcopy_metadata_contiguous` (`ptr::copy` = memmove: reads the memory as it was
before this range is written). -/
def copyRange (dstStart srcStart : Nat) (m : Mem) : BBR → Mem
  | .bytes s e => fun x => if s ≤ x ∧ x < e then m (srcStart + (x - dstStart)) else m x
  | .bits a bs be =>
    let mask := setMask bs be
    set m a ((m (srcStart + (a - dstStart)) &&& mask) ||| (m a &&& (255 - mask)))

/-- `zero_meta_bits` -/
def zeroMetaBits (m : Mem) (sa sb ea eb : Nat) : Mem :=
  (breakBitRange sa sb ea eb true).foldl zeroRange m

/-- `set_meta_bits` -/
def setMetaBits (m : Mem) (sa sb ea eb : Nat) : Mem :=
  (breakBitRange sa sb ea eb true).foldl setRange m

/-- `bzero_metadata` = `bulk_update_metadata(start, size, zero_meta_bits)`, contiguous branch. -/
def bzero (s : Spec) (m : Mem) (start size : Nat) : Mem :=
  if size = 0 then m else
  zeroMetaBits m (metaAddr s start) (lshift s start) (metaAddr s (start + size)) (lshift s (start + size))

/-- `bset_metadata`. -/
def bset (s : Spec) (m : Mem) (start size : Nat) : Mem :=
  if size = 0 then m else
  setMetaBits m (metaAddr s start) (lshift s start) (metaAddr s (start + size)) (lshift s (start + size))

/-- `bcopy_metadata_contiguous(start, size, other)`; `none` = one of its `debug_assert_eq!`s. -/
def bcopy (debug : Bool) (s other : Spec) (m : Mem) (start size : Nat) : Option Mem :=
  if debug && !(decide (other.logRegion = s.logRegion) && decide (other.logBits = s.logBits)) then none else
  let dsa := metaAddr s start
  let dsb := lshift s start
  let dea := metaAddr s (start + size)
  let deb := lshift s (start + size)
  let ssa := metaAddr other start
  let ssb := lshift other start
  if debug && !(decide (dsb = ssb)) then none else
  some ((breakBitRange dsa dsb dea deb true).foldl (copyRange dsa ssa) m)

end Mmtk.SideMeta
