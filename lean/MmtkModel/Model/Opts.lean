/-!
# Model of option parsing and setting (C39)

Transcribed from `src/util/options.rs`: the `options!` macro (`set_from_string_inner`),
`Options::{set_from_string, set_bulk_from_string}`, `MMTKOption::set`, `GCTriggerSelector::{parse_size,
from_str, validate}`, `NurserySize::{from_str, validate}`, `AffinityKind::{parse_cpulist, validate}`,
`PerfEventOptions::parse_perf_events`, and the std parsers they call (`uN::from_str`, `bool::from_str`,
strum `EnumString`). Strings are `List Char`. `none` = `Err`.

The two `regex` patterns of `GCTriggerSelector::from_str` are modelled by direct recognisers with
`\d` = ASCII digit. (The crate's `\d` is Unicode `Nd`; a non-ASCII digit can only make the regex
match a string on which `parse_size` then fails — `u64::from_str` accepts ASCII digits only — so
the result is `Err` either way; the regex engine itself is trusted only through the differential.)
`f64::from_str` is modelled on the decimal grammar `[+-]? digits [. digits*] | [+-]? . digits` only,
with exact rational comparison in `validate` (exponents, `inf`, `nan` are outside the model).
Core Lean only.
-/
namespace Mmtk.Opts

/-! ## std parsers -/

def isAsciiDigit (c : Char) : Bool := 48 ≤ c.toNat && c.toNat ≤ 57
def digitVal (c : Char) : Nat := c.toNat - 48

/-- the digit loop of `from_str_radix(…, 10)` for an unsigned type with `bound = MAX + 1`:
`result = result.checked_mul(10)?.checked_add(d)?` -/
def parseDigits (bound : Nat) : List Char → Nat → Option Nat
  | [], acc => some acc
  | c :: cs, acc =>
    if isAsciiDigit c then
      let r := acc * 10 + digitVal c
      if r < bound then parseDigits bound cs r else none
    else none

/-- `<uN as FromStr>::from_str`: empty → Err; a lone sign → Err; one leading `+` is accepted;
`-` is an invalid digit for unsigned types. -/
def parseUnsigned (bound : Nat) (s : List Char) : Option Nat :=
  match s with
  | [] => none
  | [c] => if c = '+' ∨ c = '-' then none else parseDigits bound [c] 0
  | c :: rest => if c = '+' then parseDigits bound rest 0 else parseDigits bound (c :: rest) 0

def parseUsize := parseUnsigned (2^64)
def parseU16 := parseUnsigned (2^16)

/-- `<i32 as FromStr>::from_str` as an integer (`none` = Err). -/
def parseI32 (s : List Char) : Option Int :=
  match s with
  | [] => none
  | [c] => if c = '+' ∨ c = '-' then none else (parseDigits (2^31) [c] 0).map Int.ofNat
  | c :: rest =>
    if c = '+' then (parseDigits (2^31) rest 0).map Int.ofNat
    else if c = '-' then (parseDigits (2^31 + 1) rest 0).map (fun n => - Int.ofNat n)
    else (parseDigits (2^31) (c :: rest) 0).map Int.ofNat

/-- `bool::from_str` -/
def parseBool (s : List Char) : Option Bool :=
  if s = "true".toList then some true else if s = "false".toList then some false else none

/-- strum `EnumString`: exact (case-sensitive) variant name → index. -/
def parseEnum (variants : List String) (s : List Char) : Option Nat :=
  variants.findIdx? (fun v => v.toList = s)

/-- `str::split(c)`: always at least one piece. -/
def splitOn (sep : Char) : List Char → List (List Char)
  | [] => [[]]
  | c :: cs =>
    if c = sep then [] :: splitOn sep cs
    else match splitOn sep cs with
      | [] => [[c]]          -- unreachable
      | p :: ps => (c :: p) :: ps

/-- `str::splitn(2, c)`: split at the first occurrence only. -/
def splitFirst (sep : Char) : List Char → List (List Char)
  | [] => [[]]
  | c :: cs =>
    if c = sep then [[], cs]
    else match splitFirst sep cs with
      | [p] => [c :: p]
      | p :: ps => (c :: p) :: ps
      | [] => [[c]]

/-! ## sizes and the GC trigger -/

def toLowerAscii (c : Char) : Char := if 65 ≤ c.toNat ∧ c.toNat ≤ 90 then Char.ofNat (c.toNat + 32) else c
def isAsciiAlpha (c : Char) : Bool := (65 ≤ c.toNat && c.toNat ≤ 90) || (97 ≤ c.toNat && c.toNat ≤ 122)

/-- `GCTriggerSelector::parse_size` (on ASCII input — the regexes admit nothing else that succeeds):
lowercase; a trailing letter selects the multiplier (`checked_mul`), the rest is a `u64`. -/
def parseSize (s0 : List Char) : Option Nat :=
  let s := s0.map toLowerAscii
  match s.getLast? with
  | none => parseUsize s
  | some last =>
    if isAsciiAlpha last then
      match parseUnsigned (2^64) s.dropLast with
      | none => none
      | some num =>
        let mult : Option Nat :=
          if last = 'k' then some 1024 else if last = 'm' then some (1024 * 1024)
          else if last = 'g' then some (1024 * 1024 * 1024) else if last = 't' then some (1024 * 1024 * 1024 * 1024)
          else none
        match mult with
        | none => none
        | some m => if num * m < 2^64 then some (num * m) else none
    else parseUsize s

def isSizeSuffix (c : Char) : Bool := "kKmMgGtT".toList.contains c

/-- the regex fragment `\d+[kKmMgGtT]?` anchored on both sides (ASCII `\d`) -/
def matchSize (s : List Char) : Bool :=
  match s.getLast? with
  | none => false
  | some last =>
    if isSizeSuffix last then s.dropLast ≠ [] && s.dropLast.all isAsciiDigit
    else s.all isAsciiDigit

inductive Trigger where
  | fixed (size : Nat)
  | dynamic (min max : Nat)
  | delegated
deriving Repr, DecidableEq

def stripPrefix (p s : List Char) : Option (List Char) :=
  if p.isPrefixOf s then some (s.drop p.length) else none

/-- `FIXED_HEAP_REGEX = ^FixedHeapSize:(?P<size>\\d+[kKmMgGtT]?)$`: the captured size. -/
def fixedPart (s : List Char) : Option (List Char) :=
  (stripPrefix "FixedHeapSize:".toList s).filter matchSize

/-- `DYNAMIC_HEAP_REGEX = ^DynamicHeapSize:(?P<min>\\d+[kKmMgGtT]?),(?P<max>\\d+[kKmMgGtT]?)$`: the two
captures (sizes contain no comma, so the text after the prefix must split into exactly two). -/
def dynParts (s : List Char) : Option (List Char × List Char) :=
  match stripPrefix "DynamicHeapSize:".toList s with
  | none => none
  | some x =>
    match splitOn ',' x with
    | [a, b] => if matchSize a && matchSize b then some (a, b) else none
    | _ => none

/-- `<GCTriggerSelector as FromStr>::from_str` -/
def triggerFromStr (s : List Char) : Option Trigger :=
  if s = [] then none else
  match fixedPart s with
  | some x => (parseSize x).map Trigger.fixed
  | none =>
    match dynParts s with
    | some (a, b) =>
      match parseSize a with
      | none => none
      | some mn =>
        match parseSize b with
        | none => none
        | some mx => some (Trigger.dynamic mn mx)
    | none => if s = "Delegated".toList then some Trigger.delegated else none

def Trigger.validate : Trigger → Bool
  | .fixed size => size > 0
  | .dynamic mn mx => mn ≤ mx
  | .delegated => true

/-! ## nursery size -/

/-- a decimal `(-1)^neg · mant / 10^frac` -/
structure Dec where
  neg : Bool
  mant : Nat
  frac : Nat
deriving Repr, DecidableEq

def parseDigitsNat : List Char → Nat → Option Nat
  | [], acc => some acc
  | c :: cs, acc => if isAsciiDigit c then parseDigitsNat cs (acc * 10 + digitVal c) else none

/-- the decimal fragment of `f64::from_str` -/
def parseDec (s : List Char) : Option Dec :=
  let (neg, body) := match s with
    | '-' :: r => (true, r)
    | '+' :: r => (false, r)
    | _ => (false, s)
  match splitOn '.' body with
  | [i] => if i = [] then none else (parseDigitsNat i 0).map (fun m => ⟨neg, m, 0⟩)
  | [i, f] =>
    if i = [] ∧ f = [] then none
    else (parseDigitsNat (i ++ f) 0).map (fun m => ⟨neg, m, f.length⟩)
  | _ => none

/-- `a ≤ b` / `a < b` on decimals, exactly -/
def Dec.toRat (d : Dec) : Int × Nat := ((if d.neg then - Int.ofNat d.mant else Int.ofNat d.mant), 10 ^ d.frac)
def Dec.le (a b : Dec) : Bool := a.toRat.1 * b.toRat.2 ≤ b.toRat.1 * a.toRat.2
def Dec.lt (a b : Dec) : Bool := a.toRat.1 * b.toRat.2 < b.toRat.1 * a.toRat.2

inductive Nursery where
  | bounded (min max : Nat)
  | proportional (min max : Dec)
  | fixed (size : Nat)
deriving Repr, DecidableEq

def defaultMinNursery : Nat := 2 * 2^20
def defaultMaxNursery : Nat := 2^20 * 2^20
def defaultPropMin : Dec := ⟨false, 25, 2⟩
def defaultPropMax : Dec := ⟨false, 10, 1⟩

def defaultOr {α} (parse : List Char → Option α) (val : List Char) (dflt : α) : Option α :=
  if val = ['_'] then some dflt else parse val

/-- `<NurserySize as FromStr>::from_str` -/
def nurseryFromStr (s : List Char) : Option Nursery :=
  match splitOn ':' s with
  | [variant, vals] =>
    let values := splitOn ',' vals
    if variant = "Bounded".toList then
      match values with
      | [a, b] =>
        match defaultOr parseUsize a defaultMinNursery with
        | none => none
        | some mn => (defaultOr parseUsize b defaultMaxNursery).map (Nursery.bounded mn)
      | _ => none
    else if variant = "ProportionalBounded".toList then
      match values with
      | [a, b] =>
        match defaultOr parseDec a defaultPropMin with
        | none => none
        | some mn => (defaultOr parseDec b defaultPropMax).map (Nursery.proportional mn)
      | _ => none
    else if variant = "Fixed".toList then
      match values with
      | [a] => (parseUsize a).map Nursery.fixed
      | _ => none
    else none
  | _ => none

def Nursery.validate : Nursery → Bool
  | .bounded mn mx => mn ≤ mx
  | .proportional mn mx => Dec.lt ⟨false, 0, 0⟩ mn && Dec.le mn mx && Dec.le mx ⟨false, 1, 0⟩
  | .fixed _ => true

/-! ## CPU lists -/

inductive Affinity where
  | osDefault
  | roundRobin (cores : List Nat)
  | allInSet (cores : List Nat)
deriving Repr, DecidableEq

/-- `cpuset.push(c); cpuset.sort_unstable(); cpuset.dedup()` on a sorted duplicate-free list -/
def insertCore (c : Nat) : List Nat → List Nat
  | [] => [c]
  | x :: xs => if c < x then c :: x :: xs else if c = x then x :: xs else x :: insertCore c xs

/-- one element of the comma list; `none` = error -/
def parseCpuItem (set : List Nat) (item : List Char) : Option (List Nat) :=
  if !item.contains '-' then
    if item ≠ [] then
      match parseU16 item with
      | some core => some (insertCore core set)
      | none => none
    else none
  else
    match splitOn '-' item with
    | [a, b] =>
      match parseU16 a with
      | none => none
      | some start =>
        match parseU16 b with
        | none => none
        | some stop =>
          if start ≥ stop then none
          else some ((List.range (stop + 1 - start)).foldl (fun acc i => insertCore (start + i) acc) set)
    | _ => none

def parseCpuItems : List (List Char) → List Nat → Option (List Nat)
  | [], set => some set
  | item :: rest, set =>
    match parseCpuItem set item with
    | none => none
    | some set' => parseCpuItems rest set'

/-- `AffinityKind::parse_cpulist` -/
def parseCpulist (s : List Char) : Option Affinity :=
  if s = [] then some Affinity.osDefault else
  let ks := splitFirst ':' s
  let kind : Option Bool :=          -- all_in_set
    match ks with
    | [k, _] => if k = "RoundRobin".toList then some false else if k = "AllInSet".toList then some true else none
    | _ => some false
  match kind with
  | none => none
  | some allInSet =>
    let list := match ks with
      | [_, l] => l
      | [l] => l
      | _ => []
    match parseCpuItems (splitOn ',' list) [] with
    | none => none
    | some set => some (if allInSet then Affinity.allInSet set else Affinity.roundRobin set)

def Affinity.validate (numCpu : Nat) : Affinity → Bool
  | .roundRobin cores => cores.all (· < numCpu)
  | _ => true

/-! ## perf events (never settable without the `perf_counter` features, parsed nevertheless) -/

def parsePerfEvents (s : List Char) : Option (List (List Char × Int × Int)) :=
  ((splitOn ';' s).filter (· ≠ [])).mapM (fun e =>
    match splitOn ',' e with
    | [name, pid, cpu] =>
      match parseI32 pid, parseI32 cpu with
      | some p, some c => some (name, p, c)
      | _, _ => none
    | _ => none)

/-! ## the option table -/

inductive Val where
  | usize (n : Nat)
  | bool (b : Bool)
  | enum (idx : Nat)
  | nursery (n : Nursery)
  | affinity (a : Affinity)
  | trigger (t : Trigger)
  | perf (l : List (List Char × Int × Int))
deriving Repr, DecidableEq

structure OptSpec where
  name : String
  parse : List Char → Option Val
  valid : Val → Bool
  dflt : Val

/-- build/machine facts the validators and defaults depend on -/
structure Env where
  numCpus : Nat := 16
  defaultThreads : Nat := 16
  defaultHeap : Nat := 2^31
  perfCounter : Bool := false
  workPacketStats : Bool := false
  linux : Bool := true

def planNames : List String :=
  ["NoGC", "SemiSpace", "GenCopy", "GenImmix", "MarkSweep", "PageProtect", "Immix", "MarkCompact", "Compressor",
   "StickyImmix", "ConcurrentImmix"]
def zeroingNames : List String := ["Temporal", "Nontemporal", "Concurrent", "Adaptive"]

def pUsize (s : List Char) : Option Val := (parseUsize s).map Val.usize
def pBool (s : List Char) : Option Val := (parseBool s).map Val.bool
def always (_ : Val) : Bool := true
def boolOpt (name : String) (d : Bool) : OptSpec := ⟨name, pBool, always, .bool d⟩
def usizeGt0 : Val → Bool
  | .usize n => n > 0
  | _ => false

/-- the `options! { … }` table, in declaration order -/
def table (env : Env) : List OptSpec := [
  ⟨"plan", fun s => (parseEnum planNames s).map Val.enum, always, .enum 3⟩,
  ⟨"threads", pUsize, usizeGt0, .usize env.defaultThreads⟩,
  boolOpt "use_short_stack_scans" false,
  boolOpt "use_return_barrier" false,
  boolOpt "eager_complete_sweep" false,
  boolOpt "ignore_system_gc" false,
  ⟨"nursery", fun s => (nurseryFromStr s).map Val.nursery,
    fun v => match v with | .nursery n => n.validate | _ => false,
    .nursery (.proportional defaultPropMin defaultPropMax)⟩,
  boolOpt "full_heap_system_gc" false,
  boolOpt "no_finalizer" false,
  boolOpt "no_reference_types" false,
  ⟨"nursery_zeroing", fun s => (parseEnum zeroingNames s).map Val.enum, always, .enum 0⟩,
  ⟨"stress_factor", pUsize, always, .usize (2^64 - 1)⟩,
  ⟨"analysis_factor", pUsize, always, .usize (2^64 - 1)⟩,
  boolOpt "precise_stress" true,
  ⟨"vm_space_start", pUsize, always, .usize 0⟩,
  ⟨"vm_space_size", pUsize, usizeGt0, .usize 0xdc00000⟩,
  ⟨"side_metadata_base_address", pUsize, always, .usize 0⟩,
  ⟨"work_perf_events", fun s => (parsePerfEvents s).map Val.perf, fun _ => env.perfCounter && env.workPacketStats, .perf []⟩,
  ⟨"phase_perf_events", fun s => (parsePerfEvents s).map Val.perf, fun _ => env.perfCounter, .perf []⟩,
  ⟨"perf_exclude_kernel", pBool, fun _ => env.perfCounter, .bool false⟩,
  ⟨"thread_affinity", fun s => (parseCpulist s).map Val.affinity,
    fun v => match v with | .affinity a => a.validate env.numCpus | _ => false, .affinity .osDefault⟩,
  ⟨"gc_trigger", fun s => (triggerFromStr s).map Val.trigger,
    fun v => match v with | .trigger t => t.validate | _ => false, .trigger (.fixed env.defaultHeap)⟩,
  ⟨"transparent_hugepages", pBool, fun v => match v with | .bool b => !b || env.linux | _ => false, .bool false⟩,
  boolOpt "count_live_bytes_in_gc" false,
  boolOpt "immix_always_defrag" false,
  boolOpt "immix_defrag_every_block" false,
  ⟨"immix_defrag_headroom_percent", pUsize, fun v => match v with | .usize n => n ≤ 50 | _ => false, .usize 2⟩,
  boolOpt "concurrent_immix_disable_concurrent_marking" false
]

/-- `Options`: the current value of every option, by name. -/
abbrev Options := List (String × Val)

def defaults (tbl : List OptSpec) : Options := tbl.map (fun o => (o.name, o.dflt))

def setVal (opts : Options) (name : String) (v : Val) : Options :=
  opts.map (fun kv => if kv.1 = name then (kv.1, v) else kv)

inductive SetError where
  | invalidKey | valueParseError | valueValidationError
deriving Repr, DecidableEq

/-- `set_from_string_inner(s, val)`: look the key up, parse, validate, store. -/
def setInner (tbl : List OptSpec) (opts : Options) (key val : List Char) : Except SetError Options :=
  match tbl.find? (fun o => o.name.toList = key) with
  | none => .error .invalidKey
  | some o =>
    match o.parse val with
    | none => .error .valueParseError
    | some v => if o.valid v then .ok (setVal opts o.name v) else .error .valueValidationError

/-- `set_from_string(s, val) = set_from_string_inner(s, val).is_ok()` (state in, state out). -/
def setFromString (tbl : List OptSpec) (opts : Options) (key val : List Char) : Bool × Options :=
  match setInner tbl opts key val with
  | .ok o => (true, o)
  | .error _ => (false, opts)

/-- `options.replace(',', " ").split_ascii_whitespace()` -/
def isAsciiWs (c : Char) : Bool := c = ' ' || c = '\t' || c = '\n' || c = '\x0c' || c = '\r'
def splitP (p : Char → Bool) : List Char → List (List Char)
  | [] => [[]]
  | c :: cs =>
    if p c then [] :: splitP p cs
    else match splitP p cs with
      | [] => [[c]]
      | q :: qs => (c :: q) :: qs
def bulkTokens (s : List Char) : List (List Char) :=
  (splitP isAsciiWs (s.map (fun c => if c = ',' then ' ' else c))).filter (· ≠ [])

/-- outcome of `set_bulk_from_string`: returned `bool`, or the panic on an unknown key; either way
with the options as they are at that point (earlier pairs stay applied). -/
inductive BulkResult where
  | ret (ok : Bool) (opts : Options)
  | panic (opts : Options)
deriving Repr

def bulkLoop (tbl : List OptSpec) : List (List Char) → Options → BulkResult
  | [], opts => .ret true opts
  | tok :: rest, opts =>
    match splitOn '=' tok with
    | [key, val] =>
      match setInner tbl opts key val with
      | .ok opts' => bulkLoop tbl rest opts'
      | .error .invalidKey => .panic opts
      | .error _ => .ret false opts
    | _ => .ret false opts

def setBulkFromString (tbl : List OptSpec) (opts : Options) (s : List Char) : BulkResult :=
  bulkLoop tbl (bulkTokens s) opts

end Mmtk.Opts
