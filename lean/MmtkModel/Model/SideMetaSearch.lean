import MmtkModel.Model.SideMetaBulk
/-!
# Model of the side-metadata searches and scans (C22)

Transcribed from `global.rs` (`find_prev/next_non_zero_value{,_fast,_simple}`,
`scan_non_zero_values{,_fast,_simple}`) and `helpers.rs` (`find_last/first_non_zero_bit*`,
`scan_non_zero_bits_in_metadata_*`, `align_metadata_address`, `contiguous_meta_address_to_address`).
Loops are written with explicit fuel (an upper bound on the number of iterations); the word-at-a-time
stepping, its alignment test and its bounds are kept as in the code.
-/
namespace Mmtk.SideMeta
open Mmtk.Mem

/-- What the code asks the `MMAPPER`. -/
structure MapEnv where
  /-- `Address::is_mapped` (for data and metadata addresses alike) -/
  mapped : Nat → Bool
  /-- `MMAPPER.granularity()` -/
  gran : Nat

def alignDown (x a : Nat) : Nat := x - x % a
def alignUp (x a : Nat) : Nat := alignDown (x + a - 1) a

/-- `helpers.rs::align_metadata_address` -/
def alignMeta (s : Spec) (ma bit : Nat) : Nat × Nat :=
  if s.logBits ≥ 3 then (alignDown ma (2 ^ (s.logBits - 3)), 0)
  else (ma, alignDown bit (2 ^ s.logBits))

/-- `helpers.rs::contiguous_meta_address_to_address` (without its debug assertion). -/
def metaToData (s : Spec) (ma bit : Nat) : Nat :=
  let rel := ma - s.start
  let inter := if s.logBits ≤ 3 then (rel <<< (3 - s.logBits)) % 2 ^ 64 else rel >>> (s.logBits - 3)
  let bshift := if s.logBits ≤ 3 then s.logRegion - s.logBits else s.logRegion
  ((inter <<< s.logRegion) % 2 ^ 64 + (bit <<< bshift) % 2 ^ 64)

/-- the mask of `find_last/first_non_zero_bit::<T>` for a `T` of `tbits` bits. -/
def rangeMask (tbits start stop : Nat) : Nat :=
  if stop - start < tbits then ((2 ^ (stop - start) - 1) <<< start) % 2 ^ tbits
  else ((2 ^ tbits - 1) <<< start) % 2 ^ tbits

/-- `trailing_zeros` with fuel (exact for `0 < n < 2^fuel`). -/
def ctzF : Nat → Nat → Nat
  | 0, _ => 0
  | f + 1, n => if n % 2 = 1 then 0 else 1 + ctzF f (n / 2)

/-- `trailing_zeros` of a non-zero machine word. -/
def ctz (n : Nat) : Nat := ctzF 64 n

/-- index of the highest set bit with fuel (exact for `0 < n < 2^fuel`). -/
def log2F : Nat → Nat → Nat
  | 0, _ => 0
  | f + 1, n => if n < 2 then 0 else 1 + log2F f (n / 2)

/-- `total_bits - leading_zeros - 1` of a non-zero machine word. -/
def hiBit (n : Nat) : Nat := log2F 64 n

/-- `helpers.rs::find_last_non_zero_bit::<T>` -/
def findLastBit (tbits value start stop : Nat) : Option Nat :=
  let masked := value &&& rangeMask tbits start stop
  if masked = 0 then none else some (hiBit masked)

/-- `helpers.rs::find_first_non_zero_bit::<T>` -/
def findFirstBit (tbits value start stop : Nat) : Option Nat :=
  let masked := value &&& rangeMask tbits start stop
  if masked = 0 then none else some (ctz masked)

/-- `helpers.rs::FindMetaBitResult` -/
inductive FindRes where
  | found (addr bit : Nat)
  | notFound
  | unmapped
deriving DecidableEq, Repr

/-- loop of `find_last_non_zero_bit_in_metadata_bytes`; state `(cur, mapped_grain)`. -/
def findLastInBytesLoop (env : MapEnv) (m : Mem) (metaStart : Nat) : Nat → Nat → Nat → FindRes
  | 0, _, _ => .notFound
  | fuel + 1, cur, grain =>
    if ¬ (cur > metaStart) then .notFound else
    let step := if cur % 8 = 0 ∧ cur - 8 ≥ metaStart ∧ cur ≥ 8 then 8 else 1
    let cur := cur - step
    let chk : Option Nat :=
      if cur < grain then (if env.mapped cur then some (alignDown cur env.gran) else none) else some grain
    match chk with
    | none => .unmapped
    | some grain =>
      if step = 8 then
        let value := readLE m cur 8
        if value ≠ 0 then
          match findLastBit 64 value 0 64 with
          | some bit => .found (cur + (bit >>> 3)) (bit - ((bit >>> 3) <<< 3))
          | none => .notFound   -- unreachable (`unwrap`)
        else findLastInBytesLoop env m metaStart fuel cur grain
      else
        match findLastBit 8 (m cur) 0 8 with
        | some bit => .found cur bit
        | none => findLastInBytesLoop env m metaStart fuel cur grain

/-- `helpers.rs::find_last_non_zero_bit_in_metadata_bytes` -/
def findLastInBytes (env : MapEnv) (m : Mem) (metaStart metaEnd : Nat) : FindRes :=
  findLastInBytesLoop env m metaStart (metaEnd - metaStart + 1) metaEnd (2 ^ 64 - 1)

/-- `helpers.rs::find_last_non_zero_bit_in_metadata_bits` -/
def findLastInBits (env : MapEnv) (m : Mem) (addr sb eb : Nat) : FindRes :=
  if !env.mapped addr then .unmapped else
  match findLastBit 8 (m addr) sb eb with
  | some bit => .found addr bit
  | none => .notFound

/-- loop of `find_first_non_zero_bit_in_metadata_bytes`; state `(cursor, mapped_grain)`. -/
def findFirstInBytesLoop (env : MapEnv) (m : Mem) (metaEnd : Nat) : Nat → Nat → Nat → FindRes
  | 0, _, _ => .notFound
  | fuel + 1, cursor, grain =>
    if ¬ (cursor < metaEnd) then .notFound else
    let step := if cursor % 8 = 0 ∧ cursor + 8 ≤ metaEnd then 8 else 1
    let chk : Option Nat :=
      if cursor > grain then (if env.mapped cursor then some (alignUp cursor env.gran - 1) else none) else some grain
    match chk with
    | none => .unmapped
    | some grain =>
      if step = 8 then
        let value := readLE m cursor 8
        if value ≠ 0 then
          match findFirstBit 64 value 0 64 with
          | some bit => .found (cursor + (bit >>> 3)) (bit - ((bit >>> 3) <<< 3))
          | none => .notFound
        else findFirstInBytesLoop env m metaEnd fuel (cursor + step) grain
      else
        match findFirstBit 8 (m cursor) 0 8 with
        | some bit => .found cursor bit
        | none => findFirstInBytesLoop env m metaEnd fuel (cursor + step) grain

/-- `helpers.rs::find_first_non_zero_bit_in_metadata_bytes` -/
def findFirstInBytes (env : MapEnv) (m : Mem) (metaStart metaEnd : Nat) : FindRes :=
  findFirstInBytesLoop env m metaEnd (metaEnd - metaStart + 1) metaStart 0

/-- `helpers.rs::find_first_non_zero_bit_in_metadata_bits` -/
def findFirstInBits (env : MapEnv) (m : Mem) (addr sb eb : Nat) : FindRes :=
  if !env.mapped addr then .unmapped else
  match findFirstBit 8 (m addr) sb eb with
  | some bit => .found addr bit
  | none => .notFound

/-- the visitor of `find_*_non_zero_value_fast` run over the ranges: `res` after the iteration. -/
def findVisit (s : Spec) (one : BBR → FindRes) : List BBR → Option Nat
  | [] => none
  | r :: rs =>
    match one r with
    | .found addr bit => let (a, b) := alignMeta s addr bit; some (metaToData s a b)
    | .unmapped => none
    | .notFound => findVisit s one rs

/-- `find_prev_non_zero_value_fast` -/
def findPrevFast (env : MapEnv) (s : Spec) (m : Mem) (a limit : Nat) : Option Nat :=
  if !env.mapped a then none else
  let startAddr := (a - limit) + 1          -- saturating_sub
  if load s m a ≠ 0 then
    (if alignDown a (2 ^ s.logRegion) ≥ startAddr then some (alignDown a (2 ^ s.logRegion)) else none) else
  let endAddr := a
  let sma := metaAddr s startAddr
  let sms := lshift s startAddr
  let ema := metaAddr s endAddr
  let ems := lshift s endAddr
  let one : BBR → FindRes
    | .bytes st en => findLastInBytes env m st en
    | .bits ad bs be => findLastInBits env m ad bs be
  let res := findVisit s one (breakBitRange sma sms ema ems false)
  (res.map fun x => alignDown x (2 ^ s.logRegion)).filter fun x => decide (x ≥ startAddr) && decide (x < endAddr)


/-- (the pinned tree's version, before the `fix:` commit: the quick check ignored the search limit)
 `find_prev_non_zero_value_fast` -/
def findPrevFastOld (env : MapEnv) (s : Spec) (m : Mem) (a limit : Nat) : Option Nat :=
  if !env.mapped a then none else
  if load s m a ≠ 0 then some (alignDown a (2 ^ s.logRegion)) else
  let startAddr := (a - limit) + 1          -- saturating_sub
  let endAddr := a
  let sma := metaAddr s startAddr
  let sms := lshift s startAddr
  let ema := metaAddr s endAddr
  let ems := lshift s endAddr
  let one : BBR → FindRes
    | .bytes st en => findLastInBytes env m st en
    | .bits ad bs be => findLastInBits env m ad bs be
  let res := findVisit s one (breakBitRange sma sms ema ems false)
  (res.map fun x => alignDown x (2 ^ s.logRegion)).filter fun x => decide (x ≥ startAddr) && decide (x < endAddr)

/-- loop of `find_prev_non_zero_value_simple`; state `(cursor, mapped_grain)`. `cursor -= region`
underflows (debug panic) only below address `region`, which no search reaches. -/
def findPrevSimpleLoop (env : MapEnv) (s : Spec) (m : Mem) (endAddr : Nat) : Nat → Nat → Nat → Option Nat
  | 0, _, _ => none
  | fuel + 1, cursor, grain =>
    if ¬ (cursor ≥ endAddr) then none else
    let chk : Option Nat :=
      if cursor < grain then (if env.mapped cursor then some (alignDown cursor env.gran) else none) else some grain
    match chk with
    | none => none
    | some grain =>
      if load s m cursor ≠ 0 then some cursor
      else if cursor < 2 ^ s.logRegion then none
      else findPrevSimpleLoop env s m endAddr fuel (cursor - 2 ^ s.logRegion) grain

/-- `find_prev_non_zero_value_simple` -/
def findPrevSimple (env : MapEnv) (s : Spec) (m : Mem) (a limit : Nat) : Option Nat :=
  let startAddr := alignDown a (2 ^ s.logRegion)
  let endAddr := (a - limit) + 1
  findPrevSimpleLoop env s m endAddr (limit / 2 ^ s.logRegion + 2) startAddr (2 ^ 64 - 1)

/-- `find_next_non_zero_value_fast` -/
def findNextFast (env : MapEnv) (s : Spec) (m : Mem) (a limit : Nat) : Option Nat :=
  if !env.mapped a then none else
  if load s m a ≠ 0 then some (alignDown a (2 ^ s.logRegion)) else
  let startAddr := alignDown a (2 ^ s.logRegion)
  let endAddr := alignUp (a + limit) (2 ^ s.logRegion)
  let sma := metaAddr s startAddr
  let sms := lshift s startAddr
  let ema := metaAddr s endAddr
  let ems := lshift s endAddr
  let one : BBR → FindRes
    | .bytes st en => findFirstInBytes env m st en
    | .bits ad bs be => findFirstInBits env m ad bs be
  let res := findVisit s one (breakBitRange sma sms ema ems true)
  (res.map fun x => alignDown x (2 ^ s.logRegion)).filter fun x => decide (x ≥ startAddr) && decide (x < endAddr)

/-- loop of `find_next_non_zero_value_simple`. -/
def findNextSimpleLoop (env : MapEnv) (s : Spec) (m : Mem) (endAddr : Nat) : Nat → Nat → Nat → Option Nat
  | 0, _, _ => none
  | fuel + 1, cursor, grain =>
    if ¬ (cursor < endAddr) then none else
    let chk : Option Nat :=
      if cursor > grain then (if env.mapped cursor then some (alignUp cursor env.gran - 1) else none) else some grain
    match chk with
    | none => none
    | some grain =>
      if load s m cursor ≠ 0 then some cursor
      else findNextSimpleLoop env s m endAddr fuel (cursor + 2 ^ s.logRegion) grain

/-- `find_next_non_zero_value_simple` -/
def findNextSimple (env : MapEnv) (s : Spec) (m : Mem) (a limit : Nat) : Option Nat :=
  let startAddr := alignDown a (2 ^ s.logRegion)
  let endAddr := a + limit
  findNextSimpleLoop env s m endAddr (limit / 2 ^ s.logRegion + 2) startAddr 0

/-- result of a public search: `none` = debug assertion (fast ≠ naive, or `limit = 0`). -/
def findPrev (debug : Bool) (env : MapEnv) (s : Spec) (m : Mem) (a limit : Nat) : Option (Option Nat) :=
  if debug && limit == 0 then none else
  let r := findPrevFast env s m a limit
  if debug && r != findPrevSimple env s m a limit then none else some r

def findNext (debug : Bool) (env : MapEnv) (s : Spec) (m : Mem) (a limit : Nat) : Option (Option Nat) :=
  if debug && limit == 0 then none else
  let r := findNextFast env s m a limit
  if debug && r != findNextSimple env s m a limit then none else some r

/-! ## scan -/

/-- `scan_non_zero_bits_in_metadata_word`: `(meta_addr, bit)` for every set bit, ascending
(`trailing_zeros`, then `word & (word - 1)`). -/
def scanWord (metaAddr : Nat) : Nat → Nat → List (Nat × Nat)
  | 0, _ => []
  | fuel + 1, word => if word = 0 then [] else (metaAddr, ctz word) :: scanWord metaAddr fuel (word &&& (word - 1))

/-- first loop of `scan_non_zero_bits_in_metadata_bytes`: bytes up to the first word boundary. -/
def scanHead (m : Mem) (metaEnd : Nat) : Nat → Nat → List (Nat × Nat) × Nat
  | 0, cursor => ([], cursor)
  | fuel + 1, cursor =>
    if cursor < metaEnd ∧ cursor % 8 ≠ 0 then
      let (l, c) := scanHead m metaEnd fuel (cursor + 1)
      (scanWord cursor 8 (m cursor) ++ l, c)
    else ([], cursor)

/-- second loop: whole words while `cursor + 8 < meta_end`. -/
def scanWords (m : Mem) (metaEnd : Nat) : Nat → Nat → List (Nat × Nat) × Nat
  | 0, cursor => ([], cursor)
  | fuel + 1, cursor =>
    if cursor + 8 < metaEnd then
      let (l, c) := scanWords m metaEnd fuel (cursor + 8)
      (scanWord cursor 64 (readLE m cursor 8) ++ l, c)
    else ([], cursor)

/-- third loop: the remaining bytes. -/
def scanTail (m : Mem) (metaEnd : Nat) : Nat → Nat → List (Nat × Nat)
  | 0, _ => []
  | fuel + 1, cursor =>
    if cursor < metaEnd then scanWord cursor 8 (m cursor) ++ scanTail m metaEnd fuel (cursor + 1) else []

/-- `helpers.rs::scan_non_zero_bits_in_metadata_bytes` -/
def scanBytes (m : Mem) (metaStart metaEnd : Nat) : List (Nat × Nat) :=
  let (l1, c1) := scanHead m metaEnd 8 metaStart
  let (l2, c2) := scanWords m metaEnd ((metaEnd - metaStart) / 8 + 1) c1
  l1 ++ l2 ++ scanTail m metaEnd 9 c2

/-- `helpers.rs::scan_non_zero_bits_in_metadata_bits` -/
def scanBits (m : Mem) (addr bs be : Nat) : List (Nat × Nat) :=
  ((List.range (be - bs)).map (· + bs)).filterMap fun bit =>
    if (m addr &&& ((1 <<< bit) % 256)) ≠ 0 then some (addr, bit) else none

/-- `scan_non_zero_values_fast` (1 bit per region): the visited data addresses, in order. -/
def scanFast (s : Spec) (m : Mem) (dStart dEnd : Nat) : List Nat :=
  let ranges := breakBitRange (metaAddr s dStart) (lshift s dStart) (metaAddr s dEnd) (lshift s dEnd) true
  ranges.flatMap fun r =>
    (match r with
     | .bytes st en => scanBytes m st en
     | .bits ad bs be => scanBits m ad bs be).map fun (ad, bit) => metaToData s ad bit

/-- loop of `scan_non_zero_values_simple`; `none` = its `debug_assert!(cursor.is_mapped())`. -/
def scanSimpleLoop (debug : Bool) (env : MapEnv) (s : Spec) (m : Mem) (dEnd : Nat) : Nat → Nat → Option (List Nat)
  | 0, _ => some []
  | fuel + 1, cursor =>
    if ¬ (cursor < dEnd) then some [] else
    if debug && !env.mapped cursor then none else
    match scanSimpleLoop debug env s m dEnd fuel (cursor + 2 ^ s.logRegion) with
    | none => none
    | some l => some (if load s m cursor ≠ 0 then cursor :: l else l)

/-- `scan_non_zero_values_simple` -/
def scanSimple (debug : Bool) (env : MapEnv) (s : Spec) (m : Mem) (dStart dEnd : Nat) : Option (List Nat) :=
  scanSimpleLoop debug env s m dEnd ((dEnd - dStart) / 2 ^ s.logRegion + 2) dStart

/-- `scan_non_zero_values` -/
def scan (debug : Bool) (env : MapEnv) (s : Spec) (m : Mem) (dStart dEnd : Nat) : Option (List Nat) :=
  if s.logBits = 0 then some (scanFast s m dStart dEnd) else scanSimple debug env s m dStart dEnd

end Mmtk.SideMeta
