/-!
# Model of concurrent marking with a snapshot-at-the-beginning barrier (C12)

Transcribed from `src/plan/concurrent/barrier.rs` (`SATBBarrierSemantics`:
`object_reference_write_slow` = enqueue the *current* value of every field of `src`, then clear the
unlog bit), `src/plan/barriers.rs` (`SATBBarrier::object_reference_write_pre`: slow path iff `src` is
unlogged), `src/plan/concurrent/concurrent_marking_work.rs` (`ConcurrentTraceObjects`: pop, mark,
scan the object's fields one by one — *not* atomically with respect to mutators — and push the
referents; `ProcessModBufSATB`: the SATB buffers feed the same closure) and
`src/plan/concurrent/immix/global.rs` (InitialMark: roots are pushed, all unlog bits set; objects
allocated during marking are allocated live).

An interleaving transition system.  The *snapshot* `S` (the object graph at InitialMark) is a
parameter.  Shared state: the current heap `cur`, `marked`, one multiset `grey` (marker queues ∪
per-mutator SATB buffers — flushing a buffer does not change their union), `logged` (unlog bit
cleared), and ghosts `dirty` (some field of the object has been overwritten since the snapshot),
`scanPos` / `scanned` (progress of the one marker scanning the object).  Threads are naturals.
Every field read, the log-bit check, the log-bit clear, the store, and pop+mark are separate atomic
steps, so a mutator's barrier, its store and a marker's scan of the same object interleave freely.
-/
namespace Mmtk.SATB

/-- The object graph at InitialMark. -/
structure Snap where
  inS : Nat → Bool                  -- allocated when marking started
  nf : Nat → Nat                    -- number of reference fields
  fld : Nat → Nat → Option Nat      -- field values at the snapshot
  roots : List Nat                  -- referents of the roots at the snapshot

structure Shared where
  cur : Nat → Nat → Option Nat
  marked : Nat → Bool
  grey : List Nat
  logged : Nat → Bool
  dirty : Nat → Bool
  scanPos : Nat → Option Nat
  scanned : Nat → Bool

inductive PC
  | idle
  | mCheck (src f : Nat) (v : Option Nat)            -- write barrier: about to test the unlog bit
  | mRead (src f : Nat) (v : Option Nat) (j : Nat)   -- slow path: about to read field j of src
  | mLog (src f : Nat) (v : Option Nat)              -- about to clear the unlog bit
  | mStore (src f : Nat) (v : Option Nat)            -- about to store
  | scanning (x : Nat) (j : Nat)                     -- marker: about to read field j of x
deriving DecidableEq, Repr

inductive Act
  | write (src f : Nat) (v : Option Nat)   -- an idle thread starts `object_reference_write(src.f := v)`
  | pop (i : Nat)                          -- an idle thread pops `grey[i]` (any queue order)
  | step                                   -- the thread's next atomic step
  | allocLive (y : Nat)                    -- an idle thread allocates `y` during marking (born marked)
deriving Repr

def pushOpt (g : List Nat) : Option Nat → List Nat
  | none => g
  | some y => y :: g

def localStep (S : Snap) (a : Act) (sh : Shared) (p : PC) : Shared × PC :=
  match p, a with
  | .idle, .write src f v => (sh, .mCheck src f v)
  | .idle, .pop i =>
    match sh.grey[i]? with
    | none => (sh, .idle)
    | some o =>
      let g := sh.grey.eraseIdx i
      if sh.marked o then ({ sh with grey := g }, .idle)
      else ({ sh with grey := g, marked := fun y => if y = o then true else sh.marked y,
                      scanPos := fun y => if y = o then some 0 else sh.scanPos y }, .scanning o 0)
  | .idle, .allocLive y =>
    if S.inS y then (sh, .idle)
    else ({ sh with marked := fun z => if z = y then true else sh.marked z }, .idle)
  | .mCheck src f v, .step => if sh.logged src then (sh, .mStore src f v) else (sh, .mRead src f v 0)
  | .mRead src f v j, .step =>
    if j < S.nf src then ({ sh with grey := pushOpt sh.grey (sh.cur src j) }, .mRead src f v (j + 1))
    else (sh, .mLog src f v)
  | .mLog src f v, .step => ({ sh with logged := fun y => if y = src then true else sh.logged y }, .mStore src f v)
  | .mStore src f v, .step =>
    ({ sh with cur := fun y k => if y = src ∧ k = f then v else sh.cur y k,
               dirty := fun y => if y = src then true else sh.dirty y }, .idle)
  | .scanning x j, .step =>
    if j < S.nf x then
      ({ sh with grey := pushOpt sh.grey (sh.cur x j),
                 scanPos := fun y => if y = x then some (j + 1) else sh.scanPos y }, .scanning x (j + 1))
    else ({ sh with scanPos := fun y => if y = x then none else sh.scanPos y,
                    scanned := fun y => if y = x then true else sh.scanned y }, .idle)
  | p, _ => (sh, p)

structure State where
  sh : Shared
  pc : Nat → PC

def step (S : Snap) (s : State) (t : Nat) (a : Act) : State :=
  let r := localStep S a s.sh (s.pc t)
  { sh := r.1, pc := fun x => if x = t then r.2 else s.pc x }

/-- InitialMark: the heap is the snapshot, nothing is marked, the roots' referents are grey, every
object is unlogged. -/
def init (S : Snap) : State :=
  { sh := { cur := S.fld, marked := fun _ => false, grey := S.roots, logged := fun _ => false,
            dirty := fun _ => false, scanPos := fun _ => none, scanned := fun _ => false },
    pc := fun _ => .idle }

def exec (S : Snap) (s : State) : List (Nat × Act) → State
  | [] => s
  | (t, a) :: rest => exec S (step S s t a) rest

end Mmtk.SATB
