/-!
# Model of `Map32` (C29): discontiguous chunk allocation

Transcribed from `src/util/heap/layout/map32.rs` (`allocate_contiguous_chunks`,
`free_contiguous_chunks_no_lock`, `free_all_chunks`, `get_next_contiguous_region`,
`get_contiguous_region_chunks`, `finalize_static_space_map`).

The region map is the generic free list of `src/util/freelist.rs`, modelled at the level of *runs*:
the partition of the units into runs `(start, size, free)` plus the order of the free runs in the
circular doubly-linked free list (`add_to_free` inserts at the head, `alloc` is first-fit along that
order, `__split` keeps the front part and puts the remainder at the head, `free` coalesces with a
free left / right neighbour and puts the result at the head). All units of the region map are
coalescable. The bit-level table is another package's property (C26); this file transcribes the
run-level behaviour, which the differential validates through the addresses `Map32` hands out.
This file imports nothing.
-/
namespace Mmtk.Map32

structure Run where
  start : Nat
  size : Nat
  free : Bool
deriving Repr, DecidableEq

/-- The region map at run level. `order` = starts of the free runs from the list head. -/
structure FL where
  runs : List Run
  order : List Nat
deriving Repr

def FL.find (fl : FL) (u : Nat) : Option Run := fl.runs.find? (·.start == u)
/-- The run ending just before `u` (`get_left`). -/
def FL.leftOf (fl : FL) (u : Nat) : Option Run := fl.runs.find? (fun r => r.start + r.size == u)
def FL.sizeOf (fl : FL) (u : Nat) : Nat := match fl.find u with | some r => r.size | none => 1
def FL.isFree (fl : FL) (u : Nat) : Bool := match fl.find u with | some r => r.free | none => false
def FL.replace (fl : FL) (u : Nat) (rs : List Run) : List Run :=
  fl.runs.flatMap (fun r => if r.start == u then rs else [r])

/-- `alloc(size)`: first fit along the free-list order; `none` = FAILURE (-1). -/
def FL.alloc (fl : FL) (n : Nat) : Option Nat × FL :=
  match fl.order.find? (fun u => fl.sizeOf u ≥ n) with
  | none => (none, fl)
  | some u =>
    let s := fl.sizeOf u
    if s > n then
      -- `__split`: the remainder goes to the head of the free list; then `__remove_from_free(unit)`
      (some u, { runs := fl.replace u [⟨u, n, false⟩, ⟨u + n, s - n, true⟩],
                 order := (u + n) :: fl.order.filter (· != u) })
    else
      (some u, { runs := fl.replace u [⟨u, s, false⟩], order := fl.order.filter (· != u) })

/-- `free(unit, false)` for a run start `u` that is allocated: returns the size of the freed run. -/
def FL.freeRun (fl : FL) (u : Nat) : Nat × FL :=
  let s := fl.sizeOf u
  let startR : Run := match fl.leftOf u with
    | some l => if l.free then l else ⟨u, s, false⟩
    | none => ⟨u, s, false⟩
  let endSize : Nat := match fl.find (u + s) with
    | some r => if r.free then r.size else 0
    | none => 0
  let newStart := startR.start
  let newSize := (u + s + endSize) - newStart
  let gone : Nat → Bool := fun x => newStart ≤ x && x < newStart + newSize
  (s, { runs := (fl.runs.filter (fun r => !gone r.start)) ++ [⟨newStart, newSize, true⟩],
        order := newStart :: fl.order.filter (fun x => !gone x) })

/-- `Map32Inner` (the parts C29 speaks about). -/
structure St where
  fl : FL
  next : Nat → Nat := fun _ => 0
  prev : Nat → Nat := fun _ => 0
  desc : Nat → Nat := fun _ => 0
  avail : Nat := 0
  /-- The process-global chunk-granular SFT map (`policy::sft_map::SFTSparseChunkMap`, the SFT map of
  every non-contiguous layout): chunk index ↦ the space whose SFT is stored there, named by its
  descriptor; `0` = `EMPTY_SPACE_SFT`. It is not a field of `Map32Inner`; it is carried here because
  `free_contiguous_chunks_no_lock` writes it (`SFT_MAP.clear(chunk_start)`). -/
  sft : Nat → Nat := fun _ => 0

def upd (f : Nat → Nat) (k v : Nat) : Nat → Nat := fun x => if x = k then v else f x

/-- `finalize_static_space_map(from, to)` at run level, by the code's own sequence of free-list
calls: block out the bottom, allocate every chunk of the range and the trailing part, then free
the chunks of the range one by one (they coalesce into one free run). -/
def finalize (maxChunks first last : Nat) : St :=
  let fl0 : FL := { runs := [⟨0, maxChunks, true⟩], order := [0] }
  let fl1 := (fl0.alloc first).2
  let fl2 := (List.range (last + 1 - first)).foldl (fun fl _ => (fl.alloc 1).2) fl1
  let fl3 := (fl2.alloc (maxChunks - (last + 1))).2
  let fl4 := (List.range' first (last + 1 - first)).foldl (fun fl c => (fl.freeRun c).2) fl3
  { fl := fl4, avail := last + 1 - first }

inductive R | val (n : Nat) | panicAssert | panicOther
deriving Repr, DecidableEq

/-- `allocate_contiguous_chunks(descriptor, chunks, head)`; addresses are chunk indices, 0 = zero
address. -/
def allocate (debug : Bool) (st : St) (d chunks head : Nat) : St × R :=
  match st.fl.alloc chunks with
  | (none, _) => (st, .val 0)
  | (some chunk, fl) =>
    if debug && chunk == 0 then (st, .panicAssert) else
    let st := { st with fl := fl, avail := st.avail - chunks }
    -- `insert`: asserts (also in release) that every descriptor of the range is empty
    if (List.range' chunk chunks).any (fun c => st.desc c != 0) then
      ({ st with desc := fun c => if chunk ≤ c ∧ c < chunk + chunks ∧
            (List.range' chunk (c - chunk)).all (fun x => st.desc x == 0) ∧ st.desc c == 0 then d else st.desc c },
       .panicOther)
    else
    let st := { st with desc := fun c => if chunk ≤ c ∧ c < chunk + chunks then d else st.desc c }
    if head == 0 then
      if debug && st.next chunk != 0 then (st, .panicAssert)
      else if debug && st.prev chunk != 0 then (st, .panicAssert) else (st, .val chunk)
    else
      let st := { st with next := upd st.next chunk head, prev := upd st.prev head chunk }
      if debug && st.prev chunk != 0 then (st, .panicAssert) else (st, .val chunk)

/-- `free_contiguous_chunks_no_lock(chunk)`; `none` = `debug_assert!(!get_free(unit))` for a chunk
that starts a free run (the harness only frees run starts). -/
def freeNoLock (debug : Bool) (st : St) (chunk : Nat) : Option (St × Nat) :=
  if debug && st.fl.isFree chunk then none else
  let (chunks, fl) := st.fl.freeRun chunk
  let next := st.next chunk
  let prev := st.prev chunk
  let prevL := if next != 0 then upd st.prev next prev else st.prev
  let nextL := if prev != 0 then upd st.next prev next else st.next
  some ({ st with fl := fl, avail := st.avail + chunks,
                  prev := upd prevL chunk 0, next := upd nextL chunk 0,
                  desc := fun c => if chunk ≤ c ∧ c < chunk + chunks then 0 else st.desc c,
                  -- `SFT_MAP.clear(chunk_start)` inside the same per-chunk loop
                  sft := fun c => if chunk ≤ c ∧ c < chunk + chunks then 0 else st.sft c }, chunks)

/-- `free_all_chunks(any_chunk)`; `fuel` bounds the two `while` loops. -/
def freeAllLoop (debug : Bool) (sel : St → Nat → Nat) : Nat → St → Nat → Option St
  | 0, st, _ => some st
  | fuel + 1, st, chunk =>
    if sel st chunk != 0 then
      match freeNoLock debug st (sel st chunk) with
      | none => none
      | some (st', _) => freeAllLoop debug sel fuel st' chunk
    else some st

def freeAll (debug : Bool) (st : St) (chunk : Nat) (fuel : Nat := 4096) : Option St :=
  if chunk == 0 then some st else
  match freeAllLoop debug (fun s c => s.next c) fuel st chunk with
  | none => none
  | some st1 =>
    match freeAllLoop debug (fun s c => s.prev c) fuel st1 chunk with
    | none => none
    | some st2 => (freeNoLock debug st2 chunk).map (·.1)

/-- `get_next_contiguous_region(start)`. -/
def nextRegion (st : St) (chunk : Nat) : Nat :=
  if chunk == 0 || st.next chunk == 0 then 0 else st.next chunk

/-- `get_contiguous_region_chunks(start)` for a run start. -/
def regionChunks (st : St) (chunk : Nat) : Nat := st.fl.sizeOf chunk

/-! ## The SFT write of `Space::grow_space`

`Space::acquire` → `pr.get_new_pages` (→ `grow_discontiguous_space` → `allocate_contiguous_chunks`) →
`grow_space(start, bytes, new_chunk = true)` → `SFT_MAP.update(space, start, bytes)`
(`src/policy/space.rs`, `src/policy/sft_map.rs` `SFTSparseChunkMap::update` / `set`). -/

/-- `SFTSparseChunkMap::update(space, start, bytes)` for a chunk-aligned `start` and `bytes` = `chunks`
whole chunks: `set(chunk, space)` for `chunk in first..last`. The space is named by its descriptor
`d ≠ 0`. `set` carries `debug_assert!(old == EMPTY || new == EMPTY || old == new)`: the result is
`false` when it fires (the chunks before the offending one have been written). -/
def sftUpdate (debug : Bool) (st : St) (d start chunks : Nat) : St × Bool :=
  match (if debug then (List.range' start chunks).find? (fun c => st.sft c != 0 && st.sft c != d) else none) with
  | some b => ({ st with sft := fun c => if start ≤ c ∧ c < b then d else st.sft c }, false)
  | none => ({ st with sft := fun c => if start ≤ c ∧ c < start + chunks then d else st.sft c }, true)

/-- `SFTSparseChunkMap::get_checked(addr)` at chunk granularity: `has_sft_entry` =
`chunk_index < max_chunks`; `0` = `EMPTY_SPACE_SFT`. -/
def sftGet (st : St) (maxChunks chunk : Nat) : Nat := if chunk < maxChunks then st.sft chunk else 0

/-! ## The page-resource layer (`src/util/heap/pageresource.rs`, `CommonPageResource`)

Every discontiguous space has a `CommonPageResource` with its own `head_discontiguous_region`; all of
them share the VM map. `heads sp` = that variable of space `sp` as a chunk index (`0` = `Address::ZERO`). -/

structure PR where
  st : St
  heads : Nat → Nat := fun _ => 0

/-- `CommonPageResource::grow_discontiguous_space(descriptor, chunks, None)`:
`new_head = vm_map.allocate_contiguous_chunks(descriptor, chunks, *head, None)`; a zero result leaves
the head alone, otherwise `*head = new_head`. -/
def PR.grow (debug : Bool) (p : PR) (sp d chunks : Nat) : PR × R :=
  match allocate debug p.st d chunks (p.heads sp) with
  | (st', .val c) =>
    if c == 0 then ({ p with st := st' }, .val 0)
    else ({ st := st', heads := upd p.heads sp c }, .val c)
  | (st', r) => ({ p with st := st' }, r)

/-- `CommonPageResource::release_discontiguous_chunks(chunk)`: the head is advanced to the released
region's successor FIRST (`if chunk == *head { *head = vm_map.get_next_contiguous_region(chunk) }`),
then `vm_map.free_contiguous_chunks(chunk)` (which zeroes the region's links). `none` = panic. -/
def PR.release (debug : Bool) (p : PR) (sp chunk : Nat) : Option PR :=
  let heads := if chunk == p.heads sp then upd p.heads sp (nextRegion p.st chunk) else p.heads
  match freeNoLock debug p.st chunk with
  | some (st', _) => some { st := st', heads := heads }
  | none => none

/-- `CommonPageResource::release_all_chunks()`: `vm_map.free_all_chunks(*head); *head = ZERO`. -/
def PR.releaseAll (debug : Bool) (p : PR) (sp : Nat) : Option PR :=
  match freeAll debug p.st (p.heads sp) with
  | some st' => some { st := st', heads := upd p.heads sp 0 }
  | none => none

/-- What `Space::acquire` does when its page resource needs a new region: grow, then publish the
region in the SFT map. `(state, result, sft-assertion-ok)`. -/
def PR.growSpace (debug : Bool) (p : PR) (sp d chunks : Nat) : PR × R × Bool :=
  match p.grow debug sp d chunks with
  | (p', .val c) =>
    if c == 0 then (p', .val 0, true)
    else
      let (st', ok) := sftUpdate debug p'.st d c chunks
      ({ p' with st := st' }, .val c, ok)
  | (p', r) => (p', r, true)

end Mmtk.Map32
