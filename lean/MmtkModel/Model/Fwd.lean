/-!
# Model of the concurrent object-forwarding protocol (C17)

Transcribed from `src/util/object_forwarding.rs` (`attempt_to_forward`, `forward_object`,
`spin_and_get_forwarded_object`, `clear_forwarding_bits`), `policy/copyspace.rs::trace_object` and
`policy/immix/immixspace.rs::trace_object_with_opportunistic_copy`.

An interleaving (sequentially consistent) transition system over ONE object: every atomic access of
the code is one step of one thread (all of them are `SeqCst` in the source).  Threads are indexed by
natural numbers — there is no bound on how many of them take part.  `immix = false` is the CopySpace
protocol; `immix = true` the opportunistic-copy protocol in which the CAS winner may find the object
already marked, or decline to move it (pinned / copy reserve exhausted — the `decline` oracle), mark
it in place, and release the forwarding bits.  `oneStep = true` is the layout where the forwarding
bits live inside the forwarding-pointer word, so pointer and `FORWARDED` are written by one store.
-/
namespace Mmtk.Fwd

/-- forwarding bits values: `00` not triggered, `10` being forwarded, `11` forwarded. -/
def NOT_TRIGGERED : Nat := 0
def BEING_FORWARDED : Nat := 2
def FORWARDED : Nat := 3

/-- The value every tracer returns for "the unmoved object". Copies are `copyId t = 2*t+2`;
`garbage = 1` stands for whatever the forwarding-pointer word held before the winner wrote it. -/
def orig : Nat := 0
def garbage : Nat := 1
def copyId (t : Nat) : Nat := 2 * t + 2

inductive PC
  | start                       -- about to load the forwarding bits (`attempt_to_forward` loop head)
  | cas                         -- loaded `00`, about to CAS `00 → 10`
  | spin                        -- lost: observed `10`, about to re-load (`spin_and_get_forwarded_object`)
  | readPtr                     -- observed `11`, about to read the forwarding pointer
  | won                         -- CAS succeeded
  | decide                      -- Immix winner saw the object unmarked; pinned / exhausted?
  | copied (c : Nat)            -- `ObjectModel::copy` returned `c`; pointer not written yet
  | ptrWritten (c : Nat)        -- two-store layout: pointer written, bits still `10`
  | markPending                 -- Immix winner declines: about to mark in place
  | clearAfterMark              -- marked in place; about to clear the bits, enqueue, return orig
  | clearSeenMarked             -- winner saw it marked; about to clear the bits, return orig
  | done (r : Nat)              -- `trace_object` returned `r`
deriving DecidableEq, Repr

/-- The shared memory of the protocol. -/
structure Shared where
  bits : Nat := NOT_TRIGGERED
  ptr : Nat := garbage
  marked : Bool
  copies : List Nat := []        -- every copy ever made (newest first)
  queue : List Nat := []         -- objects pushed to the scan queue by these tracers
  triggered : Bool := false      -- ghost: some CAS `00 → 10` has succeeded
deriving Repr

/-- One atomic step of thread `t` at program point `p`: new shared memory and new program point.
`decline` is the oracle consulted by an Immix winner. -/
def localStep (immix oneStep : Bool) (t : Nat) (decline : Bool) (sh : Shared) (p : PC) : Shared × PC :=
  match p with
  | .start =>
    if sh.bits = NOT_TRIGGERED then (sh, .cas)
    else if sh.bits = BEING_FORWARDED then (sh, .spin)
    else (sh, .readPtr)
  | .cas =>
    if sh.bits = NOT_TRIGGERED then ({ sh with bits := BEING_FORWARDED, triggered := true }, .won)
    else (sh, .start)
  | .spin =>
    if sh.bits = BEING_FORWARDED then (sh, .spin)
    else if sh.bits = FORWARDED then (sh, .readPtr)
    else (sh, .done orig)
  | .readPtr => (sh, .done sh.ptr)
  | .won =>
    if immix then
      if sh.marked then (sh, .clearSeenMarked) else (sh, .decide)
    else ({ sh with copies := copyId t :: sh.copies }, .copied (copyId t))
  | .decide =>
    if decline then (sh, .markPending)
    else ({ sh with copies := copyId t :: sh.copies }, .copied (copyId t))
  | .copied c =>
    if oneStep then ({ sh with ptr := c, bits := FORWARDED, queue := c :: sh.queue }, .done c)
    else ({ sh with ptr := c }, .ptrWritten c)
  | .ptrWritten c => ({ sh with bits := FORWARDED, queue := c :: sh.queue }, .done c)
  | .markPending => ({ sh with marked := true }, .clearAfterMark)
  | .clearAfterMark => ({ sh with bits := NOT_TRIGGERED, queue := orig :: sh.queue }, .done orig)
  | .clearSeenMarked => ({ sh with bits := NOT_TRIGGERED }, .done orig)
  | .done r => (sh, .done r)

structure State where
  sh : Shared
  pc : Nat → PC := fun _ => .start

/-- One atomic step of thread `t` in the global state. -/
def step (immix oneStep : Bool) (s : State) (t : Nat) (decline : Bool) : State :=
  let r := localStep immix oneStep t decline s.sh (s.pc t)
  { sh := r.1, pc := fun x => if x = t then r.2 else s.pc x }

def init (marked0 : Bool) : State := { sh := { marked := marked0 } }

/-- Run a schedule: a list of (thread, oracle answer). -/
def exec (immix oneStep : Bool) (s : State) : List (Nat × Bool) → State
  | [] => s
  | (t, d) :: rest => exec immix oneStep (step immix oneStep s t d) rest

/-- `SFT::get_forwarded_object` of `CopySpace` (from-space) and of a movable `ImmixSpace`: a reader that
is not a tracer (weak-reference / finalizer processing, the binding) — one atomic load of the
forwarding bits; the pointer is read only when they say `FORWARDED`. -/
def getForwarded (sh : Shared) : Option Nat :=
  if sh.bits = FORWARDED then some sh.ptr else none

/-- The same query testing `is_forwarded_or_being_forwarded` instead (NOT the code: used to show the
difference is observable). -/
def getForwardedEager (sh : Shared) : Option Nat :=
  if sh.bits = FORWARDED ∨ sh.bits = BEING_FORWARDED then some sh.ptr else none

end Mmtk.Fwd
