/-!
# Model of space descriptors (C32) and of the VM layout constants (shared by C29–C32)

Transcribed from `src/util/heap/space_descriptor.rs` and `src/util/heap/layout/vm_layout.rs`.
`usize` is `Nat` with the 64-bit wrap written out (`<<` on `usize` drops the bits that leave the
word; a shift *amount* ≥ 64 cannot occur in these functions, see `getStart32`).
`none` models a `debug_assert!` that fires (debug profile only).
This file imports nothing.
-/
namespace Mmtk.Layout

/-- `VMLayout` (vm_layout.rs). -/
structure VMLayout where
  logAddressSpace : Nat
  heapStart : Nat
  heapEnd : Nat
  logSpaceExtent : Nat
  forceContiguous : Bool
deriving Repr, DecidableEq

/-- `VMLayout::new_64bit()`. -/
def layout64 : VMLayout :=
  { logAddressSpace := 47, heapStart := 0x0000020000000000, heapEnd := 0x0000220000000000,
    logSpaceExtent := 41, forceContiguous := true }

/-- The 32-bit-style ("compressed pointer") layout the harness installs on `cfg layout 32`:
same shape as `VMLayout::new_32bit()` (heap 0x8000_0000..0xd000_0000, discontiguous spaces). -/
def layout32 : VMLayout :=
  { logAddressSpace := 32, heapStart := 0x80000000, heapEnd := 0xd0000000,
    logSpaceExtent := 31, forceContiguous := false }

def logBytesInChunk : Nat := 22
/-- `VMLayout::LOG_ARCH_ADDRESS_SPACE` on a 64-bit target. -/
def logArchAddressSpace : Nat := 47
/-- `VMLayout::log_max_chunks` / `max_chunks`. -/
def logMaxChunks : Nat := logArchAddressSpace - logBytesInChunk
def maxChunks : Nat := 2 ^ logMaxChunks
/-- `LOG_MAX_SPACES` / `MAX_SPACES` (heap_parameters.rs). -/
def logMaxSpaces : Nat := 4
def maxSpaces : Nat := 16

end Mmtk.Layout

namespace Mmtk.Desc
open Mmtk.Layout

/-! ## constants of space_descriptor.rs -/
def typeBits : Nat := 2
def typeContiguous : Nat := 1
def typeContiguousHi : Nat := 3
def typeMask : Nat := 3                   -- (1 << TYPE_BITS) - 1
def sizeShift : Nat := 2
def sizeBits : Nat := 10
def sizeMask : Nat := (2 ^ 10 - 1) <<< 2  -- ((1 << SIZE_BITS) - 1) << SIZE_SHIFT
def exponentShift : Nat := 12
def exponentBits : Nat := 5
def exponentMask : Nat := (2 ^ 5 - 1) <<< 12
def mantissaShift : Nat := 17
def mantissaBits : Nat := 14
def baseExponent : Nat := 18              -- i32::BITS - MANTISSA_BITS
def indexShift : Nat := 2
def discontigIncrement : Nat := 4         -- 1 << TYPE_BITS

/-- `x << s` on `usize` for a shift amount `s < 64`. -/
def shl64 (x s : Nat) : Nat := (x <<< s) % 2 ^ 64

/-- The normalisation loop of `create_descriptor_from_heap_range`:
`while tmp != 0 && (tmp & 1) == 0 { tmp >>= 1; exponent += 1 }`; `fuel` bounds the iterations
(64 suffice for a 64-bit word, `normLoop_fuel` in Props/C32). Returns `(tmp, exponent)`. -/
def normLoop : Nat → Nat → Nat → Nat × Nat
  | 0, tmp, e => (tmp, e)
  | fuel + 1, tmp, e =>
    if tmp != 0 && (tmp &&& 1) == 0 then normLoop fuel (tmp >>> 1) (e + 1) else (tmp, e)

/-- The 32-bit-style branch of `create_descriptor_from_heap_range(start, end)` for `start ≤ end`
(`end - start` on `Address` asserts that in debug). `none` = a `debug_assert!` fires. -/
def create32 (debug : Bool) (heapEnd start end_ : Nat) : Option Nat :=
  let top := end_ == heapEnd
  let chunks := (end_ - start) >>> logBytesInChunk
  if debug && !(start != 0 && chunks > 0 && chunks < 2 ^ sizeBits) then none else
  let r := normLoop 64 (start >>> baseExponent) 0
  let mantissa := r.1
  let exponent := r.2
  -- `tmp << (BASE_EXPONENT + exponent)`: the amount is < 64 because exponent ≤ 46
  if debug && !(shl64 mantissa (baseExponent + exponent) == start) then none else
  some (shl64 mantissa mantissaShift ||| shl64 exponent exponentShift ||| shl64 chunks sizeShift
        ||| (if top then typeContiguousHi else typeContiguous))

/-- The 64-bit branch (`force_use_contiguous_spaces`). -/
def create64 (l : VMLayout) (start end_ : Nat) : Nat :=
  let top := end_ == l.heapEnd
  let spaceIndex := if start > l.heapEnd then 2 ^ 64 - 1 else start >>> l.logSpaceExtent
  shl64 spaceIndex indexShift ||| (if top then typeContiguousHi else typeContiguous)

/-- `SpaceDescriptor::create_descriptor_from_heap_range`. `start > end` is the debug assertion of
`Address - Address`; in release the difference wraps. -/
def createFromHeapRange (l : VMLayout) (debug : Bool) (start end_ : Nat) : Option Nat :=
  if l.forceContiguous then some (create64 l start end_)
  else if start ≤ end_ then create32 debug l.heapEnd start end_
  else if debug then none
  else
    -- release: `end - start` wraps; everything else as in `create32`
    let top := end_ == l.heapEnd
    let chunks := ((end_ + 2 ^ 64 - start) % 2 ^ 64) >>> logBytesInChunk
    let r := normLoop 64 (start >>> baseExponent) 0
    some (shl64 r.1 mantissaShift ||| shl64 r.2 exponentShift ||| shl64 chunks sizeShift
          ||| (if top then typeContiguousHi else typeContiguous))

def isEmpty (d : Nat) : Bool := d == 0
def isContiguous (d : Nat) : Bool := (d &&& typeContiguous) == typeContiguous
def isContiguousHi (d : Nat) : Bool := (d &&& typeMask) == typeContiguousHi

/-- `get_index`: `(d & INDEX_MASK) >> INDEX_SHIFT` with `INDEX_MASK = !TYPE_MASK`. -/
def getIndex (d : Nat) : Nat := (d &&& (2 ^ 64 - 1 - typeMask)) >>> indexShift

/-- `get_start_32` (`none` = `debug_assert!(self.is_contiguous())`). The shift amount is
`18 + exponent ≤ 49`. -/
def getStart32 (debug : Bool) (d : Nat) : Option Nat :=
  if debug && !isContiguous d then none else
  let mantissa := d >>> mantissaShift
  let exponent := (d &&& exponentMask) >>> exponentShift
  some (shl64 mantissa (baseExponent + exponent))

/-- `get_extent_32`. -/
def getExtent32 (debug : Bool) (d : Nat) : Option Nat :=
  if debug && !isContiguous d then none else
  let chunks := (d &&& sizeMask) >>> sizeShift
  some (shl64 chunks logBytesInChunk)

/-- `get_start` (64-bit target). `log_space_extent < 64` by `VMLayout::validate`. -/
def getStart (l : VMLayout) (debug : Bool) (d : Nat) : Option Nat :=
  if !l.forceContiguous then getStart32 debug d
  else some (shl64 (getIndex d) l.logSpaceExtent)

/-- `get_extent` (64-bit target). -/
def getExtent (l : VMLayout) (debug : Bool) (d : Nat) : Option Nat :=
  if !l.forceContiguous then getExtent32 debug d
  else some (2 ^ l.logSpaceExtent)

/-- `create_descriptor()`: `fetch_add(4)` on the global counter (initially 4), wrapping.
State-in/state-out: returns `(descriptor, new counter)`. The `debug_assert!(!is_contiguous)`
can never fire (the counter is always a multiple of 4, `counter_mod4` in Props/C32). -/
def createDiscontiguous (counter : Nat) : Nat × Nat :=
  (counter, (counter + discontigIncrement) % 2 ^ 64)

/-- The descriptors handed out by `n` successive calls starting from counter `c`. -/
def discontigSeq : Nat → Nat → List Nat
  | 0, _ => []
  | n + 1, c => (createDiscontiguous c).1 :: discontigSeq n (createDiscontiguous c).2

/-- `n` calls of `create_descriptor()` from counter `c` as the harness observes them: in a debug
build the call whose descriptor has the contiguous bit set trips `debug_assert!(!ret.is_contiguous())`
(`none`). Only reachable when the counter was forced to an odd value through the verification hook
(`discontig_distinct_noncontiguous` in Props/C32: never from the initial counter). -/
def discontigRun (debug : Bool) (n c : Nat) : Option (List Nat) :=
  let ds := discontigSeq n c
  if debug && ds.any isContiguous then none else some ds

end Mmtk.Desc
