/-!
# Page resources: accounting and grants (C28)

Transcribed from `src/util/heap/{accounting.rs, pageresource.rs, monotonepageresource.rs,
freelistpageresource.rs, blockpageresource.rs}` and `src/policy/space.rs::acquire`.

`Acct` is `PageAccounting` (two atomic counters; every method is one or two atomic steps; a
`debug_assert!`/usize underflow is `none`). `PR` is one page resource shared by several threads:
each `Step` is ONE atomic action of one thread (a counter update, or the grant decided under the
space's `acquire_lock`), so the reachable states are all interleavings.
-/
namespace Mmtk.Pages

/-- `LOG_BYTES_IN_PAGE` -/
def logBytesInPage : Nat := 12
def bytesInPage : Nat := 2 ^ logBytesInPage

/-! ## `PageAccounting` -/

structure Acct where
  reserved : Nat := 0
  committed : Nat := 0
  deriving Repr, DecidableEq

/-- `reserve(pages)`: `reserved.fetch_add` -/
def Acct.reserve (a : Acct) (n : Nat) : Acct := { a with reserved := a.reserved + n }
/-- `clear_reserved(pages)`: `reserved.fetch_sub`, `debug_assert!(prev >= pages)` -/
def Acct.clearReserved (a : Acct) (n : Nat) : Option Acct :=
  if a.reserved ≥ n then some { a with reserved := a.reserved - n } else none
/-- `commit(pages)`: `committed.fetch_add` -/
def Acct.commit (a : Acct) (n : Nat) : Acct := { a with committed := a.committed + n }
/-- first half of `release(pages)`: `reserved.fetch_sub` + assertion -/
def Acct.releaseReserved (a : Acct) (n : Nat) : Option Acct :=
  if a.reserved ≥ n then some { a with reserved := a.reserved - n } else none
/-- second half of `release(pages)`: `committed.fetch_sub` + assertion -/
def Acct.releaseCommitted (a : Acct) (n : Nat) : Option Acct :=
  if a.committed ≥ n then some { a with committed := a.committed - n } else none
/-- `release(pages)` as the driver-level (quiescent) operation -/
def Acct.release (a : Acct) (n : Nat) : Option Acct := (a.releaseReserved n).bind (·.releaseCommitted n)
/-- `reset()` -/
def Acct.reset (_ : Acct) : Acct := {}
/-- `reserve_and_commit(pages)` -/
def Acct.reserveAndCommit (a : Acct) (n : Nat) : Acct := { reserved := a.reserved + n, committed := a.committed + n }

/-- `PageResource::commit_pages(reserved_pages, actual_pages)`: `delta = actual - reserved` (usize:
underflow panics), `reserve(delta)`, `commit(actual)`. -/
def commitPages (a : Acct) (reservedPages actualPages : Nat) : Option Acct :=
  if actualPages ≥ reservedPages then some ((a.reserve (actualPages - reservedPages)).commit actualPages) else none

/-- `MonotonePageResource::reset_cursor(top)` on a contiguous space: the accounting restarts at the
pages below `top`. -/
def resetCursorPages (spaceStart top : Nat) : Nat := (top - spaceStart + (bytesInPage - 1)) >>> logBytesInPage

/-! ## Granted regions -/

/-- a run of pages; `start` is a page index inside the space (address = space start + start·4096) -/
structure Region where
  start : Nat
  pages : Nat
  deriving Repr, DecidableEq

def Region.stop (r : Region) : Nat := r.start + r.pages
def Region.disjoint (r s : Region) : Prop := r.stop ≤ s.start ∨ s.stop ≤ r.start
instance (r s : Region) : Decidable (r.disjoint s) := by unfold Region.disjoint; exact inferInstance
def Region.contains (r : Region) (p : Nat) : Prop := r.start ≤ p ∧ p < r.stop

def pagesSum (l : List Region) : Nat := (l.map (·.pages)).sum

/-- absolute-address form used by the monitor -/
def addrAligned (addr : Nat) : Bool := addr % bytesInPage == 0
def addrInSpace (spStart spExtent addr pages : Nat) : Bool :=
  spStart ≤ addr && addr + pages * bytesInPage ≤ spStart + spExtent
def addrDisjoint (a1 p1 a2 p2 : Nat) : Bool := a1 + p1 * bytesInPage ≤ a2 || a2 + p2 * bytesInPage ≤ a1

/-- `MonotonePageResource::alloc_pages` on a contiguous space, in pages relative to the space start:
`tmp = cursor + bytes; if tmp > sentinel { Err } else { cursor = tmp; Ok(start = old cursor) }`. -/
def monoAlloc (cursor sentinel pages : Nat) : Option (Region × Nat) :=
  let tmp := cursor + pages
  if tmp > sentinel then none else some (⟨cursor, pages⟩, tmp)

/-! ## One page resource, several threads -/

inductive TState where
  | idle
  /-- after `reserve_pages(r)`, before `get_new_pages` / `clear_request` -/
  | holding (r : Nat)
  /-- inside `get_new_pages` holding the space's `acquire_lock` (its data is `PR.inflight`) -/
  | locked
  /-- between the two `fetch_sub`s of `accounting.release(a)` -/
  | releasing (a : Nat)
  deriving Repr, DecidableEq

def TState.R : TState → Nat
  | .holding r => r
  | _ => 0
def TState.C : TState → Nat
  | .releasing a => a
  | _ => 0

/-- the grant in progress under the `acquire_lock`: `phaseB = false`: region chosen, `commit_pages`
not started; `true`: `reserve(delta)` done, `commit(actual)` pending. -/
structure InFlight where
  r : Nat
  reg : Region
  phaseB : Bool
  deriving Repr, DecidableEq

def InFlight.R (f : InFlight) : Nat := if f.phaseB then f.reg.pages else f.r

structure PR where
  acct : Acct := {}
  /-- grants whose accounting is complete -/
  grants : List Region := []
  inflight : Option InFlight := none
  threads : List TState := []
  /-- pages the page resource may hand out (free list / block pool / beyond the monotone cursor) -/
  free : Nat → Bool := fun _ => true
  /-- pages in the space's extent -/
  cap : Nat

/-- all live grants: the one in progress first -/
def PR.live (s : PR) : List Region := (s.inflight.map (·.reg)).toList ++ s.grants

def setFree (free : Nat → Bool) (r : Region) (v : Bool) : Nat → Bool :=
  fun p => if r.start ≤ p ∧ p < r.stop then v else free p

end Mmtk.Pages
