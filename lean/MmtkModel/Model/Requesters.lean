/-!
# Model of the GC-requester protocol (C11, last clause: "a mutator that requested a GC is blocked
until that GC has ended")

The scheduler model (`Model/Sched.lean`) has the request flag (`requestFlag`, action `requestFlag`:
merging a request = setting an already set flag) and the counters `resumes = gcDone`, but no
mutator-side state.  This model is the mutator side: any number of requesters `r < n`, each running

* `MMTK::handle_user_collection_request` (`src/mmtk.rs`):
  `if gc_trigger.handle_user_collection_request(force, exhaustive) { block_for_gc(tls); true } else { false }`
* `GCTrigger::handle_user_collection_request` (`src/util/heap/gc_trigger.rs`): (plan collects, request not
  ignored) `… self.request(); return true;`
* `GCTrigger::request`: `if request_flag.load() { return } if !request_flag.swap(true) { scheduler.request_schedule_collection() }`
  — action `request r`: sets the flag; `sent` = this call set it (= it sent the request to the workers);
* `GCTrigger::clear_request` (called by `GCWorkScheduler::notify_mutators_paused`, i.e. by the GC worker that ran
  `stop_all_mutators`, after the world has stopped) — action `clearFlag`;
* `Collection::block_for_gc` of the binding (`harness/src/rt.rs`): `start = resumes; park; wait until
  resumes != start && !stop_requested` — actions `blockEnter r` / `blockLeave r`;
* `Collection::stop_all_mutators` / `resume_mutators` — actions `stopWorld` (returns when every mutator thread is
  parked: inside `block_for_gc` or not inside an MMTk call) / `resumeWorld` (`gcDone += 1`; in the scheduler
  model `resumes = gcDone`, and `gcDone` only grows: `Mmtk.Sched.sched_gcDone_mono`).

`Cfg.seeded = false` is the CODE: the requester blocks regardless of whether its call set the flag
(`GCTrigger::handle_user_collection_request` returns `true` after `request()`).  `Cfg.seeded = true` is the
seeded regression C11b: `request()` returns `sent`, the trigger returns that value, and the requester skips
`block_for_gc` when its request was merged into a pending one (`skipBlock`).

`Cfg.handshake = true` adds the safepoint contract of `stop_all_mutators`: the world stops only when no
requester is between its `request()` and its `block_for_gc` (a mutator inside an MMTk call is not at a
safepoint), and mutators do not run while the world is stopped.  With `handshake = false` the environment is
only constrained by the monotonicity of `gcDone`.

Ghost data carried by a requester: `d` = `gcDone` and `st` = `gcStarted` (pauses begun) when it made its
request, `rd` = `gcDone` when its call returned.
-/
namespace Mmtk.Req

/-- where requester `r` is inside `MMTK::handle_user_collection_request` -/
inductive Pc
  | idle                                       -- not inside the call
  | requested (d st : Nat) (sent : Bool)       -- `GCTrigger::request` done; before `block_for_gc`
  | blocked (d st start : Nat)                 -- inside `block_for_gc`; `start` = `resumes` at entry
  | returned (d st : Nat) (ret : Bool) (rd : Nat)   -- the call returned `ret` when `gcDone = rd`
deriving DecidableEq, Repr, Inhabited

structure Cfg where
  n : Nat                      -- number of requesters (mutator threads)
  seeded : Bool := false       -- the seeded variant: block only if this call set the flag
  handshake : Bool := true     -- `stop_all_mutators` safepoint contract

structure State where
  flag : Bool                  -- `GCTrigger::request_flag`
  stopped : Bool               -- between the end of `stop_all_mutators` and `resume_mutators`
  gcStarted : Nat              -- pauses begun (ghost)
  gcDone : Nat                 -- pauses completed = `resume_mutators` calls
  pc : Nat → Pc

def init : State := { flag := false, stopped := false, gcStarted := 0, gcDone := 0, pc := fun _ => .idle }

inductive Act
  | request (r : Nat)
  | blockEnter (r : Nat)
  | skipBlock (r : Nat)        -- seeded variant only: the merged request returns `false` without blocking
  | blockLeave (r : Nat)
  | again (r : Nat)            -- the requester may come back with another request
  | pollRequest                -- some other thread's `GCTrigger::poll` → `request()` (allocation)
  | stopWorld
  | clearFlag
  | resumeWorld
deriving DecidableEq, Repr

def setPc (s : State) (r : Nat) (p : Pc) : State := { s with pc := fun x => if x = r then p else s.pc x }

/-- may a mutator take a step? (with the handshake: not while the world is stopped) -/
def mutOk (c : Cfg) (s : State) : Bool := !c.handshake || !s.stopped

def Pc.atSafepoint : Pc → Bool
  | .requested .. => false
  | _ => true

/-- every requester is parked (inside `block_for_gc`) or outside the call -/
def allParked (c : Cfg) (s : State) : Bool := (List.range c.n).all fun r => (s.pc r).atSafepoint

def step (c : Cfg) (s : State) : Act → Option State
  | .request r =>
    match s.pc r with
    | .idle =>
      if r < c.n ∧ mutOk c s = true then
        some { setPc s r (.requested s.gcDone s.gcStarted (!s.flag)) with flag := true }
      else none
    | _ => none
  | .blockEnter r =>
    match s.pc r with
    | .requested d st sent =>
      -- the code: `request(); return true` → always; the seeded variant: `return request()` → only if sent
      if r < c.n ∧ mutOk c s = true ∧ (c.seeded = false ∨ sent = true) then some (setPc s r (.blocked d st s.gcDone))
      else none
    | _ => none
  | .skipBlock r =>
    match s.pc r with
    | .requested d st sent =>
      if r < c.n ∧ mutOk c s = true ∧ c.seeded = true ∧ sent = false then some (setPc s r (.returned d st false s.gcDone))
      else none
    | _ => none
  | .blockLeave r =>
    match s.pc r with
    | .blocked d st start =>
      if r < c.n ∧ start < s.gcDone ∧ s.stopped = false then some (setPc s r (.returned d st true s.gcDone))
      else none
    | _ => none
  | .again r =>
    match s.pc r with
    | .returned .. => if r < c.n ∧ mutOk c s = true then some (setPc s r .idle) else none
    | _ => none
  | .pollRequest => some { s with flag := true }
  | .stopWorld =>
    if s.stopped = false ∧ (c.handshake = false ∨ allParked c s = true) then
      some { s with stopped := true, gcStarted := s.gcStarted + 1 }
    else none
  | .clearFlag => if s.stopped = true then some { s with flag := false } else none
  | .resumeWorld => if s.stopped = true then some { s with stopped := false, gcDone := s.gcDone + 1 } else none

/-- run a schedule; `none` if some action is not enabled -/
def exec (c : Cfg) (s : State) : List Act → Option State
  | [] => some s
  | a :: as => match step c s a with
    | some s' => exec c s' as
    | none => none

def Reachable (c : Cfg) (s : State) : Prop := ∃ run, exec c init run = some s

end Mmtk.Req
