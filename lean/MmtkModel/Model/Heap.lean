/-!
# Shadow heap of the whole-collector monitors (C01–C13)   — import-free

The object graph a mutator program builds through the `hx_gc` protocol (harness/HX_GC.md), as the
monitor `Driver/GCMon` replays it. Nothing here is transcribed from mmtk-core: this is the
*specification side* — what the VM (the mutator program) believes its heap looks like. The real heap
(walked by `hx_gc snap` through real memory after real collections) is compared against it.

* ids are dense: the object with id `i` is `objs[i]` (the generator allocates ids 0,1,2,…; `applyOp`
  rejects an `alloc` with any other id);
* a reference object (`isRef`, set by `mkref`) does not trace its field 0 (the weak referent);
* root slots: key `m*64 + slot` for mutator `m < 64`, `slot < 64`; key `4096 + k` for VM root `k`.
  `roots` is sorted by key, at most one entry per key, only non-null slots are stored.
-/
namespace Mmtk.Heap

abbrev Id := Nat

/-- `AllocationSemantics` (src/plan/mutator_context.rs). -/
inductive Sem where
  | default | immortal | los | code | readOnly | largeCode | nonMoving
  deriving DecidableEq, Repr, Inhabited

structure Obj where
  id : Id
  size : Nat
  sem : Sem
  nfields : Nat
  fields : List (Option Id)
  isRef : Bool := false
  pinned : Bool := false
  deriving Repr, Inhabited, DecidableEq

structure Heap where
  objs : Array Obj := #[]
  /-- (slot key, id) sorted by key, one entry per key -/
  roots : List (Nat × Id) := []
  deriving Repr, Inhabited

def mutKey (m slot : Nat) : Nat := m * 64 + slot
def vmKey (k : Nat) : Nat := 4096 + k

def Heap.rootIds (h : Heap) : List Id := h.roots.map (·.2)

/-- Strong out-edges of an object: every non-null field, except field 0 of a reference object. -/
def children (o : Obj) : List Id :=
  (if o.isRef then o.fields.drop 1 else o.fields).filterMap id

def Heap.childrenOf (h : Heap) (i : Id) : List Id :=
  match h.objs[i]? with
  | some o => children o
  | none => []

/-! ## Reachability: the relation and the executable closure -/

/-- The inductive reachability relation from a list of root ids (only allocated ids count). -/
inductive ReachableFrom (h : Heap) (roots : List Id) : Id → Prop where
  | root {i} : i ∈ roots → i < h.objs.size → ReachableFrom h roots i
  | step {i j} : ReachableFrom h roots i → j ∈ h.childrenOf i → j < h.objs.size → ReachableFrom h roots j

/-- Reachable from the root table of the heap. -/
abbrev Reachable (h : Heap) (i : Id) : Prop := ReachableFrom h h.rootIds i

/-- Drop the already visited (or out-of-range) prefix of the worklist. -/
def skipVisited (v : Array Bool) : List Id → List Id
  | [] => []
  | i :: rest => if v.getD i true then skipVisited v rest else i :: rest

/-- Worklist closure. Each unit of fuel marks one new object. -/
def reachAux (h : Heap) : Nat → List Id → Array Bool → Array Bool
  | 0, _, v => v
  | fuel + 1, work, v =>
    match skipVisited v work with
    | [] => v
    | i :: rest => reachAux h fuel (h.childrenOf i ++ rest) (v.setIfInBounds i true)

/-- The marked set of the closure from `roots` (an id list), fuel = number of objects + 1. -/
def reachFrom (h : Heap) (roots : List Id) : Array Bool :=
  reachAux h (h.objs.size + 1) roots (Array.replicate h.objs.size false)

def reach (h : Heap) : Array Bool := reachFrom h h.rootIds

def Heap.isReachable (h : Heap) (i : Id) : Bool := (reach h).getD i false

/-! ## Mutator operations -/

inductive Op where
  /-- `alloc m id nfields … sem slot` answered with an address: new object, stored in root `key` -/
  | alloc (key : Nat) (id : Id) (nfields size : Nat) (sem : Sem)
  /-- `alloc …` answered `null`: the id is consumed (ids stay dense) by an unreferenced tombstone -/
  | allocFail (id : Id)
  /-- `root m slot id|null`, `vmroot k id|null` -/
  | root (key : Nat) (v : Option Id)
  /-- `write m src f dst|null` -/
  | write (src : Id) (f : Nat) (v : Option Id)
  /-- `copyrange m src sf dst df n` (memmove of `n` slots) -/
  | copyrange (src sf dst df n : Nat)
  /-- `destroy m`: clears the 64 root slots of mutator `m` -/
  | destroy (m : Nat)
  | mkref (id : Id)
  | pin (id : Id) (on : Bool)
  deriving Repr, DecidableEq

/-- Ordered insert / replace / delete in the root table. -/
def setRoot : List (Nat × Id) → Nat → Option Id → List (Nat × Id)
  | [], k, some v => [(k, v)]
  | [], _, none => []
  | (k', v') :: rest, k, v =>
    if k' < k then (k', v') :: setRoot rest k v
    else if k' = k then (match v with | some x => (k, x) :: rest | none => rest)
    else (match v with | some x => (k, x) :: (k', v') :: rest | none => (k', v') :: rest)

def Heap.knows (h : Heap) : Option Id → Bool
  | none => true
  | some i => i < h.objs.size

def Heap.modifyObj (h : Heap) (i : Id) (f : Obj → Obj) : Heap :=
  { h with objs := h.objs.modify i f }

/-- `none` = the op is ill-formed for this heap (unknown id, field out of range, non-dense id). -/
def applyOp (h : Heap) : Op → Option Heap
  | .alloc key id nf size sem =>
    if id = h.objs.size then
      some { objs := h.objs.push { id, size, sem, nfields := nf, fields := List.replicate nf none },
             roots := setRoot h.roots key (some id) }
    else none
  | .allocFail id =>
    if id = h.objs.size then
      some { h with objs := h.objs.push { id, size := 0, sem := .default, nfields := 0, fields := [] } }
    else none
  | .root key v => if h.knows v then some { h with roots := setRoot h.roots key v } else none
  | .write src f v =>
    match h.objs[src]? with
    | some o => if f < o.nfields ∧ h.knows v then
        some (h.modifyObj src fun o => { o with fields := o.fields.set f v }) else none
    | none => none
  | .copyrange src sf dst df n =>
    match h.objs[src]?, h.objs[dst]? with
    | some s, some d =>
      if sf + n ≤ s.nfields ∧ df + n ≤ d.nfields then
        let vals := (s.fields.drop sf).take n
        some (h.modifyObj dst fun o => { o with fields := o.fields.take df ++ vals ++ o.fields.drop (df + n) })
      else none
    | _, _ => none
  | .destroy m => some { h with roots := h.roots.filter fun kv => !(kv.1 / 64 == m) }
  | .mkref id =>
    match h.objs[id]? with
    | some o => if 0 < o.nfields then some (h.modifyObj id fun o => { o with isRef := true }) else none
    | none => none
  | .pin id on => if id < h.objs.size then some (h.modifyObj id fun o => { o with pinned := on }) else none

/-- Well-formedness: dense ids, field lists of the declared length, every reference allocated. -/
structure WF (h : Heap) : Prop where
  ids : ∀ i (hi : i < h.objs.size), h.objs[i].id = i
  len : ∀ i (hi : i < h.objs.size), h.objs[i].fields.length = h.objs[i].nfields
  fields : ∀ i (hi : i < h.objs.size), ∀ j, some j ∈ h.objs[i].fields → j < h.objs.size
  roots : ∀ kv ∈ h.roots, kv.2 < h.objs.size

/-! ## Interval sets (C02) -/

/-- `[start, start+size)` tagged with the id of the object that occupies it. -/
structure Iv where
  start : Nat
  size : Nat
  id : Id
  deriving Repr, DecidableEq, Inhabited

def Iv.disjoint (a b : Iv) : Prop := a.start + a.size ≤ b.start ∨ b.start + b.size ≤ a.start

instance (a b : Iv) : Decidable (a.disjoint b) := by unfold Iv.disjoint; exact inferInstance

/-- First interval of `l` that `x` intersects. -/
def firstOverlap (x : Iv) : List Iv → Option Iv
  | [] => none
  | y :: rest => if x.start + x.size ≤ y.start ∨ y.start + y.size ≤ x.start then firstOverlap x rest else some y

/-- Adjacent check on a list sorted by `start`. -/
def adjacentOk : List Iv → Bool
  | [] => true
  | [_] => true
  | a :: b :: rest => decide (a.start + a.size ≤ b.start) && adjacentOk (b :: rest)

def ivLe (a b : Iv) : Bool := decide (a.start ≤ b.start)

/-- The snapshot-time check: sort by start address, then every interval ends before the next starts. -/
def noOverlap (l : List Iv) : Bool := adjacentOk (l.mergeSort ivLe)

/-- First adjacent offending pair of a sorted list (diagnostics). -/
def firstAdjacentClash : List Iv → Option (Iv × Iv)
  | [] => none
  | [_] => none
  | a :: b :: rest => if a.start + a.size ≤ b.start then firstAdjacentClash (b :: rest) else some (a, b)

end Mmtk.Heap
