import MmtkModel.Model.CasBit
/-!
# C18 tie: the verdict on a real-thread race of one mark / log / pin helper on ONE object

`outcomeOk P f0 final trues single env`: `trues` threads returned `true`, the field went from `f0`
to `final`; `env` = something else changed the neighbouring bits of the byte concurrently.
`Props/C18.lean` proves (`outcome_sound`) that every finished run of the model satisfies it.
-/
namespace Mmtk.CasBit

def outcomeOk (P : Proto) (f0 final trues : Nat) (env : Bool) : Bool :=
  if P.single then
    if !env && f0 == P.old0 then trues == 1 && final == P.next f0
    else (trues == 0 && final == f0) || (trues == 1 && final == P.next f0)
  else
    if P.isDone f0 then trues == 0 && final == f0 else trues == 1 && final == P.next f0

/-- number of threads among `0..n-1` that returned `true` -/
def trues (n : Nat) (s : State) : Nat :=
  ((List.range n).filter (fun x => decide (s.pc x = .ret true))).length

/-- `unpin_object`: one compare_exchange 1 → 0. -/
def unpinProto : Proto := { isDone := (· == 0), next := fun _ => 0, single := true, old0 := 1 }
/-- LOS `test_and_mark(value)` in a nursery GC (`mask = LOS_BIT_MASK = 0b11`), 2-bit field. -/
def losNurseryProto (value : Nat) : Proto :=
  { isDone := fun v => v % 4 == value, next := fun v => v / 4 * 4 + value, single := false, old0 := 0 }

end Mmtk.CasBit
