import MmtkModel.Model.Arith
import MmtkModel.Model.AllocModel
/-!
# The allocators' address arithmetic, end to end (C03)

`Model/AllocModel.lean` leaves the alignment padding of an allocation as a *parameter* (`pad`).  This
file composes the allocators with the real `align_allocation` / `get_maximum_aligned_size` /
`bytes_to_pages_up` arithmetic of `Model/Arith.lean`, branch for branch, so that C03's clauses
("aligned, inside the granted memory") can be stated about what the code computes.  Core Lean only
(imports two import-free models).  `usize` = `Nat`; checked operators return `panic` where the
debug build panics (`debug = true`) and wrap where the release build wraps.

* `bumpAllocAligned` — `bumpallocator.rs::alloc` (identical: `immix_allocator.rs::alloc` on
  `bump_pointer`, `overflow_alloc` on `large_bump_pointer`).
* `acquireBlockSize`, `acquireBlock` — `bumpallocator.rs::acquire_block` (non-stress branch) after a
  successful `space.acquire`, THIS tree: `aligned_size = get_maximum_aligned_size(size, align)`,
  `block_size = (aligned_size + BLOCK_MASK) & !BLOCK_MASK`, `set_limit(start, start + block_size)`,
  `self.alloc(size, align, offset)`.  `acquireBlockSizeOld`, `acquireBlockOld` — the same function in
  the pinned tree (`block_size = (size + BLOCK_MASK) & !BLOCK_MASK`, defect `gc:bump-align-leak`).
* `losPages`, `losResult`, `losAllocFull` — `large_object_allocator.rs::alloc_slow_once` + `alloc`.
  `losPagesNoSlack` is the variant a seeded regression used (`bytes_to_pages_up(size)`).
* `cellAllocAligned` — `free_list_allocator.rs::alloc` / `alloc_slow_once` after `block_alloc`:
  `align_allocation(cell, align, offset)`.
-/
namespace Mmtk.AllocArith
open Mmtk.Arith Mmtk.AllocModel

/-- outcome of one pass through a thread-local fast path -/
inductive Outcome where
  /-- a debug assertion / checked operator fired (debug profile only) -/
  | panic
  /-- "Thread local buffer used up, go to alloc slow path" -/
  | slow
  /-- success: the result address and the new bump pointer -/
  | ok (res : Nat) (b : Bump)
deriving DecidableEq, Repr

/-- `BumpAllocator::alloc` (and `ImmixAllocator::alloc` / `overflow_alloc`):
```
let result = align_allocation_no_fill::<VM>(cursor, align, offset);   // known = MIN_ALIGNMENT
let new_cursor = result + size;                                        // Address + usize (checked in debug)
if new_cursor > limit { slow path } else { cursor = new_cursor; result }
``` -/
def bumpAllocAligned (vm : VMConsts) (debug : Bool) (b : Bump) (size align offset : Nat) : Outcome :=
  match alignAllocation vm debug b.cursor align offset vm.minAlign with
  | none => .panic
  | some result =>
    match cadd debug result size with
    | none => .panic
    | some newCursor =>
      if newCursor > b.limit then .slow else .ok result { b with cursor := newCursor }

/-- `LOG_BYTES_IN_PAGE`-derived `BLOCK_SIZE = 8 << 12` of `bumpallocator.rs` -/
def bumpLogBlock : Nat := 15
def bumpBlockSize : Nat := 32768
def bumpBlockMask : Nat := bumpBlockSize - 1

/-- `(size + mask) & !mask` (checked add in debug) -/
def roundUpMask (debug : Bool) (mask size : Nat) : Option Nat :=
  match cadd debug size mask with
  | none => none
  | some s => some (s &&& wnot mask)

/-! ### `acquire_block` — the pinned tree (`…Old`, before the repair of `gc:bump-align-leak`) -/

/-- PINNED TREE: `let block_size = (size + BLOCK_MASK) & (!BLOCK_MASK);` — no alignment slack -/
def acquireBlockSizeOld (debug : Bool) (size : Nat) : Option Nat := roundUpMask debug bumpBlockMask size

/-- PINNED TREE `acquire_block` for a block mask `mask` (generic so that proofs never compute with the
literal): `block_size = (size + mask) & !mask; set_limit(start, start + block_size);
self.alloc(size, align, offset)` -/
def acquireBlockWithOld (vm : VMConsts) (debug : Bool) (mask size align offset start : Nat) : Outcome :=
  match roundUpMask debug mask size with
  | none => .panic
  | some blockSize =>
    match cadd debug start blockSize with
    | none => .panic
    | some lim => bumpAllocAligned vm debug ⟨start, lim⟩ size align offset

/-- PINNED TREE `acquire_block(size, align, offset, stress_test = false)` once `space.acquire` has
returned the non-zero address `start`.  `slow` = the request did not fit the block that was acquired
*for it*: `alloc` calls `alloc_slow` again, which acquires (and abandons) another block — defect
`gc:bump-align-leak`, see `bump_align_leak` in Props/C03Algo.lean. -/
def acquireBlockOld (vm : VMConsts) (debug : Bool) (size align offset start : Nat) : Outcome :=
  acquireBlockWithOld vm debug bumpBlockMask size align offset start

/-! ### `acquire_block` — this tree (repaired) -/

/-- ```
let aligned_size = get_maximum_aligned_size::<VM>(size, align);
let block_size = (aligned_size + mask) & (!mask);
```
`none` = an assertion of `get_maximum_aligned_size` fired or a checked add overflowed (debug). -/
def acquireBlockSizeWith (vm : VMConsts) (debug : Bool) (mask size align : Nat) : Option Nat :=
  match maxAlignedSize vm debug size align vm.minAlign with
  | none => none
  | some alignedSize => roundUpMask debug mask alignedSize

/-- `block_size` of `BumpAllocator::acquire_block` (`mask = BLOCK_MASK`) -/
def acquireBlockSize (vm : VMConsts) (debug : Bool) (size align : Nat) : Option Nat :=
  acquireBlockSizeWith vm debug bumpBlockMask size align

/-- `acquire_block` for a block mask `mask`: the block is sized for the worst-case aligned size;
then `set_limit(start, start + block_size); self.alloc(size, align, offset)` -/
def acquireBlockWith (vm : VMConsts) (debug : Bool) (mask size align offset start : Nat) : Outcome :=
  match acquireBlockSizeWith vm debug mask size align with
  | none => .panic
  | some blockSize =>
    match cadd debug start blockSize with
    | none => .panic
    | some lim => bumpAllocAligned vm debug ⟨start, lim⟩ size align offset

/-- `acquire_block(size, align, offset, stress_test = false)` of THIS tree once `space.acquire` has
returned the non-zero address `start` -/
def acquireBlock (vm : VMConsts) (debug : Bool) (size align offset start : Nat) : Outcome :=
  acquireBlockWith vm debug bumpBlockMask size align offset start

/-- `alloc_slow_once`: `pages = bytes_to_pages_up(get_maximum_aligned_size::<VM>(size, align))` -/
def losPages (vm : VMConsts) (debug : Bool) (size align : Nat) : Option Nat :=
  match maxAlignedSize vm debug size align vm.minAlign with
  | none => none
  | some maxbytes => some (bytesToPagesUp maxbytes)

/-- the seeded regression: no alignment slack, `pages = bytes_to_pages_up(size)` -/
def losPagesNoSlack (size : Nat) : Nat := bytesToPagesUp size

/-- `alloc`: `align_allocation::<VM>(cell, align, offset)` on the non-zero `cell` that
`allocate_pages(pages)` returned -/
def losResult (vm : VMConsts) (debug : Bool) (cell align offset : Nat) : Option Nat :=
  alignAllocation vm debug cell align offset vm.minAlign

/-- the whole call for a successful `allocate_pages` returning `cell`: `(pages, result)` -/
def losAllocFull (vm : VMConsts) (debug : Bool) (size align offset cell : Nat) : Option (Nat × Nat) :=
  match losPages vm debug size align with
  | none => none
  | some pages =>
    match losResult vm debug cell align offset with
    | none => none
    | some res => some (pages, res)

/-- the same call with the seeded page computation -/
def losAllocNoSlack (vm : VMConsts) (debug : Bool) (size align offset cell : Nat) : Option (Nat × Nat) :=
  match losResult vm debug cell align offset with
  | none => none
  | some res => some (losPagesNoSlack size, res)

/-- `FreeListAllocator::alloc`: `let res = align_allocation::<VM>(cell, align, offset)` on the cell
popped by `block_alloc` (`AllocModel.cellAlloc`) -/
def cellAllocAligned (vm : VMConsts) (debug : Bool) (b : CellBlock) (align offset : Nat) :
    Option (Option (Nat × Nat × CellBlock)) :=
  match cellAlloc b with
  | none => some none
  | some (cell, b') =>
    match alignAllocation vm debug cell align offset vm.minAlign with
    | none => none
    | some res => some (some (cell, res, b'))

end Mmtk.AllocArith
