/-!
# Model of the tracing closure (C01 / C04) — every schedule of slot processing

Transcribed from

* `src/plan/tracing/gc_work/closure.rs`
  `ProcessSlots::process_slots` : for each slot of the packet: `slot.load()`; `None` → nothing;
  `Some(object)` → `new_object = trace.trace_object(worker, object, &mut queue)`;
  `if may_move_objects() && new_object != object { slot.store(new_object) }`;
  `ProcessSlots::flush` / `ProcessNodes::try_enqueue_slots` : every object that `trace_object`
  *enqueued* (i.e. the ones it visited first) is scanned (`Scanning::scan_object`) and each of its
  reference slots is put into a new `ProcessSlots` packet.
* `src/scheduler/gc_work.rs` `ScanMutatorRoots` / `ScanVMSpecificRoots` → `RootsWorkFactory::
  create_process_roots_work(slots)` : the initial packets hold the root slots.
* `trace_object` of the policies, which all have the shape
  "already visited → return the (forwarded) reference, do not enqueue;
   first visit → mark in place **or** copy, enqueue the resulting object, return it":
  `policy/copyspace.rs::trace_object` (always copies: `forward_object`),
  `policy/immix/immixspace.rs::trace_object_with_opportunistic_copy` (copies unless
  `is_pinned(object) || (!nursery_collection && defrag.space_exhausted())`, then marks in place),
  `immixspace.rs::trace_object_without_moving`, `policy/largeobjectspace.rs::trace_object`
  (`test_and_mark`, never moves), `markcompactspace.rs::trace_mark_object`,
  `compressorspace.rs::trace_mark_object`, `immortalspace.rs::trace_object` (mark in place).

The *atomicity* of one `trace_object` under racing GC workers — exactly one of the racing workers
"visits first", all of them return the same reference — is property C17
(`Props/C17.lean`: `one_winner_at_a_time`, `copy_at_most_once`, `agreement`,
`enqueued_exactly_once`).  Given that, a collection is an interleaving of atomic
"process one slot" actions, and which pending slot is taken next (by whichever worker, from whichever
packet) is the **schedule**.  That is the transition system below: ONE action `processSlot i`, where
`i` indexes *any* pending slot.  A run is an arbitrary `List Nat`.

`moves : Id → Bool` is an arbitrary parameter: it stands for policy × pinning × "copy reserve
exhausted" (Immix) — the closure is proved correct for every such oracle.  An object with
`moves r = false` is "marked in place": in the model it still gets a to-space *name* `n` (its
position in visiting order) with `moved = false`; C04's model (`Props/C04Algo.lean`) adds addresses
and shows such an object keeps its address.

The file is import-free and executable.
-/
namespace Mmtk.Trace

abbrev Id := Nat

/-- An object of the snapshot heap: payload summary + reference fields. -/
structure Obj where
  size : Nat
  hash : Nat
  fields : List (Option Id)
deriving DecidableEq, Repr

/-- The heap and the root slots at the moment the mutators were stopped. -/
structure Snap where
  heap : Id → Option Obj
  roots : List (Option Id)

/-- What a to-space field / a root slot holds during the collection: `old r` = a from-space
reference not yet processed, `new n` = the reference `trace_object` returned. -/
inductive Val where
  | null
  | old (r : Id)
  | new (n : Id)
deriving DecidableEq, Repr

/-- A traced object (the copy, or the object marked in place when `moved = false`). -/
structure TObj where
  size : Nat
  hash : Nat
  fields : List Val
  moved : Bool
deriving DecidableEq, Repr

/-- A slot that a `ProcessSlots` packet may hold. -/
inductive Slot where
  | root (k : Nat)
  | field (n : Id) (j : Nat)
deriving DecidableEq, Repr

structure State where
  /-- forwarding table = "marked / forwarded" -/
  fwd : Id → Option Id
  tobjs : Id → Option TObj
  troots : List Val
  /-- all slots sitting in not-yet-executed `ProcessSlots` packets -/
  pending : List Slot
  fresh : Nat

def ofRef : Option Id → Val
  | none => .null
  | some r => .old r

/-- Start of the closure: nothing forwarded, the root slots hold from-space references and are all
pending (`ScanMutatorRoots`). -/
def init (S : Snap) : State where
  fwd := fun _ => none
  tobjs := fun _ => none
  troots := S.roots.map ofRef
  pending := (List.range S.roots.length).map Slot.root
  fresh := 0

/-- `slot.load()` -/
def readSlot (st : State) : Slot → Val
  | .root k => (st.troots[k]?).getD .null
  | .field n j =>
    match st.tobjs n with
    | some t => (t.fields[j]?).getD .null
    | none => .null

def setFields (t : TObj) (j : Nat) (v : Val) : TObj := { t with fields := t.fields.set j v }

/-- `slot.store(new_object)` -/
def writeSlot (st : State) (sl : Slot) (v : Val) : State :=
  match sl with
  | .root k => { st with troots := st.troots.set k v }
  | .field n j =>
    match st.tobjs n with
    | some t => { st with tobjs := fun m => if m = n then some (setFields t j v) else st.tobjs m }
    | none => st

/-- The reference slots of to-object `n` (what `scan_object` reports). -/
def fieldSlots (n : Id) (len : Nat) : List Slot := (List.range len).map (Slot.field n)

/-- First visit of `r` (`forward_object` / mark in place + `queue.enqueue` + scan): name the
to-object `n := fresh`, record the forwarding, copy size / hash / fields (still from-space
references), put all field slots of `n` into pending. -/
def forward (moves : Id → Bool) (st : State) (r : Id) (o : Obj) : State where
  fwd := fun x => if x = r then some st.fresh else st.fwd x
  tobjs := fun m =>
    if m = st.fresh then
      some { size := o.size, hash := o.hash, fields := o.fields.map ofRef, moved := moves r }
    else st.tobjs m
  troots := st.troots
  pending := st.pending ++ fieldSlots st.fresh o.fields.length
  fresh := st.fresh + 1

/-- The object that step `i` visits for the first time (if any). -/
def newlyForwarded (S : Snap) (st : State) (i : Nat) : Option Id :=
  match st.pending[i]? with
  | none => none
  | some sl =>
    match readSlot st sl with
    | .old r =>
      match st.fwd r with
      | some _ => none
      | none => if (S.heap r).isSome then some r else none
    | _ => none

/-- THE action: take the `i`-th pending slot (no such slot: stutter), load it,
`trace_object`, store the result. -/
def processSlot (S : Snap) (moves : Id → Bool) (st : State) (i : Nat) : State :=
  match st.pending[i]? with
  | none => st
  | some sl =>
    let st1 : State := { st with pending := st.pending.eraseIdx i }
    match readSlot st sl with
    | .null => st1                      -- `slot.load() == None`
    | .new _ => st1                     -- already a to-space reference: `trace_object` returns it unchanged
    | .old r =>
      match st.fwd r with
      | some n => writeSlot st1 sl (.new n)       -- already visited: forwarded reference
      | none =>
        match S.heap r with
        | none => st1                   -- dangling reference: excluded by well-formedness
        | some o => writeSlot (forward moves st1 r o) sl (.new st.fresh)

/-- A run = a schedule = which pending slot is processed next, arbitrarily. -/
def exec (S : Snap) (moves : Id → Bool) (st : State) (run : List Nat) : State :=
  run.foldl (processSlot S moves) st

/-- `Σ_{i<n} f i` -/
def sumTo (f : Nat → Nat) : Nat → Nat
  | 0 => 0
  | n + 1 => sumTo f n + f n

/-- Work still owed by object `i`: `nfields + 1` while it is allocated and not yet visited. -/
def owed (S : Snap) (st : State) (i : Id) : Nat :=
  match st.fwd i, S.heap i with
  | none, some o => o.fields.length + 1
  | _, _ => 0

/-- The termination measure (for a heap whose ids are all `< B`). -/
def measure (S : Snap) (B : Nat) (st : State) : Nat :=
  sumTo (owed S st) B + st.pending.length

/-- Number of steps of a run that are not stutters. -/
def effSteps (S : Snap) (moves : Id → Bool) : State → List Nat → Nat
  | _, [] => 0
  | st, i :: rest =>
    (if i < st.pending.length then 1 else 0) + effSteps S moves (processSlot S moves st i) rest

/-- the measure at the start: every allocated object owes `nfields + 1`, plus the root slots -/
def initialWork (S : Snap) (B : Nat) : Nat :=
  sumTo (fun i => match S.heap i with | some o => o.fields.length + 1 | none => 0) B + S.roots.length

/-- A deterministic reference collector for a heap whose ids are `< B` (used by the monitor): the
schedule "always take the first pending slot", run for `initialWork` steps — which drains the work
list (`Props/C01Algo.lean: collect_finished`).  By `trace_schedule_independent` every other schedule
gives the same heap up to the names of the to-objects. -/
def collect (S : Snap) (moves : Id → Bool) (B : Nat) : State :=
  exec S moves (init S) (List.replicate (initialWork S B) 0)

/-! ## The result of a finished closure, as a heap again -/

/-- What a snapshot reference becomes: `null ↦ null`, `some x ↦ new (fwd x)`. -/
def mapRef (fwd : Id → Option Id) : Option Id → Val
  | none => .null
  | some x =>
    match fwd x with
    | some m => .new m
    | none => .old x

/-- the reference a finished slot holds -/
def valRef : Val → Option Id
  | .new m => some m
  | _ => none

/-- The heap after the collection, as a snapshot again (to-objects by name, slots as references). -/
def toSnap (st : State) : Snap where
  heap := fun n => (st.tobjs n).map (fun t => { size := t.size, hash := t.hash, fields := t.fields.map valRef })
  roots := st.troots.map valRef

/-! ## Two-phase collectors (MarkCompact, Compressor)

`markcompactspace.rs`: `trace_mark_object` (closure 1: `test_and_mark`, nothing moves,
`may_move_objects::<TRACE_KIND_MARK>() = false` so no slot is written) →
`calculate_forwarding_pointer` (linear scan over marked objects, assigns the new location `F o`) →
`trace_forward_object` (closure 2 over the same graph: every slot `x ↦ F x`) → `compact`
(every object with a forwarding pointer is copied to `F o`).
`compressor/compressorspace.rs`: `trace_mark_object` → `calculate_offset_vector` (defines `F`) →
`trace_forward_root` (roots `x ↦ F x`) → `compact_region` (for each marked object in scan order:
`copy_to(obj, forward(obj))`, then `update_references`: every slot `x ↦ F x`).

Phase 1 is `exec` with `moves = fun _ => false`; its `fwd` is the mark table.  Phases 2–3 in the
model: enumerate the marked objects by a linear scan of the id space and install the updated copy
at `F r`. -/

def markedBy (st : State) (r : Id) : Bool := (st.fwd r).isSome

def updObj (F : Id → Id) (o : Obj) : Obj := { o with fields := o.fields.map (Option.map F) }

/-- move one marked object to `F r`, with its references updated -/
def compactStep (S : Snap) (F : Id → Id) (T : Id → Option Obj) (r : Id) : Id → Option Obj :=
  match S.heap r with
  | some o => fun a => if a = F r then some (updObj F o) else T a
  | none => T

/-- linear scan of `[0, B)` filtered by the mark table -/
def scanMarked (st : State) (B : Nat) : List Id := (List.range B).filter (markedBy st)

def compact (S : Snap) (F : Id → Id) (st : State) (B : Nat) : Id → Option Obj :=
  (scanMarked st B).foldl (compactStep S F) (fun _ => none)

/-- root slots after `trace_forward_root` / closure 2 -/
def compactRoots (S : Snap) (F : Id → Id) : List (Option Id) := S.roots.map (Option.map F)

/-! ### MarkCompact's forwarding function: the sliding linear scan

`markcompactspace.rs::calculate_forwarding_pointer`: scan the objects of the space in address order;
for each marked one: `to_cursor = align_allocation_no_fill(to_cursor, align, offset)` (the model adds
an arbitrary padding `pad o to_cursor`), the forwarding pointer is `to_cursor` (+ the constant header
reserve), then `to_cursor += copied_size`.  (One contiguous region; the multi-region case restarts the
cursor at the next region start, which only increases it.) -/

/-- an object as the linear scan sees it -/
structure LObj where
  id : Id
  addr : Nat
  size : Nat
deriving DecidableEq, Repr

/-- forwarding address of object `x` (`none`: not marked / not in the space) -/
def slideF (marked : Id → Bool) (pad : LObj → Nat → Nat) : Nat → List LObj → Id → Option Nat
  | _, [], _ => none
  | cur, o :: rest, x =>
    if marked o.id then
      if x = o.id then some (cur + pad o cur)
      else slideF marked pad (cur + pad o cur + o.size) rest x
    else slideF marked pad cur rest x

end Mmtk.Trace
