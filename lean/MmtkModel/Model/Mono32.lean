import MmtkModel.Model.Map32
import MmtkModel.Model.Pages
/-!
# `MonotonePageResource` on a discontiguous space (C28, on top of the `Map32` model of C29)

Transcribed from `src/util/heap/monotonepageresource.rs` (`alloc_pages`, `reset`, `release_pages`,
`new_discontiguous`), `src/util/heap/pageresource.rs` (`reserve_pages`, `get_new_pages`,
`commit_pages`, `clear_request`), `src/policy/space.rs` (`required_chunks`, the protocol of
`Space::acquire`).

A discontiguous monotone space owns a `CommonPageResource` (its own `head_discontiguous_region` =
`PR.heads sp` of the shared `Mmtk.Map32.PR`) and a synchronised triple `cursor / sentinel /
current_chunk`. Units: `cursor` and `sentinel` are PAGE numbers (address `>>> 12`; on this path every
value the code stores there is page aligned: a chunk start plus whole pages), `cc` is a CHUNK index
(address `>>> 22`), `0` = `Address::ZERO`. One chunk = `pagesInChunk` = 2¹⁰ pages.
-/
namespace Mmtk.Map32
open Mmtk.Pages (Acct commitPages)

/-- `PAGES_IN_CHUNK` = `1 << (LOG_BYTES_IN_CHUNK - LOG_BYTES_IN_PAGE)` = `1 << (22 - 12)`. -/
def pagesInChunk : Nat := 1024

/-- `MonotonePageResourceSync` (discontiguous) + the `PageAccounting` of its `CommonPageResource`. -/
structure Mono where
  cursor : Nat := 0
  sentinel : Nat := 0
  cc : Nat := 0
  acct : Acct := {}
deriving Repr, DecidableEq

/-- What one `alloc_pages` / `Space::acquire` round answers. `deadlock`: debug builds call
`log_chunk_fields` — which locks `self.sync` — while `alloc_pages` already holds that (non-reentrant)
mutex, when the cursor is not in `current_chunk` or the chunk after it. -/
inductive AllocR
  | ok (start pages : Nat) (newChunk : Bool)
  | fail
  | panicAssert
  | panicOther
  | panicOverflow
  | deadlock
deriving Repr, DecidableEq

/-- `required_chunks(pages)` = `raw_align_up(pages << 12, 1 << 22) >> 22`. -/
def requiredChunks (pages : Nat) : Nat := (pages + (pagesInChunk - 1)) / pagesInChunk

/-- The tail of `alloc_pages` after the optional growth: `rtn = cursor`,
`debug_assert!(rtn >= cursor && rtn < cursor + bytes)`, `if tmp > sentinel { Err } else { cursor = tmp;
commit_pages(reserved, required); Ok{start: rtn, pages: required, new_chunk} }` (the `contiguous`-only
branch that advances `current_chunk` is not taken). -/
def Mono.finish (debug : Bool) (p : PR) (m : Mono) (reserved required : Nat) (newChunk : Bool) :
    PR × Mono × AllocR :=
  if debug && !(decide (m.cursor < m.cursor + required)) then (p, m, .panicAssert) else
  let tmp := m.cursor + required
  if tmp > m.sentinel then (p, m, .fail)
  else
    match commitPages m.acct reserved required with
    | some a => (p, { m with cursor := tmp, acct := a }, .ok m.cursor required newChunk)
    | none => (p, { m with cursor := tmp }, .panicOverflow)

/-- `MonotonePageResource::alloc_pages(descriptor, reserved, required, tls)` of a discontiguous
resource whose `CommonPageResource` is number `sp` of the shared `PR`.

`special = true` is the code: after a FAILED growth (`grow_discontiguous_space` returned zero) the
sentinel is `cursor + 0`, so that `tmp > sentinel` fails the request. `special = false` is the seeded
variant C28b (`sentinel = cursor + (required_chunks << LOG_BYTES_IN_CHUNK)` unconditionally). -/
def Mono.allocPagesG (special debug : Bool) (p : PR) (m : Mono) (sp d reserved required : Nat) :
    PR × Mono × AllocR :=
  -- `if cfg!(debug_assertions) { if <cond> { self.log_chunk_fields(..) } assert!(..); assert!(..) }`
  if debug && (decide (m.cc * pagesInChunk > m.cursor) ||
      (m.cursor / pagesInChunk != m.cc && m.cursor / pagesInChunk != m.cc + 1)) then (p, m, .deadlock) else
  if debug && !(decide (m.cc * pagesInChunk ≤ m.cursor)) then (p, m, .panicAssert) else
  if debug && !(m.cursor == 0 || m.cursor / pagesInChunk == m.cc || m.cursor / pagesInChunk == m.cc + 1) then
    (p, m, .panicAssert) else
  let tmp := m.cursor + required
  if tmp > m.sentinel then
    -- `!self.common().contiguous && tmp > sync.sentinel`: ask the VM map for more
    let rc := requiredChunks required
    match p.grow debug sp d rc with
    | (p', .val c) =>
      -- `current_chunk = <result>; cursor = current_chunk; sentinel = cursor + if zero {0} else {rc << 22}`
      let m1 : Mono := { m with cc := c, cursor := c * pagesInChunk,
                                sentinel := c * pagesInChunk + (if special && c == 0 then 0 else rc * pagesInChunk) }
      Mono.finish debug p' m1 reserved required true
    | (p', .panicAssert) => (p', m, .panicAssert)
    | (p', .panicOther) => (p', m, .panicOther)
  else Mono.finish debug p m reserved required false

/-- The code. -/
def Mono.allocPages (debug : Bool) (p : PR) (m : Mono) (sp d reserved required : Nat) : PR × Mono × AllocR :=
  Mono.allocPagesG true debug p m sp d reserved required

/-- What `Space::acquire` does with its page resource: `reserve_pages(pages)` (`accounting.reserve`),
`get_new_pages(descriptor, reserved, pages, tls)` = `alloc_pages`, and on failure
`clear_request(reserved)` (`accounting.clear_reserved`, `debug_assert!(prev >= pages)`). -/
def Mono.acquireG (special debug : Bool) (p : PR) (m : Mono) (sp d pages : Nat) : PR × Mono × AllocR :=
  let m0 : Mono := { m with acct := m.acct.reserve pages }
  match Mono.allocPagesG special debug p m0 sp d pages pages with
  | (p', m', .fail) =>
    match m'.acct.clearReserved pages with
    | some a => (p', { m' with acct := a }, .fail)
    | none => (p', m', .panicAssert)
  | r => r

def Mono.acquire (debug : Bool) (p : PR) (m : Mono) (sp d pages : Nat) : PR × Mono × AllocR :=
  Mono.acquireG true debug p m sp d pages

/-- `MonotonePageResource::reset()`: `accounting.reset()`, then `release_pages`: for a discontiguous
resource `if !cursor.is_zero() { <walk the regions: release_pages_extent is a no-op, move_to_next_chunk
only moves cursor / current_chunk, both overwritten next>; current_chunk = sentinel = cursor = ZERO;
common.release_all_chunks() }` — and NOTHING when the cursor is zero. `none` = panic. -/
def Mono.reset (debug : Bool) (p : PR) (m : Mono) (sp : Nat) : Option (PR × Mono) :=
  let m0 : Mono := { m with acct := m.acct.reset }
  if m.cursor != 0 then
    match p.releaseAll debug sp with
    | some p' => some (p', { m0 with cc := 0, sentinel := 0, cursor := 0 })
    | none => none
  else some (p, m0)

end Mmtk.Map32
