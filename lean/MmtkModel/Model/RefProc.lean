/-!
# Model of reference processing and finalization (C06)

Transcribed from `src/util/reference_processor.rs` (`ReferenceProcessor::{add_candidate, retain,
scan → process_reference, enqueue}`) and `src/util/finalizable_processor.rs`
(`FinalizableProcessor::{add, scan, get_ready_object}`); the stages run in the order
Soft → Weak → Final → Phantom (`schedule_common_work`), each after the transitive closure of what
the previous stage retained.  Each stage is one sequential work packet, so the model is sequential.

Objects are identified by ids (forwarding of moved objects is C01's business: ids do not change).
`live : Nat → Bool` is the marked set at the time the stage runs.
-/
namespace Mmtk.RefProc

/-- One weak-reference table (soft, weak or phantom): registered reference-object ids, in order.
`referent` is the heap's referent field of each reference object (none = cleared). -/
structure RefState where
  table : List Nat
  referent : Nat → Option Nat
  enqueued : List Nat                 -- handed to `enqueue_references`, all GCs so far

/-- `process_reference` for every entry of the table (`scan`): returns the new state. -/
def scanRefs (live : Nat → Bool) (s : RefState) : RefState :=
  let step (acc : RefState) (r : Nat) : RefState :=
    if !live r then
      -- dead reference object: clear and drop
      { acc with referent := fun x => if x = r then none else acc.referent x }
    else
      match acc.referent r with
      | none => acc                                   -- cleared by the application: drop silently
      | some o =>
        if live o then { acc with table := acc.table ++ [r] }          -- keep (referent forwarded)
        else { acc with referent := fun x => if x = r then none else acc.referent x,
                        enqueued := acc.enqueued ++ [r] }                -- clear + enqueue, drop
  s.table.foldl step { s with table := [] }

/-- `retain` (soft references when it is not an emergency collection): the referents of live
reference objects that the closure must additionally keep alive. -/
def retainSet (live : Nat → Bool) (s : RefState) : List Nat :=
  s.table.filterMap fun r => if live r then s.referent r else none

/-- The finalizable processor. A registration is `(registration number, object)`; the same object may
be registered several times. -/
structure FinState where
  candidates : List (Nat × Nat)
  ready : List (Nat × Nat)            -- `ready_for_finalize` (the binding pops from the end)
  popped : List (Nat × Nat)           -- ghost: everything `get_ready_object` has returned
  nextReg : Nat := 0

def FinState.add (s : FinState) (obj : Nat) : FinState :=
  { s with candidates := s.candidates ++ [(s.nextReg, obj)], nextReg := s.nextReg + 1 }

/-- `scan` of a full-heap GC: previously ready (unpopped) entries go back among the candidates; live
ones stay candidates; dead ones become ready. -/
def FinState.scan (live : Nat → Bool) (s : FinState) : FinState :=
  let all := s.candidates ++ s.ready
  { s with candidates := all.filter (fun f => live f.2), ready := all.filter (fun f => !live f.2) }

/-- `get_ready_object`. -/
def FinState.pop (s : FinState) : FinState × Option (Nat × Nat) :=
  match s.ready.reverse with
  | [] => (s, none)
  | f :: rest => ({ s with ready := rest.reverse, popped := s.popped ++ [f] }, some f)

inductive FinOp
  | add (obj : Nat)
  | gc (live : Nat → Bool)
  | pop

def FinState.apply (s : FinState) : FinOp → FinState
  | .add o => s.add o
  | .gc live => s.scan live
  | .pop => s.pop.1

end Mmtk.RefProc
