/-!
# Model of `src/util/treadmill.rs` (the large-object treadmill) and of the protocol by which
`src/policy/largeobjectspace.rs` drives it

`TreadMillSync` is four `HashSet<ObjectReference>`; a hash set is modelled as a duplicate-free
list (`sinsert` keeps it duplicate-free, `sremove` removes every occurrence).  Everything is done
under the single mutex `TreadMill::sync`, so any multi-threaded use is a sequence of these
operations.  Objects are opaque (`ObjectReference` is only hashed and compared): `Obj := Nat`.
-/
namespace Mmtk.Treadmill

abbrev Obj := Nat

/-- `HashSet::insert`. -/
def sinsert (s : List Obj) (o : Obj) : List Obj := if o ∈ s then s else o :: s

/-- `HashSet::remove`. -/
def sremove (s : List Obj) (o : Obj) : List Obj := s.filter (fun x => x != o)

/-- `struct TreadMillSync`. -/
structure TM where
  fromSpace : List Obj := []
  toSpace : List Obj := []
  collectNursery : List Obj := []
  allocNursery : List Obj := []
  deriving Repr, DecidableEq

/-- `TreadMill::new`. -/
def TM.new : TM := {}

/-- `TreadMill::add_to_treadmill(object, nursery)`. -/
def addToTreadmill (t : TM) (o : Obj) (nursery : Bool) : TM :=
  if nursery then { t with allocNursery := sinsert t.allocNursery o }
  else { t with toSpace := sinsert t.toSpace o }

/-- `TreadMill::collect_nursery`: `std::mem::take(&mut sync.collect_nursery)`. -/
def collectNursery (t : TM) : List Obj × TM := (t.collectNursery, { t with collectNursery := [] })

/-- `TreadMill::collect_mature`: `std::mem::take(&mut sync.from_space)`. -/
def collectMature (t : TM) : List Obj × TM := (t.fromSpace, { t with fromSpace := [] })

/-- `TreadMill::copy(object, is_in_nursery)`.  `none` = the `debug_assert!` that the source set
contains the object fired (debug builds only; it fires while the mutex is held, which poisons it).
In a release build the `remove` is then a no-op and the object is still inserted into `to_space`. -/
def copy (debug : Bool) (t : TM) (o : Obj) (isInNursery : Bool) : Option TM :=
  if isInNursery then
    if debug && !(t.collectNursery.contains o) then none
    else some { t with collectNursery := sremove t.collectNursery o, toSpace := sinsert t.toSpace o }
  else
    if debug && !(t.fromSpace.contains o) then none
    else some { t with fromSpace := sremove t.fromSpace o, toSpace := sinsert t.toSpace o }

/-- `TreadMill::flip(full_heap)`. -/
def flip (t : TM) (fullHeap : Bool) : TM :=
  let t := { t with allocNursery := t.collectNursery, collectNursery := t.allocNursery }
  if fullHeap then { t with fromSpace := t.toSpace, toSpace := t.fromSpace } else t

/-! ## The LOS protocol

`LargeObjectSpace` calls the treadmill as follows (`largeobjectspace.rs`):
* `initialize_object_metadata` → `add_to_treadmill(object, into_nursery)` for a freshly allocated
  object (fresh pages: the object is in no set).  `into_nursery = !should_allocate_as_live()`;
  allocation during a GC happens only as-live (`release` asserts the allocation nursery stayed
  empty);
* `prepare(full_heap)` → `flip(full_heap)`;
* `trace_object` → `copy(object, nursery_object)` at most once per object and GC (guarded by
  `test_and_mark`), with `nursery_object` = the object's NURSERY bit, i.e. the object is in the
  collection nursery resp. the from-space;
* `release(full_heap)` → `collect_nursery()`, then `collect_mature()` iff `full_heap`.
-/

inductive Phase
  | mutator
  | marking (full : Bool)
  | nurserySwept          -- full GC only: between `collect_nursery` and `collect_mature`
  deriving Repr, DecidableEq

inductive Op
  | add (o : Obj) (nursery : Bool)
  | flip (full : Bool)
  | copy (o : Obj) (inNursery : Bool)
  | collectNursery
  | collectMature
  deriving Repr, DecidableEq

/-- All objects currently in the treadmill (with multiplicity). -/
def allObjs (t : TM) : List Obj := t.fromSpace ++ t.toSpace ++ t.collectNursery ++ t.allocNursery

structure Sys where
  ph : Phase := .mutator
  tm : TM := {}
  deriving Repr, DecidableEq

def Phase.isMarking : Phase → Bool
  | .marking _ => true
  | _ => false

/-- The protocol as a checker: is `op` a call LOS can make in phase `ph` with treadmill `t`? -/
def allowed (s : Sys) : Op → Bool
  | .add o nursery => !(allObjs s.tm).contains o && (!nursery || s.ph == .mutator)
  | .flip _ => s.ph == .mutator
  | .copy o inNursery =>
    s.ph.isMarking && (if inNursery then s.tm.collectNursery.contains o else s.tm.fromSpace.contains o)
  | .collectNursery => s.ph.isMarking
  | .collectMature => s.ph == .nurserySwept

/-- One protocol step on the *debug-build* treadmill (so `some` also says: no assertion fired).
Returns the new system state and the objects handed back for sweeping. -/
def sysStep (s : Sys) (op : Op) : Option (Sys × List Obj) :=
  if !allowed s op then none else
  match op with
  | .add o n => some ({ s with tm := addToTreadmill s.tm o n }, [])
  | .flip full => some ({ ph := .marking full, tm := flip s.tm full }, [])
  | .copy o inN => (copy true s.tm o inN).map fun t => ({ s with tm := t }, [])
  | .collectNursery =>
    let (r, t) := collectNursery s.tm
    some ({ ph := match s.ph with
                  | .marking true => .nurserySwept
                  | _ => .mutator,
            tm := t }, r)
  | .collectMature =>
    let (r, t) := collectMature s.tm
    some ({ ph := .mutator, tm := t }, r)

/-- Ghost bookkeeping of a history: `alive` = objects added and not yet handed back for sweeping. -/
structure Run where
  sys : Sys := {}
  alive : List Obj := []
  deriving Repr

def runStep (r : Run) (op : Op) : Option Run :=
  match sysStep r.sys op with
  | none => none
  | some (s', swept) =>
    let alive := match op with
      | .add o _ => o :: r.alive
      | _ => r.alive.filter (fun x => !swept.contains x)
    some { sys := s', alive := alive }

/-- Run a history; `none` iff it leaves the protocol. -/
def run (r : Run) : List Op → Option Run
  | [] => some r
  | op :: ops => match runStep r op with
    | none => none
    | some r' => run r' ops

/-- Run only the system part. -/
def sysRun (s : Sys) : List Op → Option Sys
  | [] => some s
  | op :: ops => match sysStep s op with
    | none => none
    | some (s', _) => sysRun s' ops

end Mmtk.Treadmill
