import MmtkModel.Model.Fwd
/-!
# C17 tie: what a real-thread race on ONE object lets us observe, and the verdict on it

`Outcome` is what the harness prints after `n` OS threads ran the `trace_object` composition of the
real forwarding functions on one object and all returned; `outcomeOk` is the conjunction of the
conclusions of the C17 theorems (agreement, at most one copy, pointer = the winner's copy, final
forwarding bits, queued exactly once) as an executable predicate.  `Props/C17.lean` proves
(`outcome_sound`) that every quiescent reachable state of the model satisfies it, for every number of
threads and every interleaving — so a real race whose outcome is rejected is not a run of the model.
-/
namespace Mmtk.Fwd

structure Outcome where
  results : List Nat     -- what each of the `n` tracers returned
  copies : Nat           -- number of `ObjectModel::copy` calls
  queue : List Nat       -- objects pushed to the scan queue
  bits : Nat             -- final forwarding bits
  ptr : Nat              -- final forwarding pointer
  marked : Bool          -- final mark bit
deriving Repr

def outcomeOk (immix m0 : Bool) (o : Outcome) : Bool :=
  match o.copies with
  | 0 => immix && o.marked && o.bits == NOT_TRIGGERED && o.results.all (· == orig) &&
         (if m0 then o.queue == [] else o.queue == [orig])
  | 1 => !m0 && !o.marked && o.bits == FORWARDED && o.results.all (· == o.ptr) && o.queue == [o.ptr]
  | _ => false

/-- The outcome of a model state in which threads `0..n-1` took part. -/
def outcomeOf (n : Nat) (s : State) : Outcome :=
  { results := (List.range n).map (fun x => match s.pc x with | .done r => r | _ => garbage),
    copies := s.sh.copies.length, queue := s.sh.queue, bits := s.sh.bits, ptr := s.sh.ptr,
    marked := s.sh.marked }

end Mmtk.Fwd
