import MmtkModel.Model.SpaceDescriptor
/-!
# Model of address-to-space resolution (C31, unit part)

Transcribed from `src/policy/sft_map.rs` (`space_map::SFTSpaceMap`: `addr_to_index`,
`has_sft_entry`, `get_checked`, table size, bounds), `src/util/heap/layout/map64.rs`
(`space_index`, `get_descriptor_for_address`, `insert`) and `map32.rs`
(`get_descriptor_for_address`). The tables are explicit lists so that the component can be given
the actual extents / descriptors of live spaces.
-/
namespace Mmtk.Resolve
open Mmtk.Layout

/-- `VMLayout::address_mask() = 0x1f << log_space_extent`. -/
def addressMask (l : VMLayout) : Nat := 0x1f <<< l.logSpaceExtent

/-- `SFTSpaceMap::addr_to_index(addr) = (addr & address_mask) >> log_space_extent`. -/
def sftIndex (l : VMLayout) (a : Nat) : Nat := (a &&& addressMask l) >>> l.logSpaceExtent

/-- `SFTSpaceMap::new()`: table size `addr_to_index(Address::MAX) + 1`. -/
def sftTableSize (l : VMLayout) : Nat := sftIndex l (2 ^ 64 - 1) + 1

/-- `space_address_start = index_to_space_range(1).0`, `space_address_end =
index_to_space_range(MAX_SPACES - 1).1`. -/
def sftStart (l : VMLayout) : Nat := 1 <<< l.logSpaceExtent
def sftEnd (l : VMLayout) : Nat := ((maxSpaces - 1) <<< l.logSpaceExtent) + 2 ^ l.logSpaceExtent

/-- `has_sft_entry(addr)`. -/
def sftHasEntry (l : VMLayout) (a : Nat) : Bool := sftStart l ≤ a && a < sftEnd l

/-- `get_checked(addr)`: `some i` = the table entry `i` is returned (`none` = `EMPTY_SPACE_SFT`
because the address has no entry). -/
def sftGetChecked (l : VMLayout) (a : Nat) : Option Nat :=
  if sftHasEntry l a then some (sftIndex l a) else none

/-- `Map64::space_index(addr)`. -/
def map64SpaceIndex (l : VMLayout) (a : Nat) : Option Nat :=
  if a > l.heapEnd then none else some (a >>> l.logSpaceExtent)

/-- Result of a lookup that may panic with an index-out-of-bounds. -/
inductive Lookup | desc (d : Nat) | oob
deriving DecidableEq, Repr

/-- `Map64::get_descriptor_for_address(addr)` over a descriptor map `dm` (`MAX_SPACES` entries) as it
was on the pinned tree (kept as the record of defect F8: unchecked index). -/
def map64Descriptor (l : VMLayout) (dm : List Nat) (a : Nat) : Lookup :=
  match map64SpaceIndex l a with
  | none => .desc 0
  | some i =>
    match dm[i]? with
    | some d => .desc d
    | none => .oob           -- `self.inner().descriptor_map[index]`

/-- The lookup as repaired by the `fix:` commit (what the code does now; the driver runs this one):
bounds-checked like `Map32`
(`descriptor_map.get(index).copied().unwrap_or(UNINITIALIZED)`). -/
def map64DescriptorFixed (l : VMLayout) (dm : List Nat) (a : Nat) : Nat :=
  match map64SpaceIndex l a with
  | none => 0
  | some i => dm.getD i 0

/-- `Map64::insert(start, extent, descriptor)`: `none` = debug assertion (`is_space_start`, extent
bounds) / index out of bounds. Only the descriptor map is modelled. -/
def map64Insert (l : VMLayout) (debug : Bool) (dm : List Nat) (start extent d : Nat) : Option (List Nat) :=
  let spaceMask := (2 ^ logMaxSpaces - 1) <<< l.logSpaceExtent
  if debug && !((start &&& (2 ^ 64 - 1 - spaceMask)) == 0 && extent ≤ 2 ^ l.logSpaceExtent
      && extent ≥ 2 * 2 ^ logBytesInChunk) then none
  else match map64SpaceIndex l start with
    | none => none
    | some i => if i < dm.length then some (dm.set i d) else none

/-- `Map32::get_descriptor_for_address(addr)`: `descriptor_map.get(addr.chunk_index())…unwrap_or(0)`. -/
def map32Descriptor (dm : Nat → Nat) (nChunks : Nat) (a : Nat) : Nat :=
  let i := a >>> logBytesInChunk
  if i < nChunks then dm i else 0

/-! ## The chunk-granular SFT map of the non-contiguous layouts (`sparse_chunk_map::SFTSparseChunkMap`)

One entry per chunk of the architecture's address space (`vm_layout().max_chunks()`); the table is
given as a function chunk index ↦ space (`0` = `EMPTY_SPACE_SFT`). -/

/-- `SFTSparseChunkMap::has_sft_entry(addr)`: `addr.chunk_index() < vm_layout().max_chunks()`. -/
def sparseHasEntry (nChunks a : Nat) : Bool := a >>> logBytesInChunk < nChunks

/-- `SFTSparseChunkMap::get_checked(addr)`: the entry of the address's chunk, the empty SFT (`0`) for an
address without an entry. -/
def sparseGetChecked (sft : Nat → Nat) (nChunks a : Nat) : Nat :=
  if sparseHasEntry nChunks a then sft (a >>> logBytesInChunk) else 0

/-- `memory_manager::is_in_mmtk_spaces(object)` = `SFT_MAP.get_checked(addr).is_in_space(object)`:
`false` for the empty SFT, `true` for every policy that keeps the default `SFT::is_in_space`. -/
def isInMmtkSpaces (sft : Nat → Nat) (nChunks a : Nat) : Bool := sparseGetChecked sft nChunks a != 0

/-- A region of a discontiguous space as the page resource / VM map see it. -/
structure Region where
  start : Nat      -- first chunk index
  chunks : Nat
  owner : Nat      -- raw descriptor of the owning space
deriving Repr, DecidableEq

/-- The descriptor table a `Map32` holds after `allocate_contiguous_chunks` for each region of `rs`
(`Map32::insert` writes the descriptor into every chunk of the region; later regions are written later). -/
def tableOf (rs : List Region) : Nat → Nat :=
  rs.foldl (fun t r => fun c => if r.start ≤ c ∧ c < r.start + r.chunks then r.owner else t c) (fun _ => 0)

end Mmtk.Resolve
