/-!
# Abstract specification of the free lists (C26): a partition of `[0, units)` into runs

Pointwise representation: `cut b` — a run starts at unit `b`; `own u` — `none` if unit `u` is
allocated, `some k` if it is free on the list of head `k`; `unc b` — unit `b` carries the
uncoalescable mark; `touched b` — ghost: boundary `b` has been the edge of an allocation (a
boundary that is not touched is *pristine*: an initial grain boundary nothing ever happened at).
Which free run `alloc` takes is a parameter of the operation (any fitting run of the head).
-/
namespace Mmtk.Runs

structure AS where
  units : Nat
  cut : Nat → Bool
  own : Nat → Option Nat
  unc : Nat → Bool
  touched : Nat → Bool

/-- `[s, e)` is a run of the partition. -/
def IsRun (a : AS) (s e : Nat) : Prop :=
  s < e ∧ e ≤ a.units ∧ (s = 0 ∨ a.cut s = true) ∧ (e = a.units ∨ a.cut e = true) ∧
  ∀ b, s < b → b < e → a.cut b = false

/-- `free` merges with the left / right neighbour iff it is free and the boundary is coalescable
(`is_coalescable(unit) && get_free(left)`, `is_coalescable(right) && get_free(right)`). -/
def mergeL (a : AS) (s : Nat) : Prop := 0 < s ∧ a.unc s = false ∧ a.own (s - 1) ≠ none
def mergeR (a : AS) (e : Nat) : Prop := e < a.units ∧ a.unc e = false ∧ a.own e ≠ none

instance (a : AS) (s : Nat) : Decidable (mergeL a s) := by unfold mergeL; infer_instance
instance (a : AS) (e : Nat) : Decidable (mergeR a e) := by unfold mergeR; infer_instance

inductive Op
  /-- `alloc(n)` / `alloc_from_unit(n, s)` through head `k` taking the first `n` units of the free run `[s, e)` -/
  | alloc (k s n e : Nat)
  /-- `free(s)` through head `k` of the allocated run `[s, e)` -/
  | free (k s e : Nat)
  | setUnc (u : Nat)
  | clrUnc (u : Nat)

/-- Preconditions: the protocol of the callers (`FreeListPageResource`, `Map32`). -/
def Pre (a : AS) : Op → Prop
  | .alloc k s n e => IsRun a s e ∧ a.own s = some k ∧ 1 ≤ n ∧ s + n ≤ e
  | .free k s e => IsRun a s e ∧ a.own s = none ∧
      -- never coalesce into a run that sits on another head's list (regions of different heads
      -- are separated by uncoalescable marks)
      (mergeL a s → a.own (s - 1) = some k) ∧ (mergeR a e → a.own e = some k)
  | .setUnc _ => True
  | .clrUnc u => ¬ (0 < u ∧ u < a.units ∧ a.cut u = true ∧ a.own (u - 1) ≠ none ∧ a.own u ≠ none)

def apply (a : AS) : Op → AS
  | .alloc _ s n _ =>
    { a with cut := fun b => if b = s + n then true else a.cut b,
             own := fun u => if s ≤ u ∧ u < s + n then none else a.own u,
             touched := fun b => if b = s ∨ b = s + n then true else a.touched b }
  | .free k s e =>
    { a with cut := fun b => if (b = s ∧ mergeL a s) ∨ (b = e ∧ mergeR a e) then false else a.cut b,
             own := fun u => if s ≤ u ∧ u < e then some k else a.own u }
  | .setUnc u => { a with unc := fun b => if b = u then true else a.unc b }
  | .clrUnc u => { a with unc := fun b => if b = u then false else a.unc b }

/-- `alloc(k, n)` may fail only if head `k` has no free run of `n` units. -/
def CanAlloc (a : AS) (k n : Nat) : Prop := ∃ s e, IsRun a s e ∧ a.own s = some k ∧ s + n ≤ e

/-- Run a history (each op must satisfy its precondition). -/
inductive Reach (a0 : AS) : AS → Prop
  | init : Reach a0 a0
  | step {a : AS} (op : Op) : Reach a0 a → Pre a op → Reach a0 (apply a op)

end Mmtk.Runs
