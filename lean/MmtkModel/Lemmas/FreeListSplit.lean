import MmtkModel.Lemmas.FreeListRel
/-!
# `__split` refines "add a boundary" (C26, concrete layer)
-/
namespace Mmtk.FreeList
open Mmtk.Runs

/-- the abstract state after `__split`: a new boundary at `c`, nothing else -/
def splitAt (a : AS) (c : Nat) : AS := { a with cut := fun b => if b = c then true else a.cut b }

theorem isRun_splitAt (a : AS) (k s n e x y : Nat) :
    IsRun (splitAt a (s + n)) x y ↔ IsRun (Runs.apply a (.alloc k s n e)) x y := Iff.rfl

/-- `__split` as a pure function -/
def pSplit (t : Tab) (h : Int) (s n rest : Int) : Tab :=
  pAddToFree (pSetSize (pSetSize t s n) (s + n) rest) h (s + n)

@[simp] theorem heads_pSplit (t : Tab) (h s n rest : Int) : (pSplit t h s n rest).heads = t.heads := by simp [pSplit]

theorem split_ok {t : Tab} {a : AS} {L : Nat → List Nat} {k s e n : Nat} (debug : Bool)
    (h : Rel t a L) (hr : IsRun a s e) (hown : a.own s = some k) (hn : 1 ≤ n) (hf : s + n < e) :
    split debug t (hd k) (s : Int) (n : Int) = .ok (pSplit t (hd k) s n ((e : Int) - s - n)) := by
  have hse := hr.1
  have hlt := h.run_lt hr
  have ok := h.run s e hr
  have hsz := h.sizeOf_run hr
  have hk := (ok.mem k hown).1
  have hpos := h.hpos
  have hb := h.hd_bounds hk
  have hR : ∀ w : Int, 0 ≤ w → w ≤ e → InR t w := fun w h0 h1 => h.inR (by omega) (by omega)
  have hsR : InR t (s : Int) := hR _ (by omega) (by omega)
  have hs1 : fMulti t (s : Int) = true → InR t ((s : Int) + 1) := fun _ => hR _ (by omega) (by omega)
  obtain ⟨q1, q2, q3⟩ := h.list k hk
  have hU := h.units_list hk
  unfold split pSplit
  rw [getSize_ok hsR hs1, hsz]
  have hdb : (debug && !decide ((e : Int) - s > n)) = false := by
    have : (e : Int) - s > n := by omega
    simp [this]
  simp only [bind, Except.bind, hdb, Bool.false_eq_true, if_false]
  rw [setSize_ok hsR (fun _ => ⟨hR _ (by omega) (by omega), hR _ (by omega) (by omega)⟩)]
  simp only []
  have e1 : (e : Int) - s - n = (e : Int) - s - n := rfl
  rw [setSize_ok (by simpa using hR ((s : Int) + n) (by omega) (by omega))
    (fun _ => by simp only [InR_pSetSize]; exact ⟨hR _ (by omega) (by omega), hR _ (by omega) (by omega)⟩)]
  simp only []
  -- the fields `add_to_free` reads
  have hA : InR t ((s : Int) + n) := hR _ (by omega) (by omega)
  have hB : (n : Int) > 1 → InR t ((s : Int) + 1) ∧ InR t ((s : Int) + n - 1) :=
    fun _ => ⟨hR _ (by omega) (by omega), hR _ (by omega) (by omega)⟩
  have hC : (e : Int) - s - n > 1 → InR (pSetSize t s n) ((s : Int) + n + 1) ∧
      InR (pSetSize t s n) ((s : Int) + n + ((e : Int) - s - n) - 1) := fun _ => by
    simp only [InR_pSetSize]; exact ⟨hR _ (by omega) (by omega), hR _ (by omega) (by omega)⟩
  have hM : fMulti (pSetSize (pSetSize t s n) ((s : Int) + n) ((e : Int) - s - n)) ((s : Int) + n) =
      decide ((e : Int) - s - n > 1) := by
    rw [fMulti_pSetSize (by simpa using hA) hC]
    by_cases c : (e : Int) - s - n > 1 <;> simp [c]
  have hN : (e : Int) - s - n > 1 → fNext (pSetSize (pSetSize t s n) ((s : Int) + n) ((e : Int) - s - n))
      ((s : Int) + n + 1) = lk ((e : Int) - s - n) := by
    intro c
    rw [fNext_pSetSize hC]; simp [c]
  have hS : sizeOf (pSetSize (pSetSize t s n) ((s : Int) + n) ((e : Int) - s - n)) ((s : Int) + n) =
      (e : Int) - s - n := by
    unfold sizeOf
    rw [hM]
    by_cases c : (e : Int) - s - n > 1
    · have := h.units_le
      simp only [c, decide_true, if_true, hN c]
      exact lk_unit (by omega) (by omega)
    · simp only [c, decide_false, Bool.false_eq_true, if_false]; omega
  have hX : nxt (pSetSize (pSetSize t s n) ((s : Int) + n) ((e : Int) - s - n)) (hd k) (hd k) = firstI (L k) (hd k) := by
    rw [← Links_nxt q1]
    unfold nxt
    rw [fNext_pSetSize hC, fNext_pSetSize hB]
    have := hd_neg k
    have c1 : ¬ ((e : Int) - s - n > 1 ∧ (hd k = (s : Int) + n + 1 ∨ hd k = (s : Int) + n + ((e : Int) - s - n) - 1)) := by omega
    have c2 : ¬ ((n : Int) > 1 ∧ (hd k = (s : Int) + 1 ∨ hd k = (s : Int) + n - 1)) := by omega
    simp only [c1, c2, if_false]
  have := h.units_le
  apply addToFree_ok debug (by simpa using hb.2) (by simpa using h.inR_hd hk) (by omega) (by simpa using hA)
  · intro _; simp only [InR_pSetSize]; exact hR _ (by omega) (by omega)
  · intro _; rw [hS]; simp only [InR_pSetSize]; exact hR _ (by omega) (by omega)
  · rw [hX]
    rcases firstI_mem (L k) (hd k) with e | ⟨y, hy, e⟩
    · rw [e]; exact ⟨Or.inl rfl, by simpa using h.inR_hd hk⟩
    · rw [e]; have := hU y hy; exact ⟨Or.inr ⟨by omega, this.1⟩, by simpa using this.2⟩

/-- close a goal about nested `if`s on unit positions -/
macro "ifs_omega" : tactic =>
  `(tactic| ((repeat' split) <;> (first | rfl | omega | (simp_all; done) | (exfalso; omega))))

theorem split_rel {t : Tab} {a : AS} {L : Nat → List Nat} {k s e n : Nat}
    (h : Rel t a L) (hr : IsRun a s e) (hown : a.own s = some k) (hn : 1 ≤ n) (hf : s + n < e) :
    Rel (pSplit t (hd k) s n ((e : Int) - s - n)) (splitAt a (s + n)) (setL L k ((s + n) :: L k)) := by
  have hse := hr.1
  have hlt := h.run_lt hr
  have ok := h.run s e hr
  have hk := (ok.mem k hown).1
  have hsk : s ∈ L k := by
    rcases (ok.mem k hown).2 with g | g
    · exact g
    · exact g.elim
  have hpos := h.hpos
  have hb := h.hd_bounds hk
  have hul := h.units_le
  have hmax : MAX_UNITS = 1073741694 := rfl
  have hR : ∀ w : Int, 0 ≤ w → w ≤ e → InR t w := fun w h0 h1 => h.inR (by omega) (by omega)
  have hhR := h.inR_hd hk
  obtain ⟨q1, q2, q3⟩ := h.list k hk
  have hU := h.units_list hk
  have hneg := hd_neg k
  -- abbreviations
  generalize hrest : (e : Int) - s - n = rest
  have hB : (n : Int) > 1 → InR t ((s : Int) + 1) ∧ InR t ((s : Int) + n - 1) :=
    fun _ => ⟨hR _ (by omega) (by omega), hR _ (by omega) (by omega)⟩
  have hC : rest > 1 → InR (pSetSize t s n) ((s : Int) + n + 1) ∧
      InR (pSetSize t s n) ((s : Int) + n + rest - 1) := fun _ => by
    simp only [InR_pSetSize]; exact ⟨hR _ (by omega) (by omega), hR _ (by omega) (by omega)⟩
  have hA : InR t ((s : Int) + n) := hR _ (by omega) (by omega)
  -- the fields of the table after the two `set_size`
  have hM2 : ∀ w, fMulti (pSetSize (pSetSize t s n) ((s : Int) + n) rest) w =
      if rest > 1 then (if w = (s : Int) + n ∨ w = (s : Int) + n + 1 ∨ w = (s : Int) + n + rest - 1 then true else
        (if (n : Int) > 1 then (if w = (s : Int) ∨ w = (s : Int) + 1 ∨ w = (s : Int) + n - 1 then true else fMulti t w)
          else (if w = (s : Int) then false else fMulti t w)))
      else (if w = (s : Int) + n then false else
        (if (n : Int) > 1 then (if w = (s : Int) ∨ w = (s : Int) + 1 ∨ w = (s : Int) + n - 1 then true else fMulti t w)
          else (if w = (s : Int) then false else fMulti t w))) := by
    intro w
    rw [fMulti_pSetSize (by simpa using hA) hC, fMulti_pSetSize (hR _ (by omega) (by omega)) hB]
  have hN2 : ∀ w, fNext (pSetSize (pSetSize t s n) ((s : Int) + n) rest) w =
      if rest > 1 ∧ (w = (s : Int) + n + 1 ∨ w = (s : Int) + n + rest - 1) then lk rest else
        if (n : Int) > 1 ∧ (w = (s : Int) + 1 ∨ w = (s : Int) + n - 1) then lk n else fNext t w := by
    intro w
    rw [fNext_pSetSize hC, fNext_pSetSize hB]
  have hlkn : lk (n : Int) = n := by
    have := lk_unit (v := (n : Int)) (by omega) (by omega); omega
  have hlkr : lk rest = (e - (s + n) : Nat) := by
    have := lk_unit (v := rest) (by omega) (by omega); omega
  have hS : sizeOf (pSetSize (pSetSize t s n) ((s : Int) + n) rest) ((s : Int) + n) = rest := by
    unfold sizeOf
    rw [hM2, hN2]
    by_cases c : rest > 1
    · have c1 : (rest > 1 ∧ ((s : Int) + n + 1 = (s : Int) + n + 1 ∨ (s : Int) + n + 1 = (s : Int) + n + rest - 1)) :=
        ⟨c, Or.inl rfl⟩
      rw [if_pos c1, hlkr]
      simp only [c, if_true, true_or]; omega
    · simp only [c, if_false, if_true, Bool.false_eq_true]; omega
  have hX : nxt (pSetSize (pSetSize t s n) ((s : Int) + n) rest) (hd k) (hd k) = firstI (L k) (hd k) := by
    rw [← Links_nxt q1]
    unfold nxt
    rw [hN2]
    have c1 : ¬ (rest > 1 ∧ (hd k = (s : Int) + n + 1 ∨ hd k = (s : Int) + n + rest - 1)) := by omega
    have c2 : ¬ ((n : Int) > 1 ∧ (hd k = (s : Int) + 1 ∨ hd k = (s : Int) + n - 1)) := by omega
    simp only [c1, c2, if_false]
  have hnxR : InR t (firstI (L k) (hd k)) := by
    rcases firstI_mem (L k) (hd k) with e | ⟨y, hy, e⟩
    · rw [e]; exact hhR
    · rw [e]; exact (hU y hy).2
  have hnx : firstI (L k) (hd k) = hd k ∨ ∃ y ∈ L k, firstI (L k) (hd k) = (y : Int) := firstI_mem _ _
  -- members of the lists are outside `(s, e)`
  have hout : ∀ j : Nat, (j : Int) < t.heads → ∀ y ∈ L j, (y : Int) ≤ s ∨ (e : Int) ≤ y := by
    intro j hj y hy
    have := h.mem_outside hj hy hr; omega
  -- the fields of the final table
  have hFin : pSplit t (hd k) s n rest = wPrev (wPrev (wNext (wNext (pSetFree (pSetSize (pSetSize t s n) ((s : Int) + n) rest)
      ((s : Int) + n) true) ((s : Int) + n) (firstI (L k) (hd k))) (hd k) ((s : Int) + n)) ((s : Int) + n) (hd k))
      (firstI (L k) (hd k)) ((s : Int) + n) := by
    unfold pSplit pAddToFree; rw [hX]
  have gM : ∀ w, fMulti (pSplit t (hd k) s n rest) w = fMulti (pSetSize (pSetSize t s n) ((s : Int) + n) rest) w := by
    intro w; rw [hFin]; simp
  have gU : ∀ w, fUnc (pSplit t (hd k) s n rest) w = fUnc t w := by
    intro w; rw [hFin]; simp
  have gF : ∀ w, fFree (pSplit t (hd k) s n rest) w =
      if w = (s : Int) + n ∨ (rest > 1 ∧ w = (s : Int) + n + rest - 1) then true else fFree t w := by
    intro w; rw [hFin]
    simp only [fFree_wPrev', fFree_wNext]
    rw [fFree_pSetFree (by simpa using hA) (by rw [hS]; intro _; simp only [InR_pSetSize]; exact hR _ (by omega) (by omega)), hS]
    simp
  have gN : ∀ w, w ≠ hd k → w ≠ (s : Int) + n → fNext (pSplit t (hd k) s n rest) w =
      fNext (pSetSize (pSetSize t s n) ((s : Int) + n) rest) w := by
    intro w h1 h2; rw [hFin]
    simp only [fNext_wPrev, fNext_wNext', fNext_pSetFree, h1, h2, false_and, if_false]
  have gP : ∀ w, w ≠ firstI (L k) (hd k) → w ≠ (s : Int) + n → fPrev (pSplit t (hd k) s n rest) w = fPrev t w := by
    intro w h1 h2; rw [hFin]
    simp only [fPrev_wPrev', fPrev_wNext, fPrev_pSetFree, fPrev_pSetSize, h1, h2, false_and, if_false]
  -- the list of head `k`
  have hLk : Links (pSplit t (hd k) s n rest) (hd k) (hd k) ((s + n) :: L k) := by
    rw [hFin]
    have hcast : ((s + n : Nat) : Int) = (s : Int) + n := by omega
    have hsn : s + n ∉ L k := by
      intro hm; have := hout k hk _ hm; omega
    have hl0 : Links (pSetFree (pSetSize (pSetSize t s n) ((s : Int) + n) rest) ((s : Int) + n) true) (hd k) (hd k) (L k) := by
      apply Links_pSetFree
      apply Links_congr (L k) (hd k) _ _ _ _ q1
      · rw [hN2]; ifs_omega
      · intro y hy; have := hout k hk y hy; rw [hN2]; ifs_omega
      · simp
      · intro y _; simp
    have := Links_push hb.1 (by simpa using hhR) (s + n) ⟨by omega, by rw [hcast]; simpa using hA⟩ (L k)
      (fun y hy => ⟨(hU y hy).1, by simpa using (hU y hy).2⟩) q2 hsn hl0
    rw [hcast] at this
    exact this
  have hsn : s + n ∉ L k := by
    intro hm; have := hout k hk _ hm; omega
  have hM2o : ∀ w : Int, (w < s ∨ (e : Int) ≤ w) → fMulti (pSetSize (pSetSize t s n) ((s : Int) + n) rest) w = fMulti t w := by
    intro w hw; rw [hM2]; ifs_omega
  have hN2o : ∀ w : Int, (w ≤ s ∨ (e : Int) ≤ w) → fNext (pSetSize (pSetSize t s n) ((s : Int) + n) rest) w = fNext t w := by
    intro w hw; rw [hN2]; ifs_omega
  have hheads : (pSplit t (hd k) s n rest).heads = t.heads := by rw [hFin]; simp
  have hsize : (pSplit t (hd k) s n rest).cells.size = t.cells.size := by rw [hFin]; simp
  have hle' : s + n ≤ e := by omega
  -- runs of the new state
  have hrun1 : ∀ {x y : Nat}, IsRun a x y → ∃ y', IsRun (splitAt a (s + n)) x y' := by
    intro x y hxy
    rcases run_eq_or_disjoint a hr hxy with ⟨e1, _⟩ | hd | hd
    · rw [e1]; exact ⟨s + n, alloc_run_taken (k := k) a hr hn hle'⟩
    · exact ⟨y, alloc_run_other (k := k) a hr hn hle' hxy (Or.inl hd)⟩
    · exact ⟨y, alloc_run_other (k := k) a hr hn hle' hxy (Or.inr hd)⟩
  constructor
  · rw [hheads]; exact h.hpos
  · rw [hheads]; exact h.hle
  · rw [hheads, hsize]; exact h.size_eq
  · exact h.units_le
  · show fFree _ ((a.units : Nat) : Int) = false
    rw [gF, if_neg (by omega)]; exact h.top_free
  · intro j hj
    rw [hheads] at hj
    have := hd_neg j
    rw [gF, if_neg (by omega)]; exact h.head_free j hj
  · intro j hj
    rw [hheads] at hj
    have := hd_neg j
    rw [gM, hM2o _ (by omega)]; exact h.head_multi j hj
  · intro u hu
    rw [gU]; exact h.unc u hu
  · intro x y hxy
    rcases alloc_run_inv a hr hn hle' ((isRun_splitAt a k s n e x y).mp hxy) with ⟨e1, e2⟩ | ⟨e1, e2, _⟩ | ⟨hxy', hd⟩
    · subst e1 e2
      constructor
      · rw [gM, hM2]
        by_cases c : x + 1 < x + n
        · simp only [c, decide_true]; ifs_omega
        · simp only [c, decide_false]; ifs_omega
      · intro hm
        refine ⟨?_, ?_, ?_⟩
        · rw [gN _ (by omega) (by omega), hN2]; ifs_omega
        · rw [gM, hM2]; ifs_omega
        · rw [gN _ (by omega) (by omega), hN2]; ifs_omega
      · rw [gF, if_neg (by omega)]; exact ok.free
      · intro u h1 h2; exact ok.own u h1 (by omega)
      · intro j hj
        have := ok.mem j hj
        refine ⟨by rw [hheads]; exact this.1, Or.inl ?_⟩
        have hjk : j = k := by
          have : a.own x = some j := hj
          rw [hown] at this; exact (Option.some.inj this).symm
        subst hjk
        simp only [setL, if_true]
        exact List.mem_cons_of_mem _ hsk
    · subst e1 e2
      have hown' : a.own (s + n) = some k := by rw [ok.own (s + n) (by omega) (by omega), hown]
      constructor
      · rw [gM, hM2]
        by_cases c : s + n + 1 < y
        · simp only [c, decide_true]; ifs_omega
        · simp only [c, decide_false]; ifs_omega
      · intro hm
        refine ⟨?_, ?_, ?_⟩
        · rw [gN _ (by omega) (by omega), hN2]; ifs_omega
        · rw [gM, hM2]; ifs_omega
        · rw [gN _ (by omega) (by omega), hN2]; ifs_omega
      · rw [gF, if_pos (Or.inl (by omega))]
        show true = (a.own (s + n)).isSome
        rw [hown']; rfl
      · intro u h1 h2
        show a.own u = a.own (s + n)
        rw [ok.own u (by omega) h2, ok.own (s + n) (by omega) (by omega)]
      · intro j hj
        have hjk : j = k := by
          have : a.own (s + n) = some j := hj
          rw [hown'] at this; exact (Option.some.inj this).symm
        subst hjk
        refine ⟨by rw [hheads]; exact hk, Or.inl ?_⟩
        simp only [setL, if_true]
        exact List.mem_cons_self ..
    · have ok' := h.run x y hxy'
      have hxy1 := hxy'.1
      constructor
      · rw [gM, hM2o _ (by omega)]; exact ok'.multi
      · intro hm
        rw [gN _ (by omega) (by omega), hN2o _ (by omega), gM, hM2o _ (by omega), gN _ (by omega) (by omega),
          hN2o _ (by omega)]
        exact ok'.sz hm
      · rw [gF, if_neg (by omega)]; exact ok'.free
      · exact ok'.own
      · intro j hj
        have := ok'.mem j hj
        refine ⟨by rw [hheads]; exact this.1, ?_⟩
        rcases this.2 with g | g
        · left
          unfold setL
          by_cases hjk : j = k
          · subst hjk; simp only [if_true]; exact List.mem_cons_of_mem _ g
          · simp only [hjk, if_false]; exact g
        · exact g.elim
  · intro j hj
    rw [hheads] at hj
    by_cases hjk : j = k
    · subst hjk
      simp only [setL, if_true]
      refine ⟨hLk, List.nodup_cons.mpr ⟨hsn, q2⟩, ?_⟩
      intro x hx
      rcases List.mem_cons.mp hx with rfl | hx
      · refine ⟨?_, fun f => f, e, alloc_run_rest (k := j) a hr hn hf⟩
        show a.own (s + n) = some j
        rw [ok.own (s + n) (by omega) (by omega), hown]
      · obtain ⟨m1, m2, y, m3⟩ := q3 x hx
        exact ⟨m1, m2, hrun1 m3⟩
    · simp only [setL, hjk, if_false]
      obtain ⟨p1, p2, p3⟩ := h.list j hj
      have hdj : hd j ≠ hd k := fun e => hjk (hd_inj e)
      have hnegj := hd_neg j
      have hmem : ∀ y ∈ L j, ((y : Int) < s ∨ (e : Int) ≤ y) ∧ (y : Int) ≠ firstI (L k) (hd k) := by
        intro y hy
        have h1 := hout j hj y hy
        have h2 : y ≠ s := fun e => h.list_disjoint hj hk hjk hy (e ▸ hsk)
        refine ⟨by omega, ?_⟩
        rcases hnx with e | ⟨z, hz, e⟩
        · rw [e]; omega
        · rw [e]; intro e'; exact h.list_disjoint hj hk hjk hy (Int.ofNat_inj.mp e' ▸ hz)
      have hhj : hd j ≠ firstI (L k) (hd k) := by
        rcases hnx with e | ⟨z, hz, e⟩
        · rw [e]; exact hdj
        · rw [e]; omega
      refine ⟨?_, p2, ?_⟩
      · apply Links_congr (L j) (hd j) _ _ _ _ p1
        · rw [gN _ hdj (by omega), hN2o _ (by omega)]
        · intro y hy
          have := (hmem y hy).1
          rw [gN _ (by omega) (by omega), hN2o _ (by omega)]
        · rw [gP _ hhj (by omega)]
        · intro y hy
          have := hmem y hy
          rw [gP _ this.2 (by omega)]
      · intro x hx
        obtain ⟨m1, m2, y, m3⟩ := p3 x hx
        exact ⟨m1, m2, hrun1 m3⟩

end Mmtk.FreeList
