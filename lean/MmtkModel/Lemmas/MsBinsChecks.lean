import MmtkModel.Model.MsBins
import MmtkModel.Lemmas.CheckRange
/-!
# C35: the exhaustive kernel evaluations over the regenerated bin table

Kept in their own module so that the (comparatively slow) kernel evaluations are re-run only when
the model or `Generated/Bins.lean` change. Each is `checkRange … = true` by `decide +kernel`.
-/
namespace Mmtk.MsBins
open Mmtk.Gen.Bins Mmtk.CheckRange

/-! ## The exhaustive word-size check -/

/-- What is checked for every word size `w`: the bin is real, holds `w` words, and the previous bin
does not (it is at least one word smaller — all cell sizes are whole words). -/
def wordOk (w : Nat) : Bool :=
  let b := binOfWsize w
  decide (1 ≤ b) && decide (b ≤ maxBin) && decide (intptrSize * w ≤ binSize b)
    && (decide (b = 1) || decide (binSize (b - 1) + intptrSize ≤ intptrSize * w))
    && decide (binOfWsize w ≤ binOfWsize (w + 1))

theorem words_ok : checkRange wordOk 0 (largeObjWsizeMax + 1) = true := by decide +kernel

theorem wordOk_of_le {w : Nat} (h : w ≤ largeObjWsizeMax) : wordOk w = true :=
  checkRange_sound words_ok w (Nat.zero_le _) (by omega)

theorem largeObjWsizeMax_eq : largeObjWsizeMax * intptrSize = maxBinSize := by decide +kernel

/-- Word sizes just above the maximum map to `MI_BIN_FULL` (checked exhaustively for the
`(MAX_ALIGNMENT - MIN_ALIGNMENT) / 8` word sizes an aligned request can reach). -/
theorem words_above_max :
    checkRange (fun w => decide (binOfWsize w = binFull)) (largeObjWsizeMax + 1)
      (largeObjWsizeMax + (maxAlign - minAlign) / intptrSize + 1) = true := by decide +kernel


theorem table_adjacent :
    checkRange (fun i => decide (binSize i < binSize (i + 1))) 1 maxBin = true := by decide +kernel


/-- Every real bin's cell size satisfies the hypotheses of `init_block_cells`. -/
theorem bin_cell_size_ok :
    checkRange (fun b => decide (0 < binSize b ∧ binSize b ≤ blockBytes ∧ binSize b % intptrSize = 0)) 0 (maxBin + 1) = true := by
  decide +kernel


end Mmtk.MsBins
