import MmtkModel.Lemmas.FreeListLinks
import MmtkModel.Lemmas.RunsChar
/-!
# The refinement relation between the table and the abstract runs (C26, concrete layer)

`RelX X t a L`: table `t` represents the abstract state `a`; `L k` is the ghost list (run starts, in
list order) of head `k` (unit `-(k+1)`).  `X` is the set of free runs that are momentarily unlinked
(in the middle of `alloc` / `free`); `Rel = RelX ∅` is the invariant between operations.
-/
namespace Mmtk.FreeList
open Mmtk.Runs

/-- the unit of head `k` -/
def hd (k : Nat) : Int := -((k : Int) + 1)

def setL (L : Nat → List Nat) (k : Nat) (l : List Nat) : Nat → List Nat := fun j => if j = k then l else L j

structure RunOK (t : Tab) (a : AS) (L : Nat → List Nat) (X : Nat → Prop) (s e : Nat) : Prop where
  multi : fMulti t (s : Int) = decide (s + 1 < e)
  sz : s + 1 < e → fNext t ((s : Int) + 1) = e - s ∧ fMulti t ((e : Int) - 1) = true ∧ fNext t ((e : Int) - 1) = e - s
  free : fFree t (s : Int) = (a.own s).isSome
  own : ∀ u, s ≤ u → u < e → a.own u = a.own s
  mem : ∀ k, a.own s = some k → (k : Int) < t.heads ∧ (s ∈ L k ∨ X s)

structure RelX (X : Nat → Prop) (t : Tab) (a : AS) (L : Nat → List Nat) : Prop where
  hpos : 1 ≤ t.heads
  hle : t.heads ≤ 128
  size_eq : (t.cells.size : Int) = 2 * ((a.units : Int) + 1 + t.heads)
  units_le : (a.units : Int) ≤ MAX_UNITS
  top_free : fFree t (a.units : Int) = false
  head_free : ∀ k : Nat, (k : Int) < t.heads → fFree t (hd k) = false
  head_multi : ∀ k : Nat, (k : Int) < t.heads → fMulti t (hd k) = false
  unc : ∀ u, u ≤ a.units → a.unc u = fUnc t (u : Int)
  run : ∀ s e, IsRun a s e → RunOK t a L X s e
  list : ∀ k : Nat, (k : Int) < t.heads → Links t (hd k) (hd k) (L k) ∧ (L k).Nodup ∧
    ∀ x ∈ L k, a.own x = some k ∧ ¬ X x ∧ ∃ e, IsRun a x e

/-- The invariant between operations. -/
def Rel (t : Tab) (a : AS) (L : Nat → List Nat) : Prop := RelX (fun _ => False) t a L

theorem MAX_UNITS_eq : MAX_UNITS = 1073741694 := rfl

namespace RelX
variable {X : Nat → Prop} {t : Tab} {a : AS} {L : Nat → List Nat}

theorem inR (h : RelX X t a L) {w : Int} (h0 : -t.heads ≤ w) (h1 : w ≤ a.units) : InR t w := by
  have := h.size_eq
  unfold InR; omega

theorem inR_hd (h : RelX X t a L) {k : Nat} (hk : (k : Int) < t.heads) : InR t (hd k) :=
  h.inR (by unfold hd; omega) (by unfold hd; omega)

theorem inR_nat (h : RelX X t a L) {w : Nat} (h1 : w ≤ a.units) : InR t (w : Int) :=
  h.inR (by have := h.hpos; omega) (by omega)

theorem hd_bounds (h : RelX X t a L) {k : Nat} (hk : (k : Int) < t.heads) :
    (-128 ≤ hd k ∧ hd k < 0) ∧ (-t.heads ≤ hd k ∧ hd k < 0) := by
  have := h.hle; unfold hd; omega

/-- `get_size` of a run start -/
theorem sizeOf_run (h : RelX X t a L) {s e : Nat} (hr : IsRun a s e) : sizeOf t (s : Int) = (e : Int) - s := by
  have ok := h.run s e hr
  unfold sizeOf
  by_cases hm : s + 1 < e
  · rw [ok.multi, (ok.sz hm).1]; simp [hm]; omega
  · rw [ok.multi]; simp [hm]; have := hr.1; omega

/-- `get_left` of a run start: the start of the run that ends there -/
theorem leftOf_run (h : RelX X t a L) {l s : Nat} (hr : IsRun a l s) : leftOf t (s : Int) = (l : Int) := by
  have ok := h.run l s hr
  have := hr.1
  unfold leftOf
  by_cases hm : l + 1 < s
  · rw [(ok.sz hm).2.1, (ok.sz hm).2.2]; simp; omega
  · have e1 : s = l + 1 := by omega
    have e2 : (s : Int) - 1 = (l : Int) := by omega
    rw [e2, ok.multi]; simp [hm]

theorem run_lt (_h : RelX X t a L) {s e : Nat} (hr : IsRun a s e) : s < a.units ∧ e ≤ a.units := by
  have := hr.1; have := hr.2.1; omega

/-- members of the lists are units in range -/
theorem units_list (h : RelX X t a L) {k : Nat} (hk : (k : Int) < t.heads) : Units t (L k) := by
  intro y hy
  obtain ⟨_, _, e, hr⟩ := (h.list k hk).2.2 y hy
  have := h.run_lt hr
  have := h.units_le
  exact ⟨by omega, h.inR_nat (by omega)⟩

/-- a run start is not strictly inside another run -/
theorem start_outside (_h : RelX X t a L) {s e y z : Nat} (hr : IsRun a s e) (hy : IsRun a y z) : y ≤ s ∨ e ≤ y := by
  rcases run_eq_or_disjoint a hr hy with ⟨e1, _⟩ | h1 | h1
  · omega
  · have := hy.1; omega
  · omega

/-- a list member is not strictly inside a run -/
theorem mem_outside (h : RelX X t a L) {k : Nat} (hk : (k : Int) < t.heads) {y : Nat} (hy : y ∈ L k)
    {s e : Nat} (hr : IsRun a s e) : y ≤ s ∨ e ≤ y := by
  obtain ⟨_, _, z, hz⟩ := (h.list k hk).2.2 y hy
  exact h.start_outside hr hz

/-- the lists of two different heads are disjoint -/
theorem list_disjoint (h : RelX X t a L) {j k : Nat} (hj : (j : Int) < t.heads) (hk : (k : Int) < t.heads)
    (hjk : j ≠ k) {y : Nat} (hy : y ∈ L j) : y ∉ L k := by
  intro hy'
  have h1 := ((h.list j hj).2.2 y hy).1
  have h2 := ((h.list k hk).2.2 y hy').1
  rw [h1] at h2
  exact hjk (Option.some.inj h2)

end RelX

theorem hd_inj {j k : Nat} (h : hd j = hd k) : j = k := by unfold hd at h; omega
theorem hd_neg (k : Nat) : hd k < 0 := by unfold hd; omega

/-- **unlinking a free run** (`__remove_from_free`): the abstract state is unchanged, the run
joins the set `X` of momentarily unlinked free runs. -/
theorem remove_step {X : Nat → Prop} {t : Tab} {a : AS} {L : Nat → List Nat} (debug : Bool)
    (h : RelX X t a L) {k : Nat} (hk : (k : Int) < t.heads) {x : Nat} (hx : x ∈ L k) :
    removeFromFree debug t (hd k) (x : Int) = .ok (pRemoveFromFree t (hd k) (x : Int)) ∧
    RelX (fun y => X y ∨ y = x) (pRemoveFromFree t (hd k) (x : Int)) a (setL L k ((L k).erase x)) := by
  obtain ⟨hlk, hnd, hmem⟩ := h.list k hk
  obtain ⟨l1, l2, hsplit⟩ := List.append_of_mem hx
  have hb := h.hd_bounds hk
  have hU := h.units_list hk
  have hhR := h.inR_hd hk
  rw [hsplit] at hlk hnd hU
  have hne : ∀ y ∈ l1 ++ x :: l2, (y : Int) ≠ hd k := fun y _ => by have := hd_neg k; omega
  obtain ⟨e1, e2, e3⟩ := Links_remove hb.1 hhR x l2 l1 (hd k) (Or.inl rfl) hhR hU hnd hne hlk
  have herase : (L k).erase x = l1 ++ l2 := by
    rw [hsplit]
    have hx1 : x ∉ l1 := fun hm => by
      have := (List.nodup_append.mp hnd).2.2 x hm x (List.mem_cons_self ..)
      exact this rfl
    rw [List.erase_append_right _ hx1, List.erase_cons_head]
  -- the two written cells
  have hpR : (lastI (hd k) l1 = hd k ∨ (0 ≤ lastI (hd k) l1 ∧ lastI (hd k) l1 ≤ MAX_UNITS)) ∧ InR t (lastI (hd k) l1) := by
    rcases lastI_mem (hd k) l1 with e | ⟨y, hy, e⟩
    · rw [e]; exact ⟨Or.inl rfl, hhR⟩
    · rw [e]; have := hU y (List.mem_append_left _ hy); exact ⟨Or.inr ⟨by omega, this.1⟩, this.2⟩
  have hnR : (firstI l2 (hd k) = hd k ∨ (0 ≤ firstI l2 (hd k) ∧ firstI l2 (hd k) ≤ MAX_UNITS)) ∧ InR t (firstI l2 (hd k)) := by
    rcases firstI_mem l2 (hd k) with e | ⟨y, hy, e⟩
    · rw [e]; exact ⟨Or.inl rfl, hhR⟩
    · rw [e]; have := hU y (List.mem_append_right _ (List.mem_cons_of_mem _ hy)); exact ⟨Or.inr ⟨by omega, this.1⟩, this.2⟩
  have hxR : InR t (x : Int) := (hU x (List.mem_append_right _ (List.mem_cons_self ..))).2
  refine ⟨removeFromFree_ok debug hb.2 hxR (by rw [e1]; exact hnR) (by rw [e2]; exact hpR), ?_⟩
  unfold pRemoveFromFree
  rw [e1, e2]
  -- where the written cells can be
  have hp_cases : lastI (hd k) l1 = hd k ∨ ∃ y ∈ L k, lastI (hd k) l1 = (y : Int) := by
    rcases lastI_mem (hd k) l1 with e | ⟨y, hy, e⟩
    · exact Or.inl e
    · exact Or.inr ⟨y, by rw [hsplit]; exact List.mem_append_left _ hy, e⟩
  have hn_cases : firstI l2 (hd k) = hd k ∨ ∃ y ∈ L k, firstI l2 (hd k) = (y : Int) := by
    rcases firstI_mem l2 (hd k) with e | ⟨y, hy, e⟩
    · exact Or.inl e
    · exact Or.inr ⟨y, by rw [hsplit]; exact List.mem_append_right _ (List.mem_cons_of_mem _ hy), e⟩
  -- a cell strictly inside a run is not written
  have inside : ∀ {s e : Nat}, IsRun a s e → ∀ w : Int, (s : Int) < w → w < e →
      w ≠ lastI (hd k) l1 ∧ w ≠ firstI l2 (hd k) := by
    intro s e hr w h1 h2
    have hneg := hd_neg k
    constructor
    · rcases hp_cases with e | ⟨y, hy, e⟩
      · rw [e]; omega
      · rw [e]; have := h.mem_outside hk hy hr; omega
    · rcases hn_cases with e | ⟨y, hy, e⟩
      · rw [e]; omega
      · rw [e]; have := h.mem_outside hk hy hr; omega
  constructor
  · simpa using h.hpos
  · simpa using h.hle
  · simpa using h.size_eq
  · exact h.units_le
  · simpa using h.top_free
  · intro j hj; simpa using h.head_free j (by simpa using hj)
  · intro j hj; simpa using h.head_multi j (by simpa using hj)
  · intro u hu; simpa using h.unc u hu
  · intro s e hr
    have ok := h.run s e hr
    constructor
    · simpa using ok.multi
    · intro hm
      have i1 := inside hr ((s : Int) + 1) (by omega) (by omega)
      have i2 := inside hr ((e : Int) - 1) (by omega) (by omega)
      simp only [fNext_wPrev, fNext_wNext', fMulti_wPrev, fMulti_wNext', i1.1, i2.1, false_and, if_false]
      exact ok.sz hm
    · simpa using ok.free
    · exact ok.own
    · intro j hj
      obtain ⟨g1, g2⟩ := ok.mem j hj
      refine ⟨by simpa using g1, ?_⟩
      unfold setL
      by_cases hjk : j = k
      · subst hjk
        simp only [if_true, herase]
        rcases g2 with g | g
        · rw [hsplit] at g
          rcases List.mem_append.mp g with g | g
          · exact Or.inl (List.mem_append_left _ g)
          · rcases List.mem_cons.mp g with g | g
            · exact Or.inr (Or.inr g)
            · exact Or.inl (List.mem_append_right _ g)
        · exact Or.inr (Or.inl g)
      · simp only [hjk, if_false]
        rcases g2 with g | g
        · exact Or.inl g
        · exact Or.inr (Or.inl g)
  · intro j hj
    have hj' : (j : Int) < t.heads := by simpa using hj
    unfold setL
    by_cases hjk : j = k
    · subst hjk
      simp only [if_true, herase]
      refine ⟨e3, ?_, ?_⟩
      · have := List.nodup_append.mp hnd
        exact List.nodup_append.mpr ⟨this.1, (List.nodup_cons.mp this.2.1).2,
          fun a ha b hb => this.2.2 a ha b (List.mem_cons_of_mem _ hb)⟩
      · intro y hy
        have hy' : y ∈ L j := by
          rw [hsplit]
          rcases List.mem_append.mp hy with g | g
          · exact List.mem_append_left _ g
          · exact List.mem_append_right _ (List.mem_cons_of_mem _ g)
        obtain ⟨m1, m2, m3⟩ := hmem y hy'
        refine ⟨m1, ?_, m3⟩
        rintro (g | g)
        · exact m2 g
        · subst g
          have := List.nodup_append.mp hnd
          rcases List.mem_append.mp hy with g | g
          · exact this.2.2 y g y (List.mem_cons_self ..) rfl
          · exact (List.nodup_cons.mp this.2.1).1 g
    · simp only [hjk, if_false]
      obtain ⟨q1, q2, q3⟩ := h.list j hj'
      have hdj : hd j ≠ hd k := fun e => hjk (hd_inj e)
      have hw : ∀ w : Int, (w = hd j ∨ ∃ y ∈ L j, w = (y : Int)) →
          w ≠ lastI (hd k) l1 ∧ w ≠ firstI l2 (hd k) := by
        intro w hw
        have hneg := hd_neg k
        have hnegj := hd_neg j
        rcases hw with rfl | ⟨y, hy, rfl⟩
        · constructor
          · rcases hp_cases with e | ⟨z, _, e⟩
            · rw [e]; exact hdj
            · rw [e]; omega
          · rcases hn_cases with e | ⟨z, _, e⟩
            · rw [e]; exact hdj
            · rw [e]; omega
        · have hyk := h.list_disjoint hj' hk hjk hy
          constructor
          · rcases hp_cases with e | ⟨z, hz, e⟩
            · rw [e]; omega
            · rw [e]; intro e'; exact hyk (Int.ofNat_inj.mp e' ▸ hz)
          · rcases hn_cases with e | ⟨z, hz, e⟩
            · rw [e]; omega
            · rw [e]; intro e'; exact hyk (Int.ofNat_inj.mp e' ▸ hz)
      refine ⟨?_, q2, ?_⟩
      · apply Links_congr (L j) (hd j) _ _ _ _ q1
        · simp only [fNext_wPrev, fNext_wNext', (hw _ (Or.inl rfl)).1, false_and, if_false]
        · intro y hy
          simp only [fNext_wPrev, fNext_wNext', (hw _ (Or.inr ⟨y, hy, rfl⟩)).1, false_and, if_false]
        · simp only [fPrev_wPrev', fPrev_wNext, (hw _ (Or.inl rfl)).2, false_and, if_false]
        · intro y hy
          simp only [fPrev_wPrev', fPrev_wNext, (hw _ (Or.inr ⟨y, hy, rfl⟩)).2, false_and, if_false]
      · intro y hy
        obtain ⟨m1, m2, m3⟩ := q3 y hy
        refine ⟨m1, ?_, m3⟩
        rintro (g | g)
        · exact m2 g
        · subst g
          exact h.list_disjoint hj' hk hjk hy hx

theorem RelX.congrX {X X' : Nat → Prop} {t : Tab} {a : AS} {L : Nat → List Nat} (hX : ∀ y, X y ↔ X' y)
    (h : RelX X t a L) : RelX X' t a L := by
  have : X = X' := funext fun y => propext (hX y)
  exact this ▸ h

theorem Links_pSetFree {t : Tab} {h x : Int} {l : List Nat} (u : Int) (b : Bool) (hl : Links t h x l) :
    Links (pSetFree t u b) h x l :=
  Links_congr l x (by simp) (fun _ _ => by simp) (by simp) (fun _ _ => by simp) hl

/-- **taking a whole (unlinked) free run**: `set_free(unit, false)`; abstractly `alloc` of the
exact run. -/
theorem take_finish {t : Tab} {a : AS} {L : Nat → List Nat} {k s e : Nat}
    (h : RelX (fun y => y = s) t a L) (hr : IsRun a s e) (hown : a.own s = some k) :
    setFree t (s : Int) false = .ok (pSetFree t (s : Int) false) ∧
    Rel (pSetFree t (s : Int) false) (Runs.apply a (.alloc k s (e - s) e)) L := by
  have hse := hr.1
  have hlt := h.run_lt hr
  have ok := h.run s e hr
  have hsz := h.sizeOf_run hr
  have hsR : InR t (s : Int) := h.inR_nat (by omega)
  have hs1 : fMulti t (s : Int) = true → InR t ((s : Int) + 1) := by
    intro hm; rw [ok.multi] at hm
    have : s + 1 < e := by simpa using hm
    exact h.inR (by have := h.hpos; omega) (by omega)
  have hs2 : sizeOf t (s : Int) > 1 → InR t ((s : Int) + sizeOf t (s : Int) - 1) := by
    intro _; rw [hsz]; exact h.inR (by have := h.hpos; omega) (by omega)
  refine ⟨setFree_ok hsR hs1 hs2, ?_⟩
  have hF : ∀ w : Int, fFree (pSetFree t (s : Int) false) w =
      if w = (s : Int) ∨ (sizeOf t (s : Int) > 1 ∧ w = (s : Int) + sizeOf t (s : Int) - 1) then false else fFree t w :=
    fFree_pSetFree hsR hs2
  have hn : 1 ≤ e - s := by omega
  have hf : s + (e - s) ≤ e := by omega
  constructor
  · simpa using h.hpos
  · simpa using h.hle
  · simpa [Runs.apply] using h.size_eq
  · exact h.units_le
  · show fFree _ ((a.units : Nat) : Int) = false
    rw [hF]; split
    · rfl
    · exact h.top_free
  · intro j hj
    rw [hF]; split
    · rfl
    · exact h.head_free j (by simpa using hj)
  · intro j hj; simpa using h.head_multi j (by simpa using hj)
  · intro u hu; simpa [Runs.apply] using h.unc u hu
  · intro x y hxy
    rcases alloc_run_inv a hr hn hf hxy with ⟨rfl, rfl⟩ | ⟨_, _, h3⟩ | ⟨hxy', hd⟩
    · have e1 : x + (e - x) = e := by omega
      rw [e1]
      constructor
      · simpa using ok.multi
      · simpa using ok.sz
      · have c : x ≤ x ∧ x < x + (e - x) := by omega
        rw [hF]; simp only [true_or, if_true, Runs.apply, c, and_self]; rfl
      · intro u h1 h2
        have c : x ≤ x ∧ x < x + (e - x) := by omega
        have c' : x ≤ u ∧ u < x + (e - x) := by omega
        simp only [Runs.apply, c, c', and_self, if_true]
      · intro j hj
        have c : x ≤ x ∧ x < x + (e - x) := by omega
        simp only [Runs.apply, c, and_self, if_true] at hj
        cases hj
    · omega
    · have ok' := h.run x y hxy'
      have hxy1 := hxy'.1
      constructor
      · simpa using ok'.multi
      · simpa using ok'.sz
      · rw [hF, hsz]
        have c1 : ¬ ((x : Int) = (s : Int) ∨ ((e : Int) - s > 1 ∧ (x : Int) = (s : Int) + ((e : Int) - s) - 1)) := by omega
        have c2 : ¬ (s ≤ x ∧ x < s + (e - s)) := by omega
        simp only [c1, if_false, Runs.apply, c2]
        exact ok'.free
      · intro u h1 h2
        have c2 : ¬ (s ≤ x ∧ x < s + (e - s)) := by omega
        have c3 : ¬ (s ≤ u ∧ u < s + (e - s)) := by omega
        simp only [Runs.apply, c2, c3, if_false]
        exact ok'.own u h1 h2
      · intro j hj
        have c2 : ¬ (s ≤ x ∧ x < s + (e - s)) := by omega
        simp only [Runs.apply, c2, if_false] at hj
        obtain ⟨g1, g2⟩ := ok'.mem j hj
        refine ⟨by simpa using g1, ?_⟩
        rcases g2 with g | g
        · exact Or.inl g
        · omega
  · intro j hj
    have hj' : (j : Int) < t.heads := by simpa using hj
    obtain ⟨q1, q2, q3⟩ := h.list j hj'
    refine ⟨Links_pSetFree _ _ q1, q2, ?_⟩
    intro x hx
    obtain ⟨m1, m2, y, m3⟩ := q3 x hx
    have hout := h.start_outside hr m3
    have hxs : x ≠ s := m2
    have c2 : ¬ (s ≤ x ∧ x < s + (e - s)) := by omega
    refine ⟨by simp only [Runs.apply, c2, if_false]; exact m1, fun f => f, y, ?_⟩
    rcases run_eq_or_disjoint a hr m3 with ⟨e1, _⟩ | hd | hd
    · omega
    · exact alloc_run_other a hr hn hf m3 (Or.inl hd)
    · exact alloc_run_other a hr hn hf m3 (Or.inr hd)

end Mmtk.FreeList
