/-!
# Bit-mask lemmas over `Nat` used by several properties (no Mathlib; core only)
-/
namespace Mmtk.Bits

/-- Clearing the low `k` bits of a 64-bit value: `x & !(2^k - 1) = x - x % 2^k`. -/
theorem and_not_mask (x k : Nat) (hk : k ≤ 64) (hx : x < 2^64) :
    x &&& (2^64 - 2^k) = x - x % 2^k := by
  have h1 : x - x % 2^k = 2^k * (x / 2^k) := by
    have := Nat.div_add_mod x (2^k); omega
  have h2 : 2^64 - 2^k = 2^k * (2^(64-k) - 1) := by
    have : (2:Nat)^64 = 2^k * 2^(64-k) := by rw [← Nat.pow_add]; congr 1; omega
    rw [Nat.mul_sub, Nat.mul_one, this]
  rw [h1, h2]
  apply Nat.eq_of_testBit_eq
  intro i
  rw [Nat.testBit_and, Nat.testBit_two_pow_mul, Nat.testBit_two_pow_mul, Nat.testBit_two_pow_sub_one]
  by_cases hik : i ≥ k
  · simp [hik]
    rw [← Nat.shiftRight_eq_div_pow, Nat.testBit_shiftRight]
    have : k + (i - k) = i := by omega
    rw [this]
    by_cases hi : i < 64
    · have : i - k < 64 - k := by omega
      simp [this]
    · have hx' : x.testBit i = false := by
        apply Nat.testBit_lt_two_pow
        calc x < 2^64 := hx
          _ ≤ 2^i := Nat.pow_le_pow_right (by omega) (by omega)
      simp [hx']
  · simp [hik]

theorem two_pow_le_64 {k : Nat} (hk : k ≤ 64) : 2^k ≤ 2^64 :=
  Nat.pow_le_pow_right (by omega) hk

theorem two_pow_lt_64 {k : Nat} (hk : k < 64) : 2^k < 2^64 :=
  Nat.pow_lt_pow_right (by omega) hk

theorem two_pow_dvd_64 {k : Nat} (hk : k ≤ 64) : 2^k ∣ 2^64 :=
  Nat.pow_dvd_pow 2 hk

/-- `x - x % d` is the greatest multiple of `d` below `x`. -/
theorem sub_mod_dvd (x d : Nat) : d ∣ x - x % d := by
  have := Nat.div_add_mod x d
  exact ⟨x / d, by omega⟩

end Mmtk.Bits
