import MmtkModel.Lemmas.FreeListBits
/-!
# The table as two total functions `loC`, `hiC : Int → Nat` (C26, concrete layer)

`InR t u` — unit `u` (heads are negative units) has its two entries inside the array.  Reads of an
in-range unit succeed and return `loC` / `hiC`; writes succeed and are the pure updates `updLo` /
`updHi`, whose effect on `loC` / `hiC` is a pointwise function update.  Then every composite method
of `Mmtk.FreeList` is shown equal to `.ok` of a pure function on tables (`*_ok` lemmas).
-/
namespace Mmtk.FreeList

def InR (t : Tab) (u : Int) : Prop := 0 ≤ u + t.heads ∧ 2 * (u + t.heads) + 1 < t.cells.size

instance (t : Tab) (u : Int) : Decidable (InR t u) := by unfold InR; infer_instance

def loC (t : Tab) (u : Int) : Nat := if InR t u then t.cells.getD (2 * (u + t.heads)).toNat 0 else 0
def hiC (t : Tab) (u : Int) : Nat := if InR t u then t.cells.getD (2 * (u + t.heads) + 1).toNat 0 else 0

def updLo (t : Tab) (u : Int) (v : Nat) : Tab :=
  if InR t u then { t with cells := t.cells.setIfInBounds (2 * (u + t.heads)).toNat v } else t
def updHi (t : Tab) (u : Int) (v : Nat) : Tab :=
  if InR t u then { t with cells := t.cells.setIfInBounds (2 * (u + t.heads) + 1).toNat v } else t

@[simp] theorem heads_updLo (t : Tab) (u v) : (updLo t u v).heads = t.heads := by
  unfold updLo; split <;> rfl
@[simp] theorem heads_updHi (t : Tab) (u v) : (updHi t u v).heads = t.heads := by
  unfold updHi; split <;> rfl
@[simp] theorem size_updLo (t : Tab) (u v) : (updLo t u v).cells.size = t.cells.size := by
  unfold updLo; split <;> simp
@[simp] theorem size_updHi (t : Tab) (u v) : (updHi t u v).cells.size = t.cells.size := by
  unfold updHi; split <;> simp
@[simp] theorem InR_updLo (t : Tab) (u v w) : InR (updLo t u v) w ↔ InR t w := by
  simp [InR]
@[simp] theorem InR_updHi (t : Tab) (u v w) : InR (updHi t u v) w ↔ InR t w := by
  simp [InR]

theorem getLo_ok {t : Tab} {u : Int} (h : InR t u) : getLo t u = .ok (loC t u) := by
  have h0 := h
  unfold InR at h
  have h' : 0 ≤ 2 * (u + t.heads) ∧ 2 * (u + t.heads) < t.cells.size := by omega
  simp [getLo, getEntry, loC, h0, h']
theorem getHi_ok {t : Tab} {u : Int} (h : InR t u) : getHi t u = .ok (hiC t u) := by
  have h0 := h
  unfold InR at h
  have h' : 0 ≤ 2 * (u + t.heads) + 1 ∧ 2 * (u + t.heads) + 1 < t.cells.size := by omega
  simp [getHi, getEntry, hiC, h0, h']
theorem setLo_ok {t : Tab} {u : Int} (h : InR t u) (v : Nat) : setLo t u v = .ok (updLo t u v) := by
  have h0 := h
  unfold InR at h
  have h' : 0 ≤ 2 * (u + t.heads) ∧ 2 * (u + t.heads) < t.cells.size := by omega
  simp [setLo, setEntry, updLo, h0, h']
theorem setHi_ok {t : Tab} {u : Int} (h : InR t u) (v : Nat) : setHi t u v = .ok (updHi t u v) := by
  have h0 := h
  unfold InR at h
  have h' : 0 ≤ 2 * (u + t.heads) + 1 ∧ 2 * (u + t.heads) + 1 < t.cells.size := by omega
  simp [setHi, setEntry, updHi, h0, h']

theorem loC_updLo {t : Tab} {u : Int} (h : InR t u) (v : Nat) (w : Int) :
    loC (updLo t u v) w = if w = u then v else loC t w := by
  by_cases hw : InR t w
  · have hw' := hw
    have h0 := h
    unfold InR at h hw'
    simp only [loC, InR_updLo, hw, if_true]
    by_cases e : w = u
    · subst e
      have : (2 * (w + t.heads)).toNat < t.cells.size := by omega
      simp [updLo, h0, this]
    · have : (2 * (u + t.heads)).toNat ≠ (2 * (w + t.heads)).toNat := by omega
      simp [updLo, h0, e, Array.getElem?_setIfInBounds_ne this]
  · have e : w ≠ u := fun e => hw (e ▸ h)
    simp [loC, hw, e]

theorem hiC_updHi {t : Tab} {u : Int} (h : InR t u) (v : Nat) (w : Int) :
    hiC (updHi t u v) w = if w = u then v else hiC t w := by
  by_cases hw : InR t w
  · have hw' := hw
    have h0 := h
    unfold InR at h hw'
    simp only [hiC, InR_updHi, hw, if_true]
    by_cases e : w = u
    · subst e
      have : (2 * (w + t.heads) + 1).toNat < t.cells.size := by omega
      simp [updHi, h0, this]
    · have : (2 * (u + t.heads) + 1).toNat ≠ (2 * (w + t.heads) + 1).toNat := by omega
      simp [updHi, h0, e, Array.getElem?_setIfInBounds_ne this]
  · have e : w ≠ u := fun e => hw (e ▸ h)
    simp [hiC, hw, e]

@[simp] theorem loC_updHi (t : Tab) (u : Int) (v : Nat) (w : Int) : loC (updHi t u v) w = loC t w := by
  by_cases hu : InR t u
  · by_cases hw : InR t w
    · have hw' := hw
      have hu' := hu
      unfold InR at hw' hu'
      have : (2 * (u + t.heads) + 1).toNat ≠ (2 * (w + t.heads)).toNat := by omega
      simp only [loC, InR_updHi, hw, if_true]
      simp [updHi, hu, Array.getElem?_setIfInBounds_ne this]
    · simp [loC, hw]
  · simp [updHi, hu]

@[simp] theorem hiC_updLo (t : Tab) (u : Int) (v : Nat) (w : Int) : hiC (updLo t u v) w = hiC t w := by
  by_cases hu : InR t u
  · by_cases hw : InR t w
    · have hw' := hw
      have hu' := hu
      unfold InR at hw' hu'
      have : (2 * (u + t.heads)).toNat ≠ (2 * (w + t.heads) + 1).toNat := by omega
      simp only [hiC, InR_updLo, hw, if_true]
      simp [updLo, hu, Array.getElem?_setIfInBounds_ne this]
    · simp [hiC, hw]
  · simp [updLo, hu]

/-! ## fields and semantic writes -/

/-- `FREE` flag (bit 31 of the lo entry) -/
def fFree (t : Tab) (w : Int) : Bool := (loC t w).testBit 31
/-- uncoalescable mark (bit 30 of the lo entry) -/
def fUnc (t : Tab) (w : Int) : Bool := (loC t w).testBit 30
/-- raw `prev` link (low 30 bits of the lo entry) -/
def fPrev (t : Tab) (w : Int) : Nat := loC t w % 2 ^ 30
/-- `MULTI` flag (bit 31 of the hi entry) -/
def fMulti (t : Tab) (w : Int) : Bool := (hiC t w).testBit 31
/-- raw `next` link / size field (low 30 bits of the hi entry) -/
def fNext (t : Tab) (w : Int) : Nat := hiC t w % 2 ^ 30

/-- the 30-bit pattern a link / size value is stored as -/
def lk (v : Int) : Nat := enc v % 2 ^ 30

def wFree (t : Tab) (u : Int) (b : Bool) : Tab :=
  updLo t u (if b then loC t u ||| B31 else loC t u &&& NOT_B31)
def wUnc (t : Tab) (u : Int) (b : Bool) : Tab :=
  updLo t u (if b then loC t u ||| B30 else loC t u &&& NOT_B30)
def wPrev (t : Tab) (u : Int) (v : Int) : Tab :=
  updLo t u ((loC t u &&& NOT_M30) ||| (enc v &&& M30))
def wMulti (t : Tab) (u : Int) (b : Bool) : Tab :=
  updHi t u (if b then hiC t u ||| B31 else hiC t u &&& NOT_B31)
def wNext (t : Tab) (u : Int) (v : Int) : Tab :=
  updHi t u ((hiC t u &&& NOT_M30) ||| (enc v &&& M30))
def wSize (t : Tab) (u : Int) (sz : Int) : Tab := updHi t u (B31 ||| enc sz)

section frame
variable (t : Tab) (u : Int) (b : Bool) (v : Int) (w : Int)
@[simp] theorem heads_wFree : (wFree t u b).heads = t.heads := by simp [wFree]
@[simp] theorem heads_wUnc : (wUnc t u b).heads = t.heads := by simp [wUnc]
@[simp] theorem heads_wPrev : (wPrev t u v).heads = t.heads := by simp [wPrev]
@[simp] theorem heads_wMulti : (wMulti t u b).heads = t.heads := by simp [wMulti]
@[simp] theorem heads_wNext : (wNext t u v).heads = t.heads := by simp [wNext]
@[simp] theorem heads_wSize : (wSize t u v).heads = t.heads := by simp [wSize]
@[simp] theorem size_wFree : (wFree t u b).cells.size = t.cells.size := by simp [wFree]
@[simp] theorem size_wUnc : (wUnc t u b).cells.size = t.cells.size := by simp [wUnc]
@[simp] theorem size_wPrev : (wPrev t u v).cells.size = t.cells.size := by simp [wPrev]
@[simp] theorem size_wMulti : (wMulti t u b).cells.size = t.cells.size := by simp [wMulti]
@[simp] theorem size_wNext : (wNext t u v).cells.size = t.cells.size := by simp [wNext]
@[simp] theorem size_wSize : (wSize t u v).cells.size = t.cells.size := by simp [wSize]
@[simp] theorem InR_wFree : InR (wFree t u b) w ↔ InR t w := by simp [wFree]
@[simp] theorem InR_wUnc : InR (wUnc t u b) w ↔ InR t w := by simp [wUnc]
@[simp] theorem InR_wPrev : InR (wPrev t u v) w ↔ InR t w := by simp [wPrev]
@[simp] theorem InR_wMulti : InR (wMulti t u b) w ↔ InR t w := by simp [wMulti]
@[simp] theorem InR_wNext : InR (wNext t u v) w ↔ InR t w := by simp [wNext]
@[simp] theorem InR_wSize : InR (wSize t u v) w ↔ InR t w := by simp [wSize]

/-! writes to the lo entry leave the hi fields alone and vice versa -/
@[simp] theorem fMulti_wFree : fMulti (wFree t u b) w = fMulti t w := by simp [fMulti, wFree]
@[simp] theorem fMulti_wUnc : fMulti (wUnc t u b) w = fMulti t w := by simp [fMulti, wUnc]
@[simp] theorem fMulti_wPrev : fMulti (wPrev t u v) w = fMulti t w := by simp [fMulti, wPrev]
@[simp] theorem fNext_wFree : fNext (wFree t u b) w = fNext t w := by simp [fNext, wFree]
@[simp] theorem fNext_wUnc : fNext (wUnc t u b) w = fNext t w := by simp [fNext, wUnc]
@[simp] theorem fNext_wPrev : fNext (wPrev t u v) w = fNext t w := by simp [fNext, wPrev]
@[simp] theorem fFree_wMulti : fFree (wMulti t u b) w = fFree t w := by simp [fFree, wMulti]
@[simp] theorem fFree_wNext : fFree (wNext t u v) w = fFree t w := by simp [fFree, wNext]
@[simp] theorem fFree_wSize : fFree (wSize t u v) w = fFree t w := by simp [fFree, wSize]
@[simp] theorem fUnc_wMulti : fUnc (wMulti t u b) w = fUnc t w := by simp [fUnc, wMulti]
@[simp] theorem fUnc_wNext : fUnc (wNext t u v) w = fUnc t w := by simp [fUnc, wNext]
@[simp] theorem fUnc_wSize : fUnc (wSize t u v) w = fUnc t w := by simp [fUnc, wSize]
@[simp] theorem fPrev_wMulti : fPrev (wMulti t u b) w = fPrev t w := by simp [fPrev, wMulti]
@[simp] theorem fPrev_wNext : fPrev (wNext t u v) w = fPrev t w := by simp [fPrev, wNext]
@[simp] theorem fPrev_wSize : fPrev (wSize t u v) w = fPrev t w := by simp [fPrev, wSize]
end frame

section lo
variable {t : Tab} {u : Int} (h : InR t u) (b : Bool) (v : Int) (w : Int)
include h
theorem fFree_wFree : fFree (wFree t u b) w = if w = u then b else fFree t w := by
  simp only [fFree, wFree, loC_updLo h]
  split
  · subst_vars; cases b <;> simp only [Bool.false_eq_true, if_false, if_true, or_B31_t31, and_NOT_B31_t31]
  · rfl
theorem fUnc_wFree : fUnc (wFree t u b) w = fUnc t w := by
  simp only [fUnc, wFree, loC_updLo h]
  split
  · subst_vars; cases b <;> simp only [Bool.false_eq_true, if_false, if_true, or_B31_t30, and_NOT_B31_t30]
  · rfl
theorem fPrev_wFree : fPrev (wFree t u b) w = fPrev t w := by
  simp only [fPrev, wFree, loC_updLo h]
  split
  · subst_vars; cases b <;> simp only [Bool.false_eq_true, if_false, if_true, or_B31_lnk, and_NOT_B31_lnk]
  · rfl
theorem fFree_wUnc : fFree (wUnc t u b) w = fFree t w := by
  simp only [fFree, wUnc, loC_updLo h]
  split
  · subst_vars; cases b <;> simp only [Bool.false_eq_true, if_false, if_true, or_B30_t31, and_NOT_B30_t31]
  · rfl
theorem fUnc_wUnc : fUnc (wUnc t u b) w = if w = u then b else fUnc t w := by
  simp only [fUnc, wUnc, loC_updLo h]
  split
  · subst_vars; cases b <;> simp only [Bool.false_eq_true, if_false, if_true, or_B30_t30, and_NOT_B30_t30]
  · rfl
theorem fPrev_wUnc : fPrev (wUnc t u b) w = fPrev t w := by
  simp only [fPrev, wUnc, loC_updLo h]
  split
  · subst_vars; cases b <;> simp only [Bool.false_eq_true, if_false, if_true, or_B30_lnk, and_NOT_B30_lnk]
  · rfl
theorem fFree_wPrev : fFree (wPrev t u v) w = fFree t w := by
  simp only [fFree, wPrev, loC_updLo h]
  split
  · subst_vars; simp only [setLink_t31]
  · rfl
theorem fUnc_wPrev : fUnc (wPrev t u v) w = fUnc t w := by
  simp only [fUnc, wPrev, loC_updLo h]
  split
  · subst_vars; simp only [setLink_t30]
  · rfl
theorem fPrev_wPrev : fPrev (wPrev t u v) w = if w = u then lk v else fPrev t w := by
  simp only [fPrev, wPrev, loC_updLo h]
  split
  · simp only [setLink_lnk, lk]
  · rfl
end lo

section hi
variable {t : Tab} {u : Int} (h : InR t u) (b : Bool) (v : Int) (w : Int)
include h
theorem fMulti_wMulti : fMulti (wMulti t u b) w = if w = u then b else fMulti t w := by
  simp only [fMulti, wMulti, hiC_updHi h]
  split
  · subst_vars; cases b <;> simp only [Bool.false_eq_true, if_false, if_true, or_B31_t31, and_NOT_B31_t31]
  · rfl
theorem fNext_wMulti : fNext (wMulti t u b) w = fNext t w := by
  simp only [fNext, wMulti, hiC_updHi h]
  split
  · subst_vars; cases b <;> simp only [Bool.false_eq_true, if_false, if_true, or_B31_lnk, and_NOT_B31_lnk]
  · rfl
theorem fMulti_wNext : fMulti (wNext t u v) w = fMulti t w := by
  simp only [fMulti, wNext, hiC_updHi h]
  split
  · subst_vars; simp only [setLink_t31]
  · rfl
theorem fNext_wNext : fNext (wNext t u v) w = if w = u then lk v else fNext t w := by
  simp only [fNext, wNext, hiC_updHi h]
  split
  · simp only [setLink_lnk, lk]
  · rfl
theorem fMulti_wSize : fMulti (wSize t u v) w = if w = u then true else fMulti t w := by
  simp only [fMulti, wSize, hiC_updHi h]
  split
  · simp only [B31_or_t31]
  · rfl
theorem fNext_wSize : fNext (wSize t u v) w = if w = u then lk v else fNext t w := by
  simp only [fNext, wSize, hiC_updHi h]
  split
  · simp only [B31_or_lnk, lk]
  · rfl
end hi

/-! unconditional forms (a write to an out-of-range unit is the identity) — the `simp` set -/
theorem updLo_out {t : Tab} {u : Int} (h : ¬ InR t u) (v : Nat) : updLo t u v = t := by simp [updLo, h]
theorem updHi_out {t : Tab} {u : Int} (h : ¬ InR t u) (v : Nat) : updHi t u v = t := by simp [updHi, h]

section uncond
variable (t : Tab) (u : Int) (b : Bool) (v : Int) (w : Int)
@[simp] theorem fFree_wFree' : fFree (wFree t u b) w = if w = u ∧ InR t u then b else fFree t w := by
  by_cases h : InR t u
  · simp only [fFree_wFree h, h, and_true]
  · simp [wFree, updLo_out h, h]
@[simp] theorem fUnc_wFree' : fUnc (wFree t u b) w = fUnc t w := by
  by_cases h : InR t u
  · exact fUnc_wFree h b w
  · simp [wFree, updLo_out h]
@[simp] theorem fPrev_wFree' : fPrev (wFree t u b) w = fPrev t w := by
  by_cases h : InR t u
  · exact fPrev_wFree h b w
  · simp [wFree, updLo_out h]
@[simp] theorem fFree_wUnc' : fFree (wUnc t u b) w = fFree t w := by
  by_cases h : InR t u
  · exact fFree_wUnc h b w
  · simp [wUnc, updLo_out h]
@[simp] theorem fUnc_wUnc' : fUnc (wUnc t u b) w = if w = u ∧ InR t u then b else fUnc t w := by
  by_cases h : InR t u
  · simp only [fUnc_wUnc h, h, and_true]
  · simp [wUnc, updLo_out h, h]
@[simp] theorem fPrev_wUnc' : fPrev (wUnc t u b) w = fPrev t w := by
  by_cases h : InR t u
  · exact fPrev_wUnc h b w
  · simp [wUnc, updLo_out h]
@[simp] theorem fFree_wPrev' : fFree (wPrev t u v) w = fFree t w := by
  by_cases h : InR t u
  · exact fFree_wPrev h v w
  · simp [wPrev, updLo_out h]
@[simp] theorem fUnc_wPrev' : fUnc (wPrev t u v) w = fUnc t w := by
  by_cases h : InR t u
  · exact fUnc_wPrev h v w
  · simp [wPrev, updLo_out h]
@[simp] theorem fPrev_wPrev' : fPrev (wPrev t u v) w = if w = u ∧ InR t u then lk v else fPrev t w := by
  by_cases h : InR t u
  · simp only [fPrev_wPrev h, h, and_true]
  · simp [wPrev, updLo_out h, h]
@[simp] theorem fMulti_wMulti' : fMulti (wMulti t u b) w = if w = u ∧ InR t u then b else fMulti t w := by
  by_cases h : InR t u
  · simp only [fMulti_wMulti h, h, and_true]
  · simp [wMulti, updHi_out h, h]
@[simp] theorem fNext_wMulti' : fNext (wMulti t u b) w = fNext t w := by
  by_cases h : InR t u
  · exact fNext_wMulti h b w
  · simp [wMulti, updHi_out h]
@[simp] theorem fMulti_wNext' : fMulti (wNext t u v) w = fMulti t w := by
  by_cases h : InR t u
  · exact fMulti_wNext h v w
  · simp [wNext, updHi_out h]
@[simp] theorem fNext_wNext' : fNext (wNext t u v) w = if w = u ∧ InR t u then lk v else fNext t w := by
  by_cases h : InR t u
  · simp only [fNext_wNext h, h, and_true]
  · simp [wNext, updHi_out h, h]
@[simp] theorem fMulti_wSize' : fMulti (wSize t u v) w = if w = u ∧ InR t u then true else fMulti t w := by
  by_cases h : InR t u
  · simp only [fMulti_wSize h, h, and_true]
  · simp [wSize, updHi_out h, h]
@[simp] theorem fNext_wSize' : fNext (wSize t u v) w = if w = u ∧ InR t u then lk v else fNext t w := by
  by_cases h : InR t u
  · simp only [fNext_wSize h, h, and_true]
  · simp [wSize, updHi_out h, h]
end uncond

/-! ## links -/

/-- decode a stored link: a value above `MAX_UNITS` stands for the head of the list being walked -/
def dl (head : Int) (x : Nat) : Int := if (x : Int) ≤ MAX_UNITS then (x : Int) else head

theorem lk_unit {v : Int} (h0 : 0 ≤ v) (h1 : v ≤ MAX_UNITS) : (lk v : Int) = v := by
  simp only [MAX_UNITS] at h1
  simp only [lk, enc]; omega
theorem dl_lk_unit (head : Int) {v : Int} (h0 : 0 ≤ v) (h1 : v ≤ MAX_UNITS) : dl head (lk v) = v := by
  simp only [dl, lk_unit h0 h1, h1, if_true]
theorem dl_lk_head (head : Int) {v : Int} (h0 : -128 ≤ v) (h1 : v < 0) : dl head (lk v) = head := by
  have : ¬ ((lk v : Nat) : Int) ≤ MAX_UNITS := by
    simp only [MAX_UNITS, lk, enc]; omega
  simp only [dl, this, if_false]

def nxt (t : Tab) (head u : Int) : Int := dl head (fNext t u)
def prv (t : Tab) (head u : Int) : Int := dl head (fPrev t u)
/-- `get_size` as a function of the fields -/
def sizeOf (t : Tab) (u : Int) : Int := if fMulti t u then (fNext t (u + 1) : Int) else 1
/-- `get_left` as a function of the fields -/
def leftOf (t : Tab) (u : Int) : Int := if fMulti t (u - 1) then u - (fNext t (u - 1) : Int) else u - 1

/-! ## the primitive methods are `.ok` of the semantic reads / writes -/

theorem getFree_ok {t : Tab} {u : Int} (h : InR t u) : getFree t u = .ok (fFree t u) := by
  simp [getFree, getLo_ok h, bind, Except.bind, pure, Except.pure, and_B31_beq, fFree]
theorem isCoalescable_ok {t : Tab} {u : Int} (h : InR t u) : isCoalescable t u = .ok (!fUnc t u) := by
  simp [isCoalescable, getLo_ok h, bind, Except.bind, pure, Except.pure, and_B30_beq, fUnc]
theorem getNext_ok {t : Tab} {u : Int} (h : InR t u) (head : Int) : getNext t head u = .ok (nxt t head u) := by
  unfold getNext
  rw [getHi_ok h]
  simp only [bind, Except.bind, pure, Except.pure, and_M30]
  rfl
theorem getPrev_ok {t : Tab} {u : Int} (h : InR t u) (head : Int) : getPrev t head u = .ok (prv t head u) := by
  unfold getPrev
  rw [getLo_ok h]
  simp only [bind, Except.bind, pure, Except.pure, and_M30]
  rfl
theorem getSize_ok {t : Tab} {u : Int} (h : InR t u) (h1 : fMulti t u = true → InR t (u + 1)) :
    getSize t u = .ok (sizeOf t u) := by
  unfold getSize sizeOf
  simp only [getHi_ok h, bind, Except.bind, and_B31_beq]
  by_cases hm : fMulti t u = true
  · have hm' : (hiC t u).testBit 31 = true := hm
    simp [hm, hm', getHi_ok (h1 hm), pure, Except.pure, and_M30, fNext]
  · have hm' : (hiC t u).testBit 31 = false := by simpa [fMulti] using hm
    simp [hm, hm', pure, Except.pure]
theorem getLeft_ok {t : Tab} {u : Int} (h : InR t (u - 1)) : getLeft t u = .ok (leftOf t u) := by
  unfold getLeft
  rw [getHi_ok h]
  simp only [bind, Except.bind, pure, Except.pure, and_M30, and_B31_beq]
  rfl
theorem setNext_ok {t : Tab} {u : Int} (h : InR t u) (debug : Bool) {v : Int}
    (hv : -t.heads ≤ v ∧ v ≤ MAX_UNITS) : setNext debug t u v = .ok (wNext t u v) := by
  have : (decide (v ≥ -t.heads) && decide (v ≤ MAX_UNITS)) = true := by simp [hv.1, hv.2]
  simp [setNext, this, getHi_ok h, setHi_ok h, bind, Except.bind, wNext]
theorem setPrev_ok {t : Tab} {u : Int} (h : InR t u) (debug : Bool) {v : Int}
    (hv : -t.heads ≤ v ∧ v ≤ MAX_UNITS) : setPrev debug t u v = .ok (wPrev t u v) := by
  have : (decide (v ≥ -t.heads) && decide (v ≤ MAX_UNITS)) = true := by simp [hv.1, hv.2]
  simp [setPrev, this, getLo_ok h, setLo_ok h, bind, Except.bind, wPrev]
theorem setUncoalescable_ok {t : Tab} {u : Int} (h : InR t u) : setUncoalescable t u = .ok (wUnc t u true) := by
  simp [setUncoalescable, getLo_ok h, setLo_ok h, bind, Except.bind, wUnc]
theorem clearUncoalescable_ok {t : Tab} {u : Int} (h : InR t u) : clearUncoalescable t u = .ok (wUnc t u false) := by
  simp [clearUncoalescable, getLo_ok h, setLo_ok h, bind, Except.bind, wUnc]

/-- `set_size` -/
def pSetSize (t : Tab) (u sz : Int) : Tab :=
  if sz > 1 then wSize (wSize (wMulti t u true) (u + 1) sz) (u + sz - 1) sz else wMulti t u false

theorem setSize_ok {t : Tab} {u sz : Int} (h : InR t u) (h1 : sz > 1 → InR t (u + 1) ∧ InR t (u + sz - 1)) :
    setSize t u sz = .ok (pSetSize t u sz) := by
  unfold setSize pSetSize
  simp only [getHi_ok h, bind, Except.bind]
  by_cases hs : sz > 1
  · obtain ⟨ha, hb⟩ := h1 hs
    have e1 : setHi t u (hiC t u ||| B31) = .ok (wMulti t u true) := by simp [setHi_ok h, wMulti]
    have ha' : InR (wMulti t u true) (u + 1) := by simpa using ha
    have hb' : InR (wSize (wMulti t u true) (u + 1) sz) (u + sz - 1) := by simpa using hb
    have e2 : setHi (wMulti t u true) (u + 1) (B31 ||| enc sz) = .ok (wSize (wMulti t u true) (u + 1) sz) :=
      setHi_ok ha' _
    have e3 : setHi (wSize (wMulti t u true) (u + 1) sz) (u + sz - 1) (B31 ||| enc sz) =
        .ok (wSize (wSize (wMulti t u true) (u + 1) sz) (u + sz - 1) sz) := setHi_ok hb' _
    simp only [hs, if_true, e1, e2, e3]
  · simp [hs, setHi_ok h, wMulti]

/-- `set_free` -/
def pSetFree (t : Tab) (u : Int) (b : Bool) : Tab :=
  if sizeOf t u > 1 then wFree (wFree t u b) (u + sizeOf t u - 1) b else wFree t u b

theorem sizeOf_wFree (t : Tab) (u : Int) (b : Bool) (w : Int) : sizeOf (wFree t u b) w = sizeOf t w := by
  simp [sizeOf]

theorem setFree_ok {t : Tab} {u : Int} {b : Bool} (h : InR t u) (h1 : fMulti t u = true → InR t (u + 1))
    (h2 : sizeOf t u > 1 → InR t (u + sizeOf t u - 1)) : setFree t u b = .ok (pSetFree t u b) := by
  unfold setFree pSetFree
  have hsz : ∀ b, getSize (wFree t u b) u = .ok (sizeOf t u) := by
    intro b
    rw [getSize_ok (by simpa using h) (by simpa using h1), sizeOf_wFree]
  have e1 : setLo t u (loC t u ||| B31) = .ok (wFree t u true) := by simp [setLo_ok h, wFree]
  have e2 : setLo t u (loC t u &&& NOT_B31) = .ok (wFree t u false) := by simp [setLo_ok h, wFree]
  simp only [getLo_ok h, bind, Except.bind]
  cases b
  · simp only [Bool.false_eq_true, if_false, e2, hsz]
    by_cases hs : sizeOf t u > 1
    · have hi : InR (wFree t u false) (u + sizeOf t u - 1) := by simpa using h2 hs
      have e3 : setLo (wFree t u false) (u + sizeOf t u - 1) (loC (wFree t u false) (u + sizeOf t u - 1) &&& NOT_B31)
          = .ok (wFree (wFree t u false) (u + sizeOf t u - 1) false) := setLo_ok hi _
      simp only [hs, if_true, getLo_ok hi, e3]
    · simp [hs, pure, Except.pure]
  · simp only [if_true, e1, hsz]
    by_cases hs : sizeOf t u > 1
    · have hi : InR (wFree t u true) (u + sizeOf t u - 1) := by simpa using h2 hs
      have e3 : setLo (wFree t u true) (u + sizeOf t u - 1) (loC (wFree t u true) (u + sizeOf t u - 1) ||| B31)
          = .ok (wFree (wFree t u true) (u + sizeOf t u - 1) true) := setLo_ok hi _
      simp only [hs, if_true, getLo_ok hi, e3]
    · simp [hs, pure, Except.pure]

/-! fields of `pSetSize` / `pSetFree` -/
section psets
variable (t : Tab) (u sz : Int) (b : Bool) (w : Int)
@[simp] theorem heads_pSetSize : (pSetSize t u sz).heads = t.heads := by unfold pSetSize; split <;> simp
@[simp] theorem size_pSetSize : (pSetSize t u sz).cells.size = t.cells.size := by unfold pSetSize; split <;> simp
@[simp] theorem InR_pSetSize : InR (pSetSize t u sz) w ↔ InR t w := by simp [InR]
@[simp] theorem fFree_pSetSize : fFree (pSetSize t u sz) w = fFree t w := by unfold pSetSize; split <;> simp
@[simp] theorem fUnc_pSetSize : fUnc (pSetSize t u sz) w = fUnc t w := by unfold pSetSize; split <;> simp
@[simp] theorem fPrev_pSetSize : fPrev (pSetSize t u sz) w = fPrev t w := by unfold pSetSize; split <;> simp
@[simp] theorem heads_pSetFree : (pSetFree t u b).heads = t.heads := by unfold pSetFree; split <;> simp
@[simp] theorem size_pSetFree : (pSetFree t u b).cells.size = t.cells.size := by unfold pSetFree; split <;> simp
@[simp] theorem InR_pSetFree : InR (pSetFree t u b) w ↔ InR t w := by simp [InR]
@[simp] theorem fUnc_pSetFree : fUnc (pSetFree t u b) w = fUnc t w := by unfold pSetFree; split <;> simp
@[simp] theorem fPrev_pSetFree : fPrev (pSetFree t u b) w = fPrev t w := by unfold pSetFree; split <;> simp
@[simp] theorem fMulti_pSetFree : fMulti (pSetFree t u b) w = fMulti t w := by unfold pSetFree; split <;> simp
@[simp] theorem fNext_pSetFree : fNext (pSetFree t u b) w = fNext t w := by unfold pSetFree; split <;> simp
@[simp] theorem sizeOf_pSetFree : sizeOf (pSetFree t u b) w = sizeOf t w := by simp [sizeOf]
@[simp] theorem nxt_pSetFree (h : Int) : nxt (pSetFree t u b) h w = nxt t h w := by simp [nxt]
@[simp] theorem prv_pSetFree (h : Int) : prv (pSetFree t u b) h w = prv t h w := by simp [prv]
end psets

theorem fMulti_pSetSize {t : Tab} {u sz : Int} (h : InR t u) (h1 : sz > 1 → InR t (u + 1) ∧ InR t (u + sz - 1))
    (w : Int) : fMulti (pSetSize t u sz) w =
      if sz > 1 then (if w = u ∨ w = u + 1 ∨ w = u + sz - 1 then true else fMulti t w)
      else (if w = u then false else fMulti t w) := by
  unfold pSetSize
  by_cases hs : sz > 1
  · obtain ⟨ha, hb⟩ := h1 hs
    simp only [hs, if_true, fMulti_wSize', fMulti_wMulti', InR_wSize, InR_wMulti, h, ha, hb, and_true]
    by_cases e1 : w = u + sz - 1
    · simp [e1]
    · by_cases e2 : w = u + 1
      · simp [e2]
      · simp [e1, e2]
  · simp [hs, h]

theorem fNext_pSetSize {t : Tab} {u sz : Int} (h1 : sz > 1 → InR t (u + 1) ∧ InR t (u + sz - 1))
    (w : Int) : fNext (pSetSize t u sz) w =
      if sz > 1 ∧ (w = u + 1 ∨ w = u + sz - 1) then lk sz else fNext t w := by
  unfold pSetSize
  by_cases hs : sz > 1
  · obtain ⟨ha, hb⟩ := h1 hs
    simp only [hs, if_true, fNext_wSize', fNext_wMulti', InR_wSize, InR_wMulti, ha, hb, and_true, true_and]
    by_cases e1 : w = u + sz - 1
    · simp [e1]
    · by_cases e2 : w = u + 1
      · simp [e2]
      · simp [e1, e2]
  · simp [hs]

theorem fFree_pSetFree {t : Tab} {u : Int} {b : Bool} (h : InR t u)
    (h2 : sizeOf t u > 1 → InR t (u + sizeOf t u - 1)) (w : Int) :
    fFree (pSetFree t u b) w = if w = u ∨ (sizeOf t u > 1 ∧ w = u + sizeOf t u - 1) then b else fFree t w := by
  unfold pSetFree
  by_cases hs : sizeOf t u > 1
  · have hb := h2 hs
    simp only [hs, if_true, fFree_wFree', InR_wFree, h, hb, and_true, true_and]
    by_cases e1 : w = u + sizeOf t u - 1
    · simp [e1]
    · by_cases e2 : w = u
      · simp [e2]
      · simp [e1, e2]
  · simp [hs, h]

end Mmtk.FreeList
