import MmtkModel.Lemmas.FreeListBits
/-!
# The table as two total functions `loC`, `hiC : Int → Nat` (C26, concrete layer)

`InR t u` — unit `u` (heads are negative units) has its two entries inside the array.  Reads of an
in-range unit succeed and return `loC` / `hiC`; writes succeed and are the pure updates `updLo` /
`updHi`, whose effect on `loC` / `hiC` is a pointwise function update.  Then every composite method
of `Mmtk.FreeList` is shown equal to `.ok` of a pure function on tables (`*_ok` lemmas).
-/
namespace Mmtk.FreeList

def InR (t : Tab) (u : Int) : Prop := 0 ≤ u + t.heads ∧ 2 * (u + t.heads) + 1 < t.cells.size

instance (t : Tab) (u : Int) : Decidable (InR t u) := by unfold InR; infer_instance

def loC (t : Tab) (u : Int) : Nat := if InR t u then t.cells.getD (2 * (u + t.heads)).toNat 0 else 0
def hiC (t : Tab) (u : Int) : Nat := if InR t u then t.cells.getD (2 * (u + t.heads) + 1).toNat 0 else 0

def updLo (t : Tab) (u : Int) (v : Nat) : Tab :=
  if InR t u then { t with cells := t.cells.setIfInBounds (2 * (u + t.heads)).toNat v } else t
def updHi (t : Tab) (u : Int) (v : Nat) : Tab :=
  if InR t u then { t with cells := t.cells.setIfInBounds (2 * (u + t.heads) + 1).toNat v } else t

@[simp] theorem heads_updLo (t : Tab) (u v) : (updLo t u v).heads = t.heads := by
  unfold updLo; split <;> rfl
@[simp] theorem heads_updHi (t : Tab) (u v) : (updHi t u v).heads = t.heads := by
  unfold updHi; split <;> rfl
@[simp] theorem size_updLo (t : Tab) (u v) : (updLo t u v).cells.size = t.cells.size := by
  unfold updLo; split <;> simp
@[simp] theorem size_updHi (t : Tab) (u v) : (updHi t u v).cells.size = t.cells.size := by
  unfold updHi; split <;> simp
@[simp] theorem InR_updLo (t : Tab) (u v w) : InR (updLo t u v) w ↔ InR t w := by
  simp [InR]
@[simp] theorem InR_updHi (t : Tab) (u v w) : InR (updHi t u v) w ↔ InR t w := by
  simp [InR]

theorem getLo_ok {t : Tab} {u : Int} (h : InR t u) : getLo t u = .ok (loC t u) := by
  have h0 := h
  unfold InR at h
  have h' : 0 ≤ 2 * (u + t.heads) ∧ 2 * (u + t.heads) < t.cells.size := by omega
  simp [getLo, getEntry, loC, h0, h']
theorem getHi_ok {t : Tab} {u : Int} (h : InR t u) : getHi t u = .ok (hiC t u) := by
  have h0 := h
  unfold InR at h
  have h' : 0 ≤ 2 * (u + t.heads) + 1 ∧ 2 * (u + t.heads) + 1 < t.cells.size := by omega
  simp [getHi, getEntry, hiC, h0, h']
theorem setLo_ok {t : Tab} {u : Int} (h : InR t u) (v : Nat) : setLo t u v = .ok (updLo t u v) := by
  have h0 := h
  unfold InR at h
  have h' : 0 ≤ 2 * (u + t.heads) ∧ 2 * (u + t.heads) < t.cells.size := by omega
  simp [setLo, setEntry, updLo, h0, h']
theorem setHi_ok {t : Tab} {u : Int} (h : InR t u) (v : Nat) : setHi t u v = .ok (updHi t u v) := by
  have h0 := h
  unfold InR at h
  have h' : 0 ≤ 2 * (u + t.heads) + 1 ∧ 2 * (u + t.heads) + 1 < t.cells.size := by omega
  simp [setHi, setEntry, updHi, h0, h']

theorem loC_updLo {t : Tab} {u : Int} (h : InR t u) (v : Nat) (w : Int) :
    loC (updLo t u v) w = if w = u then v else loC t w := by
  by_cases hw : InR t w
  · have hw' := hw
    have h0 := h
    unfold InR at h hw'
    simp only [loC, InR_updLo, hw, if_true]
    by_cases e : w = u
    · subst e
      have : (2 * (w + t.heads)).toNat < t.cells.size := by omega
      simp [updLo, h0, this]
    · have : (2 * (u + t.heads)).toNat ≠ (2 * (w + t.heads)).toNat := by omega
      simp [updLo, h0, e, Array.getElem?_setIfInBounds_ne this]
  · have e : w ≠ u := fun e => hw (e ▸ h)
    simp [loC, hw, e]

theorem hiC_updHi {t : Tab} {u : Int} (h : InR t u) (v : Nat) (w : Int) :
    hiC (updHi t u v) w = if w = u then v else hiC t w := by
  by_cases hw : InR t w
  · have hw' := hw
    have h0 := h
    unfold InR at h hw'
    simp only [hiC, InR_updHi, hw, if_true]
    by_cases e : w = u
    · subst e
      have : (2 * (w + t.heads) + 1).toNat < t.cells.size := by omega
      simp [updHi, h0, this]
    · have : (2 * (u + t.heads) + 1).toNat ≠ (2 * (w + t.heads) + 1).toNat := by omega
      simp [updHi, h0, e, Array.getElem?_setIfInBounds_ne this]
  · have e : w ≠ u := fun e => hw (e ▸ h)
    simp [hiC, hw, e]

@[simp] theorem loC_updHi (t : Tab) (u : Int) (v : Nat) (w : Int) : loC (updHi t u v) w = loC t w := by
  by_cases hu : InR t u
  · by_cases hw : InR t w
    · have hw' := hw
      have hu' := hu
      unfold InR at hw' hu'
      have : (2 * (u + t.heads) + 1).toNat ≠ (2 * (w + t.heads)).toNat := by omega
      simp only [loC, InR_updHi, hw, if_true]
      simp [updHi, hu, Array.getElem?_setIfInBounds_ne this]
    · simp [loC, hw]
  · simp [updHi, hu]

@[simp] theorem hiC_updLo (t : Tab) (u : Int) (v : Nat) (w : Int) : hiC (updLo t u v) w = hiC t w := by
  by_cases hu : InR t u
  · by_cases hw : InR t w
    · have hw' := hw
      have hu' := hu
      unfold InR at hw' hu'
      have : (2 * (u + t.heads)).toNat ≠ (2 * (w + t.heads) + 1).toNat := by omega
      simp only [hiC, InR_updLo, hw, if_true]
      simp [updLo, hu, Array.getElem?_setIfInBounds_ne this]
    · simp [hiC, hw]
  · simp [updLo, hu]

end Mmtk.FreeList
