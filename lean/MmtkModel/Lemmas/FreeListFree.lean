import MmtkModel.Lemmas.FreeListAlloc
/-!
# `free` refines `Mmtk.Runs` (C26, concrete layer)
-/
namespace Mmtk.FreeList
open Mmtk.Runs

/-- `t3` is `t2` with the size fields of `[l, r)` written (by `set_size`, or already there). -/
structure SizedAs (t2 t3 : Tab) (l r : Nat) : Prop where
  heads : t3.heads = t2.heads
  size : t3.cells.size = t2.cells.size
  free : ∀ w, fFree t3 w = fFree t2 w
  unc : ∀ w, fUnc t3 w = fUnc t2 w
  prev : ∀ w, fPrev t3 w = fPrev t2 w
  multi : fMulti t3 (l : Int) = decide (l + 1 < r)
  sz : l + 1 < r → fNext t3 ((l : Int) + 1) = r - l ∧ fMulti t3 ((r : Int) - 1) = true ∧ fNext t3 ((r : Int) - 1) = r - l
  outM : ∀ w : Int, (w < l ∨ (r : Int) ≤ w) → fMulti t3 w = fMulti t2 w
  outN : ∀ w : Int, (w ≤ l ∨ (r : Int) ≤ w) → fNext t3 w = fNext t2 w

theorem SizedAs.inR {t2 t3 : Tab} {l r : Nat} (h : SizedAs t2 t3 l r) (w : Int) : InR t3 w ↔ InR t2 w := by
  simp [InR, h.heads, h.size]

/-- **the last step of `free`**: `add_to_free(start)` of the merged run `[l, r)`, whose absorbed
free neighbours have been unlinked (`X`) and whose size fields are written. -/
theorem free_finish {X : Nat → Prop} {t2 t3 : Tab} {a : AS} {L2 : Nat → List Nat} {k s e l r : Nat} (debug : Bool)
    (h : RelX X t2 a L2) (hk : (k : Int) < t2.heads) (hp : Pre a (.free k s e))
    (hl : if mergeL a s then IsRun a l s else l = s) (hr : if mergeR a e then IsRun a e r else r = e)
    (hX1 : ∀ y, X y → l ≤ y ∧ y < r) (hXl : mergeL a s → X l) (hXe : mergeR a e → X e)
    (hs : SizedAs t2 t3 l r) :
    addToFree debug t3 (hd k) (l : Int) = .ok (pAddToFree t3 (hd k) (l : Int)) ∧
    Rel (pAddToFree t3 (hd k) (l : Int)) (Runs.apply a (.free k s e)) (setL L2 k (l :: L2 k)) ∧
    sizeOf t3 (l : Int) = (r : Int) - l := by
  obtain ⟨hse, hown, hL, hR⟩ := hp
  have hlf := left_facts a hse hl
  have hrf := right_facts a hse hr
  have hse1 := hse.1
  have hlt := h.run_lt hse
  have hpos := h.hpos
  have hb := h.hd_bounds hk
  have hul := h.units_le
  have hmax : MAX_UNITS = 1073741694 := rfl
  have hneg := hd_neg k
  have hlr : l < r := by omega
  have hru : r ≤ a.units := hrf.2.1
  have hR2 : ∀ w : Int, 0 ≤ w → w ≤ a.units → InR t2 w := fun w h0 h1 => h.inR (by omega) h1
  have hR3 : ∀ w : Int, 0 ≤ w → w ≤ a.units → InR t3 w := fun w h0 h1 => (hs.inR w).mpr (hR2 w h0 h1)
  have hhR2 := h.inR_hd hk
  have hhR3 : InR t3 (hd k) := (hs.inR _).mpr hhR2
  obtain ⟨q1, q2, q3⟩ := h.list k hk
  have hU := h.units_list hk
  -- the merged run in the new state
  have hmerged : IsRun (Runs.apply a (.free k s e)) l r := free_run_merged a hse hl hr
  -- ownership over the merged run
  have hownL : mergeL a s → ∀ u, l ≤ u → u < s → a.own u = some k := by
    intro hm u h1 h2
    have hrun : IsRun a l s := by simpa [hm] using hl
    have ok := h.run l s hrun
    have := hm.1
    rw [ok.own u h1 h2, ← ok.own (s - 1) (by omega) (by omega)]
    exact hL hm
  have hownR : mergeR a e → ∀ u, e ≤ u → u < r → a.own u = some k := by
    intro hm u h1 h2
    have hrun : IsRun a e r := by simpa [hm] using hr
    have ok := h.run e r hrun
    rw [ok.own u h1 h2]
    exact hR hm
  have hown' : ∀ u, l ≤ u → u < r → (Runs.apply a (.free k s e)).own u = some k := by
    intro u h1 h2
    show (if s ≤ u ∧ u < e then some k else a.own u) = some k
    by_cases c : s ≤ u ∧ u < e
    · simp [c]
    · simp only [c, if_false]
      by_cases c2 : u < s
      · exact hownL (hlf.2.2.2.1 (by omega)) u h1 c2
      · exact hownR (hrf.2.2.2.2.1 (by omega)) u (by omega) h2
  have hownO : ∀ u, (u < l ∨ r ≤ u) → (Runs.apply a (.free k s e)).own u = a.own u := by
    intro u hu
    show (if s ≤ u ∧ u < e then some k else a.own u) = a.own u
    have c : ¬ (s ≤ u ∧ u < e) := by omega
    simp only [c, if_false]
  -- run starts of the old state inside `[l, r)`
  have key : ∀ {y z : Nat}, IsRun a y z → y ≤ l ∨ r ≤ y ∨ y = s ∨ (y = e ∧ mergeR a e) := by
    intro y z hyz
    have o1 := h.start_outside hse hyz
    by_cases cL : mergeL a s
    · have o2 := h.start_outside (by simpa [cL] using hl : IsRun a l s) hyz
      by_cases cR : mergeR a e
      · have o3 := h.start_outside (by simpa [cR] using hr : IsRun a e r) hyz
        have : y ≤ l ∨ r ≤ y ∨ y = s ∨ y = e := by omega
        rcases this with g | g | g | g
        · exact Or.inl g
        · exact Or.inr (Or.inl g)
        · exact Or.inr (Or.inr (Or.inl g))
        · exact Or.inr (Or.inr (Or.inr ⟨g, cR⟩))
      · have : r = e := by simpa [cR] using hr
        omega
    · have : l = s := by simpa [cL] using hl
      by_cases cR : mergeR a e
      · have o3 := h.start_outside (by simpa [cR] using hr : IsRun a e r) hyz
        have : y ≤ l ∨ r ≤ y ∨ y = s ∨ y = e := by omega
        rcases this with g | g | g | g
        · exact Or.inl g
        · exact Or.inr (Or.inl g)
        · exact Or.inr (Or.inr (Or.inl g))
        · exact Or.inr (Or.inr (Or.inr ⟨g, cR⟩))
      · have : r = e := by simpa [cR] using hr
        omega
  -- members of the lists are outside `[l, r)`
  have hout : ∀ j : Nat, (j : Int) < t2.heads → ∀ y ∈ L2 j, y < l ∨ r ≤ y := by
    intro j hj y hy
    obtain ⟨m1, m2, z, m3⟩ := (h.list j hj).2.2 y hy
    rcases key m3 with g | g | g | ⟨g, cR⟩
    · rcases Nat.lt_or_ge y l with g' | g'
      · exact Or.inl g'
      · have e1 : y = l := by omega
        subst e1
        by_cases cL : mergeL a s
        · exact absurd (hXl cL) m2
        · have : y = s := by simpa [cL] using hl
          rw [this, hown] at m1; cases m1
    · exact Or.inr g
    · rw [g, hown] at m1; cases m1
    · subst g; exact absurd (hXe cR) m2
  have hln : l ∉ L2 k := fun hm => by have := hout k hk l hm; omega
  -- `add_to_free` runs
  have hS : sizeOf t3 (l : Int) = (r : Int) - l := by
    unfold sizeOf
    rw [hs.multi]
    by_cases c : l + 1 < r
    · simp only [c, decide_true, if_true, (hs.sz c).1]; omega
    · simp only [c, decide_false, Bool.false_eq_true, if_false]; omega
  have hX' : nxt t3 (hd k) (hd k) = firstI (L2 k) (hd k) := by
    rw [← Links_nxt q1]; unfold nxt; rw [hs.outN _ (Or.inl (by omega))]
  have hnxR : InR t3 (firstI (L2 k) (hd k)) := by
    rcases firstI_mem (L2 k) (hd k) with e | ⟨y, hy, e⟩
    · rw [e]; exact hhR3
    · rw [e]; exact (hs.inR _).mpr (hU y hy).2
  have hnx : firstI (L2 k) (hd k) = hd k ∨ ∃ y ∈ L2 k, firstI (L2 k) (hd k) = (y : Int) := firstI_mem _ _
  have hok : addToFree debug t3 (hd k) (l : Int) = .ok (pAddToFree t3 (hd k) (l : Int)) := by
    apply addToFree_ok debug (by rw [hs.heads]; exact hb.2) hhR3 (by omega) (hR3 _ (by omega) (by omega))
    · intro _; exact hR3 _ (by omega) (by omega)
    · intro _; rw [hS]; exact hR3 _ (by omega) (by omega)
    · rw [hX']
      rcases hnx with e | ⟨y, hy, e⟩
      · rw [e]; exact ⟨Or.inl rfl, hhR3⟩
      · rw [e]; have := hU y hy; exact ⟨Or.inr ⟨by omega, this.1⟩, (hs.inR _).mpr this.2⟩
  refine ⟨hok, ?_, hS⟩
  -- the fields of the final table
  have hFin : pAddToFree t3 (hd k) (l : Int) = wPrev (wPrev (wNext (wNext (pSetFree t3 (l : Int) true) (l : Int)
      (firstI (L2 k) (hd k))) (hd k) (l : Int)) (l : Int) (hd k)) (firstI (L2 k) (hd k)) (l : Int) := by
    unfold pAddToFree; rw [hX']
  have hlR : InR t3 (l : Int) := hR3 _ (by omega) (by omega)
  have gM : ∀ w, fMulti (pAddToFree t3 (hd k) (l : Int)) w = fMulti t3 w := by
    intro w; rw [hFin]; simp
  have gU : ∀ w, fUnc (pAddToFree t3 (hd k) (l : Int)) w = fUnc t2 w := by
    intro w; rw [hFin]; simp [hs.unc]
  have gF : ∀ w, fFree (pAddToFree t3 (hd k) (l : Int)) w =
      if w = (l : Int) ∨ ((r : Int) - l > 1 ∧ w = (r : Int) - 1) then true else fFree t2 w := by
    intro w; rw [hFin]
    simp only [fFree_wPrev', fFree_wNext]
    rw [fFree_pSetFree hlR (by rw [hS]; intro _; exact hR3 _ (by omega) (by omega)), hS, hs.free]
    have : (l : Int) + ((r : Int) - l) - 1 = (r : Int) - 1 := by omega
    rw [this]
  have gN : ∀ w, w ≠ hd k → w ≠ (l : Int) → fNext (pAddToFree t3 (hd k) (l : Int)) w = fNext t3 w := by
    intro w h1 h2; rw [hFin]
    simp only [fNext_wPrev, fNext_wNext', fNext_pSetFree, h1, h2, false_and, if_false]
  have gP : ∀ w, w ≠ firstI (L2 k) (hd k) → w ≠ (l : Int) → fPrev (pAddToFree t3 (hd k) (l : Int)) w = fPrev t2 w := by
    intro w h1 h2; rw [hFin]
    simp only [fPrev_wPrev', fPrev_wNext, fPrev_pSetFree, h1, h2, false_and, if_false, hs.prev]
  have hheads : (pAddToFree t3 (hd k) (l : Int)).heads = t2.heads := by rw [hFin]; simp [hs.heads]
  have hsize : (pAddToFree t3 (hd k) (l : Int)).cells.size = t2.cells.size := by rw [hFin]; simp [hs.size]
  -- the list of head `k`
  have hLk : Links (pAddToFree t3 (hd k) (l : Int)) (hd k) (hd k) (l :: L2 k) := by
    rw [hFin]
    have hl0 : Links (pSetFree t3 (l : Int) true) (hd k) (hd k) (L2 k) := by
      apply Links_pSetFree
      apply Links_congr (L2 k) (hd k) _ _ _ _ q1
      · exact hs.outN _ (Or.inl (by omega))
      · intro y hy; have := hout k hk y hy; exact hs.outN _ (by omega)
      · exact hs.prev _
      · intro y _; exact hs.prev _
    exact Links_push hb.1 (by simpa using hhR3) l ⟨by omega, by simpa using hlR⟩ (L2 k)
      (fun y hy => ⟨(hU y hy).1, by simpa using (hs.inR _).mpr (hU y hy).2⟩) q2 hln hl0
  -- old runs outside the merged run survive
  have hrun1 : ∀ {x y : Nat}, IsRun a x y → (x < l ∨ r ≤ x) → IsRun (Runs.apply a (.free k s e)) x y := by
    intro x y hxy hx
    apply free_run_other a hse hl hr hxy
    rcases hx with g | g
    · left
      by_cases cL : mergeL a s
      · rcases run_eq_or_disjoint a (by simpa [cL] using hl : IsRun a l s) hxy with ⟨e1, _⟩ | g' | g'
        · omega
        · exact g'
        · omega
      · have : l = s := by simpa [cL] using hl
        rcases run_eq_or_disjoint a hse hxy with ⟨e1, _⟩ | g' | g'
        · omega
        · omega
        · omega
    · exact Or.inr g
  constructor
  · rw [hheads]; exact h.hpos
  · rw [hheads]; exact h.hle
  · rw [hheads, hsize]; exact h.size_eq
  · exact h.units_le
  · show fFree _ ((a.units : Nat) : Int) = false
    rw [gF, if_neg (by omega)]; exact h.top_free
  · intro j hj
    rw [hheads] at hj
    have := hd_neg j
    rw [gF, if_neg (by omega)]; exact h.head_free j hj
  · intro j hj
    rw [hheads] at hj
    have := hd_neg j
    rw [gM, hs.outM _ (Or.inl (by omega))]; exact h.head_multi j hj
  · intro u hu
    rw [gU]; exact h.unc u hu
  · intro x y hxy
    rcases free_run_inv a hse hl hr hxy with ⟨e1, e2⟩ | ⟨hxy', hd⟩
    · subst e1 e2
      constructor
      · rw [gM]; exact hs.multi
      · intro hm
        rw [gN _ (by omega) (by omega), gM, gN _ (by omega) (by omega)]
        exact hs.sz hm
      · rw [gF, if_pos (Or.inl rfl), hown' x (Nat.le_refl _) hlr]; rfl
      · intro u h1 h2; rw [hown' u h1 h2, hown' x (Nat.le_refl _) hlr]
      · intro j hj
        rw [hown' x (Nat.le_refl _) hlr] at hj
        have hjk : j = k := (Option.some.inj hj).symm
        subst hjk
        refine ⟨by rw [hheads]; exact hk, Or.inl ?_⟩
        simp only [setL, if_true]
        exact List.mem_cons_self ..
    · have ok' := h.run x y hxy'
      have hxy1 := hxy'.1
      constructor
      · rw [gM, hs.outM _ (by omega)]; exact ok'.multi
      · intro hm
        rw [gN _ (by omega) (by omega), hs.outN _ (by omega), gM, hs.outM _ (by omega), gN _ (by omega) (by omega),
          hs.outN _ (by omega)]
        exact ok'.sz hm
      · rw [gF, if_neg (by omega), hownO x (by omega)]; exact ok'.free
      · intro u h1 h2
        rw [hownO u (by omega), hownO x (by omega)]; exact ok'.own u h1 h2
      · intro j hj
        rw [hownO x (by omega)] at hj
        have := ok'.mem j hj
        refine ⟨by rw [hheads]; exact this.1, ?_⟩
        rcases this.2 with g | g
        · left
          unfold setL
          by_cases hjk : j = k
          · subst hjk; simp only [if_true]; exact List.mem_cons_of_mem _ g
          · simp only [hjk, if_false]; exact g
        · have := hX1 x g; omega
  · intro j hj
    rw [hheads] at hj
    by_cases hjk : j = k
    · subst hjk
      simp only [setL, if_true]
      refine ⟨hLk, List.nodup_cons.mpr ⟨hln, q2⟩, ?_⟩
      intro x hx
      rcases List.mem_cons.mp hx with rfl | hx
      · exact ⟨hown' x (Nat.le_refl _) hlr, fun f => f, r, hmerged⟩
      · obtain ⟨m1, m2, y, m3⟩ := q3 x hx
        have := hout j hk x hx
        exact ⟨by rw [hownO x this]; exact m1, fun f => f, y, hrun1 m3 this⟩
    · simp only [setL, hjk, if_false]
      obtain ⟨p1, p2, p3⟩ := h.list j hj
      have hdj : hd j ≠ hd k := fun e => hjk (hd_inj e)
      have hnegj := hd_neg j
      have hmem : ∀ y ∈ L2 j, (y : Int) ≠ firstI (L2 k) (hd k) := by
        intro y hy
        rcases hnx with e | ⟨z, hz, e⟩
        · rw [e]; omega
        · rw [e]; intro e'; exact h.list_disjoint hj hk hjk hy (Int.ofNat_inj.mp e' ▸ hz)
      have hhj : hd j ≠ firstI (L2 k) (hd k) := by
        rcases hnx with e | ⟨z, hz, e⟩
        · rw [e]; exact hdj
        · rw [e]; omega
      refine ⟨?_, p2, ?_⟩
      · apply Links_congr (L2 j) (hd j) _ _ _ _ p1
        · rw [gN _ hdj (by omega), hs.outN _ (Or.inl (by omega))]
        · intro y hy
          have := hout j hj y hy
          rw [gN _ (by omega) (by omega), hs.outN _ (by omega)]
        · rw [gP _ hhj (by omega)]
        · intro y hy
          have := hout j hj y hy
          rw [gP _ (hmem y hy) (by omega)]
      · intro x hx
        obtain ⟨m1, m2, y, m3⟩ := p3 x hx
        have := hout j hj x hx
        exact ⟨by rw [hownO x this]; exact m1, fun f => f, y, hrun1 m3 this⟩

end Mmtk.FreeList
