import MmtkModel.Lemmas.FreeListAlloc
/-!
# `free` refines `Mmtk.Runs` (C26, concrete layer)
-/
namespace Mmtk.FreeList
open Mmtk.Runs

/-- `t3` is `t2` with the size fields of `[l, r)` written (by `set_size`, or already there). -/
structure SizedAs (t2 t3 : Tab) (l r : Nat) : Prop where
  heads : t3.heads = t2.heads
  size : t3.cells.size = t2.cells.size
  free : ∀ w, fFree t3 w = fFree t2 w
  unc : ∀ w, fUnc t3 w = fUnc t2 w
  prev : ∀ w, fPrev t3 w = fPrev t2 w
  multi : fMulti t3 (l : Int) = decide (l + 1 < r)
  sz : l + 1 < r → fNext t3 ((l : Int) + 1) = r - l ∧ fMulti t3 ((r : Int) - 1) = true ∧ fNext t3 ((r : Int) - 1) = r - l
  outM : ∀ w : Int, (w < l ∨ (r : Int) ≤ w) → fMulti t3 w = fMulti t2 w
  outN : ∀ w : Int, (w ≤ l ∨ (r : Int) ≤ w) → fNext t3 w = fNext t2 w

theorem SizedAs.inR {t2 t3 : Tab} {l r : Nat} (h : SizedAs t2 t3 l r) (w : Int) : InR t3 w ↔ InR t2 w := by
  simp [InR, h.heads, h.size]

/-- **the last step of `free`**: `add_to_free(start)` of the merged run `[l, r)`, whose absorbed
free neighbours have been unlinked (`X`) and whose size fields are written. -/
theorem free_finish {X : Nat → Prop} {t2 t3 : Tab} {a : AS} {L2 : Nat → List Nat} {k s e l r : Nat} (debug : Bool)
    (h : RelX X t2 a L2) (hk : (k : Int) < t2.heads) (hp : Pre a (.free k s e))
    (hl : if mergeL a s then IsRun a l s else l = s) (hr : if mergeR a e then IsRun a e r else r = e)
    (hX1 : ∀ y, X y → l ≤ y ∧ y < r) (hXl : mergeL a s → X l) (hXe : mergeR a e → X e)
    (hs : SizedAs t2 t3 l r) :
    addToFree debug t3 (hd k) (l : Int) = .ok (pAddToFree t3 (hd k) (l : Int)) ∧
    Rel (pAddToFree t3 (hd k) (l : Int)) (Runs.apply a (.free k s e)) (setL L2 k (l :: L2 k)) ∧
    sizeOf t3 (l : Int) = (r : Int) - l := by
  obtain ⟨hse, hown, hL, hR⟩ := hp
  have hlf := left_facts a hse hl
  have hrf := right_facts a hse hr
  have hse1 := hse.1
  have hlt := h.run_lt hse
  have hpos := h.hpos
  have hb := h.hd_bounds hk
  have hul := h.units_le
  have hmax : MAX_UNITS = 1073741694 := rfl
  have hneg := hd_neg k
  have hlr : l < r := by omega
  have hru : r ≤ a.units := hrf.2.1
  have hR2 : ∀ w : Int, 0 ≤ w → w ≤ a.units → InR t2 w := fun w h0 h1 => h.inR (by omega) h1
  have hR3 : ∀ w : Int, 0 ≤ w → w ≤ a.units → InR t3 w := fun w h0 h1 => (hs.inR w).mpr (hR2 w h0 h1)
  have hhR2 := h.inR_hd hk
  have hhR3 : InR t3 (hd k) := (hs.inR _).mpr hhR2
  obtain ⟨q1, q2, q3⟩ := h.list k hk
  have hU := h.units_list hk
  -- the merged run in the new state
  have hmerged : IsRun (Runs.apply a (.free k s e)) l r := free_run_merged a hse hl hr
  -- ownership over the merged run
  have hownL : mergeL a s → ∀ u, l ≤ u → u < s → a.own u = some k := by
    intro hm u h1 h2
    have hrun : IsRun a l s := by simpa [hm] using hl
    have ok := h.run l s hrun
    have := hm.1
    rw [ok.own u h1 h2, ← ok.own (s - 1) (by omega) (by omega)]
    exact hL hm
  have hownR : mergeR a e → ∀ u, e ≤ u → u < r → a.own u = some k := by
    intro hm u h1 h2
    have hrun : IsRun a e r := by simpa [hm] using hr
    have ok := h.run e r hrun
    rw [ok.own u h1 h2]
    exact hR hm
  have hown' : ∀ u, l ≤ u → u < r → (Runs.apply a (.free k s e)).own u = some k := by
    intro u h1 h2
    show (if s ≤ u ∧ u < e then some k else a.own u) = some k
    by_cases c : s ≤ u ∧ u < e
    · simp [c]
    · simp only [c, if_false]
      by_cases c2 : u < s
      · exact hownL (hlf.2.2.2.1 (by omega)) u h1 c2
      · exact hownR (hrf.2.2.2.2.1 (by omega)) u (by omega) h2
  have hownO : ∀ u, (u < l ∨ r ≤ u) → (Runs.apply a (.free k s e)).own u = a.own u := by
    intro u hu
    show (if s ≤ u ∧ u < e then some k else a.own u) = a.own u
    have c : ¬ (s ≤ u ∧ u < e) := by omega
    simp only [c, if_false]
  -- run starts of the old state inside `[l, r)`
  have key : ∀ {y z : Nat}, IsRun a y z → y ≤ l ∨ r ≤ y ∨ y = s ∨ (y = e ∧ mergeR a e) := by
    intro y z hyz
    have o1 := h.start_outside hse hyz
    by_cases cL : mergeL a s
    · have o2 := h.start_outside (by simpa [cL] using hl : IsRun a l s) hyz
      by_cases cR : mergeR a e
      · have o3 := h.start_outside (by simpa [cR] using hr : IsRun a e r) hyz
        have : y ≤ l ∨ r ≤ y ∨ y = s ∨ y = e := by omega
        rcases this with g | g | g | g
        · exact Or.inl g
        · exact Or.inr (Or.inl g)
        · exact Or.inr (Or.inr (Or.inl g))
        · exact Or.inr (Or.inr (Or.inr ⟨g, cR⟩))
      · have : r = e := by simpa [cR] using hr
        omega
    · have : l = s := by simpa [cL] using hl
      by_cases cR : mergeR a e
      · have o3 := h.start_outside (by simpa [cR] using hr : IsRun a e r) hyz
        have : y ≤ l ∨ r ≤ y ∨ y = s ∨ y = e := by omega
        rcases this with g | g | g | g
        · exact Or.inl g
        · exact Or.inr (Or.inl g)
        · exact Or.inr (Or.inr (Or.inl g))
        · exact Or.inr (Or.inr (Or.inr ⟨g, cR⟩))
      · have : r = e := by simpa [cR] using hr
        omega
  -- members of the lists are outside `[l, r)`
  have hout : ∀ j : Nat, (j : Int) < t2.heads → ∀ y ∈ L2 j, y < l ∨ r ≤ y := by
    intro j hj y hy
    obtain ⟨m1, m2, z, m3⟩ := (h.list j hj).2.2 y hy
    rcases key m3 with g | g | g | ⟨g, cR⟩
    · rcases Nat.lt_or_ge y l with g' | g'
      · exact Or.inl g'
      · have e1 : y = l := by omega
        subst e1
        by_cases cL : mergeL a s
        · exact absurd (hXl cL) m2
        · have : y = s := by simpa [cL] using hl
          rw [this, hown] at m1; cases m1
    · exact Or.inr g
    · rw [g, hown] at m1; cases m1
    · subst g; exact absurd (hXe cR) m2
  have hln : l ∉ L2 k := fun hm => by have := hout k hk l hm; omega
  -- `add_to_free` runs
  have hS : sizeOf t3 (l : Int) = (r : Int) - l := by
    unfold sizeOf
    rw [hs.multi]
    by_cases c : l + 1 < r
    · simp only [c, decide_true, if_true, (hs.sz c).1]; omega
    · simp only [c, decide_false, Bool.false_eq_true, if_false]; omega
  have hX' : nxt t3 (hd k) (hd k) = firstI (L2 k) (hd k) := by
    rw [← Links_nxt q1]; unfold nxt; rw [hs.outN _ (Or.inl (by omega))]
  have hnxR : InR t3 (firstI (L2 k) (hd k)) := by
    rcases firstI_mem (L2 k) (hd k) with e | ⟨y, hy, e⟩
    · rw [e]; exact hhR3
    · rw [e]; exact (hs.inR _).mpr (hU y hy).2
  have hnx : firstI (L2 k) (hd k) = hd k ∨ ∃ y ∈ L2 k, firstI (L2 k) (hd k) = (y : Int) := firstI_mem _ _
  have hok : addToFree debug t3 (hd k) (l : Int) = .ok (pAddToFree t3 (hd k) (l : Int)) := by
    apply addToFree_ok debug (by rw [hs.heads]; exact hb.2) hhR3 (by omega) (hR3 _ (by omega) (by omega))
    · intro _; exact hR3 _ (by omega) (by omega)
    · intro _; rw [hS]; exact hR3 _ (by omega) (by omega)
    · rw [hX']
      rcases hnx with e | ⟨y, hy, e⟩
      · rw [e]; exact ⟨Or.inl rfl, hhR3⟩
      · rw [e]; have := hU y hy; exact ⟨Or.inr ⟨by omega, this.1⟩, (hs.inR _).mpr this.2⟩
  refine ⟨hok, ?_, hS⟩
  -- the fields of the final table
  have hFin : pAddToFree t3 (hd k) (l : Int) = wPrev (wPrev (wNext (wNext (pSetFree t3 (l : Int) true) (l : Int)
      (firstI (L2 k) (hd k))) (hd k) (l : Int)) (l : Int) (hd k)) (firstI (L2 k) (hd k)) (l : Int) := by
    unfold pAddToFree; rw [hX']
  have hlR : InR t3 (l : Int) := hR3 _ (by omega) (by omega)
  have gM : ∀ w, fMulti (pAddToFree t3 (hd k) (l : Int)) w = fMulti t3 w := by
    intro w; rw [hFin]; simp
  have gU : ∀ w, fUnc (pAddToFree t3 (hd k) (l : Int)) w = fUnc t2 w := by
    intro w; rw [hFin]; simp [hs.unc]
  have gF : ∀ w, fFree (pAddToFree t3 (hd k) (l : Int)) w =
      if w = (l : Int) ∨ ((r : Int) - l > 1 ∧ w = (r : Int) - 1) then true else fFree t2 w := by
    intro w; rw [hFin]
    simp only [fFree_wPrev', fFree_wNext]
    rw [fFree_pSetFree hlR (by rw [hS]; intro _; exact hR3 _ (by omega) (by omega)), hS, hs.free]
    have : (l : Int) + ((r : Int) - l) - 1 = (r : Int) - 1 := by omega
    rw [this]
  have gN : ∀ w, w ≠ hd k → w ≠ (l : Int) → fNext (pAddToFree t3 (hd k) (l : Int)) w = fNext t3 w := by
    intro w h1 h2; rw [hFin]
    simp only [fNext_wPrev, fNext_wNext', fNext_pSetFree, h1, h2, false_and, if_false]
  have gP : ∀ w, w ≠ firstI (L2 k) (hd k) → w ≠ (l : Int) → fPrev (pAddToFree t3 (hd k) (l : Int)) w = fPrev t2 w := by
    intro w h1 h2; rw [hFin]
    simp only [fPrev_wPrev', fPrev_wNext, fPrev_pSetFree, h1, h2, false_and, if_false, hs.prev]
  have hheads : (pAddToFree t3 (hd k) (l : Int)).heads = t2.heads := by rw [hFin]; simp [hs.heads]
  have hsize : (pAddToFree t3 (hd k) (l : Int)).cells.size = t2.cells.size := by rw [hFin]; simp [hs.size]
  -- the list of head `k`
  have hLk : Links (pAddToFree t3 (hd k) (l : Int)) (hd k) (hd k) (l :: L2 k) := by
    rw [hFin]
    have hl0 : Links (pSetFree t3 (l : Int) true) (hd k) (hd k) (L2 k) := by
      apply Links_pSetFree
      apply Links_congr (L2 k) (hd k) _ _ _ _ q1
      · exact hs.outN _ (Or.inl (by omega))
      · intro y hy; have := hout k hk y hy; exact hs.outN _ (by omega)
      · exact hs.prev _
      · intro y _; exact hs.prev _
    exact Links_push hb.1 (by simpa using hhR3) l ⟨by omega, by simpa using hlR⟩ (L2 k)
      (fun y hy => ⟨(hU y hy).1, by simpa using (hs.inR _).mpr (hU y hy).2⟩) q2 hln hl0
  -- old runs outside the merged run survive
  have hrun1 : ∀ {x y : Nat}, IsRun a x y → (x < l ∨ r ≤ x) → IsRun (Runs.apply a (.free k s e)) x y := by
    intro x y hxy hx
    apply free_run_other a hse hl hr hxy
    rcases hx with g | g
    · left
      by_cases cL : mergeL a s
      · rcases run_eq_or_disjoint a (by simpa [cL] using hl : IsRun a l s) hxy with ⟨e1, _⟩ | g' | g'
        · omega
        · exact g'
        · omega
      · have : l = s := by simpa [cL] using hl
        rcases run_eq_or_disjoint a hse hxy with ⟨e1, _⟩ | g' | g'
        · omega
        · omega
        · omega
    · exact Or.inr g
  constructor
  · rw [hheads]; exact h.hpos
  · rw [hheads]; exact h.hle
  · rw [hheads, hsize]; exact h.size_eq
  · exact h.units_le
  · show fFree _ ((a.units : Nat) : Int) = false
    rw [gF, if_neg (by omega)]; exact h.top_free
  · intro j hj
    rw [hheads] at hj
    have := hd_neg j
    rw [gF, if_neg (by omega)]; exact h.head_free j hj
  · intro j hj
    rw [hheads] at hj
    have := hd_neg j
    rw [gM, hs.outM _ (Or.inl (by omega))]; exact h.head_multi j hj
  · intro u hu
    rw [gU]; exact h.unc u hu
  · intro x y hxy
    rcases free_run_inv a hse hl hr hxy with ⟨e1, e2⟩ | ⟨hxy', hd⟩
    · subst e1 e2
      constructor
      · rw [gM]; exact hs.multi
      · intro hm
        rw [gN _ (by omega) (by omega), gM, gN _ (by omega) (by omega)]
        exact hs.sz hm
      · rw [gF, if_pos (Or.inl rfl), hown' x (Nat.le_refl _) hlr]; rfl
      · intro u h1 h2; rw [hown' u h1 h2, hown' x (Nat.le_refl _) hlr]
      · intro j hj
        rw [hown' x (Nat.le_refl _) hlr] at hj
        have hjk : j = k := (Option.some.inj hj).symm
        subst hjk
        refine ⟨by rw [hheads]; exact hk, Or.inl ?_⟩
        simp only [setL, if_true]
        exact List.mem_cons_self ..
    · have ok' := h.run x y hxy'
      have hxy1 := hxy'.1
      constructor
      · rw [gM, hs.outM _ (by omega)]; exact ok'.multi
      · intro hm
        rw [gN _ (by omega) (by omega), hs.outN _ (by omega), gM, hs.outM _ (by omega), gN _ (by omega) (by omega),
          hs.outN _ (by omega)]
        exact ok'.sz hm
      · rw [gF, if_neg (by omega), hownO x (by omega)]; exact ok'.free
      · intro u h1 h2
        rw [hownO u (by omega), hownO x (by omega)]; exact ok'.own u h1 h2
      · intro j hj
        rw [hownO x (by omega)] at hj
        have := ok'.mem j hj
        refine ⟨by rw [hheads]; exact this.1, ?_⟩
        rcases this.2 with g | g
        · left
          unfold setL
          by_cases hjk : j = k
          · subst hjk; simp only [if_true]; exact List.mem_cons_of_mem _ g
          · simp only [hjk, if_false]; exact g
        · have := hX1 x g; omega
  · intro j hj
    rw [hheads] at hj
    by_cases hjk : j = k
    · subst hjk
      simp only [setL, if_true]
      refine ⟨hLk, List.nodup_cons.mpr ⟨hln, q2⟩, ?_⟩
      intro x hx
      rcases List.mem_cons.mp hx with rfl | hx
      · exact ⟨hown' x (Nat.le_refl _) hlr, fun f => f, r, hmerged⟩
      · obtain ⟨m1, m2, y, m3⟩ := q3 x hx
        have := hout j hk x hx
        exact ⟨by rw [hownO x this]; exact m1, fun f => f, y, hrun1 m3 this⟩
    · simp only [setL, hjk, if_false]
      obtain ⟨p1, p2, p3⟩ := h.list j hj
      have hdj : hd j ≠ hd k := fun e => hjk (hd_inj e)
      have hnegj := hd_neg j
      have hmem : ∀ y ∈ L2 j, (y : Int) ≠ firstI (L2 k) (hd k) := by
        intro y hy
        rcases hnx with e | ⟨z, hz, e⟩
        · rw [e]; omega
        · rw [e]; intro e'; exact h.list_disjoint hj hk hjk hy (Int.ofNat_inj.mp e' ▸ hz)
      have hhj : hd j ≠ firstI (L2 k) (hd k) := by
        rcases hnx with e | ⟨z, hz, e⟩
        · rw [e]; exact hdj
        · rw [e]; omega
      refine ⟨?_, p2, ?_⟩
      · apply Links_congr (L2 j) (hd j) _ _ _ _ p1
        · rw [gN _ hdj (by omega), hs.outN _ (Or.inl (by omega))]
        · intro y hy
          have := hout j hj y hy
          rw [gN _ (by omega) (by omega), hs.outN _ (by omega)]
        · rw [gP _ hhj (by omega)]
        · intro y hy
          have := hout j hj y hy
          rw [gP _ (hmem y hy) (by omega)]
      · intro x hx
        obtain ⟨m1, m2, y, m3⟩ := p3 x hx
        have := hout j hj x hx
        exact ⟨by rw [hownO x this]; exact m1, fun f => f, y, hrun1 m3 this⟩

/-! ## the pieces of `free` -/

def unlinkIfFree (debug : Bool) (t : Tab) (h x : Int) : M Tab := do
  if (← getFree t x) then removeFromFree debug t h x else pure t

theorem coalesce_eq (debug : Bool) (t : Tab) (h start end_ : Int) :
    coalesce debug t h start end_ = (do
      let t ← unlinkIfFree debug t h end_
      let t ← unlinkIfFree debug t h start
      let size ← getSize t end_
      setSize t start (end_ - start + size)) := rfl

def pickStart (t : Tab) (u left : Int) : M Int := do
  if (← isCoalescable t u) then
    if (← getFree t left) then pure left else pure u
  else pure u

def pickEnd (t : Tab) (u right : Int) : M Int := do
  if (← isCoalescable t right) then
    if (← getFree t right) then pure right else pure u
  else pure u

theorem free_eq (debug : Bool) (t : Tab) (head u : Int) (rcs : Bool) :
    free debug t head u rcs = (do
      if debug then
        if (← getFree t u) then throw .assert
      let freed ← getSize t u
      let left ← getLeft t u
      let start ← pickStart t u left
      let right ← getRight t u
      let end_ ← pickEnd t u right
      let t ← (if start != end_ then coalesce debug t head start end_ else pure t)
      let freed ← (if rcs then getSize t start else pure freed)
      let t ← addToFree debug t head start
      pure (t, freed)) := rfl

/-- unlink a run if it is free (the two conditional `__remove_from_free` of `__coalesce`) -/
theorem unlink_opt {X : Nat → Prop} {t : Tab} {a : AS} {L : Nat → List Nat} {k x y : Nat} (debug : Bool)
    (h : RelX X t a L) (hk : (k : Int) < t.heads) (hr : IsRun a x y)
    (hown : ∀ j, a.own x = some j → j = k) (hX : ¬ X x) :
    ∃ t' L', unlinkIfFree debug t (hd k) (x : Int) = .ok t' ∧
      RelX (fun z => X z ∨ (a.own x ≠ none ∧ z = x)) t' a L' ∧ t'.heads = t.heads := by
  have hlt := h.run_lt hr
  have ok := h.run x y hr
  have hxR : InR t (x : Int) := h.inR_nat (by omega)
  unfold unlinkIfFree
  simp only [bind, Except.bind, getFree_ok hxR, ok.free]
  cases ho : a.own x with
  | none =>
    refine ⟨t, L, by simp [pure, Except.pure], ?_, rfl⟩
    exact h.congrX (fun z => by simp)
  | some j =>
    have hjk := hown j ho
    subst hjk
    have hx : x ∈ L j := by
      rcases (ok.mem j ho).2 with g | g
      · exact g
      · exact absurd g hX
    obtain ⟨r1, r2⟩ := remove_step debug h hk hx
    have r3 : RelX (fun z => X z ∨ (some j ≠ none ∧ z = x)) _ a _ := r2.congrX (fun z => by simp)
    exact ⟨_, _, by simpa using r1, r3, by simp [pRemoveFromFree]⟩

theorem sizedAs_self {X : Nat → Prop} {t : Tab} {a : AS} {L : Nat → List Nat} {s e : Nat}
    (h : RelX X t a L) (hr : IsRun a s e) : SizedAs t t s e :=
  let ok := h.run s e hr
  ⟨rfl, rfl, fun _ => rfl, fun _ => rfl, fun _ => rfl, ok.multi, ok.sz, fun _ _ => rfl, fun _ _ => rfl⟩

theorem sizedAs_setSize {t : Tab} {l r : Nat} (hlr : l < r) (hmax : (r : Int) ≤ MAX_UNITS)
    (hR : ∀ w : Int, (l : Int) ≤ w → w < r → InR t w) :
    SizedAs t (pSetSize t (l : Int) ((r : Int) - l)) l r := by
  have hB : (r : Int) - l > 1 → InR t ((l : Int) + 1) ∧ InR t ((l : Int) + ((r : Int) - l) - 1) :=
    fun _ => ⟨hR _ (by omega) (by omega), hR _ (by omega) (by omega)⟩
  have hlR := hR l (by omega) (by omega)
  have hM := fMulti_pSetSize hlR hB
  have hN := fNext_pSetSize hB
  have hlk : lk ((r : Int) - l) = r - l := by
    have hm : MAX_UNITS = 1073741694 := rfl
    have := lk_unit (v := (r : Int) - l) (by omega) (by omega); omega
  refine ⟨by simp, by simp, fun _ => by simp, fun _ => by simp, fun _ => by simp, ?_, ?_, ?_, ?_⟩
  · rw [hM]
    by_cases c : l + 1 < r
    · simp only [c, decide_true]; ifs_omega
    · simp only [c, decide_false]; ifs_omega
  · intro c
    refine ⟨?_, ?_, ?_⟩
    · rw [hN]; ifs_omega
    · rw [hM]; ifs_omega
    · rw [hN]; ifs_omega
  · intro w hw; rw [hM]; ifs_omega
  · intro w hw; rw [hN]; ifs_omega

theorem pickStart_ok {t : Tab} {a : AS} {L : Nat → List Nat} {k s e l : Nat}
    (h : Rel t a L) (hp : Pre a (.free k s e)) (hl : if mergeL a s then IsRun a l s else l = s) :
    pickStart t (s : Int) (leftOf t (s : Int)) = .ok (l : Int) := by
  obtain ⟨hse, hown, hL, hR⟩ := hp
  have hlt := h.run_lt hse
  have hpos := h.hpos
  have hsR : InR t (s : Int) := h.inR_nat (by omega)
  have hunc := h.unc s (by omega)
  unfold pickStart
  simp only [bind, Except.bind, isCoalescable_ok hsR, ← hunc]
  rcases Nat.eq_zero_or_pos s with hs0 | hs0
  · subst hs0
    have hnm : ¬ mergeL a 0 := fun hm => absurd hm.1 (by omega)
    have hl0 : l = 0 := by simpa [hnm] using hl
    subst hl0
    have e1 : ((0 : Nat) : Int) - 1 = hd 0 := by unfold hd; omega
    have hm0 := h.head_multi 0 (by omega)
    have hleft : leftOf t ((0 : Nat) : Int) = hd 0 := by
      unfold leftOf; rw [e1, hm0]; simp
    rw [hleft, getFree_ok (h.inR_hd (by omega)), h.head_free 0 (by omega)]
    cases a.unc 0 <;> simp [pure, Except.pure]
  · obtain ⟨l0, hl0⟩ := exists_run_left a hse hs0
    have ok0 := h.run l0 s hl0
    have hl0s := hl0.1
    rw [h.leftOf_run hl0, getFree_ok (h.inR_nat (by omega)), ok0.free, ← ok0.own (s - 1) (by omega) (by omega)]
    by_cases hm : mergeL a s
    · have hrun : IsRun a l s := by simpa [hm] using hl
      have : l = l0 := run_start_unique a hrun hl0
      subst this
      have h1 := hm.2.1
      have h2 := hL hm
      simp [h1, h2, pure, Except.pure]
    · have hls : l = s := by simpa [hm] using hl
      subst hls
      unfold mergeL at hm
      cases hu : a.unc l with
      | true => simp [pure, Except.pure]
      | false =>
        have : a.own (l - 1) = none := by
          cases ho : a.own (l - 1) with
          | none => rfl
          | some j => exact absurd ⟨hs0, hu, by simp [ho]⟩ hm
        simp [this, pure, Except.pure]

theorem pickEnd_ok {t : Tab} {a : AS} {L : Nat → List Nat} {k s e : Nat}
    (h : Rel t a L) (hp : Pre a (.free k s e)) :
    pickEnd t (s : Int) (e : Int) = .ok (((if mergeR a e then e else s : Nat) : Nat) : Int) := by
  obtain ⟨hse, hown, hL, hR⟩ := hp
  have hlt := h.run_lt hse
  have heR : InR t (e : Int) := h.inR_nat (by omega)
  have hunc := h.unc e (by omega)
  unfold pickEnd
  simp only [bind, Except.bind, isCoalescable_ok heR, ← hunc, getFree_ok heR]
  rcases Nat.lt_or_ge e a.units with he | he
  · obtain ⟨r0, hr0⟩ := exists_run_right a hse he
    have ok0 := h.run e r0 hr0
    rw [ok0.free]
    by_cases hm : mergeR a e
    · have h1 := hm.2.1
      have h2 := hR hm
      simp [hm, h1, h2, pure, Except.pure]
    · simp only [hm, if_false]
      unfold mergeR at hm
      cases hu : a.unc e with
      | true => simp [pure, Except.pure]
      | false =>
        have : a.own e = none := by
          cases ho : a.own e with
          | none => rfl
          | some j => exact absurd ⟨he, hu, by simp [ho]⟩ hm
        simp [this, pure, Except.pure]
  · have heq : e = a.units := by omega
    have hnm : ¬ mergeR a e := fun hm => absurd hm.1 (by omega)
    have := h.top_free
    rw [← heq] at this
    rw [this]
    cases a.unc e <;> simp [hnm, pure, Except.pure]

/-- `__coalesce` when at least one neighbour is absorbed. -/
theorem free_merge {t : Tab} {a : AS} {L : Nat → List Nat} {k s e l r endN : Nat} (debug : Bool)
    (h : Rel t a L) (hk : (k : Int) < t.heads) (hp : Pre a (.free k s e))
    (hl : if mergeL a s then IsRun a l s else l = s) (hr : if mergeR a e then IsRun a e r else r = e)
    (hend : endN = if mergeR a e then e else s) (hne : l ≠ endN) :
    ∃ t2 t3 L2 X, coalesce debug t (hd k) (l : Int) (endN : Int) = .ok t3 ∧ RelX X t2 a L2 ∧ SizedAs t2 t3 l r ∧
      t2.heads = t.heads ∧ (∀ y, X y → l ≤ y ∧ y < r) ∧ (mergeL a s → X l) ∧ (mergeR a e → X e) := by
  have hp' := hp
  obtain ⟨hse, hown, hL, hR⟩ := hp
  have hlf := left_facts a hse hl
  have hrf := right_facts a hse hr
  have hse1 := hse.1
  have hul := h.units_le
  have hpos := h.hpos
  -- the run of `endN`
  have hendrun : IsRun a endN r := by
    by_cases hm : mergeR a e
    · have : endN = e := by simpa [hm] using hend
      rw [this]; simpa [hm] using hr
    · have h1 : endN = s := by simpa [hm] using hend
      have h2 : r = e := by simpa [hm] using hr
      rw [h1, h2]; exact hse
  have hendown : ∀ j, a.own endN = some j → j = k := by
    intro j hj
    by_cases hm : mergeR a e
    · have : endN = e := by simpa [hm] using hend
      rw [this, hR hm] at hj; exact (Option.some.inj hj).symm
    · have h1 : endN = s := by simpa [hm] using hend
      rw [h1, hown] at hj; cases hj
  obtain ⟨t1, L1, u1, r1, hh1⟩ := unlink_opt debug h hk hendrun hendown (fun f => f)
  -- the run of `l`
  have hlrun : ∃ y, IsRun a l y := by
    by_cases hm : mergeL a s
    · exact ⟨s, by simpa [hm] using hl⟩
    · have : l = s := by simpa [hm] using hl
      rw [this]; exact ⟨e, hse⟩
  obtain ⟨ly, hlrun⟩ := hlrun
  have hlown : ∀ j, a.own l = some j → j = k := by
    intro j hj
    by_cases hm : mergeL a s
    · have hrun : IsRun a l s := by simpa [hm] using hl
      have ok := h.run l s hrun
      have := hm.1
      have := hrun.1
      rw [← ok.own (s - 1) (by omega) (by omega), hL hm] at hj
      exact (Option.some.inj hj).symm
    · have : l = s := by simpa [hm] using hl
      rw [this, hown] at hj; cases hj
  have hk1 : (k : Int) < t1.heads := by rw [hh1]; exact hk
  obtain ⟨t2, L2, u2, r2, hh2⟩ := unlink_opt debug r1 hk1 hlrun hlown (by
    rintro (f | ⟨_, f⟩)
    · exact f
    · exact hne f)
  have hsz := r2.sizeOf_run hendrun
  have hendlt := r2.run_lt hendrun
  have hpos2 := r2.hpos
  have hendR : InR t2 (endN : Int) := r2.inR_nat (by omega)
  have hend1 : fMulti t2 (endN : Int) = true → InR t2 ((endN : Int) + 1) := by
    intro hm; rw [(r2.run endN r hendrun).multi] at hm
    have : endN + 1 < r := by simpa using hm
    exact r2.inR (by omega) (by omega)
  have hle : l ≤ s := hlf.1
  have hsend : s ≤ endN ∧ endN < r := by
    have := hendrun.1
    by_cases hm : mergeR a e
    · have : endN = e := by simpa [hm] using hend
      omega
    · have h1 : endN = s := by simpa [hm] using hend
      omega
  have hlr : l < r := by omega
  have hR2 : ∀ w : Int, (l : Int) ≤ w → w < r → InR t2 w := fun w h0 h1 => r2.inR (by omega) (by omega)
  have hcalc : (endN : Int) - l + ((r : Int) - endN) = (r : Int) - l := by omega
  refine ⟨t2, pSetSize t2 (l : Int) ((r : Int) - l), L2, _, ?_, r2, sizedAs_setSize hlr (by omega) hR2,
    by rw [hh2, hh1], ?_, ?_, ?_⟩
  · rw [coalesce_eq]
    simp only [bind, Except.bind, u1, u2, getSize_ok hendR hend1, hsz, hcalc]
    exact setSize_ok (hR2 _ (by omega) (by omega)) (fun _ => ⟨hR2 _ (by omega) (by omega), hR2 _ (by omega) (by omega)⟩)
  · rintro y ((f | ⟨_, f⟩) | ⟨_, f⟩)
    · exact f.elim
    · omega
    · omega
  · intro hm
    right
    have hrun : IsRun a l s := by simpa [hm] using hl
    have ok := h.run l s hrun
    have := hm.1
    have := hrun.1
    refine ⟨?_, rfl⟩
    rw [← ok.own (s - 1) (by omega) (by omega), hL hm]; simp
  · intro hm
    left; right
    have : endN = e := by simpa [hm] using hend
    refine ⟨?_, this.symm⟩
    rw [this, hR hm]; simp

/-- **`free`.**  `l`, `r`: start and end of the coalesced run. -/
theorem free_refines_rel {t : Tab} {a : AS} {L : Nat → List Nat} {k s e : Nat} (debug rcs : Bool)
    (h : Rel t a L) (hk : (k : Int) < t.heads) (hp : Pre a (.free k s e)) :
    ∃ (t' : Tab) (L' : Nat → List Nat) (l r : Nat), free debug t (hd k) (s : Int) rcs = .ok (t', if rcs then (r : Int) - l else (e : Int) - s) ∧
      Rel t' (Runs.apply a (.free k s e)) L' ∧ t'.heads = t.heads ∧
      (if mergeL a s then IsRun a l s else l = s) ∧ (if mergeR a e then IsRun a e r else r = e) := by
  have hp' := hp
  obtain ⟨hse, hown, hL, hR⟩ := hp
  have hse1 := hse.1
  have hlt := h.run_lt hse
  have hpos := h.hpos
  -- the coalesced run
  have hl : ∃ l, if mergeL a s then IsRun a l s else l = s := by
    by_cases hm : mergeL a s
    · obtain ⟨l, hl⟩ := exists_run_left a hse hm.1
      exact ⟨l, by simpa [hm] using hl⟩
    · exact ⟨s, by simp [hm]⟩
  obtain ⟨l, hl⟩ := hl
  have hr : ∃ r, if mergeR a e then IsRun a e r else r = e := by
    by_cases hm : mergeR a e
    · obtain ⟨r, hr⟩ := exists_run_right a hse hm.1
      exact ⟨r, by simpa [hm] using hr⟩
    · exact ⟨e, by simp [hm]⟩
  obtain ⟨r, hr⟩ := hr
  have hlf := left_facts a hse hl
  have hrf := right_facts a hse hr
  -- reads
  have ok := h.run s e hse
  have hsR : InR t (s : Int) := h.inR_nat (by omega)
  have hs1 : fMulti t (s : Int) = true → InR t ((s : Int) + 1) := by
    intro hm; rw [ok.multi] at hm
    have : s + 1 < e := by simpa using hm
    exact h.inR (by omega) (by omega)
  have hsz := h.sizeOf_run hse
  have hfs : fFree t (s : Int) = false := by rw [ok.free, hown]; rfl
  have hleftR : InR t ((s : Int) - 1) := h.inR (by omega) (by omega)
  have hright : getRight t (s : Int) = .ok (e : Int) := by
    unfold getRight
    simp only [bind, Except.bind, getSize_ok hsR hs1, hsz, pure, Except.pure]
    congr 1; omega
  generalize hendN : (if mergeR a e then e else s : Nat) = endN
  have hpe := pickEnd_ok h hp'
  rw [hendN] at hpe
  rw [free_eq]
  simp only [bind, Except.bind, getFree_ok hsR, hfs, Bool.false_eq_true, if_false, pure, Except.pure, ite_self,
    getSize_ok hsR hs1, hsz, getLeft_ok hleftR, pickStart_ok h hp' hl, hright, hpe]
  by_cases hne : l = endN
  · -- nothing to coalesce
    have hnR : ¬ mergeR a e := by
      intro hm
      have : endN = e := by simpa [hm] using hendN.symm
      have := hlf.1; omega
    have hes : endN = s := by simpa [hnR] using hendN.symm
    have hls : l = s := by omega
    have hnL : ¬ mergeL a s := hlf.2.2.2.2 hls
    have hre : r = e := by simpa [hnR] using hr
    subst hls hre
    have hb : (((l : Nat) : Int) != ((endN : Nat) : Int)) = false := by simp [hes]
    simp only [hb, Bool.false_eq_true, if_false]
    obtain ⟨f1, f2, f3⟩ := free_finish debug h hk hp' hl hr (fun y f => f.elim) (fun hm => absurd hm hnL)
      (fun hm => absurd hm hnR) (sizedAs_self h hse)
    have hg : (if rcs = true then getSize t (l : Int) else Except.ok ((r : Int) - l)) = .ok ((r : Int) - l) := by
      cases rcs
      · rfl
      · simp only [if_true, getSize_ok hsR hs1, hsz]
    rw [hg]
    simp only [f1]
    refine ⟨_, _, l, r, ?_, f2, by simp, hl, hr⟩
    cases rcs <;> rfl
  · have hb : (((l : Nat) : Int) != ((endN : Nat) : Int)) = true := by
      simp only [bne_iff_ne, ne_eq]; omega
    simp only [hb, if_true]
    obtain ⟨t2, t3, L2, X, c1, c2, c3, c4, c5, c6, c7⟩ := free_merge debug h hk hp' hl hr hendN.symm hne
    rw [c1]
    simp only []
    obtain ⟨f1, f2, f3⟩ := free_finish debug c2 (by rw [c4]; exact hk) hp' hl hr c5 c6 c7 c3
    have hlR3 : InR t3 (l : Int) := (c3.inR _).mpr (c2.inR_nat (by have := hrf.2.1; have := hlf.1; omega))
    have hl13 : fMulti t3 (l : Int) = true → InR t3 ((l : Int) + 1) := by
      intro hm; rw [c3.multi] at hm
      have : l + 1 < r := by simpa using hm
      exact (c3.inR _).mpr (c2.inR (by have := c2.hpos; omega) (by have := hrf.2.1; omega))
    have hg : (if rcs = true then getSize t3 (l : Int) else Except.ok ((e : Int) - s)) =
        .ok (if rcs then (r : Int) - l else (e : Int) - s) := by
      cases rcs
      · rfl
      · simp only [if_true, getSize_ok hlR3 hl13, f3]
    rw [hg]
    simp only [f1]
    exact ⟨_, _, l, r, rfl, f2, by simp [c3.heads, c4], hl, hr⟩

end Mmtk.FreeList
