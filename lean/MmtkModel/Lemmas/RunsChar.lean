import MmtkModel.Spec.Runs
/-!
# Characterisation of the runs of the abstract free-list partition (`Mmtk.Runs`)

Runs are equal or disjoint, every unit lies in a run, every run has its neighbours, and the exact
set of runs after `alloc` and after `free` (in terms of the runs before).
-/
namespace Mmtk.Runs

/-! ## re-proved from `Props/C26` (cannot be imported here) -/

theorem runs_disjoint' (a : AS) {s e s' e' : Nat} (h : IsRun a s e) (h' : IsRun a s' e')
    (hlt : s < s') : e ≤ s' := by
  rcases Nat.lt_or_ge s' e with hin | hge
  · have hc := h.2.2.2.2 s' hlt hin
    rcases h'.2.2.1 with h0 | hcut
    · omega
    · rw [hc] at hcut; cases hcut
  · exact hge

theorem run_end_unique' (a : AS) {s e e' : Nat} (h : IsRun a s e) (h' : IsRun a s e') : e = e' := by
  rcases Nat.lt_trichotomy e e' with hlt | heq | hgt
  · have := h'.2.2.2.2 e h.1 hlt
    rcases h.2.2.2.1 with hu | hc
    · have := h'.2.1; omega
    · rw [this] at hc; cases hc
  · exact heq
  · have := h.2.2.2.2 e' h'.1 hgt
    rcases h'.2.2.2.1 with hu | hc
    · have := h.2.1; omega
    · rw [this] at hc; cases hc

/-! ## runs are equal or disjoint -/

/-- two runs are equal or disjoint -/
theorem run_eq_or_disjoint (a : AS) {s e x y : Nat} (h : IsRun a s e) (h' : IsRun a x y) :
    (x = s ∧ y = e) ∨ y ≤ s ∨ e ≤ x := by
  rcases Nat.lt_trichotomy x s with hlt | heq | hgt
  · exact Or.inr (Or.inl (runs_disjoint' a h' h hlt))
  · subst heq; exact Or.inl ⟨rfl, run_end_unique' a h' h⟩
  · exact Or.inr (Or.inr (runs_disjoint' a h h' hgt))

theorem run_start_unique (a : AS) {s s' e : Nat} (h : IsRun a s e) (h' : IsRun a s' e) : s = s' := by
  have h1 := h.1
  have h2 := h'.1
  rcases run_eq_or_disjoint a h h' with ⟨h3, _⟩ | h3 | h3
  · exact h3.symm
  · omega
  · omega

/-! ## searching for the neighbouring boundaries -/

theorem search_down (a : AS) (t : Nat) : ∀ m, m < t → (∀ b, m < b → b < t → a.cut b = false) →
    ∃ l, l < t ∧ (l = 0 ∨ a.cut l = true) ∧ ∀ b, l < b → b < t → a.cut b = false := by
  intro m
  induction m with
  | zero => intro h0 hin; exact ⟨0, h0, Or.inl rfl, hin⟩
  | succ m ih =>
    intro hm hin
    rcases hc : a.cut (m + 1) with _ | _
    · apply ih (by omega)
      intro b h1 h2
      rcases Nat.lt_or_ge (m + 1) b with h3 | h3
      · exact hin b h3 h2
      · have hb : b = m + 1 := by omega
        rw [hb]; exact hc
    · exact ⟨m + 1, hm, Or.inr hc, hin⟩

theorem search_up (a : AS) (t : Nat) : ∀ d m, a.units - m = d → t < m → m ≤ a.units →
    (∀ b, t < b → b < m → a.cut b = false) →
    ∃ r, t < r ∧ r ≤ a.units ∧ (r = a.units ∨ a.cut r = true) ∧
      ∀ b, t < b → b < r → a.cut b = false := by
  intro d
  induction d with
  | zero =>
    intro m hd htm hmu hin
    have hm : m = a.units := by omega
    exact ⟨m, htm, hmu, Or.inl hm, hin⟩
  | succ d ih =>
    intro m hd htm hmu hin
    rcases hc : a.cut m with _ | _
    · apply ih (m + 1) (by omega) (by omega) (by omega)
      intro b h1 h2
      rcases Nat.lt_or_ge b m with h3 | h3
      · exact hin b h1 h3
      · have hb : b = m := by omega
        rw [hb]; exact hc
    · exact ⟨m, htm, hmu, Or.inr hc, hin⟩

/-- the run that ends where a run starts -/
theorem exists_run_left (a : AS) {s e : Nat} (h : IsRun a s e) (hs : 0 < s) : ∃ l, IsRun a l s := by
  obtain ⟨hse, heu, hs0, _, _⟩ := h
  have hcs : a.cut s = true := by
    rcases hs0 with h0 | hc
    · omega
    · exact hc
  obtain ⟨l, hl, h0, hin⟩ := search_down a s (s - 1) (by omega) (fun b h1 h2 => by omega)
  exact ⟨l, hl, by omega, h0, Or.inr hcs, hin⟩

/-- the run that starts where a run ends -/
theorem exists_run_right (a : AS) {s e : Nat} (h : IsRun a s e) (he : e < a.units) :
    ∃ r, IsRun a e r := by
  obtain ⟨hse, heu, _, he0, _⟩ := h
  have hce : a.cut e = true := by
    rcases he0 with h0 | hc
    · omega
    · exact hc
  obtain ⟨r, her, hru, hr, hin⟩ :=
    search_up a e (a.units - (e + 1)) (e + 1) rfl (by omega) (by omega) (fun b h1 h2 => by omega)
  exact ⟨r, her, hru, Or.inr hce, hr, hin⟩

/-- every unit below `units` lies in a run -/
theorem exists_run_containing (a : AS) {u : Nat} (hu : u < a.units) :
    ∃ s e, IsRun a s e ∧ s ≤ u ∧ u < e := by
  obtain ⟨l, hl, h0, hinl⟩ := search_down a (u + 1) u (by omega) (fun b h1 h2 => by omega)
  obtain ⟨r, hur, hru, hr, hinr⟩ :=
    search_up a u (a.units - (u + 1)) (u + 1) rfl (by omega) (by omega) (fun b h1 h2 => by omega)
  refine ⟨l, r, ⟨by omega, hru, h0, hr, ?_⟩, by omega, hur⟩
  intro b h1 h2
  rcases Nat.lt_or_ge u b with h3 | h3
  · exact hinr b h3 h2
  · exact hinl b h1 (by omega)

/-! ## runs after `alloc` -/

theorem alloc_cut (a : AS) (k s n e b : Nat) :
    (apply a (.alloc k s n e)).cut b = if b = s + n then true else a.cut b := rfl

theorem alloc_units (a : AS) (k s n e : Nat) : (apply a (.alloc k s n e)).units = a.units := rfl

theorem alloc_cut_of_true (a : AS) (k s n e : Nat) {b : Nat} (h : a.cut b = true) :
    (apply a (.alloc k s n e)).cut b = true := by
  rw [alloc_cut]
  by_cases hq : b = s + n
  · rw [if_pos hq]
  · rw [if_neg hq]; exact h

theorem alloc_cut_ne (a : AS) (k s n e : Nat) {b : Nat} (h : b ≠ s + n) :
    (apply a (.alloc k s n e)).cut b = a.cut b := by
  rw [alloc_cut, if_neg h]

theorem alloc_run_taken (a : AS) {k s n e : Nat} (h : IsRun a s e) (hn : 1 ≤ n) (hf : s + n ≤ e) :
    IsRun (apply a (.alloc k s n e)) s (s + n) := by
  obtain ⟨hse, heu, hs, he, hin⟩ := h
  refine ⟨by omega, ?_, ?_, Or.inr ?_, ?_⟩
  · rw [alloc_units]; omega
  · rcases hs with h0 | hc
    · exact Or.inl h0
    · exact Or.inr (alloc_cut_of_true a k s n e hc)
  · rw [alloc_cut, if_pos rfl]
  · intro b h1 h2
    rw [alloc_cut_ne a k s n e (by omega)]
    exact hin b h1 (by omega)

theorem alloc_run_rest (a : AS) {k s n e : Nat} (h : IsRun a s e) (hn : 1 ≤ n) (hf : s + n < e) :
    IsRun (apply a (.alloc k s n e)) (s + n) e := by
  obtain ⟨hse, heu, hs, he, hin⟩ := h
  refine ⟨hf, heu, Or.inr ?_, ?_, ?_⟩
  · rw [alloc_cut, if_pos rfl]
  · rcases he with h0 | hc
    · exact Or.inl h0
    · exact Or.inr (alloc_cut_of_true a k s n e hc)
  · intro b h1 h2
    rw [alloc_cut_ne a k s n e (by omega)]
    exact hin b (by omega) h2

theorem alloc_run_other (a : AS) {k s n e x y : Nat} (h : IsRun a s e) (hn : 1 ≤ n) (hf : s + n ≤ e)
    (h' : IsRun a x y) (hd : y ≤ s ∨ e ≤ x) : IsRun (apply a (.alloc k s n e)) x y := by
  have _ := h  -- not needed: only `s + n ≤ e` and the disjointness matter
  obtain ⟨hxy, hyu, hx, hy, hin'⟩ := h'
  refine ⟨hxy, hyu, ?_, ?_, ?_⟩
  · rcases hx with h0 | hc
    · exact Or.inl h0
    · exact Or.inr (alloc_cut_of_true a k s n e hc)
  · rcases hy with h0 | hc
    · exact Or.inl h0
    · exact Or.inr (alloc_cut_of_true a k s n e hc)
  · intro b h1 h2
    rw [alloc_cut_ne a k s n e (by omega)]
    exact hin' b h1 h2

theorem alloc_run_inv (a : AS) {k s n e x y : Nat} (h : IsRun a s e) (hn : 1 ≤ n) (hf : s + n ≤ e)
    (h' : IsRun (apply a (.alloc k s n e)) x y) :
    (x = s ∧ y = s + n) ∨ (x = s + n ∧ y = e ∧ s + n < e) ∨ (IsRun a x y ∧ (y ≤ s ∨ e ≤ x)) := by
  have ht : IsRun (apply a (.alloc k s n e)) s (s + n) := alloc_run_taken a h hn hf
  have hxy := h'.1
  have hdis : (x = s ∧ y = s + n) ∨ (x = s + n ∧ y = e ∧ s + n < e) ∨ (y ≤ s ∨ e ≤ x) := by
    rcases run_eq_or_disjoint _ ht h' with h1 | h1
    · exact Or.inl h1
    · rcases Nat.lt_or_ge (s + n) e with hlt | hge
      · have hrest : IsRun (apply a (.alloc k s n e)) (s + n) e := alloc_run_rest a h hn hlt
        rcases run_eq_or_disjoint _ hrest h' with h2 | h2
        · exact Or.inr (Or.inl ⟨h2.1, h2.2, hlt⟩)
        · right; right; omega
      · right; right; omega
  rcases hdis with h1 | h1 | hd
  · exact Or.inl h1
  · exact Or.inr (Or.inl h1)
  · right; right
    refine ⟨?_, hd⟩
    obtain ⟨_, hyu, hx, hy, hin'⟩ := h'
    obtain ⟨hse, heu, hs, he, hin⟩ := h
    have hyu' : y ≤ a.units := hyu
    refine ⟨hxy, hyu', ?_, ?_, ?_⟩
    · rcases hx with h0 | hc
      · exact Or.inl h0
      · right
        by_cases hq : x = s + n
        · have hxe : x = e := by omega
          rcases he with h0 | hce
          · omega
          · rw [hxe]; exact hce
        · rw [alloc_cut_ne a k s n e hq] at hc; exact hc
    · rcases hy with h0 | hc
      · exact Or.inl h0
      · right
        rw [alloc_cut_ne a k s n e (by omega)] at hc; exact hc
    · intro b h1 h2
      have hc := hin' b h1 h2
      by_cases hq : b = s + n
      · rw [alloc_cut, if_pos hq] at hc; cases hc
      · rw [alloc_cut_ne a k s n e hq] at hc; exact hc

/-! ## runs after `free` -/

theorem free_cut (a : AS) (k s e b : Nat) :
    (apply a (.free k s e)).cut b =
      if (b = s ∧ mergeL a s) ∨ (b = e ∧ mergeR a e) then false else a.cut b := rfl

theorem free_units (a : AS) (k s e : Nat) : (apply a (.free k s e)).units = a.units := rfl

theorem free_cut_false (a : AS) (k s e : Nat) {b : Nat} (h : a.cut b = false) :
    (apply a (.free k s e)).cut b = false := by
  rw [free_cut]
  by_cases hq : (b = s ∧ mergeL a s) ∨ (b = e ∧ mergeR a e)
  · rw [if_pos hq]
  · rw [if_neg hq]; exact h

theorem free_cut_true (a : AS) (k s e : Nat) {b : Nat} (h : (apply a (.free k s e)).cut b = true) :
    a.cut b = true := by
  rw [free_cut] at h
  by_cases hq : (b = s ∧ mergeL a s) ∨ (b = e ∧ mergeR a e)
  · rw [if_pos hq] at h; cases h
  · rw [if_neg hq] at h; exact h

theorem free_cut_ne (a : AS) (k s e : Nat) {b : Nat} (hs : b = s → ¬ mergeL a s)
    (he : b = e → ¬ mergeR a e) : (apply a (.free k s e)).cut b = a.cut b := by
  have hq : ¬ ((b = s ∧ mergeL a s) ∨ (b = e ∧ mergeR a e)) := by
    rintro (⟨h1, h2⟩ | ⟨h1, h2⟩)
    · exact hs h1 h2
    · exact he h1 h2
  rw [free_cut, if_neg hq]

/-- what the hypothesis on `l` says -/
theorem left_facts (a : AS) {s e l : Nat} (h : IsRun a s e)
    (hl : if mergeL a s then IsRun a l s else l = s) :
    l ≤ s ∧ (l = 0 ∨ a.cut l = true) ∧ (∀ b, l < b → b < s → a.cut b = false) ∧
      (l < s → mergeL a s) ∧ (l = s → ¬ mergeL a s) := by
  by_cases hm : mergeL a s
  · rw [if_pos hm] at hl
    have h1 := hl.1
    exact ⟨Nat.le_of_lt h1, hl.2.2.1, hl.2.2.2.2, fun _ => hm, fun h2 => by omega⟩
  · rw [if_neg hm] at hl
    rw [hl]
    exact ⟨Nat.le_refl _, h.2.2.1, fun b h1 h2 => by omega, fun h1 => by omega, fun _ => hm⟩

/-- what the hypothesis on `r` says -/
theorem right_facts (a : AS) {s e r : Nat} (h : IsRun a s e)
    (hr : if mergeR a e then IsRun a e r else r = e) :
    e ≤ r ∧ r ≤ a.units ∧ (r = a.units ∨ a.cut r = true) ∧ (∀ b, e < b → b < r → a.cut b = false) ∧
      (e < r → mergeR a e) ∧ (r = e → ¬ mergeR a e) := by
  by_cases hm : mergeR a e
  · rw [if_pos hm] at hr
    have h1 := hr.1
    exact ⟨Nat.le_of_lt h1, hr.2.1, hr.2.2.2.1, hr.2.2.2.2, fun _ => hm, fun h2 => by omega⟩
  · rw [if_neg hm] at hr
    rw [hr]
    exact ⟨Nat.le_refl _, h.2.1, h.2.2.2.1, fun b h1 h2 => by omega, fun h1 => by omega, fun _ => hm⟩

theorem free_run_merged (a : AS) {k s e l r : Nat} (h : IsRun a s e)
    (hl : if mergeL a s then IsRun a l s else l = s) (hr : if mergeR a e then IsRun a e r else r = e) :
    IsRun (apply a (.free k s e)) l r := by
  obtain ⟨hls, hl0, hlin, hlm, hlnm⟩ := left_facts a h hl
  obtain ⟨her, hru, hr1, hrin, hrm, hrnm⟩ := right_facts a h hr
  obtain ⟨hse, heu, hs, he, hin⟩ := h
  refine ⟨by omega, hru, ?_, ?_, ?_⟩
  · rcases hl0 with h0 | hc
    · exact Or.inl h0
    · right
      rw [free_cut_ne a k s e hlnm (fun h1 => by omega)]; exact hc
  · rcases hr1 with h0 | hc
    · exact Or.inl h0
    · right
      rw [free_cut_ne a k s e (fun h1 => by omega) hrnm]; exact hc
  · intro b h1 h2
    by_cases hbs : b = s
    · rw [free_cut, if_pos (Or.inl ⟨hbs, hlm (by omega)⟩)]
    · by_cases hbe : b = e
      · rw [free_cut, if_pos (Or.inr ⟨hbe, hrm (by omega)⟩)]
      · apply free_cut_false
        rcases Nat.lt_or_ge b s with h3 | h3
        · exact hlin b h1 h3
        · rcases Nat.lt_or_ge b e with h4 | h4
          · exact hin b (by omega) h4
          · exact hrin b (by omega) h2

theorem free_run_other (a : AS) {k s e l r x y : Nat} (h : IsRun a s e)
    (hl : if mergeL a s then IsRun a l s else l = s) (hr : if mergeR a e then IsRun a e r else r = e)
    (h' : IsRun a x y) (hd : y ≤ l ∨ r ≤ x) : IsRun (apply a (.free k s e)) x y := by
  obtain ⟨hls, hl0, hlin, hlm, hlnm⟩ := left_facts a h hl
  obtain ⟨her, hru, hr1, hrin, hrm, hrnm⟩ := right_facts a h hr
  obtain ⟨hse, heu, hs, he, hin⟩ := h
  obtain ⟨hxy, hyu, hx, hy, hin'⟩ := h'
  refine ⟨hxy, hyu, ?_, ?_, fun b h1 h2 => free_cut_false a k s e (hin' b h1 h2)⟩
  · rcases hx with h0 | hc
    · exact Or.inl h0
    · right
      rw [free_cut_ne a k s e (fun h1 => by omega) (fun h1 => hrnm (by omega))]; exact hc
  · rcases hy with h0 | hc
    · exact Or.inl h0
    · right
      rw [free_cut_ne a k s e (fun h1 => hlnm (by omega)) (fun h1 => by omega)]; exact hc

theorem free_run_inv (a : AS) {k s e l r x y : Nat} (h : IsRun a s e)
    (hl : if mergeL a s then IsRun a l s else l = s) (hr : if mergeR a e then IsRun a e r else r = e)
    (h' : IsRun (apply a (.free k s e)) x y) :
    (x = l ∧ y = r) ∨ (IsRun a x y ∧ (y ≤ l ∨ r ≤ x)) := by
  have hm : IsRun (apply a (.free k s e)) l r := free_run_merged a h hl hr
  rcases run_eq_or_disjoint _ hm h' with h1 | hd
  · exact Or.inl h1
  · right
    refine ⟨?_, hd⟩
    obtain ⟨hls, hl0, hlin, hlm, hlnm⟩ := left_facts a h hl
    obtain ⟨her, hru, hr1, hrin, hrm, hrnm⟩ := right_facts a h hr
    obtain ⟨hse, heu, hs, he, hin⟩ := h
    obtain ⟨hxy, hyu, hx, hy, hin'⟩ := h'
    refine ⟨hxy, hyu, ?_, ?_, ?_⟩
    · rcases hx with h0 | hc
      · exact Or.inl h0
      · exact Or.inr (free_cut_true a k s e hc)
    · rcases hy with h0 | hc
      · exact Or.inl h0
      · exact Or.inr (free_cut_true a k s e hc)
    · intro b h1 h2
      have hc := hin' b h1 h2
      rw [free_cut_ne a k s e (fun h3 => by omega) (fun h3 => by omega)] at hc
      exact hc

end Mmtk.Runs
