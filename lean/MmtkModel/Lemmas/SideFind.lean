import MmtkModel.Lemmas.SideSearch
/-!
# Helper lemmas for C22: the searches at position level and at region level

* `fwdSearch` / `bwdSearch` — what the fast searches compute on global bit positions: the first
  (last) position of a bit interval whose byte is unmapped or whose bit is set.
* `regionFwd` / `regionBwd` — what the naive searches compute on regions: the first (last) region whose
  data is unmapped (→ nothing) or whose field is non-zero (→ its start).
* `MapConsistent` — the scope of the property; `fwd_fast_region` / `bwd_fast_region`: under it the
  position-level search, mapped back to a data address, is the region-level search.
* `findNextSimpleLoop_eq` / `findPrevSimpleLoop_eq` — the naive loops (with their mapped-chunk cache)
  are the region-level searches.
-/
namespace Mmtk.SideMeta
open Mmtk.Mem
open Mmtk.HeaderMeta (ByteMem)

/-- What the searches assume of the mmapper: the granularity is a positive multiple of 8 and
mapped-ness is constant on granules (this is what makes the `mapped_chunk` caches of the loops sound). -/
structure MapEnv.ok (env : MapEnv) : Prop where
  gran8 : 8 ∣ env.gran
  gpos : 0 < env.gran
  const : ∀ x y, x / env.gran = y / env.gran → env.mapped x = env.mapped y

/-- result of a search on global bit positions. -/
inductive PosRes where
  | found (p : Nat)
  | notFound
  | unmapped
deriving DecidableEq, Repr

def PosRes.toFind : PosRes → FindRes
  | .found p => .found (p / 8) (p % 8)
  | .notFound => .notFound
  | .unmapped => .unmapped

def PosRes.orElse : PosRes → PosRes → PosRes
  | .notFound, r => r
  | r, _ => r

/-- the data address reported for a found bit (`align_metadata_address`, then
`contiguous_meta_address_to_address`). -/
def resData (s : Spec) : PosRes → Option Nat
  | .found p => some (metaToData s (alignMeta s (p / 8) (p % 8)).1 (alignMeta s (p / 8) (p % 8)).2)
  | _ => none

/-! ## forward search on positions -/

/-- first position of `[x, x+n)` whose byte is unmapped (→ `unmapped`) or whose bit is set (→ `found`). -/
def fwdSearch (env : MapEnv) (m : Mem) : Nat → Nat → PosRes
  | 0, _ => .notFound
  | n + 1, x =>
    if !env.mapped (x / 8) then .unmapped else if bitAt m x then .found x else fwdSearch env m n (x + 1)

theorem fwdSearch_append (env : MapEnv) (m : Mem) : ∀ n1 n2 x,
    fwdSearch env m (n1 + n2) x = (fwdSearch env m n1 x).orElse (fwdSearch env m n2 (x + n1)) := by
  intro n1
  induction n1 with
  | zero => intro n2 x; simp [fwdSearch, PosRes.orElse]
  | succ n1 ih =>
    intro n2 x
    rw [Nat.succ_add]
    simp only [fwdSearch]
    by_cases h1 : env.mapped (x / 8) = true
    · by_cases h2 : bitAt m x = true
      · simp [h1, h2, PosRes.orElse]
      · have e : x + (n1 + 1) = x + 1 + n1 := by omega
        simp [h1, h2, ih n2 (x + 1), e]
    · simp [h1, PosRes.orElse]

theorem fwdSearch_clear (env : MapEnv) (m : Mem) : ∀ n x,
    (∀ p, x ≤ p → p < x + n → env.mapped (p / 8) = true ∧ bitAt m p = false) →
    fwdSearch env m n x = .notFound := by
  intro n
  induction n with
  | zero => intro x _; rfl
  | succ n ih =>
    intro x h
    obtain ⟨a, b⟩ := h x (Nat.le_refl _) (by omega)
    simp only [fwdSearch, a, b]
    simp
    exact ih (x + 1) (fun p h1 h2 => h p (by omega) (by omega))

theorem fwdSearch_hit (env : MapEnv) (m : Mem) (n x q : Nat) (h1 : x ≤ q) (h2 : q < x + n)
    (hclear : ∀ p, x ≤ p → p < q → env.mapped (p / 8) = true ∧ bitAt m p = false)
    (hm : env.mapped (q / 8) = true) (hb : bitAt m q = true) : fwdSearch env m n x = .found q := by
  obtain ⟨k, rfl⟩ : ∃ k, n = (q - x) + (k + 1) := ⟨n - (q - x) - 1, by omega⟩
  rw [fwdSearch_append, fwdSearch_clear env m (q - x) x (fun p a b => hclear p a (by omega))]
  have e : x + (q - x) = q := by omega
  simp [PosRes.orElse, e, fwdSearch, hm, hb]

theorem fwdSearch_unm (env : MapEnv) (m : Mem) (n x q : Nat) (h1 : x ≤ q) (h2 : q < x + n)
    (hclear : ∀ p, x ≤ p → p < q → env.mapped (p / 8) = true ∧ bitAt m p = false)
    (hm : env.mapped (q / 8) = false) : fwdSearch env m n x = .unmapped := by
  obtain ⟨k, rfl⟩ : ∃ k, n = (q - x) + (k + 1) := ⟨n - (q - x) - 1, by omega⟩
  rw [fwdSearch_append, fwdSearch_clear env m (q - x) x (fun p a b => hclear p a (by omega))]
  have e : x + (q - x) = q := by omega
  simp [PosRes.orElse, e, fwdSearch, hm]

/-- where every readable bit is zero nothing is found. -/
theorem fwdSearch_never (env : MapEnv) (m : Mem) : ∀ n x,
    (∀ p, x ≤ p → p < x + n → env.mapped (p / 8) = true → bitAt m p = false) →
    ∀ q, fwdSearch env m n x ≠ .found q := by
  intro n
  induction n with
  | zero => intro x _ q; simp [fwdSearch]
  | succ n ih =>
    intro x h q
    simp only [fwdSearch]
    by_cases h1 : env.mapped (x / 8) = true
    · have := h x (Nat.le_refl _) (by omega) h1
      simp only [h1, this]
      simp
      exact ih (x + 1) (fun p a b => h p (by omega) (by omega)) q
    · simp [h1]

/-- on a fully mapped interval the search finds the first set bit, or reports that there is none. -/
theorem fwdSearch_mapped (env : MapEnv) (m : Mem) : ∀ n x,
    (∀ p, x ≤ p → p < x + n → env.mapped (p / 8) = true) →
    (fwdSearch env m n x = .notFound ∧ ∀ p, x ≤ p → p < x + n → bitAt m p = false) ∨
    (∃ q, x ≤ q ∧ q < x + n ∧ fwdSearch env m n x = .found q ∧ bitAt m q = true) := by
  intro n
  induction n with
  | zero => intro x _; exact Or.inl ⟨rfl, fun p a b => by omega⟩
  | succ n ih =>
    intro x h
    have h1 := h x (Nat.le_refl _) (by omega)
    simp only [fwdSearch, h1]
    by_cases h2 : bitAt m x = true
    · exact Or.inr ⟨x, Nat.le_refl _, by omega, by simp [h2], h2⟩
    · rcases ih (x + 1) (fun p a b => h p (by omega) (by omega)) with ⟨a, b⟩ | ⟨q, a, b, c, d⟩
      · refine Or.inl ⟨by simp [h2, a], fun p p1 p2 => ?_⟩
        by_cases e : p = x
        · subst e; simpa using h2
        · exact b p (by omega) (by omega)
      · exact Or.inr ⟨q, by omega, by omega, by simp [h2, c], d⟩

/-- running the visitor of `find_next_non_zero_value_fast` over tiling ranges is the position-level
search over the whole interval. -/
theorem findVisit_tiles_fwd (env : MapEnv) (s : Spec) (m : Mem) (one : BBR → FindRes) (x0 : Nat)
    (hone : ∀ r : BBR, r.wf → x0 ≤ r.lo → one r = (fwdSearch env m (r.hi - r.lo) r.lo).toFind)
    {x y : Nat} {L : List BBR} (h : Tiles x L y) (hx : x0 ≤ x) :
    findVisit s one L = resData s (fwdSearch env m (y - x) x) := by
  induction L generalizing x with
  | nil => simp only [Tiles] at h; subst h; simp [findVisit, fwdSearch, resData]
  | cons r rs ih =>
    obtain ⟨h1, h2, h3⟩ := h
    have hlt := r.lo_lt_hi h2
    have hle := tiles_le h3
    have e : y - x = (r.hi - r.lo) + (y - r.hi) := by omega
    have e2 : x + (r.hi - r.lo) = r.hi := by omega
    rw [e, fwdSearch_append, e2]
    simp only [findVisit]
    rw [hone r h2 (by omega), ← h1]
    cases fwdSearch env m (r.hi - r.lo) r.lo with
    | found p => rfl
    | unmapped => rfl
    | notFound => exact ih h3 (by omega)

/-! ## the data address of a found bit -/

theorem alignDown_mul (r k : Nat) : alignDown (r * k) k = r * k := by
  unfold alignDown; rw [Nat.mul_mod_left]; rfl

/-- **`align_metadata_address` + `contiguous_meta_address_to_address`**: a bit inside the field of
region `r` is reported as the start of region `r`. Needs what the real layout guarantees: the table
start is aligned to the field size (byte-or-wider fields) and a sub-byte field is not wider in bits than
its region in bytes (the code computes `log_bytes_in_region - log_num_of_bits` on `usize`). -/
theorem resData_found (s : Spec) (hs : s.ok) (hal : s.start % 2 ^ (s.logBits - 3) = 0)
    (hlr : s.logBits < 3 → s.logBits ≤ s.logRegion) (r p : Nat) (hp : InFieldOf s r p)
    (h64 : r * 2 ^ s.logRegion < 2 ^ 64) :
    resData s (.found p) = some (r * 2 ^ s.logRegion) := by
  have hR := Nat.two_pow_pos s.logRegion
  obtain ⟨st, lb, lr⟩ := s
  obtain ⟨hs1, hs2⟩ := hs
  unfold InFieldOf fieldBase at hp
  simp only at hs1 hs2 hal hlr hp h64 hR
  simp only [resData, alignMeta, metaToData, Nat.shiftLeft_eq, Option.some.injEq]
  generalize hR' : 2 ^ lr = R at *
  have hrR : r ≤ r * R := Nat.le_mul_of_pos_right _ hR
  by_cases h3 : lb < 3
  · have hlr' := hlr h3
    have hge : ¬ lb ≥ 3 := by omega
    have hle3 : lb ≤ 3 := by omega
    simp only [hge, hle3, if_false, if_true]
    -- R = 2^lb * 2^(lr-lb)
    have hRW : R = 2 ^ lb * 2 ^ (lr - lb) := by rw [← hR', ← Nat.pow_add]; congr 1; omega
    generalize 2 ^ (lr - lb) = Q at hRW
    have key : ∀ rel j K W, W * K = 8 → 2 ^ lb = W → 2 ^ (3 - lb) = K → r = rel * K + j →
        p / 8 - st = rel → alignDown (p % 8) W = W * j →
        (rel * 2 ^ (3 - lb) % 2 ^ 64 * R) % 2 ^ 64 + alignDown (p % 8) (2 ^ lb) * Q % 2 ^ 64 = r * R := by
      intro rel j K W _ eW eK er _ ea
      rw [eW, eK, ea]
      rw [eW] at hRW
      have e1 : W * j * Q = j * R := by rw [hRW, Nat.mul_comm W j, Nat.mul_assoc]
      have e2 : r * R = rel * K * R + j * R := by rw [er, Nat.add_mul]
      have b1 : rel * K ≤ r := by omega
      have b2 : rel * K * R ≤ r * R := Nat.mul_le_mul_right _ b1
      have b3 : j * R ≤ r * R := Nat.mul_le_mul_right _ (by omega)
      rw [e1, Nat.mod_eq_of_lt (by omega : rel * K < 2 ^ 64), Nat.mod_eq_of_lt (by omega : rel * K * R < 2 ^ 64),
        Nat.mod_eq_of_lt (by omega : j * R < 2 ^ 64), e2]
    have hc : lb = 0 ∨ lb = 1 ∨ lb = 2 := by omega
    rcases hc with rfl | rfl | rfl
    · simp only [Nat.pow_zero, Nat.mul_one] at hp
      exact key (p / 8 - st) (p % 8) 8 1 (by decide) (by decide) (by decide) (by omega) rfl (by unfold alignDown; omega)
    · simp only [Nat.pow_one] at hp
      exact key (p / 8 - st) (p % 8 / 2) 4 2 (by decide) (by decide) (by decide) (by omega) rfl (by unfold alignDown; omega)
    · have e4 : (2 : Nat) ^ 2 = 4 := by decide
      rw [e4] at hp
      exact key (p / 8 - st) (p % 8 / 4) 2 4 (by decide) (by decide) (by decide) (by omega) rfl (by unfold alignDown; omega)
  · have hge : lb ≥ 3 := by omega
    simp only [hge, if_true, Nat.zero_mul, Nat.zero_mod, Nat.add_zero]
    -- W = 8 * B
    have hW : 2 ^ lb = 8 * 2 ^ (lb - 3) := by
      have : lb = 3 + (lb - 3) := by omega
      conv => lhs; rw [this, Nat.pow_add]
    have hB := Nat.two_pow_pos (lb - 3)
    rw [hW] at hp
    generalize hBdef : 2 ^ (lb - 3) = B at *
    -- p / 8 = st + r * B + i' with i' < B
    have hmul : r * (8 * B) = 8 * (r * B) := by rw [← Nat.mul_assoc, Nat.mul_comm r 8, Nat.mul_assoc]
    rw [hmul] at hp
    obtain ⟨t, ht⟩ := Nat.dvd_of_mod_eq_zero hal
    have hq0 : B * (t + r) = st + r * B := by rw [Nat.mul_add, ← ht, Nat.mul_comm B r]
    have hq : p / 8 = B * (t + r) + (p / 8 - st - r * B) := by omega
    have hi' : p / 8 - st - r * B < B := by omega
    have hmod : p / 8 % B = p / 8 - st - r * B := by
      conv => lhs; rw [hq, Nat.mul_add_mod, Nat.mod_eq_of_lt hi']
    have hal' : alignDown (p / 8) B - st = r * B := by
      unfold alignDown; rw [hmod]; omega
    rw [hal']
    by_cases hle3 : lb ≤ 3
    · have : lb = 3 := by omega
      subst this
      have hB1 : B = 1 := by rw [← hBdef]
      subst hB1
      simp only [hle3, if_true, Nat.sub_self, Nat.pow_zero, Nat.mul_one]
      rw [Nat.mod_eq_of_lt (by omega : r < 2 ^ 64), Nat.mod_eq_of_lt h64]
    · simp only [hle3, if_false, Nat.shiftRight_eq_div_pow]
      rw [hBdef, Nat.mul_div_cancel _ hB, Nat.mod_eq_of_lt h64]

/-! ## region level, forward -/

/-- the first of the `n` regions from `r` whose data is unmapped (→ `none`) or whose field is
non-zero (→ its start). -/
def regionFwd (env : MapEnv) (s : Spec) (m : Mem) : Nat → Nat → Option Nat
  | 0, _ => none
  | n + 1, r =>
    if !env.mapped (r * 2 ^ s.logRegion) then none
    else if absArr m s r ≠ 0 then some (r * 2 ^ s.logRegion) else regionFwd env s m n (r + 1)

/-- **The scope of the property** on the regions `[lo, hi)`, searched forwards (`fwd`) or backwards:
(1) a mapped data region has mapped metadata; (2) at and behind (in search direction) an unmapped data
region every readable metadata bit is zero. This is what MMTk maintains: metadata is mapped with its
data chunk and only used chunks carry non-zero metadata. -/
def MapConsistent (env : MapEnv) (s : Spec) (m : Mem) (lo hi : Nat) (fwd : Bool) : Prop :=
  (∀ r, lo ≤ r → r < hi → env.mapped (r * 2 ^ s.logRegion) = true →
    ∀ p, InFieldOf s r p → env.mapped (p / 8) = true) ∧
  (∀ r r', lo ≤ r → r < hi → lo ≤ r' → r' < hi → (if fwd then r ≤ r' else r' ≤ r) →
    env.mapped (r * 2 ^ s.logRegion) = false →
    ∀ p, InFieldOf s r' p → env.mapped (p / 8) = true → bitAt m p = false)

theorem MapConsistent.mono {env : MapEnv} {s : Spec} {m : Mem} {lo hi lo' hi' : Nat} {fwd : Bool}
    (h : MapConsistent env s m lo hi fwd) (h1 : lo ≤ lo') (h2 : hi' ≤ hi) : MapConsistent env s m lo' hi' fwd :=
  ⟨fun r a b => h.1 r (by omega) (by omega), fun r r' a b c d => h.2 r r' (by omega) (by omega) (by omega) (by omega)⟩

/-- the region whose field holds position `p` of the fields of regions `r, r+1, …`. -/
theorem field_of_pos (s : Spec) (r n p : Nat) (h1 : fieldBase s r ≤ p) (h2 : p < fieldBase s r + n * 2 ^ s.logBits) :
    ∃ r', r ≤ r' ∧ r' < r + n ∧ InFieldOf s r' p := by
  have hW := Nat.two_pow_pos s.logBits
  unfold InFieldOf
  unfold fieldBase at *
  generalize 2 ^ s.logBits = W at *
  generalize hd : p - (8 * s.start + r * W) = d
  have hq1 : d / W * W ≤ d := Nat.div_mul_le_self d W
  have hq2 : d < d / W * W + W := by
    have e := Nat.div_add_mod d W
    have := Nat.mod_lt d hW
    rw [Nat.mul_comm] at e
    omega
  have hq3 : d / W < n := (Nat.div_lt_iff_lt_mul hW).2 (by omega)
  have hq4 : (r + d / W) * W = r * W + d / W * W := Nat.add_mul ..
  generalize d / W = q at *
  exact ⟨r + q, by omega, by omega, by omega, by omega⟩

theorem fieldBase_succ (s : Spec) (r : Nat) : fieldBase s (r + 1) = fieldBase s r + 2 ^ s.logBits := by
  unfold fieldBase; rw [Nat.add_mul r 1, Nat.one_mul]; omega

/-- **fast = region level (forward)**: under `MapConsistent` the position-level search over the fields
of regions `[r, r+n)`, mapped back to a data address, is the region-level search. -/
theorem fwd_fast_region (env : MapEnv) (s : Spec) (hs : s.ok) (hal : s.start % 2 ^ (s.logBits - 3) = 0)
    (hlr : s.logBits < 3 → s.logBits ≤ s.logRegion) (m : Mem) (hm : ByteMem m) : ∀ n r,
    (r + n) * 2 ^ s.logRegion ≤ 2 ^ 64 → MapConsistent env s m r (r + n) true →
    resData s (fwdSearch env m (n * 2 ^ s.logBits) (fieldBase s r)) = regionFwd env s m n r := by
  have hR := Nat.two_pow_pos s.logRegion
  intro n
  induction n with
  | zero => intro r _ _; simp [fwdSearch, resData, regionFwd]
  | succ n ih =>
    intro r h64 hmc
    simp only [regionFwd]
    by_cases hd : env.mapped (r * 2 ^ s.logRegion) = true
    · simp only [hd, Bool.not_true, Bool.false_eq_true, if_false]
      have e : (n + 1) * 2 ^ s.logBits = 2 ^ s.logBits + n * 2 ^ s.logBits := by rw [Nat.add_mul n 1, Nat.one_mul]; omega
      rw [e, fwdSearch_append, ← fieldBase_succ]
      have hall : ∀ p, fieldBase s r ≤ p → p < fieldBase s r + 2 ^ s.logBits → env.mapped (p / 8) = true :=
        fun p a b => hmc.1 r (Nat.le_refl _) (by omega) hd p ⟨a, b⟩
      have hz := absArr_eq_zero_iff m hm s hs r
      rcases fwdSearch_mapped env m _ _ hall with ⟨a, b⟩ | ⟨q, a, b, c, d⟩
      · have h0 : absArr m s r = 0 := hz.2 (fun i hi => b _ (by omega) (by omega))
        rw [a]
        simp only [PosRes.orElse, h0, ne_eq, not_true_eq_false, if_false]
        have e2 : r + 1 + n = r + (n + 1) := by omega
        exact ih (r + 1) (by rw [e2]; exact h64) (hmc.mono (by omega) (by omega))
      · have h0 : absArr m s r ≠ 0 := by
          intro h0
          have := hz.1 h0 (q - fieldBase s r) (by omega)
          have e3 : fieldBase s r + (q - fieldBase s r) = q := by omega
          rw [e3, d] at this; cases this
        rw [c]
        simp only [PosRes.orElse, h0, ne_eq, not_false_eq_true, if_true]
        apply resData_found s hs hal hlr r q ⟨a, b⟩
        have : r * 2 ^ s.logRegion < (r + (n + 1)) * 2 ^ s.logRegion := Nat.mul_lt_mul_of_pos_right (by omega) hR
        omega
    · have hd' : env.mapped (r * 2 ^ s.logRegion) = false := by simpa using hd
      simp only [hd', Bool.not_false, if_true]
      have hnever := fwdSearch_never env m ((n + 1) * 2 ^ s.logBits) (fieldBase s r) (by
        intro p a b hpm
        obtain ⟨r', c1, c2, c3⟩ := field_of_pos s r (n + 1) p a b
        exact hmc.2 r r' (Nat.le_refl _) (by omega) c1 c2 c1 hd' p c3 hpm)
      cases hres : fwdSearch env m ((n + 1) * 2 ^ s.logBits) (fieldBase s r) with
      | found q => exact absurd hres (hnever q)
      | notFound => rfl
      | unmapped => rfl


/-! ## the mapped-chunk caches -/

theorem alignDown_eq_div (c g : Nat) : alignDown c g = c / g * g := by
  unfold alignDown
  have := Nat.div_add_mod c g
  rw [Nat.mul_comm] at this
  omega

/-- addresses between a mapped address and the end of its granule are mapped (forward cache). -/
theorem alignUp_block (env : MapEnv) (henv : env.ok) (c x : Nat) (h1 : c ≤ x) (h2 : x ≤ alignUp c env.gran - 1) :
    env.mapped x = env.mapped c := by
  by_cases hxc : x = c
  · rw [hxc]
  apply henv.const
  have hg := henv.gpos
  generalize env.gran = g at *
  unfold alignUp at h2
  rw [alignDown_eq_div] at h2
  have a1 : c / g ≤ x / g := Nat.div_le_div_right h1
  have a2 : x / g < (c + g - 1) / g := (Nat.div_lt_iff_lt_mul hg).2 (by omega)
  have a3 : (c + g - 1) / g < c / g + 2 := by
    apply (Nat.div_lt_iff_lt_mul hg).2
    have := Nat.lt_div_mul_add hg (a := c)
    rw [Nat.add_mul]
    omega
  omega

/-- addresses between the start of a granule and a mapped address in it are mapped (backward cache). -/
theorem alignDown_block (env : MapEnv) (henv : env.ok) (c x : Nat) (h1 : alignDown c env.gran ≤ x) (h2 : x ≤ c) :
    env.mapped x = env.mapped c := by
  apply henv.const
  have hg := henv.gpos
  generalize env.gran = g at *
  rw [alignDown_eq_div] at h1
  have a1 : x / g ≤ c / g := Nat.div_le_div_right h2
  have a2 : c / g ≤ x / g := (Nat.le_div_iff_mul_le hg).2 h1
  omega

/-! ## the naive forward search is the region-level search -/

theorem findNextSimpleLoop_eq (env : MapEnv) (henv : env.ok) (s : Spec) (hs : s.ok) (m : Mem) (E : Nat) :
    ∀ n fuel r grain, n ≤ fuel → (r + n) * 2 ^ s.logRegion ≤ 2 ^ 64 →
    (∀ q, r ≤ q → q < r + n → q * 2 ^ s.logRegion < E) → ¬ ((r + n) * 2 ^ s.logRegion < E) →
    (∀ x, r * 2 ^ s.logRegion ≤ x → x ≤ grain → env.mapped x = true) →
    findNextSimpleLoop env s m E fuel (r * 2 ^ s.logRegion) grain = regionFwd env s m n r := by
  have hR := Nat.two_pow_pos s.logRegion
  intro n
  induction n with
  | zero =>
    intro fuel r grain _ _ _ hE _
    rw [Nat.add_zero] at hE
    cases fuel with
    | zero => rfl
    | succ f => simp only [findNextSimpleLoop, regionFwd, hE, not_false_eq_true, if_true]
  | succ n ih =>
    intro fuel r grain hf h64 hin hE hcache
    obtain ⟨f, rfl⟩ : ∃ f, fuel = f + 1 := ⟨fuel - 1, by omega⟩
    have hlt : r * 2 ^ s.logRegion < E := hin r (Nat.le_refl _) (by omega)
    have hnext : r * 2 ^ s.logRegion + 2 ^ s.logRegion = (r + 1) * 2 ^ s.logRegion := by
      rw [Nat.add_mul r 1, Nat.one_mul]
    have hr64 : r * 2 ^ s.logRegion < 2 ^ 64 := by
      have : r * 2 ^ s.logRegion < (r + (n + 1)) * 2 ^ s.logRegion := Nat.mul_lt_mul_of_pos_right (by omega) hR
      omega
    have e2 : r + 1 + n = r + (n + 1) := by omega
    have hrec : ∀ g', (∀ x, (r + 1) * 2 ^ s.logRegion ≤ x → x ≤ g' → env.mapped x = true) →
        findNextSimpleLoop env s m E f ((r + 1) * 2 ^ s.logRegion) g' = regionFwd env s m n (r + 1) :=
      fun g' hc => ih f (r + 1) g' (by omega) (by rw [e2]; exact h64) (fun q a b => hin q (by omega) (by omega))
        (by rw [e2]; exact hE) hc
    simp only [findNextSimpleLoop, regionFwd, hlt, not_true_eq_false, if_false, hnext, load_region s hs m r hr64]
    by_cases hg : r * 2 ^ s.logRegion > grain
    · by_cases hmp : env.mapped (r * 2 ^ s.logRegion) = true
      · simp only [hg, hmp, if_true, Bool.not_true, Bool.false_eq_true, if_false]
        rw [hrec]
        intro x a b
        rw [alignUp_block env henv _ x (by omega) b, hmp]
      · have hmp' : env.mapped (r * 2 ^ s.logRegion) = false := by simpa using hmp
        simp only [hg, hmp', if_true, Bool.not_false, Bool.false_eq_true, if_false]
    · have hmp : env.mapped (r * 2 ^ s.logRegion) = true := hcache _ (Nat.le_refl _) (by omega)
      simp only [hg, hmp, if_false, Bool.not_true, Bool.false_eq_true]
      rw [hrec]
      intro x a b
      exact hcache x (by omega) b

/-- **what the region-level forward search returns**: the start of the first region with a non-zero
field, provided no data region up to and including it is unmapped. -/
theorem regionFwd_some_iff (env : MapEnv) (s : Spec) (m : Mem) : ∀ n r x, regionFwd env s m n r = some x ↔
    ∃ r', r ≤ r' ∧ r' < r + n ∧ x = r' * 2 ^ s.logRegion ∧ absArr m s r' ≠ 0 ∧
      (∀ q, r ≤ q → q < r' → absArr m s q = 0) ∧ (∀ q, r ≤ q → q ≤ r' → env.mapped (q * 2 ^ s.logRegion) = true) := by
  intro n
  induction n with
  | zero => intro r x; simp only [regionFwd]; constructor
            · intro h; cases h
            · rintro ⟨r', a, b, _⟩; omega
  | succ n ih =>
    intro r x
    simp only [regionFwd]
    by_cases hd : env.mapped (r * 2 ^ s.logRegion) = true
    · simp only [hd, Bool.not_true, Bool.false_eq_true, if_false]
      by_cases h0 : absArr m s r ≠ 0
      · simp only [h0, ne_eq, not_false_eq_true, if_true, Option.some.injEq]
        constructor
        · intro h; subst h
          exact ⟨r, Nat.le_refl _, by omega, rfl, h0, fun q a b => by omega, fun q a b => by
            have : q = r := by omega
            rw [this]; exact hd⟩
        · rintro ⟨r', a, b, c, d, e, f⟩
          by_cases hr : r' = r
          · rw [c, hr]
          · exact absurd (e r (Nat.le_refl _) (by omega)) h0
      · have h0' : absArr m s r = 0 := by simpa using h0
        simp only [h0', ne_eq, not_true_eq_false, if_false]
        rw [ih (r + 1) x]
        constructor
        · rintro ⟨r', a, b, c, d, e, f⟩
          refine ⟨r', by omega, by omega, c, d, fun q q1 q2 => ?_, fun q q1 q2 => ?_⟩
          · by_cases hq : q = r
            · rw [hq]; exact h0'
            · exact e q (by omega) q2
          · by_cases hq : q = r
            · rw [hq]; exact hd
            · exact f q (by omega) q2
        · rintro ⟨r', a, b, c, d, e, f⟩
          have hne : r' ≠ r := by intro hr; rw [hr] at d; exact d h0'
          exact ⟨r', by omega, by omega, c, d, fun q q1 q2 => e q (by omega) q2, fun q q1 q2 => f q (by omega) q2⟩
    · have hd' : env.mapped (r * 2 ^ s.logRegion) = false := by simpa using hd
      simp only [hd', Bool.not_false, if_true]
      constructor
      · intro h; cases h
      · rintro ⟨r', a, b, c, d, e, f⟩
        have := f r (Nat.le_refl _) a
        rw [hd'] at this; cases this

/-! ## backward search on positions -/

/-- last position of `[y-n, y)` whose byte is unmapped (→ `unmapped`) or whose bit is set (→ `found`). -/
def bwdSearch (env : MapEnv) (m : Mem) : Nat → Nat → PosRes
  | 0, _ => .notFound
  | n + 1, y =>
    if !env.mapped ((y - 1) / 8) then .unmapped else if bitAt m (y - 1) then .found (y - 1) else bwdSearch env m n (y - 1)

theorem bwdSearch_append (env : MapEnv) (m : Mem) : ∀ n1 n2 y,
    bwdSearch env m (n1 + n2) y = (bwdSearch env m n1 y).orElse (bwdSearch env m n2 (y - n1)) := by
  intro n1
  induction n1 with
  | zero => intro n2 y; simp [bwdSearch, PosRes.orElse]
  | succ n1 ih =>
    intro n2 y
    rw [Nat.succ_add]
    simp only [bwdSearch]
    by_cases h1 : env.mapped ((y - 1) / 8) = true
    · by_cases h2 : bitAt m (y - 1) = true
      · simp [h1, h2, PosRes.orElse]
      · have e : y - (n1 + 1) = y - 1 - n1 := by omega
        simp [h1, h2, ih n2 (y - 1), e]
    · simp [h1, PosRes.orElse]

theorem bwdSearch_clear (env : MapEnv) (m : Mem) : ∀ n y, n ≤ y →
    (∀ p, y - n ≤ p → p < y → env.mapped (p / 8) = true ∧ bitAt m p = false) →
    bwdSearch env m n y = .notFound := by
  intro n
  induction n with
  | zero => intro y _ _; rfl
  | succ n ih =>
    intro y hy h
    obtain ⟨a, b⟩ := h (y - 1) (by omega) (by omega)
    simp only [bwdSearch, a, b]
    simp
    exact ih (y - 1) (by omega) (fun p h1 h2 => h p (by omega) (by omega))

theorem bwdSearch_hit (env : MapEnv) (m : Mem) (n y q : Nat) (hn : n ≤ y) (h1 : y - n ≤ q) (h2 : q < y)
    (hclear : ∀ p, q < p → p < y → env.mapped (p / 8) = true ∧ bitAt m p = false)
    (hm : env.mapped (q / 8) = true) (hb : bitAt m q = true) : bwdSearch env m n y = .found q := by
  obtain ⟨k, rfl⟩ : ∃ k, n = (y - q - 1) + (k + 1) := ⟨n - (y - q - 1) - 1, by omega⟩
  rw [bwdSearch_append, bwdSearch_clear env m (y - q - 1) y (by omega) (fun p a b => hclear p (by omega) b)]
  have e : y - (y - q - 1) - 1 = q := by omega
  simp [PosRes.orElse, e, bwdSearch, hm, hb]

theorem bwdSearch_unm (env : MapEnv) (m : Mem) (n y q : Nat) (hn : n ≤ y) (h1 : y - n ≤ q) (h2 : q < y)
    (hclear : ∀ p, q < p → p < y → env.mapped (p / 8) = true ∧ bitAt m p = false)
    (hm : env.mapped (q / 8) = false) : bwdSearch env m n y = .unmapped := by
  obtain ⟨k, rfl⟩ : ∃ k, n = (y - q - 1) + (k + 1) := ⟨n - (y - q - 1) - 1, by omega⟩
  rw [bwdSearch_append, bwdSearch_clear env m (y - q - 1) y (by omega) (fun p a b => hclear p (by omega) b)]
  have e : y - (y - q - 1) - 1 = q := by omega
  simp [PosRes.orElse, e, bwdSearch, hm]

theorem bwdSearch_never (env : MapEnv) (m : Mem) : ∀ n y, n ≤ y →
    (∀ p, y - n ≤ p → p < y → env.mapped (p / 8) = true → bitAt m p = false) →
    ∀ q, bwdSearch env m n y ≠ .found q := by
  intro n
  induction n with
  | zero => intro y _ _ q; simp [bwdSearch]
  | succ n ih =>
    intro y hy h q
    simp only [bwdSearch]
    by_cases h1 : env.mapped ((y - 1) / 8) = true
    · have := h (y - 1) (by omega) (by omega) h1
      simp only [h1, this]
      simp
      exact ih (y - 1) (by omega) (fun p a b => h p (by omega) (by omega)) q
    · simp [h1]

theorem bwdSearch_mapped (env : MapEnv) (m : Mem) : ∀ n y, n ≤ y →
    (∀ p, y - n ≤ p → p < y → env.mapped (p / 8) = true) →
    (bwdSearch env m n y = .notFound ∧ ∀ p, y - n ≤ p → p < y → bitAt m p = false) ∨
    (∃ q, y - n ≤ q ∧ q < y ∧ bwdSearch env m n y = .found q ∧ bitAt m q = true) := by
  intro n
  induction n with
  | zero => intro y _ _; exact Or.inl ⟨rfl, fun p a b => by omega⟩
  | succ n ih =>
    intro y hy h
    have h1 := h (y - 1) (by omega) (by omega)
    simp only [bwdSearch, h1]
    by_cases h2 : bitAt m (y - 1) = true
    · exact Or.inr ⟨y - 1, by omega, by omega, by simp [h2], h2⟩
    · rcases ih (y - 1) (by omega) (fun p a b => h p (by omega) (by omega)) with ⟨a, b⟩ | ⟨q, a, b, c, d⟩
      · refine Or.inl ⟨by simp [h2, a], fun p p1 p2 => ?_⟩
        by_cases e : p = y - 1
        · subst e; simpa using h2
        · exact b p (by omega) (by omega)
      · exact Or.inr ⟨q, by omega, by omega, by simp [h2, c], d⟩

/-! ## the visitor over reversed ranges -/

/-- the first result of the visitor that is not `notFound`. -/
def visitRes (one : BBR → FindRes) : List BBR → FindRes
  | [] => .notFound
  | r :: rs =>
    match one r with
    | .notFound => visitRes one rs
    | x => x

def findData (s : Spec) : FindRes → Option Nat
  | .found addr bit => some (metaToData s (alignMeta s addr bit).1 (alignMeta s addr bit).2)
  | _ => none

theorem findVisit_eq (s : Spec) (one : BBR → FindRes) (L : List BBR) :
    findVisit s one L = findData s (visitRes one L) := by
  induction L with
  | nil => rfl
  | cons r rs ih =>
    simp only [findVisit, visitRes]
    cases one r with
    | found a b => rfl
    | unmapped => rfl
    | notFound => exact ih

theorem visitRes_append (one : BBR → FindRes) (l1 l2 : List BBR) :
    visitRes one (l1 ++ l2) = match visitRes one l1 with | .notFound => visitRes one l2 | x => x := by
  induction l1 with
  | nil => rfl
  | cons r rs ih =>
    simp only [List.cons_append, visitRes]
    cases one r with
    | found a b => rfl
    | unmapped => rfl
    | notFound => exact ih

theorem findData_toFind (s : Spec) (p : PosRes) : findData s p.toFind = resData s p := by
  cases p <;> rfl

/-- running the visitor of `find_prev_non_zero_value_fast` over the tiling ranges in reverse is the
position-level backward search over the whole interval. -/
theorem findVisit_tiles_bwd (env : MapEnv) (s : Spec) (m : Mem) (one : BBR → FindRes) (y0 : Nat)
    (hone : ∀ r : BBR, r.wf → r.hi ≤ y0 → one r = (bwdSearch env m (r.hi - r.lo) r.hi).toFind)
    {x y : Nat} {L : List BBR} (h : Tiles x L y) (hy : y ≤ y0) :
    findVisit s one L.reverse = resData s (bwdSearch env m (y - x) y) := by
  rw [findVisit_eq, ← findData_toFind]
  congr 1
  induction L generalizing x with
  | nil => simp only [Tiles] at h; subst h; simp [visitRes, bwdSearch, PosRes.toFind]
  | cons r rs ih =>
    obtain ⟨h1, h2, h3⟩ := h
    have hlt := r.lo_lt_hi h2
    have hle := tiles_le h3
    have e : y - x = (y - r.hi) + (r.hi - r.lo) := by omega
    have e2 : y - (y - r.hi) = r.hi := by omega
    rw [List.reverse_cons, visitRes_append, ih h3, e, bwdSearch_append, e2]
    simp only [visitRes]
    rw [hone r h2 (by omega)]
    cases bwdSearch env m (y - r.hi) y with
    | found p => rfl
    | unmapped => rfl
    | notFound =>
      simp only [PosRes.toFind, PosRes.orElse]
      cases bwdSearch env m (r.hi - r.lo) r.hi <;> rfl

/-! ## region level, backward -/

/-- the last of the `n` regions below `r` (`r-1, r-2, …`) whose data is unmapped (→ `none`) or whose
field is non-zero (→ its start). -/
def regionBwd (env : MapEnv) (s : Spec) (m : Mem) : Nat → Nat → Option Nat
  | 0, _ => none
  | n + 1, r =>
    if !env.mapped ((r - 1) * 2 ^ s.logRegion) then none
    else if absArr m s (r - 1) ≠ 0 then some ((r - 1) * 2 ^ s.logRegion) else regionBwd env s m n (r - 1)

theorem fieldBase_sub (s : Spec) (r0 r1 : Nat) (h : r0 ≤ r1) :
    fieldBase s r1 - fieldBase s r0 = (r1 - r0) * 2 ^ s.logBits := by
  unfold fieldBase
  rw [Nat.sub_mul]
  have := Nat.mul_le_mul_right (2 ^ s.logBits) h
  omega

theorem fieldBase_pred (s : Spec) (r : Nat) (hr : 1 ≤ r) : fieldBase s r - 2 ^ s.logBits = fieldBase s (r - 1) := by
  have := fieldBase_succ s (r - 1)
  have e : r - 1 + 1 = r := by omega
  rw [e] at this
  omega

/-- **fast = region level (backward)**. -/
theorem bwd_fast_region (env : MapEnv) (s : Spec) (hs : s.ok) (hal : s.start % 2 ^ (s.logBits - 3) = 0)
    (hlr : s.logBits < 3 → s.logBits ≤ s.logRegion) (m : Mem) (hm : ByteMem m) : ∀ n r, n ≤ r →
    r * 2 ^ s.logRegion ≤ 2 ^ 64 → MapConsistent env s m (r - n) r false →
    resData s (bwdSearch env m (n * 2 ^ s.logBits) (fieldBase s r)) = regionBwd env s m n r := by
  have hR := Nat.two_pow_pos s.logRegion
  have hW := Nat.two_pow_pos s.logBits
  intro n
  induction n with
  | zero => intro r _ _ _; simp [bwdSearch, resData, regionBwd]
  | succ n ih =>
    intro r hnr h64 hmc
    have hfb := fieldBase_pred s r (by omega)
    have hfs : fieldBase s r = fieldBase s (r - 1) + 2 ^ s.logBits := by
      have := fieldBase_succ s (r - 1)
      have e : r - 1 + 1 = r := by omega
      rw [e] at this; exact this
    have hsub : fieldBase s r - (n + 1) * 2 ^ s.logBits = fieldBase s (r - (n + 1)) := by
      have := fieldBase_sub s (r - (n + 1)) r (by omega)
      have e : r - (r - (n + 1)) = n + 1 := by omega
      rw [e] at this
      have := fieldBase_mono s (r := r - (n + 1)) (r' := r) (by omega)
      omega
    have hge : (n + 1) * 2 ^ s.logBits ≤ fieldBase s r := by
      have := fieldBase_sub s (r - (n + 1)) r (by omega)
      have e : r - (r - (n + 1)) = n + 1 := by omega
      rw [e] at this
      omega
    simp only [regionBwd]
    by_cases hd : env.mapped ((r - 1) * 2 ^ s.logRegion) = true
    · simp only [hd, Bool.not_true, Bool.false_eq_true, if_false]
      have e : (n + 1) * 2 ^ s.logBits = 2 ^ s.logBits + n * 2 ^ s.logBits := by rw [Nat.add_mul n 1, Nat.one_mul]; omega
      rw [e, bwdSearch_append, hfb]
      have hall : ∀ p, fieldBase s r - 2 ^ s.logBits ≤ p → p < fieldBase s r → env.mapped (p / 8) = true :=
        fun p a b => hmc.1 (r - 1) (by omega) (by omega) hd p ⟨by omega, by omega⟩
      have hz := absArr_eq_zero_iff m hm s hs (r - 1)
      rcases bwdSearch_mapped env m _ _ (by omega) hall with ⟨a, b⟩ | ⟨q, a, b, c, d⟩
      · have h0 : absArr m s (r - 1) = 0 := hz.2 (fun i hi => b _ (by omega) (by omega))
        rw [a]
        simp only [PosRes.orElse, h0, ne_eq, not_true_eq_false, if_false]
        have e2 : r - 1 - n = r - (n + 1) := by omega
        exact ih (r - 1) (by omega) (Nat.le_trans (Nat.mul_le_mul_right _ (by omega)) h64)
          (by rw [e2]; exact hmc.mono (Nat.le_refl _) (by omega))
      · have h0 : absArr m s (r - 1) ≠ 0 := by
          intro h0
          have := hz.1 h0 (q - fieldBase s (r - 1)) (by omega)
          have e3 : fieldBase s (r - 1) + (q - fieldBase s (r - 1)) = q := by omega
          rw [e3, d] at this; cases this
        rw [c]
        simp only [PosRes.orElse, h0, ne_eq, not_false_eq_true, if_true]
        apply resData_found s hs hal hlr (r - 1) q ⟨by omega, by omega⟩
        have : (r - 1) * 2 ^ s.logRegion < r * 2 ^ s.logRegion := Nat.mul_lt_mul_of_pos_right (by omega) hR
        omega
    · have hd' : env.mapped ((r - 1) * 2 ^ s.logRegion) = false := by simpa using hd
      simp only [hd', Bool.not_false, if_true]
      have hnever := bwdSearch_never env m ((n + 1) * 2 ^ s.logBits) (fieldBase s r) hge (by
        intro p a b hpm
        rw [hsub] at a
        obtain ⟨r', c1, c2, c3⟩ := field_of_pos s (r - (n + 1)) (n + 1) p a (by
          have := fieldBase_sub s (r - (n + 1)) r (by omega)
          have e : r - (r - (n + 1)) = n + 1 := by omega
          rw [e] at this
          omega)
        exact hmc.2 (r - 1) r' (by omega) (by omega) c1 (by omega) (by show r' ≤ r - 1; omega) hd' p c3 hpm)
      cases hres : bwdSearch env m ((n + 1) * 2 ^ s.logBits) (fieldBase s r) with
      | found q => exact absurd hres (hnever q)
      | notFound => rfl
      | unmapped => rfl

/-! ## the naive backward search is the region-level search -/

theorem findPrevSimpleLoop_eq (env : MapEnv) (henv : env.ok) (s : Spec) (hs : s.ok) (m : Mem) (E : Nat) :
    ∀ n fuel c grain, n ≤ fuel → n ≤ c → c * 2 ^ s.logRegion < 2 ^ 64 →
    (∀ q, c - n < q → q ≤ c → q * 2 ^ s.logRegion ≥ E) → ¬ ((c - n) * 2 ^ s.logRegion ≥ E) →
    (∀ x, grain ≤ x → x ≤ c * 2 ^ s.logRegion → env.mapped x = true) →
    findPrevSimpleLoop env s m E fuel (c * 2 ^ s.logRegion) grain = regionBwd env s m n (c + 1) := by
  have hR := Nat.two_pow_pos s.logRegion
  intro n
  induction n with
  | zero =>
    intro fuel c grain _ _ _ _ hE _
    rw [Nat.sub_zero] at hE
    cases fuel with
    | zero => rfl
    | succ f => simp only [findPrevSimpleLoop, regionBwd, hE, not_false_eq_true, if_true]
  | succ n ih =>
    intro fuel c grain hf hc h64 hin hE hcache
    obtain ⟨f, rfl⟩ : ∃ f, fuel = f + 1 := ⟨fuel - 1, by omega⟩
    have hge : c * 2 ^ s.logRegion ≥ E := hin c (by omega) (Nat.le_refl _)
    have hprev : c * 2 ^ s.logRegion - 2 ^ s.logRegion = (c - 1) * 2 ^ s.logRegion := by
      rw [Nat.sub_mul, Nat.one_mul]
    have hc64 : c * 2 ^ s.logRegion < 2 ^ 64 := h64
    have hnlt : ¬ c * 2 ^ s.logRegion < 2 ^ s.logRegion := by
      have := Nat.mul_le_mul_right (2 ^ s.logRegion) (by omega : 1 ≤ c)
      omega
    have hle1 : (c - 1) * 2 ^ s.logRegion ≤ c * 2 ^ s.logRegion := Nat.mul_le_mul_right _ (by omega)
    have e1 : c - 1 + 1 = c := by omega
    have e2 : c - 1 - n = c - (n + 1) := by omega
    have hrec : ∀ g', (∀ x, g' ≤ x → x ≤ (c - 1) * 2 ^ s.logRegion → env.mapped x = true) →
        findPrevSimpleLoop env s m E f ((c - 1) * 2 ^ s.logRegion) g' = regionBwd env s m n c := by
      intro g' hc'
      have := ih f (c - 1) g' (by omega) (by omega) (Nat.lt_of_le_of_lt hle1 h64)
        (fun q a b => hin q (by omega) (by omega)) (by rw [e2]; exact hE) hc'
      rw [e1] at this; exact this
    simp only [findPrevSimpleLoop, regionBwd, hge, not_true_eq_false, if_false, hprev, load_region s hs m c hc64,
      Nat.add_sub_cancel, hnlt]
    by_cases hg : c * 2 ^ s.logRegion < grain
    · by_cases hmp : env.mapped (c * 2 ^ s.logRegion) = true
      · simp only [hg, hmp, if_true, Bool.not_true, Bool.false_eq_true, if_false]
        rw [hrec]
        intro x a b
        rw [alignDown_block env henv _ x a (by omega), hmp]
      · have hmp' : env.mapped (c * 2 ^ s.logRegion) = false := by simpa using hmp
        simp only [hg, hmp', if_true, Bool.not_false, Bool.false_eq_true, if_false]
    · have hmp : env.mapped (c * 2 ^ s.logRegion) = true := hcache _ (by omega) (Nat.le_refl _)
      simp only [hg, hmp, if_false, Bool.not_true, Bool.false_eq_true]
      rw [hrec]
      intro x a b
      exact hcache x a (by omega)

/-- **what the region-level backward search returns**. -/
theorem regionBwd_some_iff (env : MapEnv) (s : Spec) (m : Mem) : ∀ n r x, n ≤ r → (regionBwd env s m n r = some x ↔
    ∃ r', r - n ≤ r' ∧ r' < r ∧ x = r' * 2 ^ s.logRegion ∧ absArr m s r' ≠ 0 ∧
      (∀ q, r' < q → q < r → absArr m s q = 0) ∧ (∀ q, r' ≤ q → q < r → env.mapped (q * 2 ^ s.logRegion) = true)) := by
  intro n
  induction n with
  | zero => intro r x _; simp only [regionBwd]; constructor
            · intro h; cases h
            · rintro ⟨r', a, b, _⟩; omega
  | succ n ih =>
    intro r x hnr
    simp only [regionBwd]
    by_cases hd : env.mapped ((r - 1) * 2 ^ s.logRegion) = true
    · simp only [hd, Bool.not_true, Bool.false_eq_true, if_false]
      by_cases h0 : absArr m s (r - 1) ≠ 0
      · simp only [h0, ne_eq, not_false_eq_true, if_true, Option.some.injEq]
        constructor
        · intro h; subst h
          exact ⟨r - 1, by omega, by omega, rfl, h0, fun q a b => by omega, fun q a b => by
            have : q = r - 1 := by omega
            rw [this]; exact hd⟩
        · rintro ⟨r', a, b, c, d, e, f⟩
          by_cases hr : r' = r - 1
          · rw [c, hr]
          · exact absurd (e (r - 1) (by omega) (by omega)) h0
      · have h0' : absArr m s (r - 1) = 0 := by simpa using h0
        simp only [h0', ne_eq, not_true_eq_false, if_false]
        rw [ih (r - 1) x (by omega)]
        constructor
        · rintro ⟨r', a, b, c, d, e, f⟩
          refine ⟨r', by omega, by omega, c, d, fun q q1 q2 => ?_, fun q q1 q2 => ?_⟩
          · by_cases hq : q = r - 1
            · rw [hq]; exact h0'
            · exact e q q1 (by omega)
          · by_cases hq : q = r - 1
            · rw [hq]; exact hd
            · exact f q q1 (by omega)
        · rintro ⟨r', a, b, c, d, e, f⟩
          have hne : r' ≠ r - 1 := by intro hr; rw [hr] at d; exact d h0'
          exact ⟨r', by omega, by omega, c, d, fun q q1 q2 => e q q1 (by omega), fun q q1 q2 => f q q1 (by omega)⟩
    · have hd' : env.mapped ((r - 1) * 2 ^ s.logRegion) = false := by simpa using hd
      simp only [hd', Bool.not_false, if_true]
      constructor
      · intro h; cases h
      · rintro ⟨r', a, b, c, d, e, f⟩
        have := f (r - 1) (by omega) (by omega)
        rw [hd'] at this; cases this

end Mmtk.SideMeta
