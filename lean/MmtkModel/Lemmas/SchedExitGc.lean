import MmtkModel.Lemmas.Sched
import MmtkModel.Lemmas.SchedLive
/-!
# An exit request (`Shutdown` / `StopForFork`) that arrives while a GC is pending or in progress (C16, C14)

`WorkerMonitor::make_request` only sets the request flag and calls `notify_one`; a worker woken by it while
`current == Some(Gc)` finds no packet and parks again.  The request is served by the `respond_to_requests`
call at the end of `on_last_parked` of the park that *completes* the GC.  The lemmas here show that the
request flag is untouched by everything `on_last_parked` does before that call (`schedule_sentinels`,
`update_buckets`, `on_gc_finished`, `on_current_goal_completed`), and what `respond` then does with it.
-/
namespace Mmtk.Sched

/-- `on_gc_finished` does not touch the goals -/
theorem onGcFinished_reqs {c : Cfg} {s s' : State} (h : onGcFinished c s = some s') :
    s'.reqGc = s.reqGc ∧ s'.reqShutdown = s.reqShutdown ∧ s'.reqFork = s.reqFork ∧ s'.current = s.current := by
  unfold onGcFinished at h
  split at h
  · cases h
  · split at h
    · cases h
    · split at h
      · cases h
      · rename_i s1 hc
        injection h with h; subst h
        have hh := ((sbb_emit s .gcFinishedBegin).trans (sbb_closeLoop c _ _ _ hc)).trans (sbb_schedConcurrent c s1)
        exact ⟨hh.reqs.1, hh.reqs.2.1, hh.reqs.2.2, hh.current⟩

/-- `respond_to_requests` with no Gc request: an exit request becomes the current goal and everybody is woken -/
theorem respond_exit {c : Cfg} {t s' : State} {tag : Nat} {r : LPR} (h : respond c t tag = some (s', r))
    (hgc : t.reqGc = false) (hreq : t.reqShutdown = true ∨ t.reqFork = true) :
    r = .wakeAll ∧ ∃ g, s'.current = some g ∧ g.isExit = true := by
  unfold respond at h
  split at h
  · cases h
  · simp only [hgc, Bool.false_eq_true, if_false] at h
    split at h
    · injection h with h; injection h with h1 h2; subst h1; subst h2
      exact ⟨rfl, .shutdown, rfl, rfl⟩
    · rename_i hns
      have hf : t.reqFork = true := by
        rcases hreq with h' | h'
        · exact absurd h' hns
        · exact h'
      simp only [hf, if_true] at h
      injection h with h; injection h with h1 h2; subst h1; subst h2
      exact ⟨rfl, .stopForFork, rfl, rfl⟩

/-- **the completing `on_last_parked`**: when `on_last_parked` runs with the Gc goal current and completes the GC
(`gcDone` changes), no Gc request was pending (the assertion of `on_last_parked`), and a pending exit request is
either started as the new current goal (`respond`: `WakeAll`) or — concurrent work was scheduled — still
pending, with no goal current, and every worker is woken (`WakeAll`). -/
theorem onLastParked_completing {c : Cfg} {s s' : State} {tag : Nat} {r : LPR}
    (h : onLastParked c s tag = some (s', r)) (hc : s.current = some .gc) (hd : s'.gcDone ≠ s.gcDone) :
    s.reqGc = false ∧
    ((s.reqShutdown = true ∨ s.reqFork = true) →
      r = .wakeAll ∧
      ((∃ g, s'.current = some g ∧ g.isExit = true) ∨
       (s'.current = none ∧ s'.reqGc = false ∧ s'.reqShutdown = s.reqShutdown ∧ s'.reqFork = s.reqFork))) := by
  unfold onLastParked at h
  split at h
  · rename_i hn; rw [hn] at hc; cases hc
  · split at h
    · cases h
    · rename_i hnogc
      have hgc : s.reqGc = false := by simpa using hnogc
      refine ⟨hgc, fun hreq => ?_⟩
      split at h
      · cases h
      · split at h
        · injection h with h; injection h with h1' _; subst h1'; exact absurd rfl hd
        · split at h
          · injection h with h; injection h with h1' _; subst h1'
            exact absurd (sbb_schedSentinels c s).counters.2.2.1 hd
          · split at h
            · injection h with h; injection h with h1' _; subst h1'
              exact absurd (((sbb_updateBuckets c _).counters.2.2.1).trans (sbb_schedSentinels c s).counters.2.2.1) hd
            · split at h
              · cases h
              · rename_i s3 hg3
                have hb := (sbb_schedSentinels c s).trans (sbb_updateBuckets c (schedSentinels c s).1)
                obtain ⟨q1, q2, q3, _⟩ := onGcFinished_reqs hg3
                have r1 : s3.reqGc = false := by rw [q1, hb.reqs.1]; exact hgc
                have r2 : s3.reqShutdown = s.reqShutdown := by rw [q2, hb.reqs.2.1]
                have r3 : s3.reqFork = s.reqFork := by rw [q3, hb.reqs.2.2]
                split at h
                · injection h with h; injection h with h1' h2'; subst h1'; subst h2'
                  exact ⟨rfl, Or.inr ⟨rfl, r1, r2, r3⟩⟩
                · have := respond_exit (t := completeGc s3) h r1 (by
                    rcases hreq with h' | h'
                    · exact Or.inl (by show s3.reqShutdown = true; rw [r2]; exact h')
                    · exact Or.inr (by show s3.reqFork = true; rw [r3]; exact h'))
                  exact ⟨this.1, Or.inl this.2⟩
  · rename_i g hne hs; rw [hs] at hc; cases hc; exact absurd rfl hne

/-- `on_last_parked` while the Gc goal stays current (the GC is not completed by this park), and the `respond`
that starts a GC, leave the exit requests alone -/
theorem onLastParked_keeps_exit_reqs {c : Cfg} {s s' : State} {tag : Nat} {r : LPR}
    (h : onLastParked c s tag = some (s', r)) (hg : s.reqGc = true ∨ s.current = some .gc)
    (hx : NoExit s) (hd : s'.gcDone = s.gcDone) :
    s'.current = some .gc ∧ s'.reqShutdown = s.reqShutdown ∧ s'.reqFork = s.reqFork := by
  unfold onLastParked at h
  split at h
  · rename_i hn
    have hreq : s.reqGc = true := by
      rcases hg with h' | h'
      · exact h'
      · rw [hn] at h'; cases h'
    unfold respond at h
    simp only [hn, hreq, Option.isSome_none, Bool.false_eq_true, if_false, if_true] at h
    injection h with h; injection h with h1 _; subst h1
    exact ⟨rfl, rfl, rfl⟩
  · rename_i hcur
    split at h
    · cases h
    · split at h
      · cases h
      · split at h
        · injection h with h; injection h with h1' _; subst h1'; exact ⟨hcur, rfl, rfl⟩
        · split at h
          · injection h with h; injection h with h1' _; subst h1'
            have hb := sbb_schedSentinels c s
            exact ⟨by rw [hb.current]; exact hcur, hb.reqs.2.1, hb.reqs.2.2⟩
          · split at h
            · injection h with h; injection h with h1' _; subst h1'
              have hb := (sbb_schedSentinels c s).trans (sbb_updateBuckets c (schedSentinels c s).1)
              exact ⟨by rw [hb.current]; exact hcur, hb.reqs.2.1, hb.reqs.2.2⟩
            · split at h
              · cases h
              · rename_i s3 hg3
                exfalso
                have g3 : s3.gcDone = s.gcDone :=
                  (onGcFinished_gcDone c _ _ hg3).trans
                    (((sbb_updateBuckets c _).counters.2.2.1).trans (sbb_schedSentinels c s).counters.2.2.1)
                split at h
                · injection h with h; injection h with h1' _; subst h1'
                  have : s3.gcDone + 1 = s.gcDone := hd
                  omega
                · have := respond_gcDone c _ _ _ _ h
                  have h4 : (completeGc s3).gcDone = s3.gcDone + 1 := rfl
                  omega
  · rename_i g hne hs
    have := hx g hs
    cases g
    · exact absurd rfl hne
    · cases this
    · cases this

end Mmtk.Sched
