import MmtkModel.Lemmas.Sched
import MmtkModel.Lemmas.SchedLive
/-!
# An exit request (`Shutdown` / `StopForFork`) that arrives while a GC is pending or in progress (C16, C14)

`WorkerMonitor::make_request` only sets the request flag and calls `notify_one`; a worker woken by it while
`current == Some(Gc)` finds no packet and parks again.  The request is served by the `respond_to_requests`
call at the end of `on_last_parked` of the park that *completes* the GC.  The lemmas here show that the
request flag is untouched by everything `on_last_parked` does before that call (`schedule_sentinels`,
`update_buckets`, `on_gc_finished`, `on_current_goal_completed`), and what `respond` then does with it.
-/
namespace Mmtk.Sched

/-- `on_gc_finished` does not touch the goals -/
theorem onGcFinished_reqs {c : Cfg} {s s' : State} (h : onGcFinished c s = some s') :
    s'.reqGc = s.reqGc ∧ s'.reqShutdown = s.reqShutdown ∧ s'.reqFork = s.reqFork ∧ s'.current = s.current := by
  unfold onGcFinished at h
  split at h
  · cases h
  · split at h
    · cases h
    · split at h
      · cases h
      · rename_i s1 hc
        injection h with h; subst h
        have hh := ((sbb_emit s .gcFinishedBegin).trans (sbb_closeLoop c _ _ _ hc)).trans (sbb_schedConcurrent c s1)
        exact ⟨hh.reqs.1, hh.reqs.2.1, hh.reqs.2.2, hh.current⟩

/-- `respond_to_requests` with no Gc request: an exit request becomes the current goal and everybody is woken -/
theorem respond_exit {c : Cfg} {t s' : State} {tag : Nat} {r : LPR} (h : respond c t tag = some (s', r))
    (hgc : t.reqGc = false) (hreq : t.reqShutdown = true ∨ t.reqFork = true) :
    r = .wakeAll ∧ ∃ g, s'.current = some g ∧ g.isExit = true := by
  unfold respond at h
  split at h
  · cases h
  · simp only [hgc, Bool.false_eq_true, if_false] at h
    split at h
    · injection h with h; injection h with h1 h2; subst h1; subst h2
      exact ⟨rfl, .shutdown, rfl, rfl⟩
    · rename_i hns
      have hf : t.reqFork = true := by
        rcases hreq with h' | h'
        · exact absurd h' hns
        · exact h'
      simp only [hf, if_true] at h
      injection h with h; injection h with h1 h2; subst h1; subst h2
      exact ⟨rfl, .stopForFork, rfl, rfl⟩

/-- **the completing `on_last_parked`**: when `on_last_parked` runs with the Gc goal current and completes the GC
(`gcDone` changes), no Gc request was pending (the assertion of `on_last_parked`), and a pending exit request is
either started as the new current goal (`respond`: `WakeAll`) or — concurrent work was scheduled — still
pending, with no goal current, and every worker is woken (`WakeAll`). -/
theorem onLastParked_completing {c : Cfg} {s s' : State} {tag : Nat} {r : LPR}
    (h : onLastParked c s tag = some (s', r)) (hc : s.current = some .gc) (hd : s'.gcDone ≠ s.gcDone) :
    s.reqGc = false ∧
    ((s.reqShutdown = true ∨ s.reqFork = true) →
      r = .wakeAll ∧
      ((∃ g, s'.current = some g ∧ g.isExit = true) ∨
       (s'.current = none ∧ s'.reqGc = false ∧ s'.reqShutdown = s.reqShutdown ∧ s'.reqFork = s.reqFork))) := by
  unfold onLastParked at h
  split at h
  · rename_i hn; rw [hn] at hc; cases hc
  · split at h
    · cases h
    · rename_i hnogc
      have hgc : s.reqGc = false := by simpa using hnogc
      refine ⟨hgc, fun hreq => ?_⟩
      split at h
      · cases h
      · split at h
        · injection h with h; injection h with h1' _; subst h1'; exact absurd rfl hd
        · split at h
          · injection h with h; injection h with h1' _; subst h1'
            exact absurd (sbb_schedSentinels c s).counters.2.2.1 hd
          · split at h
            · injection h with h; injection h with h1' _; subst h1'
              exact absurd (((sbb_updateBuckets c _).counters.2.2.1).trans (sbb_schedSentinels c s).counters.2.2.1) hd
            · split at h
              · cases h
              · rename_i s3 hg3
                have hb := (sbb_schedSentinels c s).trans (sbb_updateBuckets c (schedSentinels c s).1)
                obtain ⟨q1, q2, q3, _⟩ := onGcFinished_reqs hg3
                have r1 : s3.reqGc = false := by rw [q1, hb.reqs.1]; exact hgc
                have r2 : s3.reqShutdown = s.reqShutdown := by rw [q2, hb.reqs.2.1]
                have r3 : s3.reqFork = s.reqFork := by rw [q3, hb.reqs.2.2]
                split at h
                · injection h with h; injection h with h1' h2'; subst h1'; subst h2'
                  exact ⟨rfl, Or.inr ⟨rfl, r1, r2, r3⟩⟩
                · have := respond_exit (t := completeGc s3) h r1 (by
                    rcases hreq with h' | h'
                    · exact Or.inl (by show s3.reqShutdown = true; rw [r2]; exact h')
                    · exact Or.inr (by show s3.reqFork = true; rw [r3]; exact h'))
                  exact ⟨this.1, Or.inl this.2⟩
  · rename_i g hne hs; rw [hs] at hc; cases hc; exact absurd rfl hne

/-- `on_last_parked` while the Gc goal stays current (the GC is not completed by this park), and the `respond`
that starts a GC, leave the exit requests alone -/
theorem onLastParked_keeps_exit_reqs {c : Cfg} {s s' : State} {tag : Nat} {r : LPR}
    (h : onLastParked c s tag = some (s', r)) (hg : s.reqGc = true ∨ s.current = some .gc)
    (hx : NoExit s) (hd : s'.gcDone = s.gcDone) :
    s'.current = some .gc ∧ s'.reqShutdown = s.reqShutdown ∧ s'.reqFork = s.reqFork := by
  unfold onLastParked at h
  split at h
  · rename_i hn
    have hreq : s.reqGc = true := by
      rcases hg with h' | h'
      · exact h'
      · rw [hn] at h'; cases h'
    unfold respond at h
    simp only [hn, hreq, Option.isSome_none, Bool.false_eq_true, if_false, if_true] at h
    injection h with h; injection h with h1 _; subst h1
    exact ⟨rfl, rfl, rfl⟩
  · rename_i hcur
    split at h
    · cases h
    · split at h
      · cases h
      · split at h
        · injection h with h; injection h with h1' _; subst h1'; exact ⟨hcur, rfl, rfl⟩
        · split at h
          · injection h with h; injection h with h1' _; subst h1'
            have hb := sbb_schedSentinels c s
            exact ⟨by rw [hb.current]; exact hcur, hb.reqs.2.1, hb.reqs.2.2⟩
          · split at h
            · injection h with h; injection h with h1' _; subst h1'
              have hb := (sbb_schedSentinels c s).trans (sbb_updateBuckets c (schedSentinels c s).1)
              exact ⟨by rw [hb.current]; exact hcur, hb.reqs.2.1, hb.reqs.2.2⟩
            · split at h
              · cases h
              · rename_i s3 hg3
                exfalso
                have g3 : s3.gcDone = s.gcDone :=
                  (onGcFinished_gcDone c _ _ hg3).trans
                    (((sbb_updateBuckets c _).counters.2.2.1).trans (sbb_schedSentinels c s).counters.2.2.1)
                split at h
                · injection h with h; injection h with h1' _; subst h1'
                  have : s3.gcDone + 1 = s.gcDone := hd
                  omega
                · have := respond_gcDone c _ _ _ _ h
                  have h4 : (completeGc s3).gcDone = s3.gcDone + 1 := rfl
                  omega
  · rename_i g hne hs
    have := hx g hs
    cases g
    · exact absurd rfl hne
    · cases this
    · cases this

theorem afterUnpark_exit {t : State} {g : Goal} (x : Nat) (h : t.current = some g) (hx : g.isExit = true) :
    (afterUnpark t x).pc x = .exited := by
  unfold afterUnpark
  cases g
  · cases hx
  · simp [h, setPc]
  · simp [h, setPc]


/-- a park that changes `gcDone` ran `on_last_parked` with the Gc goal current -/
theorem onLastParked_gcDone_current {c : Cfg} {s s' : State} {tag : Nat} {r : LPR}
    (h : onLastParked c s tag = some (s', r)) (hd : s'.gcDone ≠ s.gcDone) : s.current = some .gc := by
  cases hcur : s.current with
  | none =>
    exfalso; apply hd
    unfold onLastParked at h
    simp only [hcur] at h
    exact respond_gcDone c _ _ _ _ h
  | some g =>
    cases g
    · rfl
    · unfold onLastParked at h; simp only [hcur] at h; cases h
    · unfold onLastParked at h; simp only [hcur] at h; cases h

/-- **exit_request_survives_gc**: the `park` step that completes a GC (`gcDone` changes) while a `Shutdown` /
`StopForFork` request is pending.  That step is the park of the last parker with the Gc goal current and no Gc
request pending; every other worker is woken by it, and either the exit goal is now current and the parker has
left its loop (`respond_to_requests` started the goal: stop-the-world GC / final pause), or — concurrent work was
scheduled — no goal is current, the exit request is still pending and the parker is polling again. -/
theorem exit_request_survives_gc {c : Cfg} {s s' : State} {w tag : Nat} (hr : Reachable c s)
    (hs : step c s (.park w tag) = some s') (hd : s'.gcDone ≠ s.gcDone)
    (hreq : s.reqShutdown = true ∨ s.reqFork = true) :
    s.current = some .gc ∧ s.parked + 1 = c.n ∧ s.reqGc = false ∧ s'.creation = s.creation ∧
    (∀ x, x < c.n → x ≠ w → s'.pc x = .woken) ∧
    (((∃ g, s'.current = some g ∧ g.isExit = true) ∧ s'.pc w = .exited) ∨
     (s'.current = none ∧ s'.reqGc = false ∧ (s'.reqShutdown = true ∨ s'.reqFork = true) ∧ s'.pc w = .polling [])) := by
  obtain ⟨hw, hpcw, _, hcase⟩ := step_park_cases hs
  rcases hcase with ⟨_, e⟩ | ⟨hlast, s1, r, hl, he⟩
  · rw [e] at hd; exact absurd rfl hd
  · have hd1 : s1.gcDone ≠ ({ s with parked := s.parked + 1, trace := [] } : State).gcDone := by
      intro e; apply hd; rw [he]; exact e
    have hc := onLastParked_gcDone_current hl hd1
    obtain ⟨hgc, hrest⟩ := onLastParked_completing hl hc hd1
    obtain ⟨hr1, hcases⟩ := hrest hreq
    subst hr1
    have f := frame_onLastParked c _ _ _ _ hl
    have hs' := step_park_wakeAll hs hlast hl
    have hA := reachable_invA hr
    have hpar := countW_all_but c.n (fun y => (s.pc y).isParked) w hw (by simp [hpcw, PC.isParked])
      (by have := hA.parked_eq; unfold parkedCount at this; omega)
    have hcr : s'.creation = s.creation := by
      rw [he]; show s1.creation = s.creation; rw [f.creation]
    have hothers : ∀ x, x < c.n → x ≠ w → s'.pc x = .woken := by
      intro x hx e
      rw [hs', afterUnpark_pc_other e]
      have hp : (s.pc x).isParked = true := hpar x hx e
      have hpc1 : s1.pc x = s.pc x := by rw [f.pc]
      show (if s1.pc x = .waiting then PC.woken else s1.pc x) = .woken
      rw [hpc1]
      generalize s.pc x = p at hp
      cases p <;> first | rfl | (simp [PC.isParked] at hp) | simp
    refine ⟨hc, hlast, hgc, hcr, hothers, ?_⟩
    rcases hcases with ⟨g, hg1, hg2⟩ | ⟨hn1, hn2, hn3, hn4⟩
    · left
      refine ⟨⟨g, by rw [he]; exact hg1, hg2⟩, ?_⟩
      rw [hs']
      exact afterUnpark_exit (t := { notifyAll s1 with parked := (notifyAll s1).parked - 1 }) w hg1 hg2
    · right
      refine ⟨by rw [he]; exact hn1, by rw [he]; exact hn2, ?_, ?_⟩
      · rcases hreq with h | h
        · left; rw [he]; show s1.reqShutdown = true; rw [hn3]; exact h
        · right; rw [he]; show s1.reqFork = true; rw [hn4]; exact h
      · rw [hs']
        have : NoExit ({ notifyAll s1 with parked := (notifyAll s1).parked - 1 } : State) := by
          intro g hg
          have : s1.current = some g := hg
          rw [hn1] at this; cases this
        rw [afterUnpark_noExit w this, setPc_pc_self]

end Mmtk.Sched
