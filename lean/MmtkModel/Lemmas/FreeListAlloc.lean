import MmtkModel.Lemmas.FreeListSplit
/-!
# `alloc`, `alloc_from_unit`, `set_uncoalescable`, `clear_uncoalescable` refine `Mmtk.Runs` (C26)
-/
namespace Mmtk.FreeList
open Mmtk.Runs

theorem apply_splitAt_alloc (a : AS) (k s n e : Nat) :
    Runs.apply (splitAt a (s + n)) (.alloc k s (s + n - s) (s + n)) = Runs.apply a (.alloc k s n e) := by
  have e1 : s + n - s = n := by omega
  rw [e1]
  simp only [Runs.apply, splitAt]
  congr 1
  funext b
  by_cases hb : b = s + n <;> simp [hb]

/-- **`__alloc`** of the first `n` units of the free run `[s, e)` of head `k`. -/
theorem allocAt_refines {t : Tab} {a : AS} {L : Nat → List Nat} {k s e n : Nat} (debug : Bool)
    (h : Rel t a L) (hr : IsRun a s e) (hown : a.own s = some k) (hn : 1 ≤ n) (hf : s + n ≤ e) :
    ∃ t' L', allocAt debug t (hd k) (n : Int) (s : Int) ((e : Int) - s) = .ok (t', (s : Int)) ∧
      Rel t' (Runs.apply a (.alloc k s n e)) L' ∧ t'.heads = t.heads := by
  have hse := hr.1
  have hk := ((h.run s e hr).mem k hown).1
  unfold allocAt
  have c1 : (e : Int) - s ≥ n := by omega
  simp only [c1, if_true, bind, Except.bind]
  by_cases hlt : s + n < e
  · have c2 : (e : Int) - s > n := by omega
    simp only [c2, if_true, split_ok debug h hr hown hn hlt]
    have h1 := split_rel h hr hown hn hlt
    have hr1 : IsRun (splitAt a (s + n)) s (s + n) :=
      (isRun_splitAt a k s n e s (s + n)).mpr (alloc_run_taken a hr hn hf)
    have hown1 : (splitAt a (s + n)).own s = some k := hown
    have hk1 : (k : Int) < (pSplit t (hd k) s n ((e : Int) - s - n)).heads := by
      have := h1.hpos; have := ((h1.run s (s + n) hr1).mem k hown1).1; exact this
    have hs1 : s ∈ setL L k ((s + n) :: L k) k := by
      rcases ((h1.run s (s + n) hr1).mem k hown1).2 with g | g
      · exact g
      · exact g.elim
    obtain ⟨r1, r2⟩ := remove_step debug h1 hk1 hs1
    rw [r1]
    simp only []
    have r3 := r2.congrX (X' := fun y => y = s) (fun y => by simp)
    obtain ⟨f1, f2⟩ := take_finish r3 hr1 hown1
    rw [f1]
    rw [apply_splitAt_alloc] at f2
    exact ⟨_, _, rfl, f2, by simp⟩
  · have c2 : ¬ (e : Int) - s > n := by omega
    have hen : n = e - s := by omega
    simp only [c2, if_false, pure, Except.pure]
    have hs1 : s ∈ L k := by
      rcases ((h.run s e hr).mem k hown).2 with g | g
      · exact g
      · exact g.elim
    obtain ⟨r1, r2⟩ := remove_step debug h hk hs1
    rw [r1]
    simp only []
    have r3 := r2.congrX (X' := fun y => y = s) (fun y => by simp)
    obtain ⟨f1, f2⟩ := take_finish r3 hr hown
    rw [f1]
    rw [← hen] at f2
    exact ⟨_, _, rfl, f2, by simp⟩

/-- **`set_uncoalescable`.** -/
theorem setUnc_refines_rel {t : Tab} {a : AS} {L : Nat → List Nat} {u : Nat} (h : Rel t a L) (hu : u ≤ a.units) :
    setUncoalescable t (u : Int) = .ok (wUnc t (u : Int) true) ∧
    Rel (wUnc t (u : Int) true) (Runs.apply a (.setUnc u)) L := by
  have hR := h.inR_nat hu
  refine ⟨setUncoalescable_ok hR, ?_⟩
  constructor
  · simpa using h.hpos
  · simpa using h.hle
  · simpa [Runs.apply] using h.size_eq
  · exact h.units_le
  · simpa [Runs.apply] using h.top_free
  · intro j hj; simpa using h.head_free j (by simpa using hj)
  · intro j hj; simpa using h.head_multi j (by simpa using hj)
  · intro w hw
    have := h.unc w hw
    by_cases c : w = u
    · subst c; simp [Runs.apply, hR]
    · have c' : (w : Int) ≠ (u : Int) := by omega
      simp [Runs.apply, c, c', this]
  · intro x y hxy
    have ok := h.run x y hxy
    exact ⟨by simpa using ok.multi, by simpa using ok.sz, by simpa [Runs.apply] using ok.free, ok.own,
      fun j hj => by simpa [Runs.apply] using ok.mem j hj⟩
  · intro j hj
    obtain ⟨q1, q2, q3⟩ := h.list j (by simpa using hj)
    exact ⟨Links_congr _ _ (by simp) (fun _ _ => by simp) (by simp) (fun _ _ => by simp) q1, q2, q3⟩

/-- **`clear_uncoalescable`.** -/
theorem clrUnc_refines_rel {t : Tab} {a : AS} {L : Nat → List Nat} {u : Nat} (h : Rel t a L) (hu : u ≤ a.units) :
    clearUncoalescable t (u : Int) = .ok (wUnc t (u : Int) false) ∧
    Rel (wUnc t (u : Int) false) (Runs.apply a (.clrUnc u)) L := by
  have hR := h.inR_nat hu
  refine ⟨clearUncoalescable_ok hR, ?_⟩
  constructor
  · simpa using h.hpos
  · simpa using h.hle
  · simpa [Runs.apply] using h.size_eq
  · exact h.units_le
  · simpa [Runs.apply] using h.top_free
  · intro j hj; simpa using h.head_free j (by simpa using hj)
  · intro j hj; simpa using h.head_multi j (by simpa using hj)
  · intro w hw
    have := h.unc w hw
    by_cases c : w = u
    · subst c; simp [Runs.apply, hR]
    · have c' : (w : Int) ≠ (u : Int) := by omega
      simp [Runs.apply, c, c', this]
  · intro x y hxy
    have ok := h.run x y hxy
    exact ⟨by simpa using ok.multi, by simpa using ok.sz, by simpa [Runs.apply] using ok.free, ok.own,
      fun j hj => by simpa [Runs.apply] using ok.mem j hj⟩
  · intro j hj
    obtain ⟨q1, q2, q3⟩ := h.list j (by simpa using hj)
    exact ⟨Links_congr _ _ (by simp) (fun _ _ => by simp) (by simp) (fun _ _ => by simp) q1, q2, q3⟩

/-! ## first fit -/

theorem first_split {α : Type} (p : α → Prop) [DecidablePred p] (l : List α) :
    (∀ z ∈ l, ¬ p z) ∨ ∃ l1 y l2, l = l1 ++ y :: l2 ∧ (∀ z ∈ l1, ¬ p z) ∧ p y := by
  induction l with
  | nil => exact Or.inl (fun _ h => by cases h)
  | cons x r ih =>
    by_cases hx : p x
    · exact Or.inr ⟨[], x, r, rfl, fun _ h => (by cases h), hx⟩
    · rcases ih with h | ⟨l1, y, l2, e, h1, h2⟩
      · left; intro z hz
        rcases List.mem_cons.mp hz with rfl | hz
        · exact hx
        · exact h z hz
      · right
        refine ⟨x :: l1, y, l2, by rw [e]; rfl, ?_, h2⟩
        intro z hz
        rcases List.mem_cons.mp hz with rfl | hz
        · exact hx
        · exact h1 z hz

theorem nodup_length_le : ∀ (N : Nat) (l : List Nat), l.Nodup → (∀ x ∈ l, x < N) → l.length ≤ N := by
  intro N
  induction N with
  | zero =>
    intro l _ hb
    cases l with
    | nil => simp
    | cons x r => exact absurd (hb x (List.mem_cons_self ..)) (by omega)
  | succ N ih =>
    intro l hnd hb
    have h1 := ih (l.erase N) (hnd.erase N) (fun x hx => by
      have hx' := (List.Nodup.mem_erase_iff hnd).mp hx
      have := hb x hx'.2
      have := hx'.1
      omega)
    have := List.length_erase (a := N) (l := l)
    split at this <;> omega

/-- **`alloc`** (first fit on the list of head `k`). -/
theorem alloc_refines_rel {t : Tab} {a : AS} {L : Nat → List Nat} {k n : Nat} (debug : Bool)
    (h : Rel t a L) (hk : (k : Int) < t.heads) (hn : 1 ≤ n) :
    (∃ (s e : Nat) (t' : Tab) (L' : Nat → List Nat), alloc debug t (hd k) (n : Int) = .ok (t', (s : Int)) ∧ Pre a (.alloc k s n e) ∧
      Rel t' (Runs.apply a (.alloc k s n e)) L' ∧ t'.heads = t.heads) ∨
    (alloc debug t (hd k) (n : Int) = .ok (t, FAILURE) ∧ ¬ CanAlloc a k n) := by
  obtain ⟨q1, q2, q3⟩ := h.list k hk
  have hneg := hd_neg k
  have hhR := h.inR_hd hk
  have hpos := h.hpos
  -- ranges of the members
  have hRm : ∀ z ∈ L k, InR t (z : Int) ∧ (fMulti t (z : Int) = true → InR t ((z : Int) + 1)) := by
    intro z hz
    obtain ⟨_, _, e, hr⟩ := q3 z hz
    have := h.run_lt hr
    refine ⟨h.inR_nat (by omega), fun hm => ?_⟩
    rw [(h.run z e hr).multi] at hm
    have : z + 1 < e := by simpa using hm
    exact h.inR (by omega) (by omega)
  have hlen : (L k).length < t.cells.size + 2 := by
    have h1 := nodup_length_le a.units (L k) q2 (fun x hx => by
      obtain ⟨_, _, e, hr⟩ := q3 x hx
      exact (h.run_lt hr).1)
    have := h.size_eq
    omega
  unfold alloc
  rcases first_split (fun z : Nat => (n : Int) ≤ sizeOf t (z : Int)) (L k) with hall | ⟨l1, y, l2, e1, hsm, hy⟩
  · right
    obtain ⟨s', hs'⟩ := allocLoop_miss hneg (n : Int) (L k) (t.cells.size + 2) (hd k) 0 q1 hlen hhR hRm
      (fun z hz => by have := hall z hz; omega)
    rw [hs']
    refine ⟨by simp only [bind, Except.bind, beq_self_eq_true, if_true, pure, Except.pure], ?_⟩
    rintro ⟨s, e, hr, hown, hfit⟩
    have hs : s ∈ L k := by
      rcases ((h.run s e hr).mem k hown).2 with g | g
      · exact g
      · exact g.elim
    have := hall s hs
    rw [h.sizeOf_run hr] at this
    omega
  · left
    rw [e1] at q1 hlen hRm
    have hyk : y ∈ L k := by rw [e1]; exact List.mem_append_right _ (List.mem_cons_self ..)
    obtain ⟨hown, _, e, hr⟩ := q3 y hyk
    have hsz := h.sizeOf_run hr
    have hloop := allocLoop_hit hneg (n : Int) y l2 l1 (t.cells.size + 2) (hd k) 0 q1
      (by simp at hlen; omega) hhR hRm (fun z hz => by have := hsm z hz; omega) hy
    rw [hloop]
    have hne : ((y : Int) == hd k) = false := by simp; omega
    simp only [bind, Except.bind, hne, Bool.false_eq_true, if_false]
    have hfit : y + n ≤ e := by
      have : (n : Int) ≤ sizeOf t (y : Int) := hy
      rw [hsz] at this; omega
    obtain ⟨t', L', r1, r2, r3⟩ := allocAt_refines debug h hr hown hn hfit
    rw [hsz]
    exact ⟨y, e, t', L', r1, ⟨hr, hown, hn, hfit⟩, r2, r3⟩

/-- **`alloc_from_unit`** on a run start: succeeds iff the run is free (on the caller's head) and fits. -/
theorem allocFromUnit_refines_rel {t : Tab} {a : AS} {L : Nat → List Nat} {k s e n : Nat} (debug : Bool)
    (h : Rel t a L) (hr : IsRun a s e) (hn : 1 ≤ n) :
    (a.own s = some k → s + n ≤ e → ∃ t' L', allocFromUnit debug t (hd k) (n : Int) (s : Int) = .ok (t', (s : Int)) ∧
      Rel t' (Runs.apply a (.alloc k s n e)) L' ∧ t'.heads = t.heads) ∧
    ((a.own s = none ∨ e < s + n) → allocFromUnit debug t (hd k) (n : Int) (s : Int) = .ok (t, FAILURE)) := by
  have hlt := h.run_lt hr
  have ok := h.run s e hr
  have hsR : InR t (s : Int) := h.inR_nat (by omega)
  have hpos := h.hpos
  have hs1 : fMulti t (s : Int) = true → InR t ((s : Int) + 1) := by
    intro hm; rw [ok.multi] at hm
    have : s + 1 < e := by simpa using hm
    exact h.inR (by omega) (by omega)
  have hsz := h.sizeOf_run hr
  unfold allocFromUnit
  simp only [bind, Except.bind, getFree_ok hsR, ok.free]
  constructor
  · intro hown hfit
    have c : (e : Int) - s ≥ n := by omega
    simp only [hown, Option.isSome_some, if_true, getSize_ok hsR hs1, hsz, c]
    exact allocAt_refines debug h hr hown hn hfit
  · rintro (hnone | hbig)
    · simp [hnone, pure, Except.pure]
    · have c : ¬ (e : Int) - s ≥ n := by omega
      cases ho : a.own s with
      | none => simp [pure, Except.pure]
      | some j => simp only [Option.isSome_some, if_true, getSize_ok hsR hs1, hsz, c, if_false, pure, Except.pure]

end Mmtk.FreeList
