import MmtkModel.Lemmas.TraceInv
/-!
# The tracing closure: the invariant is preserved by every step of every schedule; the measure
-/
namespace Mmtk.Trace

theorem readSlot_forward (moves : Id → Bool) (st : State) (r : Id) (o : Obj) (sl : Slot)
    (h : ∀ j, sl ≠ .field st.fresh j) : readSlot (forward moves st r o) sl = readSlot st sl := by
  cases sl with
  | root k => rfl
  | field n j =>
    have hn : n ≠ st.fresh := fun e => h j (by rw [e])
    simp [readSlot, forward, hn]

theorem readSlot_forward_new (moves : Id → Bool) (st : State) (r : Id) (o : Obj) (j : Nat) :
    readSlot (forward moves st r o) (.field st.fresh j) = ((o.fields.map ofRef)[j]?).getD .null := by
  simp [readSlot, forward]

/-- first visit of `r`: name it, copy it, queue its fields (the visiting slot is still pending) -/
theorem inv_forward {S : Snap} {moves : Id → Bool} {st : State} {r : Id} {o : Obj}
    (inv : Inv S moves st) (hf : st.fwd r = none) (ho : S.heap r = some o) (hreach : Reach S r) :
    Inv S moves (forward moves st r o) := by
  have fwd_mono : ∀ a m, st.fwd a = some m → (forward moves st r o).fwd a = some m := by
    intro a m h
    have : a ≠ r := by intro e; subst e; rw [hf] at h; cases h
    simp [forward, this, h]
  refine ⟨?_, ?_, ?_, ?_, inv.rootsLen, ?_, ?_⟩
  · intro a m h
    by_cases ha : a = r
    · subst ha
      have hm : m = st.fresh := by simpa [forward] using h.symm
      subst hm
      exact ⟨o, ho, by simp [forward, hdr]⟩
    · have h' : st.fwd a = some m := by simpa [forward, ha] using h
      have hlt := inv.lt a m h'
      have hne : m ≠ st.fresh := Nat.ne_of_lt hlt
      simpa [forward, hne] using inv.hdr a m h'
  · intro a b m h1 h2
    by_cases ha : a = r <;> by_cases hb : b = r
    · rw [ha, hb]
    · subst ha
      have hm : m = st.fresh := by simpa [forward] using h1.symm
      have h2' : st.fwd b = some m := by simpa [forward, hb] using h2
      exact absurd hm (Nat.ne_of_lt (inv.lt b m h2'))
    · subst hb
      have hm : m = st.fresh := by simpa [forward] using h2.symm
      have h1' : st.fwd a = some m := by simpa [forward, ha] using h1
      exact absurd hm (Nat.ne_of_lt (inv.lt a m h1'))
    · exact inv.inj a b m (by simpa [forward, ha] using h1) (by simpa [forward, hb] using h2)
  · intro a m h
    by_cases ha : a = r
    · subst ha
      have hm : m = st.fresh := by simpa [forward] using h.symm
      simp [forward, hm]
    · have := inv.lt a m (by simpa [forward, ha] using h)
      simp only [forward]; exact Nat.lt_succ_of_lt this
  · intro m h
    by_cases hm : m = st.fresh
    · exact ⟨r, by simp [forward, hm]⟩
    · obtain ⟨a, ha⟩ := inv.onto m (by simpa [forward, hm] using h)
      exact ⟨a, fwd_mono a m ha⟩
  · intro sl x hc
    -- old covered slots keep their relation; the new object's fields are fresh `old` references, pending
    have old_ok : Covered S st sl x → (∀ j, sl ≠ .field st.fresh j) → SlotRel (forward moves st r o) x sl := by
      intro hc' hne
      have h := inv.slots sl x hc'
      cases x with
      | none => simpa [SlotRel, readSlot_forward moves st r o sl hne] using h
      | some y =>
        simp only [SlotRel, readSlot_forward moves st r o sl hne] at h ⊢
        rcases h with ⟨e, hm⟩ | ⟨m, e, hfm⟩
        · left; exact ⟨e, by simp [forward, hm]⟩
        · right; exact ⟨m, e, fwd_mono y m hfm⟩
    cases sl with
    | root k => exact old_ok hc (by intro j; simp)
    | field n j =>
      obtain ⟨a, oa, hfa, hoa, hj⟩ := hc
      by_cases ha : a = r
      · subst ha
        have hn : n = st.fresh := by simpa [forward] using hfa.symm
        subst hn
        rw [ho] at hoa; injection hoa with hoa; subst hoa
        have hjl : j < o.fields.length := (List.getElem?_eq_some_iff.mp hj).1
        cases x with
        | none =>
          simp only [SlotRel, readSlot_forward_new]
          simp [List.getElem?_map, hj, ofRef]
        | some y =>
          left
          refine ⟨by rw [readSlot_forward_new]; simp [List.getElem?_map, hj, ofRef], ?_⟩
          simp only [forward, fieldSlots, List.mem_append, List.mem_map, List.mem_range]
          right; exact ⟨j, hjl, rfl⟩
      · have hfa' : st.fwd a = some n := by simpa [forward, ha] using hfa
        have hlt := inv.lt a n hfa'
        refine old_ok ⟨a, oa, hfa', hoa, hj⟩ ?_
        intro j' e; injection e with e1 _; exact Nat.ne_of_lt hlt e1
  · intro a m h
    by_cases ha : a = r
    · subst ha; exact hreach
    · exact inv.reach a m (by simpa [forward, ha] using h)

theorem forward_erase (moves : Id → Bool) (st : State) (r : Id) (o : Obj) (i : Nat)
    (hi : i < st.pending.length) :
    forward moves { st with pending := st.pending.eraseIdx i } r o
      = { forward moves st r o with pending := (forward moves st r o).pending.eraseIdx i } := by
  simp [forward, List.eraseIdx_append_of_lt_length hi]

/-- **Every step of every schedule preserves the invariant.** -/
theorem step_inv {S : Snap} {moves : Id → Bool} (wf : WF S) {st : State} (i : Nat)
    (inv : Inv S moves st) : Inv S moves (processSlot S moves st i) := by
  unfold processSlot
  cases hp : st.pending[i]? with
  | none => exact inv
  | some sl =>
    simp only
    cases hr : readSlot st sl with
    | null => exact inv_drop inv hp (by intro r; rw [hr]; simp)
    | new n => exact inv_drop inv hp (by intro r; rw [hr]; simp)
    | old r =>
      simp only
      cases hf : st.fwd r with
      | some n => exact inv_update inv hp hr hf
      | none =>
        obtain ⟨x, hc⟩ := covered_of_read inv (sl := sl) (by rw [hr]; simp)
        obtain ⟨hx, _⟩ := rel_old (inv.slots sl x hc) hr
        subst hx
        have hreach : Reach S r := reach_of_covered inv hc
        have halloc := hreach.alloc wf
        cases ho : S.heap r with
        | none => simp [ho] at halloc
        | some o =>
          simp only
          have hi : i < st.pending.length := (List.getElem?_eq_some_iff.mp hp).1
          rw [forward_erase moves st r o i hi]
          have inv2 := inv_forward (moves := moves) inv hf ho hreach
          have hp2 : (forward moves st r o).pending[i]? = some sl := by
            simp only [forward]
            rw [List.getElem?_append_left hi]; exact hp
          have hne : ∀ j, sl ≠ .field st.fresh j := by
            intro j e
            subst e
            simp only [readSlot] at hr
            cases ht : st.tobjs st.fresh with
            | none => simp [ht] at hr
            | some t =>
              obtain ⟨a, ha⟩ := inv.onto st.fresh (by simp [ht])
              exact Nat.lt_irrefl _ (inv.lt a _ ha)
          have hr2 : readSlot (forward moves st r o) sl = .old r := by
            rw [readSlot_forward moves st r o sl hne]; exact hr
          have hf2 : (forward moves st r o).fwd r = some st.fresh := by simp [forward]
          exact inv_update inv2 hp2 hr2 hf2

theorem exec_inv {S : Snap} {moves : Id → Bool} (wf : WF S) (run : List Nat) {st : State}
    (inv : Inv S moves st) : Inv S moves (exec S moves st run) := by
  induction run generalizing st with
  | nil => exact inv
  | cons i rest ih => exact ih (step_inv wf i inv)

/-! ## The measure -/

theorem sumTo_congr {f g : Nat → Nat} {n : Nat} (h : ∀ i, i < n → f i = g i) : sumTo f n = sumTo g n := by
  induction n with
  | zero => rfl
  | succ n ih =>
    simp only [sumTo]
    rw [ih (fun i hi => h i (by omega)), h n (by omega)]

/-- lowering one summand by `c` lowers the sum by `c` -/
theorem sumTo_update {f g : Nat → Nat} {n r c : Nat} (hr : r < n) (hfr : f r = g r + c)
    (h : ∀ i, i ≠ r → f i = g i) : sumTo f n = sumTo g n + c := by
  induction n with
  | zero => omega
  | succ n ih =>
    simp only [sumTo]
    by_cases e : r = n
    · subst e
      rw [sumTo_congr (fun i hi => h i (by omega)), hfr]; omega
    · rw [ih (by omega), h n (fun e' => e e'.symm)]; omega

@[simp] theorem owed_pending (S : Snap) (st : State) (p : List Slot) :
    owed S { st with pending := p } = owed S st := rfl

theorem owed_writeSlot (S : Snap) (st : State) (sl : Slot) (v : Val) :
    owed S (writeSlot st sl v) = owed S st := by
  funext i; simp [owed]

/-- **A non-stuttering step strictly decreases the measure** (no well-formedness needed, only that
all allocated ids are below `B`). -/
theorem step_decreases (S : Snap) (moves : Id → Bool) (B : Nat)
    (hB : ∀ i, (S.heap i).isSome = true → i < B) (st : State) (i : Nat) (hi : i < st.pending.length) :
    measure S B (processSlot S moves st i) < measure S B st := by
  have hlen : (st.pending.eraseIdx i).length + 1 = st.pending.length := by
    rw [List.length_eraseIdx_of_lt hi]; omega
  unfold processSlot
  rw [List.getElem?_eq_getElem hi]
  simp only
  cases hr : readSlot st st.pending[i] with
  | null => simp only [measure, owed_pending]; omega
  | new n => simp only [measure, owed_pending]; omega
  | old r =>
    simp only
    cases hf : st.fwd r with
    | some n => simp only [measure, owed_writeSlot, writeSlot_pending, owed_pending]; omega
    | none =>
      cases ho : S.heap r with
      | none => simp only [measure, owed_pending]; omega
      | some o =>
        simp only [measure, owed_writeSlot, writeSlot_pending]
        have hrB : r < B := hB r (by simp [ho])
        have hsum : sumTo (owed S st) B
            = sumTo (owed S (forward moves { st with pending := st.pending.eraseIdx i } r o)) B
              + (o.fields.length + 1) := by
          apply sumTo_update hrB
          · simp [owed, forward, hf, ho]
          · intro a ha; simp [owed, forward, ha]
        simp only [forward, fieldSlots, List.length_append, List.length_map, List.length_range] at hsum ⊢
        omega

theorem step_stutter (S : Snap) (moves : Id → Bool) (st : State) (i : Nat)
    (hi : st.pending.length ≤ i) : processSlot S moves st i = st := by
  unfold processSlot; rw [List.getElem?_eq_none hi]

/-- effective steps + remaining measure never exceed the starting measure -/
theorem effSteps_le (S : Snap) (moves : Id → Bool) (B : Nat)
    (hB : ∀ i, (S.heap i).isSome = true → i < B) (run : List Nat) (st : State) :
    effSteps S moves st run + measure S B (exec S moves st run) ≤ measure S B st := by
  induction run generalizing st with
  | nil => simp [effSteps, exec]
  | cons i rest ih =>
    simp only [effSteps, exec, List.foldl_cons]
    have := ih (processSlot S moves st i)
    simp only [exec] at this
    by_cases hi : i < st.pending.length
    · have := step_decreases S moves B hB st i hi
      simp only [hi, if_true]; omega
    · rw [step_stutter S moves st i (by omega)] at this ⊢
      simp only [hi, if_false]; omega

theorem exec_nil_pending (S : Snap) (moves : Id → Bool) (run : List Nat) (st : State)
    (h : st.pending = []) : exec S moves st run = st := by
  induction run with
  | nil => rfl
  | cons i rest ih =>
    simp only [exec, List.foldl_cons]
    rw [step_stutter S moves st i (by simp [h])]
    exact ih

/-- always taking the first pending slot drains the work list within `measure` steps -/
theorem drain (S : Snap) (moves : Id → Bool) (B : Nat)
    (hB : ∀ i, (S.heap i).isSome = true → i < B) (n : Nat) (st : State) (h : measure S B st ≤ n) :
    (exec S moves st (List.replicate n 0)).pending = [] := by
  induction n generalizing st with
  | zero =>
    simp only [measure] at h
    simp only [List.replicate, exec, List.foldl_nil]
    exact List.eq_nil_of_length_eq_zero (by omega)
  | succ n ih =>
    by_cases hp : 0 < st.pending.length
    · simp only [List.replicate, exec, List.foldl_cons]
      have := step_decreases S moves B hB st 0 hp
      exact ih _ (by omega)
    · have hnil : st.pending = [] := List.eq_nil_of_length_eq_zero (by omega)
      rw [exec_nil_pending S moves _ st hnil]; exact hnil

end Mmtk.Trace
