import MmtkModel.Lemmas.Sched
/-!
# Packet conservation for the scheduler model (counting form; used by Props/C15)

`added = queued + started` and `started = running + ended` in every reachable state, where `queued`
counts every bucket queue, sentinel slot, local deque and designated queue.
-/
namespace Mmtk.Sched

/-! ## packet conservation (C15 exactly-once, counting form) -/

def sumW (n : Nat) (f : Nat → Nat) : Nat := ((List.range n).map f).sum

theorem sumW_succ (n : Nat) (f : Nat → Nat) : sumW (n+1) f = sumW n f + f n := by
  unfold sumW; rw [List.range_succ, List.map_append, List.sum_append]; simp

theorem sumW_congr (n : Nat) (f g : Nat → Nat) (h : ∀ x, x < n → f x = g x) : sumW n f = sumW n g := by
  induction n with
  | zero => rfl
  | succ n ih => rw [sumW_succ, sumW_succ, ih (fun x hx => h x (Nat.lt_succ_of_lt hx)), h n (Nat.lt_succ_self n)]

theorem sumW_update (n : Nat) (f : Nat → Nat) (w v : Nat) (hw : w < n) :
    sumW n (fun x => if x = w then v else f x) + f w = sumW n f + v := by
  induction n with
  | zero => omega
  | succ n ih =>
    rw [sumW_succ, sumW_succ]
    by_cases hwn : w = n
    · subst hwn
      have : sumW w (fun x => if x = w then v else f x) = sumW w f :=
        sumW_congr w _ _ (fun x hx => by simp [Nat.ne_of_lt hx])
      rw [this]; simp; omega
    · have := ih (by omega)
      have hn : (n = w) = False := by simp; omega
      simp only [hn, if_false]
      omega

def bktCount (k : Bucket) : Nat := k.q.length + (if k.sentinel.isSome then 1 else 0)

def qBkt (c : Cfg) (s : State) : Nat := sumW c.L (fun b => bktCount (s.bkt b))
def qBuf (c : Cfg) (s : State) : Nat := sumW c.n (fun w => (s.buf w).length)
def qDes (c : Cfg) (s : State) : Nat := sumW c.n (fun w => (s.desig w).length)
def queued (c : Cfg) (s : State) : Nat := qBkt c s + qBuf c s + qDes c s
def running (c : Cfg) (s : State) : Nat := countW c.n (fun x => (s.pc x).isExec)

theorem qBkt_setBkt (c : Cfg) (s : State) (b0 : Nat) (k : Bucket) (hb : b0 < c.L) :
    qBkt c (setBkt s b0 k) + bktCount (s.bkt b0) = qBkt c s + bktCount k := by
  unfold qBkt
  rw [← sumW_update c.L (fun b => bktCount (s.bkt b)) b0 (bktCount k) hb]
  congr 1
  apply sumW_congr; intro x _
  simp only [setBkt]; split <;> rfl

theorem qBuf_setBuf (c : Cfg) (s : State) (w : Nat) (l : List Pkt) (hw : w < c.n) :
    qBuf c (setBuf s w l) + (s.buf w).length = qBuf c s + l.length := by
  unfold qBuf
  rw [← sumW_update c.n (fun x => (s.buf x).length) w l.length hw]
  congr 1
  apply sumW_congr; intro x _
  simp only [setBuf]; split <;> rfl

theorem qDes_setDesig (c : Cfg) (s : State) (w : Nat) (l : List Pkt) (hw : w < c.n) :
    qDes c (setDesig s w l) + (s.desig w).length = qDes c s + l.length := by
  unfold qDes
  rw [← sumW_update c.n (fun x => (s.desig x).length) w l.length hw]
  congr 1
  apply sumW_congr; intro x _
  simp only [setDesig]; split <;> rfl

theorem running_setPc (c : Cfg) (s : State) (w : Nat) (p : PC) (hw : w < c.n) :
    running c (setPc s w p) + (if (s.pc w).isExec then 1 else 0) = running c s + (if p.isExec then 1 else 0) := by
  unfold running
  rw [← countW_update c.n (fun x => (s.pc x).isExec) w p.isExec hw]
  congr 1
  apply countW_congr; intro x _
  simp only [setPc]; split <;> rfl

theorem qBkt_of_bkt (c : Cfg) {s s' : State} (h : ∀ b, bktCount (s'.bkt b) = bktCount (s.bkt b)) : qBkt c s' = qBkt c s :=
  sumW_congr _ _ _ (fun b _ => h b)
theorem qBuf_of_buf (c : Cfg) {s s' : State} (h : s'.buf = s.buf) : qBuf c s' = qBuf c s := by unfold qBuf; rw [h]
theorem qDes_of_desig (c : Cfg) {s s' : State} (h : s'.desig = s.desig) : qDes c s' = qDes c s := by unfold qDes; rw [h]
theorem running_of_pc (c : Cfg) {s s' : State} (h : ∀ x, (s'.pc x).isExec = (s.pc x).isExec) : running c s' = running c s :=
  countW_congr _ _ _ (fun x _ => h x)

theorem erase_len {l : List Pkt} {p : Pkt} (h : p ∈ l) : (l.erase p).length + 1 = l.length := by
  rw [List.length_erase_of_mem h]
  have : 0 < l.length := List.length_pos_of_mem h
  omega

/-- the two conservation equations -/
structure InvK (c : Cfg) (s : State) : Prop where
  added_eq : s.added = queued c s + s.started
  started_eq : s.started = running c s + s.ended


theorem takeSentinel_count (s : State) (b k : Nat) : bktCount ((takeSentinel s b).bkt k) = bktCount (s.bkt k) := by
  unfold takeSentinel
  cases hs : (s.bkt b).sentinel with
  | none => rfl
  | some p =>
    simp only [emit, setBkt]
    split
    · rename_i e; subst e
      simp [bktCount, hs]
    · rfl

theorem openBkt_count (s : State) (b k : Nat) : bktCount ((openBkt s b).bkt k) = bktCount (s.bkt k) := by
  simp only [openBkt, emit, setBkt]; split
  · rename_i e; subst e; rfl
  · rfl

theorem closeBkt_count (s : State) (b k : Nat) : bktCount ((closeBkt s b).bkt k) = bktCount (s.bkt k) := by
  simp only [closeBkt, emit, setBkt]; split
  · rename_i e; subst e; rfl
  · rfl

theorem schedLoop_count (bs : List Nat) : ∀ (s : State) (acc : Bool) (k : Nat),
    bktCount ((schedSentinelsLoop s bs acc).1.bkt k) = bktCount (s.bkt k) := by
  induction bs with
  | nil => intro s acc k; rfl
  | cons b bs ih =>
    intro s acc k
    unfold schedSentinelsLoop
    split
    · rw [ih, takeSentinel_count]
    · exact ih _ _ _

theorem updateLoop_count (c : Cfg) (bs : List Nat) : ∀ (s : State) (u : Bool) (k : Nat),
    bktCount ((updateLoop c s bs u).1.bkt k) = bktCount (s.bkt k) := by
  induction bs with
  | nil => intro s u k; rfl
  | cons b bs ih =>
    intro s u k
    unfold updateLoop
    split
    · exact ih _ _ _
    · split
      · exact ih _ _ _
      · split
        · split
          · exact openBkt_count s b k
          · split
            · rw [takeSentinel_count, openBkt_count]
            · rw [ih, takeSentinel_count, openBkt_count]
        · exact ih _ _ _

theorem closeLoop_count (c : Cfg) (bs : List Nat) : ∀ (s s' : State), closeStwLoop c s bs = some s' →
    ∀ k, bktCount (s'.bkt k) = bktCount (s.bkt k) := by
  induction bs with
  | nil => intro s s' h k; simp [closeStwLoop] at h; subst h; rfl
  | cons b bs ih =>
    intro s s' h k
    unfold closeStwLoop at h
    split at h
    · split at h
      · rw [ih _ _ h, closeBkt_count]
      · cases h
    · exact ih _ _ h k

theorem schedConcurrent_count (c : Cfg) (s : State) (k : Nat) : bktCount ((schedConcurrent c s).bkt k) = bktCount (s.bkt k) := by
  have key : ∀ (k0 : Bucket), k0.q = (s.bkt c.concIdx).q → k0.sentinel = (s.bkt c.concIdx).sentinel →
      bktCount ((setBkt s c.concIdx k0).bkt k) = bktCount (s.bkt k) := by
    intro k0 h1 h2
    simp only [setBkt]; split
    · rename_i e; subst e; simp only [bktCount, h1, h2]
    · rfl
  unfold schedConcurrent
  split
  · exact key _ rfl rfl
  · exact key _ rfl rfl

theorem qBkt_of_bktfun (c : Cfg) {s t : State} (h : s.bkt = t.bkt) : qBkt c s = qBkt c t := by unfold qBkt; rw [h]

theorem qBkt_push (c : Cfg) (s : State) (b : Nat) (p : Pkt) (hb : b < c.L) :
    qBkt c (setBkt s b { isOpen := (s.bkt b).isOpen, enabled := (s.bkt b).enabled, q := p :: (s.bkt b).q, sentinel := (s.bkt b).sentinel }) = qBkt c s + 1 := by
  have := qBkt_setBkt c s b { isOpen := (s.bkt b).isOpen, enabled := (s.bkt b).enabled, q := p :: (s.bkt b).q, sentinel := (s.bkt b).sentinel } hb
  have e1 : bktCount { isOpen := (s.bkt b).isOpen, enabled := (s.bkt b).enabled, q := p :: (s.bkt b).q, sentinel := (s.bkt b).sentinel } = bktCount (s.bkt b) + 1 := by
    simp only [bktCount, List.length_cons]; omega
  omega

/-- `added − queued`, `started`, `ended` are untouched by `on_gc_finished` -/
theorem onGcFinished_count (c : Cfg) (s s' : State) (h : onGcFinished c s = some s') :
    (∀ k, bktCount (s'.bkt k) = bktCount (s.bkt k)) ∧ s'.added = s.added := by
  unfold onGcFinished at h
  split at h
  · cases h
  · split at h
    · cases h
    · split at h
      · cases h
      · rename_i s1 hc
        injection h with h; subst h
        have c1 := closeLoop_count c _ _ _ hc
        have a1 := (sbb_closeLoop c _ _ _ hc).counters.2.2.2.2.2.1
        have a2 := (sbb_schedConcurrent c s1).counters.2.2.2.2.2.1
        refine ⟨fun k => ?_, ?_⟩
        · show bktCount ((schedConcurrent c s1).bkt k) = _
          rw [schedConcurrent_count, c1]; rfl
        · show (schedConcurrent c s1).added = _
          rw [a2, a1]; rfl

theorem respond_count (c : Cfg) (hu : c.unconIdx < c.L) (s s' : State) (tag : Nat) (r : LPR) (h : respond c s tag = some (s', r)) :
    qBkt c s' + s.added = qBkt c s + s'.added := by
  unfold respond at h
  split at h
  · cases h
  · split at h
    · injection h with h; injection h with h1 _; subst h1
      have e : qBkt c (addScheduleCollection c { s with reqGc := false, current := some Goal.gc } tag) =
          qBkt c (setBkt s c.unconIdx { isOpen := (s.bkt c.unconIdx).isOpen, enabled := (s.bkt c.unconIdx).enabled, q := newPkt s c.unconIdx tag :: (s.bkt c.unconIdx).q, sentinel := (s.bkt c.unconIdx).sentinel }) :=
        qBkt_of_bktfun c rfl
      rw [e, qBkt_push c s c.unconIdx _ hu]
      show qBkt c s + 1 + s.added = qBkt c s + (s.added + 1)
      omega
    · split at h
      · injection h with h; injection h with h1 _; subst h1; rfl
      · split at h
        · injection h with h; injection h with h1 _; subst h1; rfl
        · injection h with h; injection h with h1 _; subst h1; rfl

/-- `on_last_parked` keeps `added − queued(buckets)` -/
theorem onLastParked_count (c : Cfg) (hu : c.unconIdx < c.L) (s s' : State) (tag : Nat) (r : LPR)
    (h : onLastParked c s tag = some (s', r)) : qBkt c s' + s.added = qBkt c s + s'.added := by
  unfold onLastParked at h
  split at h
  · exact respond_count c hu _ _ _ _ h
  · split at h
    · cases h
    · split at h
      · cases h
      · split at h
        · injection h with h; injection h with h1 _; subst h1; rfl
        · have e1 : qBkt c (schedSentinels c s).1 = qBkt c s :=
            qBkt_of_bkt c (fun k => by unfold schedSentinels; simp only [emit]; exact schedLoop_count _ s false k)
          have a1 : (schedSentinels c s).1.added = s.added := (sbb_schedSentinels c s).counters.2.2.2.2.2.1
          split at h
          · injection h with h; injection h with h1 _; subst h1; rw [e1, a1]
          · have e2 : qBkt c (updateBuckets c (schedSentinels c s).1).1 = qBkt c s := by
              rw [← e1]
              exact qBkt_of_bkt c (fun k => by unfold updateBuckets; simp only [emit]; exact updateLoop_count c _ _ false k)
            have a2 : (updateBuckets c (schedSentinels c s).1).1.added = s.added :=
              ((sbb_updateBuckets c _).counters.2.2.2.2.2.1).trans a1
            split at h
            · injection h with h; injection h with h1 _; subst h1; rw [e2, a2]
            · split at h
              · cases h
              · rename_i s3 hg3
                obtain ⟨c3, a3⟩ := onGcFinished_count c _ _ hg3
                have e3 : qBkt c s3 = qBkt c s := (qBkt_of_bkt c c3).trans e2
                have a3' : s3.added = s.added := a3.trans a2
                split at h
                · injection h with h; injection h with h1 _; subst h1
                  show qBkt c s3 + s.added = qBkt c s + s3.added
                  rw [e3, a3']
                · have := respond_count c hu _ _ _ _ h
                  have e4 : qBkt c (completeGc s3) = qBkt c s3 := rfl
                  have a4 : (completeGc s3).added = s3.added := rfl
                  omega
  · cases h


theorem qBuf_of_buffun (c : Cfg) {s t : State} (h : s.buf = t.buf) : qBuf c s = qBuf c t := by unfold qBuf; rw [h]
theorem qDes_of_desfun (c : Cfg) {s t : State} (h : s.desig = t.desig) : qDes c s = qDes c t := by unfold qDes; rw [h]
theorem running_of_pcfun (c : Cfg) {s t : State} (h : s.pc = t.pc) : running c s = running c t := by unfold running; rw [h]

/-- nothing that is counted changes -/
theorem invK_same {c : Cfg} {s s' : State} (h : InvK c s) (hb : ∀ b, bktCount (s'.bkt b) = bktCount (s.bkt b))
    (hf : s'.buf = s.buf) (hd : s'.desig = s.desig) (hp : ∀ x, x < c.n → (s'.pc x).isExec = (s.pc x).isExec)
    (ha : s'.added = s.added) (hs : s'.started = s.started) (he : s'.ended = s.ended) : InvK c s' := by
  have e1 := qBkt_of_bkt c hb
  have e2 := qBuf_of_buf c hf
  have e3 := qDes_of_desig c hd
  have e4 : running c s' = running c s := countW_congr _ _ _ hp
  exact ⟨by unfold queued; rw [ha, hs, e1, e2, e3]; exact h.added_eq, by rw [hs, he, e4]; exact h.started_eq⟩

theorem notifyOne_isExec {c : Cfg} {s s' : State} {x : Option Nat} (h : notifyOne c s x = some s') (y : Nat) :
    (s'.pc y).isExec = (s.pc y).isExec := by
  rcases notifyOne_cases h with ⟨x0, _, _, hw, rfl⟩ | ⟨_, _, rfl⟩
  · simp only [setPc]; split
    · rename_i e; subst e; rw [hw]; rfl
    · rfl
  · rfl

theorem notifyAll_isExec (s : State) (y : Nat) : ((notifyAll s).pc y).isExec = (s.pc y).isExec := by
  simp only [notifyAll]; split
  · rename_i h; rw [h]; rfl
  · rfl

theorem invK_notifyOne {c : Cfg} {s s' : State} {x : Option Nat} (h : InvK c s) (hs : notifyOne c s x = some s') : InvK c s' := by
  have e := notifyOne_same hs
  exact invK_same h (fun b => by rw [e]) (by rw [e]) (by rw [e]) (fun y _ => notifyOne_isExec hs y) (by rw [e]) (by rw [e]) (by rw [e])

/-- worker `w` changes its program counter between two non-running points -/
theorem invK_setPc_idle {c : Cfg} {s : State} {w : Nat} {p : PC} (h : InvK c s) (h1 : (s.pc w).isExec = false)
    (h2 : p.isExec = false) : InvK c (setPc s w p) :=
  invK_same h (fun _ => rfl) rfl rfl (fun x _ => by
    simp only [setPc]; split
    · rename_i e; subst e; rw [h1, h2]
    · rfl) rfl rfl rfl


theorem step_park_isExec {c : Cfg} {s s' : State} {w tag : Nat} (hs : step c s (.park w tag) = some s') (x : Nat) :
    (s'.pc x).isExec = (s.pc x).isExec := by
  simp only [step] at hs
  split at hs
  · rename_i hg
    have hw0 : (s.pc w).isExec = false := by rw [hg.2.1]; rfl
    have key : ∀ (t : State) (p : PC), (∀ y, (t.pc y).isExec = (s.pc y).isExec) → p.isExec = false →
        ((setPc t w p).pc x).isExec = (s.pc x).isExec := by
      intro t p ht hp
      simp only [setPc]; split
      · rename_i e; subst e; rw [hp, hw0]
      · exact ht x
    split at hs
    · split at hs
      · cases hs
      · rename_i s1 hl; have f := frame_onLastParked c _ _ _ _ hl
        injection hs with hs; subst hs
        exact key s1 _ (fun y => by rw [f.pc]) rfl
      · rename_i s1 hl; have f := frame_onLastParked c _ _ _ _ hl
        injection hs with hs; subst hs
        obtain ⟨p, hp, he⟩ := afterUnpark_pc { s1 with parked := s1.parked - 1 } w
        rw [he]
        exact key _ p (fun y => by show (s1.pc y).isExec = _; rw [f.pc]) (by rcases hp with rfl | rfl <;> rfl)
      · rename_i s1 hl; have f := frame_onLastParked c _ _ _ _ hl
        injection hs with hs; subst hs
        obtain ⟨p, hp, he⟩ := afterUnpark_pc { notifyAll s1 with parked := (notifyAll s1).parked - 1 } w
        rw [he]
        exact key _ p (fun y => by show ((notifyAll s1).pc y).isExec = _; rw [notifyAll_isExec, f.pc])
          (by rcases hp with rfl | rfl <;> rfl)
    · injection hs with hs; subst hs
      exact key _ _ (fun y => rfl) rfl
  · cases hs

theorem setBkt_flags_count {s : State} {b0 : Nat} {k : Bucket} (h1 : k.q = (s.bkt b0).q) (h2 : k.sentinel = (s.bkt b0).sentinel)
    (b : Nat) : bktCount ((setBkt s b0 k).bkt b) = bktCount (s.bkt b) := by
  simp only [setBkt]; split
  · rename_i e; subst e; simp only [bktCount, h1, h2]
  · rfl

theorem step_invK (c : Cfg) (hu : c.unconIdx < c.L) (s s' : State) (a : Act) (hA : InvA c s) (h : InvK c s)
    (hs : step c s a = some s') : InvK c s' := by
  have hq := h.added_eq
  have hr := h.started_eq
  unfold queued at hq
  cases a with
  | observeEmpty w k =>
    simp only [step] at hs
    split at hs
    · rename_i seen hpc
      split at hs
      · injection hs with hs; subst hs; exact invK_setPc_idle h (by rw [hpc]; rfl) rfl
      · cases hs
    · cases hs
  | pollBucket w b p =>
    simp only [step] at hs
    split at hs
    · rename_i seen hpc
      split at hs
      · rename_i hg; injection hs with hs; subst hs
        obtain ⟨hw, hb, _, _, hmem⟩ := hg
        have e1 := qBkt_setBkt c s b { isOpen := (s.bkt b).isOpen, enabled := (s.bkt b).enabled, q := removeP (s.bkt b).q p, sentinel := (s.bkt b).sentinel } hb
        have e1' : bktCount { isOpen := (s.bkt b).isOpen, enabled := (s.bkt b).enabled, q := removeP (s.bkt b).q p, sentinel := (s.bkt b).sentinel } + 1 = bktCount (s.bkt b) := by
          simp only [bktCount, removeP]; have := erase_len hmem; omega
        have e4 := running_setPc c s w (.exec p) hw
        rw [hpc] at e4; simp [PC.isExec] at e4
        refine ⟨?_, ?_⟩
        · show s.added = qBkt c (setBkt s b _) + qBuf c s + qDes c s + (s.started + 1); omega
        · show s.started + 1 = running c (setPc s w (.exec p)) + s.ended; omega
      · cases hs
    · cases hs
  | batchMove w b p =>
    simp only [step] at hs
    split at hs
    · rename_i p0 hpc
      split at hs
      · rename_i hg; injection hs with hs; subst hs
        obtain ⟨hw, hb, _, _, hmem⟩ := hg
        have e1 := qBkt_setBkt c s b { isOpen := (s.bkt b).isOpen, enabled := (s.bkt b).enabled, q := removeP (s.bkt b).q p, sentinel := (s.bkt b).sentinel } hb
        have e1' : bktCount { isOpen := (s.bkt b).isOpen, enabled := (s.bkt b).enabled, q := removeP (s.bkt b).q p, sentinel := (s.bkt b).sentinel } + 1 = bktCount (s.bkt b) := by
          simp only [bktCount, removeP]; have := erase_len hmem; omega
        have e2 := qBuf_setBuf c s w (p :: s.buf w) hw
        simp only [List.length_cons] at e2
        refine ⟨?_, hr⟩
        show s.added = qBkt c (setBkt s b _) + qBuf c (setBuf s w (p :: s.buf w)) + qDes c s + s.started; omega
      · cases hs
    · rename_i seen hpc
      split at hs
      · rename_i hg; injection hs with hs; subst hs
        obtain ⟨hw, hb, _, _, hmem⟩ := hg
        have e1 := qBkt_setBkt c s b { isOpen := (s.bkt b).isOpen, enabled := (s.bkt b).enabled, q := removeP (s.bkt b).q p, sentinel := (s.bkt b).sentinel } hb
        have e1' : bktCount { isOpen := (s.bkt b).isOpen, enabled := (s.bkt b).enabled, q := removeP (s.bkt b).q p, sentinel := (s.bkt b).sentinel } + 1 = bktCount (s.bkt b) := by
          simp only [bktCount, removeP]; have := erase_len hmem; omega
        have e2 := qBuf_setBuf c s w (p :: s.buf w) hw
        simp only [List.length_cons] at e2
        have e4 := running_setPc c s w (.polling []) hw
        rw [hpc] at e4; simp [PC.isExec] at e4
        refine ⟨?_, ?_⟩
        · show s.added = qBkt c (setBkt s b _) + qBuf c (setBuf s w (p :: s.buf w)) + qDes c s + s.started; omega
        · show s.started = running c (setPc s w (.polling [])) + s.ended; omega
      · cases hs
    · cases hs
  | popLocal w p =>
    simp only [step] at hs
    split at hs
    · rename_i seen hpc
      split at hs
      · rename_i hg; injection hs with hs; subst hs
        obtain ⟨hw, hmem⟩ := hg
        have e2 := qBuf_setBuf c s w (removeP (s.buf w) p) hw
        have e2' := erase_len hmem
        simp only [removeP] at e2
        have e4 := running_setPc c s w (.exec p) hw
        rw [hpc] at e4; simp [PC.isExec] at e4
        refine ⟨?_, ?_⟩
        · show s.added = qBkt c s + qBuf c (setBuf s w ((s.buf w).erase p)) + qDes c s + (s.started + 1); omega
        · show s.started + 1 = running c (setPc s w (.exec p)) + s.ended; omega
      · cases hs
    · cases hs
  | popDesig w p =>
    simp only [step] at hs
    split at hs
    · rename_i seen hpc
      split at hs
      · rename_i hg; injection hs with hs; subst hs
        obtain ⟨hw, hmem⟩ := hg
        have e2 := qDes_setDesig c s w (removeP (s.desig w) p) hw
        have e2' := erase_len hmem
        simp only [removeP] at e2
        have e4 := running_setPc c s w (.exec p) hw
        rw [hpc] at e4; simp [PC.isExec] at e4
        refine ⟨?_, ?_⟩
        · show s.added = qBkt c s + qBuf c s + qDes c (setDesig s w ((s.desig w).erase p)) + (s.started + 1); omega
        · show s.started + 1 = running c (setPc s w (.exec p)) + s.ended; omega
      · cases hs
    · cases hs
  | steal w v p =>
    simp only [step] at hs
    split at hs
    · rename_i seen hpc
      split at hs
      · rename_i hg; injection hs with hs; subst hs
        obtain ⟨hw, hv, _, hmem⟩ := hg
        have e2 := qBuf_setBuf c s v (removeP (s.buf v) p) hv
        have e2' := erase_len hmem
        simp only [removeP] at e2
        have e4 := running_setPc c s w (.exec p) hw
        rw [hpc] at e4; simp [PC.isExec] at e4
        refine ⟨?_, ?_⟩
        · show s.added = qBkt c s + qBuf c (setBuf s v ((s.buf v).erase p)) + qDes c s + (s.started + 1); omega
        · show s.started + 1 = running c (setPc s w (.exec p)) + s.ended; omega
      · cases hs
    · cases hs
  | pollMiss w =>
    simp only [step] at hs
    split at hs
    · rename_i seen hpc
      split at hs
      · injection hs with hs; subst hs; exact invK_setPc_idle h (by rw [hpc]; rfl) rfl
      · cases hs
    · cases hs
  | push w b tag =>
    simp only [step] at hs
    split at hs
    · rename_i hg; injection hs with hs; subst hs
      have e1 := qBkt_push c s b (newPkt s b tag) hg.2.2
      refine ⟨?_, hr⟩
      show s.added + 1 = qBkt c (setBkt s b { isOpen := (s.bkt b).isOpen, enabled := (s.bkt b).enabled, q := newPkt s b tag :: (s.bkt b).q, sentinel := (s.bkt b).sentinel }) + qBuf c s + qDes c s + s.started; omega
    · cases hs
  | pushLocal w b tag =>
    simp only [step] at hs
    split at hs
    · rename_i hg; injection hs with hs; subst hs
      have e2 := qBuf_setBuf c s w (newPkt s b tag :: s.buf w) hg.1
      simp only [List.length_cons] at e2
      refine ⟨?_, hr⟩
      show s.added + 1 = qBkt c s + qBuf c (setBuf s w (newPkt s b tag :: s.buf w)) + qDes c s + s.started; omega
    · cases hs
  | pushDesig w x tag =>
    simp only [step] at hs
    split at hs
    · rename_i hg; injection hs with hs; subst hs
      have e2 := qDes_setDesig c s x (newPkt s 0xff tag :: s.desig x) hg.2.2.1
      simp only [List.length_cons] at e2
      refine ⟨?_, hr⟩
      show s.added + 1 = qBkt c s + qBuf c s + qDes c (setDesig s x (newPkt s 0xff tag :: s.desig x)) + s.started; omega
    · cases hs
  | setSentinel w b tag =>
    simp only [step] at hs
    split at hs
    · rename_i hg; injection hs with hs; subst hs
      have e1 := qBkt_setBkt c s b { isOpen := (s.bkt b).isOpen, enabled := (s.bkt b).enabled, q := (s.bkt b).q, sentinel := some (newPkt s b tag) } hg.2.2.1
      have e1' : bktCount { isOpen := (s.bkt b).isOpen, enabled := (s.bkt b).enabled, q := (s.bkt b).q, sentinel := some (newPkt s b tag) } = bktCount (s.bkt b) + 1 := by
        simp only [bktCount, hg.2.2.2]; simp
      refine ⟨?_, hr⟩
      show s.added + 1 = qBkt c (setBkt s b { isOpen := (s.bkt b).isOpen, enabled := (s.bkt b).enabled, q := (s.bkt b).q, sentinel := some (newPkt s b tag) }) + qBuf c s + qDes c s + s.started; omega
    · cases hs
  | bucketNotifyOne w b x =>
    simp only [step] at hs
    split at hs
    · exact invK_notifyOne h hs
    · cases hs
  | bucketNotifyAll w b =>
    simp only [step] at hs
    split at hs
    · injection hs with hs; subst hs
      exact invK_same h (fun _ => rfl) rfl rfl (fun y _ => notifyAll_isExec s y) rfl rfl rfl
    · cases hs
  | setEnabled w b v =>
    simp only [step] at hs
    split at hs
    · injection hs with hs; subst hs
      exact invK_same h (setBkt_flags_count rfl rfl) rfl rfl (fun _ _ => rfl) rfl rfl rfl
    · cases hs
  | stopAll w =>
    simp only [step] at hs
    split at hs
    · injection hs with hs; subst hs; exact invK_same h (fun _ => rfl) rfl rfl (fun _ _ => rfl) rfl rfl rfl
    · cases hs
  | clearRequest w =>
    simp only [step] at hs
    split at hs
    · injection hs with hs; subst hs; exact invK_same h (fun _ => rfl) rfl rfl (fun _ _ => rfl) rfl rfl rfl
    · cases hs
  | openFirst w b =>
    simp only [step] at hs
    split at hs
    · injection hs with hs; subst hs
      exact invK_same h (setBkt_flags_count rfl rfl) rfl rfl (fun _ _ => rfl) rfl rfl rfl
    · cases hs
  | wakeAll w =>
    simp only [step] at hs
    split at hs
    · injection hs with hs; subst hs
      exact invK_same h (fun _ => rfl) rfl rfl (fun y _ => notifyAll_isExec s y) rfl rfl rfl
    · cases hs
  | execEnd w =>
    simp only [step] at hs
    split at hs
    · rename_i p hpc
      split at hs
      · rename_i hw; injection hs with hs; subst hs
        have e4 := running_setPc c s w (.polling []) hw
        rw [hpc] at e4; simp [PC.isExec] at e4
        refine ⟨?_, ?_⟩
        · show s.added = qBkt c s + qBuf c s + qDes c s + s.started; omega
        · show s.started = running c (setPc s w (.polling [])) + (s.ended + 1); omega
      · cases hs
    · cases hs
  | park w tag =>
    have hex := step_park_isExec hs
    obtain ⟨_, _, _, hcase⟩ := step_park_cases hs
    have e4 : running c s' = running c s := countW_congr _ _ _ (fun x _ => hex x)
    rcases hcase with ⟨_, rfl⟩ | ⟨_, s1, r, hl, he⟩
    · exact invK_same h (fun _ => rfl) rfl rfl (fun x _ => hex x) rfl rfl rfl
    · have f := frame_onLastParked c _ _ _ _ hl
      have cnt := onLastParked_count c hu _ s1 tag r hl
      have e1 : qBkt c s' = qBkt c s1 := by rw [he]; rfl
      have e2 : qBuf c s' = qBuf c s := by rw [he]; show qBuf c s1 = _; exact qBuf_of_buffun c f.buf
      have e3 : qDes c s' = qDes c s := by rw [he]; show qDes c s1 = _; exact qDes_of_desfun c f.desig
      have ea : s'.added = s1.added := by rw [he]
      have es : s'.started = s.started := by rw [he]; exact f.started
      have ee : s'.ended = s.ended := by rw [he]; exact f.ended
      have cnt' : qBkt c s1 + s.added = qBkt c s + s1.added := cnt
      refine ⟨?_, ?_⟩
      · unfold queued; rw [e1, e2, e3, ea, es]; omega
      · rw [es, ee, e4]; exact hr
  | spurious w =>
    simp only [step] at hs
    split at hs
    · rename_i hg; injection hs with hs; subst hs; exact invK_setPc_idle h (by rw [hg.2]; rfl) rfl
    · cases hs
  | wake w =>
    simp only [step] at hs
    split at hs
    · rename_i hg; injection hs with hs; subst hs
      obtain ⟨p, hp, he⟩ := afterUnpark_pc { s with parked := s.parked - 1 } w
      have hpe : p.isExec = false := by rcases hp with rfl | rfl <;> rfl
      rw [he]
      exact invK_same (s := setPc s w p) (invK_setPc_idle (s := s) h (by rw [hg.2.1]; rfl) hpe)
        (fun _ => rfl) rfl rfl (fun _ _ => rfl) rfl rfl rfl
    · cases hs
  | surrender w =>
    simp only [step] at hs
    split at hs
    · split at hs
      · rename_i hg
        have := invK_setPc_idle (p := PC.surrendered) h (by rw [hg.2]; rfl) rfl
        split at hs
        · injection hs with hs; subst hs
          exact invK_same (s := setPc s w .surrendered) this (fun _ => rfl) rfl rfl (fun _ _ => rfl) rfl rfl rfl
        · injection hs with hs; subst hs
          exact invK_same (s := setPc s w .surrendered) this (fun _ => rfl) rfl rfl (fun _ _ => rfl) rfl rfl rfl
      · cases hs
    · cases hs
  | requestFlag =>
    simp only [step] at hs
    split at hs <;> (injection hs with hs; subst hs)
    · exact h
    · exact invK_same h (fun _ => rfl) rfl rfl (fun _ _ => rfl) rfl rfl rfl
  | makeRequest g x =>
    simp only [step] at hs
    have hc : InvK c (consumePending s g) := by
      unfold consumePending; split
      · exact invK_same h (fun _ => rfl) rfl rfl (fun _ _ => rfl) rfl rfl rfl
      · exact h
    split at hs
    · cases hs
    · split at hs
      · split at hs
        · injection hs with hs; subst hs; exact hc
        · cases hs
      · refine invK_notifyOne (s := setRequested (consumePending s g) g true) ?_ hs
        cases g <;> exact invK_same hc (fun _ => rfl) rfl rfl (fun _ _ => rfl) rfl rfl rfl
  | mutPush b tag =>
    simp only [step] at hs
    split at hs
    · rename_i hg; injection hs with hs; subst hs
      have e1 := qBkt_push c s b (newPkt s b tag) hg.1
      refine ⟨?_, hr⟩
      show s.added + 1 = qBkt c (setBkt s b { isOpen := (s.bkt b).isOpen, enabled := (s.bkt b).enabled, q := newPkt s b tag :: (s.bkt b).q, sentinel := (s.bkt b).sentinel }) + qBuf c s + qDes c s + s.started; omega
    · cases hs
  | mutNotifyOne b x =>
    simp only [step] at hs
    split at hs
    · exact invK_notifyOne h hs
    · cases hs
  | initSetEnabled b v =>
    simp only [step] at hs
    split at hs
    · injection hs with hs; subst hs
      exact invK_same h (setBkt_flags_count rfl rfl) rfl rfl (fun _ _ => rfl) rfl rfl rfl
    · cases hs
  | prepareSurrender =>
    simp only [step] at hs
    split at hs
    · injection hs with hs; subst hs; exact invK_same h (fun _ => rfl) rfl rfl (fun _ _ => rfl) rfl rfl rfl
    · cases hs
  | respawn =>
    simp only [step] at hs
    split at hs
    · rename_i k hcr
      split at hs
      · rename_i hk; injection hs with hs; subst hs
        have hall := no_parking_when_all_surrendered hA (by rw [hcr, hk])
        exact invK_same h (fun _ => rfl) rfl rfl (fun x hx => by simp [hx, hall x hx, PC.isExec]) rfl rfl rfl
      · cases hs
    · cases hs

theorem sumW_zero (n : Nat) (f : Nat → Nat) (h : ∀ x, x < n → f x = 0) : sumW n f = 0 := by
  induction n with
  | zero => rfl
  | succ n ih => rw [sumW_succ, ih (fun x hx => h x (Nat.lt_succ_of_lt hx)), h n (Nat.lt_succ_self n)]

theorem init_invK (c : Cfg) : InvK c (init c) := by
  have z1 : qBkt c (init c) = 0 := sumW_zero _ _ (fun b _ => by simp [init, initBucket, bktCount])
  have z2 : qBuf c (init c) = 0 := sumW_zero _ _ (fun b _ => by simp [init])
  have z3 : qDes c (init c) = 0 := sumW_zero _ _ (fun b _ => by simp [init])
  have z4 : running c (init c) = 0 := countW_zero _ _ (fun x _ => rfl)
  exact ⟨by unfold queued; rw [z1, z2, z3]; rfl, by rw [z4]; rfl⟩

theorem reachable_invK {c : Cfg} (hu : c.unconIdx < c.L) {s : State} (h : Reachable c s) : InvK c s := by
  obtain ⟨run, hr⟩ := h
  exact (exec_some_induct c (fun s => InvA c s ∧ InvK c s)
    (fun s s' a hh hs => ⟨step_invA c s s' a hh.1 hs, step_invK c hu s s' a hh.1 hh.2 hs⟩)
    run _ _ ⟨init_invA c, init_invK c⟩ hr).2


/-- a GC is completed only after the last parked worker has seen no designated work -/
theorem onLastParked_gcDone_nodesig (c : Cfg) (s s' : State) (tag : Nat) (r : LPR)
    (h : onLastParked c s tag = some (s', r)) (hg : s'.gcDone ≠ s.gcDone) : hasDesignated c s = false := by
  unfold onLastParked at h
  split at h
  · exact absurd (respond_gcDone c _ _ _ _ h) hg
  · split at h
    · cases h
    · split at h
      · cases h
      · split at h
        · injection h with h; injection h with h1 _; subst h1; exact absurd rfl hg
        · rename_i hnd; simpa using hnd
  · cases h

end Mmtk.Sched
