import MmtkModel.Model.Map32
/-!
# The run-level region map of `Model/Map32.lean`: well-formedness and its preservation (for C29)

`FLInv lo hi fl`: the runs are non-empty and pairwise disjoint, `order` lists exactly the starts of
the free runs (once each), and every free run lies inside `[lo, hi)`.
`alloc_spec` / `freeRun_spec`: what `FL.alloc` / `FL.freeRun` do to a well-formed map, and that they
keep it well formed.  Nothing is assumed about the free list: these are theorems about the model's
own definitions (`FL.alloc`, `FL.freeRun`).
-/
namespace Mmtk.Map32

/-- Two runs do not overlap. -/
def Disj (a b : Run) : Prop := a.start + a.size ≤ b.start ∨ b.start + b.size ≤ a.start

theorem Disj.symm {a b : Run} (h : Disj a b) : Disj b a := Or.symm h

theorem pw_mem {α : Type} {R : α → α → Prop} (hs : ∀ a b, R a b → R b a) :
    ∀ {l : List α}, l.Pairwise R → ∀ {a b : α}, a ∈ l → b ∈ l → a ≠ b → R a b
  | [], _, _, _, ha, _, _ => by cases ha
  | x :: l, hp, a, b, ha, hb, hne => by
    rw [List.pairwise_cons] at hp
    rcases List.mem_cons.1 ha with rfl | ha'
    · rcases List.mem_cons.1 hb with rfl | hb'
      · exact absurd rfl hne
      · exact hp.1 _ hb'
    · rcases List.mem_cons.1 hb with rfl | hb'
      · exact hs _ _ (hp.1 _ ha')
      · exact pw_mem hs hp.2 ha' hb' hne

structure FLInv (lo hi : Nat) (fl : FL) : Prop where
  pos : ∀ r ∈ fl.runs, 0 < r.size
  disj : fl.runs.Pairwise Disj
  nodup : fl.order.Nodup
  order_iff : ∀ u, u ∈ fl.order ↔ ∃ r ∈ fl.runs, r.start = u ∧ r.free = true
  free_in : ∀ r ∈ fl.runs, r.free = true → lo ≤ r.start ∧ r.start + r.size ≤ hi

/-- Two runs of a well-formed map are equal or disjoint. -/
theorem FLInv.eq_or_disj {lo hi : Nat} {fl : FL} (h : FLInv lo hi fl) {a b : Run}
    (ha : a ∈ fl.runs) (hb : b ∈ fl.runs) : a = b ∨ Disj a b := by
  by_cases hab : a = b
  · exact Or.inl hab
  · exact Or.inr (pw_mem (fun _ _ => Disj.symm) h.disj ha hb hab)

theorem FLInv.eq_of_start {lo hi : Nat} {fl : FL} (h : FLInv lo hi fl) {a b : Run}
    (ha : a ∈ fl.runs) (hb : b ∈ fl.runs) (hs : a.start = b.start) : a = b := by
  rcases h.eq_or_disj ha hb with e | d
  · exact e
  · have := h.pos a ha; have := h.pos b hb; unfold Disj at d; omega

theorem FLInv.eq_of_end {lo hi : Nat} {fl : FL} (h : FLInv lo hi fl) {a b : Run}
    (ha : a ∈ fl.runs) (hb : b ∈ fl.runs) (hs : a.start + a.size = b.start + b.size) : a = b := by
  rcases h.eq_or_disj ha hb with e | d
  · exact e
  · have := h.pos a ha; have := h.pos b hb; unfold Disj at d; omega

theorem FLInv.find_eq {lo hi : Nat} {fl : FL} (h : FLInv lo hi fl) {r : Run} (hr : r ∈ fl.runs) :
    fl.find r.start = some r := by
  unfold FL.find
  cases hf : fl.runs.find? (·.start == r.start) with
  | none =>
    rw [List.find?_eq_none] at hf
    have := hf r hr
    simp at this
  | some r' =>
    have hm := List.mem_of_find?_eq_some hf
    have hp := List.find?_some hf
    have : r'.start = r.start := by simpa using hp
    rw [h.eq_of_start hm hr this]

theorem FLInv.find_some {lo hi : Nat} {fl : FL} (_h : FLInv lo hi fl) {u : Nat} {r : Run}
    (hf : fl.find u = some r) : r ∈ fl.runs ∧ r.start = u := by
  unfold FL.find at hf
  exact ⟨List.mem_of_find?_eq_some hf, by simpa using List.find?_some hf⟩

theorem FLInv.find_none {fl : FL} {u : Nat} (hf : fl.find u = none) : ∀ r ∈ fl.runs, r.start ≠ u := by
  unfold FL.find at hf
  rw [List.find?_eq_none] at hf
  intro r hr; simpa using hf r hr

theorem FLInv.leftOf_eq {lo hi : Nat} {fl : FL} (h : FLInv lo hi fl) {r : Run} (hr : r ∈ fl.runs) :
    fl.leftOf (r.start + r.size) = some r := by
  unfold FL.leftOf
  cases hf : fl.runs.find? (fun x => x.start + x.size == r.start + r.size) with
  | none =>
    rw [List.find?_eq_none] at hf
    have := hf r hr
    simp at this
  | some r' =>
    have hm := List.mem_of_find?_eq_some hf
    have hp := List.find?_some hf
    have : r'.start + r'.size = r.start + r.size := by simpa using hp
    rw [h.eq_of_end hm hr this]

theorem FLInv.leftOf_some {fl : FL} {u : Nat} {r : Run}
    (hf : fl.leftOf u = some r) : r ∈ fl.runs ∧ r.start + r.size = u := by
  unfold FL.leftOf at hf
  exact ⟨List.mem_of_find?_eq_some hf, by simpa using List.find?_some hf⟩

theorem FLInv.sizeOf_eq {lo hi : Nat} {fl : FL} (h : FLInv lo hi fl) {r : Run} (hr : r ∈ fl.runs) :
    fl.sizeOf r.start = r.size := by
  unfold FL.sizeOf; rw [h.find_eq hr]

theorem FLInv.isFree_eq {lo hi : Nat} {fl : FL} (h : FLInv lo hi fl) {r : Run} (hr : r ∈ fl.runs) :
    fl.isFree r.start = r.free := by
  unfold FL.isFree; rw [h.find_eq hr]

/-! ## `replace` on a well-formed map -/

theorem replace_split {fl : FL} {lo hi : Nat} (h : FLInv lo hi fl) {r : Run} (hr : r ∈ fl.runs)
    (rs : List Run) :
    ∃ pre post, fl.runs = pre ++ r :: post ∧ fl.replace r.start rs = pre ++ rs ++ post := by
  obtain ⟨pre, post, hsplit⟩ := List.append_of_mem hr
  refine ⟨pre, post, hsplit, ?_⟩
  have hne : ∀ x, x ∈ pre ∨ x ∈ post → x.start ≠ r.start := by
    intro x hx hs
    have hxm : x ∈ fl.runs := by
      rw [hsplit]; rcases hx with hx | hx
      · exact List.mem_append_left _ hx
      · exact List.mem_append_right _ (List.mem_cons_of_mem _ hx)
    have hxr : x = r := h.eq_of_start hxm hr hs
    -- `r` occurs once in `runs` (pairwise disjoint, non-empty)
    have hd := h.disj
    rw [hsplit, List.pairwise_append] at hd
    have hpos := h.pos r hr
    rcases hx with hx | hx
    · have := hd.2.2 x hx r (List.mem_cons_self ..)
      rw [hxr] at this; unfold Disj at this; omega
    · have := (List.pairwise_cons.1 hd.2.1).1 x hx
      rw [hxr] at this; unfold Disj at this; omega
  have hid : ∀ l : List Run, (∀ x ∈ l, x.start ≠ r.start) →
      l.flatMap (fun x => if x.start == r.start then rs else [x]) = l := by
    intro l
    induction l with
    | nil => intro _; rfl
    | cons a l ih =>
      intro hl
      have ha : (a.start == r.start) = false := by simpa using hl a (List.mem_cons_self ..)
      rw [List.flatMap_cons, ha, ih (fun x hx => hl x (List.mem_cons_of_mem _ hx))]
      rfl
  unfold FL.replace
  rw [hsplit, List.flatMap_append, List.flatMap_cons, hid pre (fun x hx => hne x (Or.inl hx)),
    hid post (fun x hx => hne x (Or.inr hx))]
  simp

/-! ## `alloc` -/

theorem alloc_of_find_none {fl : FL} {n : Nat}
    (hf : fl.order.find? (fun u => fl.sizeOf u ≥ n) = none) : fl.alloc n = (none, fl) := by
  unfold FL.alloc; rw [hf]

theorem alloc_of_find_some {fl : FL} {n u : Nat}
    (hf : fl.order.find? (fun u => fl.sizeOf u ≥ n) = some u) :
    fl.alloc n = if fl.sizeOf u > n then
      (some u, { runs := fl.replace u [⟨u, n, false⟩, ⟨u + n, fl.sizeOf u - n, true⟩],
                 order := (u + n) :: fl.order.filter (· != u) })
    else
      (some u, { runs := fl.replace u [⟨u, fl.sizeOf u, false⟩], order := fl.order.filter (· != u) }) := by
  unfold FL.alloc; rw [hf]

/-- What a successful `alloc(n)` (`n ≥ 1`) does: it takes the front `n` units of a free run
`⟨u, s, free⟩`, `n ≤ s`; the rest of the map is untouched; the map stays well formed. -/
theorem alloc_spec {lo hi : Nat} {fl : FL} (h : FLInv lo hi fl) {n : Nat} (hn : 1 ≤ n) {u : Nat}
    (ha : (fl.alloc n).1 = some u) :
    ∃ s, (⟨u, s, true⟩ : Run) ∈ fl.runs ∧ n ≤ s ∧ FLInv lo hi (fl.alloc n).2 ∧
      (∀ r, r ∈ (fl.alloc n).2.runs ↔
        (r ∈ fl.runs ∧ r.start ≠ u) ∨ r = ⟨u, n, false⟩ ∨ (n < s ∧ r = ⟨u + n, s - n, true⟩)) := by
  cases hf : fl.order.find? (fun u => fl.sizeOf u ≥ n) with
  | none => rw [alloc_of_find_none hf] at ha; cases ha
  | some u' =>
    rw [alloc_of_find_some hf] at ha ⊢
    have hmem := List.mem_of_find?_eq_some hf
    have hsz : n ≤ fl.sizeOf u' := by simpa using List.find?_some hf
    obtain ⟨r, hr, hru, hrf⟩ := (h.order_iff u').1 hmem
    have hrs : fl.sizeOf u' = r.size := by rw [← hru]; exact h.sizeOf_eq hr
    have hu : u' = u := by
      split at ha <;> simpa using ha
    subst hu
    have hreq : r = ⟨u', r.size, true⟩ := by cases r; simp_all
    refine ⟨r.size, hreq ▸ hr, hrs ▸ hsz, ?_⟩
    have hin := h.free_in r hr hrf
    have hpos := h.pos r hr
    -- the common facts about `pre ++ rs ++ post`
    have key : ∀ rs : List Run, (∀ x ∈ rs, 0 < x.size ∧ r.start ≤ x.start ∧ x.start + x.size ≤ r.start + r.size) →
        rs.Pairwise Disj →
        ∀ ord : List Nat, ord.Nodup → (∀ v, v ∈ ord ↔ (v ∈ fl.order ∧ v ≠ u') ∨ ∃ x ∈ rs, x.start = v ∧ x.free = true) →
        FLInv lo hi { runs := fl.replace u' rs, order := ord } ∧
        ∀ x, x ∈ fl.replace u' rs ↔ (x ∈ fl.runs ∧ x.start ≠ u') ∨ x ∈ rs := by
      intro rs hrs1 hrs2 ord hord1 hord2
      obtain ⟨pre, post, hsplit, hrep⟩ := replace_split h hr rs
      rw [hru] at hrep
      have hd := h.disj
      rw [hsplit, List.pairwise_append, List.pairwise_cons] at hd
      have hmemiff : ∀ x, x ∈ fl.replace u' rs ↔ (x ∈ fl.runs ∧ x.start ≠ u') ∨ x ∈ rs := by
        intro x
        rw [hrep, hsplit]
        simp only [List.mem_append, List.mem_cons]
        constructor
        · rintro ((hx | hx) | hx)
          · refine Or.inl ⟨Or.inl hx, ?_⟩
            have := hd.2.2 x hx r (List.mem_cons_self ..)
            have h3 := h.pos x (by rw [hsplit]; exact List.mem_append_left _ hx)
            unfold Disj at this; omega
          · exact Or.inr hx
          · refine Or.inl ⟨Or.inr (Or.inr hx), ?_⟩
            have := hd.2.1.1 x hx
            have h3 := h.pos x (by rw [hsplit]; exact List.mem_append_right _ (List.mem_cons_of_mem _ hx))
            unfold Disj at this; omega
        · rintro (⟨hx | rfl | hx, hne⟩ | hx)
          · exact Or.inl (Or.inl hx)
          · exact absurd hru hne
          · exact Or.inr hx
          · exact Or.inl (Or.inr hx)
      refine ⟨⟨?_, ?_, hord1, ?_, ?_⟩, hmemiff⟩
      · intro x hx
        rcases (hmemiff x).1 hx with ⟨hx, _⟩ | hx
        · exact h.pos x hx
        · exact (hrs1 x hx).1
      · show (fl.replace u' rs).Pairwise Disj
        rw [hrep, List.pairwise_append, List.pairwise_append]
        refine ⟨⟨hd.1, hrs2, ?_⟩, hd.2.1.2, ?_⟩
        · intro a ha b hb
          have h1 := hd.2.2 a ha r (List.mem_cons_self ..)
          have h2 := hrs1 b hb
          have h3 := h.pos a (by rw [hsplit]; exact List.mem_append_left _ ha)
          unfold Disj at *; omega
        · intro a ha b hb
          rcases List.mem_append.1 ha with ha | ha
          · exact hd.2.2 a ha b (List.mem_cons_of_mem _ hb)
          · have h1 := hd.2.1.1 b hb
            have h2 := hrs1 a ha
            have h3 := h.pos b (by rw [hsplit]; exact List.mem_append_right _ (List.mem_cons_of_mem _ hb))
            unfold Disj at *; omega
      · intro v
        show v ∈ ord ↔ ∃ x ∈ fl.replace u' rs, x.start = v ∧ x.free = true
        rw [hord2]
        constructor
        · rintro (⟨hv, hne⟩ | ⟨x, hx, hxv, hxf⟩)
          · obtain ⟨x, hx, hxv, hxf⟩ := (h.order_iff v).1 hv
            exact ⟨x, (hmemiff x).2 (Or.inl ⟨hx, hxv ▸ hne⟩), hxv, hxf⟩
          · exact ⟨x, (hmemiff x).2 (Or.inr hx), hxv, hxf⟩
        · rintro ⟨x, hx, hxv, hxf⟩
          rcases (hmemiff x).1 hx with ⟨hx, hne⟩ | hx
          · exact Or.inl ⟨(h.order_iff v).2 ⟨x, hx, hxv, hxf⟩, hxv ▸ hne⟩
          · exact Or.inr ⟨x, hx, hxv, hxf⟩
      · intro x hx hxf
        rcases (hmemiff x).1 hx with ⟨hx, _⟩ | hx
        · exact h.free_in x hx hxf
        · have := hrs1 x hx; omega
    have hfilt : ∀ v, v ∈ fl.order.filter (· != u') ↔ v ∈ fl.order ∧ v ≠ u' := by
      intro v; simp
    have hfnd : (fl.order.filter (· != u')).Nodup := h.nodup.filter _
    rw [hrs]
    split
    · rename_i hgt
      have hgt' : n < r.size := hgt
      have hk := key [⟨u', n, false⟩, ⟨u' + n, r.size - n, true⟩]
        (by intro x hx; simp at hx; rcases hx with rfl | rfl <;> (dsimp only; omega))
        (by simp [Disj])
        ((u' + n) :: fl.order.filter (· != u'))
        (by
          rw [List.nodup_cons]
          refine ⟨?_, hfnd⟩
          intro hmem2
          obtain ⟨hm, _⟩ := (hfilt _).1 hmem2
          obtain ⟨x, hx, hxv, _⟩ := (h.order_iff _).1 hm
          rcases h.eq_or_disj hx hr with e | d
          · rw [e] at hxv; omega
          · have := h.pos x hx; unfold Disj at d; omega)
        (by
          intro v
          rw [List.mem_cons, hfilt]
          constructor
          · rintro (rfl | hv)
            · exact Or.inr ⟨⟨u' + n, r.size - n, true⟩, by simp, rfl, rfl⟩
            · exact Or.inl hv
          · rintro (hv | ⟨x, hx, hxv, hxf⟩)
            · exact Or.inr hv
            · simp at hx; rcases hx with rfl | rfl
              · cases hxf
              · exact Or.inl hxv.symm)
      refine ⟨hk.1, ?_⟩
      intro x
      rw [hk.2 x]
      simp only [List.mem_cons, List.not_mem_nil, or_false]
      constructor
      · rintro (hx | rfl | rfl)
        · exact Or.inl hx
        · exact Or.inr (Or.inl rfl)
        · exact Or.inr (Or.inr ⟨hgt', rfl⟩)
      · rintro (hx | rfl | ⟨_, rfl⟩)
        · exact Or.inl hx
        · exact Or.inr (Or.inl rfl)
        · exact Or.inr (Or.inr rfl)
    · rename_i hgt
      have hle : r.size ≤ n := Nat.le_of_not_lt hgt
      have hsz' : n ≤ r.size := hrs ▸ hsz
      have heq : r.size = n := Nat.le_antisymm hle hsz'
      have hk := key [⟨u', r.size, false⟩]
        (by intro x hx; simp at hx; subst hx; dsimp only; omega)
        (by simp)
        (fl.order.filter (· != u')) hfnd
        (by
          intro v
          rw [hfilt]
          constructor
          · intro hv; exact Or.inl hv
          · rintro (hv | ⟨x, hx, hxv, hxf⟩)
            · exact hv
            · simp at hx; subst hx; cases hxf)
      refine ⟨hk.1, ?_⟩
      intro x
      rw [hk.2 x]
      simp only [List.mem_cons, List.not_mem_nil, or_false]
      constructor
      · rintro (hx | rfl)
        · exact Or.inl hx
        · exact Or.inr (Or.inl (by rw [heq]))
      · rintro (hx | rfl | ⟨hlt, _⟩)
        · exact Or.inl hx
        · exact Or.inr (by rw [heq])
        · omega

/-- A failed `alloc` leaves the map alone. -/
theorem alloc_none {fl : FL} {n : Nat} (ha : (fl.alloc n).1 = none) : (fl.alloc n).2 = fl := by
  cases hf : fl.order.find? (fun u => fl.sizeOf u ≥ n) with
  | none => rw [alloc_of_find_none hf]
  | some u' =>
    rw [alloc_of_find_some hf] at ha
    split at ha <;> cases ha

/-- `alloc(n)` fails only if no free run has `n` units. -/
theorem alloc_none_iff {lo hi : Nat} {fl : FL} (h : FLInv lo hi fl) {n : Nat} :
    (fl.alloc n).1 = none ↔ ∀ r ∈ fl.runs, r.free = true → r.size < n := by
  cases hf : fl.order.find? (fun u => fl.sizeOf u ≥ n) with
  | none =>
    rw [alloc_of_find_none hf]
    simp only [true_iff]
    intro r hr hrf
    rw [List.find?_eq_none] at hf
    have := hf r.start ((h.order_iff _).2 ⟨r, hr, rfl, hrf⟩)
    rw [h.sizeOf_eq hr] at this
    simpa using this
  | some u' =>
    have hmem := List.mem_of_find?_eq_some hf
    have hsz : n ≤ fl.sizeOf u' := by simpa using List.find?_some hf
    obtain ⟨r, hr, hru, hrf⟩ := (h.order_iff u').1 hmem
    have hrs : fl.sizeOf u' = r.size := by rw [← hru]; exact h.sizeOf_eq hr
    rw [alloc_of_find_some hf]
    constructor
    · intro ha
      split at ha <;> cases ha
    · intro hall
      have := hall r hr hrf
      omega

/-! ## `freeRun` -/

/-- The map after merging `[ns, ns + nsz)` into one free run (what `freeRun` builds). -/
def FL.merged (fl : FL) (ns nsz : Nat) : FL :=
  { runs := (fl.runs.filter (fun r => !(decide (ns ≤ r.start) && decide (r.start < ns + nsz)))) ++ [⟨ns, nsz, true⟩],
    order := ns :: fl.order.filter (fun x => !(decide (ns ≤ x) && decide (x < ns + nsz))) }

def pickL (L : Option Run) (d : Run) : Run :=
  match L with
  | some l => if l.free then l else d
  | none => d

def pickR (F : Option Run) : Nat :=
  match F with
  | some r => if r.free then r.size else 0
  | none => 0

theorem freeRun_unfold (fl : FL) (u : Nat) :
    fl.freeRun u = (fl.sizeOf u,
      fl.merged (pickL (fl.leftOf u) ⟨u, fl.sizeOf u, false⟩).start
        (u + fl.sizeOf u + pickR (fl.find (u + fl.sizeOf u)) - (pickL (fl.leftOf u) ⟨u, fl.sizeOf u, false⟩).start)) := by
  rfl

/-- `freeRun u` for an allocated run `⟨u, s⟩`: it merges the run with its free left neighbour iff there is
one, and with its free right neighbour iff there is one (maximal coalescing). -/
theorem freeRun_eq_strong {lo hi : Nat} {fl : FL} (h : FLInv lo hi fl) {u s : Nat}
    (hr : (⟨u, s, false⟩ : Run) ∈ fl.runs) :
    ∃ ns es,
      ((ns = u ∧ ∀ l ∈ fl.runs, l.free = true → l.start + l.size ≠ u) ∨
        ∃ l ∈ fl.runs, l.free = true ∧ l.start = ns ∧ l.start + l.size = u) ∧
      ((es = 0 ∧ ∀ r ∈ fl.runs, r.free = true → r.start ≠ u + s) ∨
        ∃ r ∈ fl.runs, r.free = true ∧ r.start = u + s ∧ r.size = es) ∧
      fl.freeRun u = (s, fl.merged ns (u + s + es - ns)) := by
  have hsz : fl.sizeOf u = s := h.sizeOf_eq hr
  rw [freeRun_unfold, hsz]
  refine ⟨_, _, ?_, ?_, rfl⟩
  · cases hl : fl.leftOf u with
    | none =>
      refine Or.inl ⟨rfl, ?_⟩
      intro l hlm _ he
      have := h.leftOf_eq hlm
      rw [he, hl] at this; cases this
    | some l =>
      by_cases hlf : l.free = true
      · refine Or.inr ⟨l, (FLInv.leftOf_some hl).1, hlf, ?_, (FLInv.leftOf_some hl).2⟩
        simp [pickL, hlf]
      · refine Or.inl ⟨?_, ?_⟩
        · simp [pickL, hlf]
        · intro l' hlm hlf' he
          have := h.leftOf_eq hlm
          rw [he, hl] at this
          cases this
          exact hlf hlf'
  · cases hf : fl.find (u + s) with
    | none =>
      refine Or.inl ⟨rfl, ?_⟩
      intro r hrm _ he
      exact FLInv.find_none hf r hrm he
    | some r =>
      by_cases hrf : r.free = true
      · refine Or.inr ⟨r, (h.find_some hf).1, hrf, (h.find_some hf).2, ?_⟩
        simp [pickR, hrf]
      · refine Or.inl ⟨?_, ?_⟩
        · simp [pickR, hrf]
        · intro r' hrm hrf' he
          have := h.find_eq hrm
          rw [he, hf] at this
          cases this
          exact hrf hrf'

theorem freeRun_eq {lo hi : Nat} {fl : FL} (h : FLInv lo hi fl) {u s : Nat}
    (hr : (⟨u, s, false⟩ : Run) ∈ fl.runs) :
    ∃ ns es, (ns = u ∨ ∃ l ∈ fl.runs, l.free = true ∧ l.start = ns ∧ l.start + l.size = u) ∧
      (es = 0 ∨ ∃ r ∈ fl.runs, r.free = true ∧ r.start = u + s ∧ r.size = es) ∧
      fl.freeRun u = (s, fl.merged ns (u + s + es - ns)) := by
  obtain ⟨ns, es, hL, hR, he⟩ := freeRun_eq_strong h hr
  exact ⟨ns, es, hL.imp (·.1) id, hR.imp (·.1) id, he⟩

theorem mem_merged {fl : FL} {ns nsz : Nat} {x : Run} :
    x ∈ (fl.merged ns nsz).runs ↔ (x ∈ fl.runs ∧ ¬ (ns ≤ x.start ∧ x.start < ns + nsz)) ∨ x = ⟨ns, nsz, true⟩ := by
  unfold FL.merged
  simp only [List.mem_append, List.mem_filter, List.mem_cons, List.not_mem_nil, or_false,
    Bool.not_eq_true', Bool.and_eq_false_iff, decide_eq_false_iff_not]
  constructor
  · rintro (⟨hx, ho⟩ | rfl)
    · exact Or.inl ⟨hx, by omega⟩
    · exact Or.inr rfl
  · rintro (⟨hx, ho⟩ | rfl)
    · exact Or.inl ⟨hx, by omega⟩
    · exact Or.inr rfl

/-- Every run of the map is the freed run, one of the two free neighbours merged with it, or lies
outside the merged interval. -/
theorem merged_cases {lo hi : Nat} {fl : FL} (h : FLInv lo hi fl) {u s : Nat}
    (hr : (⟨u, s, false⟩ : Run) ∈ fl.runs) {ns es : Nat}
    (hL : ns = u ∨ ∃ l ∈ fl.runs, l.free = true ∧ l.start = ns ∧ l.start + l.size = u)
    (hR : es = 0 ∨ ∃ r ∈ fl.runs, r.free = true ∧ r.start = u + s ∧ r.size = es) :
    ns ≤ u ∧ ∀ x ∈ fl.runs, x.start = u ∨ (x.free = true ∧ ns ≤ x.start ∧ x.start < u + s + es ∧ x.start + x.size ≤ u + s + es) ∨
      (x.start + x.size ≤ ns ∨ u + s + es ≤ x.start) := by
  have hs := h.pos _ hr
  dsimp only at hs
  have hns : ns ≤ u := by
    rcases hL with rfl | ⟨l, _, _, rfl, hle⟩
    · exact Nat.le_refl _
    · omega
  refine ⟨hns, ?_⟩
  intro x hx
  have hxp := h.pos x hx
  rcases h.eq_or_disj hx hr with e | d1
  · exact Or.inl (by rw [e])
  unfold Disj at d1; dsimp only at d1
  have hl' : ns = u ∨ (x.free = true ∧ ns ≤ x.start ∧ x.start < u + s + es ∧ x.start + x.size ≤ u + s + es) ∨
      (x.start + x.size ≤ ns ∨ u ≤ x.start) := by
    rcases hL with e | ⟨l, hl, hlf, hls, hle⟩
    · exact Or.inl e
    · rcases h.eq_or_disj hx hl with e | d
      · refine Or.inr (Or.inl ⟨e ▸ hlf, ?_, ?_, ?_⟩)
        · rw [e, hls]; exact Nat.le_refl _
        · rw [e]; have := h.pos l hl; omega
        · rw [e]; omega
      · unfold Disj at d; exact Or.inr (Or.inr (by omega))
  have hr' : es = 0 ∨ (x.free = true ∧ ns ≤ x.start ∧ x.start < u + s + es ∧ x.start + x.size ≤ u + s + es) ∨
      (x.start + x.size ≤ u + s ∨ u + s + es ≤ x.start) := by
    rcases hR with e | ⟨r, hrr, hrf, hrs, hre⟩
    · exact Or.inl e
    · rcases h.eq_or_disj hx hrr with e | d
      · refine Or.inr (Or.inl ⟨e ▸ hrf, ?_, ?_, ?_⟩)
        · rw [e, hrs]; omega
        · rw [e, hrs]; have := h.pos r hrr; omega
        · rw [e, hrs, hre]; exact Nat.le_refl _
      · unfold Disj at d; exact Or.inr (Or.inr (by omega))
  rcases hl' with e1 | m | d2
  · rcases hr' with e2 | m | d3
    · exact Or.inr (Or.inr (by omega))
    · exact Or.inr (Or.inl m)
    · exact Or.inr (Or.inr (by omega))
  · exact Or.inr (Or.inl m)
  · rcases hr' with e2 | m | d3
    · exact Or.inr (Or.inr (by omega))
    · exact Or.inr (Or.inl m)
    · exact Or.inr (Or.inr (by omega))

/-- Freeing an allocated run `⟨u, s⟩` that lies inside `[lo, hi)` keeps the map well formed, returns
`s`, removes `⟨u, s⟩` from the allocated runs and leaves every other allocated run alone. -/
theorem freeRun_spec {lo hi : Nat} {fl : FL} (h : FLInv lo hi fl) {u s : Nat}
    (hr : (⟨u, s, false⟩ : Run) ∈ fl.runs) (hlo : lo ≤ u) (hhi : u + s ≤ hi) :
    (fl.freeRun u).1 = s ∧ FLInv lo hi (fl.freeRun u).2 ∧
    (∀ x : Run, x.free = false → (x ∈ (fl.freeRun u).2.runs ↔ x ∈ fl.runs ∧ x.start ≠ u)) := by
  obtain ⟨ns, es, hL, hR, heq⟩ := freeRun_eq h hr
  obtain ⟨hns, hc⟩ := merged_cases h hr hL hR
  have hs := h.pos _ hr
  dsimp only at hs
  rw [heq]
  refine ⟨rfl, ?_, ?_⟩
  rotate_left
  · intro x hxf
    show x ∈ (fl.merged ns (u + s + es - ns)).runs ↔ _
    unfold FL.merged
    simp only [List.mem_append, List.mem_filter, List.mem_cons, List.not_mem_nil, or_false,
      Bool.not_eq_true', Bool.and_eq_false_iff, decide_eq_false_iff_not]
    constructor
    · rintro (⟨hx, hout⟩ | rfl)
      · refine ⟨hx, ?_⟩
        intro hxu; omega
      · cases hxf
    · rintro ⟨hx, hne⟩
      refine Or.inl ⟨hx, ?_⟩
      rcases hc x hx with e | ⟨f, _⟩ | d
      · exact absurd e hne
      · rw [hxf] at f; cases f
      · have := h.pos x hx; omega
  · -- well-formedness of the merged map
    have hne : ns + (u + s + es - ns) = u + s + es := by omega
    have hmem : ∀ x, x ∈ (fl.merged ns (u + s + es - ns)).runs ↔
        (x ∈ fl.runs ∧ (x.start + x.size ≤ ns ∨ u + s + es ≤ x.start)) ∨ x = ⟨ns, u + s + es - ns, true⟩ := by
      intro x
      unfold FL.merged
      simp only [List.mem_append, List.mem_filter, List.mem_cons, List.not_mem_nil, or_false,
        Bool.not_eq_true', Bool.and_eq_false_iff, decide_eq_false_iff_not, hne]
      constructor
      · rintro (⟨hx, hout⟩ | rfl)
        · refine Or.inl ⟨hx, ?_⟩
          rcases hc x hx with e | ⟨_, f1, f2⟩ | d
          · omega
          · omega
          · exact d
        · exact Or.inr rfl
      · rintro (⟨hx, d⟩ | rfl)
        · have := h.pos x hx
          exact Or.inl ⟨hx, by omega⟩
        · exact Or.inr rfl
    have hin : lo ≤ ns ∧ u + s + es ≤ hi := by
      constructor
      · rcases hL with rfl | ⟨l, hl, hlf, rfl, _⟩
        · exact hlo
        · exact (h.free_in l hl hlf).1
      · rcases hR with rfl | ⟨r, hrr, hrf, hrs, rfl⟩
        · exact hhi
        · have := (h.free_in r hrr hrf).2; omega
    refine ⟨?_, ?_, ?_, ?_, ?_⟩
    · intro x hx
      rcases (hmem x).1 hx with ⟨hx, _⟩ | rfl
      · exact h.pos x hx
      · dsimp only; omega
    · show (fl.merged ns (u + s + es - ns)).runs.Pairwise Disj
      unfold FL.merged
      dsimp only
      rw [List.pairwise_append]
      refine ⟨h.disj.filter _, List.pairwise_singleton .., ?_⟩
      intro a ha b hb
      have hb' : b = ⟨ns, u + s + es - ns, true⟩ := by simpa using hb
      have ha' : a ∈ (fl.merged ns (u + s + es - ns)).runs := by
        unfold FL.merged; exact List.mem_append_left _ ha
      rcases (hmem a).1 ha' with ⟨_, d⟩ | e
      · rw [hb']; unfold Disj; dsimp only; omega
      · -- `a` is in the filtered part, so its start is outside the merged interval
        rw [List.mem_filter] at ha
        have := ha.2
        rw [e] at this
        simp at this
        omega
    · show (ns :: fl.order.filter _).Nodup
      rw [List.nodup_cons]
      refine ⟨?_, h.nodup.filter _⟩
      rw [List.mem_filter]
      rintro ⟨_, hx⟩
      simp at hx
      omega
    · intro v
      show v ∈ (ns :: fl.order.filter _) ↔ _
      rw [List.mem_cons, List.mem_filter]
      simp only [Bool.not_eq_true', Bool.and_eq_false_iff, decide_eq_false_iff_not, hne]
      constructor
      · rintro (rfl | ⟨hv, hout⟩)
        · exact ⟨_, (hmem _).2 (Or.inr rfl), rfl, rfl⟩
        · obtain ⟨x, hx, hxv, hxf⟩ := (h.order_iff v).1 hv
          refine ⟨x, (hmem x).2 (Or.inl ⟨hx, ?_⟩), hxv, hxf⟩
          rcases hc x hx with e | ⟨_, f1, f2⟩ | d
          · omega
          · omega
          · exact d
      · rintro ⟨x, hx, hxv, hxf⟩
        rcases (hmem x).1 hx with ⟨hx, d⟩ | rfl
        · refine Or.inr ⟨(h.order_iff v).2 ⟨x, hx, hxv, hxf⟩, ?_⟩
          have := h.pos x hx
          omega
        · exact Or.inl hxv.symm
    · intro x hx hxf
      rcases (hmem x).1 hx with ⟨hx, _⟩ | rfl
      · exact h.free_in x hx hxf
      · dsimp only; omega

/-! ## Coverage and maximal coalescing (for the exactness of a failed allocation) -/

/-- The runs cover `[lo, hi)` and no two free runs are adjacent. -/
structure FLFull (lo hi : Nat) (fl : FL) : Prop where
  cover : ∀ x, lo ≤ x → x < hi → ∃ r ∈ fl.runs, r.start ≤ x ∧ x < r.start + r.size
  maximal : ∀ a ∈ fl.runs, ∀ b ∈ fl.runs, a.free = true → b.free = true → a.start + a.size ≠ b.start

theorem alloc_full {lo hi : Nat} {fl : FL} (h : FLInv lo hi fl) (hF : FLFull lo hi fl) {n : Nat} (hn : 1 ≤ n)
    {u : Nat} (ha : (fl.alloc n).1 = some u) : FLFull lo hi (fl.alloc n).2 := by
  obtain ⟨s, hfree, hks, _, hmem⟩ := alloc_spec h hn ha
  have hspos := h.pos _ hfree
  dsimp only at hspos
  refine ⟨?_, ?_⟩
  · intro x hx1 hx2
    obtain ⟨r, hr, hr1, hr2⟩ := hF.cover x hx1 hx2
    by_cases hru : r.start = u
    · have : r = ⟨u, s, true⟩ := h.eq_of_start hr hfree hru
      subst this
      dsimp only at hr1 hr2
      by_cases hxn : x < u + n
      · exact ⟨⟨u, n, false⟩, (hmem _).2 (Or.inr (Or.inl rfl)), hr1, hxn⟩
      · exact ⟨⟨u + n, s - n, true⟩, (hmem _).2 (Or.inr (Or.inr ⟨by omega, rfl⟩)), by dsimp only; omega,
          by dsimp only; omega⟩
    · exact ⟨r, (hmem r).2 (Or.inl ⟨hr, hru⟩), hr1, hr2⟩
  · intro a ha' b hb' haf hbf hadj
    rcases (hmem a).1 ha' with ⟨ha0, hau⟩ | rfl | ⟨hlt, rfl⟩
    · rcases (hmem b).1 hb' with ⟨hb0, hbu⟩ | rfl | ⟨hlt, rfl⟩
      · exact hF.maximal a ha0 b hb0 haf hbf hadj
      · cases hbf
      · -- an old free run cannot end inside the run that was split
        dsimp only at hadj
        rcases h.eq_or_disj ha0 hfree with e | d
        · rw [e] at hau; exact hau rfl
        · have := h.pos a ha0; unfold Disj at d; dsimp only at d; omega
    · cases haf
    · rcases (hmem b).1 hb' with ⟨hb0, hbu⟩ | rfl | ⟨_, rfl⟩
      · -- the remainder ends where the split run ended
        dsimp only at hadj
        exact hF.maximal _ hfree b hb0 rfl hbf (by dsimp only; omega)
      · cases hbf
      · dsimp only at hadj; omega

theorem freeRun_full {lo hi : Nat} {fl : FL} (h : FLInv lo hi fl) (hF : FLFull lo hi fl) {u s : Nat}
    (hr : (⟨u, s, false⟩ : Run) ∈ fl.runs) : FLFull lo hi (fl.freeRun u).2 := by
  obtain ⟨ns, es, hL, hR, heq⟩ := freeRun_eq_strong h hr
  obtain ⟨hns, hc⟩ := merged_cases h hr (hL.imp (·.1) id) (hR.imp (·.1) id)
  have hs := h.pos _ hr
  dsimp only at hs
  have hne : ns + (u + s + es - ns) = u + s + es := by omega
  rw [heq]
  show FLFull lo hi (fl.merged ns (u + s + es - ns))
  refine ⟨?_, ?_⟩
  · intro x hx1 hx2
    by_cases hin : ns ≤ x ∧ x < u + s + es
    · exact ⟨_, mem_merged.2 (Or.inr rfl), hin.1, by dsimp only; omega⟩
    · obtain ⟨r, hrm, hr1, hr2⟩ := hF.cover x hx1 hx2
      refine ⟨r, mem_merged.2 (Or.inl ⟨hrm, ?_⟩), hr1, hr2⟩
      rw [hne]
      rcases hc r hrm with e | ⟨_, f1, f2, f3⟩ | d
      · have : r = ⟨u, s, false⟩ := h.eq_of_start hrm hr e
        subst this; dsimp only at hr1 hr2; omega
      · omega
      · have := h.pos r hrm; omega
  · intro a ha b hb haf hbf hadj
    rcases mem_merged.1 ha with ⟨ha0, hao⟩ | rfl
    · rcases mem_merged.1 hb with ⟨hb0, hbo⟩ | rfl
      · exact hF.maximal a ha0 b hb0 haf hbf hadj
      · -- an old free run ends where the merged run starts
        dsimp only at hadj
        rcases hL with ⟨e, hno⟩ | ⟨l, hl, hlf, hls, hle⟩
        · exact hno a ha0 haf (by omega)
        · exact hF.maximal a ha0 l hl haf hlf (by omega)
    · rcases mem_merged.1 hb with ⟨hb0, hbo⟩ | rfl
      · dsimp only at hadj
        rcases hR with ⟨e, hno⟩ | ⟨r, hrr, hrf, hrs, hre⟩
        · exact hno b hb0 hbf (by omega)
        · exact hF.maximal r hrr b hb0 hrf hbf (by omega)
      · dsimp only at hadj; omega

end Mmtk.Map32
