import MmtkModel.Lemmas.FreeListTab
/-!
# Circular doubly-linked free lists of the table, with a ghost `List Nat` (C26, concrete layer)

`Links t h x l`: starting at `x` (the head `h` itself, or a unit), following `next` visits exactly
the units of `l` in order and then returns to the head `h`; every `prev` pointer is the inverse.
`IsList t h l := Links t h h l`.  `add_to_free` pushes at the front, `__remove_from_free` unlinks an
arbitrary member.
-/
namespace Mmtk.FreeList

def Links (t : Tab) (h : Int) : Int → List Nat → Prop
  | x, [] => nxt t h x = h ∧ prv t h h = x
  | x, y :: r => nxt t h x = (y : Int) ∧ prv t h (y : Int) = x ∧ Links t h (y : Int) r

/-- `Links` only reads the `next` field of the current node and of the members, and the `prev`
field of the members and of the head. -/
theorem Links_congr {t t' : Tab} {h : Int} : ∀ (l : List Nat) (x : Int),
    (fNext t' x = fNext t x) → (∀ y ∈ l, fNext t' (y : Int) = fNext t (y : Int)) →
    (fPrev t' h = fPrev t h) → (∀ y ∈ l, fPrev t' (y : Int) = fPrev t (y : Int)) →
    Links t h x l → Links t' h x l
  | [], x, hx, _, hh, _, hl => by
    simp only [Links, nxt, prv] at hl ⊢
    rw [hx, hh]; exact hl
  | y :: r, x, hx, hn, hh, hp, hl => by
    simp only [Links, nxt, prv] at hl ⊢
    rw [hx, hp y (List.mem_cons_self ..)]
    refine ⟨hl.1, hl.2.1, ?_⟩
    exact Links_congr r y (hn y (List.mem_cons_self ..)) (fun z hz => hn z (List.mem_cons_of_mem _ hz)) hh
      (fun z hz => hp z (List.mem_cons_of_mem _ hz)) hl.2.2

/-- first node after the members of `l`, as `alloc` / `add_to_free` read it -/
def firstI (l : List Nat) (h : Int) : Int :=
  match l with
  | [] => h
  | y :: _ => (y : Int)

/-- last node of `x :: l` -/
def lastI (x : Int) : List Nat → Int
  | [] => x
  | y :: r => lastI (y : Int) r

theorem Links_nxt {t : Tab} {h x : Int} {l : List Nat} (hl : Links t h x l) : nxt t h x = firstI l h := by
  cases l <;> exact hl.1

theorem lastI_mem (x : Int) (l : List Nat) : lastI x l = x ∨ ∃ y ∈ l, lastI x l = (y : Int) := by
  induction l generalizing x with
  | nil => exact Or.inl rfl
  | cons y r ih =>
    rcases ih (y : Int) with h | ⟨z, hz, h⟩
    · exact Or.inr ⟨y, List.mem_cons_self .., h⟩
    · exact Or.inr ⟨z, List.mem_cons_of_mem _ hz, h⟩

theorem firstI_mem (l : List Nat) (h : Int) : firstI l h = h ∨ ∃ y ∈ l, firstI l h = (y : Int) := by
  cases l with
  | nil => exact Or.inl rfl
  | cons y r => exact Or.inr ⟨y, List.mem_cons_self .., rfl⟩

/-- a stored link decodes to what was stored: a unit, or the head of the list being walked -/
theorem dl_lk {h x : Int} (hh : -128 ≤ h ∧ h < 0) (hx : x = h ∨ (0 ≤ x ∧ x ≤ MAX_UNITS)) : dl h (lk x) = x := by
  rcases hx with rfl | ⟨h0, h1⟩
  · exact dl_lk_head _ hh.1 hh.2
  · exact dl_lk_unit _ h0 h1

/-- The members of a list are units in range. -/
def Units (t : Tab) (l : List Nat) : Prop := ∀ y ∈ l, ((y : Nat) : Int) ≤ MAX_UNITS ∧ InR t (y : Int)

/-- **`__remove_from_free`** on the ghost list. -/
theorem Links_remove {t : Tab} {h : Int} (hh : -128 ≤ h ∧ h < 0) (hhR : InR t h) (u : Nat) (l2 : List Nat) :
    ∀ (l1 : List Nat) (x : Int), (x = h ∨ (0 ≤ x ∧ x ≤ MAX_UNITS)) → InR t x →
    Units t (l1 ++ u :: l2) → (l1 ++ u :: l2).Nodup → (∀ y ∈ l1 ++ u :: l2, (y : Int) ≠ x) →
    Links t h x (l1 ++ u :: l2) →
    nxt t h (u : Int) = firstI l2 h ∧ prv t h (u : Int) = lastI x l1 ∧
    Links (wPrev (wNext t (lastI x l1) (firstI l2 h)) (firstI l2 h) (lastI x l1)) h x (l1 ++ l2) := by
  intro l1
  induction l1 with
  | nil =>
    intro x hx hxR hU hnd hne hl
    simp only [List.nil_append] at hU hnd hne hl ⊢
    simp only [lastI]
    obtain ⟨h1, h2, h3⟩ := hl
    refine ⟨Links_nxt h3, h2, ?_⟩
    have hux : (u : Int) ≠ x := hne u (List.mem_cons_self ..)
    cases l2 with
    | nil =>
      simp only [firstI, Links, nxt, prv]
      have hR2 : InR (wNext t x h) h := by simpa using hhR
      rw [fNext_wPrev, fNext_wNext hxR, fPrev_wPrev hR2]
      simp only [if_true]
      exact ⟨dl_lk hh (Or.inl rfl), dl_lk hh hx⟩
    | cons y r =>
      obtain ⟨g1, g2, g3⟩ := h3
      have hyU := hU y (List.mem_cons_of_mem _ (List.mem_cons_self ..))
      have hyR : InR (wNext t x (y : Int)) (y : Int) := by simpa using hyU.2
      have hyx : (y : Int) ≠ x := hne y (List.mem_cons_of_mem _ (List.mem_cons_self ..))
      have hnd' : (y :: r).Nodup := (List.nodup_cons.mp hnd).2
      have hyr : y ∉ r := (List.nodup_cons.mp hnd').1
      simp only [firstI, Links, nxt, prv]
      rw [fNext_wPrev, fNext_wNext hxR, fPrev_wPrev hyR]
      simp only [if_true]
      refine ⟨dl_lk hh (Or.inr ⟨by omega, hyU.1⟩), dl_lk hh hx, ?_⟩
      apply Links_congr r (y : Int) _ _ _ _ g3
      · rw [fNext_wPrev, fNext_wNext hxR, if_neg hyx]
      · intro z hz
        have : (z : Int) ≠ x := hne z (List.mem_cons_of_mem _ (List.mem_cons_of_mem _ hz))
        rw [fNext_wPrev, fNext_wNext hxR, if_neg this]
      · have : h ≠ (y : Int) := by omega
        rw [fPrev_wPrev hyR, if_neg this, fPrev_wNext]
      · intro z hz
        have : (z : Int) ≠ (y : Int) := by
          intro e; exact hyr (Int.ofNat_inj.mp e ▸ hz)
        rw [fPrev_wPrev hyR, if_neg this, fPrev_wNext]
  | cons z l1 ih =>
    intro x hx hxR hU hnd hne hl
    simp only [List.cons_append] at hU hnd hne hl ⊢
    obtain ⟨h1, h2, h3⟩ := hl
    have hzU := hU z (List.mem_cons_self ..)
    have hnd' := (List.nodup_cons.mp hnd)
    have ihz := ih (z : Int) (Or.inr ⟨by omega, hzU.1⟩) hzU.2
      (fun y hy => hU y (List.mem_cons_of_mem _ hy)) hnd'.2
      (fun y hy e => hnd'.1 (Int.ofNat_inj.mp e ▸ hy)) h3
    obtain ⟨i1, i2, i3⟩ := ihz
    simp only [lastI]
    refine ⟨i1, i2, ?_⟩
    have hpR : InR t (lastI (z : Int) l1) := by
      rcases lastI_mem (z : Int) l1 with e | ⟨y, hy, e⟩
      · rw [e]; exact hzU.2
      · rw [e]; exact (hU y (List.mem_cons_of_mem _ (List.mem_append_left _ hy))).2
    have hpx : x ≠ lastI (z : Int) l1 := by
      rcases lastI_mem (z : Int) l1 with e | ⟨y, hy, e⟩
      · rw [e]; exact fun e' => hne z (List.mem_cons_self ..) e'.symm
      · rw [e]; exact fun e' => hne y (List.mem_cons_of_mem _ (List.mem_append_left _ hy)) e'.symm
    have hnR : InR (wNext t (lastI (z : Int) l1) (firstI l2 h)) (firstI l2 h) := by
      rcases firstI_mem l2 h with e | ⟨y, hy, e⟩
      · rw [e]; simpa using hhR
      · rw [e]; simpa using (hU y (List.mem_cons_of_mem _ (List.mem_append_right _ (List.mem_cons_of_mem _ hy)))).2
    have hzn : (z : Int) ≠ firstI l2 h := by
      rcases firstI_mem l2 h with e | ⟨y, hy, e⟩
      · rw [e]; omega
      · rw [e]; intro e'
        have : z = y := by omega
        subst this
        exact hnd'.1 (List.mem_append_right _ (List.mem_cons_of_mem _ hy))
    simp only [Links, nxt, prv]
    rw [fNext_wPrev, fNext_wNext hpR, if_neg hpx, fPrev_wPrev hnR, if_neg hzn, fPrev_wNext]
    exact ⟨h1, h2, i3⟩

/-- **`add_to_free`** (link part) on the ghost list: push at the front. -/
theorem Links_push {t : Tab} {h : Int} (hh : -128 ≤ h ∧ h < 0) (hhR : InR t h) (u : Nat)
    (huU : (u : Int) ≤ MAX_UNITS ∧ InR t (u : Int)) (l : List Nat) (hU : Units t l) (hnd : l.Nodup)
    (hu : u ∉ l) (hl : Links t h h l) :
    Links (wPrev (wPrev (wNext (wNext t (u : Int) (firstI l h)) h (u : Int)) (u : Int) h) (firstI l h) (u : Int))
      h h (u :: l) := by
  have huh : (u : Int) ≠ h := by omega
  have hhu : h ≠ (u : Int) := by omega
  cases l with
  | nil =>
    simp only [firstI, Links, nxt, prv, fNext_wPrev, fNext_wNext', fPrev_wPrev', fPrev_wNext, InR_wNext, InR_wPrev,
      hhR, huU.2, and_true, if_true, if_neg huh, if_neg hhu]
    exact ⟨dl_lk hh (Or.inr ⟨by omega, huU.1⟩), dl_lk hh (Or.inl rfl), dl_lk hh (Or.inl rfl),
      dl_lk hh (Or.inr ⟨by omega, huU.1⟩)⟩
  | cons y r =>
    obtain ⟨g1, g2, g3⟩ := hl
    have hyU := hU y (List.mem_cons_self ..)
    have hyu : (y : Int) ≠ (u : Int) := fun e => hu (Int.ofNat_inj.mp e ▸ List.mem_cons_self ..)
    have huy : (u : Int) ≠ (y : Int) := fun e => hyu e.symm
    have hyh : (y : Int) ≠ h := by omega
    have hhy : h ≠ (y : Int) := by omega
    have hyr : y ∉ r := (List.nodup_cons.mp hnd).1
    simp only [firstI, Links, nxt, prv, fNext_wPrev, fNext_wNext', fPrev_wPrev', fPrev_wNext, InR_wNext, InR_wPrev,
      hhR, huU.2, hyU.2, and_true, if_true, if_neg huh, if_neg hhu, if_neg hyu, if_neg huy]
    refine ⟨dl_lk hh (Or.inr ⟨by omega, huU.1⟩), dl_lk hh (Or.inl rfl), dl_lk hh (Or.inr ⟨by omega, hyU.1⟩),
      dl_lk hh (Or.inr ⟨by omega, huU.1⟩), ?_⟩
    apply Links_congr r (y : Int) _ _ _ _ g3
    · simp only [fNext_wPrev, fNext_wNext', hyu, hyh, false_and, if_false]
    · intro z hz
      have h1 : (z : Int) ≠ h := by omega
      have h2 : (z : Int) ≠ (u : Int) := fun e => hu (Int.ofNat_inj.mp e ▸ List.mem_cons_of_mem _ hz)
      simp only [fNext_wPrev, fNext_wNext', h1, h2, false_and, if_false]
    · simp only [fPrev_wPrev', fPrev_wNext, hhy, hhu, false_and, if_false]
    · intro z hz
      have h1 : (z : Int) ≠ (y : Int) := fun e => hyr (Int.ofNat_inj.mp e ▸ hz)
      have h2 : (z : Int) ≠ (u : Int) := fun e => hu (Int.ofNat_inj.mp e ▸ List.mem_cons_of_mem _ hz)
      simp only [fPrev_wPrev', fPrev_wNext, h1, h2, false_and, if_false]

/-- `add_to_free` as a pure function (the list is pushed at the front: see `Links_push`). -/
def pAddToFree (t : Tab) (h u : Int) : Tab :=
  wPrev (wPrev (wNext (wNext (pSetFree t u true) u (nxt t h h)) h u) u h) (nxt t h h) u

theorem addToFree_ok {t : Tab} {h u : Int} (debug : Bool) (hh : -t.heads ≤ h ∧ h < 0) (hhR : InR t h)
    (hu : 0 ≤ u ∧ u ≤ MAX_UNITS) (huR : InR t u) (h1 : fMulti t u = true → InR t (u + 1))
    (h2 : sizeOf t u > 1 → InR t (u + sizeOf t u - 1))
    (hn : (nxt t h h = h ∨ (0 ≤ nxt t h h ∧ nxt t h h ≤ MAX_UNITS)) ∧ InR t (nxt t h h)) :
    addToFree debug t h u = .ok (pAddToFree t h u) := by
  unfold addToFree pAddToFree
  have hm : (0 : Int) ≤ MAX_UNITS := by decide
  have hnr : -t.heads ≤ nxt t h h ∧ nxt t h h ≤ MAX_UNITS := by
    rcases hn.1 with e | e
    · rw [e]; omega
    · omega
  rw [setFree_ok huR h1 h2]
  simp only [bind, Except.bind]
  rw [getNext_ok (by simpa using hhR)]
  simp only [nxt_pSetFree]
  rw [setNext_ok (by simpa using huR) debug (by simpa using hnr)]
  simp only []
  rw [setNext_ok (by simpa using hhR) debug (by simp; omega)]
  simp only []
  rw [setPrev_ok (by simpa using huR) debug (by simp; omega)]
  simp only []
  rw [setPrev_ok (by simpa using hn.2) debug (by simp; omega)]

/-- `__remove_from_free` as a pure function (see `Links_remove`). -/
def pRemoveFromFree (t : Tab) (h u : Int) : Tab :=
  wPrev (wNext t (prv t h u) (nxt t h u)) (nxt t h u) (prv t h u)

theorem removeFromFree_ok {t : Tab} {h u : Int} (debug : Bool) (hh : -t.heads ≤ h ∧ h < 0) (huR : InR t u)
    (hn : (nxt t h u = h ∨ (0 ≤ nxt t h u ∧ nxt t h u ≤ MAX_UNITS)) ∧ InR t (nxt t h u))
    (hp : (prv t h u = h ∨ (0 ≤ prv t h u ∧ prv t h u ≤ MAX_UNITS)) ∧ InR t (prv t h u)) :
    removeFromFree debug t h u = .ok (pRemoveFromFree t h u) := by
  unfold removeFromFree pRemoveFromFree
  have hm : (0 : Int) ≤ MAX_UNITS := by decide
  have hnr : -t.heads ≤ nxt t h u ∧ nxt t h u ≤ MAX_UNITS := by
    rcases hn.1 with e | e
    · rw [e]; omega
    · omega
  have hpr : -t.heads ≤ prv t h u ∧ prv t h u ≤ MAX_UNITS := by
    rcases hp.1 with e | e
    · rw [e]; omega
    · omega
  rw [getNext_ok huR]
  simp only [bind, Except.bind]
  rw [getPrev_ok huR]
  simp only []
  rw [setNext_ok hp.2 debug hnr]
  simp only []
  rw [setPrev_ok (by simpa using hn.2) debug (by simpa using hpr)]

/-! ## the first-fit walk of `alloc` -/

theorem allocLoop_hit {t : Tab} {h : Int} (hh : h < 0) (size : Int) (y : Nat) (l2 : List Nat) :
    ∀ (l1 : List Nat) (fuel : Nat) (x : Int) (s : Int), Links t h x (l1 ++ y :: l2) → l1.length < fuel →
    InR t x → (∀ z ∈ l1 ++ y :: l2, InR t (z : Int) ∧ (fMulti t (z : Int) = true → InR t ((z : Int) + 1))) →
    (∀ z ∈ l1, sizeOf t (z : Int) < size) → size ≤ sizeOf t (y : Int) →
    allocLoop t h size fuel x s = .ok ((y : Int), sizeOf t (y : Int)) := by
  intro l1
  induction l1 with
  | nil =>
    intro fuel x s hl hf hxR hR hsm hy
    cases fuel with
    | zero => simp at hf
    | succ fuel =>
      simp only [List.nil_append] at hl hR
      have hyR := hR y (List.mem_cons_self ..)
      have hne : ((y : Int) != h) = true := by simp; omega
      have hns : ¬ sizeOf t (y : Int) < size := by omega
      simp only [allocLoop, bind, Except.bind, getNext_ok hxR, hl.1, hne, if_true, getSize_ok hyR.1 hyR.2,
        hns, if_false, pure, Except.pure]
  | cons z l1 ih =>
    intro fuel x s hl hf hxR hR hsm hy
    cases fuel with
    | zero => simp at hf
    | succ fuel =>
      simp only [List.cons_append] at hl hR
      have hzR := hR z (List.mem_cons_self ..)
      have hne : ((z : Int) != h) = true := by simp; omega
      have hzs : sizeOf t (z : Int) < size := hsm z (List.mem_cons_self ..)
      simp only [allocLoop, bind, Except.bind, getNext_ok hxR, hl.1, hne, if_true, getSize_ok hzR.1 hzR.2,
        hzs]
      exact ih fuel (z : Int) _ hl.2.2 (by simp at hf; omega) hzR.1
        (fun w hw => hR w (List.mem_cons_of_mem _ hw)) (fun w hw => hsm w (List.mem_cons_of_mem _ hw)) hy

theorem allocLoop_miss {t : Tab} {h : Int} (hh : h < 0) (size : Int) :
    ∀ (l : List Nat) (fuel : Nat) (x : Int) (s : Int), Links t h x l → l.length < fuel →
    InR t x → (∀ z ∈ l, InR t (z : Int) ∧ (fMulti t (z : Int) = true → InR t ((z : Int) + 1))) →
    (∀ z ∈ l, sizeOf t (z : Int) < size) →
    ∃ s', allocLoop t h size fuel x s = .ok (h, s') := by
  intro l
  induction l with
  | nil =>
    intro fuel x s hl hf hxR hR hsm
    cases fuel with
    | zero => simp at hf
    | succ fuel =>
      have hne : (h != h) = false := by simp
      refine ⟨s, ?_⟩
      simp only [allocLoop, bind, Except.bind, getNext_ok hxR, hl.1, hne, Bool.false_eq_true, if_false, pure,
        Except.pure]
  | cons z l ih =>
    intro fuel x s hl hf hxR hR hsm
    cases fuel with
    | zero => simp at hf
    | succ fuel =>
      have hzR := hR z (List.mem_cons_self ..)
      have hne : ((z : Int) != h) = true := by simp; omega
      have hzs : sizeOf t (z : Int) < size := hsm z (List.mem_cons_self ..)
      simp only [allocLoop, bind, Except.bind, getNext_ok hxR, hl.1, hne, if_true, getSize_ok hzR.1 hzR.2,
        hzs]
      exact ih fuel (z : Int) _ hl.2.2 (by simp at hf; omega) hzR.1
        (fun w hw => hR w (List.mem_cons_of_mem _ hw)) (fun w hw => hsm w (List.mem_cons_of_mem _ hw))

@[simp] theorem heads_pAddToFree (t : Tab) (h u : Int) : (pAddToFree t h u).heads = t.heads := by simp [pAddToFree]
@[simp] theorem heads_pRemoveFromFree (t : Tab) (h u : Int) : (pRemoveFromFree t h u).heads = t.heads := by
  simp [pRemoveFromFree]

end Mmtk.FreeList
