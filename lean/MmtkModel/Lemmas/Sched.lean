import MmtkModel.Model.Sched
import Mathlib.Tactic.SplitIfs
/-!
# Frame lemmas and counting lemmas for the scheduler model (used by Props/C14, C15, C16, C11)
-/
namespace Mmtk.Sched

/-- the part of the state `on_last_parked` never touches -/
structure Frame (s s' : State) : Prop where
  pc : s'.pc = s.pc
  buf : s'.buf = s.buf
  desig : s'.desig = s.desig
  parked : s'.parked = s.parked
  creation : s'.creation = s.creation
  stops : s'.stops = s.stops
  started : s'.started = s.started
  ended : s'.ended = s.ended

theorem Frame.refl (s : State) : Frame s s := ⟨rfl, rfl, rfl, rfl, rfl, rfl, rfl, rfl⟩
theorem Frame.trans {a b c : State} (h1 : Frame a b) (h2 : Frame b c) : Frame a c :=
  ⟨h2.pc.trans h1.pc, h2.buf.trans h1.buf, h2.desig.trans h1.desig, h2.parked.trans h1.parked,
   h2.creation.trans h1.creation, h2.stops.trans h1.stops, h2.started.trans h1.started, h2.ended.trans h1.ended⟩

theorem frame_emit (s : State) (e : SubEv) : Frame s (emit s e) := ⟨rfl, rfl, rfl, rfl, rfl, rfl, rfl, rfl⟩
theorem frame_setBkt (s : State) (b : Nat) (k : Bucket) : Frame s (setBkt s b k) := ⟨rfl, rfl, rfl, rfl, rfl, rfl, rfl, rfl⟩
theorem frame_openBkt (s : State) (b : Nat) : Frame s (openBkt s b) := ⟨rfl, rfl, rfl, rfl, rfl, rfl, rfl, rfl⟩
theorem frame_closeBkt (s : State) (b : Nat) : Frame s (closeBkt s b) := ⟨rfl, rfl, rfl, rfl, rfl, rfl, rfl, rfl⟩

theorem frame_takeSentinel (s : State) (b : Nat) : Frame s (takeSentinel s b) := by
  unfold takeSentinel
  split <;> exact ⟨rfl, rfl, rfl, rfl, rfl, rfl, rfl, rfl⟩

theorem frame_schedLoop (bs : List Nat) : ∀ (s : State) (acc : Bool), Frame s (schedSentinelsLoop s bs acc).1 := by
  induction bs with
  | nil => intro s acc; exact Frame.refl s
  | cons b bs ih =>
    intro s acc
    unfold schedSentinelsLoop
    split
    · exact (frame_takeSentinel s b).trans (ih _ _)
    · exact ih _ _

theorem frame_schedSentinels (c : Cfg) (s : State) : Frame s (schedSentinels c s).1 :=
  (frame_schedLoop _ s false).trans (frame_emit _ _)

theorem frame_updateLoop (c : Cfg) (bs : List Nat) : ∀ (s : State) (u : Bool), Frame s (updateLoop c s bs u).1 := by
  induction bs with
  | nil => intro s u; exact Frame.refl s
  | cons b bs ih =>
    intro s u
    unfold updateLoop
    split
    · exact ih _ _
    · split
      · exact ih _ _
      · split
        · split
          · exact frame_openBkt s b
          · split
            · exact (frame_openBkt s b).trans (frame_takeSentinel _ b)
            · exact ((frame_openBkt s b).trans (frame_takeSentinel _ b)).trans (ih _ _)
        · exact ih _ _

theorem frame_updateBuckets (c : Cfg) (s : State) : Frame s (updateBuckets c s).1 :=
  (frame_updateLoop c _ s false).trans (frame_emit _ _)

theorem frame_closeLoop (c : Cfg) (bs : List Nat) : ∀ (s s' : State), closeStwLoop c s bs = some s' → Frame s s' := by
  induction bs with
  | nil => intro s s' h; simp [closeStwLoop] at h; subst h; exact Frame.refl s
  | cons b bs ih =>
    intro s s' h
    unfold closeStwLoop at h
    split at h
    · split at h
      · exact (frame_closeBkt s b).trans (ih _ _ h)
      · cases h
    · exact ih _ _ h

theorem frame_schedConcurrent (c : Cfg) (s : State) : Frame s (schedConcurrent c s) := by
  unfold schedConcurrent
  split <;> exact ⟨rfl, rfl, rfl, rfl, rfl, rfl, rfl, rfl⟩

theorem frame_onGcFinished (c : Cfg) (s s' : State) (h : onGcFinished c s = some s') : Frame s s' := by
  unfold onGcFinished at h
  split at h
  · cases h
  · split at h
    · cases h
    · split at h
      · cases h
      · rename_i s1 hc
        injection h with h; subst h
        exact ((frame_emit s _).trans (frame_closeLoop c _ _ _ hc)).trans
          ((frame_schedConcurrent c s1).trans ⟨rfl, rfl, rfl, rfl, rfl, rfl, rfl, rfl⟩)

theorem frame_respond (c : Cfg) (s s' : State) (tag : Nat) (r : LPR) (h : respond c s tag = some (s', r)) : Frame s s' := by
  unfold respond at h
  split at h
  · cases h
  · split at h
    · injection h with h; injection h with h1 h2; subst h1; exact ⟨rfl, rfl, rfl, rfl, rfl, rfl, rfl, rfl⟩
    · split at h
      · injection h with h; injection h with h1 h2; subst h1; exact ⟨rfl, rfl, rfl, rfl, rfl, rfl, rfl, rfl⟩
      · split at h
        · injection h with h; injection h with h1 h2; subst h1; exact ⟨rfl, rfl, rfl, rfl, rfl, rfl, rfl, rfl⟩
        · injection h with h; injection h with h1 h2; subst h1; exact Frame.refl s

theorem frame_completeGc (s : State) : Frame s (completeGc s) := ⟨rfl, rfl, rfl, rfl, rfl, rfl, rfl, rfl⟩

theorem frame_onLastParked (c : Cfg) (s s' : State) (tag : Nat) (r : LPR)
    (h : onLastParked c s tag = some (s', r)) : Frame s s' := by
  unfold onLastParked at h
  split at h
  · exact frame_respond c s s' tag r h
  · split at h
    · cases h
    · split at h
      · cases h
      · split at h
        · injection h with h; injection h with h1 h2; subst h1; exact Frame.refl s
        · split at h
          · injection h with h; injection h with h1 h2; subst h1; exact frame_schedSentinels c s
          · split at h
            · injection h with h; injection h with h1 h2; subst h1
              exact (frame_schedSentinels c s).trans (frame_updateBuckets c _)
            · split at h
              · cases h
              · rename_i s3 hg
                have f3 := ((frame_schedSentinels c s).trans (frame_updateBuckets c _)).trans (frame_onGcFinished c _ _ hg)
                split at h
                · injection h with h; injection h with h1 h2; subst h1; exact f3.trans (frame_completeGc s3)
                · exact (f3.trans (frame_completeGc s3)).trans (frame_respond c _ _ tag r h)
  · cases h

/-! ## counting workers -/

theorem countW_succ (n : Nat) (f : Nat → Bool) : countW (n+1) f = countW n f + (if f n then 1 else 0) := by
  unfold countW
  rw [List.range_succ, List.filter_append, List.length_append]
  by_cases h : f n <;> simp [h]

theorem countW_congr (n : Nat) (f g : Nat → Bool) (h : ∀ x, x < n → f x = g x) : countW n f = countW n g := by
  induction n with
  | zero => rfl
  | succ n ih =>
    rw [countW_succ, countW_succ, ih (fun x hx => h x (Nat.lt_succ_of_lt hx)), h n (Nat.lt_succ_self n)]

theorem countW_le (n : Nat) (f : Nat → Bool) : countW n f ≤ n := by
  induction n with
  | zero => simp [countW]
  | succ n ih => rw [countW_succ]; split <;> omega

/-- changing `f` at one point `w < n` -/
theorem countW_update (n : Nat) (f : Nat → Bool) (w : Nat) (v : Bool) (hw : w < n) :
    countW n (fun x => if x = w then v else f x) + (if f w then 1 else 0) = countW n f + (if v then 1 else 0) := by
  induction n with
  | zero => omega
  | succ n ih =>
    rw [countW_succ, countW_succ]
    by_cases hwn : w = n
    · subst hwn
      have : countW w (fun x => if x = w then v else f x) = countW w f :=
        countW_congr w _ _ (fun x hx => by simp [Nat.ne_of_lt hx])
      rw [this]; simp; omega
    · have hlt : w < n := by omega
      have := ih hlt
      have hn : (n = w) = False := by simp; omega
      simp only [hn, if_false]
      omega

theorem countW_all (n : Nat) (f : Nat → Bool) (h : countW n f = n) : ∀ x, x < n → f x = true := by
  induction n with
  | zero => intro x hx; omega
  | succ n ih =>
    rw [countW_succ] at h
    have hle := countW_le n f
    intro x hx
    by_cases hfn : f n
    · simp [hfn] at h
      by_cases hxn : x = n
      · subst hxn; exact hfn
      · exact ih h x (by omega)
    · simp [hfn] at h; omega

theorem countW_zero (n : Nat) (f : Nat → Bool) (h : ∀ x, x < n → f x = false) : countW n f = 0 := by
  induction n with
  | zero => rfl
  | succ n ih => rw [countW_succ, ih (fun x hx => h x (Nat.lt_succ_of_lt hx)), h n (Nat.lt_succ_self n)]; simp

/-- if all but `w` are counted, every other index satisfies `f` -/
theorem countW_all_but (n : Nat) (f : Nat → Bool) (w : Nat) (hw : w < n) (hfw : f w = false)
    (h : countW n f + 1 = n) : ∀ x, x < n → x ≠ w → f x = true := by
  have h2 : countW n (fun x => if x = w then true else f x) = countW n f + 1 := by
    have := countW_update n f w true hw
    rw [hfw] at this
    simpa using this
  have hall := countW_all n (fun x => if x = w then true else f x) (by omega)
  intro x hx hxw
  have := hall x hx
  simpa [hxw] using this


def parkedCount (c : Cfg) (s : State) : Nat := countW c.n (fun x => (s.pc x).isParked)
def surrCount (c : Cfg) (s : State) : Nat := countW c.n (fun x => decide (s.pc x = .surrendered))

theorem parkedCount_setPc (c : Cfg) (s : State) (w : Nat) (p : PC) (hw : w < c.n) :
    parkedCount c (setPc s w p) + (if (s.pc w).isParked then 1 else 0)
      = parkedCount c s + (if p.isParked then 1 else 0) := by
  unfold parkedCount
  rw [← countW_update c.n (fun x => (s.pc x).isParked) w p.isParked hw]
  congr 1
  apply countW_congr
  intro x _
  simp only [setPc]
  split <;> rfl

theorem surrCount_setPc (c : Cfg) (s : State) (w : Nat) (p : PC) (hw : w < c.n) :
    surrCount c (setPc s w p) + (if s.pc w = .surrendered then 1 else 0)
      = surrCount c s + (if p = .surrendered then 1 else 0) := by
  unfold surrCount
  have := countW_update c.n (fun x => decide (s.pc x = .surrendered)) w (decide (p = .surrendered)) hw
  simp only [decide_eq_true_eq] at this
  rw [← this]
  congr 1
  apply countW_congr
  intro x _
  simp only [setPc]
  split <;> rfl

theorem parkedCount_congr (c : Cfg) (s s' : State) (h : ∀ x, x < c.n → (s'.pc x).isParked = (s.pc x).isParked) :
    parkedCount c s' = parkedCount c s := countW_congr _ _ _ h

theorem surrCount_congr (c : Cfg) (s s' : State)
    (h : ∀ x, x < c.n → (s'.pc x = .surrendered ↔ s.pc x = .surrendered)) :
    surrCount c s' = surrCount c s := by
  apply countW_congr
  intro x hx
  simp only [decide_eq_decide]
  exact h x hx

theorem notifyAll_parked (s : State) (x : Nat) : ((notifyAll s).pc x).isParked = (s.pc x).isParked := by
  simp only [notifyAll]
  split
  · rename_i h; rw [h]; rfl
  · rfl

theorem notifyAll_surr (s : State) (x : Nat) : ((notifyAll s).pc x = .surrendered ↔ s.pc x = .surrendered) := by
  simp only [notifyAll]
  split
  · rename_i h; rw [h]; simp
  · exact Iff.rfl


/-- counters agree with the program counters -/
structure InvA (c : Cfg) (s : State) : Prop where
  parked_eq : s.parked = parkedCount c s
  pool : ∀ k, s.creation = .surrendered k → k = surrCount c s
  spawned : s.creation = .spawned → surrCount c s = 0

theorem parkedCount_pc (c : Cfg) {s s' : State} (h : s'.pc = s.pc) : parkedCount c s' = parkedCount c s := by
  unfold parkedCount; rw [h]
theorem surrCount_pc (c : Cfg) {s s' : State} (h : s'.pc = s.pc) : surrCount c s' = surrCount c s := by
  unfold surrCount; rw [h]

theorem invA_same {c : Cfg} {s s' : State} (h : InvA c s) (hpc : s'.pc = s.pc) (hp : s'.parked = s.parked)
    (hc : s'.creation = s.creation) : InvA c s' :=
  ⟨by rw [hp, parkedCount_pc c hpc]; exact h.parked_eq,
   fun k hk => by rw [surrCount_pc c hpc]; exact h.pool k (hc ▸ hk),
   fun hk => by rw [surrCount_pc c hpc]; exact h.spawned (hc ▸ hk)⟩

/-- worker `w` moves between two program points that are neither parked nor surrendered -/
theorem invA_move {c : Cfg} {s s' : State} {w : Nat} {p : PC} (h : InvA c s) (hw : w < c.n)
    (h1 : (s.pc w).isParked = false) (h2 : p.isParked = false) (h3 : s.pc w ≠ .surrendered) (h4 : p ≠ .surrendered)
    (hpc : s'.pc = (setPc s w p).pc) (hp : s'.parked = s.parked) (hc : s'.creation = s.creation) : InvA c s' := by
  have e1 := parkedCount_setPc c s w p hw
  have e2 := surrCount_setPc c s w p hw
  simp only [h1, h2, h3, h4, if_false, Bool.false_eq_true] at e1 e2
  have e1' : parkedCount c s' = parkedCount c s := by rw [parkedCount_pc c hpc]; omega
  have e2' : surrCount c s' = surrCount c s := by rw [surrCount_pc c hpc]; omega
  exact ⟨by rw [hp, e1']; exact h.parked_eq, fun k hk => by rw [e2']; exact h.pool k (hc ▸ hk),
    fun hk => by rw [e2']; exact h.spawned (hc ▸ hk)⟩

theorem invA_notifyAll {c : Cfg} {s : State} (h : InvA c s) : InvA c (notifyAll s) :=
  ⟨by rw [parkedCount_congr c s (notifyAll s) (fun x _ => notifyAll_parked s x)]; exact h.parked_eq,
   fun k hk => by rw [surrCount_congr c s (notifyAll s) (fun x _ => notifyAll_surr s x)]; exact h.pool k hk,
   fun hk => by rw [surrCount_congr c s (notifyAll s) (fun x _ => notifyAll_surr s x)]; exact h.spawned hk⟩

/-- `waiting → woken` keeps both counts -/
theorem invA_wake {c : Cfg} {s : State} {x : Nat} (h : InvA c s) (hx : x < c.n) (hw : s.pc x = .waiting) :
    InvA c (setPc s x .woken) := by
  have e1 := parkedCount_setPc c s x .woken hx
  have e2 := surrCount_setPc c s x .woken hx
  rw [hw] at e1 e2
  simp [PC.isParked] at e1 e2
  exact ⟨by rw [e1]; exact h.parked_eq, fun k hk => by rw [e2]; exact h.pool k hk, fun hk => by rw [e2]; exact h.spawned hk⟩

theorem invA_notifyOne {c : Cfg} {s s' : State} {x : Option Nat} (h : InvA c s) (hs : notifyOne c s x = some s') :
    InvA c s' := by
  unfold notifyOne at hs
  split at hs
  · split at hs
    · rename_i hh; injection hs with hs; subst hs; exact invA_wake h hh.1 hh.2
    · cases hs
  · split at hs
    · injection hs with hs; subst hs; exact h
    · cases hs


theorem afterUnpark_pc (s : State) (w : Nat) :
    ∃ p, (p = .exited ∨ p = .polling []) ∧ afterUnpark s w = setPc s w p := by
  unfold afterUnpark
  split
  · exact ⟨_, Or.inl rfl, rfl⟩
  · exact ⟨_, Or.inl rfl, rfl⟩
  · exact ⟨_, Or.inr rfl, rfl⟩

/-- counts after `setPc t w p`, where `t` agrees with `s` on who is parked / surrendered and `w` is
neither in `s` -/
theorem counts_setPc_from (c : Cfg) (s t : State) (w : Nat) (p : PC) (hw : w < c.n)
    (hP : ∀ x, (t.pc x).isParked = (s.pc x).isParked)
    (hS : ∀ x, (t.pc x = .surrendered ↔ s.pc x = .surrendered))
    (h1 : (s.pc w).isParked = false) (h3 : s.pc w ≠ .surrendered) :
    parkedCount c (setPc t w p) = parkedCount c s + (if p.isParked then 1 else 0) ∧
    surrCount c (setPc t w p) = surrCount c s + (if p = .surrendered then 1 else 0) := by
  have e1 := parkedCount_setPc c t w p hw
  have e2 := surrCount_setPc c t w p hw
  have h1' : (t.pc w).isParked = false := by rw [hP]; exact h1
  have h3' : t.pc w ≠ .surrendered := fun e => h3 ((hS w).1 e)
  simp only [h1', h3', if_false, Bool.false_eq_true] at e1 e2
  rw [parkedCount_congr c s t (fun x _ => hP x)] at e1
  rw [surrCount_congr c s t (fun x _ => hS x)] at e2
  constructor <;> omega

theorem step_invA (c : Cfg) (s s' : State) (a : Act) (h : InvA c s) (hs : step c s a = some s') : InvA c s' := by
  cases a with
  | observeEmpty w k =>
    simp only [step] at hs
    split at hs
    · rename_i seen hpc
      split at hs
      · rename_i hg; injection hs with hs; subst hs
        exact invA_move h hg.1 (by rw [hpc]; rfl) rfl (by rw [hpc]; simp) (by simp) rfl rfl rfl
      · cases hs
    · cases hs
  | pollBucket w b p =>
    simp only [step] at hs
    split at hs
    · rename_i seen hpc
      split at hs
      · rename_i hg; injection hs with hs; subst hs
        exact invA_move (s := s) h hg.1 (by rw [hpc]; rfl) rfl (by rw [hpc]; simp) (by simp) rfl rfl rfl
      · cases hs
    · cases hs
  | batchMove w b p =>
    simp only [step] at hs
    split at hs
    · split at hs
      · injection hs with hs; subst hs; exact invA_same h rfl rfl rfl
      · cases hs
    · rename_i seen hpc
      split at hs
      · rename_i hg; injection hs with hs; subst hs
        exact invA_move (s := s) h hg.1 (by rw [hpc]; rfl) rfl (by rw [hpc]; simp) (by simp) rfl rfl rfl
      · cases hs
    · cases hs
  | popLocal w p =>
    simp only [step] at hs
    split at hs
    · rename_i seen hpc
      split at hs
      · rename_i hg; injection hs with hs; subst hs
        exact invA_move (s := s) h hg.1 (by rw [hpc]; rfl) rfl (by rw [hpc]; simp) (by simp) rfl rfl rfl
      · cases hs
    · cases hs
  | popDesig w p =>
    simp only [step] at hs
    split at hs
    · rename_i seen hpc
      split at hs
      · rename_i hg; injection hs with hs; subst hs
        exact invA_move (s := s) h hg.1 (by rw [hpc]; rfl) rfl (by rw [hpc]; simp) (by simp) rfl rfl rfl
      · cases hs
    · cases hs
  | steal w v p =>
    simp only [step] at hs
    split at hs
    · rename_i seen hpc
      split at hs
      · rename_i hg; injection hs with hs; subst hs
        exact invA_move (s := s) h hg.1 (by rw [hpc]; rfl) rfl (by rw [hpc]; simp) (by simp) rfl rfl rfl
      · cases hs
    · cases hs
  | pollMiss w =>
    simp only [step] at hs
    split at hs
    · rename_i seen hpc
      split at hs
      · rename_i hg; injection hs with hs; subst hs
        exact invA_move (s := s) h hg.1 (by rw [hpc]; rfl) rfl (by rw [hpc]; simp) (by simp) rfl rfl rfl
      · cases hs
    · cases hs
  | push w b tag =>
    simp only [step] at hs
    split at hs
    · injection hs with hs; subst hs; exact invA_same h rfl rfl rfl
    · cases hs
  | pushLocal w b tag =>
    simp only [step] at hs
    split at hs
    · injection hs with hs; subst hs; exact invA_same h rfl rfl rfl
    · cases hs
  | pushDesig w x tag =>
    simp only [step] at hs
    split at hs
    · injection hs with hs; subst hs; exact invA_same h rfl rfl rfl
    · cases hs
  | setSentinel w b tag =>
    simp only [step] at hs
    split at hs
    · injection hs with hs; subst hs; exact invA_same h rfl rfl rfl
    · cases hs
  | bucketNotifyOne w b x =>
    simp only [step] at hs
    split at hs
    · exact invA_notifyOne h hs
    · cases hs
  | bucketNotifyAll w b =>
    simp only [step] at hs
    split at hs
    · injection hs with hs; subst hs; exact invA_notifyAll h
    · cases hs
  | setEnabled w b v =>
    simp only [step] at hs
    split at hs
    · injection hs with hs; subst hs; exact invA_same h rfl rfl rfl
    · cases hs
  | stopAll w =>
    simp only [step] at hs
    split at hs
    · injection hs with hs; subst hs; exact invA_same h rfl rfl rfl
    · cases hs
  | clearRequest w =>
    simp only [step] at hs
    split at hs
    · injection hs with hs; subst hs; exact invA_same h rfl rfl rfl
    · cases hs
  | openFirst w b =>
    simp only [step] at hs
    split at hs
    · injection hs with hs; subst hs; exact invA_same h rfl rfl rfl
    · cases hs
  | wakeAll w =>
    simp only [step] at hs
    split at hs
    · injection hs with hs; subst hs; exact invA_notifyAll h
    · cases hs
  | execEnd w =>
    simp only [step] at hs
    split at hs
    · rename_i p hpc
      split at hs
      · rename_i hg; injection hs with hs; subst hs
        exact invA_move (s := s) h hg (by rw [hpc]; rfl) rfl (by rw [hpc]; simp) (by simp) rfl rfl rfl
      · cases hs
    · cases hs
  | park w tag =>
    simp only [step] at hs
    split at hs
    · rename_i hg
      obtain ⟨hw, hpc, hlt⟩ := hg
      have hnp : (s.pc w).isParked = false := by rw [hpc]; rfl
      have hns : s.pc w ≠ .surrendered := by rw [hpc]; simp
      split at hs
      · -- last parked
        split at hs
        · cases hs
        · rename_i s1 hl
          have f := frame_onLastParked c _ _ _ _ hl
          injection hs with hs; subst hs
          obtain ⟨q1, q2⟩ := counts_setPc_from c s s1 w .waiting hw (fun x => by rw [f.pc]) (fun x => by rw [f.pc]) hnp hns
          simp [PC.isParked] at q1 q2
          refine ⟨?_, fun k hk => ?_, fun hk => ?_⟩
          · show s1.parked = _; rw [q1, f.parked]; show s.parked + 1 = _; rw [h.parked_eq]
          · rw [q2]; exact h.pool k (f.creation ▸ hk)
          · rw [q2]; exact h.spawned (f.creation ▸ hk)
        · rename_i s1 hl
          have f := frame_onLastParked c _ _ _ _ hl
          injection hs with hs; subst hs
          obtain ⟨p, hp, he⟩ := afterUnpark_pc { s1 with parked := s1.parked - 1 } w
          rw [he]
          have hp1 : p.isParked = false := by rcases hp with rfl | rfl <;> rfl
          have hp2 : p ≠ .surrendered := by rcases hp with rfl | rfl <;> simp
          obtain ⟨q1, q2⟩ := counts_setPc_from c s s1 w p hw (fun x => by rw [f.pc]) (fun x => by rw [f.pc]) hnp hns
          simp [hp1, hp2] at q1 q2
          refine ⟨?_, fun k hk => ?_, fun hk => ?_⟩
          · show s1.parked - 1 = parkedCount c (setPc s1 w p)
            rw [q1, f.parked]; show s.parked + 1 - 1 = _; rw [← h.parked_eq]; omega
          · show k = surrCount c (setPc s1 w p); rw [q2]; exact h.pool k (f.creation ▸ hk)
          · show surrCount c (setPc s1 w p) = 0; rw [q2]; exact h.spawned (f.creation ▸ hk)
        · rename_i s1 hl
          have f := frame_onLastParked c _ _ _ _ hl
          injection hs with hs; subst hs
          obtain ⟨p, hp, he⟩ := afterUnpark_pc { notifyAll s1 with parked := (notifyAll s1).parked - 1 } w
          rw [he]
          have hp1 : p.isParked = false := by rcases hp with rfl | rfl <;> rfl
          have hp2 : p ≠ .surrendered := by rcases hp with rfl | rfl <;> simp
          obtain ⟨q1, q2⟩ := counts_setPc_from c s (notifyAll s1) w p hw
            (fun x => by rw [notifyAll_parked, f.pc]) (fun x => by rw [notifyAll_surr, f.pc]) hnp hns
          simp [hp1, hp2] at q1 q2
          refine ⟨?_, fun k hk => ?_, fun hk => ?_⟩
          · show s1.parked - 1 = parkedCount c (setPc (notifyAll s1) w p)
            rw [q1, f.parked]; show s.parked + 1 - 1 = _; rw [← h.parked_eq]; omega
          · show k = surrCount c (setPc (notifyAll s1) w p); rw [q2]; exact h.pool k (f.creation ▸ hk)
          · show surrCount c (setPc (notifyAll s1) w p) = 0; rw [q2]; exact h.spawned (f.creation ▸ hk)
      · injection hs with hs; subst hs
        obtain ⟨q1, q2⟩ := counts_setPc_from c s s w .waiting hw (fun x => rfl) (fun x => Iff.rfl) hnp hns
        simp [PC.isParked] at q1 q2
        refine ⟨?_, fun k hk => ?_, fun hk => ?_⟩
        · show s.parked + 1 = parkedCount c (setPc s w .waiting); rw [q1, h.parked_eq]
        · show k = surrCount c (setPc s w .waiting); rw [q2]; exact h.pool k hk
        · show surrCount c (setPc s w .waiting) = 0; rw [q2]; exact h.spawned hk
    · cases hs
  | spurious w =>
    simp only [step] at hs
    split at hs
    · rename_i hg; injection hs with hs; subst hs; exact invA_wake h hg.1 hg.2
    · cases hs
  | wake w =>
    simp only [step] at hs
    split at hs
    · rename_i hg
      obtain ⟨hw, hpc, hpos⟩ := hg
      injection hs with hs; subst hs
      obtain ⟨p, hp, he⟩ := afterUnpark_pc { s with parked := s.parked - 1 } w
      rw [he]
      have hp1 : p.isParked = false := by rcases hp with rfl | rfl <;> rfl
      have hp2 : p ≠ .surrendered := by rcases hp with rfl | rfl <;> simp
      have q1 := parkedCount_setPc c s w p hw
      have q2 := surrCount_setPc c s w p hw
      have hwk : PC.woken.isParked = true := rfl
      simp only [hpc, hwk, hp1, if_true, if_false, Bool.false_eq_true] at q1
      simp only [hpc, hp2, if_false] at q2
      simp at q2
      refine ⟨?_, fun k hk => ?_, fun hk => ?_⟩
      · show s.parked - 1 = parkedCount c (setPc s w p); rw [h.parked_eq]; omega
      · show k = surrCount c (setPc s w p); rw [q2]; exact h.pool k hk
      · show surrCount c (setPc s w p) = 0; rw [q2]; exact h.spawned hk
    · cases hs
  | surrender w =>
    simp only [step] at hs
    split at hs
    · rename_i k hcr
      split at hs
      · rename_i hg
        obtain ⟨hw, hpc⟩ := hg
        have q1 := parkedCount_setPc c s w .surrendered hw
        have q2 := surrCount_setPc c s w .surrendered hw
        simp only [hpc, PC.isParked, if_false, Bool.false_eq_true] at q1
        simp [hpc] at q2
        have hk := h.pool k hcr
        split at hs <;> (injection hs with hs; subst hs)
        · refine ⟨?_, fun k' hk' => ?_, fun hk' => ?_⟩
          · show s.parked = parkedCount c (setPc s w .surrendered); rw [h.parked_eq]; omega
          · have : k' = k + 1 := by simp at hk'; omega
            show k' = surrCount c (setPc s w .surrendered); omega
          · simp at hk'
        · refine ⟨?_, fun k' hk' => ?_, fun hk' => ?_⟩
          · show s.parked = parkedCount c (setPc s w .surrendered); rw [h.parked_eq]; omega
          · have : k' = k + 1 := by simp at hk'; omega
            show k' = surrCount c (setPc s w .surrendered); omega
          · simp at hk'
      · cases hs
    · cases hs
  | requestFlag =>
    simp only [step] at hs
    split at hs <;> (injection hs with hs; subst hs)
    · exact h
    · exact invA_same h rfl rfl rfl
  | makeRequest g x =>
    simp only [step] at hs
    have hc : InvA c (consumePending s g) := by
      unfold consumePending; split
      · exact invA_same h rfl rfl rfl
      · exact h
    split at hs
    · cases hs
    · split at hs
      · split at hs
        · injection hs with hs; subst hs; exact hc
        · cases hs
      · refine invA_notifyOne (s := setRequested (consumePending s g) g true) ?_ hs
        cases g <;> exact invA_same hc rfl rfl rfl
  | mutPush b tag =>
    simp only [step] at hs
    split at hs
    · injection hs with hs; subst hs; exact invA_same h rfl rfl rfl
    · cases hs
  | mutNotifyOne b x =>
    simp only [step] at hs
    split at hs
    · exact invA_notifyOne h hs
    · cases hs
  | initSetEnabled b v =>
    simp only [step] at hs
    split at hs
    · injection hs with hs; subst hs; exact invA_same h rfl rfl rfl
    · cases hs
  | prepareSurrender =>
    simp only [step] at hs
    split at hs
    · rename_i hcr; injection hs with hs; subst hs
      exact ⟨h.parked_eq, fun k hk => by simp at hk; subst hk; exact (h.spawned hcr).symm, fun hk => by simp at hk⟩
    · cases hs
  | respawn =>
    simp only [step] at hs
    split at hs
    · rename_i k hcr
      split at hs
      · rename_i hk; injection hs with hs; subst hs
        have hsc : surrCount c s = c.n := by rw [← hk]; exact (h.pool k hcr).symm
        have hall := countW_all c.n _ hsc
        have hz : parkedCount c s = 0 := by
          apply countW_zero; intro x hx
          have := hall x hx
          rw [decide_eq_true_eq] at this; rw [this]; rfl
        refine ⟨?_, fun k' hk' => by simp at hk', fun _ => ?_⟩
        · show s.parked = _
          rw [h.parked_eq, hz]; symm
          apply countW_zero; intro x hx; simp [hx]; rfl
        · apply countW_zero; intro x hx; simp [hx]
      · cases hs
    · cases hs


theorem init_invA (c : Cfg) : InvA c (init c) := by
  refine ⟨?_, fun k hk => by simp [init] at hk, fun _ => ?_⟩
  · show 0 = _; symm; apply countW_zero; intro x _; rfl
  · apply countW_zero; intro x _; simp [init]

theorem exec_some_induct (c : Cfg) (P : State → Prop)
    (hstep : ∀ s s' a, P s → step c s a = some s' → P s')
    (run : List Act) : ∀ s s', P s → exec c s run = some s' → P s' := by
  induction run with
  | nil => intro s s' h e; simp [exec] at e; subst e; exact h
  | cons a as ih =>
    intro s s' h e
    simp only [exec] at e
    split at e
    · rename_i s1 hs; exact ih s1 s' (hstep s s1 a h hs) e
    · cases e

theorem reachable_invA {c : Cfg} {s : State} (h : Reachable c s) : InvA c s := by
  obtain ⟨run, hr⟩ := h
  exact exec_some_induct c (InvA c) (fun s s' a => step_invA c s s' a) run _ _ (init_invA c) hr

/-! ## no lost request -/

def AllWaiting (c : Cfg) (s : State) : Prop := ∀ x, x < c.n → s.pc x = .waiting

/-- if every worker waits, nothing is requested and no goal is current -/
def InvB (c : Cfg) (s : State) : Prop := AllWaiting c s → (anyRequested s = false ∧ s.current = none)

theorem invB_nonwaiting {c : Cfg} {s' : State} {w : Nat} (hw : w < c.n) (h : s'.pc w ≠ .waiting) : InvB c s' :=
  fun ha => absurd (ha w hw) h

theorem invB_same {c : Cfg} {s s' : State} (h : InvB c s) (hpc : s'.pc = s.pc) (hr : anyRequested s' = anyRequested s)
    (hc : s'.current = s.current) : InvB c s' := by
  intro ha; rw [hr, hc]; apply h; intro x hx; rw [← hpc]; exact ha x hx

theorem respond_parkSelf {c : Cfg} {s s' : State} {tag : Nat} (h : respond c s tag = some (s', .parkSelf)) :
    anyRequested s' = false ∧ s'.current = none := by
  unfold respond at h
  split at h
  · cases h
  · rename_i hc
    split at h
    · injection h with h; injection h with _ h2; cases h2
    · split at h
      · injection h with h; injection h with _ h2; cases h2
      · split at h
        · injection h with h; injection h with _ h2; cases h2
        · rename_i h1 h2 h3
          injection h with h; injection h with h _; subst h
          refine ⟨?_, ?_⟩
          · simp only [anyRequested]; simp [h1, h2, h3]
          · cases hcur : s.current with
            | none => rfl
            | some g => rw [hcur] at hc; simp at hc

theorem onLastParked_parkSelf {c : Cfg} {s s' : State} {tag : Nat} (h : onLastParked c s tag = some (s', .parkSelf)) :
    anyRequested s' = false ∧ s'.current = none := by
  unfold onLastParked at h
  split at h
  · exact respond_parkSelf h
  · split at h
    · cases h
    · split at h
      · cases h
      · split at h
        · injection h with h; injection h with _ h2; cases h2
        · split at h
          · injection h with h; injection h with _ h2; cases h2
          · split at h
            · injection h with h; injection h with _ h2; cases h2
            · split at h
              · cases h
              · split at h
                · injection h with h; injection h with _ h2; cases h2
                · exact respond_parkSelf h
  · cases h

theorem countW_all_but_eq (n : Nat) (f : Nat → Bool) (w : Nat) (hw : w < n) (hfw : f w = false)
    (h : ∀ x, x < n → x ≠ w → f x = true) : countW n f + 1 = n := by
  have h2 : countW n (fun x => if x = w then true else f x) = countW n f + 1 := by
    have := countW_update n f w true hw
    rw [hfw] at this
    simpa using this
  have h3 : countW n (fun x => if x = w then true else f x) = countW n (fun _ => true) := by
    apply countW_congr; intro x hx
    by_cases hxw : x = w
    · simp [hxw]
    · simp [hxw, h x hx hxw]
  have h4 : ∀ n, countW n (fun _ => true) = n := by
    intro n; induction n with
    | zero => rfl
    | succ n ih => rw [countW_succ, ih]; simp
  have := h4 n
  omega

theorem notifyOne_cases {c : Cfg} {s s' : State} {x : Option Nat} (h : notifyOne c s x = some s') :
    (∃ x0, x = some x0 ∧ x0 < c.n ∧ s.pc x0 = .waiting ∧ s' = setPc s x0 .woken) ∨ (x = none ∧ noWaiter c s = true ∧ s' = s) := by
  unfold notifyOne at h
  split at h
  · split at h
    · rename_i x0 hh; injection h with h; exact Or.inl ⟨x0, rfl, hh.1, hh.2, h.symm⟩
    · cases h
  · split at h
    · rename_i hh; injection h with h; exact Or.inr ⟨rfl, hh, h.symm⟩
    · cases h

theorem noWaiter_zero {c : Cfg} {s : State} (hn : 0 < c.n) (h : noWaiter c s = true) : s.pc 0 ≠ .waiting := by
  unfold noWaiter at h
  rw [List.all_eq_true] at h
  have := h 0 (List.mem_range.mpr hn)
  simpa using this

theorem invB_notifyOne {c : Cfg} {s s' : State} {x : Option Nat} (hn : 0 < c.n) (hb : InvB c s)
    (h : notifyOne c s x = some s') : InvB c s' ∧ (AllWaiting c s' → False) := by
  rcases notifyOne_cases h with ⟨x0, _, hx0, _, rfl⟩ | ⟨_, hnw, rfl⟩
  · have : (setPc s x0 .woken).pc x0 ≠ .waiting := by simp [setPc]
    exact ⟨invB_nonwaiting hx0 this, fun ha => this (ha x0 hx0)⟩
  · have := noWaiter_zero hn hnw
    exact ⟨hb, fun ha => this (ha 0 hn)⟩


theorem exec_ne_waiting {p : PC} (h : p.isExec = true) : p ≠ .waiting := by
  intro e; rw [e] at h; cases h

theorem notifyAll_exec (s : State) (w : Nat) (h : (s.pc w).isExec = true) : (notifyAll s).pc w ≠ .waiting := by
  simp only [notifyAll]
  split
  · simp
  · exact exec_ne_waiting h

theorem afterUnpark_ne_waiting (s : State) (w : Nat) : (afterUnpark s w).pc w ≠ .waiting := by
  obtain ⟨p, hp, he⟩ := afterUnpark_pc s w
  rw [he]; simp only [setPc, if_true]
  rcases hp with rfl | rfl <;> simp

theorem step_invB (c : Cfg) (hn : 0 < c.n) (s s' : State) (a : Act) (hA : InvA c s) (h : InvB c s)
    (hs : step c s a = some s') : InvB c s' := by
  cases a with
  | observeEmpty w k =>
    simp only [step] at hs
    split at hs
    · split at hs
      · rename_i hg; injection hs with hs; subst hs
        exact invB_nonwaiting hg.1 (by simp [setPc])
      · cases hs
    · cases hs
  | pollBucket w b p =>
    simp only [step] at hs
    split at hs
    · split at hs
      · rename_i hg; injection hs with hs; subst hs
        exact invB_nonwaiting hg.1 (by simp [setPc])
      · cases hs
    · cases hs
  | batchMove w b p =>
    simp only [step] at hs
    split at hs
    · rename_i p0 hpc
      split at hs
      · rename_i hg; injection hs with hs; subst hs
        exact invB_nonwaiting hg.1 (by show s.pc w ≠ _; rw [hpc]; simp)
      · cases hs
    · split at hs
      · rename_i hg; injection hs with hs; subst hs
        exact invB_nonwaiting hg.1 (by simp [setPc])
      · cases hs
    · cases hs
  | popLocal w p =>
    simp only [step] at hs
    split at hs
    · split at hs
      · rename_i hg; injection hs with hs; subst hs
        exact invB_nonwaiting hg.1 (by simp [setPc])
      · cases hs
    · cases hs
  | popDesig w p =>
    simp only [step] at hs
    split at hs
    · split at hs
      · rename_i hg; injection hs with hs; subst hs
        exact invB_nonwaiting hg.1 (by simp [setPc])
      · cases hs
    · cases hs
  | steal w v p =>
    simp only [step] at hs
    split at hs
    · split at hs
      · rename_i hg; injection hs with hs; subst hs
        exact invB_nonwaiting hg.1 (by simp [setPc])
      · cases hs
    · cases hs
  | pollMiss w =>
    simp only [step] at hs
    split at hs
    · split at hs
      · rename_i hg; injection hs with hs; subst hs
        exact invB_nonwaiting hg.1 (by simp [setPc])
      · cases hs
    · cases hs
  | push w b tag =>
    simp only [step] at hs
    split at hs
    · rename_i hg; injection hs with hs; subst hs
      exact invB_nonwaiting hg.1 (by show s.pc w ≠ _; exact exec_ne_waiting hg.2.1)
    · cases hs
  | pushLocal w b tag =>
    simp only [step] at hs
    split at hs
    · rename_i hg; injection hs with hs; subst hs
      exact invB_nonwaiting hg.1 (by show s.pc w ≠ _; exact exec_ne_waiting hg.2.1)
    · cases hs
  | pushDesig w x tag =>
    simp only [step] at hs
    split at hs
    · rename_i hg; injection hs with hs; subst hs
      exact invB_nonwaiting hg.1 (by show s.pc w ≠ _; exact exec_ne_waiting hg.2.1)
    · cases hs
  | setSentinel w b tag =>
    simp only [step] at hs
    split at hs
    · rename_i hg; injection hs with hs; subst hs
      exact invB_nonwaiting hg.1 (by show s.pc w ≠ _; exact exec_ne_waiting hg.2.1)
    · cases hs
  | bucketNotifyOne w b x =>
    simp only [step] at hs
    split at hs
    · exact (invB_notifyOne hn h hs).1
    · cases hs
  | bucketNotifyAll w b =>
    simp only [step] at hs
    split at hs
    · rename_i hg; injection hs with hs; subst hs
      exact invB_nonwaiting hg.1 (notifyAll_exec s w hg.2.1)
    · cases hs
  | setEnabled w b v =>
    simp only [step] at hs
    split at hs
    · rename_i hg; injection hs with hs; subst hs
      exact invB_nonwaiting hg.1 (by show s.pc w ≠ _; exact exec_ne_waiting hg.2.1)
    · cases hs
  | stopAll w =>
    simp only [step] at hs
    split at hs
    · rename_i hg; injection hs with hs; subst hs
      exact invB_nonwaiting hg.1 (by show s.pc w ≠ _; exact exec_ne_waiting hg.2.1)
    · cases hs
  | clearRequest w =>
    simp only [step] at hs
    split at hs
    · rename_i hg; injection hs with hs; subst hs
      exact invB_nonwaiting hg.1 (by show s.pc w ≠ _; exact exec_ne_waiting hg.2)
    · cases hs
  | openFirst w b =>
    simp only [step] at hs
    split at hs
    · rename_i hg; injection hs with hs; subst hs
      exact invB_nonwaiting hg.1 (by show s.pc w ≠ _; exact exec_ne_waiting hg.2.1)
    · cases hs
  | wakeAll w =>
    simp only [step] at hs
    split at hs
    · rename_i hg; injection hs with hs; subst hs
      exact invB_nonwaiting hg.1 (notifyAll_exec s w hg.2)
    · cases hs
  | execEnd w =>
    simp only [step] at hs
    split at hs
    · split at hs
      · rename_i hg; injection hs with hs; subst hs
        exact invB_nonwaiting hg (by simp [setPc])
      · cases hs
    · cases hs
  | park w tag =>
    simp only [step] at hs
    split at hs
    · rename_i hg
      obtain ⟨hw, hpc, hlt⟩ := hg
      split at hs
      · split at hs
        · cases hs
        · rename_i s1 hl
          injection hs with hs; subst hs
          have := onLastParked_parkSelf hl
          intro _
          exact this
        · injection hs with hs; subst hs
          exact invB_nonwaiting hw (afterUnpark_ne_waiting _ w)
        · injection hs with hs; subst hs
          exact invB_nonwaiting hw (afterUnpark_ne_waiting _ w)
      · rename_i hnl
        injection hs with hs; subst hs
        intro ha
        exfalso
        apply hnl
        show s.parked + 1 = c.n
        rw [hA.parked_eq]
        apply countW_all_but_eq c.n _ w hw (by rw [hpc]; rfl)
        intro x hx hxw
        have := ha x hx
        simp only [setPc, hxw, if_false] at this
        rw [this]; rfl
    · cases hs
  | spurious w =>
    simp only [step] at hs
    split at hs
    · rename_i hg; injection hs with hs; subst hs
      exact invB_nonwaiting hg.1 (by simp [setPc])
    · cases hs
  | wake w =>
    simp only [step] at hs
    split at hs
    · rename_i hg; injection hs with hs; subst hs
      exact invB_nonwaiting hg.1 (afterUnpark_ne_waiting _ w)
    · cases hs
  | surrender w =>
    simp only [step] at hs
    split at hs
    · split at hs
      · rename_i hg
        split at hs <;> (injection hs with hs; subst hs; exact invB_nonwaiting hg.1 (by simp [setPc]))
      · cases hs
    · cases hs
  | requestFlag =>
    simp only [step] at hs
    split at hs <;> (injection hs with hs; subst hs)
    · exact h
    · exact invB_same h rfl rfl rfl
  | makeRequest g x =>
    simp only [step] at hs
    have hc : InvB c (consumePending s g) := by
      unfold consumePending; split
      · exact invB_same h rfl rfl rfl
      · exact h
    split at hs
    · cases hs
    · split at hs
      · split at hs
        · injection hs with hs; subst hs; exact hc
        · cases hs
      · rcases notifyOne_cases hs with ⟨x0, _, hx0, _, rfl⟩ | ⟨_, hnw, rfl⟩
        · exact invB_nonwaiting hx0 (by simp [setPc])
        · have h0 := noWaiter_zero hn hnw
          exact invB_nonwaiting hn h0
  | mutPush b tag =>
    simp only [step] at hs
    split at hs
    · injection hs with hs; subst hs; exact invB_same h rfl rfl rfl
    · cases hs
  | mutNotifyOne b x =>
    simp only [step] at hs
    split at hs
    · exact (invB_notifyOne hn h hs).1
    · cases hs
  | initSetEnabled b v =>
    simp only [step] at hs
    split at hs
    · injection hs with hs; subst hs; exact invB_same h rfl rfl rfl
    · cases hs
  | prepareSurrender =>
    simp only [step] at hs
    split at hs
    · injection hs with hs; subst hs; exact invB_same h rfl rfl rfl
    · cases hs
  | respawn =>
    simp only [step] at hs
    split at hs
    · split at hs
      · injection hs with hs; subst hs
        exact invB_nonwaiting hn (by simp [hn])
      · cases hs
    · cases hs

theorem init_invB (c : Cfg) (hn : 0 < c.n) : InvB c (init c) :=
  invB_nonwaiting hn (by simp [init])

/-- both invariants together along a run -/
theorem reachable_invAB {c : Cfg} (hn : 0 < c.n) {s : State} (h : Reachable c s) : InvA c s ∧ InvB c s := by
  obtain ⟨run, hr⟩ := h
  exact exec_some_induct c (fun s => InvA c s ∧ InvB c s)
    (fun s s' a hh hs => ⟨step_invA c s s' a hh.1 hs, step_invB c hn s s' a hh.1 hh.2 hs⟩)
    run _ _ ⟨init_invA c, init_invB c hn⟩ hr


/-! ## functions that only touch the buckets -/

/-- `s'` differs from `s` at most in the buckets and the ghost trace -/
def SameButBkt (s s' : State) : Prop := s' = { s with bkt := s'.bkt, trace := s'.trace }

theorem SameButBkt.refl (s : State) : SameButBkt s s := rfl
theorem SameButBkt.trans {a b c : State} (h1 : SameButBkt a b) (h2 : SameButBkt b c) : SameButBkt a c := by
  unfold SameButBkt at *
  rw [h2, h1]
theorem SameButBkt.current {s s' : State} (h : SameButBkt s s') : s'.current = s.current := by rw [h]
theorem SameButBkt.stopped {s s' : State} (h : SameButBkt s s') : s'.stopped = s.stopped := by rw [h]
theorem SameButBkt.reqs {s s' : State} (h : SameButBkt s s') :
    s'.reqGc = s.reqGc ∧ s'.reqShutdown = s.reqShutdown ∧ s'.reqFork = s.reqFork := by rw [h]; exact ⟨rfl, rfl, rfl⟩
theorem SameButBkt.counters {s s' : State} (h : SameButBkt s s') :
    s'.resumes = s.resumes ∧ s'.stops = s.stops ∧ s'.gcDone = s.gcDone ∧ s'.gcStarted = s.gcStarted ∧
    s'.nextId = s.nextId ∧ s'.added = s.added ∧ s'.started = s.started ∧ s'.ended = s.ended ∧ s'.exitsDone = s.exitsDone := by
  rw [h]; exact ⟨rfl, rfl, rfl, rfl, rfl, rfl, rfl, rfl, rfl⟩

theorem sbb_emit (s : State) (e : SubEv) : SameButBkt s (emit s e) := rfl
theorem sbb_setBkt (s : State) (b : Nat) (k : Bucket) : SameButBkt s (setBkt s b k) := rfl
theorem sbb_openBkt (s : State) (b : Nat) : SameButBkt s (openBkt s b) := rfl
theorem sbb_closeBkt (s : State) (b : Nat) : SameButBkt s (closeBkt s b) := rfl
theorem sbb_takeSentinel (s : State) (b : Nat) : SameButBkt s (takeSentinel s b) := by
  unfold takeSentinel; split <;> rfl

theorem sbb_schedLoop (bs : List Nat) : ∀ (s : State) (acc : Bool), SameButBkt s (schedSentinelsLoop s bs acc).1 := by
  induction bs with
  | nil => intro s acc; exact SameButBkt.refl s
  | cons b bs ih =>
    intro s acc
    unfold schedSentinelsLoop
    split
    · exact (sbb_takeSentinel s b).trans (ih _ _)
    · exact ih _ _

theorem sbb_schedSentinels (c : Cfg) (s : State) : SameButBkt s (schedSentinels c s).1 :=
  (sbb_schedLoop _ s false).trans (sbb_emit _ _)

theorem sbb_updateLoop (c : Cfg) (bs : List Nat) : ∀ (s : State) (u : Bool), SameButBkt s (updateLoop c s bs u).1 := by
  induction bs with
  | nil => intro s u; exact SameButBkt.refl s
  | cons b bs ih =>
    intro s u
    unfold updateLoop
    split
    · exact ih _ _
    · split
      · exact ih _ _
      · split
        · split
          · exact sbb_openBkt s b
          · split
            · exact (sbb_openBkt s b).trans (sbb_takeSentinel _ b)
            · exact ((sbb_openBkt s b).trans (sbb_takeSentinel _ b)).trans (ih _ _)
        · exact ih _ _

theorem sbb_updateBuckets (c : Cfg) (s : State) : SameButBkt s (updateBuckets c s).1 :=
  (sbb_updateLoop c _ s false).trans (sbb_emit _ _)

theorem sbb_closeLoop (c : Cfg) (bs : List Nat) : ∀ (s s' : State), closeStwLoop c s bs = some s' → SameButBkt s s' := by
  induction bs with
  | nil => intro s s' h; simp [closeStwLoop] at h; subst h; exact SameButBkt.refl s
  | cons b bs ih =>
    intro s s' h
    unfold closeStwLoop at h
    split at h
    · split at h
      · exact (sbb_closeBkt s b).trans (ih _ _ h)
      · cases h
    · exact ih _ _ h

theorem sbb_schedConcurrent (c : Cfg) (s : State) : SameButBkt s (schedConcurrent c s) := by
  unfold schedConcurrent; split <;> rfl


/-! ## no stranded packet -/

/-- no bucket would hand out a packet -/
def NoRun (c : Cfg) (s : State) : Prop := ∀ b, b < c.L → (s.bkt b).runnable = false

theorem takeSentinel_none (s : State) (b : Nat) (h : hasSentinel s b = false) : (takeSentinel s b).bkt = s.bkt := by
  unfold hasSentinel at h
  unfold takeSentinel
  cases hs : (s.bkt b).sentinel with
  | none => rfl
  | some p => rw [hs] at h; cases h

theorem schedLoop_true (bs : List Nat) : ∀ (s : State), (schedSentinelsLoop s bs true).2 = true := by
  induction bs with
  | nil => intro s; rfl
  | cons b bs ih =>
    intro s; unfold schedSentinelsLoop
    split
    · simp only [Bool.true_or]; exact ih _
    · exact ih _

theorem schedLoop_false (bs : List Nat) : ∀ (s : State), (schedSentinelsLoop s bs false).2 = false →
    (schedSentinelsLoop s bs false).1.bkt = s.bkt := by
  induction bs with
  | nil => intro s _; rfl
  | cons b bs ih =>
    intro s h
    unfold schedSentinelsLoop at h ⊢
    split
    · rename_i ho
      rw [if_pos ho] at h
      cases hh : hasSentinel s b with
      | true => rw [hh] at h; simp only [Bool.false_or] at h; rw [schedLoop_true] at h; cases h
      | false =>
        rw [hh] at h
        simp only [Bool.or_false] at h ⊢
        rw [ih _ h, takeSentinel_none s b hh]
    · rename_i ho
      rw [if_neg ho] at h
      exact ih _ h

theorem schedSentinels_false (c : Cfg) (s : State) (h : (schedSentinels c s).2 = false) :
    (schedSentinels c s).1.bkt = s.bkt := by
  unfold schedSentinels at h ⊢
  exact schedLoop_false _ s h

theorem noRun_of_bkt {c : Cfg} {s s' : State} (h : NoRun c s) (e : s'.bkt = s.bkt) : NoRun c s' := by
  intro b hb; rw [e]; exact h b hb

/-- if `update_buckets` found no new packets, nothing became runnable -/
theorem updateLoop_noRun (c : Cfg) (bs : List Nat) : ∀ (s : State) (u : Bool), NoRun c s →
    (updateLoop c s bs u).2.2 = false → NoRun c (updateLoop c s bs u).1 := by
  induction bs with
  | nil => intro s u h _; exact h
  | cons b bs ih =>
    intro s u h hr
    unfold updateLoop at hr ⊢
    split
    · rename_i h1; rw [if_pos h1] at hr; exact ih _ _ h hr
    · rename_i h1; rw [if_neg h1] at hr
      split
      · rename_i h2; rw [if_pos h2] at hr; exact ih _ _ h hr
      · rename_i h2; rw [if_neg h2] at hr
        split
        · rename_i h3; rw [if_pos h3] at hr
          split
          · rename_i h4; rw [if_pos h4] at hr; cases hr
          · rename_i h4; rw [if_neg h4] at hr
            split
            · rename_i h5; rw [if_pos h5] at hr; cases hr
            · rename_i h5; rw [if_neg h5] at hr
              have hs5 : hasSentinel (openBkt s b) b = false := by simpa using h5
              apply ih _ _ _ hr
              apply noRun_of_bkt (s := openBkt s b) _ (takeSentinel_none _ b hs5)
              intro b' hb'
              simp only [openBkt, emit, setBkt]
              by_cases hbb : b' = b
              · subst hbb
                simp only [if_true]
                have hd : ((openBkt s b').bkt b').isDrained = true := by simpa using h4
                simp only [openBkt, emit, setBkt, if_true, Bucket.isDrained] at hd
                simp only [Bucket.runnable]
                cases he : (s.bkt b').enabled <;> simp [he] at hd ⊢
                exact hd
              · simp only [hbb, if_false]; exact h b' hb'
        · rename_i h3; rw [if_neg h3] at hr; exact ih _ _ h hr

theorem updateLoop_newp (c : Cfg) (bs : List Nat) : ∀ (s : State) (u : Bool),
    (updateLoop c s bs u).2.2 = true → (updateLoop c s bs u).2.1 = true := by
  induction bs with
  | nil => intro s u h; simp [updateLoop] at h
  | cons b bs ih =>
    intro s u hr
    unfold updateLoop at hr ⊢
    split
    · rename_i h1; rw [if_pos h1] at hr; exact ih _ _ hr
    · rename_i h1; rw [if_neg h1] at hr
      split
      · rename_i h2; rw [if_pos h2] at hr; exact ih _ _ hr
      · rename_i h2; rw [if_neg h2] at hr
        split
        · rename_i h3; rw [if_pos h3] at hr
          split
          · rfl
          · rename_i h4; rw [if_neg h4] at hr
            split
            · rfl
            · rename_i h5; rw [if_neg h5] at hr; exact ih _ _ hr
        · rename_i h3; rw [if_neg h3] at hr; exact ih _ _ hr

theorem updateBuckets_false (c : Cfg) (s : State) (hn : NoRun c s) (h : (updateBuckets c s).2 = false) :
    NoRun c (updateBuckets c s).1 := by
  unfold updateBuckets at h ⊢
  simp only at h ⊢
  have hnp : (updateLoop c s (List.range c.L) false).2.2 = false := by
    cases hh : (updateLoop c s (List.range c.L) false).2.2 with
    | false => rfl
    | true => rw [updateLoop_newp c _ s false hh, hh] at h; cases h
  exact noRun_of_bkt (updateLoop_noRun c _ s false hn hnp) rfl

theorem closeLoop_noRun (c : Cfg) (bs : List Nat) : ∀ (s s' : State), NoRun c s → closeStwLoop c s bs = some s' → NoRun c s' := by
  induction bs with
  | nil => intro s s' h e; simp [closeStwLoop] at e; subst e; exact h
  | cons b bs ih =>
    intro s s' h e
    unfold closeStwLoop at e
    split at e
    · split at e
      · refine ih _ _ ?_ e
        intro b' hb'
        simp only [closeBkt, emit, setBkt]
        by_cases hbb : b' = b
        · simp [hbb, Bucket.runnable]
        · simp only [hbb, if_false]; exact h b' hb'
      · cases e
    · exact ih _ _ h e

theorem onGcFinished_noRun (c : Cfg) (s s' : State) (hn : NoRun c s) (h : onGcFinished c s = some s')
    (hclosed : (s'.bkt c.concIdx).isOpen = false) : NoRun c s' := by
  unfold onGcFinished at h
  split at h
  · cases h
  · split at h
    · cases h
    · split at h
      · cases h
      · rename_i s1 hc
        injection h with h; subst h
        have h1 : NoRun c s1 := closeLoop_noRun c _ (emit s SubEv.gcFinishedBegin) _ (noRun_of_bkt hn rfl) hc
        intro b hb
        simp only [resume, emit]
        unfold schedConcurrent
        unfold schedConcurrent resume emit at hclosed
        split
        · rename_i hcs
          rw [if_pos hcs] at hclosed
          simp [setBkt] at hclosed
        · simp only [emit, setBkt]
          by_cases hbb : b = c.concIdx
          · simp [hbb, Bucket.runnable]
          · simp only [hbb, if_false]; exact h1 b hb

theorem respond_noRun (c : Cfg) (s s' : State) (tag : Nat) (r : LPR) (hn : NoRun c s)
    (h : respond c s tag = some (s', r)) (hr : r ≠ .wakeSelf) : NoRun c s' ∧ (r = .wakeAll → ∃ g, s'.current = some g ∧ g.isExit = true) := by
  unfold respond at h
  split at h
  · cases h
  · split at h
    · injection h with h; injection h with _ h2; exact absurd h2.symm hr
    · split at h
      · injection h with h; injection h with h1 h2; subst h1
        exact ⟨noRun_of_bkt hn rfl, fun _ => ⟨.shutdown, rfl, rfl⟩⟩
      · split at h
        · injection h with h; injection h with h1 h2; subst h1
          exact ⟨noRun_of_bkt hn rfl, fun _ => ⟨.stopForFork, rfl, rfl⟩⟩
        · injection h with h; injection h with h1 h2; subst h1; subst h2
          exact ⟨hn, fun e => by cases e⟩


/-- when the last parked worker decides to wait, or starts an exit goal, no bucket is runnable -/
theorem onLastParked_noRun (c : Cfg) (s s' : State) (tag : Nat) (r : LPR) (hn : NoRun c s)
    (h : onLastParked c s tag = some (s', r)) :
    (r = .parkSelf → NoRun c s') ∧
    (r = .wakeAll → (∃ g, s'.current = some g ∧ g.isExit = true) → NoRun c s') := by
  unfold onLastParked at h
  split at h
  · by_cases hr : r = .wakeSelf
    · subst hr; exact ⟨fun e => (nomatch e), fun e => nomatch e⟩
    · have := respond_noRun c s s' tag r hn h hr
      exact ⟨fun _ => this.1, fun _ _ => this.1⟩
  · rename_i hcur
    split at h
    · cases h
    · split at h
      · cases h
      · split at h
        · injection h with h; injection h with h1 h2; subst h1; subst h2
          refine ⟨fun e => (nomatch e), fun _ ⟨g, hg, hx⟩ => ?_⟩
          rw [hcur] at hg; cases hg; exact absurd hx (by decide)
        · split at h
          · injection h with h; injection h with h1 h2; subst h1; subst h2
            refine ⟨fun e => (nomatch e), fun _ ⟨g, hg, hx⟩ => ?_⟩
            rw [(sbb_schedSentinels c s).current, hcur] at hg; cases hg; exact absurd hx (by decide)
          · rename_i hss
            have hss' : (schedSentinels c s).2 = false := by simpa using hss
            have n1 : NoRun c (schedSentinels c s).1 := noRun_of_bkt hn (schedSentinels_false c s hss')
            split at h
            · injection h with h; injection h with h1 h2; subst h1; subst h2
              refine ⟨fun e => (nomatch e), fun _ ⟨g, hg, hx⟩ => ?_⟩
              rw [(sbb_updateBuckets c _).current, (sbb_schedSentinels c s).current, hcur] at hg
              cases hg; exact absurd hx (by decide)
            · rename_i hub
              have hub' : (updateBuckets c (schedSentinels c s).1).2 = false := by simpa using hub
              have n2 := updateBuckets_false c _ n1 hub'
              split at h
              · cases h
              · rename_i s3 hg3
                split at h
                · injection h with h; injection h with h1 h2; subst h1; subst h2
                  exact ⟨fun e => (nomatch e), fun _ ⟨g, hg, _⟩ => by simp [completeGc, emit] at hg⟩
                · rename_i hopen
                  have n3 : NoRun c s3 := onGcFinished_noRun c _ _ n2 hg3 (by simpa using hopen)
                  have n4 : NoRun c (completeGc s3) := noRun_of_bkt n3 rfl
                  by_cases hr : r = .wakeSelf
                  · subst hr; exact ⟨fun e => (nomatch e), fun e => nomatch e⟩
                  · have := respond_noRun c _ s' tag r n4 h hr
                    exact ⟨fun _ => this.1, fun _ _ => this.1⟩
  · cases h


/-- worker `x` will still look into container `k` before it can park: it runs a packet (and polls
afterwards), or it polls and has not yet seen `k` empty -/
def covers (s : State) (x : Nat) (k : Cont) : Prop :=
  match s.pc x with
  | .exec _ => True
  | .polling seen => k ∉ seen
  | _ => False

/-- container `k` holds a packet a poll would return -/
def NonEmpty (c : Cfg) (s : State) : Cont → Prop
  | .bucket b => b < c.L ∧ (s.bkt b).runnable = true
  | .buf v => v < c.n ∧ s.buf v ≠ []
  | .desig => False

/-- every runnable packet is covered by a worker that has not given up looking -/
def InvC (c : Cfg) (s : State) : Prop := ∀ k, NonEmpty c s k → ∃ x, x < c.n ∧ covers s x k

theorem covers_of_exec {s : State} {x : Nat} (k : Cont) (h : (s.pc x).isExec = true) : covers s x k := by
  unfold covers
  cases hp : s.pc x <;> simp_all [PC.isExec]

theorem covers_polling_nil {s : State} {x : Nat} (k : Cont) (h : s.pc x = .polling []) : covers s x k := by
  unfold covers; rw [h]; simp

theorem invC_cover_all {c : Cfg} {s' : State} {w : Nat} (hw : w < c.n) (h : ∀ k, covers s' w k) : InvC c s' :=
  fun k _ => ⟨w, hw, h k⟩

theorem invC_mono {c : Cfg} {s s' : State} (h : InvC c s) (hne : ∀ k, NonEmpty c s' k → NonEmpty c s k)
    (hcov : ∀ x k, x < c.n → NonEmpty c s' k → covers s x k → covers s' x k) : InvC c s' := by
  intro k hk
  obtain ⟨x, hx, hc⟩ := h k (hne k hk)
  exact ⟨x, hx, hcov x k hx hk hc⟩

theorem covers_pc_eq {s s' : State} {x : Nat} {k : Cont} (h : s'.pc x = s.pc x) (hc : covers s x k) : covers s' x k := by
  unfold covers at *; rw [h]; exact hc

theorem nonEmpty_eq {c : Cfg} {s s' : State} (hb : s'.bkt = s.bkt) (hf : s'.buf = s.buf) (k : Cont)
    (h : NonEmpty c s' k) : NonEmpty c s k := by
  cases k <;> simp only [NonEmpty] at * <;> first | (rw [← hb]; exact h) | (rw [← hf]; exact h)

/-- a worker that is not a cover changes its program counter; containers unchanged -/
theorem invC_setPc_noncover {c : Cfg} {s s' : State} {w : Nat} {p : PC} (h : InvC c s)
    (hnc : ∀ k, ¬ covers s w k) (hpc : s'.pc = (setPc s w p).pc) (hb : s'.bkt = s.bkt) (hf : s'.buf = s.buf) : InvC c s' := by
  apply invC_mono h (nonEmpty_eq hb hf)
  intro x k _ _ hc
  have hxw : x ≠ w := fun e => hnc k (e ▸ hc)
  apply covers_pc_eq _ hc
  rw [hpc]; simp [setPc, hxw]

theorem not_covers_of {s : State} {w : Nat} (h : ¬ (s.pc w).isExec = true) (h2 : ∀ seen, s.pc w ≠ .polling seen) :
    ∀ k, ¬ covers s w k := by
  intro k hc
  unfold covers at hc
  cases hp : s.pc w <;> rw [hp] at hc <;> simp_all [PC.isExec]

theorem notifyAll_covers (s : State) (x : Nat) (k : Cont) (h : covers s x k) : covers (notifyAll s) x k := by
  apply covers_pc_eq _ h
  simp only [notifyAll]
  split
  · rename_i hw; unfold covers at h; rw [hw] at h; exact h.elim
  · rfl

theorem invC_notifyAll {c : Cfg} {s : State} (h : InvC c s) : InvC c (notifyAll s) :=
  invC_mono h (nonEmpty_eq rfl rfl) (fun x k _ _ hc => notifyAll_covers s x k hc)

theorem invC_notifyOne {c : Cfg} {s s' : State} {x : Option Nat} (h : InvC c s) (hs : notifyOne c s x = some s') : InvC c s' := by
  rcases notifyOne_cases hs with ⟨x0, _, _, hw, rfl⟩ | ⟨_, _, rfl⟩
  · exact invC_setPc_noncover h (not_covers_of (by rw [hw]; simp [PC.isExec]) (by rw [hw]; simp)) rfl rfl rfl
  · exact h


theorem mem_allConts_bucket {c : Cfg} {b : Nat} (h : b < c.L) : Cont.bucket b ∈ allConts c := by
  simp [allConts, h]
theorem mem_allConts_buf {c : Cfg} {v : Nat} (h : v < c.n) : Cont.buf v ∈ allConts c := by
  simp [allConts, h]

theorem nonEmpty_mem_allConts {c : Cfg} {s : State} {k : Cont} (h : NonEmpty c s k) : k ∈ allConts c := by
  cases k with
  | bucket b => exact mem_allConts_bucket h.1
  | buf v => exact mem_allConts_buf h.1
  | desig => exact h.elim

theorem nonEmpty_not_looksEmpty {c : Cfg} {s : State} {w : Nat} {k : Cont} (h : NonEmpty c s k) : looksEmpty s w k = false := by
  cases k with
  | bucket b => simp [looksEmpty, h.2]
  | buf v =>
    simp only [looksEmpty]
    have := h.2
    cases hb : s.buf v <;> simp_all
  | desig => exact h.elim

/-- the last worker to park: everybody else is parked, so nobody covers anything -/
theorem no_cover_when_last {c : Cfg} {s : State} {w : Nat} (hA : InvA c s) (hw : w < c.n) (hpc : s.pc w = .parking)
    (hlast : s.parked + 1 = c.n) : ∀ x k, x < c.n → ¬ covers s x k := by
  intro x k hx hc
  by_cases hxw : x = w
  · subst hxw; unfold covers at hc; rw [hpc] at hc; exact hc
  · have := countW_all_but c.n (fun x => (s.pc x).isParked) w hw (by simp [hpc, PC.isParked])
      (by have := hA.parked_eq; unfold parkedCount at this; omega) x hx hxw
    unfold covers at hc
    cases hp : s.pc x <;> rw [hp] at hc this <;> simp_all [PC.isParked]

theorem noRun_of_invC {c : Cfg} {s : State} (h : InvC c s) (hno : ∀ x k, x < c.n → ¬ covers s x k) :
    NoRun c s ∧ ∀ v, v < c.n → s.buf v = [] := by
  constructor
  · intro b hb
    cases hr : (s.bkt b).runnable with
    | false => rfl
    | true => obtain ⟨x, hx, hc⟩ := h (.bucket b) ⟨hb, hr⟩; exact absurd hc (hno x _ hx)
  · intro v hv
    cases hbv : s.buf v with
    | nil => rfl
    | cons p l => obtain ⟨x, hx, hc⟩ := h (.buf v) ⟨hv, by rw [hbv]; simp⟩; exact absurd hc (hno x _ hx)

theorem invC_of_empty {c : Cfg} {s : State} (h1 : NoRun c s) (h2 : ∀ v, v < c.n → s.buf v = []) : InvC c s := by
  intro k hk
  cases k with
  | bucket b => have := h1 b hk.1; rw [hk.2] at this; cases this
  | buf v => exact absurd (h2 v hk.1) hk.2
  | desig => exact hk.elim

theorem afterUnpark_covers (s : State) (w : Nat) (hcur : ∀ g, s.current = some g → g.isExit = false) (k : Cont) :
    covers (afterUnpark s w) w k := by
  unfold afterUnpark
  split
  · rename_i h; have := hcur _ h; cases this
  · rename_i h; have := hcur _ h; cases this
  · apply covers_polling_nil; simp [setPc]

theorem respond_wakeSelf {c : Cfg} {s s' : State} {tag : Nat} (h : respond c s tag = some (s', .wakeSelf)) :
    s'.current = some .gc := by
  unfold respond at h
  split at h
  · cases h
  · split at h
    · injection h with h; injection h with h1 _; subst h1; rfl
    · split at h
      · injection h with h; injection h with _ h2; cases h2
      · split at h
        · injection h with h; injection h with _ h2; cases h2
        · injection h with h; injection h with _ h2; cases h2

theorem onLastParked_wakeSelf {c : Cfg} {s s' : State} {tag : Nat} (h : onLastParked c s tag = some (s', .wakeSelf)) :
    s'.current = some .gc := by
  unfold onLastParked at h
  split at h
  · exact respond_wakeSelf h
  · split at h
    · cases h
    · split at h
      · cases h
      · split at h
        · injection h with h; injection h with _ h2; cases h2
        · split at h
          · injection h with h; injection h with _ h2; cases h2
          · split at h
            · injection h with h; injection h with _ h2; cases h2
            · split at h
              · cases h
              · split at h
                · injection h with h; injection h with _ h2; cases h2
                · exact respond_wakeSelf h
  · cases h

theorem afterUnpark_bkt (s : State) (w : Nat) : (afterUnpark s w).bkt = s.bkt := by
  obtain ⟨p, _, he⟩ := afterUnpark_pc s w; rw [he]; rfl
theorem afterUnpark_buf (s : State) (w : Nat) : (afterUnpark s w).buf = s.buf := by
  obtain ⟨p, _, he⟩ := afterUnpark_pc s w; rw [he]; rfl

theorem invC_same_pc {c : Cfg} {s s' : State} (h : InvC c s) (hpc : s'.pc = s.pc)
    (hne : ∀ k, NonEmpty c s' k → NonEmpty c s k) : InvC c s' :=
  invC_mono h hne (fun x k _ _ hc => covers_pc_eq (by rw [hpc]) hc)

theorem invC_same {c : Cfg} {s s' : State} (h : InvC c s) (hpc : s'.pc = s.pc) (hb : s'.bkt = s.bkt)
    (hf : s'.buf = s.buf) : InvC c s' :=
  invC_same_pc h hpc (nonEmpty_eq hb hf)

theorem step_invC (c : Cfg) (hmut : c.mutAddOpen = false) (s s' : State) (a : Act) (hA : InvA c s) (h : InvC c s)
    (hs : step c s a = some s') : InvC c s' := by
  cases a with
  | observeEmpty w k0 =>
    simp only [step] at hs
    split at hs
    · rename_i seen hpc
      split at hs
      · rename_i hg; injection hs with hs; subst hs
        refine invC_mono h (fun k hk => nonEmpty_eq (c := c) (s := s) rfl rfl k hk) ?_
        intro x k _ hk hc
        by_cases hxw : x = w
        · subst hxw
          unfold covers at hc ⊢
          rw [hpc] at hc
          simp only [setPc, if_true]
          intro hmem
          rcases List.mem_cons.mp hmem with e | e
          · subst e
            have := nonEmpty_not_looksEmpty (w := x) hk
            have h2 : looksEmpty s x k = true := hg.2
            rw [show looksEmpty (setPc s x (PC.polling (k :: seen))) x k = looksEmpty s x k from by cases k <;> rfl] at this
            rw [h2] at this; cases this
          · exact hc e
        · apply covers_pc_eq _ hc; simp [setPc, hxw]
      · cases hs
    · cases hs
  | pollBucket w b p =>
    simp only [step] at hs
    split at hs
    · split at hs
      · rename_i hg; injection hs with hs; subst hs
        exact invC_cover_all hg.1 (fun k => covers_of_exec k (by simp [setPc, PC.isExec]))
      · cases hs
    · cases hs
  | batchMove w b p =>
    simp only [step] at hs
    split at hs
    · rename_i p0 hpc
      split at hs
      · rename_i hg; injection hs with hs; subst hs
        exact invC_cover_all hg.1 (fun k => covers_of_exec k (by show (s.pc w).isExec = true; rw [hpc]; rfl))
      · cases hs
    · split at hs
      · rename_i hg; injection hs with hs; subst hs
        exact invC_cover_all hg.1 (fun k => covers_polling_nil k (by simp [setPc]))
      · cases hs
    · cases hs
  | popLocal w p =>
    simp only [step] at hs
    split at hs
    · split at hs
      · rename_i hg; injection hs with hs; subst hs
        exact invC_cover_all hg.1 (fun k => covers_of_exec k (by simp [setPc, PC.isExec]))
      · cases hs
    · cases hs
  | popDesig w p =>
    simp only [step] at hs
    split at hs
    · split at hs
      · rename_i hg; injection hs with hs; subst hs
        exact invC_cover_all hg.1 (fun k => covers_of_exec k (by simp [setPc, PC.isExec]))
      · cases hs
    · cases hs
  | steal w v p =>
    simp only [step] at hs
    split at hs
    · split at hs
      · rename_i hg; injection hs with hs; subst hs
        exact invC_cover_all hg.1 (fun k => covers_of_exec k (by simp [setPc, PC.isExec]))
      · cases hs
    · cases hs
  | pollMiss w =>
    simp only [step] at hs
    split at hs
    · rename_i seen hpc
      split at hs
      · rename_i hg; injection hs with hs; subst hs
        refine invC_mono h (fun k hk => nonEmpty_eq (c := c) (s := s) rfl rfl k hk) ?_
        intro x k _ hk hc
        have hxw : x ≠ w := by
          intro e; subst e
          unfold covers at hc; rw [hpc] at hc
          have := (List.all_eq_true.mp hg.2) k (nonEmpty_mem_allConts hk)
          exact hc (by simpa using this)
        apply covers_pc_eq _ hc; simp [setPc, hxw]
      · cases hs
    · cases hs
  | push w b tag =>
    simp only [step] at hs
    split at hs
    · rename_i hg; injection hs with hs; subst hs
      exact invC_cover_all hg.1 (fun k => covers_of_exec k hg.2.1)
    · cases hs
  | pushLocal w b tag =>
    simp only [step] at hs
    split at hs
    · rename_i hg; injection hs with hs; subst hs
      exact invC_cover_all hg.1 (fun k => covers_of_exec k hg.2.1)
    · cases hs
  | pushDesig w x tag =>
    simp only [step] at hs
    split at hs
    · rename_i hg; injection hs with hs; subst hs
      exact invC_cover_all hg.1 (fun k => covers_of_exec k hg.2.1)
    · cases hs
  | setSentinel w b tag =>
    simp only [step] at hs
    split at hs
    · rename_i hg; injection hs with hs; subst hs
      exact invC_cover_all hg.1 (fun k => covers_of_exec k hg.2.1)
    · cases hs
  | bucketNotifyOne w b x =>
    simp only [step] at hs
    split at hs
    · exact invC_notifyOne h hs
    · cases hs
  | bucketNotifyAll w b =>
    simp only [step] at hs
    split at hs
    · injection hs with hs; subst hs; exact invC_notifyAll h
    · cases hs
  | setEnabled w b v =>
    simp only [step] at hs
    split at hs
    · rename_i hg; injection hs with hs; subst hs
      exact invC_cover_all hg.1 (fun k => covers_of_exec k hg.2.1)
    · cases hs
  | stopAll w =>
    simp only [step] at hs
    split at hs
    · rename_i hg; injection hs with hs; subst hs
      exact invC_cover_all hg.1 (fun k => covers_of_exec k hg.2.1)
    · cases hs
  | clearRequest w =>
    simp only [step] at hs
    split at hs
    · rename_i hg; injection hs with hs; subst hs
      exact invC_cover_all hg.1 (fun k => covers_of_exec k hg.2)
    · cases hs
  | openFirst w b =>
    simp only [step] at hs
    split at hs
    · rename_i hg; injection hs with hs; subst hs
      exact invC_cover_all hg.1 (fun k => covers_of_exec k hg.2.1)
    · cases hs
  | wakeAll w =>
    simp only [step] at hs
    split at hs
    · injection hs with hs; subst hs; exact invC_notifyAll h
    · cases hs
  | execEnd w =>
    simp only [step] at hs
    split at hs
    · split at hs
      · rename_i hg; injection hs with hs; subst hs
        exact invC_cover_all hg (fun k => covers_polling_nil k (by simp [setPc]))
      · cases hs
    · cases hs
  | park w tag =>
    simp only [step] at hs
    split at hs
    · rename_i hg
      obtain ⟨hw, hpc, hlt⟩ := hg
      have hncw : ∀ k, ¬ covers s w k := not_covers_of (by rw [hpc]; simp [PC.isExec]) (by rw [hpc]; simp)
      split at hs
      · rename_i hlast
        have hno := no_cover_when_last hA hw hpc hlast
        obtain ⟨hnr, hbuf⟩ := noRun_of_invC h hno
        have hnr0 : NoRun c { s with parked := s.parked + 1, trace := [] } := noRun_of_bkt hnr rfl
        split at hs
        · cases hs
        · rename_i s1 hl
          have f := frame_onLastParked c _ _ _ _ hl
          have nr1 := (onLastParked_noRun c _ _ _ _ hnr0 hl).1 rfl
          injection hs with hs; subst hs
          exact invC_of_empty (noRun_of_bkt nr1 rfl) (fun v hv => by show s1.buf v = []; rw [f.buf]; exact hbuf v hv)
        · rename_i s1 hl
          have f := frame_onLastParked c _ _ _ _ hl
          injection hs with hs; subst hs
          -- wakeSelf: a Gc goal has just started, the worker polls again
          have hcur : ∀ g, s1.current = some g → g.isExit = false := by
            intro g hg
            have := onLastParked_wakeSelf hl
            rw [this] at hg; cases hg; rfl
          exact invC_cover_all hw (afterUnpark_covers _ w hcur)
        · rename_i s1 hl
          have f := frame_onLastParked c _ _ _ _ hl
          injection hs with hs; subst hs
          by_cases hex : ∃ g, s1.current = some g ∧ g.isExit = true
          · have nr1 := (onLastParked_noRun c _ _ _ _ hnr0 hl).2 rfl hex
            exact invC_of_empty (by apply noRun_of_bkt nr1; rw [afterUnpark_bkt]; rfl)
              (fun v hv => by rw [afterUnpark_buf]; show s1.buf v = []; rw [f.buf]; exact hbuf v hv)
          · have hcur : ∀ g, (notifyAll s1).current = some g → g.isExit = false := by
              intro g hg
              cases hx : g.isExit with
              | false => rfl
              | true => exact absurd ⟨g, hg, hx⟩ hex
            exact invC_cover_all hw (afterUnpark_covers { notifyAll s1 with parked := (notifyAll s1).parked - 1 } w hcur)
      · injection hs with hs; subst hs
        exact invC_setPc_noncover (s := s) h hncw rfl rfl rfl
    · cases hs
  | spurious w =>
    simp only [step] at hs
    split at hs
    · rename_i hg; injection hs with hs; subst hs
      exact invC_setPc_noncover h (not_covers_of (by rw [hg.2]; simp [PC.isExec]) (by rw [hg.2]; simp)) rfl rfl rfl
    · cases hs
  | wake w =>
    simp only [step] at hs
    split at hs
    · rename_i hg; injection hs with hs; subst hs
      obtain ⟨p, _, he⟩ := afterUnpark_pc { s with parked := s.parked - 1 } w
      rw [he]
      exact invC_setPc_noncover (s := s) h (not_covers_of (by rw [hg.2.1]; simp [PC.isExec]) (by rw [hg.2.1]; simp)) rfl rfl rfl
    · cases hs
  | surrender w =>
    simp only [step] at hs
    split at hs
    · split at hs
      · rename_i hg
        have hnc := not_covers_of (s := s) (w := w) (by rw [hg.2]; simp [PC.isExec]) (by rw [hg.2]; simp)
        split at hs
        · injection hs with hs; subst hs; exact invC_setPc_noncover (s := s) h hnc rfl rfl rfl
        · injection hs with hs; subst hs; exact invC_setPc_noncover (s := s) h hnc rfl rfl rfl
      · cases hs
    · cases hs
  | requestFlag =>
    simp only [step] at hs
    split at hs <;> (injection hs with hs; subst hs)
    · exact h
    · exact invC_same h rfl rfl rfl
  | makeRequest g x =>
    simp only [step] at hs
    have hc : InvC c (consumePending s g) := by
      unfold consumePending; split
      · exact invC_same h rfl rfl rfl
      · exact h
    split at hs
    · cases hs
    · split at hs
      · split at hs
        · injection hs with hs; subst hs; exact hc
        · cases hs
      · refine invC_notifyOne (s := setRequested (consumePending s g) g true) ?_ hs
        cases g <;> exact invC_same hc rfl rfl rfl
  | mutPush b tag =>
    simp only [step] at hs
    split at hs
    · rename_i hg; injection hs with hs; subst hs
      refine invC_same_pc h rfl ?_
      intro k hk
      cases k with
      | bucket b' =>
        refine ⟨hk.1, ?_⟩
        have h2 := hk.2
        simp only [pushBkt, setBkt, bump] at h2
        by_cases hbb : b' = b
        · subst hbb
          simp only [if_true, Bucket.runnable] at h2
          rcases hg.2 with hm | hno
          · rw [hmut] at hm; cases hm
          · exfalso; apply hno
            simp only [Bool.and_eq_true] at h2
            exact ⟨h2.1.1, h2.1.2⟩
        · simpa [hbb] using h2
      | buf v => exact hk
      | desig => exact hk
    · cases hs
  | mutNotifyOne b x =>
    simp only [step] at hs
    split at hs
    · exact invC_notifyOne h hs
    · cases hs
  | initSetEnabled b v =>
    simp only [step] at hs
    split at hs
    · rename_i hg; injection hs with hs; subst hs
      refine invC_same_pc h rfl ?_
      intro k hk
      cases k with
      | bucket b' =>
        refine ⟨hk.1, ?_⟩
        have h2 := hk.2
        simp only [setBkt] at h2
        by_cases hbb : b' = b
        · subst hbb
          simp only [if_true, Bucket.runnable, Bool.and_eq_true] at h2
          rcases hg.2.2 with hv | hno
          · rw [hv] at h2; simp at h2
          · exact absurd h2.1.2 hno
        · simpa [hbb] using h2
      | buf v => exact hk
      | desig => exact hk
    · cases hs
  | prepareSurrender =>
    simp only [step] at hs
    split at hs
    · injection hs with hs; subst hs
      exact invC_same h rfl rfl rfl
    · cases hs
  | respawn =>
    simp only [step] at hs
    split at hs
    · split at hs
      · injection hs with hs; subst hs
        intro k hk
        have hkn : ∃ x, x < c.n := by
          cases k with
          | bucket b =>
            -- a runnable bucket is covered in `s`, so some worker exists
            obtain ⟨x, hx, _⟩ := h (.bucket b) hk; exact ⟨x, hx⟩
          | buf v => exact ⟨v, hk.1⟩
          | desig => exact hk.elim
        obtain ⟨x, hx⟩ := hkn
        exact ⟨x, hx, covers_polling_nil k (by simp [hx])⟩
      · cases hs
    · cases hs


theorem init_invC (c : Cfg) : InvC c (init c) := by
  intro k hk
  cases k with
  | bucket b => have := hk.2; simp [init, initBucket, Bucket.runnable, Bucket.isEmpty] at this
  | buf v => exact absurd rfl hk.2
  | desig => exact hk.elim

/-- the three invariants together along every run -/
structure Inv (c : Cfg) (s : State) : Prop where
  a : InvA c s
  b : InvB c s
  c' : InvC c s

theorem reachable_inv {c : Cfg} (hn : 0 < c.n) (hmut : c.mutAddOpen = false) {s : State} (h : Reachable c s) : Inv c s := by
  obtain ⟨run, hr⟩ := h
  exact exec_some_induct c (Inv c)
    (fun s s' a hh hs => ⟨step_invA c s s' a hh.a hs, step_invB c hn s s' a hh.a hh.b hs,
      step_invC c hmut s s' a hh.a hh.c' hs⟩)
    run _ _ ⟨init_invA c, init_invB c hn, init_invC c⟩ hr

/-! ## stage order (C15) -/

/-- well-formedness of a stage table (holds for the generated one: `Props/C15.lean`) -/
structure Cfg.WF (c : Cfg) : Prop where
  npos : 0 < c.n
  conc_not_stw : (c.info c.concIdx).isStw = false
  uncon_not_stw : (c.info c.unconIdx).isStw = false
  seq_def : ∀ b, (c.info b).isSeq = ((c.info b).isStw && !(c.info b).isFirstStw)
  first_is_stw : ∀ b, (c.info b).isFirstStw = true → (c.info b).isStw = true

/-! ### `close_all_stw_buckets` -/

theorem closeLoop_props (c : Cfg) (bs : List Nat) : ∀ (s s' : State), closeStwLoop c s bs = some s' →
    (∀ b, (s'.bkt b).isOpen = true → (s.bkt b).isOpen = true) ∧
    (∀ b, b ∈ bs → (c.info b).isStw = true → (s'.bkt b).isOpen = false) ∧
    (∀ b, (s'.bkt b).q = (s.bkt b).q ∧ (s'.bkt b).enabled = (s.bkt b).enabled ∧ (s'.bkt b).sentinel = (s.bkt b).sentinel) ∧
    (∀ b, (c.info b).isStw = false → s'.bkt b = s.bkt b) := by
  induction bs with
  | nil => intro s s' h; simp [closeStwLoop] at h; subst h; exact ⟨fun _ h => h, fun _ h => (nomatch h), fun _ => ⟨rfl, rfl, rfl⟩, fun _ _ => rfl⟩
  | cons b0 bs ih =>
    intro s s' h
    unfold closeStwLoop at h
    split at h
    · rename_i hstw
      split at h
      · obtain ⟨i1, i2, i3, i4⟩ := ih _ _ h
        have hclose : ∀ b, ((closeBkt s b0).bkt b).isOpen = true → (s.bkt b).isOpen = true := by
          intro b hb
          simp only [closeBkt, emit, setBkt] at hb
          by_cases e : b = b0
          · simp [e] at hb
          · simpa [e] using hb
        refine ⟨fun b hb => hclose b (i1 b hb), ?_, ?_, ?_⟩
        · intro b hb hs
          rcases List.mem_cons.mp hb with e | e
          · subst e
            cases ho : (s'.bkt b).isOpen with
            | false => rfl
            | true => have := i1 b ho; simp [closeBkt, emit, setBkt] at this
          · exact i2 b e hs
        · intro b
          obtain ⟨q1, q2, q3⟩ := i3 b
          simp only [closeBkt, emit, setBkt] at q1 q2 q3
          by_cases e : b = b0
          · subst e; simp only [if_true] at q1 q2 q3; exact ⟨q1, q2, q3⟩
          · simp only [e, if_false] at q1 q2 q3; exact ⟨q1, q2, q3⟩
        · intro b hb
          rw [i4 b hb]
          simp only [closeBkt, emit, setBkt]
          have : b ≠ b0 := fun e => by rw [e, hstw] at hb; cases hb
          simp [this]
      · cases h
    · rename_i hstw
      obtain ⟨i1, i2, i3, i4⟩ := ih _ _ h
      refine ⟨i1, ?_, i3, i4⟩
      intro b hb hs
      rcases List.mem_cons.mp hb with e | e
      · subst e; exact absurd hs hstw
      · exact i2 b e hs

/-- **the state `on_gc_finished` leaves behind**: every stop-the-world bucket is closed and empty -/
theorem onGcFinished_closed (c : Cfg) (hwf : c.WF) (s s' : State) (h : onGcFinished c s = some s') :
    ∀ b, b < c.L → (c.info b).isStw = true → (s'.bkt b).isOpen = false ∧ (s'.bkt b).q = [] := by
  unfold onGcFinished at h
  split at h
  · cases h
  · rename_i hempty
    split at h
    · cases h
    · rename_i hall
      split at h
      · cases h
      · rename_i s1 hc
        injection h with h; subst h
        obtain ⟨_, i2, i3, _⟩ := closeLoop_props c _ _ _ hc
        intro b hb hstw
        have hne : b ≠ c.concIdx := fun e => by rw [e, hwf.conc_not_stw] at hstw; cases hstw
        have hbk : ((resume (schedConcurrent c s1)).bkt b) = s1.bkt b := by
          simp only [resume, emit]
          unfold schedConcurrent
          split <;> simp [emit, setBkt, hne]
        rw [hbk]
        refine ⟨i2 b (List.mem_range.mpr hb) hstw, ?_⟩
        rw [(i3 b).1]
        have hall' : allStwEmpty c s = true := by simpa using hall
        unfold allStwEmpty at hall'
        have := (List.all_eq_true.mp hall') b (List.mem_range.mpr hb)
        simp only [hstw, Bool.not_true, Bool.false_or, Bucket.isEmpty] at this
        simp only [emit]
        exact List.isEmpty_iff.mp this

theorem respond_bkt_stw (c : Cfg) (hwf : c.WF) (s s' : State) (tag : Nat) (r : LPR) (h : respond c s tag = some (s', r))
    (b : Nat) (hstw : (c.info b).isStw = true) : s'.bkt b = s.bkt b := by
  unfold respond at h
  split at h
  · cases h
  · split at h
    · injection h with h; injection h with h1 _; subst h1
      have hne : b ≠ c.unconIdx := fun e => by rw [e, hwf.uncon_not_stw] at hstw; cases hstw
      simp [addScheduleCollection, emit, pushBkt, setBkt, bump, hne]
    · split at h
      · injection h with h; injection h with h1 _; subst h1; rfl
      · split at h
        · injection h with h; injection h with h1 _; subst h1; rfl
        · injection h with h; injection h with h1 _; subst h1; rfl


theorem respond_gcDone (c : Cfg) (s s' : State) (tag : Nat) (r : LPR) (h : respond c s tag = some (s', r)) :
    s'.gcDone = s.gcDone := by
  unfold respond at h
  split at h
  · cases h
  · split at h
    · injection h with h; injection h with h1 _; subst h1; rfl
    · split at h
      · injection h with h; injection h with h1 _; subst h1; rfl
      · split at h
        · injection h with h; injection h with h1 _; subst h1; rfl
        · injection h with h; injection h with h1 _; subst h1; rfl

theorem onGcFinished_gcDone (c : Cfg) (s s' : State) (h : onGcFinished c s = some s') : s'.gcDone = s.gcDone := by
  unfold onGcFinished at h
  split at h
  · cases h
  · split at h
    · cases h
    · split at h
      · cases h
      · rename_i s1 hc
        injection h with h; subst h
        have h1 := (sbb_closeLoop c _ _ _ hc).counters.2.2.1
        have h2 := (sbb_schedConcurrent c s1).counters.2.2.1
        show (schedConcurrent c s1).gcDone = _
        rw [h2, h1]; rfl

/-- **C15 core**: if `on_last_parked` completes a GC, every stop-the-world bucket is closed and empty
afterwards; otherwise `gcDone` is unchanged -/
theorem onLastParked_gc_end (c : Cfg) (hwf : c.WF) (s s' : State) (tag : Nat) (r : LPR)
    (h : onLastParked c s tag = some (s', r)) :
    s'.gcDone = s.gcDone ∨
    (s'.gcDone = s.gcDone + 1 ∧ s.current = some .gc ∧
      ∀ b, b < c.L → (c.info b).isStw = true → (s'.bkt b).isOpen = false ∧ (s'.bkt b).q = []) := by
  unfold onLastParked at h
  split at h
  · exact Or.inl (respond_gcDone c _ _ _ _ h)
  · rename_i hcur
    split at h
    · cases h
    · split at h
      · cases h
      · split at h
        · injection h with h; injection h with h1 _; subst h1; exact Or.inl rfl
        · split at h
          · injection h with h; injection h with h1 _; subst h1
            exact Or.inl (sbb_schedSentinels c s).counters.2.2.1
          · split at h
            · injection h with h; injection h with h1 _; subst h1
              exact Or.inl (((sbb_updateBuckets c _).counters.2.2.1).trans (sbb_schedSentinels c s).counters.2.2.1)
            · split at h
              · cases h
              · rename_i s3 hg3
                have g2 : (updateBuckets c (schedSentinels c s).1).1.gcDone = s.gcDone :=
                  ((sbb_updateBuckets c _).counters.2.2.1).trans (sbb_schedSentinels c s).counters.2.2.1
                have g3 : s3.gcDone = s.gcDone := (onGcFinished_gcDone c _ _ hg3).trans g2
                have cl := onGcFinished_closed c hwf _ _ hg3
                right
                split at h
                · injection h with h; injection h with h1 _; subst h1
                  exact ⟨by show s3.gcDone + 1 = _; rw [g3], hcur, fun b hb hs => cl b hb hs⟩
                · refine ⟨?_, hcur, fun b hb hs => ?_⟩
                  · rw [respond_gcDone c _ _ _ _ h]; show s3.gcDone + 1 = _; rw [g3]
                  · rw [respond_bkt_stw c hwf _ _ _ _ h b hs]; exact cl b hb hs
  · cases h


def SameQ (s0 s : State) : Prop := ∀ k, (s.bkt k).q = (s0.bkt k).q ∧ (s.bkt k).enabled = (s0.bkt k).enabled

theorem takeSentinel_isOpen (s : State) (b k : Nat) : ((takeSentinel s b).bkt k).isOpen = (s.bkt k).isOpen := by
  unfold takeSentinel
  split
  · simp only [emit, setBkt]; split
    · rename_i e; subst e; rfl
    · rfl
  · rfl

theorem canOpenNow_facts {c : Cfg} {s : State} {b : Nat} (h : canOpenNow c s b = true) :
    (c.info b).isSeq = true ∧ (s.bkt b).isOpen = false ∧
    ∀ b', b' ∈ curStages c b → (s.bkt b').enabled = true → (s.bkt b').q = [] := by
  unfold canOpenNow at h
  simp only [Bool.and_eq_true, Bool.not_eq_true'] at h
  refine ⟨h.1.1, h.1.2, ?_⟩
  intro b' hb' he
  have := (List.all_eq_true.mp h.2) b' hb'
  simp only [Bucket.isDrained, he, Bool.not_true, Bool.false_or, Bool.and_eq_true, Bucket.isEmpty] at this
  exact List.isEmpty_iff.mp this.2

theorem openBkt_isOpen (s : State) (b k : Nat) : ((openBkt s b).bkt k).isOpen = true → k = b ∨ (s.bkt k).isOpen = true := by
  simp only [openBkt, emit, setBkt]
  split
  · intro _; left; assumption
  · intro h; right; exact h

theorem sameQ_openBkt {s0 s : State} (h : SameQ s0 s) (b : Nat) : SameQ s0 (openBkt s b) := by
  intro k
  simp only [openBkt, emit, setBkt]
  split
  · rename_i e; subst e; exact h k
  · exact h k

/-- a sequentially opened bucket that `update_buckets` opens: every enabled earlier bucket (and the
first stop-the-world bucket) was empty when the loop started -/
theorem updateLoop_opens (c : Cfg) (s0 : State) (bs : List Nat) : ∀ (s : State) (u : Bool), SameQ s0 s →
    ∀ b, ((updateLoop c s bs u).1.bkt b).isOpen = true → (s.bkt b).isOpen = false →
      (c.info b).isSeq = true ∧ ∀ b', b' ∈ curStages c b → (s0.bkt b').enabled = true → (s0.bkt b').q = [] := by
  induction bs with
  | nil => intro s u _ b h1 h2; simp only [updateLoop] at h1; rw [h1] at h2; cases h2
  | cons b0 bs ih =>
    intro s u hq b h1 h2
    have fromOpen : canOpenNow c s b0 = true → b = b0 →
        (c.info b).isSeq = true ∧ ∀ b', b' ∈ curStages c b → (s0.bkt b').enabled = true → (s0.bkt b').q = [] := by
      intro hc e; subst e
      obtain ⟨f1, _, f3⟩ := canOpenNow_facts hc
      refine ⟨f1, fun b' hb' he => ?_⟩
      rw [← (hq b').1]; apply f3 b' hb'; rw [(hq b').2]; exact he
    unfold updateLoop at h1
    split at h1
    · exact ih _ _ hq b h1 h2
    · split at h1
      · exact ih _ _ hq b h1 h2
      · split at h1
        · rename_i hc
          split at h1
          · rcases openBkt_isOpen s b0 b h1 with e | e
            · exact fromOpen hc e
            · rw [e] at h2; cases h2
          · split at h1
            · rw [takeSentinel_isOpen] at h1
              rcases openBkt_isOpen s b0 b h1 with e | e
              · exact fromOpen hc e
              · rw [e] at h2; cases h2
            · rename_i hsent
              have hs5 : hasSentinel (openBkt s b0) b0 = false := by simpa using hsent
              have hq2 : SameQ s0 (takeSentinel (openBkt s b0) b0) := by
                intro k; rw [takeSentinel_none _ b0 hs5]; exact sameQ_openBkt hq b0 k
              cases ho : ((takeSentinel (openBkt s b0) b0).bkt b).isOpen with
              | false => exact ih _ _ hq2 b h1 ho
              | true =>
                rw [takeSentinel_isOpen] at ho
                rcases openBkt_isOpen s b0 b ho with e | e
                · exact fromOpen hc e
                · rw [e] at h2; cases h2
        · exact ih _ _ hq b h1 h2

theorem schedLoop_isOpen (bs : List Nat) : ∀ (s : State) (acc : Bool) (k : Nat),
    ((schedSentinelsLoop s bs acc).1.bkt k).isOpen = (s.bkt k).isOpen := by
  induction bs with
  | nil => intro s acc k; rfl
  | cons b bs ih =>
    intro s acc k
    unfold schedSentinelsLoop
    split
    · rw [ih, takeSentinel_isOpen]
    · exact ih _ _ _

theorem schedSentinels_isOpen (c : Cfg) (s : State) (k : Nat) : ((schedSentinels c s).1.bkt k).isOpen = (s.bkt k).isOpen := by
  unfold schedSentinels; simp only [emit]; exact schedLoop_isOpen _ s false k

theorem respond_isOpen (c : Cfg) (s s' : State) (tag : Nat) (r : LPR) (h : respond c s tag = some (s', r)) (k : Nat) :
    (s'.bkt k).isOpen = (s.bkt k).isOpen := by
  unfold respond at h
  split at h
  · cases h
  · split at h
    · injection h with h; injection h with h1 _; subst h1
      simp only [addScheduleCollection, emit, pushBkt, setBkt, bump]
      split
      · rename_i e; subst e; rfl
      · rfl
    · split at h
      · injection h with h; injection h with h1 _; subst h1; rfl
      · split at h
        · injection h with h; injection h with h1 _; subst h1; rfl
        · injection h with h; injection h with h1 _; subst h1; rfl

theorem onGcFinished_isOpen (c : Cfg) (hwf : c.WF) (s s' : State) (h : onGcFinished c s = some s') (k : Nat)
    (hk : (c.info k).isSeq = true) : (s'.bkt k).isOpen = true → (s.bkt k).isOpen = true := by
  unfold onGcFinished at h
  split at h
  · cases h
  · split at h
    · cases h
    · split at h
      · cases h
      · rename_i s1 hc
        injection h with h; subst h
        obtain ⟨i1, _, _, _⟩ := closeLoop_props c _ _ _ hc
        have hne : k ≠ c.concIdx := by
          intro e; rw [e, hwf.seq_def, hwf.conc_not_stw] at hk; cases hk
        intro ho
        have : (s1.bkt k).isOpen = true := by
          simp only [resume, emit] at ho
          unfold schedConcurrent at ho
          split at ho <;> simpa [emit, setBkt, hne] using ho
        exact i1 k this

/-- **C15 core**: `on_last_parked` opens a sequentially opened bucket only through `update_buckets`,
i.e. only when every enabled bucket of its open condition was empty on entry -/
theorem onLastParked_opens (c : Cfg) (hwf : c.WF) (s s' : State) (tag : Nat) (r : LPR)
    (h : onLastParked c s tag = some (s', r)) (b : Nat) (hb : (c.info b).isSeq = true)
    (h1 : (s.bkt b).isOpen = false) (h2 : (s'.bkt b).isOpen = true) :
    s.current = some .gc ∧ ∀ b', b' ∈ curStages c b → (s.bkt b').enabled = true → (s.bkt b').q = [] := by
  unfold onLastParked at h
  split at h
  · rw [respond_isOpen c _ _ _ _ h, h1] at h2; cases h2
  · rename_i hcur
    refine ⟨hcur, ?_⟩
    split at h
    · cases h
    · split at h
      · cases h
      · split at h
        · injection h with h; injection h with h1' _; subst h1'; rw [h1] at h2; cases h2
        · split at h
          · injection h with h; injection h with h1' _; subst h1'
            rw [schedSentinels_isOpen, h1] at h2; cases h2
          · rename_i hss
            have hss' : (schedSentinels c s).2 = false := by simpa using hss
            have hbk := schedSentinels_false c s hss'
            have hq : SameQ s (schedSentinels c s).1 := fun k => by rw [hbk]; exact ⟨rfl, rfl⟩
            have key : ∀ s2, s2 = (updateBuckets c (schedSentinels c s).1).1 → (s2.bkt b).isOpen = true →
                ∀ b', b' ∈ curStages c b → (s.bkt b').enabled = true → (s.bkt b').q = [] := by
              intro s2 e ho
              subst e
              have ho' : ((updateLoop c (schedSentinels c s).1 (List.range c.L) false).1.bkt b).isOpen = true := ho
              exact (updateLoop_opens c s _ _ false hq b ho' (by rw [hbk]; exact h1)).2
            split at h
            · injection h with h; injection h with h1' _; subst h1'
              exact key _ rfl h2
            · split at h
              · cases h
              · rename_i s3 hg3
                have o3 : (s3.bkt b).isOpen = true → ((updateBuckets c (schedSentinels c s).1).1.bkt b).isOpen = true :=
                  onGcFinished_isOpen c hwf _ _ hg3 b hb
                split at h
                · injection h with h; injection h with h1' _; subst h1'
                  exact key _ rfl (o3 h2)
                · rw [respond_isOpen c _ _ _ _ h] at h2
                  exact key _ rfl (o3 h2)
  · cases h


theorem notifyOne_same {c : Cfg} {s s' : State} {x : Option Nat} (h : notifyOne c s x = some s') :
    s' = { s with pc := s'.pc } := by
  rcases notifyOne_cases h with ⟨x0, _, _, _, rfl⟩ | ⟨_, _, rfl⟩ <;> rfl

/-- what an action other than `park` can do to the goal counters and to the `open` flags -/
theorem step_other (c : Cfg) (s s' : State) (a : Act) (hs : step c s a = some s') :
    (∃ w tag, a = .park w tag) ∨
    (s'.gcDone = s.gcDone ∧ s'.resumes = s.resumes ∧
      ∀ b, (s'.bkt b).isOpen = true → (s.bkt b).isOpen = true ∨ (c.info b).isFirstStw = true) := by
  cases a
  case park w tag => exact Or.inl ⟨w, tag, rfl⟩
  case openFirst w b0 =>
    right
    simp only [step] at hs
    split at hs
    · rename_i hg; injection hs with hs; subst hs
      refine ⟨rfl, rfl, fun b hb => ?_⟩
      simp only [setBkt] at hb
      split at hb
      · rename_i e; subst e; exact Or.inr hg.2.2.2.1
      · exact Or.inl hb
    · cases hs
  case makeRequest g x =>
    right
    simp only [step] at hs
    have hc : (consumePending s g).gcDone = s.gcDone ∧ (consumePending s g).resumes = s.resumes ∧ (consumePending s g).bkt = s.bkt := by
      unfold consumePending; split <;> exact ⟨rfl, rfl, rfl⟩
    split at hs
    · cases hs
    · split at hs
      · split at hs
        · injection hs with hs; subst hs; exact ⟨hc.1, hc.2.1, fun b hb => Or.inl (by rw [← hc.2.2]; exact hb)⟩
        · cases hs
      · have := notifyOne_same hs
        rw [this]
        cases g <;> exact ⟨hc.1, hc.2.1, fun b hb => Or.inl (by rw [← hc.2.2]; exact hb)⟩
  case bucketNotifyOne w b0 x =>
    right
    simp only [step] at hs
    split at hs
    · rw [notifyOne_same hs]; exact ⟨rfl, rfl, fun b hb => Or.inl hb⟩
    · cases hs
  case mutNotifyOne b0 x =>
    right
    simp only [step] at hs
    split at hs
    · rw [notifyOne_same hs]; exact ⟨rfl, rfl, fun b hb => Or.inl hb⟩
    · cases hs
  case wake w =>
    right
    simp only [step] at hs
    split at hs
    · injection hs with hs; subst hs
      obtain ⟨p, _, he⟩ := afterUnpark_pc { s with parked := s.parked - 1 } w
      rw [he]; exact ⟨rfl, rfl, fun b hb => Or.inl hb⟩
    · cases hs
  all_goals
    right
    simp only [step] at hs
    repeat' (split at hs)
    all_goals first
      | (injection hs with hs; subst hs
         refine ⟨rfl, rfl, fun b hb => Or.inl ?_⟩
         first
          | exact hb
          | (simp only [setBkt, pushBkt, bump, setBuf, setPc] at hb
             first
              | exact hb
              | (split at hb
                 · rename_i e; subst e; exact hb
                 · exact hb)))
      | cases hs


/-- the shape of a `park` step: not last → wait; last → `on_last_parked`, then only `pc`/`parked` change -/
theorem step_park_cases {c : Cfg} {s s' : State} {w tag : Nat} (hs : step c s (.park w tag) = some s') :
    w < c.n ∧ s.pc w = .parking ∧ s.parked < c.n ∧
    ((s.parked + 1 ≠ c.n ∧ s' = setPc { s with parked := s.parked + 1, trace := [] } w .waiting) ∨
     (s.parked + 1 = c.n ∧ ∃ s1 r, onLastParked c { s with parked := s.parked + 1, trace := [] } tag = some (s1, r) ∧
        s' = { s1 with pc := s'.pc, parked := s'.parked })) := by
  simp only [step] at hs
  split at hs
  · rename_i hg
    refine ⟨hg.1, hg.2.1, hg.2.2, ?_⟩
    split at hs
    · rename_i hlast
      right
      refine ⟨hlast, ?_⟩
      split at hs
      · cases hs
      · rename_i s1 hl; injection hs with hs; subst hs; exact ⟨s1, _, hl, rfl⟩
      · rename_i s1 hl; injection hs with hs; subst hs
        obtain ⟨p, _, he⟩ := afterUnpark_pc { s1 with parked := s1.parked - 1 } w
        exact ⟨s1, _, hl, by rw [he]; rfl⟩
      · rename_i s1 hl; injection hs with hs; subst hs
        obtain ⟨p, _, he⟩ := afterUnpark_pc { notifyAll s1 with parked := (notifyAll s1).parked - 1 } w
        exact ⟨s1, _, hl, by rw [he]; rfl⟩
    · rename_i hnl
      left
      injection hs with hs
      exact ⟨hnl, hs.symm⟩
  · cases hs


/-! ## local deques of parked / exited workers are empty (C16 no_work_lost) -/

/-- the local deque of a worker is empty unless it runs a packet or polls without having seen it empty -/
def bufOk (s : State) (x : Nat) : Prop :=
  match s.pc x with
  | .exec _ => True
  | .polling seen => Cont.buf x ∈ seen → s.buf x = []
  | _ => s.buf x = []

def InvF (c : Cfg) (s : State) : Prop := ∀ x, x < c.n → bufOk s x

theorem bufOk_of_eq {s s' : State} {x : Nat} (h : bufOk s x) (hpc : s'.pc x = s.pc x) (hb : s'.buf x = s.buf x) : bufOk s' x := by
  unfold bufOk at *; rw [hpc, hb]; exact h

theorem bufOk_exec {s : State} {x : Nat} (h : (s.pc x).isExec = true) : bufOk s x := by
  unfold bufOk; cases hp : s.pc x <;> simp_all [PC.isExec]

theorem bufOk_polling_nil {s : State} {x : Nat} (h : s.pc x = .polling []) : bufOk s x := by
  unfold bufOk; rw [h]; intro hm; cases hm

theorem invF_same {c : Cfg} {s s' : State} (h : InvF c s) (hpc : s'.pc = s.pc) (hb : s'.buf = s.buf) : InvF c s' :=
  fun x hx => bufOk_of_eq (h x hx) (by rw [hpc]) (by rw [hb])

/-- `pc` of one worker changes to a state in which `bufOk` is re-established by `hp`; buffers may only
shrink (erase) or change for a running worker -/
theorem invF_setPc {c : Cfg} {s s' : State} {w : Nat} {p : PC} (h : InvF c s) (hpc : s'.pc = (setPc s w p).pc)
    (hb : ∀ x, x ≠ w → s'.buf x = s.buf x ∨ (s.buf x = [] ∧ s'.buf x = []) ∨ (s.pc x).isExec = true)
    (hw : bufOk s' w) : InvF c s' := by
  intro x hx
  by_cases e : x = w
  · subst e; exact hw
  · have hpx : s'.pc x = s.pc x := by rw [hpc]; simp [setPc, e]
    rcases hb x e with h1 | ⟨h1, h2⟩ | h1
    · exact bufOk_of_eq (h x hx) hpx h1
    · exact bufOk_of_eq (h x hx) hpx (by rw [h1, h2])
    · exact bufOk_exec (by rw [hpx]; exact h1)

theorem bufOk_waiting_of {s : State} {x : Nat} (h : bufOk s x) (hp : ∀ q, s.pc x ≠ .exec q) (hq : ∀ seen, s.pc x ≠ .polling seen) :
    s.buf x = [] := by
  unfold bufOk at h
  cases hpc : s.pc x <;> rw [hpc] at h <;> first | exact h | exact absurd hpc (hp _) | exact absurd hpc (hq _)

theorem invF_notifyAll {c : Cfg} {s : State} (h : InvF c s) : InvF c (notifyAll s) := by
  intro x hx
  have := h x hx
  by_cases hw : s.pc x = .waiting
  · have hb : s.buf x = [] := by unfold bufOk at this; rw [hw] at this; exact this
    unfold bufOk
    have : (notifyAll s).pc x = .woken := by simp [notifyAll, hw]
    rw [this]; exact hb
  · exact bufOk_of_eq this (by simp [notifyAll, hw]) rfl

theorem invF_notifyOne {c : Cfg} {s s' : State} {x : Option Nat} (h : InvF c s) (hs : notifyOne c s x = some s') : InvF c s' := by
  rcases notifyOne_cases hs with ⟨x0, _, hx0, hw, rfl⟩ | ⟨_, _, rfl⟩
  · refine invF_setPc h rfl (fun x _ => Or.inl rfl) ?_
    have := h x0 hx0
    unfold bufOk at *
    rw [hw] at this
    simp only [setPc, if_true]; exact this
  · exact h


theorem bufOk_erase {s s' : State} {x : Nat} {p : Pkt} (h : bufOk s x) (hpc : s'.pc x = s.pc x)
    (hb : s'.buf x = (s.buf x).erase p) : bufOk s' x := by
  unfold bufOk at *
  rw [hpc, hb]
  cases hp : s.pc x <;> rw [hp] at h <;> simp only at h ⊢
  · intro hm; rw [h hm]; rfl
  all_goals (rw [h]; rfl)

theorem bufOk_nonrunning {s' : State} {x : Nat} (hb : s'.buf x = []) : bufOk s' x := by
  unfold bufOk
  cases hp : s'.pc x <;> simp only <;> first | trivial | exact hb | (intro _; exact hb)

theorem step_invF (c : Cfg) (s s' : State) (a : Act) (h : InvF c s) (hs : step c s a = some s') : InvF c s' := by
  cases a with
  | observeEmpty w k =>
    simp only [step] at hs
    split at hs
    · rename_i seen hpc
      split at hs
      · rename_i hg; injection hs with hs; subst hs
        refine invF_setPc h rfl (fun x _ => Or.inl rfl) ?_
        have hw := h w hg.1
        unfold bufOk at hw ⊢
        rw [hpc] at hw
        simp only [setPc, if_true]
        intro hm
        rcases List.mem_cons.mp hm with e | e
        · subst e
          have : looksEmpty s w (.buf w) = true := hg.2
          simp only [looksEmpty] at this
          exact List.isEmpty_iff.mp this
        · exact hw e
      · cases hs
    · cases hs
  | pollBucket w b p =>
    simp only [step] at hs
    split at hs
    · split at hs
      · injection hs with hs; subst hs
        exact invF_setPc (s := s) h rfl (fun x _ => Or.inl rfl) (bufOk_exec (by simp [setPc, PC.isExec]))
      · cases hs
    · cases hs
  | batchMove w b p =>
    simp only [step] at hs
    split at hs
    · rename_i p0 hpc
      split at hs
      · injection hs with hs; subst hs
        intro x hx
        by_cases e : x = w
        · subst e; exact bufOk_exec (by show (s.pc x).isExec = true; rw [hpc]; rfl)
        · exact bufOk_of_eq (h x hx) rfl (by simp [setBuf, setBkt, e])
      · cases hs
    · split at hs
      · injection hs with hs; subst hs
        intro x hx
        by_cases e : x = w
        · subst e; exact bufOk_polling_nil (by simp [setPc])
        · exact bufOk_of_eq (h x hx) (by simp [setPc, setBuf, setBkt, e]) (by simp [setPc, setBuf, setBkt, e])
      · cases hs
    · cases hs
  | popLocal w p =>
    simp only [step] at hs
    split at hs
    · split at hs
      · injection hs with hs; subst hs
        refine invF_setPc (s := s) h rfl (fun x hxw => Or.inl ?_) (bufOk_exec (by simp [setPc, PC.isExec]))
        simp [setPc, setBuf, hxw]
      · cases hs
    · cases hs
  | popDesig w p =>
    simp only [step] at hs
    split at hs
    · split at hs
      · injection hs with hs; subst hs
        exact invF_setPc (s := s) h rfl (fun x _ => Or.inl rfl) (bufOk_exec (by simp [setPc, PC.isExec]))
      · cases hs
    · cases hs
  | steal w v p =>
    simp only [step] at hs
    split at hs
    · split at hs
      · rename_i hg; injection hs with hs; subst hs
        intro x hx
        by_cases e : x = w
        · subst e; exact bufOk_exec (by simp [setPc, PC.isExec])
        · by_cases e2 : x = v
          · subst e2
            exact bufOk_erase (p := p) (h x hx) (by simp [setPc, setBuf, e]) (by simp [setPc, setBuf, removeP])
          · exact bufOk_of_eq (h x hx) (by simp [setPc, setBuf, e]) (by simp [setPc, setBuf, e2])
      · cases hs
    · cases hs
  | pollMiss w =>
    simp only [step] at hs
    split at hs
    · rename_i seen hpc
      split at hs
      · rename_i hg; injection hs with hs; subst hs
        refine invF_setPc h rfl (fun x _ => Or.inl rfl) ?_
        have hw := h w hg.1
        unfold bufOk at hw
        rw [hpc] at hw
        apply bufOk_nonrunning
        show s.buf w = []
        apply hw
        have := (List.all_eq_true.mp hg.2) (.buf w) (mem_allConts_buf hg.1)
        simpa using this
      · cases hs
    · cases hs
  | push w b tag =>
    simp only [step] at hs
    split at hs
    · injection hs with hs; subst hs; exact invF_same h rfl rfl
    · cases hs
  | pushLocal w b tag =>
    simp only [step] at hs
    split at hs
    · rename_i hg; injection hs with hs; subst hs
      intro x hx
      by_cases e : x = w
      · subst e; exact bufOk_exec (by show (s.pc x).isExec = true; exact hg.2.1)
      · exact bufOk_of_eq (h x hx) rfl (by simp [setBuf, bump, e])
    · cases hs
  | pushDesig w x tag =>
    simp only [step] at hs
    split at hs
    · injection hs with hs; subst hs; exact invF_same h rfl rfl
    · cases hs
  | setSentinel w b tag =>
    simp only [step] at hs
    split at hs
    · injection hs with hs; subst hs; exact invF_same h rfl rfl
    · cases hs
  | bucketNotifyOne w b x =>
    simp only [step] at hs
    split at hs
    · exact invF_notifyOne h hs
    · cases hs
  | bucketNotifyAll w b =>
    simp only [step] at hs
    split at hs
    · injection hs with hs; subst hs; exact invF_notifyAll h
    · cases hs
  | setEnabled w b v =>
    simp only [step] at hs
    split at hs
    · injection hs with hs; subst hs; exact invF_same h rfl rfl
    · cases hs
  | stopAll w =>
    simp only [step] at hs
    split at hs
    · injection hs with hs; subst hs; exact invF_same h rfl rfl
    · cases hs
  | clearRequest w =>
    simp only [step] at hs
    split at hs
    · injection hs with hs; subst hs; exact invF_same h rfl rfl
    · cases hs
  | openFirst w b =>
    simp only [step] at hs
    split at hs
    · injection hs with hs; subst hs; exact invF_same h rfl rfl
    · cases hs
  | wakeAll w =>
    simp only [step] at hs
    split at hs
    · injection hs with hs; subst hs; exact invF_notifyAll h
    · cases hs
  | execEnd w =>
    simp only [step] at hs
    split at hs
    · split at hs
      · injection hs with hs; subst hs
        exact invF_setPc (s := s) h rfl (fun x _ => Or.inl rfl) (bufOk_polling_nil (by simp [setPc]))
      · cases hs
    · cases hs
  | park w tag =>
    simp only [step] at hs
    split at hs
    · rename_i hg
      obtain ⟨hw, hpc, _⟩ := hg
      have hbw : s.buf w = [] := by have := h w hw; unfold bufOk at this; rw [hpc] at this; exact this
      split at hs
      · split at hs
        · cases hs
        · rename_i s1 hl
          have f := frame_onLastParked c _ _ _ _ hl
          injection hs with hs; subst hs
          have h1 : InvF c s1 := invF_same (s := s) h f.pc f.buf
          exact invF_setPc h1 rfl (fun x _ => Or.inl rfl) (bufOk_nonrunning (by show s1.buf w = []; rw [f.buf]; exact hbw))
        · rename_i s1 hl
          have f := frame_onLastParked c _ _ _ _ hl
          injection hs with hs; subst hs
          have h1 : InvF c s1 := invF_same (s := s) h f.pc f.buf
          obtain ⟨p, _, he⟩ := afterUnpark_pc { s1 with parked := s1.parked - 1 } w
          rw [he]
          exact invF_setPc (s := s1) h1 rfl (fun x _ => Or.inl rfl) (bufOk_nonrunning (by show s1.buf w = []; rw [f.buf]; exact hbw))
        · rename_i s1 hl
          have f := frame_onLastParked c _ _ _ _ hl
          injection hs with hs; subst hs
          have h1 : InvF c (notifyAll s1) := invF_notifyAll (invF_same (s := s) h f.pc f.buf)
          obtain ⟨p, _, he⟩ := afterUnpark_pc { notifyAll s1 with parked := (notifyAll s1).parked - 1 } w
          rw [he]
          exact invF_setPc (s := notifyAll s1) h1 rfl (fun x _ => Or.inl rfl)
            (bufOk_nonrunning (by show s1.buf w = []; rw [f.buf]; exact hbw))
      · injection hs with hs; subst hs
        exact invF_setPc (s := s) h rfl (fun x _ => Or.inl rfl) (bufOk_nonrunning hbw)
    · cases hs
  | spurious w =>
    simp only [step] at hs
    split at hs
    · rename_i hg; injection hs with hs; subst hs
      have hbw : s.buf w = [] := by have := h w hg.1; unfold bufOk at this; rw [hg.2] at this; exact this
      exact invF_setPc h rfl (fun x _ => Or.inl rfl) (bufOk_nonrunning hbw)
    · cases hs
  | wake w =>
    simp only [step] at hs
    split at hs
    · rename_i hg; injection hs with hs; subst hs
      have hbw : s.buf w = [] := by have := h w hg.1; unfold bufOk at this; rw [hg.2.1] at this; exact this
      obtain ⟨p, _, he⟩ := afterUnpark_pc { s with parked := s.parked - 1 } w
      rw [he]
      exact invF_setPc (s := s) h rfl (fun x _ => Or.inl rfl) (bufOk_nonrunning hbw)
    · cases hs
  | surrender w =>
    simp only [step] at hs
    split at hs
    · split at hs
      · rename_i hg
        have hbw : s.buf w = [] := by have := h w hg.1; unfold bufOk at this; rw [hg.2] at this; exact this
        split at hs
        · injection hs with hs; subst hs
          exact invF_setPc (s := s) h rfl (fun x _ => Or.inl rfl) (bufOk_nonrunning hbw)
        · injection hs with hs; subst hs
          exact invF_setPc (s := s) h rfl (fun x _ => Or.inl rfl) (bufOk_nonrunning hbw)
      · cases hs
    · cases hs
  | requestFlag =>
    simp only [step] at hs
    split at hs <;> (injection hs with hs; subst hs)
    · exact h
    · exact invF_same h rfl rfl
  | makeRequest g x =>
    simp only [step] at hs
    have hc : InvF c (consumePending s g) := by
      unfold consumePending; split
      · exact invF_same h rfl rfl
      · exact h
    split at hs
    · cases hs
    · split at hs
      · split at hs
        · injection hs with hs; subst hs; exact hc
        · cases hs
      · refine invF_notifyOne (s := setRequested (consumePending s g) g true) ?_ hs
        cases g <;> exact invF_same hc rfl rfl
  | mutPush b tag =>
    simp only [step] at hs
    split at hs
    · injection hs with hs; subst hs; exact invF_same h rfl rfl
    · cases hs
  | mutNotifyOne b x =>
    simp only [step] at hs
    split at hs
    · exact invF_notifyOne h hs
    · cases hs
  | initSetEnabled b v =>
    simp only [step] at hs
    split at hs
    · injection hs with hs; subst hs; exact invF_same h rfl rfl
    · cases hs
  | prepareSurrender =>
    simp only [step] at hs
    split at hs
    · injection hs with hs; subst hs; exact invF_same h rfl rfl
    · cases hs
  | respawn =>
    simp only [step] at hs
    split at hs
    · split at hs
      · injection hs with hs; subst hs
        intro x hx
        exact bufOk_polling_nil (by simp [hx])
      · cases hs
    · cases hs

theorem init_invF (c : Cfg) : InvF c (init c) := fun x _ => bufOk_polling_nil rfl

theorem reachable_invF {c : Cfg} {s : State} (h : Reachable c s) : InvF c s := by
  obtain ⟨run, hr⟩ := h
  exact exec_some_induct c (InvF c) (fun s s' a hh hs => step_invF c s s' a hh hs) run _ _ (init_invF c) hr


/-! ## exit protocol (C16) -/

/-- exit protocol: an exited worker exists only while an exit goal is current; once all structs are
surrendered the goal is completed -/
structure InvE (c : Cfg) (s : State) : Prop where
  exited : ∀ x, x < c.n → s.pc x = .exited → ∃ g, s.current = some g ∧ g.isExit = true
  done : s.creation = .surrendered c.n → s.current = none

theorem notifyAll_exited (s : State) (x : Nat) : (notifyAll s).pc x = .exited → s.pc x = .exited := by
  simp only [notifyAll]; split
  · intro h; cases h
  · exact id

/-- actions that are not `park`, `wake`, `surrender`, `respawn`: no new exited worker, same goal,
creation state unchanged or `Spawned → Surrendered(0)` -/
theorem step_other_E (c : Cfg) (s s' : State) (a : Act) (hs : step c s a = some s') :
    (∃ w tag, a = .park w tag) ∨ (∃ w, a = .wake w) ∨ (∃ w, a = .surrender w) ∨ a = .respawn ∨
    (s'.current = s.current ∧ (s'.creation = s.creation ∨ s'.creation = .surrendered 0) ∧
      ∀ x, s'.pc x = .exited → s.pc x = .exited) := by
  cases a
  case park w tag => exact Or.inl ⟨w, tag, rfl⟩
  case wake w => exact Or.inr (Or.inl ⟨w, rfl⟩)
  case surrender w => exact Or.inr (Or.inr (Or.inl ⟨w, rfl⟩))
  case respawn => exact Or.inr (Or.inr (Or.inr (Or.inl rfl)))
  case makeRequest g x =>
    right; right; right; right
    simp only [step] at hs
    have hc : (consumePending s g).current = s.current ∧ (consumePending s g).creation = s.creation ∧ (consumePending s g).pc = s.pc := by
      unfold consumePending; split <;> exact ⟨rfl, rfl, rfl⟩
    split at hs
    · cases hs
    · split at hs
      · split at hs
        · injection hs with hs; subst hs; exact ⟨hc.1, Or.inl hc.2.1, fun x hx => by rw [← hc.2.2]; exact hx⟩
        · cases hs
      · rcases notifyOne_cases hs with ⟨x0, _, _, hw, rfl⟩ | ⟨_, _, rfl⟩
        · cases g <;> refine ⟨hc.1, Or.inl hc.2.1, fun x hx => ?_⟩ <;>
            (simp only [setPc, setRequested] at hx; split at hx
             · cases hx
             · rw [← hc.2.2]; exact hx)
        · cases g <;> exact ⟨hc.1, Or.inl hc.2.1, fun x hx => by rw [← hc.2.2]; exact hx⟩
  case bucketNotifyOne w b0 x =>
    right; right; right; right
    simp only [step] at hs
    split at hs
    · rcases notifyOne_cases hs with ⟨x0, _, _, hw, rfl⟩ | ⟨_, _, rfl⟩
      · refine ⟨rfl, Or.inl rfl, fun x hx => ?_⟩
        simp only [setPc] at hx; split at hx
        · cases hx
        · exact hx
      · exact ⟨rfl, Or.inl rfl, fun x hx => hx⟩
    · cases hs
  case mutNotifyOne b0 x =>
    right; right; right; right
    simp only [step] at hs
    split at hs
    · rcases notifyOne_cases hs with ⟨x0, _, _, hw, rfl⟩ | ⟨_, _, rfl⟩
      · refine ⟨rfl, Or.inl rfl, fun x hx => ?_⟩
        simp only [setPc] at hx; split at hx
        · cases hx
        · exact hx
      · exact ⟨rfl, Or.inl rfl, fun x hx => hx⟩
    · cases hs
  case prepareSurrender =>
    right; right; right; right
    simp only [step] at hs
    split at hs
    · injection hs with hs; subst hs; exact ⟨rfl, Or.inr rfl, fun x hx => hx⟩
    · cases hs
  all_goals
    right; right; right; right
    simp only [step] at hs
    repeat' (split at hs)
    all_goals first
      | (injection hs with hs; subst hs
         refine ⟨rfl, Or.inl rfl, fun x hx => ?_⟩
         first
          | exact hx
          | exact notifyAll_exited _ _ hx
          | (simp only [setPc, setBkt, setBuf, setDesig] at hx
             first
              | exact hx
              | (split at hx
                 · cases hx
                 · exact hx)))
      | cases hs


theorem onLastParked_current_exit {c : Cfg} {s s' : State} {tag : Nat} {r : LPR} (h : onLastParked c s tag = some (s', r)) :
    ¬ (∃ g, s.current = some g ∧ g.isExit = true) := by
  intro ⟨g, hg, hx⟩
  unfold onLastParked at h
  split at h
  · rename_i hc; rw [hc] at hg; cases hg
  · rename_i hc; rw [hc] at hg; cases hg; cases hx
  · cases h

theorem afterUnpark_exited {s : State} {w : Nat} (h : (afterUnpark s w).pc w = .exited) :
    ∃ g, s.current = some g ∧ g.isExit = true := by
  unfold afterUnpark at h
  split at h
  · rename_i hc; exact ⟨_, hc, rfl⟩
  · rename_i hc; exact ⟨_, hc, rfl⟩
  · simp [setPc] at h

theorem afterUnpark_pc_other {s : State} {w x : Nat} (hx : x ≠ w) : (afterUnpark s w).pc x = s.pc x := by
  obtain ⟨p, _, he⟩ := afterUnpark_pc s w; rw [he]; simp [setPc, hx]
theorem afterUnpark_current (s : State) (w : Nat) : (afterUnpark s w).current = s.current := by
  obtain ⟨p, _, he⟩ := afterUnpark_pc s w; rw [he]; rfl
theorem afterUnpark_creation (s : State) (w : Nat) : (afterUnpark s w).creation = s.creation := by
  obtain ⟨p, _, he⟩ := afterUnpark_pc s w; rw [he]; rfl

theorem no_parking_when_all_surrendered {c : Cfg} {s : State} (hA : InvA c s) (hcr : s.creation = .surrendered c.n)
    (x : Nat) (hx : x < c.n) : s.pc x = .surrendered := by
  have := countW_all c.n _ (hA.pool c.n hcr).symm x hx
  simpa using this

theorem step_invE (c : Cfg) (hn : 0 < c.n) (s s' : State) (a : Act) (hA : InvA c s) (h : InvE c s)
    (hs : step c s a = some s') : InvE c s' := by
  have hA' := step_invA c s s' a hA hs
  rcases step_other_E c s s' a hs with ⟨w, tag, rfl⟩ | ⟨w, rfl⟩ | ⟨w, rfl⟩ | rfl | ⟨h1, h2, h3⟩
  · -- park
    simp only [step] at hs
    split at hs
    · rename_i hg
      obtain ⟨hw, hpc, _⟩ := hg
      have hnotall : s.creation ≠ .surrendered c.n := by
        intro e; have := no_parking_when_all_surrendered hA e w hw; rw [hpc] at this; cases this
      split at hs
      · split at hs
        · cases hs
        · rename_i s1 hl
          have f := frame_onLastParked c _ _ _ _ hl
          have hne := onLastParked_current_exit hl
          injection hs with hs; subst hs
          constructor
          · intro x hx hxe
            simp only [setPc] at hxe
            split at hxe
            · cases hxe
            · rw [f.pc] at hxe; exact absurd (h.exited x hx hxe) hne
          · intro e; exact absurd (by rw [← f.creation]; exact e) hnotall
        · rename_i s1 hl
          have f := frame_onLastParked c _ _ _ _ hl
          have hne := onLastParked_current_exit hl
          injection hs with hs; subst hs
          constructor
          · intro x hx hxe
            by_cases e : x = w
            · subst e; rw [afterUnpark_current]; exact afterUnpark_exited hxe
            · rw [afterUnpark_pc_other e] at hxe
              have : s.pc x = .exited := by rw [← f.pc]; exact hxe
              exact absurd (h.exited x hx this) hne
          · intro e; rw [afterUnpark_creation] at e; exact absurd (by rw [← f.creation]; exact e) hnotall
        · rename_i s1 hl
          have f := frame_onLastParked c _ _ _ _ hl
          have hne := onLastParked_current_exit hl
          injection hs with hs; subst hs
          constructor
          · intro x hx hxe
            by_cases e : x = w
            · subst e; rw [afterUnpark_current]; exact afterUnpark_exited hxe
            · rw [afterUnpark_pc_other e] at hxe
              have : s.pc x = .exited := by rw [← f.pc]; exact notifyAll_exited s1 x hxe
              exact absurd (h.exited x hx this) hne
          · intro e; rw [afterUnpark_creation] at e; exact absurd (by rw [← f.creation]; exact e) hnotall
      · injection hs with hs; subst hs
        constructor
        · intro x hx hxe
          simp only [setPc] at hxe
          split at hxe
          · cases hxe
          · exact h.exited x hx hxe
        · intro e; exact absurd e hnotall
    · cases hs
  · -- wake
    simp only [step] at hs
    split at hs
    · rename_i hg; injection hs with hs; subst hs
      constructor
      · intro x hx hxe
        rw [afterUnpark_current]
        by_cases e : x = w
        · subst e; exact afterUnpark_exited hxe
        · rw [afterUnpark_pc_other e] at hxe; exact h.exited x hx hxe
      · intro e; rw [afterUnpark_creation] at e
        have := no_parking_when_all_surrendered hA e w hg.1; rw [hg.2.1] at this; cases this
    · cases hs
  · -- surrender
    simp only [step] at hs
    split at hs
    · rename_i k hcr
      split at hs
      · rename_i hg
        split at hs
        · rename_i hk; injection hs with hs; subst hs
          constructor
          · intro x hx hxe
            -- all structs are in the pool now: nobody is `exited`
            have := no_parking_when_all_surrendered hA' (by show Creation.surrendered (k + 1) = _; rw [hk]) x hx
            rw [this] at hxe; cases hxe
          · intro _; rfl
        · rename_i hk; injection hs with hs; subst hs
          constructor
          · intro x hx hxe
            simp only [setPc] at hxe
            split at hxe
            · cases hxe
            · exact h.exited x hx hxe
          · intro e; simp only [setPc] at e; injection e with e; exact absurd e hk
      · cases hs
    · cases hs
  · -- respawn
    simp only [step] at hs
    split at hs
    · rename_i k hcr
      split at hs
      · rename_i hk; injection hs with hs; subst hs
        constructor
        · intro x hx hxe; simp [hx] at hxe
        · intro e; cases e
      · cases hs
    · cases hs
  · constructor
    · intro x hx hxe; rw [h1]; exact h.exited x hx (h3 x hxe)
    · intro e
      rw [h1]
      rcases h2 with h2 | h2
      · exact h.done (h2 ▸ e)
      · rw [h2] at e; injection e with e; omega

theorem init_invE (c : Cfg) : InvE c (init c) := ⟨fun x _ hx => by simp [init] at hx, fun e => by simp [init] at e⟩

theorem reachable_invE {c : Cfg} (hn : 0 < c.n) {s : State} (h : Reachable c s) : InvA c s ∧ InvE c s := by
  obtain ⟨run, hr⟩ := h
  exact exec_some_induct c (fun s => InvA c s ∧ InvE c s)
    (fun s s' a hh hs => ⟨step_invA c s s' a hh.1 hs, step_invE c hn s s' a hh.1 hh.2 hs⟩)
    run _ _ ⟨init_invA c, init_invE c⟩ hr


theorem notifyAll_exsu (s : State) (x : Nat) : ((notifyAll s).pc x = .exited ↔ s.pc x = .exited) ∧
    ((notifyAll s).pc x = .surrendered ↔ s.pc x = .surrendered) := by
  simp only [notifyAll]; split
  · rename_i h; rw [h]; simp
  · exact ⟨Iff.rfl, Iff.rfl⟩

theorem setPc_exsu {s : State} {w : Nat} {p : PC} (x : Nat) (h1 : s.pc w ≠ .exited) (h2 : s.pc w ≠ .surrendered)
    (h3 : p ≠ .exited) (h4 : p ≠ .surrendered) :
    ((setPc s w p).pc x = .exited ↔ s.pc x = .exited) ∧ ((setPc s w p).pc x = .surrendered ↔ s.pc x = .surrendered) := by
  simp only [setPc]; split
  · rename_i e; subst e; simp [h1, h2, h3, h4]
  · exact ⟨Iff.rfl, Iff.rfl⟩

/-- actions other than `park`, `wake`, `surrender`, `respawn` neither create nor remove exited or
surrendered workers -/
theorem step_other_exsu (c : Cfg) (s s' : State) (a : Act) (hs : step c s a = some s') :
    (∃ w tag, a = .park w tag) ∨ (∃ w, a = .wake w) ∨ (∃ w, a = .surrender w) ∨ a = .respawn ∨
    ∀ x, (s'.pc x = .exited ↔ s.pc x = .exited) ∧ (s'.pc x = .surrendered ↔ s.pc x = .surrendered) := by
  have hn1 : ∀ {s0 s1 : State} {x : Option Nat}, notifyOne c s0 x = some s1 →
      ∀ y, (s1.pc y = .exited ↔ s0.pc y = .exited) ∧ (s1.pc y = .surrendered ↔ s0.pc y = .surrendered) := by
    intro s0 s1 x h y
    rcases notifyOne_cases h with ⟨x0, _, _, hw, rfl⟩ | ⟨_, _, rfl⟩
    · exact setPc_exsu y (by rw [hw]; simp) (by rw [hw]; simp) (by simp) (by simp)
    · exact ⟨Iff.rfl, Iff.rfl⟩
  cases a
  case park w tag => exact Or.inl ⟨w, tag, rfl⟩
  case wake w => exact Or.inr (Or.inl ⟨w, rfl⟩)
  case surrender w => exact Or.inr (Or.inr (Or.inl ⟨w, rfl⟩))
  case respawn => exact Or.inr (Or.inr (Or.inr (Or.inl rfl)))
  case makeRequest g x =>
    right; right; right; right
    simp only [step] at hs
    have hc : (consumePending s g).pc = s.pc := by unfold consumePending; split <;> rfl
    split at hs
    · cases hs
    · split at hs
      · split at hs
        · injection hs with hs; subst hs; intro y; rw [hc]; exact ⟨Iff.rfl, Iff.rfl⟩
        · cases hs
      · intro y
        have := hn1 hs y
        have e : (setRequested (consumePending s g) g true).pc = s.pc := by cases g <;> exact hc
        rw [e] at this; exact this
  case bucketNotifyOne w b0 x =>
    right; right; right; right
    simp only [step] at hs
    split at hs
    · exact hn1 hs
    · cases hs
  case mutNotifyOne b0 x =>
    right; right; right; right
    simp only [step] at hs
    split at hs
    · exact hn1 hs
    · cases hs
  all_goals
    right; right; right; right
    simp only [step] at hs
    repeat' (split at hs)
    all_goals first
      | (injection hs with hs; subst hs
         intro y
         first
          | exact ⟨Iff.rfl, Iff.rfl⟩
          | exact notifyAll_exsu _ _
          | (refine setPc_exsu y ?_ ?_ ?_ ?_ <;> simp_all [setBkt, setBuf, setDesig]))
      | cases hs


theorem respond_exitsDone {c : Cfg} {s s' : State} {tag : Nat} {r : LPR} (h : respond c s tag = some (s', r)) :
    s'.exitsDone = s.exitsDone := by
  unfold respond at h
  split at h
  · cases h
  · split at h
    · injection h with h; injection h with h1 _; subst h1; rfl
    · split at h
      · injection h with h; injection h with h1 _; subst h1; rfl
      · split at h
        · injection h with h; injection h with h1 _; subst h1; rfl
        · injection h with h; injection h with h1 _; subst h1; rfl

theorem onGcFinished_exitsDone {c : Cfg} {s s' : State} (h : onGcFinished c s = some s') : s'.exitsDone = s.exitsDone := by
  unfold onGcFinished at h
  split at h
  · cases h
  · split at h
    · cases h
    · split at h
      · cases h
      · rename_i s1 hc
        injection h with h; subst h
        have h1 := (sbb_closeLoop c _ _ _ hc).counters.2.2.2.2.2.2.2.2
        have h2 := (sbb_schedConcurrent c s1).counters.2.2.2.2.2.2.2.2
        show (schedConcurrent c s1).exitsDone = _
        rw [h2, h1]; rfl

theorem onLastParked_exitsDone {c : Cfg} {s s' : State} {tag : Nat} {r : LPR} (h : onLastParked c s tag = some (s', r)) :
    s'.exitsDone = s.exitsDone := by
  unfold onLastParked at h
  split at h
  · exact respond_exitsDone h
  · split at h
    · cases h
    · split at h
      · cases h
      · split at h
        · injection h with h; injection h with h1 _; subst h1; rfl
        · split at h
          · injection h with h; injection h with h1 _; subst h1
            exact (sbb_schedSentinels c s).counters.2.2.2.2.2.2.2.2
          · have e2 : (updateBuckets c (schedSentinels c s).1).1.exitsDone = s.exitsDone :=
              ((sbb_updateBuckets c _).counters.2.2.2.2.2.2.2.2).trans (sbb_schedSentinels c s).counters.2.2.2.2.2.2.2.2
            split at h
            · injection h with h; injection h with h1 _; subst h1; exact e2
            · split at h
              · cases h
              · rename_i s3 hg3
                have e3 : s3.exitsDone = s.exitsDone := (onGcFinished_exitsDone hg3).trans e2
                split at h
                · injection h with h; injection h with h1 _; subst h1; exact e3
                · rw [respond_exitsDone h]; exact e3
  · cases h

/-! ## stop-the-world bracket (C11) -/

/-- extra well-formedness used by C11: a first stop-the-world stage exists, is enabled by default, and
designated packets (stage tag 0xff) are outside the table -/
structure Cfg.WF2 (c : Cfg) : Prop extends Cfg.WF c where
  first_exists : ∃ f, f < c.L ∧ (c.info f).isFirstStw = true
  first_enabled : ∀ b, (c.info b).isFirstStw = true → (c.info b).enabledByDefault = true
  stw_closed : ∀ b, (c.info b).isStw = true → (c.info b).openByDefault = false

theorem mem_curStages_first {c : Cfg} {f b : Nat} (hf : f < c.L) (h : (c.info f).isFirstStw = true) : f ∈ curStages c b := by
  unfold curStages
  simp [List.mem_filter, hf, h]

/-- whenever `canOpenNow` holds, an enabled first stop-the-world bucket is open -/
theorem canOpenNow_first {c : Cfg} {s : State} {b f : Nat} (h : canOpenNow c s b = true) (hf : f < c.L)
    (hfirst : (c.info f).isFirstStw = true) (hen : (s.bkt f).enabled = true) : (s.bkt f).isOpen = true := by
  unfold canOpenNow at h
  simp only [Bool.and_eq_true, Bool.not_eq_true'] at h
  have := (List.all_eq_true.mp h.2) f (mem_curStages_first hf hfirst)
  simp only [Bucket.isDrained, hen, Bool.not_true, Bool.false_or, Bool.and_eq_true] at this
  exact this.1

/-- `isOpen` of buckets that are not sequentially opened is untouched by the loop; `enabled` of all -/
def SameNS (c : Cfg) (s0 s : State) : Prop :=
  ∀ k, (s.bkt k).enabled = (s0.bkt k).enabled ∧ ((c.info k).isSeq = false → (s.bkt k).isOpen = (s0.bkt k).isOpen)

theorem updateLoop_opens_first (c : Cfg) (s0 : State) (bs : List Nat) : ∀ (s : State) (u : Bool), SameNS c s0 s →
    ∀ b, ((updateLoop c s bs u).1.bkt b).isOpen = true → (s.bkt b).isOpen = false →
      ∀ f, f < c.L → (c.info f).isFirstStw = true → (c.info f).isSeq = false → (s0.bkt f).enabled = true →
        (s0.bkt f).isOpen = true := by
  induction bs with
  | nil => intro s u _ b h1 h2; simp only [updateLoop] at h1; rw [h1] at h2; cases h2
  | cons b0 bs ih =>
    intro s u hq b h1 h2 f hf hfirst hns hen
    have fromOpen : canOpenNow c s b0 = true → (s0.bkt f).isOpen = true := by
      intro hc
      rw [← (hq f).2 hns]
      exact canOpenNow_first hc hf hfirst (by rw [(hq f).1]; exact hen)
    unfold updateLoop at h1
    split at h1
    · exact ih _ _ hq b h1 h2 f hf hfirst hns hen
    · split at h1
      · exact ih _ _ hq b h1 h2 f hf hfirst hns hen
      · split at h1
        · rename_i hc; exact fromOpen hc
        · exact ih _ _ hq b h1 h2 f hf hfirst hns hen


/-- if `on_last_parked` opens a sequentially opened bucket, the (enabled) first stop-the-world bucket
was open on entry -/
theorem onLastParked_opens_first (c : Cfg) (hwf : c.WF) (s s' : State) (tag : Nat) (r : LPR)
    (h : onLastParked c s tag = some (s', r)) (b : Nat) (hb : (c.info b).isSeq = true)
    (h1 : (s.bkt b).isOpen = false) (h2 : (s'.bkt b).isOpen = true)
    (f : Nat) (hf : f < c.L) (hfirst : (c.info f).isFirstStw = true) (hen : (s.bkt f).enabled = true) :
    (s.bkt f).isOpen = true := by
  have hns : (c.info f).isSeq = false := by rw [hwf.seq_def, hfirst]; simp
  unfold onLastParked at h
  split at h
  · rw [respond_isOpen c _ _ _ _ h, h1] at h2; cases h2
  · split at h
    · cases h
    · split at h
      · cases h
      · split at h
        · injection h with h; injection h with h1' _; subst h1'; rw [h1] at h2; cases h2
        · split at h
          · injection h with h; injection h with h1' _; subst h1'
            rw [schedSentinels_isOpen, h1] at h2; cases h2
          · rename_i hss
            have hss' : (schedSentinels c s).2 = false := by simpa using hss
            have hbk := schedSentinels_false c s hss'
            have hq : SameNS c s (schedSentinels c s).1 := fun k => by rw [hbk]; exact ⟨rfl, fun _ => rfl⟩
            have key : ((updateBuckets c (schedSentinels c s).1).1.bkt b).isOpen = true → (s.bkt f).isOpen = true := by
              intro ho
              have ho' : ((updateLoop c (schedSentinels c s).1 (List.range c.L) false).1.bkt b).isOpen = true := ho
              exact updateLoop_opens_first c s _ _ false hq b ho' (by rw [hbk]; exact h1) f hf hfirst hns hen
            split at h
            · injection h with h; injection h with h1' _; subst h1'
              exact key h2
            · split at h
              · cases h
              · rename_i s3 hg3
                have o3 := onGcFinished_isOpen c hwf _ _ hg3 b hb
                split at h
                · injection h with h; injection h with h1' _; subst h1'
                  exact key (o3 h2)
                · rw [respond_isOpen c _ _ _ _ h] at h2
                  exact key (o3 h2)
  · cases h

/-- what `on_last_parked` does to `stopped` / `resumes`: either nothing, or the GC ends: all
stop-the-world buckets closed, `stopped = false`, one more `resume_mutators` -/
theorem onLastParked_stopped (c : Cfg) (hwf : c.WF) (s s' : State) (tag : Nat) (r : LPR)
    (h : onLastParked c s tag = some (s', r)) :
    (s'.stopped = s.stopped ∧ s'.resumes = s.resumes ∧ s'.gcDone = s.gcDone ∧ s'.stops = s.stops) ∨
    (s'.stopped = false ∧ s'.resumes = s.resumes + 1 ∧ s'.gcDone = s.gcDone + 1 ∧ s'.stops = s.stops ∧
      s.current = some .gc ∧ ∀ b, b < c.L → (c.info b).isStw = true → (s'.bkt b).isOpen = false ∧ (s'.bkt b).q = []) := by
  have hrs : ∀ (t t' : State) (r' : LPR), respond c t tag = some (t', r') →
      t'.stopped = t.stopped ∧ t'.resumes = t.resumes ∧ t'.stops = t.stops := by
    intro t t' r' h
    unfold respond at h
    split at h
    · cases h
    · split at h
      · injection h with h; injection h with h1 _; subst h1; exact ⟨rfl, rfl, rfl⟩
      · split at h
        · injection h with h; injection h with h1 _; subst h1; exact ⟨rfl, rfl, rfl⟩
        · split at h
          · injection h with h; injection h with h1 _; subst h1; exact ⟨rfl, rfl, rfl⟩
          · injection h with h; injection h with h1 _; subst h1; exact ⟨rfl, rfl, rfl⟩
  have hge := onLastParked_gc_end c hwf s s' tag r h
  unfold onLastParked at h
  split at h
  · obtain ⟨a1, a2, a3⟩ := hrs _ _ _ h
    exact Or.inl ⟨a1, a2, respond_gcDone c _ _ _ _ h, a3⟩
  · split at h
    · cases h
    · split at h
      · cases h
      · split at h
        · injection h with h; injection h with h1 _; subst h1; exact Or.inl ⟨rfl, rfl, rfl, rfl⟩
        · split at h
          · injection h with h; injection h with h1 _; subst h1
            have sb := sbb_schedSentinels c s
            exact Or.inl ⟨sb.stopped, sb.counters.1, sb.counters.2.2.1, sb.counters.2.1⟩
          · have sb := (sbb_schedSentinels c s).trans (sbb_updateBuckets c (schedSentinels c s).1)
            split at h
            · injection h with h; injection h with h1 _; subst h1
              exact Or.inl ⟨sb.stopped, sb.counters.1, sb.counters.2.2.1, sb.counters.2.1⟩
            · split at h
              · cases h
              · rename_i s3 hg3
                right
                -- the GC ends here
                have hs3 : s3.stopped = false ∧ s3.resumes = s.resumes + 1 ∧ s3.stops = s.stops := by
                  unfold onGcFinished at hg3
                  split at hg3
                  · cases hg3
                  · split at hg3
                    · cases hg3
                    · split at hg3
                      · cases hg3
                      · rename_i s1 hc
                        injection hg3 with hg3; subst hg3
                        have c1 := (sbb_closeLoop c _ _ _ hc)
                        have c2 := (sbb_schedConcurrent c s1)
                        refine ⟨rfl, ?_, ?_⟩
                        · show (schedConcurrent c s1).resumes + 1 = _
                          rw [c2.counters.1, c1.counters.1]; show (updateBuckets c (schedSentinels c s).1).1.resumes + 1 = _
                          rw [sb.counters.1]
                        · show (schedConcurrent c s1).stops = _
                          rw [c2.counters.2.1, c1.counters.2.1]; show (updateBuckets c (schedSentinels c s).1).1.stops = _
                          rw [sb.counters.2.1]
                rcases hge with hge | ⟨g1, g2, g3⟩
                · exfalso
                  have : s'.gcDone = s.gcDone + 1 := by
                    have g3' : s3.gcDone = s.gcDone := (onGcFinished_gcDone c _ _ hg3).trans sb.counters.2.2.1
                    split at h
                    · injection h with h; injection h with h1 _; subst h1; show s3.gcDone + 1 = _; rw [g3']
                    · rw [respond_gcDone c _ _ _ _ h]; show s3.gcDone + 1 = _; rw [g3']
                  omega
                · split at h
                  · injection h with h; injection h with h1 _; subst h1
                    exact ⟨hs3.1, hs3.2.1, g1, hs3.2.2, g2, g3⟩
                  · obtain ⟨a1, a2, a3⟩ := hrs _ _ _ h
                    exact ⟨a1.trans hs3.1, a2.trans hs3.2.1, g1, a3.trans hs3.2.2, g2, g3⟩
  · cases h


/-- the part of the state the stop-the-world bracket is about -/
structure SameS (s s' : State) : Prop where
  stopped : s'.stopped = s.stopped
  current : s'.current = s.current
  stops : s'.stops = s.stops
  resumes : s'.resumes = s.resumes
  gcDone : s'.gcDone = s.gcDone
  flags : ∀ b, (s'.bkt b).isOpen = (s.bkt b).isOpen ∧ (s'.bkt b).enabled = (s.bkt b).enabled

theorem sameS_notifyOne {c : Cfg} {s s' : State} {x : Option Nat} (h : notifyOne c s x = some s') : SameS s s' := by
  rw [notifyOne_same h]; exact ⟨rfl, rfl, rfl, rfl, rfl, fun _ => ⟨rfl, rfl⟩⟩

theorem setBkt_flags {s : State} {b0 : Nat} {k : Bucket} (h1 : k.isOpen = (s.bkt b0).isOpen) (h2 : k.enabled = (s.bkt b0).enabled)
    (b : Nat) : ((setBkt s b0 k).bkt b).isOpen = (s.bkt b).isOpen ∧ ((setBkt s b0 k).bkt b).enabled = (s.bkt b).enabled := by
  simp only [setBkt]; split
  · rename_i e; subst e; exact ⟨h1, h2⟩
  · exact ⟨rfl, rfl⟩

/-- actions that do not touch the bracket -/
theorem step_other_S (c : Cfg) (s s' : State) (a : Act) (hs : step c s a = some s') :
    (∃ w tag, a = .park w tag) ∨ (∃ w, a = .stopAll w) ∨ (∃ w b, a = .openFirst w b) ∨ (∃ w b v, a = .setEnabled w b v) ∨
    (∃ b v, a = .initSetEnabled b v) ∨ (∃ w, a = .surrender w) ∨ SameS s s' := by
  cases a
  case park w tag => exact Or.inl ⟨w, tag, rfl⟩
  case stopAll w => exact Or.inr (Or.inl ⟨w, rfl⟩)
  case openFirst w b => exact Or.inr (Or.inr (Or.inl ⟨w, b, rfl⟩))
  case setEnabled w b v => exact Or.inr (Or.inr (Or.inr (Or.inl ⟨w, b, v, rfl⟩)))
  case initSetEnabled b v => exact Or.inr (Or.inr (Or.inr (Or.inr (Or.inl ⟨b, v, rfl⟩))))
  case surrender w => exact Or.inr (Or.inr (Or.inr (Or.inr (Or.inr (Or.inl ⟨w, rfl⟩)))))
  case wake w =>
    right; right; right; right; right; right
    simp only [step] at hs
    split at hs
    · injection hs with hs; subst hs
      obtain ⟨p, _, he⟩ := afterUnpark_pc { s with parked := s.parked - 1 } w
      rw [he]; exact ⟨rfl, rfl, rfl, rfl, rfl, fun _ => ⟨rfl, rfl⟩⟩
    · cases hs
  case makeRequest g x =>
    right; right; right; right; right; right
    simp only [step] at hs
    have hc : SameS s (consumePending s g) := by
      unfold consumePending; split <;> exact ⟨rfl, rfl, rfl, rfl, rfl, fun _ => ⟨rfl, rfl⟩⟩
    split at hs
    · cases hs
    · split at hs
      · split at hs
        · injection hs with hs; subst hs; exact hc
        · cases hs
      · have h2 := sameS_notifyOne hs
        have h3 : SameS s (setRequested (consumePending s g) g true) := by
          cases g <;> exact ⟨hc.stopped, hc.current, hc.stops, hc.resumes, hc.gcDone, hc.flags⟩
        exact ⟨h2.stopped.trans h3.stopped, h2.current.trans h3.current, h2.stops.trans h3.stops,
          h2.resumes.trans h3.resumes, h2.gcDone.trans h3.gcDone,
          fun b => ⟨(h2.flags b).1.trans (h3.flags b).1, (h2.flags b).2.trans (h3.flags b).2⟩⟩
  case bucketNotifyOne w b0 x =>
    right; right; right; right; right; right
    simp only [step] at hs
    split at hs
    · exact sameS_notifyOne hs
    · cases hs
  case mutNotifyOne b0 x =>
    right; right; right; right; right; right
    simp only [step] at hs
    split at hs
    · exact sameS_notifyOne hs
    · cases hs
  all_goals
    right; right; right; right; right; right
    simp only [step] at hs
    repeat' (split at hs)
    all_goals first
      | (injection hs with hs; subst hs
         refine ⟨rfl, rfl, rfl, rfl, rfl, fun b => ?_⟩
         first
          | exact ⟨rfl, rfl⟩
          | (simp only [setPc, setBuf, setBkt, pushBkt, bump]
             split
             · rename_i e; subst e; exact ⟨rfl, rfl⟩
             · exact ⟨rfl, rfl⟩))
      | cases hs


theorem takeSentinel_enabled (s : State) (b k : Nat) : ((takeSentinel s b).bkt k).enabled = (s.bkt k).enabled := by
  unfold takeSentinel
  split
  · simp only [emit, setBkt]; split
    · rename_i e; subst e; rfl
    · rfl
  · rfl

theorem schedLoop_enabled (bs : List Nat) : ∀ (s : State) (acc : Bool) (k : Nat),
    ((schedSentinelsLoop s bs acc).1.bkt k).enabled = (s.bkt k).enabled := by
  induction bs with
  | nil => intro s acc k; rfl
  | cons b bs ih =>
    intro s acc k
    unfold schedSentinelsLoop
    split
    · rw [ih, takeSentinel_enabled]
    · exact ih _ _ _

theorem openBkt_enabled (s : State) (b k : Nat) : ((openBkt s b).bkt k).enabled = (s.bkt k).enabled := by
  simp only [openBkt, emit, setBkt]; split
  · rename_i e; subst e; rfl
  · rfl

theorem updateLoop_enabled (c : Cfg) (bs : List Nat) : ∀ (s : State) (u : Bool) (k : Nat),
    ((updateLoop c s bs u).1.bkt k).enabled = (s.bkt k).enabled := by
  induction bs with
  | nil => intro s u k; rfl
  | cons b bs ih =>
    intro s u k
    unfold updateLoop
    split
    · exact ih _ _ _
    · split
      · exact ih _ _ _
      · split
        · split
          · exact openBkt_enabled s b k
          · split
            · rw [takeSentinel_enabled, openBkt_enabled]
            · rw [ih, takeSentinel_enabled, openBkt_enabled]
        · exact ih _ _ _

theorem respond_enabled (c : Cfg) (s s' : State) (tag : Nat) (r : LPR) (h : respond c s tag = some (s', r)) (k : Nat) :
    (s'.bkt k).enabled = (s.bkt k).enabled := by
  unfold respond at h
  split at h
  · cases h
  · split at h
    · injection h with h; injection h with h1 _; subst h1
      simp only [addScheduleCollection, emit, pushBkt, setBkt, bump]
      split
      · rename_i e; subst e; rfl
      · rfl
    · split at h
      · injection h with h; injection h with h1 _; subst h1; rfl
      · split at h
        · injection h with h; injection h with h1 _; subst h1; rfl
        · injection h with h; injection h with h1 _; subst h1; rfl

/-- `on_gc_finished` touches `enabled` / opens only the `Concurrent` bucket -/
theorem onGcFinished_other (c : Cfg) (s s' : State) (h : onGcFinished c s = some s') (k : Nat) (hk : k ≠ c.concIdx) :
    (s'.bkt k).enabled = (s.bkt k).enabled ∧ ((s'.bkt k).isOpen = true → (s.bkt k).isOpen = true) := by
  unfold onGcFinished at h
  split at h
  · cases h
  · split at h
    · cases h
    · split at h
      · cases h
      · rename_i s1 hc
        injection h with h; subst h
        obtain ⟨i1, _, i3, _⟩ := closeLoop_props c _ _ _ hc
        have hbk : (resume (schedConcurrent c s1)).bkt k = s1.bkt k := by
          simp only [resume, emit]
          unfold schedConcurrent
          split <;> simp [emit, setBkt, hk]
        rw [hbk]
        exact ⟨(i3 k).2.1, fun ho => i1 k ho⟩

/-- which buckets `on_last_parked` can open, and that it changes `enabled` only for `Concurrent` -/
theorem onLastParked_flags (c : Cfg) (s s' : State) (tag : Nat) (r : LPR)
    (h : onLastParked c s tag = some (s', r)) (k : Nat) (hk : k ≠ c.concIdx) :
    (s'.bkt k).enabled = (s.bkt k).enabled ∧
    ((s.bkt k).isOpen = false → (s'.bkt k).isOpen = true → (c.info k).isSeq = true) := by
  unfold onLastParked at h
  split at h
  · exact ⟨respond_enabled c _ _ _ _ h k, fun h1 h2 => by rw [respond_isOpen c _ _ _ _ h, h1] at h2; cases h2⟩
  · split at h
    · cases h
    · split at h
      · cases h
      · split at h
        · injection h with h; injection h with h1' _; subst h1'
          exact ⟨rfl, fun h1 h2 => by rw [h1] at h2; cases h2⟩
        · have e1 : ((schedSentinels c s).1.bkt k).enabled = (s.bkt k).enabled := by
            unfold schedSentinels; simp only [emit]; exact schedLoop_enabled _ s false k
          split at h
          · injection h with h; injection h with h1' _; subst h1'
            exact ⟨e1, fun h1 h2 => by rw [schedSentinels_isOpen, h1] at h2; cases h2⟩
          · have e2 : ((updateBuckets c (schedSentinels c s).1).1.bkt k).enabled = (s.bkt k).enabled := by
              unfold updateBuckets; simp only [emit]; rw [updateLoop_enabled]; exact e1
            have o2 : (s.bkt k).isOpen = false → ((updateBuckets c (schedSentinels c s).1).1.bkt k).isOpen = true →
                (c.info k).isSeq = true := by
              intro h1 h2
              have h2' : ((updateLoop c (schedSentinels c s).1 (List.range c.L) false).1.bkt k).isOpen = true := h2
              exact (updateLoop_opens c (schedSentinels c s).1 _ _ false (fun _ => ⟨rfl, rfl⟩) k h2'
                (by rw [schedSentinels_isOpen]; exact h1)).1
            split at h
            · injection h with h; injection h with h1' _; subst h1'
              exact ⟨e2, o2⟩
            · split at h
              · cases h
              · rename_i s3 hg3
                obtain ⟨e3, o3⟩ := onGcFinished_other c _ _ hg3 k hk
                split at h
                · injection h with h; injection h with h1' _; subst h1'
                  exact ⟨e3.trans e2, fun h1 h2 => o2 h1 (o3 h2)⟩
                · refine ⟨(respond_enabled c _ _ _ _ h k).trans (e3.trans e2), fun h1 h2 => ?_⟩
                  rw [respond_isOpen c _ _ _ _ h] at h2
                  exact o2 h1 (o3 h2)
  · cases h

theorem onLastParked_current (c : Cfg) (s s' : State) (tag : Nat) (r : LPR)
    (h : onLastParked c s tag = some (s', r)) (hc : s.current = some .gc) (hg : s'.gcDone = s.gcDone) :
    s'.current = some .gc := by
  unfold onLastParked at h
  split at h
  · rename_i hn; rw [hn] at hc; cases hc
  · split at h
    · cases h
    · split at h
      · cases h
      · split at h
        · injection h with h; injection h with h1' _; subst h1'; exact hc
        · split at h
          · injection h with h; injection h with h1' _; subst h1'
            rw [(sbb_schedSentinels c s).current]; exact hc
          · split at h
            · injection h with h; injection h with h1' _; subst h1'
              rw [(sbb_updateBuckets c _).current, (sbb_schedSentinels c s).current]; exact hc
            · split at h
              · cases h
              · rename_i s3 hg3
                exfalso
                have g3 : s3.gcDone = s.gcDone :=
                  (onGcFinished_gcDone c _ _ hg3).trans
                    (((sbb_updateBuckets c _).counters.2.2.1).trans (sbb_schedSentinels c s).counters.2.2.1)
                split at h
                · injection h with h; injection h with h1' _; subst h1'
                  have : s3.gcDone + 1 = s.gcDone := hg
                  omega
                · have := respond_gcDone c _ _ _ _ h
                  have h4 : (completeGc s3).gcDone = s3.gcDone + 1 := rfl
                  omega
  · rename_i g hne hs; rw [hs] at hc; cases hc; exact absurd rfl (hne)


/-- the stop-the-world bracket -/
structure InvS (c : Cfg) (s : State) : Prop where
  firstEnabled : ∀ f, (c.info f).isFirstStw = true → (s.bkt f).enabled = true
  openStopped : ∀ b, b < c.L → (c.info b).isStw = true → (s.bkt b).isOpen = true → s.stopped = true
  stoppedGc : s.stopped = true → s.current = some .gc
  resumesEq : s.resumes = s.gcDone
  stopsLe : s.stops ≤ s.resumes + (if s.stopped then 1 else 0)

theorem invS_sameS {c : Cfg} {s s' : State} (h : InvS c s) (e : SameS s s') : InvS c s' where
  firstEnabled f hf := by rw [(e.flags f).2]; exact h.firstEnabled f hf
  openStopped b hb hs ho := by rw [e.stopped]; exact h.openStopped b hb hs (by rw [← (e.flags b).1]; exact ho)
  stoppedGc hst := by rw [e.current]; exact h.stoppedGc (by rw [← e.stopped]; exact hst)
  resumesEq := by rw [e.resumes, e.gcDone]; exact h.resumesEq
  stopsLe := by rw [e.stops, e.resumes, e.stopped]; exact h.stopsLe

theorem step_invS (c : Cfg) (hwf : c.WF2) (s s' : State) (a : Act) (hE : InvE c s) (h : InvS c s)
    (hs : step c s a = some s') : InvS c s' := by
  rcases step_other_S c s s' a hs with ⟨w, tag, rfl⟩ | ⟨w, rfl⟩ | ⟨w, b, rfl⟩ | ⟨w, b, v, rfl⟩ | ⟨b, v, rfl⟩ | ⟨w, rfl⟩ | e
  · -- park
    obtain ⟨hw, hpc, _, hcase⟩ := step_park_cases hs
    rcases hcase with ⟨_, rfl⟩ | ⟨_, s1, r, hl, he⟩
    · exact invS_sameS h ⟨rfl, rfl, rfl, rfl, rfl, fun _ => ⟨rfl, rfl⟩⟩
    · -- `on_last_parked`
      have hfc : ∀ f, (c.info f).isFirstStw = true → f ≠ c.concIdx := by
        intro f hf e
        have := hwf.first_is_stw f hf
        rw [e, hwf.conc_not_stw] at this; cases this
      have hfe : ∀ f, (c.info f).isFirstStw = true → (s1.bkt f).enabled = true := by
        intro f hf
        rw [(onLastParked_flags c _ _ _ _ hl f (hfc f hf)).1]; exact h.firstEnabled f hf
      rcases onLastParked_stopped c hwf.toWF _ s1 tag r hl with ⟨a1, a2, a3, a4⟩ | ⟨a1, a2, a3, a4, a5, a6⟩
      · -- no GC end: buckets may have been opened
        rw [he]
        refine ⟨hfe, ?_, ?_, ?_, ?_⟩
        · intro b hb hstw ho
          show s1.stopped = true
          rw [a1]; show s.stopped = true
          cases hob : (s.bkt b).isOpen with
          | true => exact h.openStopped b hb hstw hob
          | false =>
            -- opened inside `on_last_parked`: sequentially opened, so the first STW bucket was open
            have hseq : (c.info b).isSeq = true := by
              rw [hwf.seq_def, hstw]
              cases hf : (c.info b).isFirstStw with
              | false => rfl
              | true =>
                exfalso
                have := (onLastParked_flags c _ _ _ _ hl b (hfc b hf)).2 hob ho
                rw [hwf.seq_def, hf] at this; simp at this
            obtain ⟨f, hfL, hff⟩ := hwf.first_exists
            have := onLastParked_opens_first c hwf.toWF _ s1 tag r hl b hseq hob ho f hfL hff (h.firstEnabled f hff)
            exact h.openStopped f hfL (hwf.first_is_stw f hff) this
        · intro hst
          have hst' : s.stopped = true := by have : s1.stopped = true := hst; rw [a1] at this; exact this
          have hg := h.stoppedGc hst'
          show s1.current = some .gc
          exact onLastParked_current c _ _ _ _ hl hg a3
        · show s1.resumes = s1.gcDone; rw [a2, a3]; exact h.resumesEq
        · show s1.stops ≤ s1.resumes + (if s1.stopped then 1 else 0); rw [a4, a2, a1]; exact h.stopsLe
      · rw [he]
        refine ⟨hfe, ?_, ?_, ?_, ?_⟩
        · intro b hb hstw ho; rw [(a6 b hb hstw).1] at ho; cases ho
        · intro hst; have : s1.stopped = true := hst; rw [a1] at this; cases this
        · show s1.resumes = s1.gcDone; rw [a2, a3, h.resumesEq]
        · show s1.stops ≤ s1.resumes + (if s1.stopped then 1 else 0)
          rw [a4, a2, a1]
          have := h.stopsLe
          split at this <;> simp <;> omega
  · -- stopAll
    simp only [step] at hs
    split at hs
    · rename_i hg; injection hs with hs; subst hs
      refine ⟨h.firstEnabled, fun _ _ _ _ => rfl, fun _ => hg.2.2.1, h.resumesEq, ?_⟩
      have := h.stopsLe
      have hns : s.stopped = false := by simpa using hg.2.2.2
      rw [hns] at this
      simp at this ⊢; omega
    · cases hs
  · -- openFirst
    simp only [step] at hs
    split at hs
    · rename_i hg; injection hs with hs; subst hs
      refine ⟨?_, ?_, h.stoppedGc, h.resumesEq, h.stopsLe⟩
      · intro f hf
        simp only [setBkt]; split
        · rename_i e; subst e; exact h.firstEnabled f hf
        · exact h.firstEnabled f hf
      · intro b' _ _ _; exact hg.2.2.2.2.1
    · cases hs
  · -- setEnabled
    simp only [step] at hs
    split at hs
    · rename_i hg; injection hs with hs; subst hs
      refine ⟨?_, ?_, h.stoppedGc, h.resumesEq, h.stopsLe⟩
      · intro f hf
        simp only [setBkt]; split
        · rename_i e; subst e; exact absurd hf hg.2.2.2
        · exact h.firstEnabled f hf
      · intro b' hb' hstw ho
        apply h.openStopped b' hb' hstw
        simp only [setBkt] at ho; split at ho
        · rename_i e; subst e; exact ho
        · exact ho
    · cases hs
  · -- initSetEnabled
    simp only [step] at hs
    split at hs
    · rename_i hg; injection hs with hs; subst hs
      refine ⟨?_, ?_, h.stoppedGc, h.resumesEq, h.stopsLe⟩
      · intro f hf
        simp only [setBkt]; split
        · rename_i e; subst e; exact absurd hf hg.2.1
        · exact h.firstEnabled f hf
      · intro b' hb' hstw ho
        apply h.openStopped b' hb' hstw
        simp only [setBkt] at ho; split at ho
        · rename_i e; subst e; exact ho
        · exact ho
    · cases hs
  · -- surrender: an exit goal is current, so the mutators are not stopped
    simp only [step] at hs
    split at hs
    · split at hs
      · rename_i hg
        have hns : s.stopped = false := by
          cases hst : s.stopped with
          | false => rfl
          | true =>
            obtain ⟨g, hg1, hg2⟩ := hE.exited w hg.1 hg.2
            rw [h.stoppedGc hst] at hg1; cases hg1; cases hg2
        split at hs <;> (injection hs with hs; subst hs)
        · refine ⟨h.firstEnabled, h.openStopped, fun hst => ?_, h.resumesEq, h.stopsLe⟩
          have : s.stopped = true := hst
          rw [hns] at this; cases this
        · exact ⟨h.firstEnabled, h.openStopped, h.stoppedGc, h.resumesEq, h.stopsLe⟩
      · cases hs
    · cases hs
  · exact invS_sameS h e


theorem init_invS (c : Cfg) (hwf : c.WF2) : InvS c (init c) where
  firstEnabled f hf := by simp only [init, initBucket]; exact hwf.first_enabled f hf
  openStopped b _ hs ho := by simp only [init, initBucket] at ho; rw [hwf.stw_closed b hs] at ho; cases ho
  stoppedGc h := by simp [init] at h
  resumesEq := rfl
  stopsLe := by simp [init]

/-- all invariants used by C11 along every run -/
theorem reachable_invS {c : Cfg} (hwf : c.WF2) {s : State} (h : Reachable c s) : InvA c s ∧ InvE c s ∧ InvS c s := by
  obtain ⟨run, hr⟩ := h
  exact exec_some_induct c (fun s => InvA c s ∧ InvE c s ∧ InvS c s)
    (fun s s' a hh hs => ⟨step_invA c s s' a hh.1 hs, step_invE c hwf.npos s s' a hh.1 hh.2.1 hs,
      step_invS c hwf s s' a hh.2.1 hh.2.2 hs⟩)
    run _ _ ⟨init_invA c, init_invE c, init_invS c hwf⟩ hr

/-- designated work exists only while a Gc goal is current -/
def InvD (c : Cfg) (s : State) : Prop := ∀ x, x < c.n → s.desig x ≠ [] → s.current = some .gc

theorem step_other_D (c : Cfg) (s s' : State) (a : Act) (hs : step c s a = some s') :
    (∃ w tag, a = .park w tag) ∨ (∃ w, a = .surrender w) ∨ (∃ w x tag, a = .pushDesig w x tag) ∨
    (∃ w p, a = .popDesig w p) ∨ (s'.desig = s.desig ∧ s'.current = s.current) := by
  cases a
  case park w tag => exact Or.inl ⟨w, tag, rfl⟩
  case surrender w => exact Or.inr (Or.inl ⟨w, rfl⟩)
  case pushDesig w x tag => exact Or.inr (Or.inr (Or.inl ⟨w, x, tag, rfl⟩))
  case popDesig w p => exact Or.inr (Or.inr (Or.inr (Or.inl ⟨w, p, rfl⟩)))
  case wake w =>
    right; right; right; right
    simp only [step] at hs
    split at hs
    · injection hs with hs; subst hs
      obtain ⟨p, _, he⟩ := afterUnpark_pc { s with parked := s.parked - 1 } w
      rw [he]; exact ⟨rfl, rfl⟩
    · cases hs
  case makeRequest g x =>
    right; right; right; right
    simp only [step] at hs
    have hc : (consumePending s g).desig = s.desig ∧ (consumePending s g).current = s.current := by
      unfold consumePending; split <;> exact ⟨rfl, rfl⟩
    split at hs
    · cases hs
    · split at hs
      · split at hs
        · injection hs with hs; subst hs; exact hc
        · cases hs
      · rw [notifyOne_same hs]; cases g <;> exact hc
  case bucketNotifyOne w b0 x =>
    right; right; right; right
    simp only [step] at hs
    split at hs
    · rw [notifyOne_same hs]; exact ⟨rfl, rfl⟩
    · cases hs
  case mutNotifyOne b0 x =>
    right; right; right; right
    simp only [step] at hs
    split at hs
    · rw [notifyOne_same hs]; exact ⟨rfl, rfl⟩
    · cases hs
  all_goals
    right; right; right; right
    simp only [step] at hs
    repeat' (split at hs)
    all_goals first
      | (injection hs with hs; subst hs; exact ⟨rfl, rfl⟩)
      | cases hs

theorem hasDesignated_false {c : Cfg} {s : State} (h : hasDesignated c s = false) (x : Nat) (hx : x < c.n) : s.desig x = [] := by
  unfold hasDesignated at h
  have := List.any_eq_false.mp h x (List.mem_range.mpr hx)
  simpa using this

/-- if `on_last_parked` changes the current goal away from Gc, no designated work is left -/
theorem onLastParked_desig (c : Cfg) (s s' : State) (tag : Nat) (r : LPR) (h : onLastParked c s tag = some (s', r))
    (hd : InvD c s) : InvD c s' := by
  have f := frame_onLastParked c _ _ _ _ h
  intro x hx hne
  rw [f.desig] at hne
  have hg := hd x hx hne
  -- a Gc goal is current on entry and work is designated: the first branch returns `WakeAll` unchanged
  unfold onLastParked at h
  split at h
  · rename_i hn; rw [hn] at hg; cases hg
  · split at h
    · cases h
    · split at h
      · cases h
      · split at h
        · injection h with h; injection h with h1 _; subst h1; exact hg
        · rename_i hnd
          exfalso
          have : hasDesignated c s = false := by simpa using hnd
          exact hne (hasDesignated_false this x hx)
  · rename_i g hng hs; rw [hs] at hg; cases hg; exact absurd rfl hng

theorem step_invD (c : Cfg) (s s' : State) (a : Act) (hE : InvE c s) (h : InvD c s) (hs : step c s a = some s') : InvD c s' := by
  rcases step_other_D c s s' a hs with ⟨w, tag, rfl⟩ | ⟨w, rfl⟩ | ⟨w, x, tag, rfl⟩ | ⟨w, p, rfl⟩ | ⟨e1, e2⟩
  · obtain ⟨_, _, _, hcase⟩ := step_park_cases hs
    rcases hcase with ⟨_, rfl⟩ | ⟨_, s1, r, hl, he⟩
    · exact h
    · have := onLastParked_desig c _ s1 tag r hl (fun x hx hne => h x hx hne)
      rw [he]; exact this
  · simp only [step] at hs
    split at hs
    · split at hs
      · rename_i hg
        have hnd : ∀ x, x < c.n → s.desig x = [] := by
          intro x hx
          cases hd : s.desig x with
          | nil => rfl
          | cons p l =>
            exfalso
            obtain ⟨g, hg1, hg2⟩ := hE.exited w hg.1 hg.2
            rw [h x hx (by rw [hd]; simp)] at hg1; cases hg1; cases hg2
        split at hs <;> (injection hs with hs; subst hs) <;> (intro x hx hne; exact absurd (hnd x hx) hne)
      · cases hs
    · cases hs
  · simp only [step] at hs
    split at hs
    · rename_i hg; injection hs with hs; subst hs
      intro y _ _; exact hg.2.2.2
    · cases hs
  · simp only [step] at hs
    split at hs
    · split at hs
      · rename_i hg; injection hs with hs; subst hs
        intro y hy hne
        apply h y hy
        simp only [setPc, setDesig] at hne
        split at hne
        · rename_i e; subst e
          intro e2; rw [e2] at hne; simp [removeP] at hne
        · exact hne
      · cases hs
    · cases hs
  · intro x hx hne; rw [e2]; exact h x hx (by rw [← e1]; exact hne)

theorem init_invD (c : Cfg) : InvD c (init c) := fun x _ hne => absurd rfl hne

theorem reachable_invD {c : Cfg} (hn : 0 < c.n) {s : State} (h : Reachable c s) : InvD c s := by
  obtain ⟨run, hr⟩ := h
  exact (exec_some_induct c (fun s => (InvA c s ∧ InvE c s) ∧ InvD c s)
    (fun s s' a hh hs => ⟨⟨step_invA c s s' a hh.1.1 hs, step_invE c hn s s' a hh.1.1 hh.1.2 hs⟩,
      step_invD c s s' a hh.1.2 hh.2 hs⟩)
    run _ _ ⟨⟨init_invA c, init_invE c⟩, init_invD c⟩ hr).2


theorem respond_sentinel (c : Cfg) (s s' : State) (tag : Nat) (r : LPR) (h : respond c s tag = some (s', r)) (k : Nat) :
    (s'.bkt k).sentinel = (s.bkt k).sentinel := by
  unfold respond at h
  split at h
  · cases h
  · split at h
    · injection h with h; injection h with h1 _; subst h1
      simp only [addScheduleCollection, emit, pushBkt, setBkt, bump]
      split
      · rename_i e; subst e; rfl
      · rfl
    · split at h
      · injection h with h; injection h with h1 _; subst h1; rfl
      · split at h
        · injection h with h; injection h with h1 _; subst h1; rfl
        · injection h with h; injection h with h1 _; subst h1; rfl

/-- a sentinel leaves its slot inside `on_last_parked` only on the Gc path, after the last parked
worker has seen every open bucket empty and no designated work -/
theorem onLastParked_sentinel (c : Cfg) (s s' : State) (tag : Nat) (r : LPR) (h : onLastParked c s tag = some (s', r))
    (b : Nat) (hne : (s'.bkt b).sentinel ≠ (s.bkt b).sentinel) :
    s.current = some .gc ∧ allOpenEmpty c s = true ∧ hasDesignated c s = false := by
  unfold onLastParked at h
  split at h
  · exact absurd (respond_sentinel c _ _ _ _ h b) hne
  · rename_i hcur
    split at h
    · cases h
    · rename_i hao
      split at h
      · cases h
      · rename_i hao
        split at h
        · injection h with h; injection h with h1 _; subst h1; exact absurd rfl hne
        · rename_i hnd
          exact ⟨hcur, by simpa using hao, by simpa using hnd⟩
  · cases h

/-- actions other than `park` never remove a sentinel; `setSentinel` fills an empty slot -/
theorem step_other_sentinel (c : Cfg) (s s' : State) (a : Act) (hs : step c s a = some s') :
    (∃ w tag, a = .park w tag) ∨ ∀ b, (s'.bkt b).sentinel = (s.bkt b).sentinel ∨ (s.bkt b).sentinel = none := by
  cases a
  case park w tag => exact Or.inl ⟨w, tag, rfl⟩
  case wake w =>
    right
    simp only [step] at hs
    split at hs
    · injection hs with hs; subst hs
      obtain ⟨p, _, he⟩ := afterUnpark_pc { s with parked := s.parked - 1 } w
      rw [he]; exact fun _ => Or.inl rfl
    · cases hs
  case setSentinel w b0 tag =>
    right
    simp only [step] at hs
    split at hs
    · rename_i hg; injection hs with hs; subst hs
      intro b
      simp only [setBkt, bump]
      split
      · rename_i e; subst e; exact Or.inr hg.2.2.2
      · exact Or.inl rfl
    · cases hs
  case makeRequest g x =>
    right
    simp only [step] at hs
    have hc : (consumePending s g).bkt = s.bkt := by unfold consumePending; split <;> rfl
    split at hs
    · cases hs
    · split at hs
      · split at hs
        · injection hs with hs; subst hs; intro b; rw [hc]; exact Or.inl rfl
        · cases hs
      · have e : (setRequested (consumePending s g) g true).bkt = s.bkt := by cases g <;> exact hc
        rw [notifyOne_same hs]; intro b; left
        show ((setRequested (consumePending s g) g true).bkt b).sentinel = _
        rw [e]
  case bucketNotifyOne w b0 x =>
    right
    simp only [step] at hs
    split at hs
    · rw [notifyOne_same hs]; exact fun _ => Or.inl rfl
    · cases hs
  case mutNotifyOne b0 x =>
    right
    simp only [step] at hs
    split at hs
    · rw [notifyOne_same hs]; exact fun _ => Or.inl rfl
    · cases hs
  all_goals
    right
    simp only [step] at hs
    repeat' (split at hs)
    all_goals first
      | (injection hs with hs; subst hs
         intro b; left
         first
          | rfl
          | (simp only [setPc, setBuf, setBkt, pushBkt, bump]
             split
             · rename_i e; subst e; rfl
             · rfl))
      | cases hs


end Mmtk.Sched
