import MmtkModel.Model.Sched
import Mathlib.Tactic.SplitIfs
/-!
# Frame lemmas and counting lemmas for the scheduler model (used by Props/C14, C15, C16, C11)
-/
namespace Mmtk.Sched

/-- the part of the state `on_last_parked` never touches -/
structure Frame (s s' : State) : Prop where
  pc : s'.pc = s.pc
  buf : s'.buf = s.buf
  desig : s'.desig = s.desig
  parked : s'.parked = s.parked
  creation : s'.creation = s.creation
  stops : s'.stops = s.stops
  started : s'.started = s.started
  ended : s'.ended = s.ended

theorem Frame.refl (s : State) : Frame s s := ⟨rfl, rfl, rfl, rfl, rfl, rfl, rfl, rfl⟩
theorem Frame.trans {a b c : State} (h1 : Frame a b) (h2 : Frame b c) : Frame a c :=
  ⟨h2.pc.trans h1.pc, h2.buf.trans h1.buf, h2.desig.trans h1.desig, h2.parked.trans h1.parked,
   h2.creation.trans h1.creation, h2.stops.trans h1.stops, h2.started.trans h1.started, h2.ended.trans h1.ended⟩

theorem frame_emit (s : State) (e : SubEv) : Frame s (emit s e) := ⟨rfl, rfl, rfl, rfl, rfl, rfl, rfl, rfl⟩
theorem frame_setBkt (s : State) (b : Nat) (k : Bucket) : Frame s (setBkt s b k) := ⟨rfl, rfl, rfl, rfl, rfl, rfl, rfl, rfl⟩
theorem frame_openBkt (s : State) (b : Nat) : Frame s (openBkt s b) := ⟨rfl, rfl, rfl, rfl, rfl, rfl, rfl, rfl⟩
theorem frame_closeBkt (s : State) (b : Nat) : Frame s (closeBkt s b) := ⟨rfl, rfl, rfl, rfl, rfl, rfl, rfl, rfl⟩

theorem frame_takeSentinel (s : State) (b : Nat) : Frame s (takeSentinel s b) := by
  unfold takeSentinel
  split <;> exact ⟨rfl, rfl, rfl, rfl, rfl, rfl, rfl, rfl⟩

theorem frame_schedLoop (bs : List Nat) : ∀ (s : State) (acc : Bool), Frame s (schedSentinelsLoop s bs acc).1 := by
  induction bs with
  | nil => intro s acc; exact Frame.refl s
  | cons b bs ih =>
    intro s acc
    unfold schedSentinelsLoop
    split
    · exact (frame_takeSentinel s b).trans (ih _ _)
    · exact ih _ _

theorem frame_schedSentinels (c : Cfg) (s : State) : Frame s (schedSentinels c s).1 :=
  (frame_schedLoop _ s false).trans (frame_emit _ _)

theorem frame_updateLoop (c : Cfg) (bs : List Nat) : ∀ (s : State) (u : Bool), Frame s (updateLoop c s bs u).1 := by
  induction bs with
  | nil => intro s u; exact Frame.refl s
  | cons b bs ih =>
    intro s u
    unfold updateLoop
    split
    · exact ih _ _
    · split
      · exact ih _ _
      · split
        · split
          · exact frame_openBkt s b
          · split
            · exact (frame_openBkt s b).trans (frame_takeSentinel _ b)
            · exact ((frame_openBkt s b).trans (frame_takeSentinel _ b)).trans (ih _ _)
        · exact ih _ _

theorem frame_updateBuckets (c : Cfg) (s : State) : Frame s (updateBuckets c s).1 :=
  (frame_updateLoop c _ s false).trans (frame_emit _ _)

theorem frame_closeLoop (c : Cfg) (bs : List Nat) : ∀ (s s' : State), closeStwLoop c s bs = some s' → Frame s s' := by
  induction bs with
  | nil => intro s s' h; simp [closeStwLoop] at h; subst h; exact Frame.refl s
  | cons b bs ih =>
    intro s s' h
    unfold closeStwLoop at h
    split at h
    · split at h
      · exact (frame_closeBkt s b).trans (ih _ _ h)
      · cases h
    · exact ih _ _ h

theorem frame_schedConcurrent (c : Cfg) (s : State) : Frame s (schedConcurrent c s) := by
  unfold schedConcurrent
  split <;> exact ⟨rfl, rfl, rfl, rfl, rfl, rfl, rfl, rfl⟩

theorem frame_onGcFinished (c : Cfg) (s s' : State) (h : onGcFinished c s = some s') : Frame s s' := by
  unfold onGcFinished at h
  split at h
  · cases h
  · split at h
    · cases h
    · split at h
      · cases h
      · rename_i s1 hc
        injection h with h; subst h
        exact ((frame_emit s _).trans (frame_closeLoop c _ _ _ hc)).trans
          ((frame_schedConcurrent c s1).trans ⟨rfl, rfl, rfl, rfl, rfl, rfl, rfl, rfl⟩)

theorem frame_respond (c : Cfg) (s s' : State) (tag : Nat) (r : LPR) (h : respond c s tag = some (s', r)) : Frame s s' := by
  unfold respond at h
  split at h
  · cases h
  · split at h
    · injection h with h; injection h with h1 h2; subst h1; exact ⟨rfl, rfl, rfl, rfl, rfl, rfl, rfl, rfl⟩
    · split at h
      · injection h with h; injection h with h1 h2; subst h1; exact ⟨rfl, rfl, rfl, rfl, rfl, rfl, rfl, rfl⟩
      · split at h
        · injection h with h; injection h with h1 h2; subst h1; exact ⟨rfl, rfl, rfl, rfl, rfl, rfl, rfl, rfl⟩
        · injection h with h; injection h with h1 h2; subst h1; exact Frame.refl s

theorem frame_completeGc (s : State) : Frame s (completeGc s) := ⟨rfl, rfl, rfl, rfl, rfl, rfl, rfl, rfl⟩

theorem frame_onLastParked (c : Cfg) (s s' : State) (tag : Nat) (r : LPR)
    (h : onLastParked c s tag = some (s', r)) : Frame s s' := by
  unfold onLastParked at h
  split at h
  · exact frame_respond c s s' tag r h
  · split at h
    · cases h
    · split at h
      · cases h
      · split at h
        · injection h with h; injection h with h1 h2; subst h1; exact Frame.refl s
        · split at h
          · injection h with h; injection h with h1 h2; subst h1; exact frame_schedSentinels c s
          · split at h
            · injection h with h; injection h with h1 h2; subst h1
              exact (frame_schedSentinels c s).trans (frame_updateBuckets c _)
            · split at h
              · cases h
              · rename_i s3 hg
                have f3 := ((frame_schedSentinels c s).trans (frame_updateBuckets c _)).trans (frame_onGcFinished c _ _ hg)
                split at h
                · injection h with h; injection h with h1 h2; subst h1; exact f3.trans (frame_completeGc s3)
                · exact (f3.trans (frame_completeGc s3)).trans (frame_respond c _ _ tag r h)
  · cases h

/-! ## counting workers -/

theorem countW_succ (n : Nat) (f : Nat → Bool) : countW (n+1) f = countW n f + (if f n then 1 else 0) := by
  unfold countW
  rw [List.range_succ, List.filter_append, List.length_append]
  by_cases h : f n <;> simp [h]

theorem countW_congr (n : Nat) (f g : Nat → Bool) (h : ∀ x, x < n → f x = g x) : countW n f = countW n g := by
  induction n with
  | zero => rfl
  | succ n ih =>
    rw [countW_succ, countW_succ, ih (fun x hx => h x (Nat.lt_succ_of_lt hx)), h n (Nat.lt_succ_self n)]

theorem countW_le (n : Nat) (f : Nat → Bool) : countW n f ≤ n := by
  induction n with
  | zero => simp [countW]
  | succ n ih => rw [countW_succ]; split <;> omega

/-- changing `f` at one point `w < n` -/
theorem countW_update (n : Nat) (f : Nat → Bool) (w : Nat) (v : Bool) (hw : w < n) :
    countW n (fun x => if x = w then v else f x) + (if f w then 1 else 0) = countW n f + (if v then 1 else 0) := by
  induction n with
  | zero => omega
  | succ n ih =>
    rw [countW_succ, countW_succ]
    by_cases hwn : w = n
    · subst hwn
      have : countW w (fun x => if x = w then v else f x) = countW w f :=
        countW_congr w _ _ (fun x hx => by simp [Nat.ne_of_lt hx])
      rw [this]; simp; omega
    · have hlt : w < n := by omega
      have := ih hlt
      have hn : (n = w) = False := by simp; omega
      simp only [hn, if_false]
      omega

theorem countW_all (n : Nat) (f : Nat → Bool) (h : countW n f = n) : ∀ x, x < n → f x = true := by
  induction n with
  | zero => intro x hx; omega
  | succ n ih =>
    rw [countW_succ] at h
    have hle := countW_le n f
    intro x hx
    by_cases hfn : f n
    · simp [hfn] at h
      by_cases hxn : x = n
      · subst hxn; exact hfn
      · exact ih h x (by omega)
    · simp [hfn] at h; omega

theorem countW_zero (n : Nat) (f : Nat → Bool) (h : ∀ x, x < n → f x = false) : countW n f = 0 := by
  induction n with
  | zero => rfl
  | succ n ih => rw [countW_succ, ih (fun x hx => h x (Nat.lt_succ_of_lt hx)), h n (Nat.lt_succ_self n)]; simp

/-- if all but `w` are counted, every other index satisfies `f` -/
theorem countW_all_but (n : Nat) (f : Nat → Bool) (w : Nat) (hw : w < n) (hfw : f w = false)
    (h : countW n f + 1 = n) : ∀ x, x < n → x ≠ w → f x = true := by
  have h2 : countW n (fun x => if x = w then true else f x) = countW n f + 1 := by
    have := countW_update n f w true hw
    rw [hfw] at this
    simpa using this
  have hall := countW_all n (fun x => if x = w then true else f x) (by omega)
  intro x hx hxw
  have := hall x hx
  simpa [hxw] using this


def parkedCount (c : Cfg) (s : State) : Nat := countW c.n (fun x => (s.pc x).isParked)
def surrCount (c : Cfg) (s : State) : Nat := countW c.n (fun x => decide (s.pc x = .surrendered))

theorem parkedCount_setPc (c : Cfg) (s : State) (w : Nat) (p : PC) (hw : w < c.n) :
    parkedCount c (setPc s w p) + (if (s.pc w).isParked then 1 else 0)
      = parkedCount c s + (if p.isParked then 1 else 0) := by
  unfold parkedCount
  rw [← countW_update c.n (fun x => (s.pc x).isParked) w p.isParked hw]
  congr 1
  apply countW_congr
  intro x _
  simp only [setPc]
  split <;> rfl

theorem surrCount_setPc (c : Cfg) (s : State) (w : Nat) (p : PC) (hw : w < c.n) :
    surrCount c (setPc s w p) + (if s.pc w = .surrendered then 1 else 0)
      = surrCount c s + (if p = .surrendered then 1 else 0) := by
  unfold surrCount
  have := countW_update c.n (fun x => decide (s.pc x = .surrendered)) w (decide (p = .surrendered)) hw
  simp only [decide_eq_true_eq] at this
  rw [← this]
  congr 1
  apply countW_congr
  intro x _
  simp only [setPc]
  split <;> rfl

theorem parkedCount_congr (c : Cfg) (s s' : State) (h : ∀ x, x < c.n → (s'.pc x).isParked = (s.pc x).isParked) :
    parkedCount c s' = parkedCount c s := countW_congr _ _ _ h

theorem surrCount_congr (c : Cfg) (s s' : State)
    (h : ∀ x, x < c.n → (s'.pc x = .surrendered ↔ s.pc x = .surrendered)) :
    surrCount c s' = surrCount c s := by
  apply countW_congr
  intro x hx
  simp only [decide_eq_decide]
  exact h x hx

theorem notifyAll_parked (s : State) (x : Nat) : ((notifyAll s).pc x).isParked = (s.pc x).isParked := by
  simp only [notifyAll]
  split
  · rename_i h; rw [h]; rfl
  · rfl

theorem notifyAll_surr (s : State) (x : Nat) : ((notifyAll s).pc x = .surrendered ↔ s.pc x = .surrendered) := by
  simp only [notifyAll]
  split
  · rename_i h; rw [h]; simp
  · exact Iff.rfl


/-- counters agree with the program counters -/
structure InvA (c : Cfg) (s : State) : Prop where
  parked_eq : s.parked = parkedCount c s
  pool : ∀ k, s.creation = .surrendered k → k = surrCount c s
  spawned : s.creation = .spawned → surrCount c s = 0

theorem parkedCount_pc (c : Cfg) {s s' : State} (h : s'.pc = s.pc) : parkedCount c s' = parkedCount c s := by
  unfold parkedCount; rw [h]
theorem surrCount_pc (c : Cfg) {s s' : State} (h : s'.pc = s.pc) : surrCount c s' = surrCount c s := by
  unfold surrCount; rw [h]

theorem invA_same {c : Cfg} {s s' : State} (h : InvA c s) (hpc : s'.pc = s.pc) (hp : s'.parked = s.parked)
    (hc : s'.creation = s.creation) : InvA c s' :=
  ⟨by rw [hp, parkedCount_pc c hpc]; exact h.parked_eq,
   fun k hk => by rw [surrCount_pc c hpc]; exact h.pool k (hc ▸ hk),
   fun hk => by rw [surrCount_pc c hpc]; exact h.spawned (hc ▸ hk)⟩

/-- worker `w` moves between two program points that are neither parked nor surrendered -/
theorem invA_move {c : Cfg} {s s' : State} {w : Nat} {p : PC} (h : InvA c s) (hw : w < c.n)
    (h1 : (s.pc w).isParked = false) (h2 : p.isParked = false) (h3 : s.pc w ≠ .surrendered) (h4 : p ≠ .surrendered)
    (hpc : s'.pc = (setPc s w p).pc) (hp : s'.parked = s.parked) (hc : s'.creation = s.creation) : InvA c s' := by
  have e1 := parkedCount_setPc c s w p hw
  have e2 := surrCount_setPc c s w p hw
  simp only [h1, h2, h3, h4, if_false, Bool.false_eq_true] at e1 e2
  have e1' : parkedCount c s' = parkedCount c s := by rw [parkedCount_pc c hpc]; omega
  have e2' : surrCount c s' = surrCount c s := by rw [surrCount_pc c hpc]; omega
  exact ⟨by rw [hp, e1']; exact h.parked_eq, fun k hk => by rw [e2']; exact h.pool k (hc ▸ hk),
    fun hk => by rw [e2']; exact h.spawned (hc ▸ hk)⟩

theorem invA_notifyAll {c : Cfg} {s : State} (h : InvA c s) : InvA c (notifyAll s) :=
  ⟨by rw [parkedCount_congr c s (notifyAll s) (fun x _ => notifyAll_parked s x)]; exact h.parked_eq,
   fun k hk => by rw [surrCount_congr c s (notifyAll s) (fun x _ => notifyAll_surr s x)]; exact h.pool k hk,
   fun hk => by rw [surrCount_congr c s (notifyAll s) (fun x _ => notifyAll_surr s x)]; exact h.spawned hk⟩

/-- `waiting → woken` keeps both counts -/
theorem invA_wake {c : Cfg} {s : State} {x : Nat} (h : InvA c s) (hx : x < c.n) (hw : s.pc x = .waiting) :
    InvA c (setPc s x .woken) := by
  have e1 := parkedCount_setPc c s x .woken hx
  have e2 := surrCount_setPc c s x .woken hx
  rw [hw] at e1 e2
  simp [PC.isParked] at e1 e2
  exact ⟨by rw [e1]; exact h.parked_eq, fun k hk => by rw [e2]; exact h.pool k hk, fun hk => by rw [e2]; exact h.spawned hk⟩

theorem invA_notifyOne {c : Cfg} {s s' : State} {x : Option Nat} (h : InvA c s) (hs : notifyOne c s x = some s') :
    InvA c s' := by
  unfold notifyOne at hs
  split at hs
  · split at hs
    · rename_i hh; injection hs with hs; subst hs; exact invA_wake h hh.1 hh.2
    · cases hs
  · split at hs
    · injection hs with hs; subst hs; exact h
    · cases hs


theorem afterUnpark_pc (s : State) (w : Nat) :
    ∃ p, (p = .exited ∨ p = .polling []) ∧ afterUnpark s w = setPc s w p := by
  unfold afterUnpark
  split
  · exact ⟨_, Or.inl rfl, rfl⟩
  · exact ⟨_, Or.inl rfl, rfl⟩
  · exact ⟨_, Or.inr rfl, rfl⟩

/-- counts after `setPc t w p`, where `t` agrees with `s` on who is parked / surrendered and `w` is
neither in `s` -/
theorem counts_setPc_from (c : Cfg) (s t : State) (w : Nat) (p : PC) (hw : w < c.n)
    (hP : ∀ x, (t.pc x).isParked = (s.pc x).isParked)
    (hS : ∀ x, (t.pc x = .surrendered ↔ s.pc x = .surrendered))
    (h1 : (s.pc w).isParked = false) (h3 : s.pc w ≠ .surrendered) :
    parkedCount c (setPc t w p) = parkedCount c s + (if p.isParked then 1 else 0) ∧
    surrCount c (setPc t w p) = surrCount c s + (if p = .surrendered then 1 else 0) := by
  have e1 := parkedCount_setPc c t w p hw
  have e2 := surrCount_setPc c t w p hw
  have h1' : (t.pc w).isParked = false := by rw [hP]; exact h1
  have h3' : t.pc w ≠ .surrendered := fun e => h3 ((hS w).1 e)
  simp only [h1', h3', if_false, Bool.false_eq_true] at e1 e2
  rw [parkedCount_congr c s t (fun x _ => hP x)] at e1
  rw [surrCount_congr c s t (fun x _ => hS x)] at e2
  constructor <;> omega

theorem step_invA (c : Cfg) (s s' : State) (a : Act) (h : InvA c s) (hs : step c s a = some s') : InvA c s' := by
  cases a with
  | observeEmpty w k =>
    simp only [step] at hs
    split at hs
    · rename_i seen hpc
      split at hs
      · rename_i hg; injection hs with hs; subst hs
        exact invA_move h hg.1 (by rw [hpc]; rfl) rfl (by rw [hpc]; simp) (by simp) rfl rfl rfl
      · cases hs
    · cases hs
  | pollBucket w b p =>
    simp only [step] at hs
    split at hs
    · rename_i seen hpc
      split at hs
      · rename_i hg; injection hs with hs; subst hs
        exact invA_move (s := s) h hg.1 (by rw [hpc]; rfl) rfl (by rw [hpc]; simp) (by simp) rfl rfl rfl
      · cases hs
    · cases hs
  | batchMove w b p =>
    simp only [step] at hs
    split at hs
    · split at hs
      · injection hs with hs; subst hs; exact invA_same h rfl rfl rfl
      · cases hs
    · cases hs
  | popLocal w p =>
    simp only [step] at hs
    split at hs
    · rename_i seen hpc
      split at hs
      · rename_i hg; injection hs with hs; subst hs
        exact invA_move (s := s) h hg.1 (by rw [hpc]; rfl) rfl (by rw [hpc]; simp) (by simp) rfl rfl rfl
      · cases hs
    · cases hs
  | popDesig w p =>
    simp only [step] at hs
    split at hs
    · rename_i seen hpc
      split at hs
      · rename_i hg; injection hs with hs; subst hs
        exact invA_move (s := s) h hg.1 (by rw [hpc]; rfl) rfl (by rw [hpc]; simp) (by simp) rfl rfl rfl
      · cases hs
    · cases hs
  | steal w v p =>
    simp only [step] at hs
    split at hs
    · rename_i seen hpc
      split at hs
      · rename_i hg; injection hs with hs; subst hs
        exact invA_move (s := s) h hg.1 (by rw [hpc]; rfl) rfl (by rw [hpc]; simp) (by simp) rfl rfl rfl
      · cases hs
    · cases hs
  | pollMiss w =>
    simp only [step] at hs
    split at hs
    · rename_i seen hpc
      split at hs
      · rename_i hg; injection hs with hs; subst hs
        exact invA_move (s := s) h hg.1 (by rw [hpc]; rfl) rfl (by rw [hpc]; simp) (by simp) rfl rfl rfl
      · cases hs
    · cases hs
  | push w b tag =>
    simp only [step] at hs
    split at hs
    · injection hs with hs; subst hs; exact invA_same h rfl rfl rfl
    · cases hs
  | pushLocal w b tag =>
    simp only [step] at hs
    split at hs
    · injection hs with hs; subst hs; exact invA_same h rfl rfl rfl
    · cases hs
  | pushDesig w x tag =>
    simp only [step] at hs
    split at hs
    · injection hs with hs; subst hs; exact invA_same h rfl rfl rfl
    · cases hs
  | setSentinel w b tag =>
    simp only [step] at hs
    split at hs
    · injection hs with hs; subst hs; exact invA_same h rfl rfl rfl
    · cases hs
  | bucketNotifyOne w b x =>
    simp only [step] at hs
    split at hs
    · exact invA_notifyOne h hs
    · cases hs
  | bucketNotifyAll w b =>
    simp only [step] at hs
    split at hs
    · injection hs with hs; subst hs; exact invA_notifyAll h
    · cases hs
  | setEnabled w b v =>
    simp only [step] at hs
    split at hs
    · injection hs with hs; subst hs; exact invA_same h rfl rfl rfl
    · cases hs
  | stopAll w =>
    simp only [step] at hs
    split at hs
    · injection hs with hs; subst hs; exact invA_same h rfl rfl rfl
    · cases hs
  | clearRequest w =>
    simp only [step] at hs
    split at hs
    · injection hs with hs; subst hs; exact invA_same h rfl rfl rfl
    · cases hs
  | openFirst w b =>
    simp only [step] at hs
    split at hs
    · injection hs with hs; subst hs; exact invA_same h rfl rfl rfl
    · cases hs
  | wakeAll w =>
    simp only [step] at hs
    split at hs
    · injection hs with hs; subst hs; exact invA_notifyAll h
    · cases hs
  | execEnd w =>
    simp only [step] at hs
    split at hs
    · rename_i p hpc
      split at hs
      · rename_i hg; injection hs with hs; subst hs
        exact invA_move (s := s) h hg (by rw [hpc]; rfl) rfl (by rw [hpc]; simp) (by simp) rfl rfl rfl
      · cases hs
    · cases hs
  | park w tag =>
    simp only [step] at hs
    split at hs
    · rename_i hg
      obtain ⟨hw, hpc, hlt⟩ := hg
      have hnp : (s.pc w).isParked = false := by rw [hpc]; rfl
      have hns : s.pc w ≠ .surrendered := by rw [hpc]; simp
      split at hs
      · -- last parked
        split at hs
        · cases hs
        · rename_i s1 hl
          have f := frame_onLastParked c _ _ _ _ hl
          injection hs with hs; subst hs
          obtain ⟨q1, q2⟩ := counts_setPc_from c s s1 w .waiting hw (fun x => by rw [f.pc]) (fun x => by rw [f.pc]) hnp hns
          simp [PC.isParked] at q1 q2
          refine ⟨?_, fun k hk => ?_, fun hk => ?_⟩
          · show s1.parked = _; rw [q1, f.parked]; show s.parked + 1 = _; rw [h.parked_eq]
          · rw [q2]; exact h.pool k (f.creation ▸ hk)
          · rw [q2]; exact h.spawned (f.creation ▸ hk)
        · rename_i s1 hl
          have f := frame_onLastParked c _ _ _ _ hl
          injection hs with hs; subst hs
          obtain ⟨p, hp, he⟩ := afterUnpark_pc { s1 with parked := s1.parked - 1 } w
          rw [he]
          have hp1 : p.isParked = false := by rcases hp with rfl | rfl <;> rfl
          have hp2 : p ≠ .surrendered := by rcases hp with rfl | rfl <;> simp
          obtain ⟨q1, q2⟩ := counts_setPc_from c s s1 w p hw (fun x => by rw [f.pc]) (fun x => by rw [f.pc]) hnp hns
          simp [hp1, hp2] at q1 q2
          refine ⟨?_, fun k hk => ?_, fun hk => ?_⟩
          · show s1.parked - 1 = parkedCount c (setPc s1 w p)
            rw [q1, f.parked]; show s.parked + 1 - 1 = _; rw [← h.parked_eq]; omega
          · show k = surrCount c (setPc s1 w p); rw [q2]; exact h.pool k (f.creation ▸ hk)
          · show surrCount c (setPc s1 w p) = 0; rw [q2]; exact h.spawned (f.creation ▸ hk)
        · rename_i s1 hl
          have f := frame_onLastParked c _ _ _ _ hl
          injection hs with hs; subst hs
          obtain ⟨p, hp, he⟩ := afterUnpark_pc { notifyAll s1 with parked := (notifyAll s1).parked - 1 } w
          rw [he]
          have hp1 : p.isParked = false := by rcases hp with rfl | rfl <;> rfl
          have hp2 : p ≠ .surrendered := by rcases hp with rfl | rfl <;> simp
          obtain ⟨q1, q2⟩ := counts_setPc_from c s (notifyAll s1) w p hw
            (fun x => by rw [notifyAll_parked, f.pc]) (fun x => by rw [notifyAll_surr, f.pc]) hnp hns
          simp [hp1, hp2] at q1 q2
          refine ⟨?_, fun k hk => ?_, fun hk => ?_⟩
          · show s1.parked - 1 = parkedCount c (setPc (notifyAll s1) w p)
            rw [q1, f.parked]; show s.parked + 1 - 1 = _; rw [← h.parked_eq]; omega
          · show k = surrCount c (setPc (notifyAll s1) w p); rw [q2]; exact h.pool k (f.creation ▸ hk)
          · show surrCount c (setPc (notifyAll s1) w p) = 0; rw [q2]; exact h.spawned (f.creation ▸ hk)
      · injection hs with hs; subst hs
        obtain ⟨q1, q2⟩ := counts_setPc_from c s s w .waiting hw (fun x => rfl) (fun x => Iff.rfl) hnp hns
        simp [PC.isParked] at q1 q2
        refine ⟨?_, fun k hk => ?_, fun hk => ?_⟩
        · show s.parked + 1 = parkedCount c (setPc s w .waiting); rw [q1, h.parked_eq]
        · show k = surrCount c (setPc s w .waiting); rw [q2]; exact h.pool k hk
        · show surrCount c (setPc s w .waiting) = 0; rw [q2]; exact h.spawned hk
    · cases hs
  | spurious w =>
    simp only [step] at hs
    split at hs
    · rename_i hg; injection hs with hs; subst hs; exact invA_wake h hg.1 hg.2
    · cases hs
  | wake w =>
    simp only [step] at hs
    split at hs
    · rename_i hg
      obtain ⟨hw, hpc, hpos⟩ := hg
      injection hs with hs; subst hs
      obtain ⟨p, hp, he⟩ := afterUnpark_pc { s with parked := s.parked - 1 } w
      rw [he]
      have hp1 : p.isParked = false := by rcases hp with rfl | rfl <;> rfl
      have hp2 : p ≠ .surrendered := by rcases hp with rfl | rfl <;> simp
      have q1 := parkedCount_setPc c s w p hw
      have q2 := surrCount_setPc c s w p hw
      have hwk : PC.woken.isParked = true := rfl
      simp only [hpc, hwk, hp1, if_true, if_false, Bool.false_eq_true] at q1
      simp only [hpc, hp2, if_false] at q2
      simp at q2
      refine ⟨?_, fun k hk => ?_, fun hk => ?_⟩
      · show s.parked - 1 = parkedCount c (setPc s w p); rw [h.parked_eq]; omega
      · show k = surrCount c (setPc s w p); rw [q2]; exact h.pool k hk
      · show surrCount c (setPc s w p) = 0; rw [q2]; exact h.spawned hk
    · cases hs
  | surrender w =>
    simp only [step] at hs
    split at hs
    · rename_i k hcr
      split at hs
      · rename_i hg
        obtain ⟨hw, hpc⟩ := hg
        have q1 := parkedCount_setPc c s w .surrendered hw
        have q2 := surrCount_setPc c s w .surrendered hw
        simp only [hpc, PC.isParked, if_false, Bool.false_eq_true] at q1
        simp [hpc] at q2
        have hk := h.pool k hcr
        split at hs <;> (injection hs with hs; subst hs)
        · refine ⟨?_, fun k' hk' => ?_, fun hk' => ?_⟩
          · show s.parked = parkedCount c (setPc s w .surrendered); rw [h.parked_eq]; omega
          · have : k' = k + 1 := by simp at hk'; omega
            show k' = surrCount c (setPc s w .surrendered); omega
          · simp at hk'
        · refine ⟨?_, fun k' hk' => ?_, fun hk' => ?_⟩
          · show s.parked = parkedCount c (setPc s w .surrendered); rw [h.parked_eq]; omega
          · have : k' = k + 1 := by simp at hk'; omega
            show k' = surrCount c (setPc s w .surrendered); omega
          · simp at hk'
      · cases hs
    · cases hs
  | requestFlag =>
    simp only [step] at hs
    split at hs <;> (injection hs with hs; subst hs)
    · exact h
    · exact invA_same h rfl rfl rfl
  | makeRequest g x =>
    simp only [step] at hs
    have hc : InvA c (consumePending s g) := by
      unfold consumePending; split
      · exact invA_same h rfl rfl rfl
      · exact h
    split at hs
    · cases hs
    · split at hs
      · split at hs
        · injection hs with hs; subst hs; exact hc
        · cases hs
      · refine invA_notifyOne (s := setRequested (consumePending s g) g true) ?_ hs
        cases g <;> exact invA_same hc rfl rfl rfl
  | mutPush b tag =>
    simp only [step] at hs
    split at hs
    · injection hs with hs; subst hs; exact invA_same h rfl rfl rfl
    · cases hs
  | mutNotifyOne b x =>
    simp only [step] at hs
    split at hs
    · exact invA_notifyOne h hs
    · cases hs
  | initSetEnabled b v =>
    simp only [step] at hs
    split at hs
    · injection hs with hs; subst hs; exact invA_same h rfl rfl rfl
    · cases hs
  | prepareSurrender =>
    simp only [step] at hs
    split at hs
    · rename_i hcr; injection hs with hs; subst hs
      exact ⟨h.parked_eq, fun k hk => by simp at hk; subst hk; exact (h.spawned hcr).symm, fun hk => by simp at hk⟩
    · cases hs
  | respawn =>
    simp only [step] at hs
    split at hs
    · rename_i k hcr
      split at hs
      · rename_i hk; injection hs with hs; subst hs
        have hsc : surrCount c s = c.n := by rw [← hk]; exact (h.pool k hcr).symm
        have hall := countW_all c.n _ hsc
        have hz : parkedCount c s = 0 := by
          apply countW_zero; intro x hx
          have := hall x hx
          rw [decide_eq_true_eq] at this; rw [this]; rfl
        refine ⟨?_, fun k' hk' => by simp at hk', fun _ => ?_⟩
        · show s.parked = _
          rw [h.parked_eq, hz]; symm
          apply countW_zero; intro x hx; simp [hx]; rfl
        · apply countW_zero; intro x hx; simp [hx]
      · cases hs
    · cases hs


theorem init_invA (c : Cfg) : InvA c (init c) := by
  refine ⟨?_, fun k hk => by simp [init] at hk, fun _ => ?_⟩
  · show 0 = _; symm; apply countW_zero; intro x _; rfl
  · apply countW_zero; intro x _; simp [init]

theorem exec_some_induct (c : Cfg) (P : State → Prop)
    (hstep : ∀ s s' a, P s → step c s a = some s' → P s')
    (run : List Act) : ∀ s s', P s → exec c s run = some s' → P s' := by
  induction run with
  | nil => intro s s' h e; simp [exec] at e; subst e; exact h
  | cons a as ih =>
    intro s s' h e
    simp only [exec] at e
    split at e
    · rename_i s1 hs; exact ih s1 s' (hstep s s1 a h hs) e
    · cases e

theorem reachable_invA {c : Cfg} {s : State} (h : Reachable c s) : InvA c s := by
  obtain ⟨run, hr⟩ := h
  exact exec_some_induct c (InvA c) (fun s s' a => step_invA c s s' a) run _ _ (init_invA c) hr

end Mmtk.Sched
