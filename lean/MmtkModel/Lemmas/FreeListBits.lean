import MmtkModel.Model.FreeList
/-!
# Field view of the `i32` entries of the free-list table (C26, concrete layer)

Every entry is read through three fields only: bit 31 (`FREE` in a lo entry, `MULTI` in a hi entry),
bit 30 (`COALESC` in a lo entry) and the low 30 bits (`prev` / `next` link, or a size).  The lemmas
here say how each of the mask expressions of `Mmtk.FreeList` acts on the three fields; after this
file no proof looks at a bit operation again.  Core Lean only.
-/
namespace Mmtk.FreeList

theorem B31_eq : B31 = 2 ^ 31 := by decide
theorem B30_eq : B30 = 2 ^ 30 := by decide
theorem M30_eq : M30 = 2 ^ 30 - 1 := by decide

theorem and_two_pow_eq (x i : Nat) : x &&& 2 ^ i = if x.testBit i then 2 ^ i else 0 := by
  apply Nat.eq_of_testBit_eq
  intro j
  rw [Nat.testBit_and, Nat.testBit_two_pow]
  by_cases h : i = j
  · subst h
    cases hx : x.testBit i <;> simp
  · cases hx : x.testBit i <;> simp [h]

/-- `e & FREE_MASK == FREE_MASK` (also `MULTI_MASK`) reads bit 31. -/
theorem and_B31_beq (x : Nat) : (x &&& B31 == B31) = x.testBit 31 := by
  rw [B31_eq, and_two_pow_eq]
  cases x.testBit 31 <;> simp

/-- `e & COALESC_MASK == 0` reads bit 30. -/
theorem and_B30_beq (x : Nat) : (x &&& B30 == 0) = !x.testBit 30 := by
  rw [B30_eq, and_two_pow_eq]
  cases x.testBit 30 <;> simp

/-- `e & NEXT_MASK` is the low 30 bits. -/
theorem and_M30 (x : Nat) : x &&& M30 = x % 2 ^ 30 := by
  rw [M30_eq, Nat.and_two_pow_sub_one_eq_mod]

/-! ### `x ||| B31` -/
theorem or_B31_t31 (x : Nat) : (x ||| B31).testBit 31 = true := by
  rw [Nat.testBit_or, B31_eq, Nat.testBit_two_pow]; simp
theorem or_B31_t30 (x : Nat) : (x ||| B31).testBit 30 = x.testBit 30 := by
  rw [Nat.testBit_or, B31_eq, Nat.testBit_two_pow]; simp
theorem or_B31_lnk (x : Nat) : (x ||| B31) % 2 ^ 30 = x % 2 ^ 30 := by
  rw [Nat.or_mod_two_pow]
  have : B31 % 2 ^ 30 = 0 := by decide
  rw [this, Nat.or_zero]

/-! ### `x &&& NOT_B31` -/
theorem NOT_B31_eq : NOT_B31 = 2 ^ 31 - 1 := by decide
theorem and_NOT_B31_t31 (x : Nat) : (x &&& NOT_B31).testBit 31 = false := by
  rw [Nat.testBit_and, NOT_B31_eq, Nat.testBit_two_pow_sub_one]; simp
theorem and_NOT_B31_t30 (x : Nat) : (x &&& NOT_B31).testBit 30 = x.testBit 30 := by
  rw [Nat.testBit_and, NOT_B31_eq, Nat.testBit_two_pow_sub_one]; simp
theorem and_NOT_B31_lnk (x : Nat) : (x &&& NOT_B31) % 2 ^ 30 = x % 2 ^ 30 := by
  rw [Nat.and_mod_two_pow]
  have : NOT_B31 % 2 ^ 30 = 2 ^ 30 - 1 := by decide
  rw [this, Nat.and_two_pow_sub_one_eq_mod, Nat.mod_mod]

/-! ### `x ||| B30` -/
theorem or_B30_t31 (x : Nat) : (x ||| B30).testBit 31 = x.testBit 31 := by
  rw [Nat.testBit_or, B30_eq, Nat.testBit_two_pow]; simp
theorem or_B30_t30 (x : Nat) : (x ||| B30).testBit 30 = true := by
  rw [Nat.testBit_or, B30_eq, Nat.testBit_two_pow]; simp
theorem or_B30_lnk (x : Nat) : (x ||| B30) % 2 ^ 30 = x % 2 ^ 30 := by
  rw [Nat.or_mod_two_pow]
  have : B30 % 2 ^ 30 = 0 := by decide
  rw [this, Nat.or_zero]

/-! ### `x &&& NOT_B30` -/
theorem NOT_B30_t (i : Nat) : NOT_B30.testBit i = (decide (i < 32) && decide (i ≠ 30)) := by
  have : NOT_B30 = 2 ^ 31 + (2 ^ 30 - 1) := by decide
  by_cases h31 : i = 31
  · subst h31; decide
  · by_cases hlt : i < 31
    · rw [this, Nat.testBit_two_pow_add_gt hlt, Nat.testBit_two_pow_sub_one]
      by_cases h30 : i = 30
      · subst h30; decide
      · have h1 : i < 30 := by omega
        have h2 : i < 32 := by omega
        simp [h1, h2, h30]
    · have hge : NOT_B30 < 2 ^ i := by
        calc NOT_B30 < 2 ^ 32 := by decide
          _ ≤ 2 ^ i := Nat.pow_le_pow_right (by omega) (by omega)
      rw [Nat.testBit_lt_two_pow hge]
      have : ¬ i < 32 := by omega
      simp [this]
theorem and_NOT_B30_t31 (x : Nat) : (x &&& NOT_B30).testBit 31 = x.testBit 31 := by
  rw [Nat.testBit_and, NOT_B30_t]; simp
theorem and_NOT_B30_t30 (x : Nat) : (x &&& NOT_B30).testBit 30 = false := by
  rw [Nat.testBit_and, NOT_B30_t]; simp
theorem and_NOT_B30_lnk (x : Nat) : (x &&& NOT_B30) % 2 ^ 30 = x % 2 ^ 30 := by
  rw [Nat.and_mod_two_pow]
  have : NOT_B30 % 2 ^ 30 = 2 ^ 30 - 1 := by decide
  rw [this, Nat.and_two_pow_sub_one_eq_mod, Nat.mod_mod]

/-! ### `(x &&& NOT_M30) ||| (v &&& M30)` — `set_next` / `set_prev` -/
theorem NOT_M30_t (i : Nat) : NOT_M30.testBit i = (decide (i = 30) || decide (i = 31)) := by
  have : NOT_M30 = 2 ^ 31 + 2 ^ 30 := by decide
  by_cases h31 : i = 31
  · subst h31; decide
  · by_cases hlt : i < 31
    · rw [this, Nat.testBit_two_pow_add_gt hlt, Nat.testBit_two_pow]
      by_cases h30 : i = 30
      · subst h30; decide
      · have : ¬ 30 = i := by omega
        simp [h30, h31, this]
    · have hge : NOT_M30 < 2 ^ i := by
        calc NOT_M30 < 2 ^ 32 := by decide
          _ ≤ 2 ^ i := Nat.pow_le_pow_right (by omega) (by omega)
      rw [Nat.testBit_lt_two_pow hge]
      have : ¬ i = 30 := by omega
      simp [this, h31]
theorem setLink_t31 (x v : Nat) : ((x &&& NOT_M30) ||| (v &&& M30)).testBit 31 = x.testBit 31 := by
  rw [Nat.testBit_or, Nat.testBit_and, Nat.testBit_and, NOT_M30_t, M30_eq, Nat.testBit_two_pow_sub_one]; simp
theorem setLink_t30 (x v : Nat) : ((x &&& NOT_M30) ||| (v &&& M30)).testBit 30 = x.testBit 30 := by
  rw [Nat.testBit_or, Nat.testBit_and, Nat.testBit_and, NOT_M30_t, M30_eq, Nat.testBit_two_pow_sub_one]; simp
theorem setLink_lnk (x v : Nat) : ((x &&& NOT_M30) ||| (v &&& M30)) % 2 ^ 30 = v % 2 ^ 30 := by
  rw [Nat.or_mod_two_pow, Nat.and_mod_two_pow, Nat.and_mod_two_pow]
  have h1 : NOT_M30 % 2 ^ 30 = 0 := by decide
  have h2 : M30 % 2 ^ 30 = 2 ^ 30 - 1 := by decide
  rw [h1, h2, Nat.and_zero, Nat.zero_or, Nat.and_two_pow_sub_one_eq_mod, Nat.mod_mod]

/-! ### `B31 ||| enc size` — the size entries -/
theorem B31_or_t31 (v : Nat) : (B31 ||| v).testBit 31 = true := by
  rw [Nat.testBit_or, B31_eq, Nat.testBit_two_pow]; simp
theorem B31_or_lnk (v : Nat) : (B31 ||| v) % 2 ^ 30 = v % 2 ^ 30 := by
  rw [Nat.or_mod_two_pow]
  have : B31 % 2 ^ 30 = 0 := by decide
  rw [this, Nat.zero_or]

/-! ### `enc` -/
theorem enc_nat (n : Nat) (h : n < 2 ^ 32) : enc (n : Int) = n := by
  have h' : n < 4294967296 := by simpa using h
  simp only [enc]; omega
/-- a head `-(k+1)` is stored as `2^30 - (k+1)` in a 30-bit link field -/
theorem enc_neg_lnk (k : Nat) (h : k < 2 ^ 30) : enc (-((k : Int) + 1)) % 2 ^ 30 = 2 ^ 30 - (k + 1) := by
  have h' : k < 1073741824 := by simpa using h
  simp only [enc]; omega

end Mmtk.FreeList
