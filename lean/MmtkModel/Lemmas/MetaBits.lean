import MmtkModel.Model.HeaderMeta
/-!
# Bit-splice and little-endian word lemmas shared by the metadata properties (C20–C23)

Sub-byte fields spliced into one byte (`setBits`/`getBits` at `(shift, numBits)`), what an accessor
on such a field must guarantee (`BitsPost`), little-endian words (`readLE`/`writeLE`), mask splices,
and the postcondition of a byte-or-wider accessor (`WordPost`).  Moved here from `Props/C23.lean`
so that the side-metadata properties reuse them.
-/
namespace Mmtk.HeaderMeta
open Mmtk.Mem
/-! ## sub-byte splice lemmas -/

/-- bit `i` lies inside the field of `s`. -/
def InField (s : Spec) (i : Nat) : Prop := s.shift ≤ i ∧ i < s.shift + s.numBits
instance (s : Spec) (i : Nat) : Decidable (InField s i) := by unfold InField; exact inferInstance

theorem shift_lt (s : Spec) : s.shift < 8 := by
  unfold Spec.shift
  have h1 : 0 ≤ s.bitOffset % 8 := Int.emod_nonneg _ (by omega)
  have h2 : s.bitOffset % 8 < 8 := Int.emod_lt_of_pos _ (by omega)
  omega

theorem mask8_eq (s : Spec) (h : s.bitsOk) : mask8 s = (2 ^ s.numBits - 1) * 2 ^ s.shift := by
  obtain ⟨_, _, h3⟩ := h
  unfold mask8
  rw [Nat.shiftLeft_eq]
  apply Nat.mod_eq_of_lt
  have : (2 ^ s.numBits - 1) * 2 ^ s.shift < 2 ^ s.numBits * 2 ^ s.shift := by
    apply Nat.mul_lt_mul_of_pos_right
    · have := Nat.two_pow_pos s.numBits; omega
    · exact Nat.two_pow_pos _
  rw [← Nat.pow_add] at this
  calc _ < 2 ^ (s.numBits + s.shift) := this
    _ ≤ 2 ^ 8 := Nat.pow_le_pow_right (by omega) (by omega)

theorem testBit_mask8 (s : Spec) (h : s.bitsOk) (i : Nat) :
    (mask8 s).testBit i = decide (InField s i) := by
  rw [mask8_eq s h, Nat.testBit_mul_two_pow, Nat.testBit_two_pow_sub_one]
  unfold InField
  by_cases h1 : s.shift ≤ i <;> simp [h1] <;> omega

theorem mask8_lt (s : Spec) : mask8 s < 256 := by
  unfold mask8; exact Nat.mod_lt _ (by omega)

theorem testBit_notmask8 (s : Spec) (h : s.bitsOk) (i : Nat) :
    (255 - mask8 s).testBit i = (decide (i < 8) && !decide (InField s i)) := by
  have hm := mask8_lt s
  have e : 255 - mask8 s = 2 ^ 8 - (mask8 s + 1) := by omega
  rw [e, Nat.testBit_two_pow_sub_succ (by omega), testBit_mask8 s h]

theorem testBit_shifted (s : Spec) (h : s.bitsOk) (v : Nat) (hv : v < 2 ^ s.numBits) (i : Nat) :
    ((v <<< s.shift) % 256).testBit i = (decide (InField s i) && v.testBit (i - s.shift)) := by
  obtain ⟨_, _, h3⟩ := h
  have e : (256 : Nat) = 2 ^ 8 := by decide
  rw [e, Nat.testBit_mod_two_pow, Nat.testBit_shiftLeft]
  unfold InField
  by_cases h1 : s.shift ≤ i
  · by_cases h2 : i < s.shift + s.numBits
    · have : i < 8 := by omega
      simp [h1, h2, this]
    · have : v.testBit (i - s.shift) = false := by
        apply Nat.testBit_lt_two_pow
        calc v < 2 ^ s.numBits := hv
          _ ≤ 2 ^ (i - s.shift) := Nat.pow_le_pow_right (by omega) (by omega)
      simp [this]
  · simp [h1]

/-- bit-level description of `set_bits_to_u8`. -/
theorem testBit_setBits (s : Spec) (h : s.bitsOk) (raw v : Nat) (hr : raw < 256) (hv : v < 2 ^ s.numBits)
    (i : Nat) :
    (setBits s raw v).testBit i = if InField s i then v.testBit (i - s.shift) else raw.testBit i := by
  unfold setBits
  rw [Nat.testBit_or, Nat.testBit_and, testBit_notmask8 s h, testBit_shifted s h v hv]
  by_cases hf : InField s i
  · simp [hf]
  · simp only [hf, decide_false, Bool.not_false, Bool.and_true, Bool.false_and, Bool.or_false, if_false]
    by_cases h8 : i < 8
    · simp [h8]
    · have : raw.testBit i = false := by
        apply Nat.testBit_lt_two_pow
        calc raw < 2 ^ 8 := hr
          _ ≤ 2 ^ i := Nat.pow_le_pow_right (by omega) (by omega)
      simp [this]

theorem getBits_eq (s : Spec) (h : s.bitsOk) (raw : Nat) :
    getBits s raw = (raw >>> s.shift) % 2 ^ s.numBits := by
  unfold getBits
  apply Nat.eq_of_testBit_eq
  intro i
  rw [Nat.testBit_shiftRight, Nat.testBit_and, testBit_mask8 s h, Nat.testBit_mod_two_pow,
    Nat.testBit_shiftRight]
  unfold InField
  by_cases h2 : i < s.numBits
  · have : s.shift + i < s.shift + s.numBits := by omega
    simp [h2, this, Bool.and_comm]
  · have : ¬ (s.shift + i < s.shift + s.numBits) := by omega
    simp [h2, this]

theorem getBits_lt (s : Spec) (h : s.bitsOk) (raw : Nat) : getBits s raw < 2 ^ s.numBits := by
  rw [getBits_eq s h]; exact Nat.mod_lt _ (Nat.two_pow_pos _)

/-- reading back what was spliced in. -/
theorem getBits_setBits (s : Spec) (h : s.bitsOk) (raw v : Nat) (hr : raw < 256) (hv : v < 2 ^ s.numBits) :
    getBits s (setBits s raw v) = v := by
  rw [getBits_eq s h]
  apply Nat.eq_of_testBit_eq
  intro i
  rw [Nat.testBit_mod_two_pow, Nat.testBit_shiftRight, testBit_setBits s h raw v hr hv]
  by_cases h2 : i < s.numBits
  · have : InField s (s.shift + i) := ⟨by omega, by omega⟩
    simp [h2, this]
  · have : v.testBit i = false := by
      apply Nat.testBit_lt_two_pow
      calc v < 2 ^ s.numBits := hv
        _ ≤ 2 ^ i := Nat.pow_le_pow_right (by omega) (by omega)
    simp [h2, this]

/-- Two bytes agree on every bit outside the field of `s`. -/
def OutsideSame (s : Spec) (a b : Nat) : Prop := ∀ i, ¬ InField s i → a.testBit i = b.testBit i

theorem setBits_outside (s : Spec) (h : s.bitsOk) (raw v : Nat) (hr : raw < 256) (hv : v < 2 ^ s.numBits) :
    OutsideSame s (setBits s raw v) raw := by
  intro i hi
  rw [testBit_setBits s h raw v hr hv]; simp [hi]

theorem setBits_lt (s : Spec) (h : s.bitsOk) (raw v : Nat) (hr : raw < 256) (hv : v < 2 ^ s.numBits) :
    setBits s raw v < 256 := by
  have e : (256 : Nat) = 2 ^ 8 := by decide
  rw [e]
  apply Nat.lt_pow_two_of_testBit
  intro i hi
  rw [testBit_setBits s h raw v hr hv]
  have hnf : ¬ InField s i := by
    obtain ⟨_, _, h3⟩ := h
    unfold InField; omega
  simp only [hnf, if_false]
  apply Nat.testBit_lt_two_pow
  calc raw < 2 ^ 8 := by omega
    _ ≤ 2 ^ i := Nat.pow_le_pow_right (by omega) hi

theorem truncBits_lt (s : Spec) (v : Nat) : truncBits s v < 2 ^ s.numBits := by
  unfold truncBits
  rw [Nat.and_two_pow_sub_one_eq_mod]
  exact Nat.mod_lt _ (Nat.two_pow_pos _)


theorem setBits_getBits_self (s : Spec) (h : s.bitsOk) (raw : Nat) (hr : raw < 256) :
    setBits s raw (getBits s raw) = raw := by
  apply Nat.eq_of_testBit_eq
  intro i
  rw [testBit_setBits s h raw _ hr (getBits_lt s h raw)]
  by_cases hf : InField s i
  · simp only [hf, if_true]
    rw [getBits_eq s h, Nat.testBit_mod_two_pow, Nat.testBit_shiftRight]
    obtain ⟨h1, h2⟩ := hf
    have e : s.shift + (i - s.shift) = i := by omega
    have : i - s.shift < s.numBits := by omega
    simp [e, this]
  · simp [hf]

theorem setBits_setBits (s : Spec) (h : s.bitsOk) (raw a b : Nat) (hr : raw < 256)
    (ha : a < 2 ^ s.numBits) (hb : b < 2 ^ s.numBits) :
    setBits s (setBits s raw a) b = setBits s raw b := by
  apply Nat.eq_of_testBit_eq
  intro i
  rw [testBit_setBits s h _ b (setBits_lt s h raw a hr ha) hb, testBit_setBits s h raw b hr hb,
    testBit_setBits s h raw a hr ha]
  by_cases hf : InField s i <;> simp [hf]

theorem setBits_eq_self_iff (s : Spec) (h : s.bitsOk) (raw v : Nat) (hr : raw < 256) (hv : v < 2 ^ s.numBits) :
    raw = setBits s raw v ↔ getBits s raw = v := by
  constructor
  · intro e
    have := getBits_setBits s h raw v hr hv
    rw [← e] at this; exact this
  · intro e
    rw [← e, setBits_getBits_self s h raw hr]

/-! ## What C23 demands of an accessor on a sub-byte field -/

/-- `m'` differs from `m` only inside the field of `s` (at header `h`), the field now holds
`newField`, and `ret` is the field's previous value. -/
structure BitsPost (s : Spec) (m : Mem) (h : Nat) (m' : Mem) (ret newField : Nat) : Prop where
  other_bytes : ∀ x, x ≠ s.addr h → m' x = m x
  other_bits : OutsideSame s (m' (s.addr h)) (m (s.addr h))
  ret_old : ret = getBits s (m (s.addr h))
  field_new : getBits s (m' (s.addr h)) = newField
  byte_ok : m' (s.addr h) < 256

theorem set_post (s : Spec) (hs : s.bitsOk) (m : Mem) (h v : Nat) (hb : m (s.addr h) < 256)
    (hv : v < 2 ^ s.numBits) :
    BitsPost s m h (Mmtk.Mem.set m (s.addr h) (setBits s (m (s.addr h)) v)) (getBits s (m (s.addr h))) v := by
  refine ⟨?_, ?_, rfl, ?_, ?_⟩
  · intro x hx; simp [Mmtk.Mem.set, hx]
  · simp only [Mmtk.Mem.set, if_true]; exact setBits_outside s hs _ v hb hv
  · simp only [Mmtk.Mem.set, if_true]; exact getBits_setBits s hs _ v hb hv
  · simp only [Mmtk.Mem.set, if_true]; exact setBits_lt s hs _ v hb hv

theorem noop_post (s : Spec) (m : Mem) (h : Nat) (hb : m (s.addr h) < 256) :
    BitsPost s m h m (getBits s (m (s.addr h))) (getBits s (m (s.addr h))) :=
  ⟨fun _ _ => rfl, fun _ _ => rfl, rfl, rfl, hb⟩

theorem trunc_mod (s : Spec) (hs : s.bitsOk) (x : Nat) : truncBits s (x % 256) = x % 2 ^ s.numBits := by
  unfold truncBits
  rw [Nat.and_two_pow_sub_one_eq_mod]
  have e : (256 : Nat) = 2 ^ 8 := by decide
  rw [e]
  exact Nat.mod_mod_of_dvd _ (Nat.pow_dvd_pow 2 (by have := hs.2.1; omega))

/-! ## little-endian word lemmas -/

/-- every byte of memory is a byte. -/
def ByteMem (m : Mem) : Prop := ∀ x, m x < 256

theorem writeLE_other (m : Mem) (a w v x : Nat) (hx : x < a ∨ a + w ≤ x) : writeLE m a w v x = m x := by
  induction w generalizing m a v with
  | zero => rfl
  | succ w ih =>
    simp only [writeLE]
    rw [ih _ _ _ (by omega)]
    have : x ≠ a := by omega
    simp [Mmtk.Mem.set, this]

theorem readLE_writeLE (m : Mem) (a w v : Nat) : readLE (writeLE m a w v) a w = v % 256 ^ w := by
  induction w generalizing m a v with
  | zero => simp [readLE, Nat.mod_one]
  | succ w ih =>
    simp only [writeLE, readLE]
    rw [writeLE_other _ _ _ _ _ (Or.inl (Nat.lt_succ_self a)), ih]
    simp only [Mmtk.Mem.set, if_true]
    rw [Nat.pow_succ, Nat.mul_comm (256 ^ w) 256, Nat.mod_mul]

theorem readLE_congr (m m' : Mem) (a w : Nat) (h : ∀ x, a ≤ x → x < a + w → m' x = m x) :
    readLE m' a w = readLE m a w := by
  induction w generalizing a with
  | zero => rfl
  | succ w ih =>
    simp only [readLE]
    rw [h a (by omega) (by omega), ih (a + 1) (fun x h1 h2 => h x (by omega) (by omega))]

theorem readLE_lt (m : Mem) (hm : ByteMem m) (a w : Nat) : readLE m a w < 256 ^ w := by
  induction w generalizing a with
  | zero => simp [readLE]
  | succ w ih =>
    simp only [readLE, Nat.pow_succ]
    have := hm a
    have := ih (a + 1)
    omega

theorem writeLE_byteMem (m : Mem) (hm : ByteMem m) (a w v : Nat) : ByteMem (writeLE m a w v) := by
  induction w generalizing m a v with
  | zero => exact hm
  | succ w ih =>
    simp only [writeLE]
    apply ih
    intro x
    simp only [Mmtk.Mem.set]
    split
    · exact Nat.mod_lt _ (by omega)
    · exact hm x

theorem wordMax_eq (w : Nat) : wordMax w = 2 ^ (8 * w) := by
  unfold wordMax
  have e : (256 : Nat) = 2 ^ 8 := by decide
  rw [e, ← Nat.pow_mul]

/-! ## mask splice lemmas (`n`-bit words) -/

theorem testBit_compl (n k : Nat) (hk : k < 2 ^ n) (i : Nat) :
    (2 ^ n - 1 - k).testBit i = (decide (i < n) && !k.testBit i) := by
  have e : 2 ^ n - 1 - k = 2 ^ n - (k + 1) := by omega
  rw [e, Nat.testBit_two_pow_sub_succ hk]

theorem testBit_high {n x : Nat} (hx : x < 2 ^ n) {i : Nat} (hi : n ≤ i) : x.testBit i = false :=
  Nat.testBit_lt_two_pow (Nat.lt_of_lt_of_le hx (Nat.pow_le_pow_right (by omega) hi))

/-- `(cur & !mask) | (v & mask)` keeps `cur` outside the mask and takes `v` inside it. -/
theorem splice_in (n cur v k : Nat) (hk : k < 2 ^ n) :
    ((cur &&& (2 ^ n - 1 - k)) ||| (v &&& k)) &&& k = v &&& k := by
  apply Nat.eq_of_testBit_eq
  intro i
  simp only [Nat.testBit_and, Nat.testBit_or, testBit_compl n k hk]
  cases k.testBit i <;> simp

theorem splice_out (n cur v k : Nat) (hk : k < 2 ^ n) :
    ((cur &&& (2 ^ n - 1 - k)) ||| (v &&& k)) &&& (2 ^ n - 1 - k) = cur &&& (2 ^ n - 1 - k) := by
  apply Nat.eq_of_testBit_eq
  intro i
  simp only [Nat.testBit_and, Nat.testBit_or, testBit_compl n k hk]
  cases k.testBit i <;> simp

theorem splice_lt (n cur v k : Nat) (hc : cur < 2 ^ n) (hk : k < 2 ^ n) :
    (cur &&& (2 ^ n - 1 - k)) ||| (v &&& k) < 2 ^ n := by
  apply Nat.or_lt_two_pow
  · exact Nat.lt_of_le_of_lt Nat.and_le_left hc
  · exact Nat.lt_of_le_of_lt Nat.and_le_right hk

/-- a word splits into its masked and unmasked parts. -/
theorem split_mask (n x k : Nat) (hx : x < 2 ^ n) (hk : k < 2 ^ n) :
    (x &&& (2 ^ n - 1 - k)) ||| (x &&& k) = x := by
  apply Nat.eq_of_testBit_eq
  intro i
  simp only [Nat.testBit_and, Nat.testBit_or, testBit_compl n k hk]
  by_cases hi : i < n
  · cases k.testBit i <;> simp [hi]
  · simp [testBit_high hx (Nat.le_of_not_lt hi)]

/-! ## What C23 demands of an accessor on a byte-or-wider field -/

/-- `m'` differs from `m` only inside the `w` bytes of the field, whose word value is now `newWord`;
`ret` is what the accessor returned. -/
structure WordPost (s : Spec) (w : Nat) (m : Mem) (h : Nat) (m' : Mem) (newWord : Nat) : Prop where
  other_bytes : ∀ x, x < s.addr h ∨ s.addr h + w ≤ x → m' x = m x
  word_new : readLE m' (s.addr h) w = newWord
  bytes_ok : ByteMem m'

theorem write_post (s : Spec) (w : Nat) (m : Mem) (hm : ByteMem m) (h v : Nat) (hv : v < wordMax w) :
    WordPost s w m h (writeLE m (s.addr h) w v) v :=
  ⟨fun x hx => writeLE_other m _ w v x hx, by rw [readLE_writeLE]; exact Nat.mod_eq_of_lt hv,
   writeLE_byteMem m hm _ _ _⟩

theorem keep_post (s : Spec) (w : Nat) (m : Mem) (hm : ByteMem m) (h : Nat) :
    WordPost s w m h m (readLE m (s.addr h) w) := ⟨fun _ _ => rfl, rfl, hm⟩


end Mmtk.HeaderMeta
