import MmtkModel.Model.SideMetaSearch
import MmtkModel.Props.C21
/-!
# Helper lemmas for C22 (side-metadata search and scan), abstract level

Nothing here depends on the bit-selection lemmas of `Props/C22.lean`; the concrete inner loops are
tied to the abstract searches defined here in `Props/C22.lean`.

* `bitsIn m x y` — the ascending list of the set bit positions (global bit index) in `[x, y)`;
  it is additive over `Tiles` (`bitsIn_tiles`).
* `ScanOk m x y l` — what a range scanner must output for the bit interval `[x, y)`.
* `metaToData_bit` — closed form of `contiguous_meta_address_to_address` for 1-bit specs.
* `scanSimpleLoop_eq` — the naive scan is a filter over the region starts.
-/
namespace Mmtk.SideMeta
open Mmtk.Mem
open Mmtk.HeaderMeta (ByteMem)

/-! ## set bits of a bit interval -/

/-- the set bit positions of `[x, y)`, ascending, once each. -/
def bitsIn (m : Mem) (x y : Nat) : List Nat := (List.range' x (y - x)).filter (fun p => bitAt m p)

theorem bitsIn_self (m : Mem) (x : Nat) : bitsIn m x x = [] := by
  unfold bitsIn; simp

theorem bitsIn_append (m : Mem) {x y z : Nat} (h1 : x ≤ y) (h2 : y ≤ z) :
    bitsIn m x y ++ bitsIn m y z = bitsIn m x z := by
  unfold bitsIn
  rw [← List.filter_append]
  congr 1
  have e1 : y = x + (y - x) := by omega
  have e2 : z - x = (y - x) + (z - y) := by omega
  rw [e2]
  conv => lhs; rw [e1]
  have e3 : x + (y - x) - x = y - x := by omega
  have e4 : z - (x + (y - x)) = z - y := by omega
  rw [e3, e4]
  exact List.range'_append_1 ..

theorem mem_bitsIn (m : Mem) (x y p : Nat) : p ∈ bitsIn m x y ↔ (x ≤ p ∧ p < y ∧ bitAt m p = true) := by
  unfold bitsIn
  simp only [List.mem_filter, List.mem_range'_1]
  constructor
  · rintro ⟨⟨a, b⟩, c⟩; exact ⟨a, by omega, c⟩
  · rintro ⟨a, b, c⟩; exact ⟨⟨a, by omega⟩, c⟩

/-- global bit index of a `(metadata address, bit)` pair (the bit may exceed 7: word scans report
`(word address, bit in word)`). -/
def pos (ab : Nat × Nat) : Nat := 8 * ab.1 + ab.2

/-- what a scanner of the bit interval `[x, y)` must report: exactly the set bits, ascending, each
as a pair whose address is not below the interval's first byte and whose bit index fits a word. -/
def ScanOk (m : Mem) (x y : Nat) (l : List (Nat × Nat)) : Prop :=
  l.map pos = bitsIn m x y ∧ ∀ ab ∈ l, x / 8 ≤ ab.1 ∧ ab.2 < 64

theorem scanOk_nil (m : Mem) (x : Nat) : ScanOk m x x [] := by
  refine ⟨by simp [bitsIn_self], fun ab h => by cases h⟩

theorem scanOk_append (m : Mem) {x y z : Nat} {l1 l2 : List (Nat × Nat)} (h1 : x ≤ y) (h2 : y ≤ z)
    (a : ScanOk m x y l1) (b : ScanOk m y z l2) : ScanOk m x z (l1 ++ l2) := by
  refine ⟨by rw [List.map_append, a.1, b.1, bitsIn_append m h1 h2], fun ab hab => ?_⟩
  rcases List.mem_append.1 hab with h | h
  · exact a.2 ab h
  · have := b.2 ab h
    have : x / 8 ≤ y / 8 := Nat.div_le_div_right h1
    omega

/-- the scanner of one range. -/
def scanRange (m : Mem) : BBR → List (Nat × Nat)
  | .bytes st en => scanBytes m st en
  | .bits ad bs be => scanBits m ad bs be

theorem scanOk_tiles (m : Mem) (hr : ∀ r : BBR, r.wf → ScanOk m r.lo r.hi (scanRange m r))
    {x y : Nat} {L : List BBR} (h : Tiles x L y) : ScanOk m x y (L.flatMap (scanRange m)) := by
  induction L generalizing x with
  | nil => simp only [Tiles] at h; subst h; exact scanOk_nil m x
  | cons r rs ih =>
    obtain ⟨h1, h2, h3⟩ := h
    rw [List.flatMap_cons]
    have := hr r h2
    rw [h1] at this
    have hlt := r.lo_lt_hi h2
    exact scanOk_append m (by omega) (tiles_le h3) this (ih h3)

/-! ## a list of the set bits of a word, ascending -/

theorem filterMap_ite {α β : Type} (p : α → Prop) [DecidablePred p] (f : α → β) (l : List α) :
    l.filterMap (fun x => if p x then some (f x) else none) = (l.filter (fun x => decide (p x))).map f := by
  induction l with
  | nil => rfl
  | cons a l ih =>
    by_cases h : p a <;> simp [h, ih]

/-- the set bits among `[0, n)` of a value whose bit `i` is memory bit `8·a + b0 + i`, reported as
`(a, b0 + i)`. -/
theorem scanOk_of_bits (m : Mem) (a b0 n : Nat) (p : Nat → Bool) (hb0 : b0 < 8) (hn : b0 + n ≤ 64)
    (hb : ∀ i, i < n → p i = bitAt m (8 * a + b0 + i)) :
    ScanOk m (8 * a + b0) (8 * a + b0 + n) (((List.range' 0 n).filter p).map (fun i => (a, b0 + i))) := by
  constructor
  · rw [List.map_map]
    unfold bitsIn
    have e : 8 * a + b0 + n - (8 * a + b0) = n := by omega
    rw [e]
    have e2 : List.range' (8 * a + b0) n = (List.range' 0 n).map (fun i => 8 * a + b0 + i) := by
      rw [List.map_add_range']; simp
    rw [e2, List.filter_map]
    have e3 : (List.range' 0 n).filter ((fun p => bitAt m p) ∘ fun i => 8 * a + b0 + i) = (List.range' 0 n).filter p := by
      apply List.filter_congr
      intro i hi
      have : i < n := by simpa using hi
      simp [hb i this]
    rw [e3]
    apply List.map_congr_left
    intro i _
    simp [pos]; omega
  · intro ab hab
    obtain ⟨i, hi, rfl⟩ := List.mem_map.1 hab
    have : i < n := by
      have := (List.mem_filter.1 hi).1
      simpa using this
    simp only
    omega

/-! ## closed form of `contiguous_meta_address_to_address` for a 1-bit spec -/

theorem metaToData_bit (s : Spec) (h0 : s.logBits = 0) (a b : Nat)
    (hlt : ((a - s.start) * 8 + b) * 2 ^ s.logRegion < 2 ^ 64) :
    metaToData s a b = ((a - s.start) * 8 + b) * 2 ^ s.logRegion := by
  have hR := Nat.two_pow_pos s.logRegion
  unfold metaToData
  simp only [h0, Nat.zero_le, if_true, Nat.sub_zero, Nat.shiftLeft_eq]
  generalize 2 ^ s.logRegion = R at *
  generalize a - s.start = rel at *
  have e8 : (2 : Nat) ^ 3 = 8 := by decide
  rw [e8]
  have h1 : rel * 8 ≤ rel * 8 + b := by omega
  have h2 : rel * 8 + b ≤ (rel * 8 + b) * R := Nat.le_mul_of_pos_right _ hR
  have h3 : rel * 8 * R ≤ (rel * 8 + b) * R := Nat.mul_le_mul_right _ h1
  have h4 : b * R ≤ (rel * 8 + b) * R := Nat.mul_le_mul_right _ (by omega)
  have h5 : (rel * 8 + b) * R = rel * 8 * R + b * R := Nat.add_mul ..
  rw [Nat.mod_eq_of_lt (by omega : rel * 8 < 2 ^ 64), Nat.mod_eq_of_lt (by omega : rel * 8 * R < 2 ^ 64),
    Nat.mod_eq_of_lt (by omega : b * R < 2 ^ 64), h5]

/-! ## fields and bits -/

/-- a field is zero iff all of its bits are. -/
theorem absArr_eq_zero_iff (m : Mem) (hm : ByteMem m) (s : Spec) (hs : s.ok) (r : Nat) :
    absArr m s r = 0 ↔ ∀ i, i < 2 ^ s.logBits → bitAt m (fieldBase s r + i) = false := by
  constructor
  · intro h i hi
    have := testBit_absArr m hm s hs r i
    rw [h] at this
    simpa [hi] using this.symm
  · intro h
    apply Nat.eq_of_testBit_eq
    intro i
    rw [testBit_absArr m hm s hs, Nat.zero_testBit]
    by_cases hi : i < 2 ^ s.logBits
    · simp [h i hi]
    · simp [hi]

theorem shiftRight_mul_pow (r lr : Nat) : (r * 2 ^ lr) >>> lr = r := by
  rw [Nat.shiftRight_eq_div_pow, Nat.mul_div_cancel _ (Nat.two_pow_pos lr)]

/-- `load` at a region start is the array entry of the region. -/
theorem load_region (s : Spec) (hs : s.ok) (m : Mem) (r : Nat) (h : r * 2 ^ s.logRegion < 2 ^ 64) :
    load s m (r * 2 ^ s.logRegion) = absArr m s r := by
  rw [load_eq_absArr s hs m _ h, shiftRight_mul_pow]

/-! ## the naive scan is a filter over the region starts -/

/-- **specification of a scan**: the starts of the regions of `[dStart, dEnd)` whose field is
non-zero, ascending, once each. -/
def scanSpec (s : Spec) (m : Mem) (dStart dEnd : Nat) : List Nat :=
  ((List.range' (dStart / 2 ^ s.logRegion) (dEnd / 2 ^ s.logRegion - dStart / 2 ^ s.logRegion)).map
    (· * 2 ^ s.logRegion)).filter (fun x => decide (load s m x ≠ 0))

theorem scanSimpleLoop_eq (debug : Bool) (env : MapEnv) (s : Spec) (m : Mem) (r1 : Nat) :
    ∀ n fuel r, r + n = r1 → n < fuel →
      (debug = true → ∀ x, r ≤ x → x < r1 → env.mapped (x * 2 ^ s.logRegion) = true) →
      scanSimpleLoop debug env s m (r1 * 2 ^ s.logRegion) fuel (r * 2 ^ s.logRegion) =
        some (((List.range' r n).map (· * 2 ^ s.logRegion)).filter (fun x => decide (load s m x ≠ 0))) := by
  have hR := Nat.two_pow_pos s.logRegion
  intro n
  induction n with
  | zero =>
    intro fuel r hr hf _
    obtain ⟨f, rfl⟩ : ∃ f, fuel = f + 1 := ⟨fuel - 1, by omega⟩
    have : r = r1 := by omega
    subst this
    unfold scanSimpleLoop
    simp
  | succ n ih =>
    intro fuel r hr hf hmap
    obtain ⟨f, rfl⟩ : ∃ f, fuel = f + 1 := ⟨fuel - 1, by omega⟩
    have hlt : r * 2 ^ s.logRegion < r1 * 2 ^ s.logRegion := Nat.mul_lt_mul_of_pos_right (by omega) hR
    have hm' : (debug && !env.mapped (r * 2 ^ s.logRegion)) = false := by
      cases debug with
      | false => rfl
      | true => simp [hmap rfl r (Nat.le_refl _) (by omega)]
    have hnext : r * 2 ^ s.logRegion + 2 ^ s.logRegion = (r + 1) * 2 ^ s.logRegion := (Nat.succ_mul ..).symm
    unfold scanSimpleLoop
    rw [hnext, ih f (r + 1) (by omega) (by omega) (fun hd x hx1 hx2 => hmap hd x (by omega) hx2)]
    simp only [hlt, not_true_eq_false, if_false, hm', Bool.false_eq_true]
    rw [List.range'_succ, List.map_cons, List.filter_cons]
    by_cases hl : load s m (r * 2 ^ s.logRegion) ≠ 0
    · simp [hl]
    · simp [hl]

theorem aligned_eq (x lr : Nat) (h : x % 2 ^ lr = 0) : x / 2 ^ lr * 2 ^ lr = x := by
  have := Nat.div_add_mod x (2 ^ lr)
  rw [h, Nat.add_zero, Nat.mul_comm] at this
  exact this

/-- **the naive scan computes the specification** (any field width); in a debug build its
`debug_assert!(cursor.is_mapped())` needs the visited region starts to be mapped. -/
theorem scanSimple_eq_spec (debug : Bool) (env : MapEnv) (s : Spec) (m : Mem) (dStart dEnd : Nat)
    (h1 : dStart % 2 ^ s.logRegion = 0) (h2 : dEnd % 2 ^ s.logRegion = 0) (hle : dStart ≤ dEnd)
    (hmap : debug = true → ∀ x, dStart ≤ x → x < dEnd → x % 2 ^ s.logRegion = 0 → env.mapped x = true) :
    scanSimple debug env s m dStart dEnd = some (scanSpec s m dStart dEnd) := by
  have hR := Nat.two_pow_pos s.logRegion
  obtain ⟨q0, rfl⟩ : ∃ q0, dStart = q0 * 2 ^ s.logRegion := ⟨_, (aligned_eq dStart s.logRegion h1).symm⟩
  obtain ⟨q1, rfl⟩ : ∃ q1, dEnd = q1 * 2 ^ s.logRegion := ⟨_, (aligned_eq dEnd s.logRegion h2).symm⟩
  have hq : q0 ≤ q1 := Nat.le_of_mul_le_mul_right hle hR
  unfold scanSimple scanSpec
  rw [← Nat.sub_mul, Nat.mul_div_cancel _ hR, Nat.mul_div_cancel _ hR, Nat.mul_div_cancel _ hR]
  apply scanSimpleLoop_eq debug env s m _ _ _ _ (by omega) (by omega)
  intro hd x hx1 hx2
  apply hmap hd
  · exact Nat.mul_le_mul_right _ hx1
  · exact Nat.mul_lt_mul_of_pos_right hx2 hR
  · exact Nat.mul_mod_left ..

/-- the set bits of the fields of regions `[r0, r1)` of a 1-bit spec, mapped back to data addresses. -/
theorem bits_to_regions (s : Spec) (hs : s.ok) (h0 : s.logBits = 0) (m : Mem) (hm : ByteMem m) (r0 r1 : Nat)
    (hle : r0 ≤ r1) (h64 : r1 * 2 ^ s.logRegion ≤ 2 ^ 64) :
    (bitsIn m (fieldBase s r0) (fieldBase s r1)).map (fun p => (p - 8 * s.start) * 2 ^ s.logRegion) =
      ((List.range' r0 (r1 - r0)).map (· * 2 ^ s.logRegion)).filter (fun x => decide (load s m x ≠ 0)) := by
  have hR := Nat.two_pow_pos s.logRegion
  unfold bitsIn fieldBase
  rw [h0]
  have e : 8 * s.start + r1 * 2 ^ 0 - (8 * s.start + r0 * 2 ^ 0) = r1 - r0 := by simp; omega
  have e2 : List.range' (8 * s.start + r0 * 2 ^ 0) (r1 - r0) = (List.range' r0 (r1 - r0)).map (fun r => 8 * s.start + r) := by
    rw [List.map_add_range']; simp
  rw [e, e2, List.filter_map, List.filter_map, List.map_map]
  have e3 : (List.range' r0 (r1 - r0)).filter ((fun p => bitAt m p) ∘ fun r => 8 * s.start + r) =
      (List.range' r0 (r1 - r0)).filter ((fun x => decide (load s m x ≠ 0)) ∘ fun r => r * 2 ^ s.logRegion) := by
    apply List.filter_congr
    intro r hr
    have hr' : r < r1 := by
      have := List.mem_range'_1.1 hr; omega
    have hlt : r * 2 ^ s.logRegion < 2 ^ 64 :=
      Nat.lt_of_lt_of_le (Nat.mul_lt_mul_of_pos_right hr' hR) h64
    simp only [Function.comp]
    rw [load_region s hs m r hlt]
    have hz := absArr_eq_zero_iff m hm s hs r
    rw [h0] at hz
    unfold fieldBase at hz
    rw [h0] at hz
    by_cases hb : bitAt m (8 * s.start + r) = true
    · have : absArr m s r ≠ 0 := by
        intro c
        have := hz.1 c 0 (by decide)
        simp at this
        rw [this] at hb; cases hb
      simp [hb, this]
    · have : absArr m s r = 0 := by
        apply hz.2
        intro i hi
        have : i = 0 := by simpa using hi
        subst this
        simpa using hb
      simp [hb, this]
  rw [e3]
  apply List.map_congr_left
  intro r _
  simp only [Function.comp]
  congr 1
  omega

end Mmtk.SideMeta
