import MmtkModel.Lemmas.Sched
import MmtkModel.Lemmas.SchedCount
/-!
# Fair runs of the scheduler model and the liveness lemmas (used by Props/C14, C16)

`FairRun c tr act`: an infinite run `tr 0 →(act 0) tr 1 →(act 1) …` (`act k = none` is a stutter step)
from a reachable state in which the *scheduler-loop* actions of every worker are weakly fair.
The fairness classes (`FairAct`) are, for each worker `w`:

* `finish w`   — `execEnd w`: a running packet terminates (packet execution is finite);
* `take w`     — some `pollBucket w · ·` / `popLocal w ·` / `popDesig w ·` / `steal w · ·`: a polling
                 worker that can get a packet eventually gets one;
* `look w k`   — `observeEmpty w k`: a polling worker eventually looks into every container;
* `miss w`, `park w` (any tag), `wake w`, `surrender w`.

Weak fairness of a class: it is not continuously enabled from some point on without being taken.
Everything else (what a running packet does, mutator / binding actions, spurious wake-ups) is
unconstrained by `FairRun`; the liveness theorems carry the explicit extra hypotheses
`FiniteSpawn`, `FiniteEnv`, `NoAssert`.
-/
namespace Mmtk.Sched

/-! ## fair runs -/

inductive FairAct
  | finish (w : Nat)
  | take (w : Nat)
  | look (w : Nat) (k : Cont)
  | miss (w : Nat)
  | park (w : Nat)
  | wake (w : Nat)
  | surrender (w : Nat)

def FairAct.mem : FairAct → Act → Prop
  | .finish w, a => a = .execEnd w
  | .take w, a => (∃ b p, a = .pollBucket w b p) ∨ (∃ p, a = .popLocal w p) ∨ (∃ p, a = .popDesig w p) ∨
      (∃ v p, a = .steal w v p)
  | .look w k, a => a = .observeEmpty w k
  | .miss w, a => a = .pollMiss w
  | .park w, a => ∃ tag, a = .park w tag
  | .wake w, a => a = .wake w
  | .surrender w, a => a = .surrender w

/-- some action of the class is enabled in `s` -/
def Enabled (c : Cfg) (s : State) (f : FairAct) : Prop := ∃ a, f.mem a ∧ (step c s a).isSome = true
/-- the action at position `j` belongs to the class -/
def Taken (act : Nat → Option Act) (j : Nat) (f : FairAct) : Prop := ∃ a, act j = some a ∧ f.mem a

/-- one step of a run: an enabled action, or a stutter -/
def StepOf (c : Cfg) (s s' : State) : Option Act → Prop
  | some a => step c s a = some s'
  | none => s' = s

structure FairRun (c : Cfg) (tr : Nat → State) (act : Nat → Option Act) : Prop where
  start : Reachable c (tr 0)
  next : ∀ k, StepOf c (tr k) (tr (k+1)) (act k)
  fair : ∀ (f : FairAct) (k : Nat), ∃ j, k ≤ j ∧ (Taken act j f ∨ ¬ Enabled c (tr j) f)

/-- mutator / binding actions and spurious wake-ups (everything that is not done by a GC worker
thread in its loop or inside a packet) -/
def Act.isEnv : Act → Bool
  | .spurious _ | .requestFlag | .makeRequest _ _ | .mutPush _ _ | .mutNotifyOne _ _ | .initSetEnabled _ _
  | .prepareSurrender | .respawn => true
  | _ => false

/-- from some point on only GC workers act (finitely many mutator actions and spurious wake-ups) -/
def FiniteEnv (act : Nat → Option Act) : Prop := ∃ K, ∀ j a, K ≤ j → act j = some a → a.isEnv = false
/-- finitely many packets are created along the run -/
def FiniteSpawn (tr : Nat → State) : Prop := ∃ N, ∀ j, (tr j).added ≤ N
/-- no debug assertion of `on_last_parked` / `inc_parked_workers` fires: a worker that is about to
park can always do so (the model disables `park` exactly where the code would panic) -/
def NoAssert (c : Cfg) (tr : Nat → State) : Prop :=
  ∀ j w, w < c.n → (tr j).pc w = .parking → ∃ tag, (step c (tr j) (.park w tag)).isSome = true

theorem Reachable.step_closed {c : Cfg} {s s' : State} {a : Act} (hr : Reachable c s) (hs : step c s a = some s') :
    Reachable c s' := by
  obtain ⟨run, h⟩ := hr
  refine ⟨run ++ [a], ?_⟩
  have : ∀ (l : List Act) (t : State), exec c t l = some s → exec c t (l ++ [a]) = some s' := by
    intro l
    induction l with
    | nil => intro t e; simp only [exec] at e; injection e with e; subst e; simp [exec, hs]
    | cons b l ih =>
      intro t e
      simp only [exec, List.cons_append] at e ⊢
      cases ht : step c t b with
      | none => rw [ht] at e; cases e
      | some t1 => rw [ht] at e; exact ih t1 e
  exact this run _ h

theorem FairRun.reach {c : Cfg} {tr : Nat → State} {act : Nat → Option Act} (R : FairRun c tr act) (k : Nat) :
    Reachable c (tr k) := by
  induction k with
  | zero => exact R.start
  | succ k ih =>
    have := R.next k
    cases ha : act k with
    | none => rw [ha] at this; simp only [StepOf] at this; rw [this]; exact ih
    | some a => rw [ha] at this; exact Reachable.step_closed ih this

/-- the suffix of a fair run is a fair run -/
theorem FairRun.shift {c : Cfg} {tr : Nat → State} {act : Nat → Option Act} (R : FairRun c tr act) (K : Nat) :
    FairRun c (fun j => tr (K + j)) (fun j => act (K + j)) where
  start := R.reach K
  next := fun k => R.next (K + k)
  fair := fun f k => by
    obtain ⟨j, hj, h⟩ := R.fair f (K + k)
    refine ⟨j - K, by omega, ?_⟩
    have e : K + (j - K) = j := by omega
    unfold Taken at *
    simp only [e]
    exact h

/-- the rule WF1: if `P` holds at `k`, is stable as long as the class `f` is not taken, and implies that
`f` is enabled, then `f` is taken at some later position where `P` still holds. -/
theorem wf1 {c : Cfg} {tr : Nat → State} {act : Nat → Option Act} (R : FairRun c tr act) (f : FairAct)
    (P : Nat → Prop) (k : Nat) (h0 : P k)
    (hstab : ∀ j, k ≤ j → P j → ¬ Taken act j f → P (j+1))
    (hen : ∀ j, k ≤ j → P j → Enabled c (tr j) f) :
    ∃ j, k ≤ j ∧ P j ∧ Taken act j f := by
  obtain ⟨j, hkj, h⟩ := R.fair f k
  have key0 : ∀ d, (∃ i, k ≤ i ∧ P i ∧ Taken act i f) ∨ P (k + d) := by
    intro d
    induction d with
    | zero => exact Or.inr h0
    | succ d ih =>
      rcases ih with h1 | h1
      · exact Or.inl h1
      · by_cases ht : Taken act (k + d) f
        · exact Or.inl ⟨k + d, by omega, h1, ht⟩
        · exact Or.inr (hstab (k + d) (by omega) h1 ht)
  have key : ∀ m, k ≤ m → (∃ i, k ≤ i ∧ P i ∧ Taken act i f) ∨ P m := by
    intro m hm
    have := key0 (m - k)
    rwa [show k + (m - k) = m by omega] at this
  rcases key j hkj with h1 | h1
  · exact h1
  · rcases h with h | h
    · exact ⟨j, hkj, h1, h⟩
    · exact absurd (hen j hkj h1) h

/-- a monotone bounded sequence of naturals is eventually constant -/
theorem mono_bounded_const (f : Nat → Nat) (B : Nat) (hm : ∀ j, f j ≤ f (j+1)) (hb : ∀ j, f j ≤ B) :
    ∃ K, ∀ j, K ≤ j → f j = f K := by
  have mono : ∀ k j, k ≤ j → f k ≤ f j := by
    intro k j h
    have : ∀ d, f k ≤ f (k + d) := by
      intro d
      induction d with
      | zero => exact Nat.le_refl _
      | succ d ih => exact Nat.le_trans ih (hm (k + d))
    have := this (j - k)
    rwa [show k + (j - k) = j by omega] at this
  have key : ∀ d k, B - f k ≤ d → ∃ K, ∀ j, K ≤ j → f j = f K := by
    intro d
    induction d with
    | zero =>
      intro k hk
      refine ⟨k, fun j hj => ?_⟩
      have := mono k j hj; have := hb j; have := hb k; omega
    | succ d ih =>
      intro k hk
      by_cases h : ∃ j, k ≤ j ∧ f k < f j
      · obtain ⟨j, _, hlt⟩ := h
        exact ih j (by have := hb j; omega)
      · refine ⟨k, fun j hj => ?_⟩
        have := mono k j hj
        have : ¬ f k < f j := fun hlt => h ⟨j, hj, hlt⟩
        omega
  exact key (B - f 0) 0 (Nat.le_refl _)

/-- finitely many eventually-always facts hold together eventually -/
theorem eventually_forall_lt (n : Nat) (Q : Nat → Nat → Prop) (h : ∀ w, w < n → ∃ J, ∀ j, J ≤ j → Q w j) :
    ∃ J, ∀ w, w < n → ∀ j, J ≤ j → Q w j := by
  induction n with
  | zero => exact ⟨0, fun w hw => absurd hw (Nat.not_lt_zero w)⟩
  | succ n ih =>
    obtain ⟨J1, h1⟩ := ih (fun w hw => h w (Nat.lt_succ_of_lt hw))
    obtain ⟨J2, h2⟩ := h n (Nat.lt_succ_self n)
    refine ⟨max J1 J2, fun w hw j hj => ?_⟩
    by_cases e : w = n
    · subst e; exact h2 j (by omega)
    · exact h1 w (by omega) j (by omega)

/-! ## quiet steps: no packet starts or ends, nobody runs a packet, no environment action, not the last park -/

inductive QuietAct (c : Cfg) (s : State) : Act → Prop
  | observe (w : Nat) (k : Cont) : QuietAct c s (.observeEmpty w k)
  | batch (w b : Nat) (p : Pkt) (seen : List Cont) : s.pc w = .polling seen → QuietAct c s (.batchMove w b p)
  | miss (w : Nat) : QuietAct c s (.pollMiss w)
  | park (w tag : Nat) : s.parked + 1 ≠ c.n → QuietAct c s (.park w tag)
  | wake (w : Nat) : QuietAct c s (.wake w)
  | surrender (w : Nat) : QuietAct c s (.surrender w)

theorem quiet_cases {c : Cfg} {s s' : State} {a : Act} (hs : step c s a = some s') (henv : a.isEnv = false)
    (hst : s'.started = s.started) (hen : s'.ended = s.ended)
    (hex : ∀ w, w < c.n → (s.pc w).isExec = false)
    (hlp : ¬ (∃ w tag, a = .park w tag ∧ s.parked + 1 = c.n)) : QuietAct c s a := by
  cases a
  case observeEmpty w k => exact .observe w k
  case pollMiss w => exact .miss w
  case wake w => exact .wake w
  case surrender w => exact .surrender w
  case park w tag => exact .park w tag (fun h => hlp ⟨w, tag, rfl, h⟩)
  case batchMove w b p =>
    simp only [step] at hs
    split at hs
    · rename_i p0 hpc
      split at hs
      · rename_i hg; have := hex w hg.1; rw [hpc] at this; cases this
      · cases hs
    · rename_i seen hpc; exact .batch w b p seen hpc
    · cases hs
  case execEnd w =>
    simp only [step] at hs
    split at hs
    · rename_i p0 hpc
      split at hs
      · rename_i hg; have := hex w hg; rw [hpc] at this; cases this
      · cases hs
    · cases hs
  case pollBucket w b p =>
    exfalso; simp only [step] at hs
    split at hs
    · split at hs
      · injection hs with hs; subst hs; simp at hst
      · cases hs
    · cases hs
  case popLocal w p =>
    exfalso; simp only [step] at hs
    split at hs
    · split at hs
      · injection hs with hs; subst hs; simp at hst
      · cases hs
    · cases hs
  case popDesig w p =>
    exfalso; simp only [step] at hs
    split at hs
    · split at hs
      · injection hs with hs; subst hs; simp at hst
      · cases hs
    · cases hs
  case steal w v p =>
    exfalso; simp only [step] at hs
    split at hs
    · split at hs
      · injection hs with hs; subst hs; simp at hst
      · cases hs
    · cases hs
  case spurious w => cases henv
  case requestFlag => cases henv
  case makeRequest g x => cases henv
  case mutPush b tag => cases henv
  case mutNotifyOne b x => cases henv
  case initSetEnabled b v => cases henv
  case prepareSurrender => cases henv
  case respawn => cases henv
  all_goals
    exfalso
    simp only [step] at hs
    split at hs
    · rename_i hg; have := hex _ hg.1
      first
        | (rw [hg.2.1] at this; cases this)
        | (rw [hg.2] at this; cases this)
    · cases hs

/-- no exit goal is current -/
def NoExit (s : State) : Prop := ∀ g, s.current = some g → g.isExit = false

/-- the effect of a quiet step while no exit goal is current -/
inductive QuietEff (c : Cfg) (s : State) : Act → State → Prop
  | observe (w : Nat) (k : Cont) (seen : List Cont) : w < c.n → s.pc w = .polling seen → looksEmpty s w k = true →
      QuietEff c s (.observeEmpty w k) (setPc s w (.polling (k :: seen)))
  | batch (w b : Nat) (p : Pkt) (seen : List Cont) : w < c.n → b < c.L → s.pc w = .polling seen →
      (s.bkt b).enabled = true → (s.bkt b).isOpen = true → p ∈ (s.bkt b).q →
      QuietEff c s (.batchMove w b p)
        (setPc (setBuf (setBkt s b { s.bkt b with q := removeP (s.bkt b).q p }) w (p :: s.buf w)) w (.polling []))
  | miss (w : Nat) (seen : List Cont) : w < c.n → s.pc w = .polling seen → (∀ k, k ∈ allConts c → k ∈ seen) →
      QuietEff c s (.pollMiss w) (setPc s w .parking)
  | park (w tag : Nat) : w < c.n → s.pc w = .parking →
      QuietEff c s (.park w tag) (setPc { s with parked := s.parked + 1, trace := [] } w .waiting)
  | wake (w : Nat) : w < c.n → s.pc w = .woken → 0 < s.parked →
      QuietEff c s (.wake w) (setPc { s with parked := s.parked - 1 } w (.polling []))

theorem afterUnpark_noExit {s : State} (w : Nat) (h : NoExit s) : afterUnpark s w = setPc s w (.polling []) := by
  unfold afterUnpark
  split
  · rename_i hc; have := h _ hc; cases this
  · rename_i hc; have := h _ hc; cases this
  · rfl

theorem quiet_effect {c : Cfg} {s s' : State} {a : Act} (hs : step c s a = some s') (hq : QuietAct c s a)
    (hE : InvE c s) (hnx : NoExit s) : QuietEff c s a s' := by
  cases hq with
  | observe w k =>
    simp only [step] at hs
    split at hs
    · rename_i seen hpc
      split at hs
      · rename_i hg; injection hs with hs; subst hs; exact .observe w k seen hg.1 hpc hg.2
      · cases hs
    · cases hs
  | batch w b p seen hpc =>
    simp only [step] at hs
    rw [hpc] at hs
    simp only at hs
    split at hs
    · rename_i hg; injection hs with hs; subst hs
      exact .batch w b p seen hg.1 hg.2.1 hpc hg.2.2.1 hg.2.2.2.1 hg.2.2.2.2
    · cases hs
  | miss w =>
    simp only [step] at hs
    split at hs
    · rename_i seen hpc
      split at hs
      · rename_i hg; injection hs with hs; subst hs
        refine .miss w seen hg.1 hpc (fun k hk => ?_)
        have := hg.2
        rw [List.all_eq_true] at this
        simpa using this k hk
      · cases hs
    · cases hs
  | park w tag hnl =>
    obtain ⟨hw, hpc, _, hcase⟩ := step_park_cases hs
    rcases hcase with ⟨_, rfl⟩ | ⟨hl, _⟩
    · exact .park w tag hw hpc
    · exact absurd hl hnl
  | wake w =>
    simp only [step] at hs
    split at hs
    · rename_i hg; injection hs with hs; subst hs
      rw [afterUnpark_noExit w (s := { s with parked := s.parked - 1 }) hnx]
      exact .wake w hg.1 hg.2.1 hg.2.2
    · cases hs
  | surrender w =>
    exfalso
    simp only [step] at hs
    split at hs
    · split at hs
      · rename_i hg
        obtain ⟨g, hg1, hg2⟩ := hE.exited w hg.1 hg.2
        have := hnx g hg1; rw [this] at hg2; cases hg2
      · cases hs
    · cases hs

theorem quietEff_not_take {c : Cfg} {s s' : State} {a : Act} (h : QuietEff c s a s') (x : Nat) :
    ¬ (FairAct.take x).mem a := by
  intro hm
  simp only [FairAct.mem] at hm
  cases h <;> (rcases hm with ⟨_, _, e⟩ | ⟨_, e⟩ | ⟨_, e⟩ | ⟨_, _, e⟩ <;> cases e)

/-- deque `v` is non-empty and worker `x` polls without having seen it empty -/
def BufCov (s : State) (x v : Nat) : Prop := s.buf v ≠ [] ∧ ∃ seen, s.pc x = .polling seen ∧ Cont.buf v ∉ seen

theorem setPc_pc_self (s : State) (w : Nat) (p : PC) : (setPc s w p).pc w = p := by simp [setPc]
theorem setPc_pc_other (s : State) {w x : Nat} (p : PC) (h : x ≠ w) : (setPc s w p).pc x = s.pc x := by simp [setPc, h]

theorem bufCov_stable {c : Cfg} {s s' : State} {a : Act} {x v : Nat} (he : QuietEff c s a s') (hv : v < c.n)
    (h : BufCov s x v) : BufCov s' x v := by
  obtain ⟨hb, seen, hpc, hns⟩ := h
  cases he with
  | observe w k seen' hw hpw hle =>
    refine ⟨hb, ?_⟩
    by_cases e : x = w
    · subst e
      rw [hpc] at hpw; injection hpw with hpw; subst hpw
      refine ⟨k :: seen, setPc_pc_self _ _ _, ?_⟩
      intro hmem
      rcases List.mem_cons.1 hmem with e | e
      · subst e
        simp only [looksEmpty] at hle
        cases hbv : s.buf v with
        | nil => exact hb hbv
        | cons q l => rw [hbv] at hle; cases hle
      · exact hns e
    · exact ⟨seen, by rw [setPc_pc_other _ _ e]; exact hpc, hns⟩
  | batch w b p seen' hw hb' hpw _ _ _ =>
    constructor
    · show (if v = w then p :: s.buf w else _) ≠ []
      split
      · simp
      · exact hb
    · by_cases e : x = w
      · subst e; exact ⟨[], setPc_pc_self _ _ _, by simp⟩
      · exact ⟨seen, by rw [setPc_pc_other _ _ e]; exact hpc, hns⟩
  | miss w seen' hw hpw hall =>
    refine ⟨hb, ?_⟩
    by_cases e : x = w
    · subst e
      rw [hpc] at hpw; injection hpw with hpw; subst hpw
      exact absurd (hall _ (mem_allConts_buf hv)) hns
    · exact ⟨seen, by rw [setPc_pc_other _ _ e]; exact hpc, hns⟩
  | park w tag hw hpw =>
    refine ⟨hb, ?_⟩
    by_cases e : x = w
    · subst e; rw [hpc] at hpw; cases hpw
    · exact ⟨seen, by rw [setPc_pc_other _ _ e]; exact hpc, hns⟩
  | wake w hw hpw _ =>
    refine ⟨hb, ?_⟩
    by_cases e : x = w
    · subst e; rw [hpc] at hpw; cases hpw
    · exact ⟨seen, by rw [setPc_pc_other _ _ e]; exact hpc, hns⟩

/-- bucket `b` is runnable and worker `x` polls without having seen it empty -/
def BktCov (s : State) (x b : Nat) : Prop :=
  (s.bkt b).runnable = true ∧ ∃ seen, s.pc x = .polling seen ∧ Cont.bucket b ∉ seen

theorem runnable_facts {k : Bucket} (h : k.runnable = true) : k.enabled = true ∧ k.isOpen = true ∧ k.q ≠ [] := by
  simp only [Bucket.runnable, Bucket.isEmpty, Bool.and_eq_true, Bool.not_eq_true'] at h
  refine ⟨h.1.1, h.1.2, ?_⟩
  intro e; rw [e] at h; simp at h

theorem runnable_of {k : Bucket} {p : Pkt} (h1 : k.enabled = true) (h2 : k.isOpen = true) (h3 : p ∈ k.q) :
    k.runnable = true := by
  simp only [Bucket.runnable, Bucket.isEmpty, h1, h2, Bool.and_self, Bool.true_and, Bool.not_eq_true']
  cases hq : k.q with
  | nil => rw [hq] at h3; cases h3
  | cons a l => rfl

theorem bktCov_stable {c : Cfg} {s s' : State} {a : Act} {x b : Nat} (he : QuietEff c s a s') (hb : b < c.L)
    (hbuf : ∀ v, v < c.n → s'.buf v = []) (h : BktCov s x b) : BktCov s' x b := by
  obtain ⟨hr, seen, hpc, hns⟩ := h
  cases he with
  | observe w k seen' hw hpw hle =>
    refine ⟨hr, ?_⟩
    by_cases e : x = w
    · subst e
      rw [hpc] at hpw; injection hpw with hpw; subst hpw
      refine ⟨k :: seen, setPc_pc_self _ _ _, ?_⟩
      intro hmem
      rcases List.mem_cons.1 hmem with e | e
      · subst e
        simp only [looksEmpty, hr] at hle; cases hle
      · exact hns e
    · exact ⟨seen, by rw [setPc_pc_other _ _ e]; exact hpc, hns⟩
  | batch w b' p seen' hw hb' hpw _ _ _ =>
    exfalso
    have := hbuf w hw
    simp [setPc, setBuf] at this
  | miss w seen' hw hpw hall =>
    refine ⟨hr, ?_⟩
    by_cases e : x = w
    · subst e
      rw [hpc] at hpw; injection hpw with hpw; subst hpw
      exact absurd (hall _ (mem_allConts_bucket hb)) hns
    · exact ⟨seen, by rw [setPc_pc_other _ _ e]; exact hpc, hns⟩
  | park w tag hw hpw =>
    refine ⟨hr, ?_⟩
    by_cases e : x = w
    · subst e; rw [hpc] at hpw; cases hpw
    · exact ⟨seen, by rw [setPc_pc_other _ _ e]; exact hpc, hns⟩
  | wake w hw hpw _ =>
    refine ⟨hr, ?_⟩
    by_cases e : x = w
    · subst e; rw [hpc] at hpw; cases hpw
    · exact ⟨seen, by rw [setPc_pc_other _ _ e]; exact hpc, hns⟩

theorem quietEff_desig {c : Cfg} {s s' : State} {a : Act} (he : QuietEff c s a s') : s'.desig = s.desig := by
  cases he <;> rfl

theorem quietEff_park {c : Cfg} {s s' : State} {w tag : Nat} (he : QuietEff c s (.park w tag) s') :
    s'.pc w = .waiting := by
  cases he; exact setPc_pc_self _ _ _
theorem quietEff_wake {c : Cfg} {s s' : State} {w : Nat} (he : QuietEff c s (.wake w) s') :
    s'.pc w = .polling [] := by
  cases he; exact setPc_pc_self _ _ _
theorem quietEff_miss {c : Cfg} {s s' : State} {w : Nat} (he : QuietEff c s (.pollMiss w) s') :
    s'.pc w = .parking := by
  cases he; exact setPc_pc_self _ _ _
theorem quietEff_observe {c : Cfg} {s s' : State} {w : Nat} {k : Cont} (he : QuietEff c s (.observeEmpty w k) s') :
    ∃ seen, s.pc w = .polling seen ∧ s'.pc w = .polling (k :: seen) := by
  cases he with
  | observe _ _ seen _ hpw _ => exact ⟨seen, hpw, setPc_pc_self _ _ _⟩

/-- what a quiet step does to the program counter of worker `x` -/
theorem quietEff_pc {c : Cfg} {s s' : State} {a : Act} (he : QuietEff c s a s') (x : Nat) :
    s'.pc x = s.pc x ∨
    (∃ k seen, a = .observeEmpty x k ∧ s.pc x = .polling seen ∧ s'.pc x = .polling (k :: seen) ∧ looksEmpty s x k = true) ∨
    (∃ b p seen, a = .batchMove x b p ∧ b < c.L ∧ (s.bkt b).runnable = true ∧ s.pc x = .polling seen) ∨
    (∃ seen, a = .pollMiss x ∧ s.pc x = .polling seen ∧ ∀ k, k ∈ allConts c → k ∈ seen) ∨
    (∃ tag, a = .park x tag ∧ s.pc x = .parking) ∨ (a = .wake x ∧ s.pc x = .woken) := by
  cases he with
  | observe w k seen hw hpw hle =>
    by_cases e : x = w
    · subst e; exact Or.inr (Or.inl ⟨k, seen, rfl, hpw, setPc_pc_self _ _ _, hle⟩)
    · exact Or.inl (setPc_pc_other _ _ e)
  | batch w b p seen hw hb hpw h1 h2 h3 =>
    by_cases e : x = w
    · subst e; exact Or.inr (Or.inr (Or.inl ⟨b, p, seen, rfl, hb, runnable_of h1 h2 h3, hpw⟩))
    · exact Or.inl (setPc_pc_other _ _ e)
  | miss w seen hw hpw hall =>
    by_cases e : x = w
    · subst e; exact Or.inr (Or.inr (Or.inr (Or.inl ⟨seen, rfl, hpw, hall⟩)))
    · exact Or.inl (setPc_pc_other _ _ e)
  | park w tag hw hpw =>
    by_cases e : x = w
    · subst e; exact Or.inr (Or.inr (Or.inr (Or.inr (Or.inl ⟨tag, rfl, hpw⟩))))
    · exact Or.inl (setPc_pc_other _ _ e)
  | wake w hw hpw _ =>
    by_cases e : x = w
    · subst e; exact Or.inr (Or.inr (Or.inr (Or.inr (Or.inr ⟨rfl, hpw⟩))))
    · exact Or.inl (setPc_pc_other _ _ e)

theorem countW_pos (n : Nat) (f : Nat → Bool) (w : Nat) (hw : w < n) (h : f w = true) : 0 < countW n f := by
  induction n with
  | zero => omega
  | succ n ih =>
    rw [countW_succ]
    by_cases e : w = n
    · subst e; simp [h]
    · have := ih (by omega); omega

/-! ## general step facts: counters, running workers, pending requests -/

theorem consumePending_same (s : State) (g : Goal) :
    (consumePending s g) = { s with pendingMake := (consumePending s g).pendingMake } := by
  unfold consumePending; split <;> rfl

theorem step_counters_mono {c : Cfg} {s s' : State} {a : Act} (hs : step c s a = some s') :
    s.started ≤ s'.started ∧ s.ended ≤ s'.ended := by
  cases a
  case park w tag =>
    obtain ⟨_, _, _, hcase⟩ := step_park_cases hs
    rcases hcase with ⟨_, rfl⟩ | ⟨_, s1, r, hl, he⟩
    · exact ⟨Nat.le_refl _, Nat.le_refl _⟩
    · have f := frame_onLastParked c _ _ _ _ hl
      rw [he]; exact ⟨Nat.le_of_eq f.started.symm, Nat.le_of_eq f.ended.symm⟩
  case wake w =>
    simp only [step] at hs
    split at hs
    · injection hs with hs; subst hs
      obtain ⟨p, _, he⟩ := afterUnpark_pc { s with parked := s.parked - 1 } w
      rw [he]; exact ⟨Nat.le_refl _, Nat.le_refl _⟩
    · cases hs
  case makeRequest g x =>
    simp only [step] at hs
    have hc := consumePending_same s g
    split at hs
    · cases hs
    · split at hs
      · split at hs
        · injection hs with hs; subst hs; rw [hc]; exact ⟨Nat.le_refl _, Nat.le_refl _⟩
        · cases hs
      · rw [notifyOne_same hs, hc]; cases g <;> exact ⟨Nat.le_refl _, Nat.le_refl _⟩
  case bucketNotifyOne w b x =>
    simp only [step] at hs
    split at hs
    · rw [notifyOne_same hs]; exact ⟨Nat.le_refl _, Nat.le_refl _⟩
    · cases hs
  case mutNotifyOne b x =>
    simp only [step] at hs
    split at hs
    · rw [notifyOne_same hs]; exact ⟨Nat.le_refl _, Nat.le_refl _⟩
    · cases hs
  all_goals
    simp only [step] at hs
    repeat' (split at hs)
    all_goals first
      | (injection hs with hs; subst hs; exact ⟨Nat.le_refl _, Nat.le_refl _⟩)
      | (injection hs with hs; subst hs; exact ⟨Nat.le_succ _, Nat.le_refl _⟩)
      | (injection hs with hs; subst hs; exact ⟨Nat.le_refl _, Nat.le_succ _⟩)
      | cases hs

theorem step_execEnd_ended {c : Cfg} {s s' : State} {w : Nat} (hs : step c s (.execEnd w) = some s') :
    s'.ended = s.ended + 1 := by
  simp only [step] at hs
  split at hs
  · split at hs
    · injection hs with hs; subst hs; rfl
    · cases hs
  · cases hs

theorem isExec_keep {s t : State} {w' w : Nat} {p : PC} (hpc : t.pc = s.pc) (h : (s.pc w).isExec = true)
    (hsrc : (s.pc w').isExec = false) : ((setPc t w' p).pc w).isExec = true := by
  have e : w ≠ w' := by intro e; subst e; rw [h] at hsrc; cases hsrc
  simp only [setPc, e, if_false, hpc]; exact h

/-- a worker that runs a packet keeps running it until its own `execEnd` (or a respawn of the whole group) -/
theorem step_isExec_stable {c : Cfg} {s s' : State} {a : Act} (hs : step c s a = some s') (w : Nat)
    (h : (s.pc w).isExec = true) : (s'.pc w).isExec = true ∨ a = .execEnd w ∨ a = .respawn := by
  cases a
  case respawn => exact Or.inr (Or.inr rfl)
  case park w' tag => left; rw [step_park_isExec hs]; exact h
  case wake w' =>
    left
    simp only [step] at hs
    split at hs
    · rename_i hg; injection hs with hs; subst hs
      obtain ⟨p, _, he⟩ := afterUnpark_pc { s with parked := s.parked - 1 } w'
      rw [he]; exact isExec_keep (s := s) rfl h (by rw [hg.2.1]; rfl)
    · cases hs
  case makeRequest g x =>
    left
    simp only [step] at hs
    have hc : (consumePending s g).pc = s.pc := by unfold consumePending; split <;> rfl
    split at hs
    · cases hs
    · split at hs
      · split at hs
        · injection hs with hs; subst hs; rw [hc]; exact h
        · cases hs
      · rw [notifyOne_isExec hs]
        have e : (setRequested (consumePending s g) g true).pc = s.pc := by cases g <;> exact hc
        rw [e]; exact h
  case bucketNotifyOne w' b x =>
    left
    simp only [step] at hs
    split at hs
    · rw [notifyOne_isExec hs]; exact h
    · cases hs
  case mutNotifyOne b x =>
    left
    simp only [step] at hs
    split at hs
    · rw [notifyOne_isExec hs]; exact h
    · cases hs
  case bucketNotifyAll w' b =>
    left
    simp only [step] at hs
    split at hs
    · injection hs with hs; subst hs; rw [notifyAll_isExec]; exact h
    · cases hs
  case wakeAll w' =>
    left
    simp only [step] at hs
    split at hs
    · injection hs with hs; subst hs; rw [notifyAll_isExec]; exact h
    · cases hs
  case execEnd w' =>
    by_cases e : w = w'
    · subst e; exact Or.inr (Or.inl rfl)
    · left
      simp only [step] at hs
      split at hs
      · split at hs
        · injection hs with hs; subst hs
          show ((setPc s w' _).pc w).isExec = true
          simp only [setPc, e, if_false]; exact h
        · cases hs
      · cases hs
  case batchMove w' b p =>
    left
    simp only [step] at hs
    split at hs
    · split at hs
      · injection hs with hs; subst hs; exact h
      · cases hs
    · rename_i seen hpc
      split at hs
      · injection hs with hs; subst hs
        exact isExec_keep (s := s) rfl h (by rw [hpc]; rfl)
      · cases hs
    · cases hs
  case surrender w' =>
    left
    simp only [step] at hs
    split at hs
    · split at hs
      · rename_i hg
        have key : s'.pc = (setPc s w' .surrendered).pc := by
          split at hs <;> (injection hs with hs; subst hs; rfl)
        rw [key]; exact isExec_keep (s := s) rfl h (by rw [hg.2]; rfl)
      · cases hs
    · cases hs
  case spurious w' =>
    left
    simp only [step] at hs
    split at hs
    · rename_i hg; injection hs with hs; subst hs
      exact isExec_keep (s := s) rfl h (by rw [hg.2]; rfl)
    · cases hs
  case requestFlag =>
    left
    simp only [step] at hs
    split at hs <;> (injection hs with hs; subst hs; exact h)
  all_goals
    left
    simp only [step] at hs
    repeat' (split at hs)
    all_goals first
      | (injection hs with hs; subst hs; exact h)
      | (rename_i hpc _; injection hs with hs; subst hs
         exact isExec_keep (s := s) rfl h (by rw [hpc]; rfl))
      | cases hs

/-- requests are only consumed inside `on_last_parked` -/
theorem step_requests {c : Cfg} {s s' : State} {a : Act} (hs : step c s a = some s') :
    (∃ w tag, a = .park w tag) ∨
    ((s.reqGc = true → s'.reqGc = true) ∧ (s.reqShutdown = true → s'.reqShutdown = true) ∧
      (s.reqFork = true → s'.reqFork = true)) := by
  cases a
  case park w tag => exact Or.inl ⟨w, tag, rfl⟩
  case wake w =>
    right
    simp only [step] at hs
    split at hs
    · injection hs with hs; subst hs
      obtain ⟨p, _, he⟩ := afterUnpark_pc { s with parked := s.parked - 1 } w
      rw [he]; exact ⟨id, id, id⟩
    · cases hs
  case makeRequest g x =>
    right
    simp only [step] at hs
    have hc := consumePending_same s g
    split at hs
    · cases hs
    · split at hs
      · split at hs
        · injection hs with hs; subst hs; rw [hc]; exact ⟨id, id, id⟩
        · cases hs
      · rw [notifyOne_same hs, hc]
        cases g
        · exact ⟨fun _ => rfl, id, id⟩
        · exact ⟨id, fun _ => rfl, id⟩
        · exact ⟨id, id, fun _ => rfl⟩
  case bucketNotifyOne w b x =>
    right
    simp only [step] at hs
    split at hs
    · rw [notifyOne_same hs]; exact ⟨id, id, id⟩
    · cases hs
  case mutNotifyOne b x =>
    right
    simp only [step] at hs
    split at hs
    · rw [notifyOne_same hs]; exact ⟨id, id, id⟩
    · cases hs
  all_goals
    right
    simp only [step] at hs
    repeat' (split at hs)
    all_goals first
      | (injection hs with hs; subst hs; exact ⟨id, id, id⟩)
      | cases hs

/-- a goal is requested or a Gc goal is current, no exit goal is current, and no worker thread is gone -/
def Pending (c : Cfg) (s : State) : Prop :=
  (anyRequested s = true ∨ s.current = some .gc) ∧ NoExit s ∧ ∀ w, w < c.n → s.pc w ≠ .surrendered

/-- the step is `park` by the last worker to park (the one that runs `on_last_parked`) -/
def IsLastPark (c : Cfg) (s : State) (a : Option Act) : Prop := ∃ w tag, a = some (.park w tag) ∧ s.parked + 1 = c.n

theorem anyRequested_mono {s s' : State} (h1 : s.reqGc = true → s'.reqGc = true)
    (h2 : s.reqShutdown = true → s'.reqShutdown = true) (h3 : s.reqFork = true → s'.reqFork = true)
    (h : anyRequested s = true) : anyRequested s' = true := by
  simp only [anyRequested, Bool.or_eq_true] at h ⊢
  rcases h with (h | h) | h
  · exact Or.inl (Or.inl (h1 h))
  · exact Or.inl (Or.inr (h2 h))
  · exact Or.inr (h3 h)

/-- `Pending` persists until the last worker parks -/
theorem pending_step {c : Cfg} (hn : 0 < c.n) {s s' : State} {a : Act} (hr : Reachable c s) (hP : Pending c s)
    (hs : step c s a = some s') (hnl : ¬ IsLastPark c s (some a)) : Pending c s' := by
  obtain ⟨hreq, hnx, hns⟩ := hP
  have hE := (reachable_invE hn hr).2
  have hnoex : ∀ x, x < c.n → s.pc x ≠ .exited := by
    intro x hx he
    obtain ⟨g, hg1, hg2⟩ := hE.exited x hx he
    have := hnx g hg1; rw [this] at hg2; cases hg2
  by_cases hpk : ∃ w tag, a = .park w tag
  · obtain ⟨w, tag, rfl⟩ := hpk
    obtain ⟨hw, hpc, _, hcase⟩ := step_park_cases hs
    rcases hcase with ⟨_, rfl⟩ | ⟨hl, _⟩
    · refine ⟨hreq, hnx, fun x hx => ?_⟩
      by_cases e : x = w
      · subst e; rw [setPc_pc_self]; simp
      · rw [setPc_pc_other _ _ e]; exact hns x hx
    · exact absurd ⟨w, tag, rfl, hl⟩ hnl
  have hsurrender : ∀ w, a ≠ .surrender w := by
    intro w e; subst e
    simp only [step] at hs
    split at hs
    · split at hs
      · rename_i hg; exact hnoex w hg.1 hg.2
      · cases hs
    · cases hs
  have hreq' : (s.reqGc = true → s'.reqGc = true) ∧ (s.reqShutdown = true → s'.reqShutdown = true) ∧
      (s.reqFork = true → s'.reqFork = true) := by
    rcases step_requests hs with h | h
    · exact absurd h hpk
    · exact h
  have hcur : s'.current = s.current := by
    rcases step_other_E c s s' a hs with h | ⟨w, rfl⟩ | ⟨w, rfl⟩ | rfl | ⟨hcur, _, _⟩
    · exact absurd h hpk
    · simp only [step] at hs
      split at hs
      · injection hs with hs; subst hs; rw [afterUnpark_current]
      · cases hs
    · exact absurd rfl (hsurrender w)
    · simp only [step] at hs
      split at hs
      · split at hs
        · injection hs with hs; subst hs; rfl
        · cases hs
      · cases hs
    · exact hcur
  refine ⟨?_, ?_, ?_⟩
  · rcases hreq with h | h
    · exact Or.inl (anyRequested_mono hreq'.1 hreq'.2.1 hreq'.2.2 h)
    · exact Or.inr (by rw [hcur]; exact h)
  · intro g hg; rw [hcur] at hg; exact hnx g hg
  · intro x hx
    rcases step_other_exsu c s s' a hs with h | ⟨w, rfl⟩ | ⟨w, rfl⟩ | rfl | h
    · exact absurd h hpk
    · simp only [step] at hs
      split at hs
      · injection hs with hs; subst hs
        rw [afterUnpark_noExit w (s := { s with parked := s.parked - 1 }) hnx]
        by_cases e : x = w
        · subst e; rw [setPc_pc_self]; simp
        · rw [setPc_pc_other _ _ e]; exact hns x hx
      · cases hs
    · exact absurd rfl (hsurrender w)
    · simp only [step] at hs
      split at hs
      · split at hs
        · injection hs with hs; subst hs; simp [hx]
        · cases hs
      · cases hs
    · intro e; exact hns x hx ((h x).2.1 e)

/-! ## a stuck run is impossible -/

/-- a fair run in which nothing ever happens but quiet steps although a goal is requested or current -/
structure Stuck (c : Cfg) (tr : Nat → State) (act : Nat → Option Act) : Prop where
  run : FairRun c tr act
  eff : ∀ j a, act j = some a → QuietEff c (tr j) a (tr (j+1))
  noexec : ∀ j w, w < c.n → ((tr j).pc w).isExec = false
  noexit : ∀ j, NoExit (tr j)
  nosurr : ∀ j w, w < c.n → (tr j).pc w ≠ .surrendered
  noassert : NoAssert c tr
  pending : ∀ j, anyRequested (tr j) = true ∨ (tr j).current ≠ none

section stuck
variable {c : Cfg} {tr : Nat → State} {act : Nat → Option Act}

theorem Stuck.next_cases (S : Stuck c tr act) (j : Nat) :
    tr (j+1) = tr j ∨ ∃ a, act j = some a ∧ QuietEff c (tr j) a (tr (j+1)) := by
  have := S.run.next j
  cases ha : act j with
  | none => rw [ha] at this; exact Or.inl this
  | some a => exact Or.inr ⟨a, rfl, S.eff j a ha⟩

theorem Stuck.no_take (S : Stuck c tr act) (j x : Nat) : ¬ Taken act j (.take x) := by
  intro ⟨a, ha, hm⟩
  exact quietEff_not_take (S.eff j a ha) x hm

/-- (A) in a stuck run every local deque is empty -/
theorem Stuck.buf_empty (S : Stuck c tr act) (hn : 0 < c.n) (hmut : c.mutAddOpen = false) (j v : Nat) (hv : v < c.n) :
    (tr j).buf v = [] := by
  apply Classical.byContradiction
  intro hne
  obtain ⟨x, hx, hc⟩ := (reachable_inv hn hmut (S.run.reach j)).c' (.buf v) ⟨hv, hne⟩
  have hpx : ∃ seen, (tr j).pc x = .polling seen ∧ Cont.buf v ∉ seen := by
    unfold covers at hc
    cases hp : (tr j).pc x <;> rw [hp] at hc
    case polling seen => exact ⟨seen, rfl, hc⟩
    case exec p => have := S.noexec j x hx; rw [hp] at this; cases this
    all_goals exact hc.elim
  obtain ⟨m, _, hP, hT⟩ := wf1 S.run (.take x) (fun m => BufCov (tr m) x v) j ⟨hne, hpx⟩
    (by
      intro m _ hP _
      rcases S.next_cases m with e | ⟨a, _, he⟩
      · rw [e]; exact hP
      · exact bufCov_stable he hv hP)
    (by
      intro m _ ⟨hb, seen, hpc, hns⟩
      cases hbv : (tr m).buf v with
      | nil => exact absurd hbv hb
      | cons p l =>
        by_cases e : v = x
        · subst e
          refine ⟨.popLocal v p, Or.inr (Or.inl ⟨p, rfl⟩), ?_⟩
          simp [step, hpc, hx, hbv]
        · refine ⟨.steal x v p, Or.inr (Or.inr (Or.inr ⟨v, p, rfl⟩)), ?_⟩
          simp [step, hpc, hx, hv, hbv, e])
  exact S.no_take m x hT

/-- (B) in a stuck run no bucket is runnable -/
theorem Stuck.no_runnable (S : Stuck c tr act) (hn : 0 < c.n) (hmut : c.mutAddOpen = false) (j b : Nat) (hb : b < c.L) :
    ((tr j).bkt b).runnable = false := by
  cases hr : ((tr j).bkt b).runnable with
  | false => rfl
  | true =>
    exfalso
    obtain ⟨x, hx, hc⟩ := (reachable_inv hn hmut (S.run.reach j)).c' (.bucket b) ⟨hb, hr⟩
    have hpx : ∃ seen, (tr j).pc x = .polling seen ∧ Cont.bucket b ∉ seen := by
      unfold covers at hc
      cases hp : (tr j).pc x <;> rw [hp] at hc
      case polling seen => exact ⟨seen, rfl, hc⟩
      case exec p => have := S.noexec j x hx; rw [hp] at this; cases this
      all_goals exact hc.elim
    obtain ⟨m, _, hP, hT⟩ := wf1 S.run (.take x) (fun m => BktCov (tr m) x b) j ⟨hr, hpx⟩
      (by
        intro m _ hP _
        rcases S.next_cases m with e | ⟨a, _, he⟩
        · rw [e]; exact hP
        · exact bktCov_stable he hb (fun v hv => S.buf_empty hn hmut (m+1) v hv) hP)
      (by
        intro m _ ⟨hr, seen, hpc, hns⟩
        obtain ⟨h1, h2, h3⟩ := runnable_facts hr
        cases hq : ((tr m).bkt b).q with
        | nil => exact absurd hq h3
        | cons p l =>
          refine ⟨.pollBucket x b p, Or.inl ⟨b, p, rfl⟩, ?_⟩
          simp [step, hpc, hx, hb, h1, h2, hq])
    exact S.no_take m x hT

/-- in a stuck run every container a polling worker has not yet seen looks empty to it -/
theorem Stuck.looks_empty (S : Stuck c tr act) (hn : 0 < c.n) (hmut : c.mutAddOpen = false) (j w : Nat) (hw : w < c.n)
    (k : Cont) (hk : k ∈ allConts c) (seen : List Cont) (hpc : (tr j).pc w = .polling seen) (hns : k ∉ seen) :
    looksEmpty (tr j) w k = true := by
  cases k with
  | bucket b =>
    have hb : b < c.L := by simpa [allConts] using hk
    simp [looksEmpty, S.no_runnable hn hmut j b hb]
  | buf v =>
    have hv : v < c.n := by simpa [allConts] using hk
    simp [looksEmpty, S.buf_empty hn hmut j v hv]
  | desig =>
    cases hd : (tr j).desig w with
    | nil => simp [looksEmpty, hd]
    | cons p0 l0 =>
      exfalso
      obtain ⟨m, _, hP, hT⟩ := wf1 S.run (.take w)
        (fun m => (tr m).desig w ≠ [] ∧ ∃ seen, (tr m).pc w = .polling seen ∧ Cont.desig ∉ seen) j
        ⟨by rw [hd]; simp, seen, hpc, hns⟩
        (by
          intro m _ ⟨hne, seen, hpc, hns⟩ _
          rcases S.next_cases m with e | ⟨a, _, he⟩
          · rw [e]; exact ⟨hne, seen, hpc, hns⟩
          · refine ⟨by rw [quietEff_desig he]; exact hne, ?_⟩
            rcases quietEff_pc he w with h | ⟨k, seen', _, hp1, hp2, hle⟩ | ⟨b, p, _, _, hb, hr, _⟩ | ⟨seen', _, hp1, hall⟩ | ⟨tag, _, hpw⟩ | ⟨_, hpw⟩
            · exact ⟨seen, by rw [h]; exact hpc, hns⟩
            · rw [hpc] at hp1; injection hp1 with hp1; subst hp1
              refine ⟨_, hp2, ?_⟩
              intro hmem
              rcases List.mem_cons.1 hmem with e | e
              · subst e
                simp only [looksEmpty] at hle
                cases hdv : (tr m).desig w with
                | nil => exact hne hdv
                | cons q l => rw [hdv] at hle; cases hle
              · exact hns e
            · rw [S.no_runnable hn hmut m b hb] at hr; cases hr
            · rw [hpc] at hp1; injection hp1 with hp1; subst hp1
              exact absurd (hall _ (by simp [allConts])) hns
            · rw [hpc] at hpw; cases hpw
            · rw [hpc] at hpw; cases hpw)
        (by
          intro m _ ⟨hne, seen, hpc, hns⟩
          cases hdv : (tr m).desig w with
          | nil => exact absurd hdv hne
          | cons p l =>
            refine ⟨.popDesig w p, Or.inr (Or.inr (Or.inl ⟨p, rfl⟩)), ?_⟩
            simp [step, hpc, hw, hdv])
      exact S.no_take m w hT

theorem Stuck.waiting_forever (S : Stuck c tr act) (w j : Nat) (h : (tr j).pc w = .waiting) :
    ∀ i, j ≤ i → (tr i).pc w = .waiting := by
  have : ∀ d, (tr (j + d)).pc w = .waiting := by
    intro d
    induction d with
    | zero => exact h
    | succ d ih =>
      rcases S.next_cases (j + d) with e | ⟨a, _, he⟩
      · show (tr (j + d + 1)).pc w = _; rw [e]; exact ih
      · show (tr (j + d + 1)).pc w = _
        rcases quietEff_pc he w with h | ⟨k, seen', _, hp1, _⟩ | ⟨b, p, _, _, _, _, hpw⟩ | ⟨seen', _, hp1, _⟩ | ⟨tag, rfl, hpw2⟩ | ⟨rfl, hpw3⟩
        · rw [h]; exact ih
        · rw [ih] at hp1; cases hp1
        · rw [ih] at hpw; cases hpw
        · rw [ih] at hp1; cases hp1
        · rw [ih] at hpw2; cases hpw2
        · rw [ih] at hpw3; cases hpw3
  intro i hi
  have := this (i - j)
  rwa [show j + (i - j) = i by omega] at this

theorem Stuck.parking_to_waiting (S : Stuck c tr act) (w j : Nat) (hw : w < c.n) (h : (tr j).pc w = .parking) :
    ∃ i, j ≤ i ∧ (tr i).pc w = .waiting := by
  obtain ⟨m, hm, hP, a, ha, tag, rfl⟩ := wf1 S.run (.park w) (fun m => (tr m).pc w = .parking) j h
    (by
      intro m _ hP hnt
      rcases S.next_cases m with e | ⟨a, ha, he⟩
      · rw [e]; exact hP
      · rcases quietEff_pc he w with h | ⟨k, seen', _, hp1, _⟩ | ⟨b, p, _, _, _, _, hpw⟩ | ⟨seen', _, hp1, _⟩ | ⟨tag, rfl, hpw2⟩ | ⟨rfl, hpw3⟩
        · rw [h]; exact hP
        · rw [hP] at hp1; cases hp1
        · rw [hP] at hpw; cases hpw
        · rw [hP] at hp1; cases hp1
        · exact absurd ⟨_, ha, tag, rfl⟩ hnt
        · rw [hP] at hpw3; cases hpw3)
    (by
      intro m _ hP
      obtain ⟨tag, ht⟩ := S.noassert m w hw hP
      exact ⟨.park w tag, ⟨tag, rfl⟩, ht⟩)
  exact ⟨m + 1, by omega, quietEff_park (S.eff m _ ha)⟩

theorem Stuck.woken_to_polling (S : Stuck c tr act) (w j : Nat) (hw : w < c.n) (h : (tr j).pc w = .woken) :
    ∃ i, j ≤ i ∧ (tr i).pc w = .polling [] := by
  obtain ⟨m, hm, hP, a, ha, rfl⟩ := wf1 S.run (.wake w) (fun m => (tr m).pc w = .woken) j h
    (by
      intro m _ hP hnt
      rcases S.next_cases m with e | ⟨a, ha, he⟩
      · rw [e]; exact hP
      · rcases quietEff_pc he w with h | ⟨k, seen', _, hp1, _⟩ | ⟨b, p, _, _, _, _, hpw⟩ | ⟨seen', _, hp1, _⟩ | ⟨tag, rfl, hpw2⟩ | ⟨rfl, hpw3⟩
        · rw [h]; exact hP
        · rw [hP] at hp1; cases hp1
        · rw [hP] at hpw; cases hpw
        · rw [hP] at hp1; cases hp1
        · rw [hP] at hpw2; cases hpw2
        · exact absurd ⟨_, ha, rfl⟩ hnt)
    (by
      intro m _ hP
      refine ⟨.wake w, rfl, ?_⟩
      have hA := reachable_invA (S.run.reach m)
      have hpos : 0 < (tr m).parked := by
        rw [hA.parked_eq]
        exact countW_pos c.n _ w hw (by rw [hP]; rfl)
      simp [step, hw, hP, hpos])
  exact ⟨m + 1, by omega, quietEff_wake (S.eff m _ ha)⟩

theorem Stuck.polling_seen (S : Stuck c tr act) (hn : 0 < c.n) (hmut : c.mutAddOpen = false) (w : Nat) (hw : w < c.n)
    (l : List Cont) (hl : ∀ k, k ∈ l → k ∈ allConts c) :
    ∀ j seen, (tr j).pc w = .polling seen →
      ∃ i, j ≤ i ∧ ((tr i).pc w = .parking ∨ ∃ seen', (tr i).pc w = .polling seen' ∧ ∀ k, k ∈ l → k ∈ seen') := by
  induction l with
  | nil => intro j seen h; exact ⟨j, Nat.le_refl _, Or.inr ⟨seen, h, fun k hk => by cases hk⟩⟩
  | cons k l ih =>
    intro j seen h
    obtain ⟨i, hji, hi⟩ := ih (fun k' hk' => hl k' (List.mem_cons_of_mem _ hk')) j seen h
    rcases hi with hi | ⟨seen', hpc, hall⟩
    · exact ⟨i, hji, Or.inl hi⟩
    · by_cases hk : k ∈ seen'
      · refine ⟨i, hji, Or.inr ⟨seen', hpc, fun k' hk' => ?_⟩⟩
        rcases List.mem_cons.1 hk' with e | e
        · subst e; exact hk
        · exact hall k' e
      · have hkc : k ∈ allConts c := hl k (List.mem_cons_self ..)
        obtain ⟨m, hm, ⟨sn, hp, hal, hkn⟩, a, ha, hmem⟩ := wf1 S.run (.look w k)
          (fun m => ∃ sn, (tr m).pc w = .polling sn ∧ (∀ k', k' ∈ l → k' ∈ sn) ∧ k ∉ sn) i ⟨seen', hpc, hall, hk⟩
          (by
            intro m _ ⟨sn, hp, hal, hkn⟩ hnt
            rcases S.next_cases m with e | ⟨a, ha, he⟩
            · rw [e]; exact ⟨sn, hp, hal, hkn⟩
            · rcases quietEff_pc he w with h | ⟨k2, sn2, rfl, hp1, hp2, _⟩ | ⟨b, p, _, _, hb, hr, _⟩ | ⟨sn2, _, hp1, hall2⟩ |
                ⟨tag, _, hpw⟩ | ⟨_, hpw⟩
              · exact ⟨sn, by rw [h]; exact hp, hal, hkn⟩
              · rw [hp] at hp1; injection hp1 with hp1; subst hp1
                refine ⟨_, hp2, fun k' hk' => List.mem_cons_of_mem _ (hal k' hk'), ?_⟩
                intro hmem
                rcases List.mem_cons.1 hmem with e | e
                · subst e; exact hnt ⟨_, ha, rfl⟩
                · exact hkn e
              · rw [S.no_runnable hn hmut m b hb] at hr; cases hr
              · rw [hp] at hp1; injection hp1 with hp1; subst hp1
                exact absurd (hall2 k hkc) hkn
              · rw [hp] at hpw; cases hpw
              · rw [hp] at hpw; cases hpw)
          (by
            intro m _ ⟨sn, hp, hal, hkn⟩
            have hle := S.looks_empty hn hmut m w hw k hkc sn hp hkn
            refine ⟨.observeEmpty w k, rfl, ?_⟩
            simp [step, hp, hw, hle])
        simp only [FairAct.mem] at hmem; subst hmem
        obtain ⟨sn0, hp0, hp1⟩ := quietEff_observe (S.eff m _ ha)
        rw [hp] at hp0; injection hp0 with hp0; subst hp0
        refine ⟨m + 1, by omega, Or.inr ⟨_, hp1, fun k' hk' => ?_⟩⟩
        rcases List.mem_cons.1 hk' with e | e
        · subst e; exact List.mem_cons_self ..
        · exact List.mem_cons_of_mem _ (hal k' e)

theorem Stuck.polling_to_parking (S : Stuck c tr act) (hn : 0 < c.n) (hmut : c.mutAddOpen = false) (w j : Nat) (hw : w < c.n)
    (seen : List Cont) (h : (tr j).pc w = .polling seen) : ∃ i, j ≤ i ∧ (tr i).pc w = .parking := by
  obtain ⟨i, hji, hi⟩ := S.polling_seen hn hmut w hw (allConts c) (fun k hk => hk) j seen h
  rcases hi with hi | ⟨seen', hpc, hall⟩
  · exact ⟨i, hji, hi⟩
  · obtain ⟨m, hm, _, a, ha, hmem⟩ := wf1 S.run (.miss w)
      (fun m => ∃ sn, (tr m).pc w = .polling sn ∧ ∀ k, k ∈ allConts c → k ∈ sn) i ⟨seen', hpc, hall⟩
      (by
        intro m _ ⟨sn, hp, hal⟩ hnt
        rcases S.next_cases m with e | ⟨a, ha, he⟩
        · rw [e]; exact ⟨sn, hp, hal⟩
        · rcases quietEff_pc he w with h | ⟨k2, sn2, _, hp1, hp2, _⟩ | ⟨b, p, _, _, hb, hr, _⟩ | ⟨sn2, rfl, hp1, hall2⟩ |
            ⟨tag, _, hpw⟩ | ⟨_, hpw⟩
          · exact ⟨sn, by rw [h]; exact hp, hal⟩
          · rw [hp] at hp1; injection hp1 with hp1; subst hp1
            exact ⟨_, hp2, fun k' hk' => List.mem_cons_of_mem _ (hal k' hk')⟩
          · rw [S.no_runnable hn hmut m b hb] at hr; cases hr
          · exact absurd ⟨_, ha, rfl⟩ hnt
          · rw [hp] at hpw; cases hpw
          · rw [hp] at hpw; cases hpw)
      (by
        intro m _ ⟨sn, hp, hal⟩
        refine ⟨.pollMiss w, rfl, ?_⟩
        have : (allConts c).all (fun k => decide (k ∈ sn)) = true := by
          rw [List.all_eq_true]; intro k hk; simpa using hal k hk
        simp only [step, hp]
        rw [if_pos ⟨hw, this⟩]; rfl)
    simp only [FairAct.mem] at hmem; subst hmem
    exact ⟨m + 1, by omega, quietEff_miss (S.eff m _ ha)⟩

theorem Stuck.eventually_waiting (S : Stuck c tr act) (hn : 0 < c.n) (hmut : c.mutAddOpen = false) (w : Nat) (hw : w < c.n) :
    ∃ J, ∀ j, J ≤ j → (tr j).pc w = .waiting := by
  have fromParking : ∀ j, (tr j).pc w = .parking → ∃ J, ∀ j, J ≤ j → (tr j).pc w = .waiting := by
    intro j h
    obtain ⟨i, _, hi⟩ := S.parking_to_waiting w j hw h
    exact ⟨i, S.waiting_forever w i hi⟩
  have fromPolling : ∀ j seen, (tr j).pc w = .polling seen → ∃ J, ∀ j, J ≤ j → (tr j).pc w = .waiting := by
    intro j seen h
    obtain ⟨i, _, hi⟩ := S.polling_to_parking hn hmut w j hw seen h
    exact fromParking i hi
  cases hp : (tr 0).pc w with
  | polling seen => exact fromPolling 0 seen hp
  | exec p => have := S.noexec 0 w hw; rw [hp] at this; cases this
  | parking => exact fromParking 0 hp
  | waiting => exact ⟨0, S.waiting_forever w 0 hp⟩
  | woken =>
    obtain ⟨i, _, hi⟩ := S.woken_to_polling w 0 hw hp
    exact fromPolling i [] hi
  | exited =>
    obtain ⟨g, hg1, hg2⟩ := (reachable_invE hn (S.run.reach 0)).2.exited w hw hp
    have := S.noexit 0 g hg1; rw [this] at hg2; cases hg2
  | surrendered => exact absurd hp (S.nosurr 0 w hw)

/-- **a stuck run does not exist**: if only quiet steps happen, every worker ends up waiting, and then
(invariant B: the last parker never sleeps on a request) nothing is requested and no goal is current -/
theorem Stuck.false (S : Stuck c tr act) (hn : 0 < c.n) (hmut : c.mutAddOpen = false) : False := by
  obtain ⟨J, hJ⟩ := eventually_forall_lt c.n (fun w j => (tr j).pc w = .waiting)
    (fun w hw => S.eventually_waiting hn hmut w hw)
  have hb := (reachable_invAB hn (S.run.reach J)).2 (fun x hx => hJ x hx J (Nat.le_refl _))
  rcases S.pending J with h | h
  · rw [hb.1] at h; cases h
  · exact h hb.2

end stuck

/-! ## what `on_last_parked` does during a GC that does not end -/

theorem takeSentinel_sentinel (s : State) (b k : Nat) :
    ((takeSentinel s b).bkt k).sentinel = if k = b then none else (s.bkt k).sentinel := by
  unfold takeSentinel
  cases hs : (s.bkt b).sentinel with
  | none =>
    simp only [emit]
    split
    · rename_i e; subst e; exact hs
    · rfl
  | some p =>
    simp only [emit, setBkt]
    split <;> rfl

theorem schedLoop_sentinel_none (bs : List Nat) : ∀ (s : State) (acc : Bool) (k : Nat),
    (s.bkt k).sentinel = none → ((schedSentinelsLoop s bs acc).1.bkt k).sentinel = none := by
  induction bs with
  | nil => intro s acc k h; exact h
  | cons b bs ih =>
    intro s acc k h
    unfold schedSentinelsLoop
    split
    · apply ih; rw [takeSentinel_sentinel]; split
      · rfl
      · exact h
    · exact ih _ _ _ h

/-- if `schedule_sentinels` reports a scheduled sentinel, some sentinel slot was emptied -/
theorem schedLoop_takes (bs : List Nat) : ∀ (s : State), (schedSentinelsLoop s bs false).2 = true →
    ∃ b, b ∈ bs ∧ (s.bkt b).sentinel ≠ none ∧ ((schedSentinelsLoop s bs false).1.bkt b).sentinel = none := by
  induction bs with
  | nil => intro s h; simp [schedSentinelsLoop] at h
  | cons b bs ih =>
    intro s h
    unfold schedSentinelsLoop at h ⊢
    split
    · rename_i ho
      rw [if_pos ho] at h
      cases hh : hasSentinel s b with
      | true =>
        refine ⟨b, List.mem_cons_self .., ?_, ?_⟩
        · unfold hasSentinel at hh; intro e; rw [e] at hh; cases hh
        · apply schedLoop_sentinel_none; rw [takeSentinel_sentinel]; simp
      | false =>
        rw [hh] at h; simp only [Bool.or_false] at h ⊢
        obtain ⟨b', hb', h1, h2⟩ := ih _ h
        refine ⟨b', List.mem_cons_of_mem _ hb', ?_, h2⟩
        rw [takeSentinel_none s b hh] at h1; exact h1
    · rename_i ho
      rw [if_neg ho] at h
      obtain ⟨b', hb', h1, h2⟩ := ih _ h
      exact ⟨b', List.mem_cons_of_mem _ hb', h1, h2⟩

theorem openBkt_sentinel (s : State) (b k : Nat) : ((openBkt s b).bkt k).sentinel = (s.bkt k).sentinel := by
  simp only [openBkt, emit, setBkt]; split
  · rename_i e; subst e; rfl
  · rfl

theorem openBkt_isOpen_mono (s : State) (b k : Nat) (h : (s.bkt k).isOpen = true) : ((openBkt s b).bkt k).isOpen = true := by
  simp only [openBkt, emit, setBkt]; split
  · rfl
  · exact h

theorem openBkt_isOpen_self (s : State) (b : Nat) : ((openBkt s b).bkt b).isOpen = true := by
  simp [openBkt, emit, setBkt]

theorem updateLoop_mono (c : Cfg) (bs : List Nat) : ∀ (s : State) (u : Bool) (k : Nat),
    ((s.bkt k).isOpen = true → ((updateLoop c s bs u).1.bkt k).isOpen = true) ∧
    ((s.bkt k).sentinel = none → ((updateLoop c s bs u).1.bkt k).sentinel = none) := by
  induction bs with
  | nil => intro s u k; exact ⟨id, id⟩
  | cons b bs ih =>
    intro s u k
    have hts : (s.bkt k).sentinel = none → ((takeSentinel (openBkt s b) b).bkt k).sentinel = none := by
      intro h; rw [takeSentinel_sentinel]; split
      · rfl
      · rw [openBkt_sentinel]; exact h
    have hto : (s.bkt k).isOpen = true → ((takeSentinel (openBkt s b) b).bkt k).isOpen = true := by
      intro h; rw [takeSentinel_isOpen]; exact openBkt_isOpen_mono s b k h
    unfold updateLoop
    split
    · exact ih _ _ _
    · split
      · exact ih _ _ _
      · split
        · split
          · exact ⟨openBkt_isOpen_mono s b k, fun h => by rw [openBkt_sentinel]; exact h⟩
          · split
            · exact ⟨hto, hts⟩
            · exact ⟨fun h => (ih _ _ k).1 (hto h), fun h => (ih _ _ k).2 (hts h)⟩
        · exact ih _ _ _

/-- if `update_buckets` reports an update, some closed bucket was opened -/
theorem updateLoop_opened (c : Cfg) (bs : List Nat) : ∀ (s : State) (u : Bool), (updateLoop c s bs u).2.1 = true →
    u = true ∨ ∃ b, b ∈ bs ∧ (s.bkt b).isOpen = false ∧ ((updateLoop c s bs u).1.bkt b).isOpen = true := by
  induction bs with
  | nil => intro s u h; left; simpa [updateLoop] using h
  | cons b bs ih =>
    intro s u h
    have lift : ∀ t u', (updateLoop c t bs u').2.1 = true → (∀ k, (t.bkt k).isOpen = false → (s.bkt k).isOpen = false) →
        u' = true ∨ ∃ b', b' ∈ b :: bs ∧ (s.bkt b').isOpen = false ∧ ((updateLoop c t bs u').1.bkt b').isOpen = true := by
      intro t u' ht hcl
      rcases ih t u' ht with e | ⟨b', hb', h1, h2⟩
      · exact Or.inl e
      · exact Or.inr ⟨b', List.mem_cons_of_mem _ hb', hcl b' h1, h2⟩
    unfold updateLoop at h ⊢
    split
    · rename_i h1; rw [if_pos h1] at h; exact lift s u h (fun _ => id)
    · rename_i h1; rw [if_neg h1] at h
      split
      · rename_i h2; rw [if_pos h2] at h; exact lift s u h (fun _ => id)
      · rename_i h2; rw [if_neg h2] at h
        split
        · rename_i h3
          have hcl : (s.bkt b).isOpen = false := (canOpenNow_facts h3).2.1
          right
          refine ⟨b, List.mem_cons_self .., hcl, ?_⟩
          split
          · exact openBkt_isOpen_self s b
          · split
            · rw [takeSentinel_isOpen]; exact openBkt_isOpen_self s b
            · apply (updateLoop_mono c bs _ _ b).1
              rw [takeSentinel_isOpen]; exact openBkt_isOpen_self s b
        · rename_i h3; rw [if_neg h3] at h; exact lift s u h (fun _ => id)

/-- the three ways `on_last_parked` can return during a GC without completing it -/
theorem onLastParked_gc_cases {c : Cfg} {s s' : State} {tag : Nat} {r : LPR} (h : onLastParked c s tag = some (s', r))
    (hcur : s.current = some .gc) (hg : s'.gcDone = s.gcDone) :
    (hasDesignated c s = true ∧ s' = s ∧ r = .wakeAll) ∨
    (∃ b, b < c.L ∧ (s.bkt b).sentinel ≠ none ∧ (s'.bkt b).sentinel = none) ∨
    (∃ b, b < c.L ∧ (s.bkt b).isOpen = false ∧ (s'.bkt b).isOpen = true) := by
  unfold onLastParked at h
  rw [hcur] at h
  simp only at h
  split at h
  · cases h
  · split at h
    · cases h
    · split at h
      · rename_i hd
        injection h with h; injection h with h1 h2; subst h1; subst h2
        exact Or.inl ⟨hd, rfl, rfl⟩
      · split at h
        · rename_i hss
          injection h with h; injection h with h1 h2; subst h1
          right; left
          unfold schedSentinels at hss ⊢
          obtain ⟨b, hb, h1, h2⟩ := schedLoop_takes _ s hss
          exact ⟨b, List.mem_range.1 hb, h1, h2⟩
        · rename_i hss
          have hbk : (schedSentinels c s).1.bkt = s.bkt := schedSentinels_false c s (by simpa using hss)
          split at h
          · rename_i hub
            injection h with h; injection h with h1 h2; subst h1
            right; right
            unfold updateBuckets at hub ⊢
            simp only [Bool.and_eq_true] at hub
            rcases updateLoop_opened c _ _ false hub.1 with e | ⟨b, hb, h1, h2⟩
            · cases e
            · exact ⟨b, List.mem_range.1 hb, by rw [← hbk]; exact h1, h2⟩
          · split at h
            · cases h
            · rename_i s3 hg3
              exfalso
              have g1 : (schedSentinels c s).1.gcDone = s.gcDone := (sbb_schedSentinels c s).counters.2.2.1
              have g2 : (updateBuckets c (schedSentinels c s).1).1.gcDone = s.gcDone :=
                ((sbb_updateBuckets c _).counters.2.2.1).trans g1
              have g3 : s3.gcDone = s.gcDone := (onGcFinished_gcDone c _ _ hg3).trans g2
              split at h
              · injection h with h; injection h with h1 h2; subst h1
                have : (completeGc s3).gcDone = s3.gcDone + 1 := rfl
                omega
              · have := respond_gcDone c _ _ _ _ h
                have : (completeGc s3).gcDone = s3.gcDone + 1 := rfl
                omega

/-- during a GC that does not end, `on_last_parked` never closes a bucket and never fills a sentinel slot -/
theorem onLastParked_gc_mono {c : Cfg} {s s' : State} {tag : Nat} {r : LPR} (h : onLastParked c s tag = some (s', r))
    (hcur : s.current = some .gc) (hg : s'.gcDone = s.gcDone) (k : Nat) :
    ((s.bkt k).isOpen = true → (s'.bkt k).isOpen = true) ∧ ((s.bkt k).sentinel = none → (s'.bkt k).sentinel = none) := by
  unfold onLastParked at h
  rw [hcur] at h
  simp only at h
  split at h
  · cases h
  · split at h
    · cases h
    · split at h
      · injection h with h; injection h with h1 h2; subst h1; exact ⟨id, id⟩
      · have m1 : ((s.bkt k).isOpen = true → ((schedSentinels c s).1.bkt k).isOpen = true) ∧
            ((s.bkt k).sentinel = none → ((schedSentinels c s).1.bkt k).sentinel = none) := by
          refine ⟨fun e => by rw [schedSentinels_isOpen]; exact e, fun e => ?_⟩
          unfold schedSentinels; simp only [emit]; exact schedLoop_sentinel_none _ s false k e
        split at h
        · injection h with h; injection h with h1 h2; subst h1; exact m1
        · split at h
          · injection h with h; injection h with h1 h2; subst h1
            have m2 := updateLoop_mono c (List.range c.L) (schedSentinels c s).1 false k
            unfold updateBuckets; simp only [emit]
            exact ⟨fun e => m2.1 (m1.1 e), fun e => m2.2 (m1.2 e)⟩
          · split at h
            · cases h
            · rename_i s3 hg3
              exfalso
              have g1 : (schedSentinels c s).1.gcDone = s.gcDone := (sbb_schedSentinels c s).counters.2.2.1
              have g2 : (updateBuckets c (schedSentinels c s).1).1.gcDone = s.gcDone :=
                ((sbb_updateBuckets c _).counters.2.2.1).trans g1
              have g3 : s3.gcDone = s.gcDone := (onGcFinished_gcDone c _ _ hg3).trans g2
              split at h
              · injection h with h; injection h with h1 h2; subst h1
                have : (completeGc s3).gcDone = s3.gcDone + 1 := rfl
                omega
              · have := respond_gcDone c _ _ _ _ h
                have : (completeGc s3).gcDone = s3.gcDone + 1 := rfl
                omega

/-! ## the `park` step -/

theorem step_park_other {c : Cfg} {s s' : State} {w tag x : Nat} (hs : step c s (.park w tag) = some s') (e : x ≠ w) :
    s'.pc x = s.pc x ∨ (s.pc x = .waiting ∧ s'.pc x = .woken) := by
  simp only [step] at hs
  split at hs
  · split at hs
    · split at hs
      · cases hs
      · rename_i s1 hl; have f := frame_onLastParked c _ _ _ _ hl
        injection hs with hs; subst hs; left; simp [setPc, e, f.pc]
      · rename_i s1 hl; have f := frame_onLastParked c _ _ _ _ hl
        injection hs with hs; subst hs; left; rw [afterUnpark_pc_other e]; show s1.pc x = _; rw [f.pc]
      · rename_i s1 hl; have f := frame_onLastParked c _ _ _ _ hl
        injection hs with hs; subst hs
        rw [afterUnpark_pc_other e]
        show (notifyAll s1).pc x = s.pc x ∨ _
        simp only [notifyAll, f.pc]
        by_cases hwx : s.pc x = .waiting
        · right; simp [hwx]
        · left; simp [hwx]
    · injection hs with hs; subst hs; left; simp [setPc, e]
  · cases hs

theorem step_park_self {c : Cfg} {s s' : State} {w tag : Nat} (hs : step c s (.park w tag) = some s') :
    s'.pc w = .waiting ∨ s'.pc w = .polling [] ∨ s'.pc w = .exited := by
  simp only [step] at hs
  split at hs
  · split at hs
    · split at hs
      · cases hs
      · injection hs with hs; subst hs; left; exact setPc_pc_self _ _ _
      · rename_i s1 hl
        injection hs with hs; subst hs
        obtain ⟨p, hp, he⟩ := afterUnpark_pc { s1 with parked := s1.parked - 1 } w
        rw [he, setPc_pc_self]; rcases hp with rfl | rfl
        · exact Or.inr (Or.inr rfl)
        · exact Or.inr (Or.inl rfl)
      · rename_i s1 hl
        injection hs with hs; subst hs
        obtain ⟨p, hp, he⟩ := afterUnpark_pc { notifyAll s1 with parked := (notifyAll s1).parked - 1 } w
        rw [he, setPc_pc_self]; rcases hp with rfl | rfl
        · exact Or.inr (Or.inr rfl)
        · exact Or.inr (Or.inl rfl)
    · injection hs with hs; subst hs; left; exact setPc_pc_self _ _ _
  · cases hs

/-- the last parker found work to do and woke everybody -/
theorem step_park_wakeAll {c : Cfg} {s s' s1 : State} {w tag : Nat} (hs : step c s (.park w tag) = some s')
    (hlast : s.parked + 1 = c.n)
    (hl : onLastParked c { s with parked := s.parked + 1, trace := [] } tag = some (s1, .wakeAll)) :
    s' = afterUnpark { notifyAll s1 with parked := (notifyAll s1).parked - 1 } w := by
  revert hl
  generalize hs0 : ({ s with parked := s.parked + 1, trace := [] } : State) = s0
  intro hl
  have hp : s0.parked = c.n := by rw [← hs0]; exact hlast
  simp only [step] at hs
  split at hs
  · rw [hs0] at hs
    simp only [hl] at hs
    injection hs with hs; exact hs.symm
  · cases hs

theorem hasDesignated_true {c : Cfg} {s : State} (h : hasDesignated c s = true) : ∃ x, x < c.n ∧ s.desig x ≠ [] := by
  unfold hasDesignated at h
  rw [List.any_eq_true] at h
  obtain ⟨x, hx, hne⟩ := h
  refine ⟨x, List.mem_range.1 hx, ?_⟩
  intro e; rw [e] at hne; simp at hne

/-- designated work for worker `x` exists and `x` polls without having seen its designated queue empty -/
def DesigCov (s : State) (x : Nat) : Prop := s.desig x ≠ [] ∧ ∃ seen, s.pc x = .polling seen ∧ Cont.desig ∉ seen

theorem desigCov_stable {c : Cfg} {s s' : State} {a : Act} {x : Nat} (he : QuietEff c s a s')
    (h : DesigCov s x) : DesigCov s' x := by
  obtain ⟨hd, seen, hpc, hns⟩ := h
  refine ⟨by rw [quietEff_desig he]; exact hd, ?_⟩
  rcases quietEff_pc he x with h | ⟨k, seen', _, hp1, hp2, hle⟩ | ⟨b, p, seen', rfl, _, _, _⟩ | ⟨seen', _, hp1, hall⟩ |
      ⟨tag, _, hpw⟩ | ⟨_, hpw⟩
  · exact ⟨seen, by rw [h]; exact hpc, hns⟩
  · rw [hpc] at hp1; injection hp1 with hp1; subst hp1
    refine ⟨_, hp2, ?_⟩
    intro hmem
    rcases List.mem_cons.1 hmem with e | e
    · subst e
      simp only [looksEmpty] at hle
      cases hdv : s.desig x with
      | nil => exact hd hdv
      | cons q l => rw [hdv] at hle; cases hle
    · exact hns e
  · cases he with
    | batch _ _ _ _ _ _ _ _ _ _ => exact ⟨[], setPc_pc_self _ _ _, by simp⟩
  · rw [hpc] at hp1; injection hp1 with hp1; subst hp1
    exact absurd (hall _ (by simp [allConts])) hns
  · rw [hpc] at hpw; cases hpw
  · rw [hpc] at hpw; cases hpw

/-! ## every worker eventually parks: the last parker runs `on_last_parked` -/

theorem FairRun.step_at {c : Cfg} {tr : Nat → State} {act : Nat → Option Act} (R : FairRun c tr act) {k : Nat} {a : Act}
    (ha : act k = some a) : step c (tr k) a = some (tr (k+1)) := by
  have := R.next k; rw [ha] at this; exact this

theorem FairRun.stutter_at {c : Cfg} {tr : Nat → State} {act : Nat → Option Act} (R : FairRun c tr act) {k : Nat}
    (ha : act k = none) : tr (k+1) = tr k := by
  have := R.next k; rw [ha] at this; exact this

/-- in a fair run with finitely many packets and finitely many environment actions, from some point on no
packet starts or ends, no environment action happens, and no worker runs a packet -/
theorem eventually_calm {c : Cfg} {tr : Nat → State} {act : Nat → Option Act} (hu : c.unconIdx < c.L)
    (R : FairRun c tr act) (hN : FiniteSpawn tr) (hE : FiniteEnv act) :
    ∃ K, (∀ j, K ≤ j → (tr (j+1)).started = (tr j).started ∧ (tr (j+1)).ended = (tr j).ended) ∧
      (∀ j a, K ≤ j → act j = some a → a.isEnv = false) ∧
      (∀ j, K ≤ j → ∀ w, w < c.n → ((tr j).pc w).isExec = false) := by
  -- the counters `started`, `ended` are eventually constant
  obtain ⟨N, hN⟩ := hN
  have hmono : ∀ j, (tr j).started ≤ (tr (j+1)).started ∧ (tr j).ended ≤ (tr (j+1)).ended := by
    intro j
    cases ha : act j with
    | none => rw [R.stutter_at ha]; exact ⟨Nat.le_refl _, Nat.le_refl _⟩
    | some a => exact step_counters_mono (R.step_at ha)
  obtain ⟨K1, hK1⟩ := mono_bounded_const (fun j => (tr j).started + (tr j).ended) (2 * N)
    (fun j => by have := hmono j; show _ + _ ≤ _ + _; omega)
    (fun j => by
      have k := reachable_invK hu (R.reach j)
      have := k.added_eq; have := k.started_eq; have := hN j
      show _ + _ ≤ _; omega)
  have hconst : ∀ j, K1 ≤ j → (tr (j+1)).started = (tr j).started ∧ (tr (j+1)).ended = (tr j).ended := by
    intro j hj
    have h1 := hK1 j hj
    have h2 := hK1 (j+1) (by omega)
    have := hmono j
    omega
  obtain ⟨K2, hK2⟩ := hE
  -- nobody runs a packet after `max K1 K2`
  have hnoexec : ∀ j, max K1 K2 ≤ j → ∀ w, w < c.n → ((tr j).pc w).isExec = false := by
    intro j hj w hw
    cases hx : ((tr j).pc w).isExec with
    | false => rfl
    | true =>
      exfalso
      obtain ⟨m, hm, _, a, ha, hmem⟩ := wf1 R (.finish w) (fun m => ((tr m).pc w).isExec = true) j hx
        (by
          intro m hm hPm hnt
          cases ha : act m with
          | none => rw [R.stutter_at ha]; exact hPm
          | some a =>
            rcases step_isExec_stable (R.step_at ha) w hPm with h | rfl | rfl
            · exact h
            · exact absurd ⟨_, ha, rfl⟩ hnt
            · have := hK2 m _ (by omega) ha; cases this)
        (by
          intro m _ hPm
          refine ⟨.execEnd w, rfl, ?_⟩
          cases hp : (tr m).pc w with
          | exec p => simp [step, hp, hw]
          | _ => rw [hp] at hPm; cases hPm)
      simp only [FairAct.mem] at hmem; subst hmem
      have := step_execEnd_ended (R.step_at ha)
      have := (hconst m (by omega)).2
      omega
  exact ⟨max K1 K2, fun j hj => hconst j (by omega), fun j a hj ha => hK2 j a (by omega) ha, hnoexec⟩

/-- **progress lemma**: in a fair run with finitely many packets and finitely many environment actions, in
which no assertion fires, from a state where a goal is requested (or a Gc goal is current) the run reaches a
`park` step of the *last* parker — the worker that runs `on_last_parked` — and `Pending` holds up to there. -/
theorem last_park_eventually {c : Cfg} {tr : Nat → State} {act : Nat → Option Act}
    (hn : 0 < c.n) (hmut : c.mutAddOpen = false) (hu : c.unconIdx < c.L)
    (R : FairRun c tr act) (hN : FiniteSpawn tr) (hE : FiniteEnv act) (hA : NoAssert c tr) (hP : Pending c (tr 0)) :
    ∃ j, IsLastPark c (tr j) (act j) ∧ ∀ i, i ≤ j → Pending c (tr i) := by
  apply Classical.byContradiction
  intro hno
  -- `Pending` holds forever and the last parker never parks
  have hall : ∀ j, ∀ i, i ≤ j → Pending c (tr i) := by
    intro j
    induction j with
    | zero => intro i hi; have : i = 0 := by omega
              subst this; exact hP
    | succ j ih =>
      intro i hi
      by_cases e : i ≤ j
      · exact ih i e
      · have : i = j + 1 := by omega
        subst this
        have hnl : ¬ IsLastPark c (tr j) (act j) := fun h => hno ⟨j, h, ih⟩
        cases ha : act j with
        | none => rw [R.stutter_at ha]; exact ih j (Nat.le_refl _)
        | some a => exact pending_step hn (R.reach j) (ih j (Nat.le_refl _)) (R.step_at ha) (by rw [← ha]; exact hnl)
  have hpend : ∀ j, Pending c (tr j) := fun j => hall j j (Nat.le_refl _)
  have hnl : ∀ j, ¬ IsLastPark c (tr j) (act j) := fun j h => hno ⟨j, h, hall j⟩
  obtain ⟨K, hconst, hK2, hnoexec⟩ := eventually_calm hu R hN hE
  -- the suffix from `K` is a stuck run
  have S : Stuck c (fun j => tr (K + j)) (fun j => act (K + j)) := {
    run := R.shift K
    eff := by
      intro j a ha
      have hs : step c (tr (K + j)) a = some (tr (K + j + 1)) := R.step_at ha
      have hq := quiet_cases hs (hK2 (K + j) a (by omega) ha) (hconst (K + j) (by omega)).1 (hconst (K + j) (by omega)).2
        (hnoexec (K + j) (by omega))
        (by intro ⟨w, tag, e, hl⟩; exact hnl (K + j) ⟨w, tag, by rw [ha, e], hl⟩)
      exact quiet_effect hs hq (reachable_invE hn (R.reach (K + j))).2 (hpend (K + j)).2.1
    noexec := fun j => hnoexec (K + j) (by omega)
    noexit := fun j => (hpend (K + j)).2.1
    nosurr := fun j => (hpend (K + j)).2.2
    noassert := fun j => hA (K + j)
    pending := fun j => by
      rcases (hpend (K + j)).1 with h | h
      · exact Or.inl h
      · exact Or.inr (by rw [h]; simp) }
  exact S.false hn hmut

/-! ## a GC in progress completes -/

theorem bool_mono_const (f : Nat → Bool) (h : ∀ j, f j = true → f (j+1) = true) : ∃ K, ∀ j, K ≤ j → f j = f K := by
  by_cases e : ∃ j, f j = true
  · obtain ⟨K, hK⟩ := e
    refine ⟨K, fun j hj => ?_⟩
    have : ∀ d, f (K + d) = true := by
      intro d
      induction d with
      | zero => exact hK
      | succ d ih => exact h _ ih
    have := this (j - K)
    rw [show K + (j - K) = j by omega] at this
    rw [this, hK]
  · refine ⟨0, fun j _ => ?_⟩
    have hf : ∀ i, f i = false := by
      intro i
      cases hf : f i with
      | false => rfl
      | true => exact absurd ⟨i, hf⟩ e
    rw [hf j, hf 0]

theorem quietEff_flags {c : Cfg} {s s' : State} {a : Act} (he : QuietEff c s a s') (b : Nat) :
    (s'.bkt b).isOpen = (s.bkt b).isOpen ∧ (s'.bkt b).sentinel = (s.bkt b).sentinel := by
  cases he with
  | batch w b' p seen _ _ _ _ _ _ =>
    simp only [setPc, setBuf, setBkt]
    split
    · rename_i e; subst e; exact ⟨rfl, rfl⟩
    · exact ⟨rfl, rfl⟩
  | _ => exact ⟨rfl, rfl⟩

theorem current_gc_step {c : Cfg} (hn : 0 < c.n) {s s' : State} {a : Act} (hr : Reachable c s)
    (hc : s.current = some .gc) (hs : step c s a = some s') (hg : s'.gcDone = s.gcDone) : s'.current = some .gc := by
  have hE := (reachable_invE hn hr).2
  by_cases hpk : ∃ w tag, a = .park w tag
  · obtain ⟨w, tag, rfl⟩ := hpk
    obtain ⟨_, _, _, hcase⟩ := step_park_cases hs
    rcases hcase with ⟨_, rfl⟩ | ⟨_, s1, r, hl, he⟩
    · exact hc
    · have h1 : s'.current = s1.current := by rw [he]
      have h2 : s'.gcDone = s1.gcDone := by rw [he]
      rw [h1]
      exact onLastParked_current c _ s1 tag r hl hc (by rw [← h2]; exact hg)
  · rcases step_other_E c s s' a hs with h | ⟨w, rfl⟩ | ⟨w, rfl⟩ | rfl | ⟨hcur, _, _⟩
    · exact absurd h hpk
    · simp only [step] at hs
      split at hs
      · injection hs with hs; subst hs; rw [afterUnpark_current]; exact hc
      · cases hs
    · exfalso
      simp only [step] at hs
      split at hs
      · split at hs
        · rename_i hg'
          obtain ⟨g, hg1, hg2⟩ := hE.exited w hg'.1 hg'.2
          rw [hc] at hg1; injection hg1 with hg1; subst hg1; cases hg2
        · cases hs
      · cases hs
    · simp only [step] at hs
      split at hs
      · split at hs
        · injection hs with hs; subst hs; exact hc
        · cases hs
      · cases hs
    · rw [hcur]; exact hc

theorem first_change (f : Nat → Nat) (h : ∃ j, f j ≠ f 0) : ∃ j, f (j+1) ≠ f j ∧ ∀ i, i ≤ j → f i = f 0 := by
  obtain ⟨j, hj⟩ := h
  induction j with
  | zero => exact absurd rfl hj
  | succ j ih =>
    by_cases e : f j = f 0
    · by_cases e2 : ∀ i, i ≤ j → f i = f 0
      · exact ⟨j, by rw [e]; exact hj, e2⟩
      · have : ∃ i, i ≤ j ∧ f i ≠ f 0 := by
          apply Classical.byContradiction
          intro hne
          exact e2 (fun i hi => Classical.byContradiction (fun hh => hne ⟨i, hi, hh⟩))
        obtain ⟨i, hi, hne⟩ := this
        -- take the least such i by a second induction
        have least : ∀ m, (∃ i, i ≤ m ∧ f i ≠ f 0) → ∃ j, f (j+1) ≠ f j ∧ ∀ i, i ≤ j → f i = f 0 := by
          intro m
          induction m with
          | zero => intro ⟨i, hi, hne⟩; have : i = 0 := by omega
                    subst this; exact absurd rfl hne
          | succ m ihm =>
            intro ⟨i, hi, hne⟩
            by_cases hm : ∃ i, i ≤ m ∧ f i ≠ f 0
            · exact ihm hm
            · have hall : ∀ i, i ≤ m → f i = f 0 :=
                fun i hi => Classical.byContradiction (fun hh => hm ⟨i, hi, hh⟩)
              have : i = m + 1 := by
                apply Classical.byContradiction
                intro hh
                exact hne (hall i (by omega))
              subst this
              exact ⟨m, by rw [hall m (Nat.le_refl _)]; exact hne, hall⟩
        exact least j ⟨i, hi, hne⟩
    · exact ih e

/-- the kinds of steps of a calm run during a GC -/
def StepKind (c : Cfg) (s s' : State) (a : Option Act) : Prop :=
  s' = s ∨ (∃ a', a = some a' ∧ QuietEff c s a' s') ∨
  (∃ w tag, a = some (.park w tag) ∧ s.parked + 1 = c.n ∧ step c s (.park w tag) = some s')

theorem FiniteSpawn.shift {tr : Nat → State} (h : FiniteSpawn tr) (K : Nat) : FiniteSpawn (fun j => tr (K + j)) := by
  obtain ⟨N, hN⟩ := h; exact ⟨N, fun j => hN (K + j)⟩
theorem FiniteEnv.shift {act : Nat → Option Act} (h : FiniteEnv act) (K : Nat) : FiniteEnv (fun j => act (K + j)) := by
  obtain ⟨K0, h0⟩ := h; exact ⟨K0, fun j a hj ha => h0 (K + j) a (by omega) ha⟩
theorem NoAssert.shift {c : Cfg} {tr : Nat → State} (h : NoAssert c tr) (K : Nat) : NoAssert c (fun j => tr (K + j)) :=
  fun j => h (K + j)

/-- **a GC in progress completes**: `gcDone` changes -/
theorem gc_done_changes {c : Cfg} {tr : Nat → State} {act : Nat → Option Act}
    (hn : 0 < c.n) (hmut : c.mutAddOpen = false) (hu : c.unconIdx < c.L)
    (R : FairRun c tr act) (hN : FiniteSpawn tr) (hE : FiniteEnv act) (hA : NoAssert c tr) (hP : Pending c (tr 0))
    (hc : (tr 0).current = some .gc) : ∃ j, (tr j).gcDone ≠ (tr 0).gcDone := by
  apply Classical.byContradiction
  intro hno
  have hg : ∀ j, (tr j).gcDone = (tr 0).gcDone := fun j => Classical.byContradiction (fun h => hno ⟨j, h⟩)
  have hg1 : ∀ j, (tr (j+1)).gcDone = (tr j).gcDone := fun j => by rw [hg (j+1), hg j]
  -- the Gc goal stays current
  have hcur : ∀ j, (tr j).current = some .gc := by
    intro j
    induction j with
    | zero => exact hc
    | succ j ih =>
      cases ha : act j with
      | none => rw [R.stutter_at ha]; exact ih
      | some a => exact current_gc_step hn (R.reach j) ih (R.step_at ha) (hg1 j)
  have hnx : ∀ j, NoExit (tr j) := by
    intro j g hgc; rw [hcur j] at hgc; injection hgc with hgc; subst hgc; rfl
  have hpend : ∀ j, Pending c (tr j) := by
    intro j
    induction j with
    | zero => exact hP
    | succ j ih =>
      cases ha : act j with
      | none => rw [R.stutter_at ha]; exact ih
      | some a =>
        by_cases hl : IsLastPark c (tr j) (some a)
        · obtain ⟨w, tag, e, _⟩ := hl
          injection e with e; subst e
          refine ⟨Or.inr (hcur (j+1)), hnx (j+1), fun x hx => ?_⟩
          by_cases e : x = w
          · subst e
            rcases step_park_self (R.step_at ha) with h | h | h <;> rw [h] <;> simp
          · rcases step_park_other (R.step_at ha) e with h | ⟨_, h⟩
            · rw [h]; exact ih.2.2 x hx
            · rw [h]; simp
        · exact pending_step hn (R.reach j) ih (R.step_at ha) hl
  obtain ⟨K, hconst, hK2, hnoexec⟩ := eventually_calm hu R hN hE
  -- every step after `K` is a stutter, a quiet step, or the last parker's `park`
  have kinds : ∀ j, K ≤ j → StepKind c (tr j) (tr (j+1)) (act j) := by
    intro j hj
    cases ha : act j with
    | none => exact Or.inl (R.stutter_at ha)
    | some a =>
      by_cases hl : ∃ w tag, a = .park w tag ∧ (tr j).parked + 1 = c.n
      · obtain ⟨w, tag, rfl, hl⟩ := hl
        exact Or.inr (Or.inr ⟨w, tag, rfl, hl, R.step_at ha⟩)
      · have hs := R.step_at ha
        have hq := quiet_cases hs (hK2 j a hj ha) (hconst j hj).1 (hconst j hj).2 (hnoexec j hj) hl
        exact Or.inr (Or.inl ⟨a, rfl, quiet_effect hs hq (reachable_invE hn (R.reach j)).2 (hnx j)⟩)
  -- what the last parker's `park` does to buckets and designated queues
  have lastpark : ∀ j w tag, (tr j).parked + 1 = c.n → step c (tr j) (.park w tag) = some (tr (j+1)) →
      ∃ s1 r, onLastParked c { tr j with parked := (tr j).parked + 1, trace := [] } tag = some (s1, r) ∧
        s1.gcDone = (tr j).gcDone ∧ (tr (j+1)).bkt = s1.bkt ∧ (tr (j+1)).desig = (tr j).desig := by
    intro j w tag hl hs
    obtain ⟨_, _, _, hcase⟩ := step_park_cases hs
    rcases hcase with ⟨hnl, _⟩ | ⟨_, s1, r, hlp, he⟩
    · exact absurd hl hnl
    · have f := frame_onLastParked c _ _ _ _ hlp
      refine ⟨s1, r, hlp, ?_, by rw [he], ?_⟩
      · have : (tr (j+1)).gcDone = s1.gcDone := by rw [he]
        rw [← this]; exact hg1 j
      · have : (tr (j+1)).desig = s1.desig := by rw [he]
        rw [this, f.desig]
  have hdesig : ∀ j, K ≤ j → (tr (j+1)).desig = (tr j).desig := by
    intro j hj
    rcases kinds j hj with e | ⟨a, _, he⟩ | ⟨w, tag, _, hl, hs⟩
    · rw [e]
    · exact quietEff_desig he
    · obtain ⟨_, _, _, _, _, hd⟩ := lastpark j w tag hl hs; exact hd
  have hflags : ∀ j, K ≤ j → ∀ b, (((tr j).bkt b).isOpen = true → ((tr (j+1)).bkt b).isOpen = true) ∧
      (((tr j).bkt b).sentinel = none → ((tr (j+1)).bkt b).sentinel = none) := by
    intro j hj b
    rcases kinds j hj with e | ⟨a, _, he⟩ | ⟨w, tag, _, hl, hs⟩
    · rw [e]; exact ⟨id, id⟩
    · obtain ⟨h1, h2⟩ := quietEff_flags he b; rw [h1, h2]; exact ⟨id, id⟩
    · obtain ⟨s1, r, hlp, hgd, hb, _⟩ := lastpark j w tag hl hs
      rw [hb]
      exact onLastParked_gc_mono hlp (hcur j) hgd b
  -- the flags of every bucket are eventually constant
  have hopenC : ∀ b, b < c.L → ∃ J, ∀ j, J ≤ j → ((tr (K + j + 1)).bkt b).isOpen = ((tr (K + j)).bkt b).isOpen := by
    intro b _
    obtain ⟨J, hJ⟩ := bool_mono_const (fun j => ((tr (K + j)).bkt b).isOpen) (fun j h => (hflags (K + j) (by omega) b).1 h)
    exact ⟨J, fun j hj => by have h1 := hJ j hj; have h2 := hJ (j+1) (by omega); rw [h1]; exact h2⟩
  have hsentC : ∀ b, b < c.L → ∃ J, ∀ j, J ≤ j →
      ((tr (K + j + 1)).bkt b).sentinel.isNone = ((tr (K + j)).bkt b).sentinel.isNone := by
    intro b _
    obtain ⟨J, hJ⟩ := bool_mono_const (fun j => ((tr (K + j)).bkt b).sentinel.isNone)
      (fun j h => by
        have h0 : ((tr (K + j)).bkt b).sentinel = none := by simpa using h
        have := (hflags (K + j) (by omega) b).2 h0
        show ((tr (K + j + 1)).bkt b).sentinel.isNone = true
        rw [this]; rfl)
    exact ⟨J, fun j hj => by have h1 := hJ j hj; have h2 := hJ (j+1) (by omega); rw [h1]; exact h2⟩
  obtain ⟨J1, hJ1⟩ := eventually_forall_lt c.L _ hopenC
  obtain ⟨J2, hJ2⟩ := eventually_forall_lt c.L _ hsentC
  -- a last parker after that point can only have found designated work
  let K3 := K + max J1 J2
  obtain ⟨j1, ⟨w, tag, hact, hlast⟩, _⟩ := last_park_eventually hn hmut hu (R.shift K3) (hN.shift K3) (hE.shift K3)
    (hA.shift K3) (hpend K3)
  have hm : K ≤ K3 + j1 := by omega
  have hs : step c (tr (K3 + j1)) (.park w tag) = some (tr (K3 + j1 + 1)) := R.step_at hact
  obtain ⟨s1, r, hlp, hgd, hb, _⟩ := lastpark (K3 + j1) w tag hlast hs
  have hidx : K3 + j1 = K + (max J1 J2 + j1) := by omega
  rcases onLastParked_gc_cases hlp (hcur (K3 + j1)) hgd with ⟨hd, hs1, hr⟩ | ⟨b, hbL, h1, h2⟩ | ⟨b, hbL, h1, h2⟩
  · -- designated work for some worker `x`
    subst hs1; subst hr
    obtain ⟨x, hx, hdx⟩ := hasDesignated_true hd
    have hs' := step_park_wakeAll hs hlast hlp
    obtain ⟨hw, hpcw, _, _⟩ := step_park_cases hs
    have hA' := reachable_invA (R.reach (K3 + j1))
    -- `x` is woken or at its loop head after the step
    have hpcx : (tr (K3 + j1 + 1)).pc x = .woken ∨ (tr (K3 + j1 + 1)).pc x = .polling [] := by
      rw [hs']
      by_cases e : x = w
      · subst e; right
        rw [afterUnpark_noExit x (by intro g hgc; exact hnx (K3 + j1) g hgc)]
        exact setPc_pc_self _ _ _
      · left
        rw [afterUnpark_pc_other e]
        have hpar := countW_all_but c.n (fun y => ((tr (K3 + j1)).pc y).isParked) w hw (by simp [hpcw, PC.isParked])
          (by have := hA'.parked_eq; unfold parkedCount at this; omega) x hx e
        show (notifyAll _).pc x = _
        simp only [notifyAll]
        cases hp : (tr (K3 + j1)).pc x <;> rw [hp] at hpar <;> simp_all [PC.isParked]
    have hdes : ∀ d, (tr (K3 + j1 + 1 + d)).desig x ≠ [] := by
      intro d
      induction d with
      | zero => rw [hdesig (K3 + j1) hm]; exact hdx
      | succ d ih => rw [show K3 + j1 + 1 + (d + 1) = (K3 + j1 + 1 + d) + 1 by omega, hdesig _ (by omega)]; exact ih
    have hdes' : ∀ m, K3 + j1 + 1 ≤ m → (tr m).desig x ≠ [] := by
      intro m hm'
      have := hdes (m - (K3 + j1 + 1))
      rwa [show K3 + j1 + 1 + (m - (K3 + j1 + 1)) = m by omega] at this
    -- `x` reaches its loop head
    have hpoll : ∃ m, K3 + j1 + 1 ≤ m ∧ (tr m).pc x = .polling [] := by
      rcases hpcx with hwk | hpl
      · obtain ⟨m, hm', _, a, ha, hmem⟩ := wf1 R (.wake x) (fun m => (tr m).pc x = .woken) (K3 + j1 + 1) hwk
          (by
            intro m hm' hPm hnt
            rcases kinds m (by omega) with e | ⟨a, ha, he⟩ | ⟨w', tag', ha, _, hs2⟩
            · rw [e]; exact hPm
            · rcases quietEff_pc he x with h | ⟨k, seen', _, hp1, _⟩ | ⟨b, p, sn, _, _, _, hpw⟩ | ⟨seen', _, hp1, _⟩ |
                  ⟨tag, _, hpw⟩ | ⟨rfl, _⟩
              · rw [h]; exact hPm
              · rw [hPm] at hp1; cases hp1
              · rw [hPm] at hpw; cases hpw
              · rw [hPm] at hp1; cases hp1
              · rw [hPm] at hpw; cases hpw
              · exact absurd ⟨_, ha, rfl⟩ hnt
            · have e : x ≠ w' := by
                intro e; subst e
                obtain ⟨_, hp, _, _⟩ := step_park_cases hs2
                rw [hPm] at hp; cases hp
              rcases step_park_other hs2 e with h | ⟨h, _⟩
              · rw [h]; exact hPm
              · rw [hPm] at h; cases h)
          (by
            intro m _ hPm
            refine ⟨.wake x, rfl, ?_⟩
            have hAm := reachable_invA (R.reach m)
            have hpos : 0 < (tr m).parked := by
              rw [hAm.parked_eq]
              exact countW_pos c.n _ x hx (by rw [hPm]; rfl)
            simp [step, hx, hPm, hpos])
        simp only [FairAct.mem] at hmem; subst hmem
        have hs3 : step c (tr m) (.wake x) = some (tr (m+1)) := R.step_at ha
        have hq := quiet_cases hs3 rfl (hconst m (by omega)).1 (hconst m (by omega)).2 (hnoexec m (by omega))
          (by intro ⟨_, _, e', _⟩; cases e')
        exact ⟨m + 1, by omega, quietEff_wake (quiet_effect hs3 hq (reachable_invE hn (R.reach m)).2 (hnx m))⟩
      · exact ⟨K3 + j1 + 1, Nat.le_refl _, hpl⟩
    obtain ⟨m3, hm3, hp3⟩ := hpoll
    -- from then on `x` can take its designated packet, forever: fairness makes it do so — a packet starts
    obtain ⟨m4, hm4, _, a, ha, hmem⟩ := wf1 R (.take x) (fun m => DesigCov (tr m) x) m3
      ⟨hdes' m3 hm3, [], hp3, by simp⟩
      (by
        intro m hm' hPm _
        rcases kinds m (by omega) with e | ⟨a, ha, he⟩ | ⟨w', tag', ha, _, hs2⟩
        · rw [e]; exact hPm
        · exact desigCov_stable he hPm
        · obtain ⟨hd0, seen, hpc, hns⟩ := hPm
          have e : x ≠ w' := by
            intro e; subst e
            obtain ⟨_, hp, _, _⟩ := step_park_cases hs2
            rw [hpc] at hp; cases hp
          refine ⟨hdes' (m+1) (by omega), seen, ?_, hns⟩
          rcases step_park_other hs2 e with h | ⟨h, _⟩
          · rw [h]; exact hpc
          · rw [hpc] at h; cases h)
      (by
        intro m _ ⟨hne, seen, hpc, hns⟩
        cases hdv : (tr m).desig x with
        | nil => exact absurd hdv hne
        | cons p l =>
          refine ⟨.popDesig x p, Or.inr (Or.inr (Or.inl ⟨p, rfl⟩)), ?_⟩
          simp [step, hpc, hx, hdv])
    -- the step at `m4` starts a packet, but no packet starts after `K`
    have hs4 := R.step_at ha
    have hq := quiet_cases hs4 (hK2 m4 a (by omega) ha) (hconst m4 (by omega)).1 (hconst m4 (by omega)).2
      (hnoexec m4 (by omega))
      (by
        intro ⟨_, _, e', _⟩; subst e'
        simp only [FairAct.mem] at hmem
        rcases hmem with ⟨_, _, e⟩ | ⟨_, e⟩ | ⟨_, e⟩ | ⟨_, _, e⟩ <;> cases e)
    exact quietEff_not_take (quiet_effect hs4 hq (reachable_invE hn (R.reach m4)).2 (hnx m4)) x hmem
  · -- a sentinel slot was emptied: contradicts constancy
    have := hJ2 b hbL (max J1 J2 + j1) (by omega)
    rw [← hidx] at this
    rw [hb, h2] at this
    have h1' : ((tr (K3 + j1)).bkt b).sentinel ≠ none := h1
    cases hsn : ((tr (K3 + j1)).bkt b).sentinel with
    | none => exact h1' hsn
    | some p => rw [hsn] at this; cases this
  · -- a closed bucket was opened: contradicts constancy
    have := hJ1 b hbL (max J1 J2 + j1) (by omega)
    rw [← hidx] at this
    rw [hb, h2] at this
    have h1' : ((tr (K3 + j1)).bkt b).isOpen = false := h1
    rw [h1'] at this; cases this

/-! ## from the request to the completed GC -/

theorem exists_least (P : Nat → Prop) (h : ∃ j, P j) : ∃ j, P j ∧ ∀ i, i < j → ¬ P i := by
  obtain ⟨j, hj⟩ := h
  have key : ∀ m, (∃ i, i ≤ m ∧ P i) → ∃ j, P j ∧ ∀ i, i < j → ¬ P i := by
    intro m
    induction m with
    | zero =>
      intro ⟨i, hi, hp⟩
      have : i = 0 := by omega
      subst this
      exact ⟨0, hp, fun i hi => absurd hi (Nat.not_lt_zero i)⟩
    | succ m ih =>
      intro ⟨i, hi, hp⟩
      by_cases hm : ∃ i, i ≤ m ∧ P i
      · exact ih hm
      · have : i = m + 1 := by
          apply Classical.byContradiction
          intro hh
          exact hm ⟨i, by omega, hp⟩
        subst this
        exact ⟨m + 1, hp, fun i hi hpi => hm ⟨i, by omega, hpi⟩⟩
  exact key j ⟨j, Nat.le_refl _, hj⟩

/-- a step other than the last parker's `park`, while no exit goal is current, keeps the goal, the
requests and `gcDone` -/
theorem nonlast_step_frame {c : Cfg} (hn : 0 < c.n) {s s' : State} {a : Act} (hr : Reachable c s) (hnx : NoExit s)
    (hs : step c s a = some s') (hnl : ¬ IsLastPark c s (some a)) :
    s'.current = s.current ∧ (s.reqGc = true → s'.reqGc = true) ∧ (s.reqShutdown = true → s'.reqShutdown = true) ∧
    (s.reqFork = true → s'.reqFork = true) ∧ s'.gcDone = s.gcDone := by
  have hE := (reachable_invE hn hr).2
  by_cases hpk : ∃ w tag, a = .park w tag
  · obtain ⟨w, tag, rfl⟩ := hpk
    obtain ⟨hw, hpc, _, hcase⟩ := step_park_cases hs
    rcases hcase with ⟨_, rfl⟩ | ⟨hl, _⟩
    · exact ⟨rfl, id, id, id, rfl⟩
    · exact absurd ⟨w, tag, rfl, hl⟩ hnl
  have hsurrender : ∀ w, a ≠ .surrender w := by
    intro w e; subst e
    simp only [step] at hs
    split at hs
    · split at hs
      · rename_i hg
        obtain ⟨g, hg1, hg2⟩ := hE.exited w hg.1 hg.2
        have := hnx g hg1; rw [this] at hg2; cases hg2
      · cases hs
    · cases hs
  have hreq' : (s.reqGc = true → s'.reqGc = true) ∧ (s.reqShutdown = true → s'.reqShutdown = true) ∧
      (s.reqFork = true → s'.reqFork = true) := by
    rcases step_requests hs with h | h
    · exact absurd h hpk
    · exact h
  have hcur : s'.current = s.current := by
    rcases step_other_E c s s' a hs with h | ⟨w, rfl⟩ | ⟨w, rfl⟩ | rfl | ⟨hcur, _, _⟩
    · exact absurd h hpk
    · simp only [step] at hs
      split at hs
      · injection hs with hs; subst hs; rw [afterUnpark_current]
      · cases hs
    · exact absurd rfl (hsurrender w)
    · simp only [step] at hs
      split at hs
      · split at hs
        · injection hs with hs; subst hs; rfl
        · cases hs
      · cases hs
    · exact hcur
  have hgd : s'.gcDone = s.gcDone := by
    rcases step_other c s s' a hs with h | ⟨h, _, _⟩
    · exact absurd h hpk
    · exact h
  exact ⟨hcur, hreq'.1, hreq'.2.1, hreq'.2.2, hgd⟩

/-- the last parker finds a Gc request and no current goal: it starts the Gc goal -/
theorem step_lastpark_starts_gc {c : Cfg} {s s' : State} {w tag : Nat} (hs : step c s (.park w tag) = some s')
    (hlast : s.parked + 1 = c.n) (hcur : s.current = none) (hreq : s.reqGc = true) :
    s'.current = some .gc ∧ s'.gcDone = s.gcDone ∧ s'.gcStarted = s.gcStarted + 1 := by
  obtain ⟨_, _, _, hcase⟩ := step_park_cases hs
  rcases hcase with ⟨hnl, _⟩ | ⟨_, s1, r, hlp, he⟩
  · exact absurd hlast hnl
  · have h1 : s'.current = s1.current := by rw [he]
    have h2 : s'.gcDone = s1.gcDone := by rw [he]
    have h3 : s'.gcStarted = s1.gcStarted := by rw [he]
    rw [h1, h2, h3]
    unfold onLastParked at hlp
    simp only [hcur] at hlp
    unfold respond at hlp
    simp only [hreq, Option.isSome_none, Bool.false_eq_true, if_false, if_true] at hlp
    injection hlp with hlp; injection hlp with hl1 _; subst hl1
    exact ⟨rfl, rfl, rfl⟩

/-- a Gc request is pending or a Gc goal is current, no exit goal is current, every worker thread exists -/
def GcPending (c : Cfg) (s : State) : Prop :=
  (s.reqGc = true ∨ s.current = some .gc) ∧ NoExit s ∧ ∀ w, w < c.n → s.pc w ≠ .surrendered

theorem GcPending.pending {c : Cfg} {s : State} (h : GcPending c s) : Pending c s := by
  refine ⟨?_, h.2.1, h.2.2⟩
  rcases h.1 with h | h
  · left; simp [anyRequested, h]
  · exact Or.inr h

/-- **request → goal → completion** (core): from a pending Gc request or a Gc goal in progress, the run reaches
a state where the Gc goal is current with `gcDone` still unchanged, and later `gcDone` changes -/
theorem gc_request_completes {c : Cfg} {tr : Nat → State} {act : Nat → Option Act}
    (hn : 0 < c.n) (hmut : c.mutAddOpen = false) (hu : c.unconIdx < c.L)
    (R : FairRun c tr act) (hN : FiniteSpawn tr) (hE : FiniteEnv act) (hA : NoAssert c tr) (hP : GcPending c (tr 0)) :
    ∃ j0, (tr j0).current = some .gc ∧ (∀ i, i ≤ j0 → (tr i).gcDone = (tr 0).gcDone) ∧
      ∃ j, j0 ≤ j ∧ (tr j).gcDone ≠ (tr 0).gcDone := by
  obtain ⟨jl, hjl⟩ := last_park_eventually hn hmut hu R hN hE hA hP.pending
  obtain ⟨j0, hl0, hleast⟩ := exists_least (fun j => IsLastPark c (tr j) (act j)) ⟨jl, hjl.1⟩
  -- up to the first last-park nothing happens to the request / the goal / `gcDone`
  have hpre : ∀ i, i ≤ j0 → GcPending c (tr i) ∧ (tr i).gcDone = (tr 0).gcDone := by
    intro i
    induction i with
    | zero => intro _; exact ⟨hP, rfl⟩
    | succ i ih =>
      intro hi
      obtain ⟨hp, hg⟩ := ih (by omega)
      cases ha : act i with
      | none => rw [R.stutter_at ha]; exact ⟨hp, hg⟩
      | some a =>
        have hnl : ¬ IsLastPark c (tr i) (some a) := by rw [← ha]; exact hleast i (by omega)
        obtain ⟨f1, f2, _, _, f5⟩ := nonlast_step_frame hn (R.reach i) hp.2.1 (R.step_at ha) hnl
        have hp' := pending_step hn (R.reach i) hp.pending (R.step_at ha) hnl
        refine ⟨⟨?_, hp'.2.1, hp'.2.2⟩, by rw [f5]; exact hg⟩
        rcases hp.1 with h | h
        · exact Or.inl (f2 h)
        · exact Or.inr (by rw [f1]; exact h)
  obtain ⟨hp0, hg0⟩ := hpre j0 (Nat.le_refl _)
  obtain ⟨w, tag, hact, hlast⟩ := hl0
  have hs := R.step_at hact
  by_cases hc : (tr j0).current = some .gc
  · -- the goal is already current at `j0`
    obtain ⟨j, hj⟩ := gc_done_changes hn hmut hu (R.shift j0) (hN.shift j0) (hE.shift j0) (hA.shift j0) hp0.pending hc
    exact ⟨j0, hc, fun i hi => (hpre i hi).2, j0 + j, by omega, by rw [← hg0]; exact hj⟩
  · -- the last parker at `j0` starts it
    have hreq : (tr j0).reqGc = true := by
      rcases hp0.1 with h | h
      · exact h
      · exact absurd h hc
    have hnone : (tr j0).current = none := by
      cases hcu : (tr j0).current with
      | none => rfl
      | some g =>
        have := hp0.2.1 g hcu
        cases g
        · exact absurd hcu hc
        · cases this
        · cases this
    obtain ⟨hc1, hg1, _⟩ := step_lastpark_starts_gc hs hlast hnone hreq
    have hnx1 : NoExit (tr (j0 + 1)) := by
      intro g hgc; rw [hc1] at hgc; injection hgc with hgc; subst hgc; rfl
    have hp1 : Pending c (tr (j0 + 1)) := by
      refine ⟨Or.inr hc1, hnx1, fun x hx => ?_⟩
      by_cases e : x = w
      · subst e
        rcases step_park_self hs with h | h | h <;> rw [h] <;> simp
      · rcases step_park_other hs e with h | ⟨_, h⟩
        · rw [h]; exact hp0.2.2 x hx
        · rw [h]; simp
    obtain ⟨j, hj⟩ := gc_done_changes hn hmut hu (R.shift (j0 + 1)) (hN.shift (j0 + 1)) (hE.shift (j0 + 1))
      (hA.shift (j0 + 1)) hp1 hc1
    refine ⟨j0 + 1, hc1, fun i hi => ?_, j0 + 1 + j, by omega, by rw [← hg0, ← hg1]; exact hj⟩
    by_cases e : i ≤ j0
    · exact (hpre i e).2
    · have : i = j0 + 1 := by omega
      subst this; rw [hg1]; exact hg0

/-! ## the exit protocol (C16 liveness) -/

/-- a set of "late" program points: never a polling / running / parking / waiting worker -/
structure LatePred (q : PC → Bool) : Prop where
  polling : ∀ l, q (.polling l) = false
  exec : ∀ p, q (.exec p) = false
  parking : q .parking = false
  waiting : q .waiting = false

theorem q_keep {q : PC → Bool} {s t : State} {w' x : Nat} {p : PC} (hpc : t.pc = s.pc) (h : q (s.pc x) = true)
    (hsrc : q (s.pc w') = false) : q ((setPc t w' p).pc x) = true := by
  have e : x ≠ w' := by intro e; subst e; rw [h] at hsrc; cases hsrc
  simp only [setPc, e, if_false, hpc]; exact h

theorem notifyAll_late {q : PC → Bool} (hq : LatePred q) (s : State) (x : Nat) (h : q (s.pc x) = true) :
    q ((notifyAll s).pc x) = true := by
  simp only [notifyAll]; split
  · rename_i e; rw [e, hq.waiting] at h; cases h
  · exact h

theorem notifyOne_late {q : PC → Bool} (hq : LatePred q) {c : Cfg} {s s' : State} {y : Option Nat}
    (hs : notifyOne c s y = some s') (x : Nat) (h : q (s.pc x) = true) : q (s'.pc x) = true := by
  rcases notifyOne_cases hs with ⟨x0, _, _, hw, rfl⟩ | ⟨_, _, rfl⟩
  · exact q_keep (s := s) rfl h (by rw [hw]; exact hq.waiting)
  · exact h

/-- a worker at a late program point stays there until its own `wake` / `surrender`, or a respawn -/
theorem step_late_stable {q : PC → Bool} (hq : LatePred q) {c : Cfg} {s s' : State} {a : Act}
    (hs : step c s a = some s') (x : Nat) (h : q (s.pc x) = true) :
    q (s'.pc x) = true ∨ a = .wake x ∨ a = .surrender x ∨ a = .respawn := by
  cases a
  case respawn => exact Or.inr (Or.inr (Or.inr rfl))
  case park w' tag =>
    left
    by_cases e : x = w'
    · subst e
      obtain ⟨_, hp, _, _⟩ := step_park_cases hs
      rw [hp, hq.parking] at h; cases h
    · rcases step_park_other hs e with h1 | ⟨h1, _⟩
      · rw [h1]; exact h
      · rw [h1, hq.waiting] at h; cases h
  case wake w' =>
    by_cases e : x = w'
    · subst e; exact Or.inr (Or.inl rfl)
    · left
      simp only [step] at hs
      split at hs
      · injection hs with hs; subst hs
        rw [afterUnpark_pc_other e]; exact h
      · cases hs
  case surrender w' =>
    by_cases e : x = w'
    · subst e; exact Or.inr (Or.inr (Or.inl rfl))
    · left
      simp only [step] at hs
      split at hs
      · split at hs
        · have key : s'.pc = (setPc s w' .surrendered).pc := by
            split at hs <;> (injection hs with hs; subst hs; rfl)
          rw [key]; simp only [setPc, e, if_false]; exact h
        · cases hs
      · cases hs
  case makeRequest g y =>
    left
    simp only [step] at hs
    have hc : (consumePending s g).pc = s.pc := by unfold consumePending; split <;> rfl
    split at hs
    · cases hs
    · split at hs
      · split at hs
        · injection hs with hs; subst hs; rw [hc]; exact h
        · cases hs
      · have e : (setRequested (consumePending s g) g true).pc = s.pc := by cases g <;> exact hc
        exact notifyOne_late hq hs x (by rw [e]; exact h)
  case bucketNotifyOne w' b y =>
    left
    simp only [step] at hs
    split at hs
    · exact notifyOne_late hq hs x h
    · cases hs
  case mutNotifyOne b y =>
    left
    simp only [step] at hs
    split at hs
    · exact notifyOne_late hq hs x h
    · cases hs
  case bucketNotifyAll w' b =>
    left
    simp only [step] at hs
    split at hs
    · injection hs with hs; subst hs; exact notifyAll_late hq s x h
    · cases hs
  case wakeAll w' =>
    left
    simp only [step] at hs
    split at hs
    · injection hs with hs; subst hs; exact notifyAll_late hq s x h
    · cases hs
  case execEnd w' =>
    left
    simp only [step] at hs
    split at hs
    · rename_i p0 hpc
      split at hs
      · injection hs with hs; subst hs
        exact q_keep (s := s) rfl h (by rw [hpc]; exact hq.exec _)
      · cases hs
    · cases hs
  case batchMove w' b p =>
    left
    simp only [step] at hs
    split at hs
    · split at hs
      · injection hs with hs; subst hs; exact h
      · cases hs
    · rename_i seen hpc
      split at hs
      · injection hs with hs; subst hs
        exact q_keep (s := s) rfl h (by rw [hpc]; exact hq.polling _)
      · cases hs
    · cases hs
  case spurious w' =>
    left
    simp only [step] at hs
    split at hs
    · rename_i hg; injection hs with hs; subst hs
      exact q_keep (s := s) rfl h (by rw [hg.2]; exact hq.waiting)
    · cases hs
  case requestFlag =>
    left
    simp only [step] at hs
    split at hs <;> (injection hs with hs; subst hs; exact h)
  all_goals
    left
    simp only [step] at hs
    repeat' (split at hs)
    all_goals first
      | (injection hs with hs; subst hs; exact h)
      | (rename_i hpc _; injection hs with hs; subst hs
         exact q_keep (s := s) rfl h (by rw [hpc]; exact hq.polling _))
      | cases hs

def qWoken : PC → Bool | .woken => true | _ => false
def qExited : PC → Bool | .exited => true | _ => false
def qSurr : PC → Bool | .surrendered => true | _ => false
def qLate : PC → Bool | .woken | .exited | .surrendered => true | _ => false
theorem late_qWoken : LatePred qWoken := ⟨fun _ => rfl, fun _ => rfl, rfl, rfl⟩
theorem late_qExited : LatePred qExited := ⟨fun _ => rfl, fun _ => rfl, rfl, rfl⟩
theorem late_qSurr : LatePred qSurr := ⟨fun _ => rfl, fun _ => rfl, rfl, rfl⟩
theorem late_qLate : LatePred qLate := ⟨fun _ => rfl, fun _ => rfl, rfl, rfl⟩

/-! ## finite runs extended by stuttering are fair runs (used for the satisfiability examples) -/

/-- the states of the run `l` from `s`, then `s` repeated -/
def runStates (c : Cfg) : State → List Act → Nat → State
  | s, [], _ => s
  | s, _ :: _, 0 => s
  | s, a :: as, k+1 =>
    match step c s a with
    | some s' => runStates c s' as k
    | none => s

theorem runStates_zero (c : Cfg) (s : State) (l : List Act) : runStates c s l 0 = s := by
  cases l <;> rfl

theorem runStates_spec (c : Cfg) : ∀ (l : List Act) (s sf : State), exec c s l = some sf →
    (∀ k, StepOf c (runStates c s l k) (runStates c s l (k+1)) (l[k]?)) ∧
    (∀ k, l.length ≤ k → runStates c s l k = sf) := by
  intro l
  induction l with
  | nil =>
    intro s sf h
    simp only [exec] at h; injection h with h; subst h
    exact ⟨fun k => by simp [runStates, StepOf], fun k _ => rfl⟩
  | cons a as ih =>
    intro s sf h
    simp only [exec] at h
    cases hs : step c s a with
    | none => rw [hs] at h; cases h
    | some s1 =>
      rw [hs] at h
      obtain ⟨i1, i2⟩ := ih s1 sf h
      constructor
      · intro k
        cases k with
        | zero =>
          show StepOf c s (runStates c s (a :: as) 1) (some a)
          simp only [runStates, hs, runStates_zero]
          exact hs
        | succ k =>
          have := i1 k
          simp only [runStates, hs, List.getElem?_cons_succ]
          exact this
      · intro k hk
        cases k with
        | zero => simp at hk
        | succ k =>
          simp only [runStates, hs]
          exact i2 k (by simpa using hk)

theorem not_enabled_all_waiting {c : Cfg} {s : State} (h : ∀ w, w < c.n → s.pc w = .waiting) (f : FairAct) :
    ¬ Enabled c s f := by
  intro ⟨a, hm, he⟩
  have key : ∀ w, (w < c.n → False) ∨ s.pc w = .waiting := by
    intro w; by_cases hw : w < c.n
    · exact Or.inr (h w hw)
    · exact Or.inl hw
  cases f with
  | finish w =>
    simp only [FairAct.mem] at hm; subst hm
    rcases key w with hw | hw
    · cases hp : s.pc w <;> simp [step, hp] at he; exact hw he
    · simp [step, hw] at he
  | take w =>
    simp only [FairAct.mem] at hm
    rcases key w with hw | hw
    · rcases hm with ⟨b, p, rfl⟩ | ⟨p, rfl⟩ | ⟨p, rfl⟩ | ⟨v, p, rfl⟩ <;>
        (cases hp : s.pc w <;> simp [step, hp] at he; exact hw he.1)
    · rcases hm with ⟨b, p, rfl⟩ | ⟨p, rfl⟩ | ⟨p, rfl⟩ | ⟨v, p, rfl⟩ <;> simp [step, hw] at he
  | look w k =>
    simp only [FairAct.mem] at hm; subst hm
    rcases key w with hw | hw
    · cases hp : s.pc w <;> simp [step, hp] at he; exact hw he.1
    · simp [step, hw] at he
  | miss w =>
    simp only [FairAct.mem] at hm; subst hm
    rcases key w with hw | hw
    · cases hp : s.pc w <;> simp [step, hp] at he; exact hw he.1
    · simp [step, hw] at he
  | park w =>
    simp only [FairAct.mem] at hm; obtain ⟨tag, rfl⟩ := hm
    rcases key w with hw | hw
    · have : step c s (.park w tag) = none := by
        simp only [step]; rw [if_neg (fun hh => hw hh.1)]
      rw [this] at he; cases he
    · have : step c s (.park w tag) = none := by
        simp only [step]; rw [if_neg (fun hh => by rw [hw] at hh; cases hh.2.1)]
      rw [this] at he; cases he
  | wake w =>
    simp only [FairAct.mem] at hm; subst hm
    rcases key w with hw | hw
    · simp only [step] at he; rw [if_neg (fun hh => hw hh.1)] at he; cases he
    · simp [step, hw] at he
  | surrender w =>
    simp only [FairAct.mem] at hm; subst hm
    have : step c s (.surrender w) = none := by
      simp only [step]
      split
      · rcases key w with hw | hw
        · rw [if_neg (fun hh => hw hh.1)]
        · rw [if_neg (fun hh => by rw [hw] at hh; cases hh.2)]
      · rfl
    rw [this] at he; cases he

/-- a finite run that ends with every worker waiting, continued by stuttering, is a fair run -/
theorem fairRun_of_finite {c : Cfg} {s0 sf : State} {l : List Act} (hr : Reachable c s0) (he : exec c s0 l = some sf)
    (hw : ∀ w, w < c.n → sf.pc w = .waiting) : FairRun c (runStates c s0 l) (fun k => l[k]?) where
  start := by rw [runStates_zero]; exact hr
  next := (runStates_spec c l s0 sf he).1
  fair := fun f k => ⟨max k l.length, by omega, Or.inr (by
    rw [(runStates_spec c l s0 sf he).2 _ (by omega)]; exact not_enabled_all_waiting hw f)⟩

theorem runStates_forall {c : Cfg} {s sf : State} {l : List Act} (he : exec c s l = some sf) (P : State → Prop)
    (h1 : ∀ k, k < l.length → P (runStates c s l k)) (h2 : P sf) : ∀ j, P (runStates c s l j) := by
  intro j
  by_cases hj : j < l.length
  · exact h1 j hj
  · rw [(runStates_spec c l s sf he).2 j (by omega)]; exact h2

theorem exec_getD {c : Cfg} {s d : State} {l : List Act} (h : (exec c s l).isSome = true) :
    exec c s l = some ((exec c s l).getD d) := by
  cases e : exec c s l with
  | none => rw [e] at h; cases h
  | some x => rfl

end Mmtk.Sched
