import MmtkModel.Lemmas.Sched
import MmtkModel.Lemmas.SchedCount
/-!
# Fair runs of the scheduler model and the liveness lemmas (used by Props/C14, C16)

`FairRun c tr act`: an infinite run `tr 0 →(act 0) tr 1 →(act 1) …` (`act k = none` is a stutter step)
from a reachable state in which the *scheduler-loop* actions of every worker are weakly fair.
The fairness classes (`FairAct`) are, for each worker `w`:

* `finish w`   — `execEnd w`: a running packet terminates (packet execution is finite);
* `take w`     — some `pollBucket w · ·` / `popLocal w ·` / `popDesig w ·` / `steal w · ·`: a polling
                 worker that can get a packet eventually gets one;
* `look w k`   — `observeEmpty w k`: a polling worker eventually looks into every container;
* `miss w`, `park w` (any tag), `wake w`, `surrender w`.

Weak fairness of a class: it is not continuously enabled from some point on without being taken.
Everything else (what a running packet does, mutator / binding actions, spurious wake-ups) is
unconstrained by `FairRun`; the liveness theorems carry the explicit extra hypotheses
`FiniteSpawn`, `FiniteEnv`, `NoAssert`.
-/
namespace Mmtk.Sched

/-! ## fair runs -/

inductive FairAct
  | finish (w : Nat)
  | take (w : Nat)
  | look (w : Nat) (k : Cont)
  | miss (w : Nat)
  | park (w : Nat)
  | wake (w : Nat)
  | surrender (w : Nat)

def FairAct.mem : FairAct → Act → Prop
  | .finish w, a => a = .execEnd w
  | .take w, a => (∃ b p, a = .pollBucket w b p) ∨ (∃ p, a = .popLocal w p) ∨ (∃ p, a = .popDesig w p) ∨
      (∃ v p, a = .steal w v p)
  | .look w k, a => a = .observeEmpty w k
  | .miss w, a => a = .pollMiss w
  | .park w, a => ∃ tag, a = .park w tag
  | .wake w, a => a = .wake w
  | .surrender w, a => a = .surrender w

/-- some action of the class is enabled in `s` -/
def Enabled (c : Cfg) (s : State) (f : FairAct) : Prop := ∃ a, f.mem a ∧ (step c s a).isSome = true
/-- the action at position `j` belongs to the class -/
def Taken (act : Nat → Option Act) (j : Nat) (f : FairAct) : Prop := ∃ a, act j = some a ∧ f.mem a

/-- one step of a run: an enabled action, or a stutter -/
def StepOf (c : Cfg) (s s' : State) : Option Act → Prop
  | some a => step c s a = some s'
  | none => s' = s

structure FairRun (c : Cfg) (tr : Nat → State) (act : Nat → Option Act) : Prop where
  start : Reachable c (tr 0)
  next : ∀ k, StepOf c (tr k) (tr (k+1)) (act k)
  fair : ∀ (f : FairAct) (k : Nat), ∃ j, k ≤ j ∧ (Taken act j f ∨ ¬ Enabled c (tr j) f)

/-- mutator / binding actions and spurious wake-ups (everything that is not done by a GC worker
thread in its loop or inside a packet) -/
def Act.isEnv : Act → Bool
  | .spurious _ | .requestFlag | .makeRequest _ _ | .mutPush _ _ | .mutNotifyOne _ _ | .initSetEnabled _ _
  | .prepareSurrender | .respawn => true
  | _ => false

/-- from some point on only GC workers act (finitely many mutator actions and spurious wake-ups) -/
def FiniteEnv (act : Nat → Option Act) : Prop := ∃ K, ∀ j a, K ≤ j → act j = some a → a.isEnv = false
/-- finitely many packets are created along the run -/
def FiniteSpawn (tr : Nat → State) : Prop := ∃ N, ∀ j, (tr j).added ≤ N
/-- no debug assertion of `on_last_parked` / `inc_parked_workers` fires: a worker that is about to
park can always do so (the model disables `park` exactly where the code would panic) -/
def NoAssert (c : Cfg) (tr : Nat → State) : Prop :=
  ∀ j w, w < c.n → (tr j).pc w = .parking → ∃ tag, (step c (tr j) (.park w tag)).isSome = true

theorem reachable_step {c : Cfg} {s s' : State} {a : Act} (hr : Reachable c s) (hs : step c s a = some s') :
    Reachable c s' := by
  obtain ⟨run, h⟩ := hr
  refine ⟨run ++ [a], ?_⟩
  have : ∀ (l : List Act) (t : State), exec c t l = some s → exec c t (l ++ [a]) = some s' := by
    intro l
    induction l with
    | nil => intro t e; simp only [exec] at e; injection e with e; subst e; simp [exec, hs]
    | cons b l ih =>
      intro t e
      simp only [exec, List.cons_append] at e ⊢
      cases ht : step c t b with
      | none => rw [ht] at e; cases e
      | some t1 => rw [ht] at e; exact ih t1 e
  exact this run _ h

theorem FairRun.reach {c : Cfg} {tr : Nat → State} {act : Nat → Option Act} (R : FairRun c tr act) (k : Nat) :
    Reachable c (tr k) := by
  induction k with
  | zero => exact R.start
  | succ k ih =>
    have := R.next k
    cases ha : act k with
    | none => rw [ha] at this; simp only [StepOf] at this; rw [this]; exact ih
    | some a => rw [ha] at this; exact reachable_step ih this

/-- the suffix of a fair run is a fair run -/
theorem FairRun.shift {c : Cfg} {tr : Nat → State} {act : Nat → Option Act} (R : FairRun c tr act) (K : Nat) :
    FairRun c (fun j => tr (K + j)) (fun j => act (K + j)) where
  start := R.reach K
  next := fun k => R.next (K + k)
  fair := fun f k => by
    obtain ⟨j, hj, h⟩ := R.fair f (K + k)
    refine ⟨j - K, by omega, ?_⟩
    have e : K + (j - K) = j := by omega
    unfold Taken at *
    simp only [e]
    exact h

/-- the rule WF1: if `P` holds at `k`, is stable as long as the class `f` is not taken, and implies that
`f` is enabled, then `f` is taken at some later position where `P` still holds. -/
theorem wf1 {c : Cfg} {tr : Nat → State} {act : Nat → Option Act} (R : FairRun c tr act) (f : FairAct)
    (P : Nat → Prop) (k : Nat) (h0 : P k)
    (hstab : ∀ j, k ≤ j → P j → ¬ Taken act j f → P (j+1))
    (hen : ∀ j, k ≤ j → P j → Enabled c (tr j) f) :
    ∃ j, k ≤ j ∧ P j ∧ Taken act j f := by
  obtain ⟨j, hkj, h⟩ := R.fair f k
  have key0 : ∀ d, (∃ i, k ≤ i ∧ P i ∧ Taken act i f) ∨ P (k + d) := by
    intro d
    induction d with
    | zero => exact Or.inr h0
    | succ d ih =>
      rcases ih with h1 | h1
      · exact Or.inl h1
      · by_cases ht : Taken act (k + d) f
        · exact Or.inl ⟨k + d, by omega, h1, ht⟩
        · exact Or.inr (hstab (k + d) (by omega) h1 ht)
  have key : ∀ m, k ≤ m → (∃ i, k ≤ i ∧ P i ∧ Taken act i f) ∨ P m := by
    intro m hm
    have := key0 (m - k)
    rwa [show k + (m - k) = m by omega] at this
  rcases key j hkj with h1 | h1
  · exact h1
  · rcases h with h | h
    · exact ⟨j, hkj, h1, h⟩
    · exact absurd (hen j hkj h1) h

/-- a monotone bounded sequence of naturals is eventually constant -/
theorem mono_bounded_const (f : Nat → Nat) (B : Nat) (hm : ∀ j, f j ≤ f (j+1)) (hb : ∀ j, f j ≤ B) :
    ∃ K, ∀ j, K ≤ j → f j = f K := by
  have mono : ∀ k j, k ≤ j → f k ≤ f j := by
    intro k j h
    have : ∀ d, f k ≤ f (k + d) := by
      intro d
      induction d with
      | zero => exact Nat.le_refl _
      | succ d ih => exact Nat.le_trans ih (hm (k + d))
    have := this (j - k)
    rwa [show k + (j - k) = j by omega] at this
  have key : ∀ d k, B - f k ≤ d → ∃ K, ∀ j, K ≤ j → f j = f K := by
    intro d
    induction d with
    | zero =>
      intro k hk
      refine ⟨k, fun j hj => ?_⟩
      have := mono k j hj; have := hb j; have := hb k; omega
    | succ d ih =>
      intro k hk
      by_cases h : ∃ j, k ≤ j ∧ f k < f j
      · obtain ⟨j, _, hlt⟩ := h
        exact ih j (by have := hb j; omega)
      · refine ⟨k, fun j hj => ?_⟩
        have := mono k j hj
        have : ¬ f k < f j := fun hlt => h ⟨j, hj, hlt⟩
        omega
  exact key (B - f 0) 0 (Nat.le_refl _)

/-- finitely many eventually-always facts hold together eventually -/
theorem eventually_forall_lt (n : Nat) (Q : Nat → Nat → Prop) (h : ∀ w, w < n → ∃ J, ∀ j, J ≤ j → Q w j) :
    ∃ J, ∀ w, w < n → ∀ j, J ≤ j → Q w j := by
  induction n with
  | zero => exact ⟨0, fun w hw => absurd hw (Nat.not_lt_zero w)⟩
  | succ n ih =>
    obtain ⟨J1, h1⟩ := ih (fun w hw => h w (Nat.lt_succ_of_lt hw))
    obtain ⟨J2, h2⟩ := h n (Nat.lt_succ_self n)
    refine ⟨max J1 J2, fun w hw j hj => ?_⟩
    by_cases e : w = n
    · subst e; exact h2 j (by omega)
    · exact h1 w (by omega) j (by omega)

/-! ## quiet steps: no packet starts or ends, nobody runs a packet, no environment action, not the last park -/

inductive QuietAct (c : Cfg) (s : State) : Act → Prop
  | observe (w : Nat) (k : Cont) : QuietAct c s (.observeEmpty w k)
  | batch (w b : Nat) (p : Pkt) (seen : List Cont) : s.pc w = .polling seen → QuietAct c s (.batchMove w b p)
  | miss (w : Nat) : QuietAct c s (.pollMiss w)
  | park (w tag : Nat) : s.parked + 1 ≠ c.n → QuietAct c s (.park w tag)
  | wake (w : Nat) : QuietAct c s (.wake w)
  | surrender (w : Nat) : QuietAct c s (.surrender w)

theorem quiet_cases {c : Cfg} {s s' : State} {a : Act} (hs : step c s a = some s') (henv : a.isEnv = false)
    (hst : s'.started = s.started) (hen : s'.ended = s.ended)
    (hex : ∀ w, w < c.n → (s.pc w).isExec = false)
    (hlp : ¬ (∃ w tag, a = .park w tag ∧ s.parked + 1 = c.n)) : QuietAct c s a := by
  cases a
  case observeEmpty w k => exact .observe w k
  case pollMiss w => exact .miss w
  case wake w => exact .wake w
  case surrender w => exact .surrender w
  case park w tag => exact .park w tag (fun h => hlp ⟨w, tag, rfl, h⟩)
  case batchMove w b p =>
    simp only [step] at hs
    split at hs
    · rename_i p0 hpc
      split at hs
      · rename_i hg; have := hex w hg.1; rw [hpc] at this; cases this
      · cases hs
    · rename_i seen hpc; exact .batch w b p seen hpc
    · cases hs
  case execEnd w =>
    simp only [step] at hs
    split at hs
    · rename_i p0 hpc
      split at hs
      · rename_i hg; have := hex w hg; rw [hpc] at this; cases this
      · cases hs
    · cases hs
  case pollBucket w b p =>
    exfalso; simp only [step] at hs
    split at hs
    · split at hs
      · injection hs with hs; subst hs; simp at hst
      · cases hs
    · cases hs
  case popLocal w p =>
    exfalso; simp only [step] at hs
    split at hs
    · split at hs
      · injection hs with hs; subst hs; simp at hst
      · cases hs
    · cases hs
  case popDesig w p =>
    exfalso; simp only [step] at hs
    split at hs
    · split at hs
      · injection hs with hs; subst hs; simp at hst
      · cases hs
    · cases hs
  case steal w v p =>
    exfalso; simp only [step] at hs
    split at hs
    · split at hs
      · injection hs with hs; subst hs; simp at hst
      · cases hs
    · cases hs
  case spurious w => cases henv
  case requestFlag => cases henv
  case makeRequest g x => cases henv
  case mutPush b tag => cases henv
  case mutNotifyOne b x => cases henv
  case initSetEnabled b v => cases henv
  case prepareSurrender => cases henv
  case respawn => cases henv
  all_goals
    exfalso
    simp only [step] at hs
    split at hs
    · rename_i hg; have := hex _ hg.1
      first
        | (rw [hg.2.1] at this; cases this)
        | (rw [hg.2] at this; cases this)
    · cases hs

/-- no exit goal is current -/
def NoExit (s : State) : Prop := ∀ g, s.current = some g → g.isExit = false

/-- the effect of a quiet step while no exit goal is current -/
inductive QuietEff (c : Cfg) (s : State) : Act → State → Prop
  | observe (w : Nat) (k : Cont) (seen : List Cont) : w < c.n → s.pc w = .polling seen → looksEmpty s w k = true →
      QuietEff c s (.observeEmpty w k) (setPc s w (.polling (k :: seen)))
  | batch (w b : Nat) (p : Pkt) (seen : List Cont) : w < c.n → b < c.L → s.pc w = .polling seen →
      (s.bkt b).enabled = true → (s.bkt b).isOpen = true → p ∈ (s.bkt b).q →
      QuietEff c s (.batchMove w b p)
        (setPc (setBuf (setBkt s b { s.bkt b with q := removeP (s.bkt b).q p }) w (p :: s.buf w)) w (.polling []))
  | miss (w : Nat) (seen : List Cont) : w < c.n → s.pc w = .polling seen → (∀ k, k ∈ allConts c → k ∈ seen) →
      QuietEff c s (.pollMiss w) (setPc s w .parking)
  | park (w tag : Nat) : w < c.n → s.pc w = .parking →
      QuietEff c s (.park w tag) (setPc { s with parked := s.parked + 1, trace := [] } w .waiting)
  | wake (w : Nat) : w < c.n → s.pc w = .woken → 0 < s.parked →
      QuietEff c s (.wake w) (setPc { s with parked := s.parked - 1 } w (.polling []))

theorem afterUnpark_noExit {s : State} (w : Nat) (h : NoExit s) : afterUnpark s w = setPc s w (.polling []) := by
  unfold afterUnpark
  split
  · rename_i hc; have := h _ hc; cases this
  · rename_i hc; have := h _ hc; cases this
  · rfl

theorem quiet_effect {c : Cfg} {s s' : State} {a : Act} (hs : step c s a = some s') (hq : QuietAct c s a)
    (hE : InvE c s) (hnx : NoExit s) : QuietEff c s a s' := by
  cases hq with
  | observe w k =>
    simp only [step] at hs
    split at hs
    · rename_i seen hpc
      split at hs
      · rename_i hg; injection hs with hs; subst hs; exact .observe w k seen hg.1 hpc hg.2
      · cases hs
    · cases hs
  | batch w b p seen hpc =>
    simp only [step] at hs
    rw [hpc] at hs
    simp only at hs
    split at hs
    · rename_i hg; injection hs with hs; subst hs
      exact .batch w b p seen hg.1 hg.2.1 hpc hg.2.2.1 hg.2.2.2.1 hg.2.2.2.2
    · cases hs
  | miss w =>
    simp only [step] at hs
    split at hs
    · rename_i seen hpc
      split at hs
      · rename_i hg; injection hs with hs; subst hs
        refine .miss w seen hg.1 hpc (fun k hk => ?_)
        have := hg.2
        rw [List.all_eq_true] at this
        simpa using this k hk
      · cases hs
    · cases hs
  | park w tag hnl =>
    obtain ⟨hw, hpc, _, hcase⟩ := step_park_cases hs
    rcases hcase with ⟨_, rfl⟩ | ⟨hl, _⟩
    · exact .park w tag hw hpc
    · exact absurd hl hnl
  | wake w =>
    simp only [step] at hs
    split at hs
    · rename_i hg; injection hs with hs; subst hs
      rw [afterUnpark_noExit w (s := { s with parked := s.parked - 1 }) hnx]
      exact .wake w hg.1 hg.2.1 hg.2.2
    · cases hs
  | surrender w =>
    exfalso
    simp only [step] at hs
    split at hs
    · split at hs
      · rename_i hg
        obtain ⟨g, hg1, hg2⟩ := hE.exited w hg.1 hg.2
        have := hnx g hg1; rw [this] at hg2; cases hg2
      · cases hs
    · cases hs

end Mmtk.Sched
