/-!
# Exhaustive checks over a range of naturals, by divide and conquer

`decide` on `∀ n < N, p n` unfolds `Nat.decidableBallLT` linearly and overflows the kernel's
recursion depth beyond ~100 cases. `checkRange f lo hi` evaluates `f` on `lo, …, hi-1` splitting the
interval in halves (recursion depth `log₂ (hi-lo)`); `checkRange_sound` turns a `true` result —
obtained by kernel evaluation, `by decide +kernel` — into the universally quantified statement.
Core Lean only.
-/
namespace Mmtk.CheckRange

/-- `f n = true` for all `lo ≤ n < hi`, evaluated by bisection. `fuel` bounds the depth: `fuel ≥
log₂ (hi - lo) + 1` suffices; with too little fuel the answer is `false` (sound, not complete). -/
def checkRangeFuel (f : Nat → Bool) : Nat → Nat → Nat → Bool
  | 0, lo, hi => decide (hi ≤ lo)
  | fuel + 1, lo, hi =>
    if hi ≤ lo then true
    else if hi = lo + 1 then f lo
    else
      let mid := (lo + hi) / 2
      checkRangeFuel f fuel lo mid && checkRangeFuel f fuel mid hi

theorem checkRangeFuel_sound (f : Nat → Bool) :
    ∀ fuel lo hi, checkRangeFuel f fuel lo hi = true → ∀ n, lo ≤ n → n < hi → f n = true := by
  intro fuel
  induction fuel with
  | zero =>
    intro lo hi h n h1 h2
    simp [checkRangeFuel] at h
    omega
  | succ fuel ih =>
    intro lo hi h n h1 h2
    unfold checkRangeFuel at h
    split at h
    · omega
    · split at h
      · have : n = lo := by omega
        subst this; exact h
      · simp only [Bool.and_eq_true] at h
        by_cases hn : n < (lo + hi) / 2
        · exact ih lo _ h.1 n h1 hn
        · exact ih _ hi h.2 n (by omega) h2

/-- `f n` holds for all `lo ≤ n < hi` (bisection with 64 levels: enough for any `hi < 2^64`). -/
def checkRange (f : Nat → Bool) (lo hi : Nat) : Bool := checkRangeFuel f 64 lo hi

theorem checkRange_sound {f : Nat → Bool} {lo hi : Nat} (h : checkRange f lo hi = true) :
    ∀ n, lo ≤ n → n < hi → f n = true :=
  checkRangeFuel_sound f 64 lo hi h

/-- Propositional form: a decidable predicate checked on a range. -/
theorem forall_of_checkRange {p : Nat → Prop} [DecidablePred p] {lo hi : Nat}
    (h : checkRange (fun n => decide (p n)) lo hi = true) : ∀ n, lo ≤ n → n < hi → p n := by
  intro n h1 h2
  have := checkRange_sound h n h1 h2
  exact of_decide_eq_true this

/-- A function that does not decrease on adjacent arguments is monotone on the range. -/
theorem mono_of_adjacent {g : Nat → Nat} {hi : Nat} (h : ∀ n, n < hi → g n ≤ g (n + 1)) :
    ∀ a b, a ≤ b → b ≤ hi → g a ≤ g b := by
  intro a b hab
  induction b with
  | zero => intro _; have : a = 0 := by omega
            subst this; exact Nat.le_refl _
  | succ b ih =>
    intro hb
    by_cases hEq : a = b + 1
    · subst hEq; exact Nat.le_refl _
    · exact Nat.le_trans (ih (by omega) (by omega)) (h b (by omega))

/-- Strict version. -/
theorem strictMono_of_adjacent {g : Nat → Nat} {lo hi : Nat} (h : ∀ n, lo ≤ n → n < hi → g n < g (n + 1)) :
    ∀ a b, lo ≤ a → a < b → b ≤ hi → g a < g b := by
  intro a b hlo hab
  induction b with
  | zero => omega
  | succ b ih =>
    intro hb
    by_cases hEq : a = b
    · subst hEq; exact h a hlo (by omega)
    · exact Nat.lt_trans (ih (by omega) (by omega)) (h b (by omega) (by omega))

example : ∀ n, 0 ≤ n → n < 5000 → n * n < 25000000 :=
  forall_of_checkRange (by decide +kernel)

end Mmtk.CheckRange
