import MmtkModel.Lemmas.FreeListFree
/-!
# `IntArrayFreeList::new(units, units, heads)` (a single initial run) establishes the invariant (C26)
-/
namespace Mmtk.FreeList
open Mmtk.Runs

/-- `set_sentinel` as a pure function -/
def wSent (t : Tab) (u : Int) : Tab := updHi (updLo t u (M30 &&& enc u)) u (M30 &&& enc u)

theorem setSentinel_ok {t : Tab} {u : Int} (h : InR t u) : setSentinel t u = .ok (wSent t u) := by
  unfold setSentinel wSent
  simp only [bind, Except.bind, setLo_ok h]
  exact setHi_ok (by simpa using h) _

theorem sent_t31 (u : Int) : (M30 &&& enc u).testBit 31 = false := by
  rw [Nat.testBit_and, M30_eq, Nat.testBit_two_pow_sub_one]; simp
theorem sent_t30 (u : Int) : (M30 &&& enc u).testBit 30 = false := by
  rw [Nat.testBit_and, M30_eq, Nat.testBit_two_pow_sub_one]; simp
theorem sent_lnk (u : Int) : (M30 &&& enc u) % 2 ^ 30 = lk u := by
  rw [Nat.and_comm, and_M30, Nat.mod_mod]; rfl

@[simp] theorem heads_wSent (t : Tab) (u : Int) : (wSent t u).heads = t.heads := by simp [wSent]
@[simp] theorem size_wSent (t : Tab) (u : Int) : (wSent t u).cells.size = t.cells.size := by simp [wSent]
@[simp] theorem InR_wSent (t : Tab) (u w : Int) : InR (wSent t u) w ↔ InR t w := by simp [InR]

section
variable {t : Tab} {u : Int} (h : InR t u) (w : Int)
include h
theorem fFree_wSent : fFree (wSent t u) w = if w = u then false else fFree t w := by
  simp only [fFree, wSent, loC_updHi, loC_updLo h]; split
  · exact sent_t31 u
  · rfl
theorem fUnc_wSent : fUnc (wSent t u) w = if w = u then false else fUnc t w := by
  simp only [fUnc, wSent, loC_updHi, loC_updLo h]; split
  · exact sent_t30 u
  · rfl
theorem fPrev_wSent : fPrev (wSent t u) w = if w = u then lk u else fPrev t w := by
  simp only [fPrev, wSent, loC_updHi, loC_updLo h]; split
  · exact sent_lnk u
  · rfl
theorem fMulti_wSent : fMulti (wSent t u) w = if w = u then false else fMulti t w := by
  have h' : InR (updLo t u (M30 &&& enc u)) u := by simpa using h
  simp only [fMulti, wSent, hiC_updHi h', hiC_updLo]; split
  · exact sent_t31 u
  · rfl
theorem fNext_wSent : fNext (wSent t u) w = if w = u then lk u else fNext t w := by
  have h' : InR (updLo t u (M30 &&& enc u)) u := by simpa using h
  simp only [fNext, wSent, hiC_updHi h', hiC_updLo]; split
  · exact sent_lnk u
  · rfl
end

/-- the freshly allocated (all zero) table -/
def zeroTab (H : Int) (n : Nat) : Tab := { heads := H, cells := Array.replicate n 0 }

theorem loC_zero (H : Int) (n : Nat) (w : Int) : loC (zeroTab H n) w = 0 := by
  unfold loC zeroTab; split
  · simp only [Array.getD_eq_getD_getElem?, Array.getElem?_replicate]; split <;> rfl
  · rfl
theorem hiC_zero (H : Int) (n : Nat) (w : Int) : hiC (zeroTab H n) w = 0 := by
  unfold hiC zeroTab; split
  · simp only [Array.getD_eq_getD_getElem?, Array.getElem?_replicate]; split <;> rfl
  · rfl

/-- all flags clear, link fields: the sentinels written so far -/
structure SentOnly (t : Tab) (H : Int) (n : Nat) (P : Int → Prop) : Prop where
  heads : t.heads = H
  size : t.cells.size = n
  free : ∀ w, fFree t w = false
  unc : ∀ w, fUnc t w = false
  multi : ∀ w, fMulti t w = false
  prev : ∀ w, P w → fPrev t w = lk w
  next : ∀ w, P w → fNext t w = lk w

theorem sentOnly_zero (H : Int) (n : Nat) : SentOnly (zeroTab H n) H n (fun _ => False) :=
  ⟨rfl, by simp [zeroTab], fun w => by simp [fFree, loC_zero], fun w => by simp [fUnc, loC_zero],
   fun w => by simp [fMulti, hiC_zero], fun _ f => f.elim, fun _ f => f.elim⟩

theorem sentOnly_wSent {t : Tab} {H : Int} {n : Nat} {P : Int → Prop} (h : SentOnly t H n P) {u : Int}
    (hu : InR t u) : SentOnly (wSent t u) H n (fun w => P w ∨ w = u) := by
  refine ⟨by simp [h.heads], by simp [h.size], fun w => ?_, fun w => ?_, fun w => ?_, fun w hw => ?_, fun w hw => ?_⟩
  · rw [fFree_wSent hu]; split
    · rfl
    · exact h.free w
  · rw [fUnc_wSent hu]; split
    · rfl
    · exact h.unc w
  · rw [fMulti_wSent hu]; split
    · rfl
    · exact h.multi w
  · rw [fPrev_wSent hu]; split
    · subst_vars; rfl
    · rcases hw with g | g
      · exact h.prev w g
      · contradiction
  · rw [fNext_wSent hu]; split
    · subst_vars; rfl
    · rcases hw with g | g
      · exact h.next w g
      · contradiction

theorem setHeadSentinels_ok {t : Tab} {H : Int} {n : Nat} (h : SentOnly t H n (fun _ => False))
    (hin : ∀ w : Int, -H ≤ w → w < 0 → InR t w) :
    ∀ k : Nat, (k : Int) ≤ H → ∃ t', setHeadSentinels t k = .ok t' ∧
      SentOnly t' H n (fun w => -(k : Int) ≤ w ∧ w < 0) := by
  intro k
  induction k with
  | zero =>
    intro _
    refine ⟨t, rfl, h.heads, h.size, h.free, h.unc, h.multi, fun w hw => ?_, fun w hw => ?_⟩ <;> omega
  | succ k ih =>
    intro hk
    obtain ⟨t1, e1, s1⟩ := ih (by omega)
    have hR : InR t1 (-((k : Int) + 1)) := by
      have := hin (-((k : Int) + 1)) (by omega) (by omega)
      simpa [InR, s1.heads, s1.size, h.heads, h.size] using this
    refine ⟨wSent t1 (-((k : Int) + 1)), ?_, ?_⟩
    · simp only [setHeadSentinels, bind, Except.bind, e1]
      exact setSentinel_ok hR
    · have := sentOnly_wSent s1 hR
      refine ⟨this.heads, this.size, this.free, this.unc, this.multi, fun w hw => this.prev w ?_, fun w hw => this.next w ?_⟩
      · by_cases c : w = -((k : Int) + 1)
        · exact Or.inr c
        · exact Or.inl ⟨by omega, hw.2⟩
      · by_cases c : w = -((k : Int) + 1)
        · exact Or.inr c
        · exact Or.inl ⟨by omega, hw.2⟩

/-- the abstract state "one allocated run `[0, N)`" from which the initial `add_to_free` is a `free` -/
def allocAll (N : Nat) : AS := ⟨N, fun _ => false, fun u => if u < N then none else some 0, fun _ => false, fun _ => false⟩

theorem allocAll_run {N s e : Nat} (h : IsRun (allocAll N) s e) : s = 0 ∧ e = N := by
  obtain ⟨_, _, h3, h4, _⟩ := h
  simp [allocAll] at h3 h4
  exact ⟨h3, h4⟩

theorem allocAll_isRun {N : Nat} (hN : 1 ≤ N) : IsRun (allocAll N) 0 N :=
  ⟨by omega, Nat.le_refl _, Or.inl rfl, Or.inl rfl, fun _ _ _ => rfl⟩

/-- **`IntArrayFreeList::new(N, N, heads)`** returns a table that represents the fresh abstract
state with one run `[0, N)` on the list of head 0. -/
theorem new_single (debug : Bool) (N Hn : Nat) (hN : 1 ≤ N) (hNm : (N : Int) ≤ MAX_UNITS) (hH : 1 ≤ Hn)
    (hH' : Hn ≤ 128) :
    ∃ t0 a0 L, IntArray.new debug (N : Int) (N : Int) (Hn : Int) = .ok t0 ∧
      ((∀ u, a0.own u = some 0) ∧ (∀ b, a0.touched b = false)) ∧ a0.units = N ∧
      (∀ b, a0.cut b = false) ∧ Rel t0 a0 L ∧ t0.heads = (Hn : Int) := by
  generalize hn : (2 * ((N : Int) + 1 + (Hn : Int))).toNat = n
  have hmax : MAX_UNITS = 1073741694 := rfl
  have hin0 : ∀ w : Int, -(Hn : Int) ≤ w → w ≤ N → InR (zeroTab Hn n) w := by
    intro w h0 h1; simp only [InR, zeroTab, Array.size_replicate]; omega
  obtain ⟨t1, e1, s1⟩ := setHeadSentinels_ok (sentOnly_zero (Hn : Int) n) (fun w h0 h1 => hin0 w h0 (by omega)) Hn
    (Int.le_refl _)
  have hin1 : ∀ w : Int, -(Hn : Int) ≤ w → w ≤ N → InR t1 w := by
    intro w h0 h1; have := hin0 w h0 h1
    simpa [InR, s1.heads, s1.size, zeroTab] using this
  have s2 := sentOnly_wSent s1 (hin1 (N : Int) (by omega) (Int.le_refl _))
  have hin2 : ∀ w : Int, -(Hn : Int) ≤ w → w ≤ N → InR (wSent t1 (N : Int)) w := by
    intro w h0 h1; simpa using hin1 w h0 h1
  -- the table with the size fields of `[0, N)`
  have hB : (N : Int) > 1 → InR (wSent t1 (N : Int)) ((0 : Int) + 1) ∧ InR (wSent t1 (N : Int)) ((0 : Int) + N - 1) :=
    fun _ => ⟨hin2 _ (by omega) (by omega), hin2 _ (by omega) (by omega)⟩
  have h0R := hin2 0 (by omega) (by omega)
  have hM := fMulti_pSetSize h0R hB
  have hNx := fNext_pSetSize hB
  have hlk : lk (N : Int) = N := by
    have := lk_unit (v := (N : Int)) (by omega) (by omega); omega
  have hrel : Rel (pSetSize (wSent t1 (N : Int)) 0 (N : Int)) (allocAll N) (fun _ => []) := by
    constructor
    · simp [s1.heads]; omega
    · simp [s1.heads]; omega
    · simp only [size_pSetSize, s2.size, heads_pSetSize, s2.heads, allocAll]; omega
    · exact hNm
    · simp only [fFree_pSetSize]; exact s2.free _
    · intro k _; simp only [fFree_pSetSize]; exact s2.free _
    · intro k _
      have := hd_neg k
      rw [hM]; simp only [s2.multi]; ifs_omega
    · intro u _; simp only [fUnc_pSetSize, s2.unc]; rfl
    · intro s e hr
      obtain ⟨rfl, rfl⟩ := allocAll_run hr
      constructor
      · rw [hM]
        by_cases c : 0 + 1 < e
        · simp only [c, decide_true]; ifs_omega
        · simp only [c, decide_false, s2.multi]; ifs_omega
      · intro c
        refine ⟨?_, ?_, ?_⟩
        · rw [hNx]; ifs_omega
        · rw [hM]; ifs_omega
        · rw [hNx]; ifs_omega
      · simp only [fFree_pSetSize, s2.free, allocAll]
        have : (0 : Nat) < e := by omega
        simp [this]
      · intro u _ h2
        have : (0 : Nat) < e := by omega
        simp [allocAll, h2, this]
      · intro k hk
        have : (0 : Nat) < e := by omega
        simp [allocAll, this] at hk
    · intro k hk
      have hk' : (k : Int) < Hn := by simpa [s1.heads] using hk
      have hneg := hd_neg k
      have hb : -128 ≤ hd k ∧ hd k < 0 := by unfold hd; omega
      have hP : (-(Hn : Int) ≤ hd k ∧ hd k < 0) ∨ hd k = (N : Int) := Or.inl ⟨by unfold hd; omega, hneg⟩
      refine ⟨?_, List.nodup_nil, fun x hx => by cases hx⟩
      simp only [Links, nxt, prv, fPrev_pSetSize]
      rw [hNx, s2.prev _ hP]
      have c : ¬ ((N : Int) > 1 ∧ (hd k = (0 : Int) + 1 ∨ hd k = (0 : Int) + N - 1)) := by omega
      rw [if_neg c, s2.next _ hP]
      exact ⟨dl_lk_head _ hb.1 hb.2, dl_lk_head _ hb.1 hb.2⟩
  have hk0 : ((0 : Nat) : Int) < (pSetSize (wSent t1 (N : Int)) 0 (N : Int)).heads := by simp [s1.heads]; omega
  have hpre : Pre (allocAll N) (.free 0 0 N) := by
    refine ⟨allocAll_isRun hN, by simp [allocAll]; omega, fun hm => absurd hm.1 (by omega), fun hm => absurd hm.1 ?_⟩
    simp [allocAll]
  have hl : if mergeL (allocAll N) 0 then IsRun (allocAll N) 0 0 else (0 : Nat) = 0 := by
    have : ¬ mergeL (allocAll N) 0 := fun hm => absurd hm.1 (by omega)
    simp [this]
  have hr : if mergeR (allocAll N) N then IsRun (allocAll N) N N else N = N := by
    have : ¬ mergeR (allocAll N) N := fun hm => absurd hm.1 (by simp [allocAll])
    simp [this]
  obtain ⟨f1, f2, _⟩ := free_finish debug hrel hk0 hpre hl hr (fun _ f => f.elim)
    (fun hm => absurd hm.1 (by omega)) (fun hm => absurd hm.1 (by simp [allocAll]))
    (sizedAs_self hrel (allocAll_isRun hN))
  have f1' : addToFree debug (pSetSize (wSent t1 (N : Int)) 0 (N : Int)) (-1) 0 =
      .ok (pAddToFree (pSetSize (wSent t1 (N : Int)) 0 (N : Int)) (hd 0) ((0 : Nat) : Int)) := f1
  refine ⟨_, Runs.apply (allocAll N) (.free 0 0 N), _, ?_, ⟨fun u => ?_, fun _ => rfl⟩, rfl, fun b => ?_, f2, ?_⟩
  · -- the computation
    unfold IntArray.new initializeHeap
    have e0 : ({ heads := (Hn : Int), cells := Array.replicate (2 * ((N : Int) + 1 + (Hn : Int))).toNat 0 } : Tab) =
        zeroTab Hn n := by rw [hn]; rfl
    rw [e0]
    have e2 : (zeroTab (Hn : Int) n).heads.toNat = Hn := by simp [zeroTab]
    have e3 : setSentinel t1 (N : Int) = .ok (wSent t1 (N : Int)) := setSentinel_ok (hin1 _ (by omega) (Int.le_refl _))
    have e4 : (N : Int).tmod N = 0 := Int.tmod_self
    have e5 : ¬ ((0 : Int) > 0) := by omega
    have e6 : (N : Int) - 0 - N = 0 := by omega
    have e8 : setSize (wSent t1 (N : Int)) 0 (N : Int) = .ok (pSetSize (wSent t1 (N : Int)) 0 (N : Int)) :=
      setSize_ok h0R hB
    have e9 : ¬ ((0 : Int) - N ≥ 0) := by omega
    have e10 : (0 : Int) ≥ 0 := by omega
    simp only [bind, Except.bind, e2, e1, e3, e4, e5, if_false, e6, fillLoop, e10, if_true, e8, f1', e9, pure,
      Except.pure]
  · show (if 0 ≤ u ∧ u < N then some 0 else if u < N then none else some 0) = some 0
    by_cases c : u < N <;> simp [c]
  · show (if (b = 0 ∧ mergeL (allocAll N) 0) ∨ (b = N ∧ mergeR (allocAll N) N) then false else false) = false
    split <;> rfl
  · simp [s1.heads]

end Mmtk.FreeList
