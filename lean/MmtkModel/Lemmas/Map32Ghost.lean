import MmtkModel.Model.Map32
import MmtkModel.Lemmas.Map32FL
/-!
# Ghost state of C29 (the oracle's bookkeeping) and list lemmas about it

`G` = what the statement of C29 talks about and what the Python oracle of `checks/C29.py` keeps:
the regions handed out and not yet freed (`start`, `size`, owner descriptor) and, per space, the
list of its region starts, head first.  `Linked st p l` = the `prev`/`next` tables of `st` link the
chunks of `l` exactly in this order (`p` = what `prev` of the first element must be; `0` = none).
-/
namespace Mmtk.Map32

structure Reg where
  start : Nat
  size : Nat
  desc : Nat
deriving Repr, DecidableEq

/-- The oracle's state: allocated regions, and the region list of every space (head first). -/
structure G where
  regions : List Reg := []
  lists : List (List Nat) := []
deriving Repr

def Reg.Disj (a b : Reg) : Prop := a.start + a.size ≤ b.start ∨ b.start + b.size ≤ a.start

theorem Reg.Disj.symm {a b : Reg} (h : Reg.Disj a b) : Reg.Disj b a := Or.symm h

def regSum : List Reg → Nat
  | [] => 0
  | r :: rs => r.size + regSum rs

/-- `allocate_contiguous_chunks` returned `c` for `(d, k, head)`: the oracle's update
(`regions[c] = (k, d)`; push `c` on the first list whose head is `head`, else start a new list). -/
def pushList (c head : Nat) : List (List Nat) → List (List Nat)
  | [] => [[c]]
  | l :: ls => if l.head? = some head then (c :: l) :: ls else l :: pushList c head ls

def G.alloc (g : G) (d k head c : Nat) : G :=
  if c = 0 then g else { regions := ⟨c, k, d⟩ :: g.regions, lists := pushList c head g.lists }

/-- The regions starting at a chunk of `S` are freed. -/
def G.freeSet (g : G) (S : List Nat) : G :=
  { regions := g.regions.filter (fun r => !S.contains r.start),
    lists := g.lists.map (fun l => l.filter (fun x => !S.contains x)) }

/-- `free_contiguous_chunks(c)`: `del regions[c]`, remove `c` from its list. -/
def G.free (g : G) (c : Nat) : G := g.freeSet [c]

/-- `free_all_chunks(c)`: every region of the list that contains `c` is freed. -/
def G.freeAll (g : G) (c : Nat) : G := g.freeSet ((g.lists.find? (fun l => l.contains c)).getD [])

/-- The links of `st` chain the chunks of the list in order. -/
def Linked (st : St) : Nat → List Nat → Prop
  | _, [] => True
  | p, a :: t => st.prev a = p ∧ st.next a = t.headD 0 ∧ Linked st a t

/-! ## counting: disjoint regions inside `[lo, hi)` have at most `hi - lo` chunks -/

theorem regSum_filter_add (p : Reg → Bool) : ∀ l : List Reg,
    regSum l = regSum (l.filter p) + regSum (l.filter (fun x => !p x))
  | [] => rfl
  | r :: t => by
    have ih := regSum_filter_add p t
    by_cases hp : p r = true
    · simp only [List.filter_cons, hp, if_true, Bool.not_true, Bool.false_eq_true, if_false, regSum]; omega
    · have hp' : p r = false := by simpa using hp
      simp only [List.filter_cons, hp', Bool.false_eq_true, if_false, Bool.not_false, if_true, regSum]; omega

theorem regSum_le_aux : ∀ (n : Nat) (l : List Reg) (lo hi : Nat), l.length ≤ n → l.Pairwise Reg.Disj →
    (∀ r ∈ l, lo ≤ r.start ∧ r.start + r.size ≤ hi) → regSum l ≤ hi - lo
  | _, [], _, _, _, _, _ => Nat.zero_le _
  | 0, _ :: _, _, _, hlen, _, _ => by simp at hlen
  | n + 1, r :: t, lo, hi, hlen, hp, hin => by
    rw [List.pairwise_cons] at hp
    have hr := hin r (List.mem_cons_self ..)
    have hlen' : t.length ≤ n := by simpa using hlen
    let p : Reg → Bool := fun x => decide (x.start + x.size ≤ r.start)
    have hsplit := regSum_filter_add p t
    have hL := regSum_le_aux n (t.filter p) lo r.start
      (Nat.le_trans (List.length_filter_le ..) hlen') (hp.2.filter _)
      (by
        intro x hx
        rw [List.mem_filter] at hx
        have := hin x (List.mem_cons_of_mem _ hx.1)
        have h2 : x.start + x.size ≤ r.start := by simpa [p] using hx.2
        exact ⟨this.1, h2⟩)
    have hR := regSum_le_aux n (t.filter (fun x => !p x)) (r.start + r.size) hi
      (Nat.le_trans (List.length_filter_le ..) hlen') (hp.2.filter _)
      (by
        intro x hx
        rw [List.mem_filter] at hx
        have := hin x (List.mem_cons_of_mem _ hx.1)
        have h2 : ¬ x.start + x.size ≤ r.start := by simpa [p] using hx.2
        have h3 := hp.1 x hx.1
        unfold Reg.Disj at h3
        exact ⟨by omega, this.2⟩)
    simp only [regSum]
    omega

theorem regSum_le {l : List Reg} {lo hi : Nat} (hp : l.Pairwise Reg.Disj)
    (hin : ∀ r ∈ l, lo ≤ r.start ∧ r.start + r.size ≤ hi) : regSum l ≤ hi - lo :=
  regSum_le_aux l.length l lo hi (Nat.le_refl _) hp hin

/-- Removing the (unique) region that starts at `r.start`. -/
theorem regSum_remove : ∀ {l : List Reg} {r : Reg}, l.Pairwise Reg.Disj → (∀ x ∈ l, 0 < x.size) → r ∈ l →
    regSum l = r.size + regSum (l.filter (fun x => x.start != r.start))
  | [], _, _, _, hr => by cases hr
  | a :: t, r, hp, hpos, hr => by
    rw [List.pairwise_cons] at hp
    rcases List.mem_cons.1 hr with rfl | hr'
    · -- no other region starts at `r.start`
      have hnone : t.filter (fun x => x.start != r.start) = t := by
        rw [List.filter_eq_self]
        intro x hx
        have := hp.1 x hx
        have h1 := hpos x (List.mem_cons_of_mem _ hx)
        have h2 := hpos r (List.mem_cons_self ..)
        unfold Reg.Disj at this
        simp only [bne_iff_ne, ne_eq]
        omega
      simp only [List.filter_cons, bne_self_eq_false, Bool.false_eq_true, if_false, hnone, regSum]
    · have hne : a.start ≠ r.start := by
        have := hp.1 r hr'
        have h1 := hpos r (List.mem_cons_of_mem _ hr')
        have h2 := hpos a (List.mem_cons_self ..)
        unfold Reg.Disj at this
        omega
      have ih := regSum_remove hp.2 (fun x hx => hpos x (List.mem_cons_of_mem _ hx)) hr'
      have hb : (a.start != r.start) = true := by simpa using hne
      simp only [List.filter_cons, hb, if_true, regSum]
      omega

/-! ## `Linked` -/

theorem Linked.frame {st st' : St} : ∀ {l : List Nat} {p : Nat},
    (∀ a ∈ l, st'.next a = st.next a ∧ st'.prev a = st.prev a) → Linked st p l → Linked st' p l
  | [], _, _, _ => trivial
  | a :: t, p, hf, h => by
    have ha := hf a (List.mem_cons_self ..)
    exact ⟨ha.2 ▸ h.1, ha.1 ▸ h.2.1, Linked.frame (fun x hx => hf x (List.mem_cons_of_mem _ hx)) h.2.2⟩

/-- In a linked list the `next` of a member is `0` or a member; its `prev` is `p` or a member. -/
theorem Linked.next_mem {st : St} : ∀ {l : List Nat} {p c : Nat}, Linked st p l → c ∈ l →
    (st.next c = 0 ∨ st.next c ∈ l) ∧ (st.prev c = p ∨ st.prev c ∈ l)
  | [], _, _, _, hc => by cases hc
  | a :: t, p, c, h, hc => by
    rcases List.mem_cons.1 hc with rfl | hc'
    · refine ⟨?_, Or.inl h.1⟩
      cases t with
      | nil => exact Or.inl h.2.1
      | cons b t' => exact Or.inr (by rw [h.2.1]; simp)
    · have ih := Linked.next_mem h.2.2 hc'
      refine ⟨?_, ?_⟩
      · rcases ih.1 with e | m
        · exact Or.inl e
        · exact Or.inr (List.mem_cons_of_mem _ m)
      · rcases ih.2 with e | m
        · exact Or.inr (by rw [e]; exact List.mem_cons_self ..)
        · exact Or.inr (List.mem_cons_of_mem _ m)

/-- The link updates of `free_contiguous_chunks_no_lock(c)` (see `freeNoLock_unlinks`). -/
structure Unlinks (st st' : St) (c : Nat) : Prop where
  next_c : st'.next c = 0
  prev_c : st'.prev c = 0
  prev_o : ∀ x, x ≠ c → st'.prev x = if st.next c ≠ 0 ∧ x = st.next c then st.prev c else st.prev x
  next_o : ∀ x, x ≠ c → st'.next x = if st.prev c ≠ 0 ∧ x = st.prev c then st.next c else st.next x

/-- Unlinking a member `c` of a linked list leaves the list without `c` linked. -/
theorem Linked.splice {st st' : St} {c : Nat} (hu : Unlinks st st' c) : ∀ {l : List Nat} {p : Nat},
    Linked st p l → l.Nodup → 0 ∉ l → p ∉ l → c ∈ l → Linked st' p (l.filter (· != c))
  | [], _, _, _, _, _, hc => by cases hc
  | a :: t, p, h, hnd, h0, hp, hc => by
    rw [List.nodup_cons] at hnd
    have h0a : a ≠ 0 := fun e => h0 (e ▸ List.mem_cons_self ..)
    have h0t : 0 ∉ t := fun m => h0 (List.mem_cons_of_mem _ m)
    have hpa : p ≠ a := fun e => hp (e ▸ List.mem_cons_self ..)
    have hpt : p ∉ t := fun m => hp (List.mem_cons_of_mem _ m)
    by_cases hac : a = c
    · -- the head is unlinked
      subst hac
      have hfilt : t.filter (· != a) = t := by
        rw [List.filter_eq_self]; intro x hx; simp only [bne_iff_ne, ne_eq]; rintro rfl; exact hnd.1 hx
      simp only [List.filter_cons, bne_self_eq_false, Bool.false_eq_true, if_false, hfilt]
      cases t with
      | nil => trivial
      | cons b t' =>
        have hb : st.next a = b := h.2.1
        have hba : b ≠ a := fun e => hnd.1 (e ▸ List.mem_cons_self ..)
        have hb0 : b ≠ 0 := fun e => h0t (e ▸ List.mem_cons_self ..)
        have hbp : b ≠ p := fun e => hpt (e ▸ List.mem_cons_self ..)
        have hnd' := List.nodup_cons.1 hnd.2
        refine ⟨?_, ?_, ?_⟩
        · rw [hu.prev_o b hba, hb]; simp [hb0, h.1]
        · rw [hu.next_o b hba, h.1]; simp [hbp, h.2.2.2.1]
        · refine Linked.frame ?_ h.2.2.2.2
          intro x hx
          have hxa : x ≠ a := fun e => hnd.1 (e ▸ List.mem_cons_of_mem _ hx)
          have hxb : x ≠ b := fun e => hnd'.1 (e ▸ hx)
          have hxp : x ≠ p := fun e => hpt (e ▸ List.mem_cons_of_mem _ hx)
          rw [hu.next_o x hxa, hu.prev_o x hxa, hb, h.1]
          simp [hxb, hxp]
    · have hct : c ∈ t := by
        rcases List.mem_cons.1 hc with e | m
        · exact absurd e.symm hac
        · exact m
      have hmem := Linked.next_mem h.2.2 hct
      have hbne : (a != c) = true := by simpa using hac
      simp only [List.filter_cons, hbne, if_true]
      have ih := Linked.splice hu h.2.2 hnd.2 h0t hnd.1 hct
      refine ⟨?_, ?_, ih⟩
      · -- `prev a`: `a` is not `next c`
        rw [hu.prev_o a hac]
        have : ¬ (st.next c ≠ 0 ∧ a = st.next c) := by
          rintro ⟨_, e⟩
          rcases hmem.1 with z | m
          · exact h0a (e.trans z)
          · exact hnd.1 (e ▸ m)
        rw [if_neg this]; exact h.1
      · rw [hu.next_o a hac]
        cases t with
        | nil => cases hct
        | cons b t' =>
          have hnd' := List.nodup_cons.1 hnd.2
          by_cases hbc : b = c
          · -- `c` is right after `a`
            subst hbc
            have hpc : st.prev b = a := h.2.2.1
            have hfilt : t'.filter (· != b) = t' := by
              rw [List.filter_eq_self]; intro x hx; simp only [bne_iff_ne, ne_eq]; rintro rfl; exact hnd'.1 hx
            simp only [List.filter_cons, bne_self_eq_false, Bool.false_eq_true, if_false, hfilt]
            rw [hpc]; simp [h0a, h.2.2.2.1]
          · have hbne' : (b != c) = true := by simpa using hbc
            simp only [List.filter_cons, hbne', if_true, List.headD_cons]
            have : ¬ (st.prev c ≠ 0 ∧ a = st.prev c) := by
              rintro ⟨_, e⟩
              have hct' : c ∈ t' := by
                rcases List.mem_cons.1 hct with e' | m
                · exact absurd e'.symm hbc
                · exact m
              have := (Linked.next_mem h.2.2.2.2 hct').2
              rcases this with e2 | m
              · -- prev c = b, but a ≠ b
                exact hnd.1 (by rw [e, e2]; exact List.mem_cons_self ..)
              · exact hnd.1 (by rw [e]; exact List.mem_cons_of_mem _ m)
            rw [if_neg this]; simpa using h.2.1

/-! ## `pushList` -/

theorem pushList_perm (c head : Nat) : ∀ L : List (List Nat), (pushList c head L).flatten.Perm (c :: L.flatten)
  | [] => by simp [pushList]
  | l :: ls => by
    unfold pushList
    split
    · simp
    · simp only [List.flatten_cons]
      exact ((pushList_perm c head ls).append_left l).trans List.perm_middle

theorem mem_flatten_pushList {c head : Nat} {L : List (List Nat)} {x : Nat} :
    x ∈ (pushList c head L).flatten ↔ x = c ∨ x ∈ L.flatten := by
  rw [(pushList_perm c head L).mem_iff, List.mem_cons]

theorem nodup_flatten_pushList {c head : Nat} {L : List (List Nat)} (hnd : L.flatten.Nodup)
    (hc : c ∉ L.flatten) : (pushList c head L).flatten.Nodup := by
  rw [(pushList_perm c head L).nodup_iff, List.nodup_cons]; exact ⟨hc, hnd⟩

theorem pushList_nohead {c head : Nat} : ∀ {L : List (List Nat)}, (∀ l ∈ L, l.head? ≠ some head) →
    pushList c head L = L ++ [[c]]
  | [], _ => rfl
  | l :: ls, h => by
    unfold pushList
    rw [if_neg (h l (List.mem_cons_self ..)), pushList_nohead (fun x hx => h x (List.mem_cons_of_mem _ hx))]
    rfl

theorem nodup_of_mem_flatten {L : List (List Nat)} (h : L.flatten.Nodup) {l : List Nat} (hl : l ∈ L) :
    l.Nodup := by
  rw [List.Nodup, List.pairwise_flatten] at h
  exact h.1 l hl

theorem disjoint_of_nodup_flatten {L : List (List Nat)} (h : L.flatten.Nodup) {l1 l2 : List Nat}
    (h1 : l1 ∈ L) (h2 : l2 ∈ L) (hne : l1 ≠ l2) {x : Nat} (hx1 : x ∈ l1) (hx2 : x ∈ l2) : False := by
  rw [List.Nodup, List.pairwise_flatten] at h
  exact pw_mem (R := fun l₁ l₂ : List Nat => ∀ x ∈ l₁, ∀ y ∈ l₂, x ≠ y)
    (fun a b hab x hx y hy e => hab y hy x hx e.symm) h.2 h1 h2 hne x hx1 x hx2 rfl

/-- Pushing a fresh chunk `c` in front of the list whose head is `head` (`next[c] = head`,
`prev[head] = c`) keeps every list linked. -/
theorem linked_pushList {st st' : St} {c head : Nat}
    (hn : st'.next = upd st.next c head) (hp : st'.prev = upd st.prev head c) (hpc : st.prev c = 0) :
    ∀ L : List (List Nat), L.flatten.Nodup → c ∉ L.flatten → (∀ l ∈ L, Linked st 0 l) →
      (∃ l ∈ L, l.head? = some head) → ∀ l' ∈ pushList c head L, Linked st' 0 l'
  | [], _, _, _, hex, _, _ => by obtain ⟨l, hl, _⟩ := hex; cases hl
  | l :: ls, hnd, hc, hlk, hex, l', hl' => by
    have hnd' := hnd
    rw [List.flatten_cons, List.nodup_append] at hnd'
    have hcl : c ∉ l := fun m => hc (by rw [List.flatten_cons]; exact List.mem_append_left _ m)
    have hcls : c ∉ ls.flatten := fun m => hc (by rw [List.flatten_cons]; exact List.mem_append_right _ m)
    have frame : ∀ l0 : List Nat, (∀ x ∈ l0, x ≠ c ∧ x ≠ head) → ∀ q, Linked st q l0 → Linked st' q l0 := by
      intro l0 h0 q hq
      refine Linked.frame ?_ hq
      intro a ha
      obtain ⟨h1, h2⟩ := h0 a ha
      rw [hn, hp]; simp [upd, h1, h2]
    unfold pushList at hl'
    split at hl'
    · rename_i hh
      -- `l = head :: t`
      cases l with
      | nil => cases hh
      | cons b t =>
        have hb : b = head := by simpa using hh
        subst hb
        have hlb := hlk _ (List.mem_cons_self ..)
        have hbc : b ≠ c := fun e => hcl (e ▸ List.mem_cons_self ..)
        have hndl := List.nodup_cons.1 hnd'.1
        rcases List.mem_cons.1 hl' with rfl | hl'
        · refine ⟨?_, ?_, ?_, ?_, ?_⟩
          · rw [hp]; simp [upd, hbc.symm, hpc]
          · rw [hn]; simp [upd]
          · rw [hp]; simp [upd]
          · rw [hn]; simp only [upd, if_neg hbc]; exact hlb.2.1
          · refine frame t ?_ b hlb.2.2
            intro x hx
            exact ⟨fun e => hcl (e ▸ List.mem_cons_of_mem _ hx), fun e => hndl.1 (e ▸ hx)⟩
        · refine frame l' ?_ 0 (hlk l' (List.mem_cons_of_mem _ hl'))
          intro x hx
          have hxf : x ∈ ls.flatten := List.mem_flatten.2 ⟨l', hl', hx⟩
          exact ⟨fun e => hcls (e ▸ hxf), fun e => hnd'.2.2 b (List.mem_cons_self ..) x hxf e.symm⟩
    · rename_i hh
      obtain ⟨l0, hl0, hl0h⟩ := hex
      have hl0' : l0 ∈ ls := by
        rcases List.mem_cons.1 hl0 with rfl | m
        · exact absurd hl0h hh
        · exact m
      have hheadls : head ∈ ls.flatten := by
        refine List.mem_flatten.2 ⟨l0, hl0', ?_⟩
        cases l0 with
        | nil => cases hl0h
        | cons b t => simp at hl0h; subst hl0h; exact List.mem_cons_self ..
      rcases List.mem_cons.1 hl' with rfl | hl'
      · refine frame l' ?_ 0 (hlk l' (List.mem_cons_self ..))
        intro x hx
        exact ⟨fun e => hcl (e ▸ hx), fun e => hnd'.2.2 x hx head hheadls e⟩
      · exact linked_pushList hn hp hpc ls hnd'.2.1 hcls (fun x hx => hlk x (List.mem_cons_of_mem _ hx))
          ⟨l0, hl0', hl0h⟩ l' hl'

/-! ## `freeSet` -/

theorem notContains_append (S T : List Nat) (x : Nat) :
    (!(S ++ T).contains x) = (!T.contains x && !S.contains x) := by
  rw [Bool.eq_iff_iff]; simp [List.mem_append, and_comm]

theorem G.freeSet_nil (g : G) : g.freeSet [] = g := by
  have : ∀ l : List Nat, l.filter (fun _ => true) = l := fun l => List.filter_eq_self.2 (fun _ _ => rfl)
  cases g; simp [G.freeSet, this]

theorem G.freeSet_freeSet (g : G) (S T : List Nat) : (g.freeSet S).freeSet T = g.freeSet (S ++ T) := by
  unfold G.freeSet
  simp only [List.filter_filter, List.map_map, G.mk.injEq]
  constructor
  · congr 1; funext r; rw [notContains_append]
  · congr 1; funext l; simp only [Function.comp, List.filter_filter]; congr 1; funext x; rw [notContains_append]

theorem G.freeSet_congr (g : G) {S T : List Nat} (h : ∀ x, x ∈ S ↔ x ∈ T) : g.freeSet S = g.freeSet T := by
  have : ∀ x, S.contains x = T.contains x := by
    intro x; rw [Bool.eq_iff_iff]; simp [h x]
  unfold G.freeSet
  simp only [this]

theorem Linked.suffix {st : St} : ∀ {l1 l2 : List Nat} {p : Nat}, Linked st p (l1 ++ l2) →
    Linked st (l1.getLast?.getD p) l2
  | [], _, _, h => h
  | a :: t, l2, p, h => by
    have ih := Linked.suffix (l1 := t) (l2 := l2) (p := a) h.2.2
    rw [List.getLast?_cons]; exact ih

theorem filter_ne_of_nodup {xs ys : List Nat} {b : Nat} (h : (xs ++ b :: ys).Nodup) :
    (xs ++ b :: ys).filter (· != b) = xs ++ ys := by
  rw [List.nodup_append] at h
  have h2 := List.nodup_cons.1 h.2.1
  have hx : xs.filter (· != b) = xs := by
    rw [List.filter_eq_self]; intro x hx; simp only [bne_iff_ne, ne_eq]
    exact h.2.2 x hx b (List.mem_cons_self ..)
  have hy : ys.filter (· != b) = ys := by
    rw [List.filter_eq_self]; intro x hxy; simp only [bne_iff_ne, ne_eq]; rintro rfl; exact h2.1 hxy
  rw [List.filter_append, List.filter_cons, hx, hy]; simp
end Mmtk.Map32
