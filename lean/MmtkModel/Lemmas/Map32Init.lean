import MmtkModel.Lemmas.Map32FL
/-!
# `finalize_static_space_map` (C29): the region map it builds

`finalize maxChunks first last` runs the code's own sequence of free-list calls (block out
`[0, first)`, allocate the chunks `first ..= last` one by one, allocate the rest, free the chunks one
by one).  `finalize_fl`: for `0 < first ≤ last < maxChunks` the result is a well-formed map whose only
free run is `[first, last + 1)` (so all free runs lie in the discontiguous range).
-/
namespace Mmtk.Map32

theorem foldl_range_inv {α : Type} (P : Nat → α → Prop) (f : α → Nat → α) (a : α) : ∀ n : Nat,
    P 0 a → (∀ i, i < n → ∀ x, P i x → P (i + 1) (f x i)) → P n ((List.range n).foldl f a)
  | 0, h0, _ => h0
  | n + 1, h0, hs => by
    rw [List.range_succ, List.foldl_append]
    exact hs n (Nat.lt_succ_self n) _
      (foldl_range_inv P f a n h0 (fun i hi x hx => hs i (Nat.lt_succ_of_lt hi) x hx))

theorem foldl_range'_inv {α : Type} (P : Nat → α → Prop) (f : α → Nat → α) (a : α) (s n : Nat)
    (h0 : P 0 a) (hs : ∀ i, i < n → ∀ x, P i x → P (i + 1) (f x (s + i))) :
    P n ((List.range' s n).foldl f a) := by
  rw [List.range'_eq_map_range, List.foldl_map]
  exact foldl_range_inv P (fun x i => f x (s + i)) a n h0 hs

/-- `alloc(n)` on a map whose only free run is `⟨u, s⟩`, `1 ≤ n ≤ s`. -/
theorem alloc_single {lo hi : Nat} {fl : FL} (h : FLInv lo hi fl) {u s n : Nat}
    (hF : (⟨u, s, true⟩ : Run) ∈ fl.runs) (honly : ∀ r ∈ fl.runs, r.free = true → r = ⟨u, s, true⟩)
    (hn : 1 ≤ n) (hns : n ≤ s) :
    FLInv lo hi (fl.alloc n).2 ∧
    (∀ r, r ∈ (fl.alloc n).2.runs ↔
      (r ∈ fl.runs ∧ r.start ≠ u) ∨ r = ⟨u, n, false⟩ ∨ (n < s ∧ r = ⟨u + n, s - n, true⟩)) := by
  cases ha : (fl.alloc n).1 with
  | none =>
    have := (alloc_none_iff h).1 ha _ hF rfl
    dsimp only at this; omega
  | some u' =>
    obtain ⟨s', hF', _, hinv, hmem⟩ := alloc_spec h hn ha
    have := honly _ hF' rfl
    simp only [Run.mk.injEq, and_true] at this
    obtain ⟨rfl, rfl⟩ := this
    exact ⟨hinv, hmem⟩

/-- After blocking out `[0, first)` and allocating `i` chunks of the range. -/
def Ph1 (M first i : Nat) (fl : FL) : Prop :=
  FLInv 0 M fl ∧ (∀ c, first ≤ c → c < first + i → (⟨c, 1, false⟩ : Run) ∈ fl.runs) ∧
  (∀ r ∈ fl.runs, r.free = true → r = ⟨first + i, M - (first + i), true⟩) ∧
  (first + i < M → (⟨first + i, M - (first + i), true⟩ : Run) ∈ fl.runs)

/-- After freeing `j` chunks of the range. -/
def Ph2 (M first last j : Nat) (fl : FL) : Prop :=
  FLInv 0 M fl ∧ (∀ c, first + j ≤ c → c ≤ last → (⟨c, 1, false⟩ : Run) ∈ fl.runs) ∧
  (∀ r ∈ fl.runs, r.free = true → 0 < j ∧ r = ⟨first, j, true⟩) ∧
  (0 < j → (⟨first, j, true⟩ : Run) ∈ fl.runs)

theorem ph1_init {M first : Nat} (h1 : 0 < first) (h3 : first < M) :
    Ph1 M first 0 (({ runs := [⟨0, M, true⟩], order := [0] } : FL).alloc first).2 := by
  have h0 : FLInv 0 M ({ runs := [⟨0, M, true⟩], order := [0] } : FL) := by
    refine ⟨?_, ?_, ?_, ?_, ?_⟩
    · intro r hr; simp at hr; subst hr; dsimp only; omega
    · simp
    · simp
    · intro u; simp
      constructor
      · rintro rfl; rfl
      · intro e; exact e.symm
    · intro r hr _; simp at hr; subst hr; dsimp only; omega
  obtain ⟨hinv, hmem⟩ := alloc_single h0 (u := 0) (s := M) (n := first) (by simp)
    (by intro r hr _; simpa using hr) h1 (Nat.le_of_lt h3)
  refine ⟨hinv, ?_, ?_, ?_⟩
  · intro c hc1 hc2; omega
  · intro r hr hrf
    rcases (hmem r).1 hr with ⟨hr', hne⟩ | rfl | ⟨_, rfl⟩
    · simp at hr'; subst hr'; exact absurd rfl hne
    · cases hrf
    · simp
  · intro _
    refine (hmem _).2 (Or.inr (Or.inr ⟨h3, ?_⟩))
    simp

theorem ph1_step {M first i : Nat} {fl : FL} (h : Ph1 M first i fl) (hi : first + i < M) :
    Ph1 M first (i + 1) (fl.alloc 1).2 := by
  obtain ⟨hinv, hunits, honly, hF⟩ := h
  obtain ⟨hinv', hmem⟩ := alloc_single hinv (hF hi) honly (Nat.le_refl 1) (by omega)
  refine ⟨hinv', ?_, ?_, ?_⟩
  · intro c hc1 hc2
    by_cases hc : c = first + i
    · subst hc; exact (hmem _).2 (Or.inr (Or.inl rfl))
    · exact (hmem _).2 (Or.inl ⟨hunits c hc1 (by omega), hc⟩)
  · intro r hr hrf
    rcases (hmem r).1 hr with ⟨hr', hne⟩ | rfl | ⟨_, rfl⟩
    · have := honly r hr' hrf
      rw [this] at hne; exact absurd rfl hne
    · cases hrf
    · simp only [Run.mk.injEq, and_true]; omega
  · intro hlt
    refine (hmem _).2 (Or.inr (Or.inr ⟨by omega, ?_⟩))
    simp only [Run.mk.injEq, and_true]; omega

/-- The trailing allocation `alloc(maxChunks - (last + 1))` leaves no free run. -/
theorem ph2_init {M first last : Nat} {fl : FL} (h2 : first ≤ last) (h3 : last < M)
    (h : Ph1 M first (last + 1 - first) fl) : Ph2 M first last 0 (fl.alloc (M - (last + 1))).2 := by
  obtain ⟨hinv, hunits, honly, hF⟩ := h
  have he : first + (last + 1 - first) = last + 1 := by omega
  rw [he] at hunits honly hF
  by_cases hM : last + 1 < M
  · obtain ⟨hinv', hmem⟩ := alloc_single hinv (hF hM) honly (n := M - (last + 1)) (by omega) (Nat.le_refl _)
    refine ⟨hinv', ?_, ?_, ?_⟩
    · intro c hc1 hc2
      exact (hmem _).2 (Or.inl ⟨hunits c (by omega) (by omega), by dsimp only; omega⟩)
    · intro r hr hrf
      rcases (hmem r).1 hr with ⟨hr', hne⟩ | rfl | ⟨hlt, _⟩
      · have := honly r hr' hrf
        rw [this] at hne; exact absurd rfl hne
      · cases hrf
      · omega
    · intro h0; omega
  · -- nothing after the range: the free list is empty and `alloc(0)` fails
    have hnone : (fl.alloc (M - (last + 1))).1 = none := by
      rw [alloc_none_iff hinv]
      intro r hr hrf
      have := honly r hr hrf
      have hp := hinv.pos r hr
      have hin := hinv.free_in r hr hrf
      rw [this] at hp hin; dsimp only at hp hin; omega
    rw [alloc_none hnone]
    refine ⟨hinv, ?_, ?_, ?_⟩
    · intro c hc1 hc2; exact hunits c (by omega) (by omega)
    · intro r hr hrf
      have := honly r hr hrf
      have hp := hinv.pos r hr
      have hin := hinv.free_in r hr hrf
      rw [this] at hp hin; dsimp only at hp hin; omega
    · intro h0; omega

theorem ph2_step {M first last j : Nat} {fl : FL} (h : Ph2 M first last j fl) (hj : first + j ≤ last)
    (h3 : last < M) : Ph2 M first last (j + 1) (fl.freeRun (first + j)).2 := by
  obtain ⟨hinv, hunits, honly, hF⟩ := h
  have hrun := hunits (first + j) (Nat.le_refl _) hj
  obtain ⟨ns, es, hL, hR, heq⟩ := freeRun_eq_strong hinv hrun
  obtain ⟨_, hinv', hmemA⟩ := freeRun_spec hinv hrun (Nat.zero_le _) (by omega)
  have hns : ns = first := by
    rcases hL with ⟨e, hno⟩ | ⟨l, hl, hlf, hls, hle⟩
    · by_cases hj0 : j = 0
      · omega
      · exact absurd (by dsimp only) (hno _ (hF (by omega)) rfl)
    · have := (honly l hl hlf).2
      rw [this] at hls; exact hls.symm
  have hes : es = 0 := by
    rcases hR with ⟨e, _⟩ | ⟨r, hr, hrf, hrs, _⟩
    · exact e
    · have := (honly r hr hrf).2
      rw [this] at hrs; dsimp only at hrs; omega
  have hsz : first + j + 1 + 0 - first = j + 1 := by omega
  rw [hns, hes, hsz] at heq
  refine ⟨hinv', ?_, ?_, ?_⟩
  · intro c hc1 hc2
    exact (hmemA ⟨c, 1, false⟩ rfl).2 ⟨hunits c (by omega) hc2, by dsimp only; omega⟩
  · intro r hr hrf
    rw [heq] at hr
    rcases mem_merged.1 hr with ⟨hr', hout⟩ | rfl
    · obtain ⟨hj0, e⟩ := honly r hr' hrf
      rw [e] at hout; dsimp only at hout; omega
    · exact ⟨Nat.succ_pos _, rfl⟩
  · intro _
    rw [heq]
    exact mem_merged.2 (Or.inr rfl)

/-- The region map built by `finalize_static_space_map(first, last)`: well formed, and its only
free run is the discontiguous range `[first, last + 1)`. -/
theorem finalize_fl {M first last : Nat} (h1 : 0 < first) (h2 : first ≤ last) (h3 : last < M) :
    FLInv first (last + 1) (finalize M first last).fl ∧
    (∀ r ∈ (finalize M first last).fl.runs, r.free = true → r = ⟨first, last + 1 - first, true⟩) ∧
    (⟨first, last + 1 - first, true⟩ : Run) ∈ (finalize M first last).fl.runs := by
  have hfl : (finalize M first last).fl =
      (List.range' first (last + 1 - first)).foldl (fun fl c => (fl.freeRun c).2)
        (((List.range (last + 1 - first)).foldl (fun fl _ => (fl.alloc 1).2)
          (({ runs := [⟨0, M, true⟩], order := [0] } : FL).alloc first).2).alloc (M - (last + 1))).2 := rfl
  have p1 := foldl_range_inv (fun i fl => Ph1 M first i fl) (fun fl _ => (fl.alloc 1).2) _
    (last + 1 - first) (ph1_init h1 (by omega)) (fun i hi x hx => ph1_step hx (by omega))
  have p2 := ph2_init h2 h3 p1
  have p3 := foldl_range'_inv (fun j fl => Ph2 M first last j fl) (fun fl c => (fl.freeRun c).2) _
    first (last + 1 - first) p2 (fun j hj x hx => ph2_step hx (by omega) h3)
  rw [← hfl] at p3
  obtain ⟨hinv, _, honly, hF⟩ := p3
  refine ⟨⟨hinv.pos, hinv.disj, hinv.nodup, hinv.order_iff, ?_⟩, fun r hr hrf => (honly r hr hrf).2,
    hF (by omega)⟩
  intro r hr hrf
  rw [(honly r hr hrf).2]; dsimp only; omega

end Mmtk.Map32
