import MmtkModel.Model.Trace
/-!
# Invariant of the tracing closure (used by Props/C01Algo.lean, C04Algo.lean)
-/
namespace Mmtk.Trace

/-! ## Specification vocabulary -/

/-- Every reference in the snapshot points to an allocated object. -/
structure WF (S : Snap) : Prop where
  roots : ∀ r, some r ∈ S.roots → (S.heap r).isSome = true
  fields : ∀ i o r, S.heap i = some o → some r ∈ o.fields → (S.heap r).isSome = true

/-- Reachability from the roots in the snapshot. -/
inductive Reach (S : Snap) : Id → Prop
  | root {r : Id} : some r ∈ S.roots → Reach S r
  | field {i : Id} {o : Obj} {r : Id} : Reach S i → S.heap i = some o → some r ∈ o.fields → Reach S r

theorem Reach.alloc {S : Snap} (wf : WF S) {r : Id} (h : Reach S r) : (S.heap r).isSome = true := by
  cases h with
  | root h => exact wf.roots r h
  | field _ ho hr => exact wf.fields _ _ r ho hr

/-! ## Slot reads / writes -/

theorem readSlot_writeSlot_ne (st : State) (sl sl' : Slot) (v : Val) (h : sl' ≠ sl) :
    readSlot (writeSlot st sl v) sl' = readSlot st sl' := by
  cases sl with
  | root k =>
    cases sl' with
    | root k' =>
      have : k ≠ k' := fun e => h (by rw [e])
      simp [readSlot, writeSlot, List.getElem?_set_ne this]
    | field n' j' => simp [readSlot, writeSlot]
  | field n j =>
    cases sl' with
    | root k' =>
      simp only [readSlot, writeSlot]; split <;> rfl
    | field n' j' =>
      simp only [writeSlot]
      cases ht : st.tobjs n with
      | none => rfl
      | some t =>
        simp only [readSlot]
        by_cases hn : n' = n
        · subst hn
          have hj : j ≠ j' := fun e => h (by rw [e])
          simp [ht, setFields, List.getElem?_set_ne hj]
        · simp [hn]

theorem readSlot_writeSlot_same (st : State) (sl : Slot) (v : Val) (h : readSlot st sl ≠ .null) :
    readSlot (writeSlot st sl v) sl = v := by
  cases sl with
  | root k =>
    simp only [readSlot, writeSlot] at h ⊢
    by_cases hk : k < st.troots.length
    · simp [List.getElem?_set_self hk]
    · simp [List.getElem?_eq_none (Nat.le_of_not_lt hk)] at h
  | field n j =>
    simp only [readSlot] at h
    simp only [writeSlot]
    cases ht : st.tobjs n with
    | none => simp [ht] at h
    | some t =>
      simp only [ht] at h
      by_cases hj : j < t.fields.length
      · simp [readSlot, setFields, List.getElem?_set_self hj]
      · simp [List.getElem?_eq_none (Nat.le_of_not_lt hj)] at h

/-- size / hash / moved / number of fields of a to-object -/
def hdr (t : TObj) : Nat × Nat × Bool × Nat := (t.size, t.hash, t.moved, t.fields.length)

theorem writeSlot_hdr (st : State) (sl : Slot) (v : Val) (m : Id) :
    ((writeSlot st sl v).tobjs m).map hdr = (st.tobjs m).map hdr := by
  cases sl with
  | root k => rfl
  | field n j =>
    simp only [writeSlot]
    cases ht : st.tobjs n with
    | none => rfl
    | some t =>
      by_cases hm : m = n
      · subst hm; simp [ht, hdr, setFields]
      · simp [hm]

@[simp] theorem writeSlot_fwd (st : State) (sl : Slot) (v : Val) : (writeSlot st sl v).fwd = st.fwd := by
  cases sl <;> simp only [writeSlot] <;> (try split) <;> rfl
@[simp] theorem writeSlot_pending (st : State) (sl : Slot) (v : Val) : (writeSlot st sl v).pending = st.pending := by
  cases sl <;> simp only [writeSlot] <;> (try split) <;> rfl
@[simp] theorem writeSlot_fresh (st : State) (sl : Slot) (v : Val) : (writeSlot st sl v).fresh = st.fresh := by
  cases sl <;> simp only [writeSlot] <;> (try split) <;> rfl
@[simp] theorem writeSlot_troots_length (st : State) (sl : Slot) (v : Val) :
    (writeSlot st sl v).troots.length = st.troots.length := by
  cases sl <;> simp only [writeSlot] <;> (try split) <;> simp

/-! ## The inductive invariant -/

/-- What slot `sl` holds, relative to what it held in the snapshot (`x`): a null stays null; a
reference to `r` is either still the from-space reference **and the slot is pending**, or it is the
forwarded reference of `r`. -/
def SlotRel (st : State) (x : Option Id) (sl : Slot) : Prop :=
  match x with
  | none => readSlot st sl = .null
  | some r => (readSlot st sl = .old r ∧ sl ∈ st.pending) ∨ (∃ m, readSlot st sl = .new m ∧ st.fwd r = some m)

/-- Slot `sl` exists and held `x` in the snapshot: a root slot, or field `j` of the to-object of
some visited `r`. -/
def Covered (S : Snap) (st : State) (sl : Slot) (x : Option Id) : Prop :=
  match sl with
  | .root k => S.roots[k]? = some x
  | .field n j => ∃ r o, st.fwd r = some n ∧ S.heap r = some o ∧ o.fields[j]? = some x

structure Inv (S : Snap) (moves : Id → Bool) (st : State) : Prop where
  hdr : ∀ r n, st.fwd r = some n →
    ∃ o, S.heap r = some o ∧ (st.tobjs n).map hdr = some (o.size, o.hash, moves r, o.fields.length)
  inj : ∀ r r' n, st.fwd r = some n → st.fwd r' = some n → r = r'
  lt : ∀ r n, st.fwd r = some n → n < st.fresh
  onto : ∀ n, (st.tobjs n).isSome = true → ∃ r, st.fwd r = some n
  rootsLen : st.troots.length = S.roots.length
  slots : ∀ sl x, Covered S st sl x → SlotRel st x sl
  reach : ∀ r n, st.fwd r = some n → Reach S r

theorem mem_eraseIdx_of_ne {α : Type} {l : List α} {i : Nat} {a b : α} (hi : l[i]? = some a)
    (hb : b ∈ l) (hne : b ≠ a) : b ∈ l.eraseIdx i := by
  rw [List.mem_eraseIdx_iff_getElem?]
  obtain ⟨j, hj⟩ := List.mem_iff_getElem?.mp hb
  refine ⟨j, ?_, hj⟩
  intro e; subst e; rw [hi] at hj; exact hne (Option.some.inj hj).symm

theorem readSlot_pending (st : State) (p : List Slot) (sl : Slot) :
    readSlot { st with pending := p } sl = readSlot st sl := by
  cases sl <;> rfl

theorem rel_old {st : State} {x : Option Id} {sl : Slot} {r : Id} (h : SlotRel st x sl)
    (hr : readSlot st sl = .old r) : x = some r ∧ sl ∈ st.pending := by
  cases x with
  | none => simp [SlotRel, hr] at h
  | some y =>
    simp only [SlotRel, hr] at h
    rcases h with ⟨e, hp⟩ | ⟨m, e, _⟩
    · injection e with e; exact ⟨by rw [e], hp⟩
    · cases e

theorem covered_of_read {S : Snap} {moves : Id → Bool} {st : State} (inv : Inv S moves st) {sl : Slot}
    (h : readSlot st sl ≠ .null) : ∃ x, Covered S st sl x := by
  cases sl with
  | root k =>
    simp only [readSlot] at h
    by_cases hk : k < st.troots.length
    · rw [inv.rootsLen] at hk
      exact ⟨S.roots[k], by simp [Covered, List.getElem?_eq_getElem hk]⟩
    · simp [List.getElem?_eq_none (Nat.le_of_not_lt hk)] at h
  | field n j =>
    simp only [readSlot] at h
    cases ht : st.tobjs n with
    | none => simp [ht] at h
    | some t =>
      simp only [ht] at h
      obtain ⟨r, hr⟩ := inv.onto n (by simp [ht])
      obtain ⟨o, ho, hh⟩ := inv.hdr r n hr
      simp only [ht, Option.map_some, hdr, Option.some.injEq, Prod.mk.injEq] at hh
      by_cases hj : j < t.fields.length
      · have hj' : j < o.fields.length := by omega
        exact ⟨o.fields[j], r, o, hr, ho, by simp [List.getElem?_eq_getElem hj']⟩
      · simp [List.getElem?_eq_none (Nat.le_of_not_lt hj)] at h

theorem reach_of_covered {S : Snap} {moves : Id → Bool} {st : State} (inv : Inv S moves st) {sl : Slot}
    {r : Id} (h : Covered S st sl (some r)) : Reach S r := by
  cases sl with
  | root k => exact Reach.root (List.mem_of_getElem? h)
  | field n j =>
    obtain ⟨r0, o, hf, ho, hj⟩ := h
    exact Reach.field (inv.reach r0 n hf) ho (List.mem_of_getElem? hj)

theorem covered_congr {S : Snap} {st st' : State} (h : st'.fwd = st.fwd) (sl : Slot) (x : Option Id) :
    Covered S st' sl x ↔ Covered S st sl x := by
  cases sl <;> simp [Covered, h]

theorem init_inv (S : Snap) (moves : Id → Bool) : Inv S moves (init S) := by
  refine ⟨by simp [init], by simp [init], by simp [init], by simp [init], by simp [init], ?_, by simp [init]⟩
  intro sl x hc
  cases sl with
  | root k =>
    simp only [Covered] at hc
    have hk : k < S.roots.length := (List.getElem?_eq_some_iff.mp hc).1
    cases x with
    | none => simp [SlotRel, readSlot, init, hc, ofRef]
    | some r =>
      left
      obtain ⟨_, he⟩ := List.getElem?_eq_some_iff.mp hc
      simp [readSlot, init, ofRef, hk, he]
  | field n j =>
    obtain ⟨r, o, hf, _⟩ := hc
    simp [init] at hf

/-- slot dropped without a store (`null`, or already a to-space reference) -/
theorem inv_drop {S : Snap} {moves : Id → Bool} {st : State} {i : Nat} {sl : Slot}
    (inv : Inv S moves st) (hp : st.pending[i]? = some sl) (hr : ∀ r, readSlot st sl ≠ .old r) :
    Inv S moves { st with pending := st.pending.eraseIdx i } := by
  refine ⟨inv.hdr, inv.inj, inv.lt, inv.onto, inv.rootsLen, ?_, inv.reach⟩
  intro sl' x hc
  have h := inv.slots sl' x ((covered_congr rfl sl' x).mp hc)
  cases x with
  | none => simpa [SlotRel, readSlot_pending] using h
  | some r =>
    simp only [SlotRel, readSlot_pending] at h ⊢
    rcases h with ⟨e, hm⟩ | h
    · left
      refine ⟨e, mem_eraseIdx_of_ne hp hm ?_⟩
      intro e'; subst e'; exact hr r e
    · right; exact h

/-- slot holds a reference to an already visited object: store the forwarded reference -/
theorem inv_update {S : Snap} {moves : Id → Bool} {st : State} {i : Nat} {sl : Slot} {r n : Id}
    (inv : Inv S moves st) (hp : st.pending[i]? = some sl) (hr : readSlot st sl = .old r)
    (hf : st.fwd r = some n) :
    Inv S moves (writeSlot { st with pending := st.pending.eraseIdx i } sl (.new n)) := by
  have hnn : readSlot { st with pending := st.pending.eraseIdx i } sl ≠ .null := by
    rw [readSlot_pending, hr]; simp
  refine ⟨?_, ?_, ?_, ?_, ?_, ?_, ?_⟩
  · intro r' n' h
    rw [writeSlot_hdr]
    exact inv.hdr r' n' (by simpa using h)
  · intro a b m h1 h2; exact inv.inj a b m (by simpa using h1) (by simpa using h2)
  · intro a m h; simpa using inv.lt a m (by simpa using h)
  · intro m h
    have : ((writeSlot { st with pending := st.pending.eraseIdx i } sl (.new n)).tobjs m).map hdr
        = (st.tobjs m).map hdr := writeSlot_hdr _ _ _ _
    have h' : (st.tobjs m).isSome = true := by
      have := congrArg Option.isSome this
      simpa [h] using this.symm
    simpa using inv.onto m h'
  · simpa using inv.rootsLen
  · intro sl' x hc
    have hc' : Covered S st sl' x := (covered_congr (by simp) sl' x).mp hc
    have h := inv.slots sl' x hc'
    by_cases hs : sl' = sl
    · subst hs
      obtain ⟨hx, _⟩ := rel_old h hr
      subst hx
      right
      exact ⟨n, readSlot_writeSlot_same _ _ _ hnn, by simpa using hf⟩
    · cases x with
      | none => simpa [SlotRel, readSlot_writeSlot_ne _ _ _ _ hs, readSlot_pending] using h
      | some y =>
        simp only [SlotRel, readSlot_writeSlot_ne _ _ _ _ hs, readSlot_pending, writeSlot_pending,
          writeSlot_fwd] at h ⊢
        rcases h with ⟨e, hm⟩ | h
        · left; exact ⟨e, mem_eraseIdx_of_ne hp hm hs⟩
        · right; exact h
  · intro a m h; exact inv.reach a m (by simpa using h)

end Mmtk.Trace
