import Driver.Util
import Driver.GCWeak.Mon
/-! package `gcweak` (C05–C08, C12, C13 on top of the snapshot monitor of package `gcmon`): register
components in `step`. -/
namespace Driver.GCWeak.Pkg
open Driver

structure St where
  gcw : Driver.GCWeak.St := {}

/-- `none` = not a component of this package. -/
def step (st : St) (toks : List String) : Option (St × String) :=
  match toks with
  | "gcw" :: args =>
    let (s, o) := Driver.GCWeak.step st.gcw args
    some ({ st with gcw := s }, o)
  | _ => none

def cfg (st : St) (_toks : List String) : St := st

end Driver.GCWeak.Pkg
